#!/usr/bin/env python3
"""Confirm seeded changes delivered by sub-agents and copy the confirmed ones into seeded/.
Usage: ingest_seeded.py <root> <variants e.g. CD>   (expects <root>/<Cxx>/out/<V>/{patch.diff,demo*,meta.json})
Confirmation in a scratch worktree outside /repo and /verif: patch applies, repo builds, the whole existing suite
passes, the demo FAILS with the patch and PASSES without it."""
import json, os, re, subprocess, sys, shutil
root, variants = sys.argv[1], sys.argv[2]
only = sys.argv[3:]
WT = "/tmp/ingest_wt"
VERIF = os.path.dirname(os.path.dirname(os.path.abspath(__file__)))
env = dict(os.environ, GOFLAGS="-mod=mod", GOPROXY="off", GOSUMDB="off", GOTOOLCHAIN="local")
def sh(cmd, cwd=WT):
    p = subprocess.run(cmd, cwd=cwd, env=env, shell=True, stdout=subprocess.PIPE, stderr=subprocess.STDOUT, text=True, errors="replace")
    return p.returncode, p.stdout
subprocess.run("git -C /repo worktree remove --force %s 2>/dev/null; git -C /repo worktree prune; git -C /repo worktree add -q --detach %s HEAD" % (WT, WT), shell=True)
try:
    for prop in sorted(os.listdir(root)):
        if not re.fullmatch(r"C\d\d", prop) or (only and prop not in only):
            continue
        for v in variants:
            d = os.path.join(root, prop, "out", v)
            name = prop + v
            if not os.path.isfile(os.path.join(d, "patch.diff")):
                continue
            if os.path.isdir(os.path.join(VERIF, "seeded", name)):
                continue
            demos = [f for f in os.listdir(d) if f.startswith("demo")]
            if not demos:
                print(name, "no demo"); continue
            demo = demos[0]
            dp = os.path.join(d, demo)
            if os.path.isdir(dp):
                demo = os.path.join(demo, os.listdir(dp)[0]); dp = os.path.join(d, demo)
            head = open(dp).read(4000)
            m = re.search(r"((?:pkg|internal|cmd)/[\w/.\-]+\.go)", head)
            r = re.search(r"(go (?:test|run) [^\n`]*)", head)
            if not m or not r:
                print(name, "cannot parse demo header"); continue
            dest, cmd = m.group(1), r.group(1).strip().rstrip(").").strip()
            sh("git checkout -q -- . && git clean -fdq")
            rc, out = sh("git apply %s/patch.diff" % d)
            if rc:
                print(name, "patch does not apply:", out[:200]); continue
            rc, out = sh("go build ./... && go test -vet=off -count=1 ./...")
            suite = rc == 0
            os.makedirs(os.path.dirname(os.path.join(WT, dest)), exist_ok=True)
            shutil.copy(dp, os.path.join(WT, dest))
            rc1, o1 = sh(cmd)
            sh("git checkout -q -- .")
            rc2, o2 = sh(cmd)
            os.remove(os.path.join(WT, dest))
            ok = suite and rc1 != 0 and rc2 == 0
            print(name, "confirmed" if ok else "NOT CONFIRMED", dict(suite=suite, demo_fails_with=rc1 != 0, demo_passes_without=rc2 == 0), flush=True)
            if not ok:
                print("   cmd:", cmd, "| dest:", dest, "|", (o2 if rc2 else o1)[-300:].replace("\n", " | "))
                continue
            out_dir = os.path.join(VERIF, "seeded", name)
            os.makedirs(out_dir)
            shutil.copy(os.path.join(d, "patch.diff"), out_dir)
            shutil.copy(dp, os.path.join(out_dir, os.path.basename(dp)))
            meta = json.load(open(os.path.join(d, "meta.json"))) if os.path.exists(os.path.join(d, "meta.json")) else {}
            meta["confirmed_by_framework_author"] = {"suite_passes_with_patch": True, "demo_fails_with_patch": True, "demo_passes_without_patch": True,
                                                    "demo_destination": dest, "demo_command": cmd, "round": int(os.environ.get("SEED_ROUND", "3"))}
            json.dump(meta, open(os.path.join(out_dir, "meta.json"), "w"), indent=1)
finally:
    subprocess.run("git -C /repo worktree remove --force %s; git -C /repo worktree prune" % WT, shell=True)
