"""Per-property configuration of bin/check: theorem modules, campaign mode, trusted base."""

KERNEL = "Lean 4.33.0 kernel (every property theorem's axiom closure is audited to be a subset of propext, Classical.choice, Quot.sound; no sorry/admit/axiom/native_decide/bv_decide)"
MODEL = "hand-written Lean model of pkg/sif (lean/SifVerif/Model/*.lean), tied to the Go code by the correspondence campaign of this run (and by regenerated source facts where extract/ covers them)"
HARNESS = "the Go harness/comparator (harness/*.go) and the Lean line-protocol driver (lean/Driver/Main.lean): a bug there could hide a disagreement"
STDLIB = "modelled, not verified: encoding/binary, io.Copy/CopyN/SectionReader/MultiReader/TeeReader, google/uuid, go-containerregistry v1.Hash text codec, the Go runtime and OS file"
CORR = "correspondence shows agreement on the inputs run, not on all inputs; the generator's measured distribution is in coverage.distribution"
RANGES = "theorems about histories assume `Ranges` of every reached state (all header/descriptor integers representable in their Go types, i.e. no int64 wrap-around) and exclude store I/O failures (C09's subject); the Lean driver evaluates Ranges, WF and Placed on every state the campaign reaches and prints `inv ok`, compared with the harness's constant `inv ok`"

BASE = [KERNEL, MODEL, HARNESS, STDLIB]
HIST = "Lean 4 theorems (induction over operation histories, invariants, frame lemmas) about an executable model of pkg/sif + byte-exact differential correspondence (Go library vs Lean driver) on generated histories + implementation-only oracle"

CRYPTO = "cryptography is idealised by explicit theorem hypotheses, never axioms: the hash is an arbitrary function `H` (injective where collision resistance is needed, `HInj`), and the third-party envelope layers (encoding/json, clearsign.Decode, OpenPGP signature check, sigstore/go-securesystemslib DSSE verification) enter as universally quantified per-blob facts `SigFacts` constrained by `Honest` (what a trusted key validates decodes to metadata its holder signed); in the driver the facts come from a Go oracle that calls those libraries directly, not pkg/integrity"
INTEG = "Lean 4 theorems about an executable model of pkg/integrity parametric in hash and envelope facts + differential correspondence on signed-image scenarios (real keys, real Sign/Verify vs Lean model fed by the crypto oracle) + implementation-only oracle"
IBASE = BASE + [CRYPTO, "modelled, not verified: ProtonMail go-crypto (openpgp, clearsign), sigstore + go-securesystemslib DSSE, encoding/json, encoding/base64, crypto/* hashes (the driver's own SHA-2 is cross-checked against them by every digest comparison of the campaign)"]

PROPS = {
    "C01": {
        "modules": ["SifVerif.Props.C01"],
        "theorems": ["C01_add", "C01_create", "C01_persist", "C01_reload", "C01_name", "C01_launch", "C01_name_trailing_nul", "C01_oci_digest", "C01_oci_default"],
        "mode": "hist", "technique": HIST,
        "level_text": "proof: for every well-formed and correctly placed handle and every descriptor input, an accepted AddObject yields a descriptor whose content read back through the store equals the input bytes (any length/alignment) and whose attributes are those recorded by fillDescriptor (C01_add); CreateContainer with any list of initial objects returns each of them, in order, with launch script, ID and times as given (C01_create); content and descriptors persist through any later operation that does not target them (C01_persist, from the C03 frame theorem) and a reload sees the same view (C01_reload, from C08); NUL-padded names and launch scripts round-trip unless they end in NUL (C01_name, C01_launch; C01_name_trailing_nul proves what happens at the excluded point); OCI objects carry sha256 of exactly the stored bytes (C01_oci_digest). SHA-256 is a parameter of the theorems. Tie: byte-exact correspondence of whole files and full views on create/add histories incl. boundary sizes and alignments on both backends, plus a read-back oracle.",
        "summary": "create/add then read back returns exactly the inputs, on the handle and after load; OCI extra = digest of stored bytes",
        "trusted_base": BASE,
        "assumptions": [CORR, RANGES, "SHA-256 enters the theorems as an uninterpreted function `sha`; the driver's SHA-256 (Driver/SHA2.lean) is validated against Go's crypto/sha256 by every OCI object of the campaign"],
    },
    "C02": {
        "modules": ["SifVerif.Props.C02"],
        "theorems": ["C02_rejected", "C02_ids_accounting", "C02_invariant_step", "C02_history", "C02_created", "C02_add_fresh_id", "C02_mtime"],
        "mode": "hist", "technique": HIST,
        "level_text": "proof: WF (unique live IDs, free+used=capacity, header/table bytes = encoding of the handle, coherent minimum-ID cache, …) is an invariant of every operation from any well-formed state, created (C02_created) or foreign, along histories of any length (C02_invariant_step, C02_history); a rejected operation of any kind leaves header, descriptors, cache, every object's content and the header/table bytes unchanged (C02_rejected, full strength after the D1/D9 repair); AddObject never reuses a live ID on any table (C02_add_fresh_id, D5 repair); requested modification times are recorded (C02_mtime). Partial: the primary-partition/architecture clause is checked by the oracle and correspondence only, and is a known finding when partition metadata is written as raw bytes (D7); the abstract slot-map refinement is expressed through the per-operation effect theorems of C01/C03 rather than a separate spec type. Tie: accept/reject and full view after every step of generated histories with every rejection kind.",
        "summary": "invariants by induction over any history from any well-formed state; rejected op = identity",
        "trusted_base": BASE,
        "assumptions": [CORR, RANGES],
    },
    "C03": {
        "modules": ["SifVerif.Props.C03"],
        "theorems": ["C03_nextAligned", "C03_created", "C03_preserved", "C03_history", "C03_table", "C03_frame", "C03_frame_desc_add", "C03_frame_desc_del", "C03_aligned", "C03_zero_exact", "C03_compact_end"],
        "mode": "hist", "technique": HIST,
        "level_text": "proof: total specification of nextAligned on all of int64>=0 (least aligned offset, or overflow exactly when none fits); the placement invariant (live regions pairwise disjoint, after the table, inside the data section and the file) holds for created images and is preserved by every operation along any history (C03_created, C03_preserved, C03_history); no operation changes a byte of a surviving object's region or descriptor (C03_frame, C03_frame_desc_*), proved through a call-level safety predicate closed under prefixes and torn writes; new objects start at a multiple of the requested alignment (C03_aligned). Tie: whole file compared byte for byte after every step; independent raw decoder oracle. After a zeroing delete every byte of every deleted object still inside the file is zero (C03_zero_exact); after a compacting delete the file ends exactly at DataOffset+DataSize, DataSize being the end of the last surviving object (C03_compact_end).",
        "summary": "placement invariant, frame lemmas, nextAligned total spec",
        "trusted_base": BASE,
        "assumptions": [CORR, RANGES],
    },
    "C08": {
        "modules": ["SifVerif.Props.C08"],
        "theorems": ["C08_sync", "C08_step", "C08_history", "C08_reload_noop", "C08_sign_verify_same"],
        "mode": "hist", "technique": HIST,
        "level_text": "proof: for every well-formed handle a fresh load of the current bytes succeeds and yields the same view - header, every live descriptor, relative IDs, contents, header and descriptor integrity streams (C08_sync); WF is preserved by every accepted or rejected operation, so this holds after every step of every history (C08_step, C08_history); any function of the view - in particular signing and verification - gives the same outcome on handle and reload (C08_sign_verify_same). Full strength after the D1/D2 repairs. Tie: handle view vs reload view vs model, after every step, both backends.",
        "summary": "load (bytes s) ~ s for every reachable handle state incl. after rejected ops",
        "trusted_base": BASE,
        "assumptions": [CORR, RANGES],
    },
    "C11": {
        "modules": ["SifVerif.Props.C11", "SifVerif.Props.FactsLayout"],
        "theorems": ["header_layout", "header_offsets", "descriptor_layout", "descriptor_offsets", "magic", "arch_maps", "data_types", "C11_sizes", "C11_hdr_offsets", "C11_desc_offsets", "C11_roundtrip", "C11_int_codecs", "C11_load_encoded", "C11_encodeImage_loadable", "C11_refuse", "C11_group_link"],
        "mode": "hist", "technique": HIST,
        "level_text": "proof: header = 128 bytes, descriptor = 585 bytes, every field at its fixed little-endian offset (C11_sizes, C11_*_offsets); decode o encode = id on all representable values (C11_roundtrip, C11_int_codecs); any image laid out that way by an independent encoder - arbitrary valid fields, free slots, ID numbering, placement, gap after the table - loads with exactly that header and those descriptors (C11_load_encoded, C11_encodeImage_loadable); magic/version mismatch is refused (C11_refuse); group/link nibble encoding (C11_group_link). Tie: the Lean encoder's bytes equal the library's files byte for byte on every campaign step and the library's loader agrees with the Lean decoder on them; independent Go decoder oracle.",
        "summary": "fixed offsets, 128/585 bytes, decode.encode = id; load of any encoded image yields that image; wrong magic/version refused",
        "trusted_base": BASE,
        "assumptions": [CORR],
    },
    "C12": {
        "modules": ["SifVerif.Props.C12"],
        "theorems": ["C12_step", "C12_noninterference", "C12_create", "C12_create_det_option", "C12_zero_fields_add", "C12_stays_deterministic"],
        "mode": "hist", "technique": HIST,
        "level_text": "proof (non-interference): the clock reading and the random UUID are explicit parameters of the model; an operation that carries the deterministic option or an explicit time, or is applied to an already deterministic image, has an outcome (handle, bytes, result) independent of the clock (C12_step), hence whole histories do (C12_noninterference); creation likewise (C12_create, C12_create_det_option); deterministic histories keep nil ID and zero times (C12_stays_deterministic, C12_zero_fields_add). Backend independence is C14 (known finding D8 for capacity 0). Signature-blob determinism is outside the model. Tie: every history is run twice across a wall-clock second boundary on the two backends and compared with each other and with the model's bytes.",
        "summary": "bytes do not depend on clock or RNG under deterministic/explicit options",
        "trusted_base": BASE,
        "assumptions": [CORR, "signing with a fixed signature time is not modelled (the signature blob is an input of the model)"],
    },
    "C13": {
        "modules": ["SifVerif.Props.C13"],
        "theorems": ["C13_filter", "C13_filter_pred", "C13_sublist", "C13_single", "C13_empty", "C13_zero_partial", "D6_witness"],
        "mode": "hist", "technique": HIST,
        "level_text": "proof: the selection functions of the model are proved, for every image and every selector tuple, to return exactly the filter of the live descriptors in table order, and the single-object form the unique match / not-found / multiple-found; the model is tied to select.go by the query correspondence (selector tuples of length 0-3 on every image reached by generated histories, implementation vs Lean driver) and an implementation-only oracle. The zero-ID/group clause holds only when the selector is evaluated (known finding D6, proved as D6_witness).",
        "summary": "GetDescriptors = filter of the live descriptors by the conjunction of the selectors, in table order; GetDescriptor = unique/not found/multiple; empty image; zero id/group",
        "trusted_base": BASE,
        "assumptions": [CORR, "v1.Hash.UnmarshalText is a parameter of the theorems (any function); the driver instantiates it with parseHashV1, validated by the campaign's OCI-digest selectors"],
    },
    "C14": {
        "modules": ["SifVerif.Props.C14"],
        "theorems": ["C14_call", "C14_calls", "C14_read", "C14_library_calls", "C14_step", "C14_history", "D8_witness", "D8_capacity_zero"],
        "mode": "hist", "technique": HIST,
        "level_text": "proof: on every call of a shape the library issues (absolute seek >= 0, non-empty write anywhere incl. past the end, truncation within the length, seek-to-end, any positioned read) the Buffer model and the file model agree step by step (C14_call, C14_calls, C14_read); every call of every operation on a well-formed image of capacity > 0 has such a shape - in particular truncation never grows (C14_library_calls, D3 repair); hence every operation and every history returns the same results and byte-identical contents on both backends (C14_step, C14_history). The excluded shape (empty write past the end, issued only for capacity 0) really differs: D8_witness, D8_capacity_zero (known finding D8). The file model is a model of the OS, validated by running every history on a real os.File. Tie: three-way lock-step (Lean models, sif.Buffer, os.File).",
        "summary": "Buffer model ~ POSIX-file model on the library's call shapes; library never truncates beyond the end",
        "trusted_base": BASE + ["the `Backend.file` model of write/ftruncate semantics (validated only by the os.File runs of this campaign)"],
        "assumptions": [CORR, RANGES],
    },
    "C04": {
        "modules": ["SifVerif.Props.C04", "SifVerif.Props.FactsStreams"],
        "theorems": ["hdr_stream_fields", "desc_stream_fields", "C04_streams_injective", "C04_sound", "C04_no_change_survives", "C04_unprotected_fields"],
        "mode": "integ", "technique": INTEG,
        "level_text": "proof (crypto idealised): the header and descriptor integrity streams are injective encodings of exactly the protected fields (C04_streams_injective); if verification succeeds then for every group task and every signature checked there is a supplied key and metadata its holder signed whose header digest is that of the image's header stream and whose entry at each verified object's position relative to the group holds the digests of that object's descriptor stream and content (C04_sound, under Honest); two images matching the same signed metadata agree on every protected header and descriptor field, the relative position, and the content byte for byte (C04_no_change_survives, under HInj); the fields verification does not notice are not in the streams (C04_unprotected_fields). Tie: tamper campaign - single-bit flips of header/table/data/signatures, catalogue field rewrites, descriptor swaps on images signed with real PGP/DSSE keys; the Lean model decodes the raw bytes itself, recomputes every digest with its own SHA-2 and predicts Verify()'s verdict and results.",
        "summary": "verify ok => protected view = signed view; integrity streams injective",
        "trusted_base": IBASE, "assumptions": [CORR, CRYPTO],
    },
    "C05": {
        "modules": ["SifVerif.Props.C05"],
        "theorems": ["C05_default_sound", "C05_ungrouped_object", "C05_no_groups", "C05_unsigned_group", "C05_whole_group_removed_partial"],
        "mode": "integ", "technique": INTEG,
        "level_text": "proof: if NewVerifier with default options followed by Verify succeeds then every live ungrouped object is a signature, at least one group exists, and every group with a live member has at least one non-legacy signature linked to it, each of which was checked with supplied key material, is valid, and carries metadata whose absolute object IDs are exactly the IDs of the group's current members, all of which match their descriptor and content digests (C05_default_sound); hence an ungrouped non-signature object, an unsigned group, an extra or missing member, or no grouped object at all make it fail (C05_ungrouped_object, C05_unsigned_group, C05_no_groups). Known finding D10 (C05_whole_group_removed_partial): removing every member of a group is not noticed because groups are signed independently. Tie: API edits and descriptor-table edits after signing, model verdict vs Verify().",
        "summary": "default verify ok => all non-signature objects grouped, every group signed, every linked signature valid, signed set = member set",
        "trusted_base": IBASE, "assumptions": [CORR, CRYPTO],
    },
    "C06": {
        "modules": ["SifVerif.Props.C06"],
        "theorems": ["C06_sign_shape", "C06_metadata", "C06_signed_is_current", "C06_complete", "C06_reports_covered", "C06_same_view", "C06_add_elsewhere"],
        "mode": "integ", "technique": INTEG,
        "level_text": "proof (crypto and JSON idealised as hypotheses on per-blob facts): Sign appends, per signer, exactly one ungrouped Signature object linked with the group flag to the signed group, carrying hash type and fingerprint (C06_sign_shape), whose signed message is the metadata of exactly the signer's objects (C06_metadata, C06_signed_is_current); verification succeeds, and every result reports exactly its task's objects, whenever every signature the tasks look at is good - validated by a supplied key, fingerprint = validating entity's, message decoding to the metadata of the covered objects of the image being verified (C06_complete, C06_reports_covered; the converse of C04_sound); that metadata depends on the image only through its protected view - header stream and per object relative ID, descriptor stream, content - so a signature made on one image is good on every image with the same view: reloaded, relocated, a group's IDs shifted together, unprotected header fields changed (C06_same_view); adding an object outside the group - the signature objects Sign itself appends, co-signatures, objects elsewhere - leaves the header stream, the members and each member's descriptor stream and content unchanged (C06_add_elsewhere). Deletion elsewhere is decided by the campaign only. Tie: every generated image x key kind x selection is signed with the real library, the signed payload must equal the model's encMD byte for byte, the bytes after Sign must equal the model's, and verification of what was signed must succeed on the handle, after reload, after co-signing and after adds/deletes elsewhere.",
        "summary": "good signatures => verify ok and reports covered objects; signed metadata depends only on the protected view; add elsewhere preserves it",
        "trusted_base": IBASE, "assumptions": [CORR, CRYPTO, "signature generation is third-party: the model takes the envelope blob as an input"],
    },
    "C07": {
        "modules": ["SifVerif.Props.C07"],
        "theorems": ["C07_decoder", "C07_never_skipped", "C07_foreign_payload", "C07_reported", "C07_fingerprint", "C07_only_trusted", "C07_no_keys"],
        "mode": "integ", "technique": INTEG,
        "level_text": "proof: the decoder is chosen by content, missing key material for the chosen scheme or an unrecognised format is an error (C07_decoder, C07_no_keys); on success every signature of every task was checked by a decoder built from supplied material (C07_never_skipped); an envelope of a foreign payload type is never accepted (C07_foreign_payload); the reported keys are exactly the supplied verifiers that validate the envelope and the reported entity is the real signer from the supplied keyring (C07_reported); a PGP-verified signature names its signer's fingerprint (C07_fingerprint); every accepted signature was validated by a supplied key (C07_only_trusted). Tie: (signers, trusted) matrix over PGP/ed25519/ECDSA/RSA keys, scheme mixtures, fingerprint rewrites, foreign payload types, unrecognised formats.",
        "summary": "decoder choice, no key material => error, fingerprint binding, reported keys = accepting keys",
        "trusted_base": IBASE, "assumptions": [CORR, CRYPTO],
    },
    "C16": {
        "modules": ["SifVerif.Props.C16"],
        "theorems": ["C16_filter", "C16_tasks_kind", "C16_no_cross", "C16_json_not_legacy_digest", "C16_legacy_sound", "C16_group_boundaries_unprotected"],
        "mode": "integ", "technique": INTEG,
        "level_text": "proof: group-linked signatures are considered iff their kind is the requested one (C16_filter); default mode builds only current-format tasks and legacy modes only legacy tasks (C16_tasks_kind); if every signature linked to a group is of the other kind the request cannot succeed (C16_no_cross) and a JSON plaintext is never a legacy digest (C16_json_not_legacy_digest); a successful legacy verification means a supplied key validated the clear-signed message, the descriptor names that key, and the covered content hashes to the signed digest (C16_legacy_sound); in legacy group mode the unit is the concatenation (C16_group_boundaries_unprotected, observation O1). Tie: shipped legacy images and hand-made SIFHASH signatures mixed with current ones, every mode, with tampering.",
        "summary": "legacy/current signatures selected only by the matching mode; legacy soundness",
        "trusted_base": IBASE, "assumptions": [CORR, CRYPTO],
    },
    "C17": {
        "modules": ["SifVerif.Props.C17"],
        "theorems": ["C17_exact", "C17_read_only", "C17_validated"],
        "mode": "integ", "technique": INTEG,
        "level_text": "proof: AnySignedBy/AllSignedBy return, strictly sorted in byte order and duplicate-free, exactly the fingerprints recorded on signatures attached to at least one / every selected task (C17_exact); the listing depends on the image bytes only and produces no new image (C17_read_only); after a successful verification every PGP-path signature of a group task carries the fingerprint of the keyring entity that validated it (C17_validated). Tie: multi-group multi-signer images x task selections, listing vs model and vs an independent recomputation; file bytes compared before/after.",
        "summary": "any = sorted dedup union, all = sorted dedup intersection; PGP fingerprints listed => validated",
        "trusted_base": IBASE, "assumptions": [CORR, CRYPTO],
    },
    "C18": {
        "modules": ["SifVerif.Props.C18"],
        "theorems": ["C18_all_schedules", "C18_interleaving", "C18_write_breaks", "C18_model_queries", "C18_no_shared_writes", "C18_store_only_positioned_reads", "C18_store_uses_seen", "C18_entries_cover"],
        "mode": "integ", "race": True, "technique": "Lean 4 interleaving theorem (every schedule of threads whose steps only read the shared handle yields each thread's run-alone answer) + certificate regenerated from the Go source on every run (extract/effects.go: no store to shared state in any function reachable from the read-only API; checked by `decide` in Lean) + -race stress correspondence (concurrent answers on fresh handles = run-alone answers = Lean model's answers)",
        "level": "proof",
        "level_text": "proof + regenerated certificate (partial: the Go memory model and the caller's ReaderAt are trusted): for threads whose steps may read a shared state but only change their private accumulator, under every schedule each finished thread holds exactly its run-alone result (C18_interleaving, C18_all_schedules); one storing step breaks this (C18_write_breaks, the shape of a lazily built cache); all model queries are functions of (Img, Store) and so have that shape (C18_model_queries). The premise for the Go code - no function reachable from any exported non-mutating function of pkg/sif and pkg/integrity (calls, references, closures, interface dispatch by name) stores through *FileImage/*header/*rawDescriptor, to a package-level variable, calls a pointer-receiver method on one, hands &shared to foreign code, or calls Write/Seek/Truncate on the backing store, and the backing store itself (the io.ReaderAt/ReadWriter field) is used only as the receiver of ReadAt, the source of io.NewSectionReader or copied into a Descriptor, never type-asserted to a wider interface or handed elsewhere (C18_store_only_positioned_reads, C18_store_uses_seen) - is extracted from the current source by go/types on every run and must be the empty list (C18_no_shared_writes, C18_entries_cover for non-vacuity). Tie: harness built with -race; signed images built through the library (construction and run-alone answers compared with the Lean model), then fresh handles on both backing stores are used by 2-8 goroutines whose first access is concurrent, a third of the images holding an object of 32 KiB+1 to 1 MiB+4097 bytes; every answer (listings with selectors, data, held-then-drained integrity streams, Verify, AnySignedBy) must equal the run-alone answer; any race-detector report is a violation.",
        "summary": "read-only steps commute: every schedule gives each thread its run-alone answer; Go read paths perform no shared store (regenerated certificate)",
        "trusted_base": IBASE + ["extract/effects.go (go/types source importer): syntactic effect analysis without alias analysis through interfaces, reflection or unsafe; Go memory model (race-free programs are sequentially consistent); the caller-supplied ReaderAt is safe for concurrent ReadAt (true of *os.File and sif.Buffer.ReadAt, which the scan covers)"],
        "assumptions": [CORR, "the interleaving theorem models each API call as a sequence of atomic read steps; that abstraction is sound for race-free code (certificate + race detector) under the Go memory model"],
    },
    "C09": {
        "modules": ["SifVerif.Props.C09", "SifVerif.Props.FactsCalls"],
        "theorems": ["C09_bystander_content", "C09_data_phase", "C09_between_calls", "C09_bystander_descriptor", "C09_add_atomic", "C09_every_interruption", "flush_crash_full", "C09_error_returned", "callsPrefix_crash", "add_order", "delete_order", "set_orders", "no_discarded_errors"],
        "mode": "hist", "technique": "Lean 4 theorems about the I/O plans of the model (interruption relation CrashOf: every prefix of whole calls, optionally a torn prefix of the next write) + call-for-call correspondence of the recorded Seek/Write/Truncate trace of every real operation with the model's plan + call-order/unchecked-error facts regenerated from the Go source + implementation oracle: every enumerated crash image loaded by the real library, every single injected failure (error and short-write) re-run on the real library",
        "level": "proof",
        "level_text": "proof: for every well-formed placed handle and every operation, at every interruption including torn writes every surviving object's content is byte-identical and inside the file (C09_bystander_content); every plan is a data phase followed by writeDescriptors();writeHeader(), and at every interruption of the data phase, torn data writes included, the file loads as exactly the old image (C09_data_phase); at every interruption between calls the file loads as old header+table, old header+new table, or new header+table (C09_between_calls), a slot the operation leaves alone holds the same descriptor in all of them (C09_bystander_descriptor), and an added object is absent or completely present with its content (C09_add_atomic); at EVERY interruption - the descriptor-table and header writes torn at any byte included - the file loads and every slot the operation leaves alone holds the same descriptor, for images whose slots are clean (every slot, in use or free, holds a non-negative offset and size; preserved by every operation - clean_plan - and true of everything the library writes) (C09_every_interruption, flush_crash_full; byte-level: a mix of two encodings of non-negative int64 values is non-negative, a mix of two headers agreeing on magic/version/count/table offset/size decodes to them); without clean slots the statement is false of the code (finding D11, foreign images only); a failing call makes the operation return the I/O error and leaves a between-calls interruption (C09_error_returned, callsPrefix_crash). Tie: a recording/fault-injecting ReadWriter around both backing stores; the recorded trace of every add/delete/set*/sign equals the model's plan call for call (io lines); every crash image (all call prefixes, torn writes at 1, L/2, L-1, around the first differing byte and at descriptor boundaries) is loaded with the real LoadContainer and bystanders compared; every call position is re-run with an injected error and an injected short write and must return an error and leave such an image; call order and absence of discarded errors are regenerated from the source (FactsCalls).",
        "summary": "interruptions never touch bystanders; data phase invisible; between calls: loads as old/mixed/new; add atomic; I/O error returned",
        "trusted_base": BASE + ["the interposer sees every mutating call because sif.ReadWriter is the only path to the store; os.File/sif.Buffer semantics as modelled by Store (C14); sector-granularity tearing is approximated by the byte positions listed in harness/crash.go"],
        "assumptions": [CORR, "C09_every_interruption assumes clean slots (D11 is its failure on foreign images); sector-granularity tearing is covered by byte-granularity tearing in the theorem and approximated by listed tear points in the campaign"],
    },
    "C10": {
        "modules": ["SifVerif.Props.C10"],
        "theorems": ["C10_load_bounded", "C10_loaded_safe", "C10_reads_bounded", "C10_section_no_panic", "goLimit_eq_sectionLimit", "D4c_witness", "D12_witness", "readCount_bounded", "readDescriptors_inv", "sectionRead_some"],
        "mode": "hostile", "timeout": 3400,
        "technique": "Lean 4 theorems about the model's loader for every byte string (descriptor reads bounded by the bytes present; what loads satisfies the preconditions under which io.SectionReader cannot overflow; object reads bounded) + loader correspondence on hostile inputs (real LoadContainer accept/refuse and view = Lean model) + implementation oracle: every enumerated mutation run through every read-only facility and the siftool inspection commands in memory-limited child processes without recover, with wall time and allocation measured per input",
        "level": "proof",
        "level_text": "proof (partial: panics, hangs and allocation of the Go code itself are decided by the child-process campaign; the Lean model is total and cannot exhibit a panic): for every byte string and every header in it, the descriptors the loader holds in memory were each read from bytes present in the input - 585 x reads <= length, whether the load is then accepted or refused (C10_load_bounded, readCount_bounded); whatever loads has a non-negative count and table offset, exactly count descriptors, 585 x count <= input length, and no in-use descriptor with a negative offset or size - the conditions under which io.SectionReader cannot overflow (C10_loaded_safe); an object read returns at most min(declared size, bytes present) bytes (C10_reads_bounded); in wrapping int64 arithmetic, io.SectionReader's first read never gets a negative slice bound for a non-negative offset and any size (C10_section_no_panic), whereas the two inputs found by the campaign do (D4c_witness, D12_witness). Tie and search: generated signed images and shipped corpus images x {every single-bit flip of the header and of the used descriptors, boundary values (0, 1, -1, min/max int64, file size -1/+0/+1, 2x, 2^19..2^40) in every numeric header and descriptor field singly and in pairs, truncations, noise}; each input is loaded and exercised (all accessors, selection, GetData/GetReader/GetIntegrityReader, metadata getters, AnySignedBy/AllSignedBy, ten Verify flavours (PGP keyring, DSSE verifiers, both; default, legacy, legacy-all, group, object, legacy+group, legacy+object; no key material), siftool header/list/info/dump) in a child process with a 6 GiB address-space cap and no recover; a death, a 20 s stall, LoadContainer allocating > 4n+64KiB, one GetData allocating > 4n+64KiB, the battery allocating > 96n+24MiB or taking > 5 s is a violation with the input as replay; a sample of the survived inputs is loaded by the Lean model and its accept/refuse decision and full view compared with the library's.",
        "summary": "loader memory <= input length; loaded => non-negative count/offsets/sizes; reads <= min(size, present)",
        "trusted_base": BASE + ["Go runtime MemStats.TotalAlloc as the allocation measure; RLIMIT_AS in the child; the enumerated mutation families (not coverage-guided fuzzing: no Go fuzzing engine corpus is kept; stated in DESIGN.md)"],
        "assumptions": [CORR, "never-panics / never-loops / proportional allocation of the Go code are shown on the enumerated inputs only"],
    },
    "C15": {
        "modules": ["SifVerif.Props.C15"],
        "theorems": ["dataType_table", "arch_table", "hash_table", "sbom_table", "changed_flags", "id_parse", "flag_decls", "C15_id_32bit", "C15_add_is_library_add", "C15_del_is_library_delete", "C15_setprim_is_library_setprim", "C15_argument_error_untouched", "C15_read_only", "C15_failed_unchanged", "C15_add_then_dump"],
        "mode": "hist",
        "technique": "Lean 4 model of siftool's argument translation (Model/Siftool.lean) over the library model, with its tables checked by `decide` against facts regenerated from pkg/siftool on every run, theorems about what each command is and leaves behind + differential correspondence on histories of invocations of the siftool binary built from the working tree (exit status, dump output, file bytes and full view after every command) + implementation oracle (header/list/info output vs the library's accessors; failing command leaves the view unchanged)",
        "level": "proof",
        "level_text": "proof: the data-type, architecture, hash-type (composed with the library's sifHashType) and SBOM tables of the model are the tables in pkg/siftool/add.go now, presence - not value - decides for exactly link/alignment/filename, every <id> is parsed base 10 into 32 bits (facts regenerated from the source, compared by decide); an <id> is accepted only as a decimal numeral below 2^32 (C15_id_32bit); add/del/setprim are exactly load + the library operation with the translated arguments + the resulting bytes (C15_*_is_library_*); an argument error leaves the file untouched (C15_argument_error_untouched) and a failing library operation leaves a file that loads with the same header, descriptors and object contents (C15_failed_unchanged); header/list/info/dump return the file unchanged (C15_read_only); after a successful add, dump of the new ID prints exactly the object file's bytes (C15_add_then_dump). Tie: the siftool binary is built from $REPO on every run; histories of new/add/del/setprim/dump/info/header/list with valid and invalid arguments (every add flag, present/absent/zero, unparsable values, IDs that are non-numeric, negative, absent, beyond 32 and 64 bits with live low bits, payloads from empty to multi-megabyte with arbitrary bytes) are executed by the binary and by Cli.run; exit status, dump output, the file's bytes and view after every command must agree; header/list/info output is compared field by field with the library's accessors; a failing command must print a message and leave the view unchanged.",
        "summary": "siftool tables = source tables; mutating command = load + library op with translated args; failure leaves view unchanged; dump(add(x)) = x",
        "trusted_base": BASE + ["cobra/pflag flag parsing (unparsable flag values are expected to fail, not modelled)", "text/tabwriter rendering of header/list/info is compared by an independent re-rendering in the harness, not modelled in Lean"],
        "assumptions": [CORR],
    },
}
