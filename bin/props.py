"""Per-property configuration of bin/check: theorem modules, campaign mode, trusted base."""

KERNEL = "Lean 4.33.0 kernel (every property theorem's axiom closure is audited to be a subset of propext, Classical.choice, Quot.sound; no sorry/admit/axiom/native_decide/bv_decide)"
MODEL = "hand-written Lean model of pkg/sif (SifVerif/Model/*.lean), tied to the Go code by the correspondence campaign of this run and by the regenerated facts (SifVerif/Generated/Facts.lean, Props/FactsCheck.lean)"
HARNESS = "the Go harness/comparator (harness/*.go) and the Lean line-protocol driver (Driver/Main.lean): a bug there could hide a disagreement"
STDLIB = "modelled, not verified: encoding/binary, io.Copy/CopyN/SectionReader/MultiReader/TeeReader, google/uuid, go-containerregistry v1.Hash text codec, the Go runtime"
CORR = "correspondence shows agreement on the inputs run, not on all inputs; the generator's measured distribution is in coverage.distribution"

BASE = [KERNEL, MODEL, HARNESS, STDLIB]

PROPS = {
    "C13": {
        "modules": ["SifVerif.Props.C13"],
        "theorems": ["C13_filter", "C13_filter_pred", "C13_sublist", "C13_single", "C13_empty", "C13_zero_partial", "D6_witness"],
        "mode": "hist",
        "level_text": "proof: the selection functions of the model are proved, for every image and every selector tuple, to return exactly the filter of the live descriptors in table order, and the single-object form the unique match / not-found / multiple-found; the model is tied to select.go by the query correspondence (every selector tuple of length 0-3 on every image reached by generated histories, implementation vs Lean driver) and an implementation-only oracle. The zero-ID/group clause holds only when the selector is evaluated (known finding D6, proved as D6_witness).",
        "summary": "GetDescriptors = filter of the live descriptors by the conjunction of the selectors, in table order (C13_filter, C13_filter_pred, C13_sublist); GetDescriptor = unique match / not found / multiple (C13_single); empty image (C13_empty); zero ID/group is an error when evaluated (C13_zero_partial) with D6_witness proving the full-strength reading false of the code (known finding D6)",
        "trusted_base": BASE,
        "assumptions": [CORR, "v1.Hash.UnmarshalText is a parameter of the theorems (any function); the driver instantiates it with parseHashV1, validated by the campaign's OCI-digest selectors"],
    },
}
