#!/bin/sh
# setup_cmd: build the framework offline from files on disk only.
set -e
cd "$(dirname "$0")/.."
export GOFLAGS=-mod=mod GOPROXY=off GOSUMDB=off GOTOOLCHAIN=local
mkdir -p evidence replays .build
(cd lean && lake build SifVerif sifdriver)
if [ -d extract ]; then (cd extract && go build -o ../.build/extract . ) ; fi
REPO="${REPO:-/repo}"
sed "s#__REPO__#$REPO#" harness/go.mod.tmpl > .build/go.mod && cp "$REPO/go.sum" .build/go.sum
(cd harness && go build -modfile ../.build/go.mod -o ../.build/sifharness-setup . )
echo setup ok
