#!/bin/sh
# setup_cmd: build the framework offline from files on disk only.
set -e
cd "$(dirname "$0")/.."
export GOFLAGS=-mod=mod GOPROXY=off GOSUMDB=off GOTOOLCHAIN=local
mkdir -p evidence replays .build
REPO="${REPO:-/repo}"
# source facts are regenerated from $REPO (never committed); the Lean build needs them
mkdir -p lean/SifVerif/Generated
(cd extract && go run . -repo "$REPO" -out ../lean/SifVerif/Generated/Facts.lean)
(cd lean && lake build SifVerif sifdriver)
sed "s#__REPO__#$REPO#" harness/go.mod.tmpl > .build/go.mod && cp "$REPO/go.sum" .build/go.sum
(cd harness && go build -modfile ../.build/go.mod -o ../.build/sifharness-setup . )
echo setup ok
