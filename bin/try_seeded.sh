#!/bin/bash
# try_seeded.sh <name> [tier-env...]: run the working-tree check of a seeded change's property against a scratch
# worktree of /repo with the change applied (never /repo itself); prints the verdict lines.
set -u
name=$1; prop=${name:0:3}
V=$(cd "$(dirname "$0")/.." && pwd)
wt=/tmp/try_wt_$name
git -C /repo worktree remove --force $wt 2>/dev/null; git -C /repo worktree prune
git -C /repo worktree add -q --detach $wt HEAD || exit 2
git -C $wt apply $V/seeded/$name/patch.diff || { echo "patch does not apply"; git -C /repo worktree remove --force $wt; exit 2; }
REPO=$wt VERIF_NO_EVIDENCE=1 $V/bin/check $prop 2>&1 | grep -E "VIOLATION|KNOWN|obligations" | cut -c1-400
git -C /repo worktree remove --force $wt; git -C /repo worktree prune
