#!/usr/bin/env python3
"""Run the registered quick checks against the seeded changes.

Each change is applied to a scratch git worktree of /repo (never to /repo itself) and the check of the
property it was written for is run with REPO pointing there, from a scratch worktree of the committed
/verif (so several can run side by side: each worker has its own Lean build directory and facts).
Results -> seeded/RESULTS.json.   usage: run_seeded.py [-j N] [names or property prefixes...]
/verif must be committed: the workers run HEAD."""
import json, os, subprocess, sys, time, shutil, threading, queue
VERIF = os.path.dirname(os.path.dirname(os.path.abspath(__file__)))
sys.path.insert(0, os.path.join(VERIF, "bin"))
from props import PROPS
args = sys.argv[1:]
jobs = 4
if args and args[0] == "-j":
    jobs = int(args[1]); args = args[2:]
only = args
ROOT = "/tmp/seedrun"
resf = os.path.join(VERIF, "seeded", "RESULTS.json")
res = json.load(open(resf)) if os.path.exists(resf) else {}
names = [m for m in sorted(os.listdir(os.path.join(VERIF, "seeded")))
         if os.path.isdir(os.path.join(VERIF, "seeded", m)) and (not only or m in only or m[:3] in only) and m[:3] in PROPS]
def sh(cmd, **kw):
    return subprocess.run(cmd, shell=True, stdout=subprocess.PIPE, stderr=subprocess.STDOUT, text=True, errors="replace", **kw)
dirty = sh("git -C %s status --porcelain -- bin harness lean extract known_findings.json" % VERIF).stdout.strip()
if dirty:
    print("warning: uncommitted changes in /verif are NOT part of this run:\n" + dirty)
shutil.rmtree(ROOT, ignore_errors=True)
sh("git -C /repo worktree prune; git -C %s worktree prune" % VERIF)
HEAD = sh("git -C %s rev-parse --short HEAD" % VERIF).stdout.strip()
q = queue.Queue()
for m in names:
    q.put(m)
lock = threading.Lock()
def worker(k):
    vw, rw = "%s/w%d/verif" % (ROOT, k), "%s/w%d/repo" % (ROOT, k)
    os.makedirs("%s/w%d" % (ROOT, k), exist_ok=True)
    sh("git -C %s worktree add --detach %s HEAD" % (VERIF, vw))
    sh("git -C /repo worktree add --detach %s HEAD" % rw)
    if os.path.isdir(os.path.join(VERIF, "lean", ".lake")):
        shutil.copytree(os.path.join(VERIF, "lean", ".lake"), os.path.join(vw, "lean", ".lake"), symlinks=True)
    env = dict(os.environ, REPO=rw)
    sh("bin/setup.sh", cwd=vw, env=env)
    while True:
        try:
            m = q.get_nowait()
        except queue.Empty:
            break
        prop = m[:3]
        sh("git checkout -q -- . && git clean -fdq", cwd=rw)
        a = sh("git apply %s" % os.path.join(VERIF, "seeded", m, "patch.diff"), cwd=rw)
        if a.returncode != 0:
            with lock:
                res[m] = {"check": prop, "status": "patch does not apply: " + a.stdout[:200]}
                print(m, "PATCH-DOES-NOT-APPLY", flush=True)
            continue
        t0 = time.time()
        p = sh(os.path.join(vw, "bin", "check") + " " + prop, cwd=vw, env=env)
        lines = [l for l in p.stdout.split("\n") if l.startswith("VIOLATION")]
        r = {"check": prop, "verif_commit": HEAD, "exit": p.returncode, "caught": p.returncode == 1 and bool(lines),
             "violation_lines": [l.replace(vw, "/verif")[:300] for l in lines][:4], "wall_s": round(time.time() - t0, 1)}
        with lock:
            res[m] = r
            print(m, "CAUGHT" if r["caught"] else "MISSED", [l[:140] for l in r["violation_lines"]][:2], flush=True)
    sh("git -C %s worktree remove --force %s; git -C /repo worktree remove --force %s" % (VERIF, vw, rw))
ts = [threading.Thread(target=worker, args=(k,)) for k in range(jobs)]
for t in ts: t.start()
for t in ts: t.join()
shutil.rmtree(ROOT, ignore_errors=True)
sh("git -C /repo worktree prune; git -C %s worktree prune" % VERIF)
json.dump(res, open(resf, "w"), indent=1)
missed = [m for m in names if not res.get(m, {}).get("caught")]
print("ran %d, missed %d: %s" % (len(names), len(missed), " ".join(missed)))
