#!/usr/bin/env python3
"""Run the registered quick checks against the seeded mutants: apply each patch to /repo, run the
check of the property it was written for (and optionally others), undo.  Results -> seeded/RESULTS.json"""
import json, os, subprocess, sys, time
VERIF = os.path.dirname(os.path.dirname(os.path.abspath(__file__)))
sys.path.insert(0, os.path.join(VERIF, "bin"))
from props import PROPS
only = sys.argv[1:]
resf = os.path.join(VERIF, "seeded", "RESULTS.json")
res = json.load(open(resf)) if os.path.exists(resf) else {}
assert subprocess.run("git -C /repo status --porcelain", shell=True, capture_output=True, text=True).stdout.strip() == "", "/repo not clean"
for m in sorted(os.listdir(os.path.join(VERIF, "seeded"))):
    d = os.path.join(VERIF, "seeded", m)
    if not os.path.isdir(d) or (only and m not in only and m[:3] not in only):
        continue
    prop = m[:3]
    if prop not in PROPS:
        res.setdefault(m, {})["status"] = "no check for %s yet" % prop
        continue
    subprocess.run(["git", "-C", "/repo", "apply", os.path.join(d, "patch.diff")], check=True)
    try:
        t0 = time.time()
        p = subprocess.run([os.path.join(VERIF, "bin", "check"), prop], cwd=VERIF, capture_output=True, text=True)
        lines = [l for l in p.stdout.split("\n") if l.startswith("VIOLATION")]
        res[m] = {"check": prop, "exit": p.returncode, "caught": p.returncode == 1 and bool(lines),
                  "violation_lines": [l[:300] for l in lines][:4], "wall_s": round(time.time() - t0, 1)}
        print(m, "CAUGHT" if res[m]["caught"] else "MISSED", [l[:140] for l in lines][:2], flush=True)
    finally:
        subprocess.run("git -C /repo checkout -- . && git -C /repo clean -fdq", shell=True)
json.dump(res, open(resf, "w"), indent=1)
