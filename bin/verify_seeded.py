#!/usr/bin/env python3
"""Confirm seeded mutants in a scratch worktree: with the patch the repo builds, the existing suite
passes and the demo FAILS; without it the demo PASSES.  Usage: verify_seeded.py <src dir with Cxx/{A,B}>"""
import json, os, re, subprocess, sys, shutil
src = sys.argv[1]
WT = "/tmp/mv_wt"
env = dict(os.environ, GOFLAGS="-mod=mod", GOPROXY="off", GOSUMDB="off", GOTOOLCHAIN="local")
def sh(cmd, cwd=WT):
    p = subprocess.run(cmd, cwd=cwd, env=env, shell=True, stdout=subprocess.PIPE, stderr=subprocess.STDOUT, text=True)
    return p.returncode, p.stdout
subprocess.run("git -C /repo worktree remove --force %s 2>/dev/null; git -C /repo worktree add -q --detach %s HEAD" % (WT, WT), shell=True)
res = {}
try:
    for prop in sorted(os.listdir(src)):
        for v in ("A", "B"):
            d = os.path.join(src, prop, v)
            if not os.path.isdir(d):
                continue
            demo = [f for f in os.listdir(d) if f.startswith("demo")][0]
            head = open(os.path.join(d, demo)).read(3000)
            m = re.search(r"copy this file to (\S+)", head)
            r = re.search(r"(go test [^\n]*-run \S+ \./\S+)", head)
            dest, cmd = m.group(1), r.group(1).strip()
            sh("git checkout -q -- . && git clean -fdq")
            rc, out = sh("git apply %s/patch.diff" % d)
            if rc: res[prop+v] = "patch does not apply"; continue
            rc, out = sh("go build ./... && go test -vet=off -count=1 ./...")
            suite = rc == 0
            shutil.copy(os.path.join(d, demo), os.path.join(WT, dest))
            rc1, o1 = sh(cmd)
            sh("git checkout -q -- .")
            rc2, o2 = sh(cmd)
            os.remove(os.path.join(WT, dest))
            ok = suite and rc1 != 0 and rc2 == 0
            res[prop+v] = {"suite_passes_with_patch": suite, "demo_fails_with_patch": rc1 != 0, "demo_passes_without": rc2 == 0, "dest": dest, "cmd": cmd, "confirmed": ok}
            print(prop+v, res[prop+v]["confirmed"], flush=True)
finally:
    subprocess.run("git -C /repo worktree remove --force %s" % WT, shell=True)
json.dump(res, open("/tmp/seeded_verify.json", "w"), indent=1)
