#!/usr/bin/env python3
"""Regenerate MANIFEST.json from bin/props.py (the single source of per-property configuration)."""
import json, os, sys
VERIF = os.path.dirname(os.path.dirname(os.path.abspath(__file__)))
sys.path.insert(0, os.path.join(VERIF, "bin"))
from props import PROPS
ids = [json.loads(l)["id"] for l in open(os.path.join(VERIF, "properties.jsonl"))]
checks, na = [], []
for i in ids:
    P = PROPS.get(i)
    if not P or not P.get("claimed", True):
        na.append({"property_id": i, "reason": (P or {}).get("na_reason", "check not built yet in this commit (model and correspondence under construction; see DESIGN.md section 8)")})
        continue
    checks.append({
        "property_id": i,
        "quick_cmd": "bin/check %s --tier quick" % i,
        "thorough_cmd": "bin/check %s --tier thorough" % i,
        "evidence_file": "/verif/evidence/%s.json" % i,
        "replay_cmd_template": "bin/check %s --replay {path}" % i,
        "engine": "lean4-model+correspondence",
        "level_claimed": {"category": P.get("level", "proof"), "text": P["level_text"], "design_ref": "DESIGN.md section 5, " + i},
        "level_note": "; ".join(P["trusted_base"] + P["assumptions"]),
        "technique": P.get("technique", "Lean 4 theorems about an executable model of the code + differential correspondence check (Go library vs Lean driver) + regenerated source facts"),
    })
m = {
    "version": 1,
    "setup_cmd": "bin/setup.sh",
    "hooks": {"guard": "verif", "enable": "no hooks are needed: every observation point is public API (go build -tags verif is accepted and equivalent)",
              "baseline_off_cmd": "cd /repo && go test -vet=off -count=1 ./...", "source_commits": [], "add_only": True},
    "engines": [
        {"name": "lean4-model+correspondence", "path": "/verif/lean + /verif/harness + /verif/extract", "serves_properties": [c["property_id"] for c in checks],
         "kind_free_text": "machine-checked proof in Lean 4 about a hand-written executable model; model tied to /repo on every run by regenerated facts and by a differential correspondence campaign"}],
    "checks": checks,
    "not_applicable": na,
    "notes": "fix: commits in /repo (genuine defects repaired): 45ec4cf D1+D9, d9e8eb7 D2, 8fbcf60 D3, 02f5391 D4a/c, bcaf22f D4b, 9dd5ad8 D5, 65450b5 D12, 0d71d70 D13, 9b2130c D14; known findings (D6, D7, D8, D10, D11) in known_findings.json; see DESIGN.md.",
}
json.dump(m, open(os.path.join(VERIF, "MANIFEST.json"), "w"), indent=1)
print("claimed:", [c["property_id"] for c in checks])
