#!/usr/bin/env python3
"""Re-base stored seeded changes onto /repo's current HEAD after a fix: commit changed the lines they touch.
Usage: rebase_seeded.py <name>...   Each patch is applied three-way in a scratch worktree (outside /repo and /verif),
re-confirmed (suite passes, demo fails with it and passes without it) and, if confirmed, stored again."""
import json, os, subprocess, sys, shutil, glob
VERIF = os.path.dirname(os.path.dirname(os.path.abspath(__file__)))
WT = "/tmp/rebase_wt"
env = dict(os.environ, GOFLAGS="-mod=mod", GOPROXY="off", GOSUMDB="off", GOTOOLCHAIN="local")
def sh(cmd, cwd=WT):
    p = subprocess.run(cmd, cwd=cwd, env=env, shell=True, stdout=subprocess.PIPE, stderr=subprocess.STDOUT, text=True, errors="replace")
    return p.returncode, p.stdout
subprocess.run("git -C /repo worktree remove --force %s 2>/dev/null; git -C /repo worktree prune; git -C /repo worktree add -q --detach %s HEAD" % (WT, WT), shell=True)
head = subprocess.run("git -C /repo rev-parse --short HEAD", shell=True, stdout=subprocess.PIPE, text=True).stdout.strip()
try:
    for name in sys.argv[1:]:
        d = os.path.join(VERIF, "seeded", name)
        meta = json.load(open(os.path.join(d, "meta.json")))
        c = meta["confirmed_by_framework_author"]
        dest, cmd = c["demo_destination"], c["demo_command"]
        demo = [f for f in glob.glob(os.path.join(d, "*")) if os.path.basename(f) not in ("patch.diff", "meta.json", "patch.orig.diff")][0]
        sh("git reset -q --hard && git clean -fdq")
        rc, out = sh("git apply -3 %s/patch.diff" % d)
        if rc or "<<<<<<<" in sh("git diff")[1]:
            manual = os.path.join("/tmp/rebase_manual", name + ".diff")
            if os.path.exists(manual):
                sh("git reset -q --hard && git clean -fdq")
                rc, out = sh("git apply %s" % manual)
                if rc:
                    print(name, "manual patch does not apply", out[:300]); continue
            else:
                print(name, "CONFLICT - needs a manual rebase:", out[-400:].replace("\n", " | ")); continue
        rc, newpatch = sh("git add -A && git diff --cached HEAD")
        rc, out = sh("go build ./... && go test -vet=off -count=1 ./...")
        suite = rc == 0
        os.makedirs(os.path.dirname(os.path.join(WT, dest)), exist_ok=True)
        shutil.copy(demo, os.path.join(WT, dest))
        rc1, o1 = sh(cmd)
        sh("git reset -q --hard")
        shutil.copy(demo, os.path.join(WT, dest))
        rc2, o2 = sh(cmd)
        os.remove(os.path.join(WT, dest))
        ok = suite and rc1 != 0 and rc2 == 0
        print(name, "re-confirmed on " + head if ok else "NOT CONFIRMED", dict(suite=suite, demo_fails_with=rc1 != 0, demo_passes_without=rc2 == 0), flush=True)
        if not ok:
            print("   ", (out if not suite else (o2 if rc2 else o1))[-600:].replace("\n", " | ")); continue
        open(os.path.join(d, "patch.diff"), "w").write(newpatch)
        meta.setdefault("rebased", []).append("patch re-based onto %s (the fix commit changed lines it touches) and re-confirmed" % head)
        json.dump(meta, open(os.path.join(d, "meta.json"), "w"), indent=1)
finally:
    subprocess.run("git -C /repo worktree remove --force %s; git -C /repo worktree prune" % WT, shell=True)
