#!/bin/sh
# thorough tier of the checks given as arguments (default: those whose generators or oracles changed last)
cd "$(dirname "$0")/.."
[ $# -gt 0 ] || set -- C11 C15 C16 C07 C13 C02
for p in "$@"; do bin/check $p --tier thorough 2>&1 | grep -v '^KNOWN-FINDING' ; done
