#!/bin/sh
for p in C02 C04 C05 C06 C07 C12 C13 C15 C16 C17 C01 C08 C11; do bin/check $p --tier thorough 2>&1 | grep -v '^KNOWN-FINDING' ; done
