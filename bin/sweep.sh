#!/bin/sh
# unchanged-tree sweep: every property's check for each given seed (tier from VERIF_TIER, default quick).
# usage: bin/sweep.sh 2 3 4      (prints one line per check; any VIOLATION line is a false alarm or a finding)
cd "$(dirname "$0")/.."
[ -x lean/.lake/build/bin/sifdriver ] || bin/setup.sh >/dev/null 2>&1
for seed in "$@"; do
  for i in 01 02 03 04 05 06 07 08 09 10 11 12 13 14 15 16 17 18; do
    VERIF_SEED=$seed bin/check C$i --tier "${VERIF_TIER:-quick}" 2>&1 | grep -v '^KNOWN-FINDING' | sed "s/^/seed=$seed /"
  done
done
