package main

// Running cases on both sides and comparing the two observation streams.

import (
	"bytes"
	"fmt"
	"os"
	"os/exec"
	"strings"
	"sync"
)

var driverPath = envOr("SIFDRIVER", "/verif/lean/.lake/build/bin/sifdriver")

func envOr(k, d string) string {
	if v := os.Getenv(k); v != "" {
		return v
	}
	return d
}

// runDriver feeds protocol lines to the Lean driver and returns its output lines.
func runDriver(lines []string) ([]string, error) {
	cmd := exec.Command(driverPath)
	cmd.Stdin = strings.NewReader(strings.Join(lines, "\n") + "\n")
	var out, errb bytes.Buffer
	cmd.Stdout = &out
	cmd.Stderr = &errb
	if err := cmd.Run(); err != nil {
		return nil, fmt.Errorf("driver: %w: %s", err, errb.String())
	}
	if errb.Len() > 0 {
		return nil, fmt.Errorf("driver stderr: %s", errb.String())
	}
	s := strings.TrimRight(out.String(), "\n")
	if s == "" {
		return nil, nil
	}
	return strings.Split(s, "\n"), nil
}

// Case is one history: the operations, the protocol lines (known after execution on the real
// library), and the observation lines of the implementation, with the op each line belongs to.
type Case struct {
	Seed  uint64
	Ops   []*Op
	Proto []string
	Impl  []string
	OpOf  []int // Impl line -> op index
}

func (c *Case) record(i int, op *Op, obs []string) {
	c.Proto = append(c.Proto, op.Lines()...)
	for _, l := range obs {
		c.Impl = append(c.Impl, l)
		c.OpOf = append(c.OpOf, i)
	}
}

// replayOps re-executes a fixed op list on the real library (used by the shrinker and --replay).
func replayOps(dir string, ops []*Op, hook func(e *Env, i int, op *Op, obs []string)) *Case {
	return replayOpsOn(&Env{dir: dir, faultCtl: anyFault(ops)}, ops, hook)
}

func replayOpsOn(e *Env, ops []*Op, hook func(e *Env, i int, op *Op, obs []string)) *Case {
	defer e.Close()
	c := &Case{}
	for i, op := range ops {
		cp := *op
		cp.Fault = "" // set again if the fault fires in this execution
		obs := e.Apply(&cp)
		c.Ops = append(c.Ops, &cp)
		c.record(i, &cp, obs)
		if hook != nil {
			hook(e, i, &cp, obs)
		}
	}
	return c
}

// Mismatch is one disagreement between implementation and model.
type Mismatch struct {
	Line  int
	Op    int
	Impl  string
	Model string
	Kind  string // res hdr obj file rl q other
}

func lineKind(l string) string {
	switch {
	case strings.HasPrefix(l, "res "):
		return "res"
	case strings.HasPrefix(l, "hdr "):
		return "hdr"
	case strings.HasPrefix(l, "obj "):
		return "obj"
	case strings.HasPrefix(l, "file "):
		return "file"
	case strings.HasPrefix(l, "rl"):
		return "rl"
	case strings.HasPrefix(l, "q "):
		return "q"
	case strings.HasPrefix(l, "inv "):
		return "inv"
	case strings.HasPrefix(l, "sg "):
		return "sg"
	case strings.HasPrefix(l, "md "):
		return "md"
	case strings.HasPrefix(l, "io "):
		return "io"
	case strings.HasPrefix(l, "cli "):
		return "cli"
	case strings.HasPrefix(l, "st "):
		return "st"
	case strings.HasPrefix(l, "spec "):
		return "spec"
	}
	return "other"
}

// diffFields names the key=value fields on which two observation lines differ.
func diffFields(a, b string) []string {
	fa, fb := strings.Fields(a), strings.Fields(b)
	var d []string
	m := map[string]string{}
	for _, f := range fb {
		if k, v, ok := strings.Cut(f, "="); ok {
			m[k] = v
		}
	}
	for _, f := range fa {
		if k, v, ok := strings.Cut(f, "="); ok {
			if m[k] != v {
				d = append(d, k)
			}
		}
	}
	if len(fa) != len(fb) && len(d) == 0 {
		d = append(d, "shape")
	}
	return d
}

// compare returns the first disagreement, if any.
func compare(c *Case, model []string) *Mismatch {
	n := len(c.Impl)
	if len(model) < n {
		n = len(model)
	}
	for i := 0; i < n; i++ {
		if c.Impl[i] != model[i] {
			k := lineKind(c.Impl[i])
			if k2 := lineKind(model[i]); k2 != k {
				k = "shape"
			}
			return &Mismatch{Line: i, Op: c.OpOf[i], Impl: c.Impl[i], Model: model[i], Kind: k}
		}
	}
	if len(c.Impl) != len(model) {
		m := &Mismatch{Line: n, Kind: "shape"}
		if n < len(c.Impl) {
			m.Impl, m.Op = c.Impl[n], c.OpOf[n]
		} else {
			m.Model = model[n]
			if len(c.OpOf) > 0 {
				m.Op = c.OpOf[len(c.OpOf)-1]
			}
		}
		return m
	}
	return nil
}

// checkOps runs ops on both sides and returns the first mismatch (nil if they agree).
func checkOps(dir string, ops []*Op) (*Case, *Mismatch, error) {
	c := replayOps(dir, ops, nil)
	model, err := runDriver(c.Proto)
	if err != nil {
		return c, nil, err
	}
	return c, compare(c, model), nil
}

// shrink delta-debugs a disagreeing op list: drop operations (keeping the first, which creates or
// loads the image) while a disagreement of the same kind remains.
func shrink(dir string, ops []*Op, kind string) []*Op {
	still := func(cand []*Op) bool {
		_, m, err := checkOps(dir, cand)
		return err == nil && m != nil && m.Kind == kind
	}
	cur := ops
	// cut after the disagreeing op first
	if c, m, err := checkOps(dir, cur); err == nil && m != nil {
		_ = c
		if m.Op+1 < len(cur) {
			cand := cur[:m.Op+1]
			if still(cand) {
				cur = cand
			}
		}
	}
	changed := true
	for changed {
		changed = false
		for i := len(cur) - 1; i >= 1; i-- {
			cand := append(append([]*Op{}, cur[:i]...), cur[i+1:]...)
			if len(cand) > 0 && still(cand) {
				cur = cand
				changed = true
			}
		}
	}
	return cur
}

// parallel runs fn over shard indices on all cores.
func parallel(n, workers int, fn func(i int)) {
	var wg sync.WaitGroup
	ch := make(chan int)
	for w := 0; w < workers; w++ {
		wg.Add(1)
		go func() {
			defer wg.Done()
			for i := range ch {
				fn(i)
			}
		}()
	}
	for i := 0; i < n; i++ {
		ch <- i
	}
	close(ch)
	wg.Wait()
}

func envInt(k string, d int) int {
	if v := os.Getenv(k); v != "" {
		var n int
		if _, err := fmt.Sscan(v, &n); err == nil {
			return n
		}
	}
	return d
}

// anyFault: does the op list ask for a store failure (the re-execution then needs the interposer)?
func anyFault(ops []*Op) bool {
	for _, op := range ops {
		if op.FaultAt > 0 {
			return true
		}
	}
	return false
}
