package main

// Implementation-only oracles: each checks a property's statement directly on what the real
// library did, never consulting the Lean model.  They decide whether a broken proof obligation or
// correspondence comes with a concrete failing input.

import (
	"crypto"
	"bytes"
	"crypto/sha256"
	"encoding/binary"
	"encoding/hex"
	"fmt"
	"sort"
	"strings"

	"github.com/sylabs/sif/v2/pkg/sif"
)

// Violation is a concrete failure of a property on the implementation.
type Violation struct {
	Prop string
	Key  string // stable identifier of the kind of failure (matched against known_findings.json)
	What string
	Op   int
}

// ---- independent raw decoder (shares no code with the library) ----

type rawHdr struct {
	Launch, Magic, Version, Arch, ID                         []byte
	CT, MT, Free, Total, DOff, DSize, DataOff, DataSize int64
}

type rawDesc struct {
	DT                                     int32
	Used                                   bool
	ID, GID, Link                          uint32
	Off, Size, SizePad, CT, MT, UID, GIDow int64
	Name, Extra                            []byte
	Slot                                   int
}

func le64(b []byte) int64 { return int64(binary.LittleEndian.Uint64(b)) }

func decodeRaw(b []byte) (*rawHdr, []rawDesc, error) {
	if len(b) < 128 {
		return nil, nil, fmt.Errorf("short header")
	}
	h := &rawHdr{Launch: b[0:32], Magic: b[32:42], Version: b[42:45], Arch: b[45:48], ID: b[48:64],
		CT: le64(b[64:]), MT: le64(b[72:]), Free: le64(b[80:]), Total: le64(b[88:]), DOff: le64(b[96:]),
		DSize: le64(b[104:]), DataOff: le64(b[112:]), DataSize: le64(b[120:])}
	if h.Total == 0 {
		return h, nil, nil
	}
	if h.Total < 0 || h.DOff < 0 || h.DOff+585*h.Total > int64(len(b)) {
		return h, nil, fmt.Errorf("descriptor table outside file")
	}
	var ds []rawDesc
	for i := int64(0); i < h.Total; i++ {
		p := b[h.DOff+585*i:]
		ds = append(ds, rawDesc{DT: int32(binary.LittleEndian.Uint32(p[0:])), Used: p[4] != 0,
			ID: binary.LittleEndian.Uint32(p[5:]), GID: binary.LittleEndian.Uint32(p[9:]), Link: binary.LittleEndian.Uint32(p[13:]),
			Off: le64(p[17:]), Size: le64(p[25:]), SizePad: le64(p[33:]), CT: le64(p[41:]), MT: le64(p[49:]),
			UID: le64(p[57:]), GIDow: le64(p[65:]), Name: p[73:201], Extra: p[201:585], Slot: int(i)})
	}
	return h, ds, nil
}

func trimNul(b []byte) []byte { return bytes.TrimRight(b, "\x00") }

// ---- snapshots of the public view ----

type objSnap struct {
	ID, Group, Link uint32
	LinkIsGroup     bool
	DT              int32
	Off, Size       int64
	CT, MT          int64
	Name            string
	Extra           []byte
	Data            []byte
	DataErr         bool
	Stream          []byte
}

type snap struct {
	Launch, Version, Arch, ID                               string
	CT, MT, Free, Total, DOff, DSize, DataOff, DataSize int64
	HStream                                                 []byte
	Objs                                                    []objSnap
}

func takeSnap(f *sif.FileImage) snap {
	s := snap{Launch: f.LaunchScript(), Version: f.Version(), Arch: f.PrimaryArch(), ID: f.ID(),
		CT: f.CreatedAt().Unix(), MT: f.ModifiedAt().Unix(), Free: f.DescriptorsFree(), Total: f.DescriptorsTotal(),
		DOff: f.DescriptorsOffset(), DSize: f.DescriptorsSize(), DataOff: f.DataOffset(), DataSize: f.DataSize(),
		HStream: readAll(f.GetHeaderIntegrityReader())}
	f.WithDescriptors(func(d sif.Descriptor) bool {
		var rc rawCapture
		_ = d.GetMetadata(&rc)
		l, g := d.LinkedID()
		o := objSnap{ID: d.ID(), Group: d.GroupID(), Link: l, LinkIsGroup: g, DT: int32(d.DataType()), Off: d.Offset(),
			Size: d.Size(), CT: d.CreatedAt().Unix(), MT: d.ModifiedAt().Unix(), Name: d.Name(), Extra: rc.b,
			Stream: readAll(d.GetIntegrityReader())}
		b, err := d.GetData()
		o.Data, o.DataErr = b, err != nil
		s.Objs = append(s.Objs, o)
		return false
	})
	return s
}

func (a objSnap) equal(b objSnap) bool {
	return a.ID == b.ID && a.Group == b.Group && a.Link == b.Link && a.LinkIsGroup == b.LinkIsGroup && a.DT == b.DT &&
		a.Off == b.Off && a.Size == b.Size && a.CT == b.CT && a.MT == b.MT && a.Name == b.Name &&
		bytes.Equal(a.Extra, b.Extra) && bytes.Equal(a.Data, b.Data) && a.DataErr == b.DataErr && bytes.Equal(a.Stream, b.Stream)
}

// diffSnap describes the first difference between two views ("" if equal).
func diffSnap(a, b snap) string {
	ha := fmt.Sprint(a.Launch, a.Version, a.Arch, a.ID, a.CT, a.MT, a.Free, a.Total, a.DOff, a.DSize, a.DataOff, a.DataSize, a.HStream)
	hb := fmt.Sprint(b.Launch, b.Version, b.Arch, b.ID, b.CT, b.MT, b.Free, b.Total, b.DOff, b.DSize, b.DataOff, b.DataSize, b.HStream)
	if ha != hb {
		return fmt.Sprintf("header differs: %v vs %v", ha, hb)
	}
	if len(a.Objs) != len(b.Objs) {
		return fmt.Sprintf("object count %d vs %d", len(a.Objs), len(b.Objs))
	}
	for i := range a.Objs {
		if !a.Objs[i].equal(b.Objs[i]) {
			return fmt.Sprintf("object at position %d (id %d vs %d) differs", i, a.Objs[i].ID, b.Objs[i].ID)
		}
	}
	return ""
}

func isMutator(k string) bool {
	switch k {
	case "add", "del", "setprim", "setmeta", "setoci":
		return true
	}
	return false
}

// OracleState carries the pre-state snapshot between steps of one history.
type OracleState struct {
	prev      snap
	havePrev  bool
	prevBytes []byte
	rawPart   bool // the history wrote partition metadata as raw bytes (finding D7's trigger)
	primOff   bool // C02: the loaded image did not satisfy the primary-partition clause to begin with
	storeFailed bool // C02: a store failure happened earlier in this history (the reference model does not cover what it leaves)
	afterFault bool // a store failure happened earlier in the history: the header's data-size accounting may be stale for good (as after a crash)
	foreign   bool // the image was loaded (written by someone else): a free slot may carry a number in use
	expect    map[uint32]expectObj
	launch    []byte
}

type expectObj struct {
	dt          int32
	group, link uint32
	name        []byte
	data        []byte
	isOCI       bool
	mdOverride  bool
	extra       []byte
	haveExtra   bool
	ctime       int64
	haveCtime   bool
}

// oracleC08: the open handle and a fresh load of the current bytes answer identically.
func oracleC08(e *Env, i int) *Violation {
	b := e.storeBytes()
	f2, err := sif.LoadContainer(sif.NewBuffer(b), sif.OptLoadWithCloseOnUnload(false))
	if err != nil {
		return &Violation{Prop: "C08", Key: "C08:reload-fails", What: "file written by the library does not load: " + err.Error(), Op: i}
	}
	if d := diffSnap(takeSnap(e.f), takeSnap(f2)); d != "" {
		return &Violation{Prop: "C08", Key: "C08:handle-vs-reload", What: "handle and reload differ: " + d, Op: i}
	}
	return nil
}

// oracleAddSlot: where an accepted add puts its object is decided by the descriptor table alone —
// the first slot not in use whose number (slot + 1) no live object carries, with ID slot + 1 — as
// the reference model of C02 says, and therefore the same for the open handle and for a handle
// obtained by loading the same bytes (C08).  preBytes: the file before the add.
func oracleAddSlot(e *Env, preBytes []byte, prop string, i int, op *Op, res string) *Violation {
	if op.Kind != "add" || preBytes == nil || e.desync {
		return nil
	}
	_, pre, err := decodeRaw(preBytes)
	if err != nil {
		return nil
	}
	inUse := map[uint32]bool{}
	livePrimary := false
	for _, d := range pre {
		if d.Used {
			inUse[d.ID] = true
			if d.DT == 0x4004 && len(d.Extra) >= 8 && le32(d.Extra[4:]) == 2 {
				livePrimary = true
			}
		}
	}
	want := -1
	for k, d := range pre {
		if !d.Used && !inUse[uint32(k)+1] {
			want = k
			break
		}
	}
	if prop == "C02" && strings.HasPrefix(res, "res err") && op.Valid && want >= 0 {
		// valid input, a usable slot, and (for a primary partition) no live primary partition: the
		// reference model accepts — whoever wrote the image, whatever its unused slots still hold
		wantsPrimary := false
		for _, o := range op.DI.Opts {
			wantsPrimary = wantsPrimary || (o.Kind == "part" && o.J == 2)
		}
		if !(wantsPrimary && livePrimary) {
			return &Violation{Prop: "C02", Key: "C02:allowed-add-rejected", What: fmt.Sprintf("an add the reference model allows (valid input, slot %d usable, no live primary partition in the way) was refused: %s", want, res), Op: i}
		}
	}
	if !strings.HasPrefix(res, "res ok") {
		return nil
	}
	_, post, err := decodeRaw(e.storeBytes())
	if err != nil || len(post) != len(pre) {
		return nil
	}
	got := -1
	for k := range post {
		if post[k].Used && (!pre[k].Used || post[k].ID != pre[k].ID || post[k].Off != pre[k].Off) {
			got = k
			break
		}
	}
	if want >= 0 && got >= 0 && (got != want || post[got].ID != uint32(want)+1) {
		key, why := "C02:add-slot", "the reference model puts a new object into the first usable slot, with ID slot+1"
		if prop == "C08" {
			key, why = "C08:add-depends-on-history", "a handle loaded from the same bytes puts it into the first usable slot, with ID slot+1"
		}
		return &Violation{Prop: prop, Key: key, What: fmt.Sprintf("the added object went into slot %d with ID %d; %s: slot %d, ID %d", got, post[got].ID, why, want, want+1), Op: i}
	}
	return nil
}

// oracleC02: invariants after every step; a rejected call leaves the view unchanged.
func oracleC02(e *Env, st *OracleState, i int, op *Op, res string) *Violation {
	cur := takeSnap(e.f)
	notePartitionRaw(st, op, e)
	defer func() { st.prev, st.havePrev = cur, true }()
	if isMutator(op.Kind) && strings.HasPrefix(res, "res err") && st.havePrev {
		if d := diffSnap(st.prev, cur); d != "" {
			return &Violation{Prop: "C02", Key: "C02:rejected-op-changed-view", What: fmt.Sprintf("rejected %s changed the image: %s", op.Kind, d), Op: i}
		}
	}
	switch op.Kind {
	case "load":
		st.foreign = true
	case "create":
		st.foreign = false
	}
	// (in a library-numbered image every free slot is usable; in a foreign one the reference model
	// itself refuses an add when every free slot's number is carried by a live object)
	if op.Kind == "add" && op.Valid && !st.foreign && st.havePrev && st.prev.Free > 0 && strings.HasPrefix(res, "res err") {
		return &Violation{Prop: "C02", Key: "C02:allowed-add-rejected", What: fmt.Sprintf("an add the reference model allows (valid input, %d of %d descriptors free) was refused: %s", st.prev.Free, st.prev.Total, res), Op: i}
	}
	seen := map[uint32]bool{}
	prim := 0
	primArch := ""
	for _, o := range cur.Objs {
		if seen[o.ID] {
			return &Violation{Prop: "C02", Key: "C02:duplicate-id", What: fmt.Sprintf("two live objects with ID %d", o.ID), Op: i}
		}
		seen[o.ID] = true
	}
	e.f.WithDescriptors(func(d sif.Descriptor) bool {
		if d.DataType() == sif.DataPartition {
			if _, pt, arch, err := d.PartitionMetadata(); err == nil && pt == sif.PartPrimSys {
				prim++
				primArch = arch
			}
		}
		return false
	})
	if cur.Free+int64(len(cur.Objs)) != cur.Total {
		return &Violation{Prop: "C02", Key: "C02:accounting", What: fmt.Sprintf("free %d + used %d != total %d", cur.Free, len(cur.Objs), cur.Total), Op: i}
	}
	if op.Kind == "create" {
		st.primOff = false
	}
	want0 := "unknown"
	if prim == 1 {
		want0 = primArch
	}
	if op.Kind == "load" && (prim > 1 || cur.Arch != want0) {
		// someone else's file that does not satisfy the clause to begin with (two primary partitions,
		// or a header that does not record the primary architecture): the clause is an invariant the
		// library maintains from a state that has it (hypothesis H of C02_primary_history)
		st.primOff = true
	}
	hdrArch := cur.Arch
	if st.primOff {
		prim, primArch, hdrArch = 0, "", "unknown"
	}
	key := "C02:primary-arch"
	if st.rawPart {
		key = "C02:partition-metadata-raw"
	}
	if prim > 1 {
		return &Violation{Prop: "C02", Key: key, What: fmt.Sprintf("%d primary system partitions", prim), Op: i}
	}
	want := "unknown"
	if prim == 1 {
		want = primArch
	}
	if hdrArch != want {
		return &Violation{Prop: "C02", Key: key, What: fmt.Sprintf("header arch %q, primary partition arch %q", hdrArch, want), Op: i}
	}
	// an accepted set-metadata / set-digest does what it was asked: the requested modification time
	// is recorded on the object and on the image, and raw metadata bytes are the object's metadata
	// (also when the new value equals, or is a prefix of, what was stored before)
	if (op.Kind == "setmeta" || op.Kind == "setoci") && strings.HasPrefix(res, "res ok") {
		for _, o := range cur.Objs {
			if o.ID != op.ID {
				continue
			}
			if op.T.Kind == "at" && (o.MT != op.T.T || cur.MT != op.T.T) {
				return &Violation{Prop: "C02", Key: "C02:set-not-applied", What: fmt.Sprintf("%s(%d) at time %d succeeded, object modified at %d, image modified at %d", op.Kind, op.ID, op.T.T, o.MT, cur.MT), Op: i}
			}
			if op.Kind == "setmeta" && op.MD.Kind == "raw" && len(op.MD.B) <= 384 {
				if !bytes.Equal(bytes.TrimRight(o.Extra, "\x00"), bytes.TrimRight(op.MD.B, "\x00")) {
					return &Violation{Prop: "C02", Key: "C02:set-not-applied", What: fmt.Sprintf("setmeta(%d) succeeded, the object's metadata is not the bytes given", op.ID), Op: i}
				}
			}
		}
	}
	// a live object keeps its attributes and content until deleted / explicitly modified
	if st.havePrev && isMutator(op.Kind) && strings.HasPrefix(res, "res ok") {
		prevByID := map[uint32]objSnap{}
		for _, o := range st.prev.Objs {
			prevByID[o.ID] = o
		}
		for _, o := range cur.Objs {
			p, ok := prevByID[o.ID]
			if !ok {
				continue
			}
			switch op.Kind {
			case "add":
				if !p.equal(o) {
					// relative IDs (hence streams) of group members may shift when a lower ID joins
					po, oo := p, o
					po.Stream, oo.Stream = nil, nil
					if !po.equal(oo) {
						return &Violation{Prop: "C02", Key: "C02:bystander-changed", What: fmt.Sprintf("add changed object %d", o.ID), Op: i}
					}
				}
			case "del":
				po, oo := p, o
				po.Stream, oo.Stream = nil, nil
				if !po.equal(oo) {
					return &Violation{Prop: "C02", Key: "C02:bystander-changed", What: fmt.Sprintf("delete changed surviving object %d", o.ID), Op: i}
				}
			case "setmeta", "setoci":
				if o.ID != op.ID && !p.equal(o) {
					return &Violation{Prop: "C02", Key: "C02:bystander-changed", What: fmt.Sprintf("%s(%d) changed object %d", op.Kind, op.ID, o.ID), Op: i}
				}
			}
		}
	}
	return nil
}

func notePartitionRaw(st *OracleState, op *Op, e *Env) {
	switch op.Kind {
	case "setmeta":
		if d, err := e.f.GetDescriptor(sif.WithID(op.ID)); err == nil && d.DataType() == sif.DataPartition {
			st.rawPart = true
		}
		// the call may already have been applied: any partition object counts
		e.f.WithDescriptors(func(d sif.Descriptor) bool {
			if d.ID() == op.ID && d.DataType() == sif.DataPartition {
				st.rawPart = true
			}
			return false
		})
	case "add":
		if op.DI.DT == 0x4004 {
			for _, o := range op.DI.Opts {
				if o.Kind == "md" {
					st.rawPart = true
				}
			}
		}
	case "create":
		for _, c := range op.COpts {
			for _, d := range c.DIs {
				if d.DT == 0x4004 {
					for _, o := range d.Opts {
						if o.Kind == "md" {
							st.rawPart = true
						}
					}
				}
			}
		}
	}
}

// oracleC03: placement checked on the raw bytes by the independent decoder; bystander bytes.
func oracleC03(e *Env, st *OracleState, i int, op *Op, res string) *Violation {
	b := e.storeBytes()
	prevBytes := st.prevBytes
	st.prevBytes = b
	h, ds, err := decodeRaw(b)
	if err != nil {
		return &Violation{Prop: "C03", Key: "C03:table-outside-file", What: err.Error(), Op: i}
	}
	// (the table usually precedes the data section; another writer may put it behind: it must not
	// overlap the header or the data section)
	if h.DOff < 128 || (h.DOff+h.DSize > h.DataOff && h.DOff < h.DataOff+h.DataSize) || h.DSize < 585*h.Total {
		return &Violation{Prop: "C03", Key: "C03:table-placement", What: fmt.Sprintf("table [%d,+%d) vs data offset %d, total %d", h.DOff, h.DSize, h.DataOff, h.Total), Op: i}
	}
	type reg struct {
		lo, hi int64
		id     uint32
	}
	var regs []reg
	for _, d := range ds {
		if !d.Used {
			continue
		}
		if (d.Off < h.DataOff || d.Off+d.Size > h.DataOff+h.DataSize || d.Size < 0) && !st.afterFault {
			return &Violation{Prop: "C03", Key: "C03:outside-data-section", What: fmt.Sprintf("object %d [%d,+%d) outside data section [%d,+%d)", d.ID, d.Off, d.Size, h.DataOff, h.DataSize), Op: i}
		}
		if d.Size > 0 && d.Off+d.Size > int64(len(b)) && !st.afterFault {
			return &Violation{Prop: "C03", Key: "C03:outside-file", What: fmt.Sprintf("object %d [%d,+%d) beyond file length %d", d.ID, d.Off, d.Size, len(b)), Op: i}
		}
		if d.Size > 0 {
			regs = append(regs, reg{d.Off, d.Off + d.Size, d.ID})
		}
	}
	sort.Slice(regs, func(a, c int) bool { return regs[a].lo < regs[c].lo })
	for k := 1; k < len(regs); k++ {
		if regs[k].lo < regs[k-1].hi {
			return &Violation{Prop: "C03", Key: "C03:overlap", What: fmt.Sprintf("objects %d and %d overlap", regs[k-1].id, regs[k].id), Op: i}
		}
	}
	ok := strings.HasPrefix(res, "res ok")
	// alignment of a newly added object
	if op.Kind == "add" && ok && st.havePrev {
		prevIDs := map[uint32]bool{}
		for _, o := range st.prev.Objs {
			prevIDs[o.ID] = true
		}
		align := int64(0)
		if op.DI.DT == 0x4004 {
			align = 4096
		}
		for _, o := range op.DI.Opts {
			if o.Kind == "align" {
				align = o.I
			}
		}
		for _, d := range ds {
			if d.Used && !prevIDs[d.ID] && align > 0 && d.Off%align != 0 {
				return &Violation{Prop: "C03", Key: "C03:misaligned", What: fmt.Sprintf("object %d at offset %d, requested alignment %d", d.ID, d.Off, align), Op: i}
			}
		}
	}
	// bystanders: descriptor bytes and data bytes of objects the op did not target are unchanged
	if prevBytes != nil && isMutator(op.Kind) {
		_, pds, perr := decodeRaw(prevBytes)
		if perr == nil {
			cur := map[uint32]rawDesc{}
			for _, d := range ds {
				if d.Used {
					cur[d.ID] = d
				}
			}
			for _, p := range pds {
				if !p.Used {
					continue
				}
				c, live := cur[p.ID]
				if !live && op.Kind != "del" {
					return &Violation{Prop: "C03", Key: "C03:bystander-lost", What: fmt.Sprintf("%s: object %d (slot %d), which the operation does not address, is no longer in the descriptor table", op.Kind, p.ID, p.Slot), Op: i}
				}
				if !live {
					// deleted: with zeroing, exactly its bytes are zero and nothing else changed
					if op.Kind == "del" && ok && op.Zero {
						for k := p.Off; k < p.Off+p.Size && k < int64(len(b)); k++ {
							if b[k] != 0 {
								return &Violation{Prop: "C03", Key: "C03:zeroing-incomplete", What: fmt.Sprintf("deleted object %d not zeroed at %d", p.ID, k), Op: i}
							}
						}
					}
					continue
				}
				if op.Kind == "setmeta" || op.Kind == "setoci" {
					if p.ID == op.ID {
						continue
					}
				}
				if op.Kind == "setprim" {
					if p.DT == 0x4004 {
						continue
					}
				}
				if c.Slot == p.Slot {
					pb := prevBytes[h.DOff+585*int64(p.Slot):][:585]
					cb := b[h.DOff+585*int64(c.Slot):][:585]
					if !bytes.Equal(pb, cb) {
						return &Violation{Prop: "C03", Key: "C03:bystander-descriptor", What: fmt.Sprintf("%s changed descriptor bytes of object %d", op.Kind, p.ID), Op: i}
					}
				}
				if p.Off+p.Size <= int64(len(prevBytes)) && c.Off+c.Size <= int64(len(b)) {
					if !bytes.Equal(prevBytes[p.Off:p.Off+p.Size], b[c.Off:c.Off+c.Size]) {
						return &Violation{Prop: "C03", Key: "C03:bystander-data", What: fmt.Sprintf("%s changed data bytes of object %d", op.Kind, p.ID), Op: i}
					}
				}
			}
			// zeroing (without compaction) changes nothing outside the deleted regions, header, table
			if op.Kind == "del" && ok && !op.Compact && len(b) == len(prevBytes) {
				inDeleted := func(k int64) bool {
					for _, p := range pds {
						if p.Used {
							if _, live := cur[p.ID]; !live && k >= p.Off && k < p.Off+p.Size {
								return true
							}
						}
					}
					return false
				}
				for k := h.DataOff; k < int64(len(b)); k++ {
					if k >= h.DOff && k < h.DOff+h.DSize {
						continue // another writer's layout: the table lies behind the data section and is rewritten
					}
					if b[k] != prevBytes[k] && !(op.Zero && inDeleted(k)) {
						return &Violation{Prop: "C03", Key: "C03:zeroing-overrun", What: fmt.Sprintf("delete changed byte %d outside the deleted object(s)", k), Op: i}
					}
				}
			}
		}
	}
	// compaction: the file ends exactly at the end of the last live object (or at the data offset)
	if op.Kind == "del" && ok && op.Compact {
		end := h.DataOff
		for _, d := range ds {
			if d.Used && d.Off+d.Size > end {
				end = d.Off + d.Size
			}
		}
		if h.DOff >= h.DataOff && h.DOff+585*h.Total > end {
			end = h.DOff + 585*h.Total // the table lies behind the data section: the file ends with the table
		}
		if int64(len(b)) != end {
			return &Violation{Prop: "C03", Key: "C03:compact-end", What: fmt.Sprintf("after compaction file length %d, last live end %d", len(b), end), Op: i}
		}
	}
	return nil
}

// oracleC11: the independent decoder recovers what the accessors report.
func oracleC11(e *Env, i int) *Violation {
	if e.desync {
		// a store failure has left handle and file apart; the next successful modification writes
		// the whole table and the header, and the oracle speaks again from there
		return nil
	}
	b := e.storeBytes()
	h, ds, err := decodeRaw(b)
	if err != nil {
		return &Violation{Prop: "C11", Key: "C11:undecodable", What: err.Error(), Op: i}
	}
	f := e.f
	if string(h.Magic) != "SIF_MAGIC\x00" || string(h.Version) != "01\x00" {
		return &Violation{Prop: "C11", Key: "C11:magic-version", What: "written magic/version differ from SIF v1", Op: i}
	}
	s := takeSnap(f)
	if string(trimNul(h.Launch)) != s.Launch || h.CT != s.CT || h.MT != s.MT || h.Free != s.Free || h.Total != s.Total ||
		h.DOff != s.DOff || h.DSize != s.DSize || h.DataOff != s.DataOff || h.DataSize != s.DataSize ||
		hex.EncodeToString(h.ID) != strings.ReplaceAll(s.ID, "-", "") {
		return &Violation{Prop: "C11", Key: "C11:header-fields", What: "independent decode of the header differs from the accessors", Op: i}
	}
	// the architecture code of the header, through the format's own table (01..12, 00 = unknown)
	wantArch := "unknown"
	if len(h.Arch) == 3 && h.Arch[0] >= '0' && h.Arch[0] <= '9' && h.Arch[1] >= '0' && h.Arch[1] <= '9' && h.Arch[2] == 0 {
		if n := int(h.Arch[0]-'0')*10 + int(h.Arch[1]-'0'); n >= 1 && n <= len(archNames) {
			wantArch = archNames[n-1]
		}
	}
	if s.Arch != wantArch {
		return &Violation{Prop: "C11", Key: "C11:header-fields", What: fmt.Sprintf("header architecture code %q is reported as %q, the format's table says %q", h.Arch, s.Arch, wantArch), Op: i}
	}
	var live []rawDesc
	for _, d := range ds {
		if d.Used {
			live = append(live, d)
		}
	}
	// the hash-type code of a signature descriptor, through the format's own table (1 SHA-256,
	// 2 SHA-384, 3 SHA-512, 4 BLAKE2s-256, 5 BLAKE2b-256)
	sifHash := map[int32]crypto.Hash{1: crypto.SHA256, 2: crypto.SHA384, 3: crypto.SHA512, 4: crypto.BLAKE2s_256, 5: crypto.BLAKE2b_256}
	var hv *Violation
	f.WithDescriptors(func(d sif.Descriptor) bool {
		if d.DataType() != sif.DataSignature {
			return false
		}
		var rc rawCapture
		if d.GetMetadata(&rc) != nil {
			return false
		}
		ex := append(append([]byte{}, rc.b...), make([]byte, 4)...)
		if want, ok := sifHash[le32(ex)]; ok {
			if ht, _, err := d.SignatureMetadata(); err != nil || ht != want {
				hv = &Violation{Prop: "C11", Key: "C11:descriptor-fields", What: fmt.Sprintf("signature %d: hash-type code %d is reported as %v (%v), the format's table says %v", d.ID(), le32(ex), ht, err, want), Op: i}
				return true
			}
		}
		return false
	})
	if hv != nil {
		return hv
	}
	// the two fields no accessor exposes (uid, gid) are visible in the integrity stream
	var streams [][]byte
	f.WithDescriptors(func(d sif.Descriptor) bool {
		streams = append(streams, readAll(d.GetIntegrityReader()))
		return false
	})
	if len(streams) == len(live) {
		for k, d := range live {
			st := streams[k]
			if len(st) >= 45 && (le64(st[29:37]) != d.UID || le64(st[37:45]) != d.GIDow) {
				return &Violation{Prop: "C11", Key: "C11:descriptor-fields", What: fmt.Sprintf("descriptor %d: uid/gid at bytes 57..73 are %d/%d, the library reads %d/%d", d.ID, d.UID, d.GIDow, le64(st[29:37]), le64(st[37:45])), Op: i}
			}
		}
	}
	if len(live) != len(s.Objs) {
		return &Violation{Prop: "C11", Key: "C11:object-count", What: fmt.Sprintf("decoder sees %d objects, library %d", len(live), len(s.Objs)), Op: i}
	}
	for k, d := range live {
		o := s.Objs[k]
		if d.ID != o.ID || d.DT != o.DT || d.GID&0x0fffffff != o.Group || d.Link&0x0fffffff != o.Link ||
			(d.Link&0xf0000000 == 0xf0000000) != o.LinkIsGroup || d.Off != o.Off || d.Size != o.Size || d.CT != o.CT || d.MT != o.MT ||
			string(trimNul(d.Name)) != o.Name || !bytes.Equal(d.Extra, o.Extra) {
			return &Violation{Prop: "C11", Key: "C11:descriptor-fields", What: fmt.Sprintf("independent decode of descriptor %d differs from the accessors", d.ID), Op: i}
		}
	}
	return nil
}

// oracleC13: a query returns exactly the live objects satisfying all selectors, in table order.
func oracleC13(e *Env, i int, op *Op, obs string) *Violation {
	f := e.f
	type od struct {
		d sif.Descriptor
	}
	var all []sif.Descriptor
	f.WithDescriptors(func(d sif.Descriptor) bool { all = append(all, d); return false })
	match := func(d sif.Descriptor, s Sel) bool {
		switch s.Kind {
		case "dt":
			return int64(d.DataType()) == s.N
		case "id":
			return int64(d.ID()) == s.N
		case "nogrp":
			return d.GroupID() == 0
		case "grp":
			return int64(d.GroupID()) == s.N
		case "lid":
			l, g := d.LinkedID()
			return !g && int64(l) == s.N
		case "lgid":
			l, g := d.LinkedID()
			return g && int64(l) == s.N
		case "pt":
			if d.DataType() != sif.DataPartition {
				return false
			}
			// (the partition type as the descriptor's metadata bytes record it, whatever the
			// architecture code next to it: a code this release has no name for is still a partition)
			var rc rawCapture
			if err := d.GetMetadata(&rc); err != nil {
				return false
			}
			ex := append(append([]byte{}, rc.b...), make([]byte, 8)...)
			return int64(le32(ex[4:])) == s.N
		case "oci":
			h, err := d.OCIBlobDigest()
			return err == nil && h.String() == string(s.B)
		case "P":
			for _, x := range s.M {
				if x == d.ID() {
					return true
				}
			}
			return (s.MT != 0 && int64(d.DataType()) == s.MT) || (s.MG != 0 && d.GroupID() == s.MG)
		}
		return false
	}
	// the live objects a query ranges over are those of the image: what the handle enumerates (and
	// says about partition types) is what an independent decoder reads from the bytes written
	if !e.desync {
		if _, ds, err := decodeRaw(e.storeBytes()); err == nil {
			k := 0
			for _, d := range ds {
				if !d.Used {
					continue
				}
				if k >= len(all) || all[k].ID() != d.ID {
					return &Violation{Prop: "C13", Key: "C13:handle-differs-from-file", What: fmt.Sprintf("the handle enumerates other objects than the file holds (position %d: file has object %d)", k, d.ID), Op: i}
				}
				if d.DT == 0x4004 && len(d.Extra) >= 8 {
					if _, pt, _, err := all[k].PartitionMetadata(); err == nil && int32(pt) != le32(d.Extra[4:]) {
						return &Violation{Prop: "C13", Key: "C13:handle-differs-from-file", What: fmt.Sprintf("partition %d: the handle says type %d, the file says %d", d.ID, pt, le32(d.Extra[4:])), Op: i}
					}
				}
				k++
			}
			if k != len(all) {
				return &Violation{Prop: "C13", Key: "C13:handle-differs-from-file", What: fmt.Sprintf("the handle enumerates %d objects, the file holds %d", len(all), k), Op: i}
			}
		}
	}
	// a caller's selector function that answers with an error of its own on some live object: what
	// the query then returns is not something C13 settles (the correspondence with the model
	// covers it); the oracle speaks only about functions that are quiet on this image
	for _, s := range op.Sels {
		if s.Kind != "P" {
			continue
		}
		for _, d := range all {
			if s.ET != 0 && int64(d.DataType()) == s.ET {
				return nil
			}
			for _, x := range s.E {
				if x == d.ID() {
					return nil
				}
			}
		}
	}
	zero := ""
	zeroAt := -1
	for k, s := range op.Sels {
		if (s.Kind == "id" || s.Kind == "lid") && s.N == 0 {
			zero, zeroAt = "err:invalidObjectID", k
			break
		}
		if (s.Kind == "grp" || s.Kind == "lgid") && s.N == 0 {
			zero, zeroAt = "err:invalidGroupID", k
			break
		}
	}
	var want []string
	for _, d := range all {
		ok := true
		for _, s := range op.Sels {
			if !match(d, s) {
				ok = false
				break
			}
		}
		if ok {
			want = append(want, fmt.Sprint(d.ID()))
		}
	}
	exp := ""
	switch {
	case len(all) == 0:
		exp = "q err:noObjects"
	case zero != "":
		exp = "q " + zero
	case op.One && len(want) == 0:
		exp = "q err:objectNotFound"
	case op.One && len(want) > 1:
		exp = "q err:multipleObjectsFound"
	default:
		exp = "q ok ids=" + strings.Join(want, ",")
	}
	if obs == exp {
		return nil
	}
	if zero != "" && len(all) > 0 {
		// is the zero selector ever evaluated? (finding D6: it is not when an earlier selector
		// rejects every live object — or, for the single-object form, a second match is seen first)
		evaluated := false
		for _, d := range all {
			pass := true
			for _, s := range op.Sels[:zeroAt] {
				if !match(d, s) {
					pass = false
					break
				}
			}
			if pass {
				evaluated = true
			}
		}
		if !evaluated {
			return &Violation{Prop: "C13", Key: "C13:zero-selector-not-evaluated", What: fmt.Sprintf("query %s returned %q: a zero ID/group after a selector that rejects every object is an empty match, not an error", selsString(op.Sels), obs), Op: i}
		}
	}
	return &Violation{Prop: "C13", Key: "C13:wrong-result", What: fmt.Sprintf("query one=%v %s returned %q, expected %q", op.One, selsString(op.Sels), obs, exp), Op: i}
}

// ---- C01: read-back of what was put in ----

func diOptsEffect(di DI) (group, link uint32, name []byte, md *MD, align int64, otime int64, haveTime bool) {
	group = 1
	if di.DT == 0x4004 {
		align = 4096
	}
	for _, o := range di.Opts {
		switch o.Kind {
		case "nogroup":
			group = 0
		case "group":
			group = o.N
		case "link":
			link = o.N
		case "linkgroup":
			link = o.N | 0xf0000000
		case "name":
			name = o.B
		case "align":
			align = o.I
		case "time":
			otime, haveTime = o.I, true
		case "md":
			m := o.MD
			md = &m
		}
	}
	return
}

// oracleC01 checks, after a successful create/add, that every object added in that call reads
// back exactly as given (through the handle; C08's oracle covers the reload).
func oracleC01(e *Env, i int, op *Op, res string, before map[uint32]bool) *Violation {
	if !strings.HasPrefix(res, "res ok") {
		return nil
	}
	var dis []DI
	switch op.Kind {
	case "add":
		dis = []DI{op.DI}
	case "create":
		for _, c := range op.COpts {
			if c.Kind == "descs" {
				dis = append(dis, c.DIs...)
			}
		}
	default:
		return nil
	}
	var fresh []sif.Descriptor
	e.f.WithDescriptors(func(d sif.Descriptor) bool {
		if !before[d.ID()] {
			fresh = append(fresh, d)
		}
		return false
	})
	if len(fresh) != len(dis) {
		return &Violation{Prop: "C01", Key: "C01:count", What: fmt.Sprintf("%d objects added, %d new descriptors", len(dis), len(fresh)), Op: i}
	}
	if op.Kind == "create" {
		// insertion order = table order for a new image
		sort.SliceStable(fresh, func(a, b int) bool { return fresh[a].ID() < fresh[b].ID() })
		for _, c := range op.COpts {
			if c.Kind == "launch" && e.f.LaunchScript() != string(trimNul(c.B)) {
				return &Violation{Prop: "C01", Key: "C01:launch", What: "launch script not read back", Op: i}
			}
		}
	}
	for k, di := range dis {
		d := fresh[k]
		group, link, name, md, _, otime, haveTime := diOptsEffect(di)
		want := di.Data.Bytes()
		got, err := d.GetData()
		if err != nil || !bytes.Equal(got, want) {
			return &Violation{Prop: "C01", Key: "C01:content", What: fmt.Sprintf("object %d content read back differs (len %d, want %d)", d.ID(), len(got), len(want)), Op: i}
		}
		l, isG := d.LinkedID()
		if int32(d.DataType()) != di.DT || d.GroupID() != group&0x0fffffff || l != link&0x0fffffff || isG != (link&0xf0000000 == 0xf0000000) {
			return &Violation{Prop: "C01", Key: "C01:attributes", What: fmt.Sprintf("object %d type/group/link read back differ", d.ID()), Op: i}
		}
		if d.Name() != string(trimNul(name)) {
			return &Violation{Prop: "C01", Key: "C01:name", What: fmt.Sprintf("object %d name read back as %d bytes, want %d", d.ID(), len(d.Name()), len(trimNul(name))), Op: i}
		}
		if haveTime && otime != -62135596800 && (d.CreatedAt().Unix() != otime || d.ModifiedAt().Unix() != otime) {
			return &Violation{Prop: "C01", Key: "C01:time", What: fmt.Sprintf("object %d explicit time not read back", d.ID()), Op: i}
		}
		var rc rawCapture
		_ = d.GetMetadata(&rc)
		if (di.DT == 0x400A || di.DT == 0x400B) && md == nil {
			sum := sha256.Sum256(want)
			exp := "sha256:" + hex.EncodeToString(sum[:])
			if string(trimNul(rc.b)) != exp {
				return &Violation{Prop: "C01", Key: "C01:oci-digest", What: fmt.Sprintf("object %d OCI digest is not the SHA-256 of the stored bytes", d.ID()), Op: i}
			}
			if h, err := d.OCIBlobDigest(); err != nil || h.String() != exp {
				return &Violation{Prop: "C01", Key: "C01:oci-digest", What: fmt.Sprintf("object %d OCIBlobDigest() is not the SHA-256 of the stored bytes", d.ID()), Op: i}
			}
		}
		// the metadata option given last is the one in effect
		lastMD := -1
		for k, o := range di.Opts {
			switch o.Kind {
			case "md", "part", "sbom", "crypto", "sig":
				lastMD = k
			}
		}
		if lastMD < 0 && di.DT != 0x400A && di.DT != 0x400B && !bytes.Equal(rc.b, make([]byte, len(rc.b))) {
			// given no metadata at all, the object has none — whatever the slot it landed in held before
			return &Violation{Prop: "C01", Key: "C01:metadata", What: fmt.Sprintf("object %d was given no metadata and reads back with %x…", d.ID(), trimNul(rc.b)), Op: i}
		}
		if lastMD >= 0 && di.Opts[lastMD].Kind == "md" && di.Opts[lastMD].MD.Kind == "raw" {
			exp := make([]byte, 384)
			copy(exp, di.Opts[lastMD].MD.B)
			if !bytes.Equal(rc.b, exp) {
				return &Violation{Prop: "C01", Key: "C01:metadata", What: fmt.Sprintf("object %d metadata read back differs", d.ID()), Op: i}
			}
		}
		for k, o := range di.Opts {
			if k != lastMD {
				continue
			}
			switch o.Kind {
			case "part":
				fs, pt, arch, err := d.PartitionMetadata()
				if err != nil || int64(fs) != o.I || int64(pt) != o.J || arch != o.S {
					return &Violation{Prop: "C01", Key: "C01:metadata", What: fmt.Sprintf("object %d partition metadata read back differs", d.ID()), Op: i}
				}
			case "sbom":
				f, err := d.SBOMMetadata()
				if err != nil || int64(f) != o.I {
					return &Violation{Prop: "C01", Key: "C01:metadata", What: fmt.Sprintf("object %d SBOM metadata read back differs", d.ID()), Op: i}
				}
			case "crypto":
				ft, mt, err := d.CryptoMessageMetadata()
				if err != nil || int64(ft) != o.I || int64(mt) != o.J {
					return &Violation{Prop: "C01", Key: "C01:metadata", What: fmt.Sprintf("object %d crypto message metadata read back differs", d.ID()), Op: i}
				}
			case "sig":
				ht, fp, err := d.SignatureMetadata()
				wantFP := o.B
				if len(wantFP) > 0 && bytes.Equal(wantFP, make([]byte, len(wantFP))) {
					wantFP = nil
				}
				if err != nil || ht != hashByType[o.I] || !bytes.Equal(fp, wantFP) {
					return &Violation{Prop: "C01", Key: "C01:metadata", What: fmt.Sprintf("object %d signature metadata read back differs", d.ID()), Op: i}
				}
			}
		}
	}
	return nil
}
