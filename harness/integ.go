package main

// Integrity layer of the harness: key universe, crypto oracle (calls the third-party libraries
// directly, never pkg/integrity's decoders), and the sign / verify / signer-listing operations.

import (
	"bytes"
	"crypto"
	"crypto/ecdsa"
	"crypto/ed25519"
	"crypto/elliptic"
	"crypto/rand"
	"crypto/rsa"
	"crypto/x509"
	"encoding/base64"
	"encoding/hex"
	"encoding/json"
	"encoding/pem"
	"errors"
	"fmt"
	"io"
	"os"
	"path/filepath"
	"sort"
	"strings"
	"sync"
	"time"

	"github.com/ProtonMail/go-crypto/openpgp"
	"github.com/ProtonMail/go-crypto/openpgp/clearsign"
	"github.com/ProtonMail/go-crypto/openpgp/packet"
	"github.com/sigstore/sigstore/pkg/signature"
	"github.com/sigstore/sigstore/pkg/signature/dsse"
	"github.com/sylabs/sif/v2/pkg/integrity"
	"github.com/sylabs/sif/v2/pkg/sif"
)

const mediaType = "application/vnd.sylabs.sif-metadata+json"

type dsseKey struct {
	kind string
	sv   signature.SignerVerifier
	pub  crypto.PublicKey
	pubB []byte
	pri  crypto.PrivateKey
	hash crypto.Hash
}

// Universe is the set of keys a campaign draws signers and trusted keys from.
// PGP entities have indices 0.., DSSE keys 100...
type Universe struct {
	PGP  []*openpgp.Entity
	DSSE []dsseKey
}

var (
	universeOnce sync.Once
	universe     *Universe
)

func pubBytes(pub crypto.PublicKey) []byte {
	b, err := x509.MarshalPKIXPublicKey(pub)
	if err != nil {
		return nil
	}
	return b
}

func loadPEMKey(path string) (crypto.PrivateKey, error) {
	b, err := os.ReadFile(path)
	if err != nil {
		return nil, err
	}
	blk, _ := pem.Decode(b)
	if blk == nil {
		return nil, errors.New("no PEM block")
	}
	if k, err := x509.ParsePKCS8PrivateKey(blk.Bytes); err == nil {
		return k, nil
	}
	if k, err := x509.ParseECPrivateKey(blk.Bytes); err == nil {
		return k, nil
	}
	return x509.ParsePKCS1PrivateKey(blk.Bytes)
}

// getUniverse builds the key universe once per process: the repository's shipped test keys (needed
// for the shipped signed images) plus freshly generated ones of every kind.
func getUniverse() *Universe {
	universeOnce.Do(func() {
		// a child process works with its parent's keys (VERIF_UNIVERSE names the file the parent
		// saved them in): images the parent signed must verify in the child
		if p := os.Getenv("VERIF_UNIVERSE"); p != "" {
			if u := loadUniverse(p); u != nil {
				universe = u
				return
			}
		}
		u := &Universe{}
		repo := envOr("REPO", "/repo")
		if f, err := os.Open(filepath.Join(repo, "test", "keys", "private.asc")); err == nil {
			if el, err := openpgp.ReadArmoredKeyRing(f); err == nil && len(el) == 1 {
				u.PGP = append(u.PGP, el[0])
			}
			f.Close()
		}
		for i := 0; i < 3; i++ {
			cfg := &packet.Config{Algorithm: packet.PubKeyAlgoEdDSA}
			if i == 2 {
				cfg = &packet.Config{RSABits: 2048}
			}
			if e, err := openpgp.NewEntity(fmt.Sprintf("verif%d", i), "", fmt.Sprintf("v%d@example.com", i), cfg); err == nil {
				u.PGP = append(u.PGP, e)
			}
		}
		// an entity that also owns a signing-capable subkey (as `gpg --quick-add-key … sign` makes):
		// signatures are still made and named by the primary key
		if e, err := openpgp.NewEntity("verif-sub", "", "sub@example.com", &packet.Config{Algorithm: packet.PubKeyAlgoEdDSA}); err == nil {
			if e.AddSigningSubkey(&packet.Config{Algorithm: packet.PubKeyAlgoEdDSA}) == nil {
				u.PGP = append(u.PGP, e)
			}
		}
		addH := func(kind string, pri crypto.PrivateKey, h crypto.Hash) {
			sv, err := signature.LoadSignerVerifier(pri, h)
			if err != nil {
				return
			}
			pub, _ := sv.PublicKey()
			u.DSSE = append(u.DSSE, dsseKey{kind: kind, sv: sv, pub: pub, pubB: pubBytes(pub), pri: pri, hash: h})
		}
		add := func(kind string, pri crypto.PrivateKey) { addH(kind, pri, crypto.SHA256) }
		for _, n := range []string{"ed25519", "ecdsa", "rsa"} {
			if k, err := loadPEMKey(filepath.Join(repo, "test", "keys", n+"-private.pem")); err == nil {
				add(n, k)
			}
		}
		for i := 0; i < 2; i++ {
			_, k, _ := ed25519.GenerateKey(rand.Reader)
			add("ed25519", k)
			ek, _ := ecdsa.GenerateKey(elliptic.P256(), rand.Reader)
			add("ecdsa", ek)
		}
		rk, _ := rsa.GenerateKey(rand.Reader, 2048)
		add("rsa", rk)
		// signers configured with another digest than SHA-256 (the usual pairing for P-384, and
		// what RSA users who follow their key size pick): the signature descriptor still records
		// SHA-256 for the metadata, the signature itself is over SHA-384 / SHA-512
		if ek, err := ecdsa.GenerateKey(elliptic.P384(), rand.Reader); err == nil {
			addH("ecdsa", ek, crypto.SHA384)
		}
		if rk2, err := rsa.GenerateKey(rand.Reader, 2048); err == nil {
			addH("rsa", rk2, crypto.SHA512)
		}
		universe = u
	})
	return universe
}

// saveUniverse writes every key of the universe (private parts included) for child processes.
func (u *Universe) save(path string) error {
	type saved struct {
		PGP  [][]byte
		DSSE []struct {
			Kind string
			Key  []byte
			Hash uint
		}
	}
	var sv saved
	for _, e := range u.PGP {
		var b bytes.Buffer
		if err := e.SerializePrivateWithoutSigning(&b, nil); err != nil {
			return err
		}
		sv.PGP = append(sv.PGP, b.Bytes())
	}
	for _, k := range u.DSSE {
		der, err := x509.MarshalPKCS8PrivateKey(k.pri)
		if err != nil {
			return err
		}
		sv.DSSE = append(sv.DSSE, struct {
			Kind string
			Key  []byte
			Hash uint
		}{k.kind, der, uint(k.hash)})
	}
	b, err := json.Marshal(sv)
	if err != nil {
		return err
	}
	return os.WriteFile(path, b, 0o600)
}

func loadUniverse(path string) *Universe {
	b, err := os.ReadFile(path)
	if err != nil {
		return nil
	}
	var sv struct {
		PGP  [][]byte
		DSSE []struct {
			Kind string
			Key  []byte
			Hash uint
		}
	}
	if json.Unmarshal(b, &sv) != nil {
		return nil
	}
	u := &Universe{}
	for _, p := range sv.PGP {
		el, err := openpgp.ReadKeyRing(bytes.NewReader(p))
		if err != nil || len(el) != 1 {
			return nil
		}
		u.PGP = append(u.PGP, el[0])
	}
	for _, k := range sv.DSSE {
		pri, err := x509.ParsePKCS8PrivateKey(k.Key)
		if err != nil {
			return nil
		}
		h := crypto.Hash(k.Hash)
		if h == 0 {
			h = crypto.SHA256
		}
		s, err := signature.LoadSignerVerifier(pri, h)
		if err != nil {
			return nil
		}
		pub, _ := s.PublicKey()
		u.DSSE = append(u.DSSE, dsseKey{kind: k.Kind, sv: s, pub: pub, pubB: pubBytes(pub), pri: pri, hash: h})
	}
	return u
}

func (u *Universe) pgpIndex(e *openpgp.Entity) int {
	if e == nil {
		return -1
	}
	for i, x := range u.PGP {
		if bytes.Equal(x.PrimaryKey.Fingerprint, e.PrimaryKey.Fingerprint) {
			return i
		}
	}
	return -1
}

func (u *Universe) dsseIndex(pub crypto.PublicKey) int {
	b := pubBytes(pub)
	for i, k := range u.DSSE {
		if bytes.Equal(k.pubB, b) {
			return 100 + i
		}
	}
	return -1
}

func (u *Universe) keyLines() []string {
	ls := []string{fmt.Sprintf("keys n=%d", len(u.PGP))}
	for i, e := range u.PGP {
		ls = append(ls, fmt.Sprintf("key idx=%d fp=%s", i, hx(e.PrimaryKey.Fingerprint)))
	}
	return ls
}

// ---- crypto oracle ----

type jsonObjMD struct {
	RelativeID       uint32          `json:"relativeId"`
	DescriptorDigest json.RawMessage `json:"descriptorDigest"`
	ObjectDigest     json.RawMessage `json:"objectDigest"`
}

type jsonMD struct {
	Version int `json:"version"`
	Header  struct {
		Digest json.RawMessage `json:"digest"`
	} `json:"header"`
	Objects []jsonObjMD `json:"objects"`
}

type envelope struct {
	PayloadType string `json:"payloadType"`
	Payload     string `json:"payload"`
	Signatures  []struct {
		KeyID string `json:"keyid"`
		Sig   string `json:"sig"`
	} `json:"signatures"`
}

// digestField renders a digest JSON field for the protocol: "-" absent, hex(string) when it is a
// JSON string; ok=false when the field holds anything else (the real decode fails on it).
func digestField(r json.RawMessage) (string, bool) {
	if r == nil {
		return "-", true
	}
	var s string
	if err := json.Unmarshal(r, &s); err != nil || string(bytes.TrimSpace(r)) == "null" {
		return "", false
	}
	if s == "" {
		return "", false // "" is malformed for the real parser too; report as undecodable
	}
	return hex.EncodeToString([]byte(s)), true
}

var expectedHashes = []crypto.Hash{crypto.SHA224, crypto.SHA256, crypto.SHA384, crypto.SHA512}

// sigFactLines reports what the third-party layers say about one signature blob.
func (u *Universe) sigFactLines(id uint32, blob []byte) []string {
	var (
		isDSSE, isCS     bool
		ptype            string
		payload          []byte
		payloadOK        bool
		vkeys            []string
		plain            []byte
		signer           = "-"
		mdSrc            []byte
		haveMD           bool
	)
	var e envelope
	if err := json.NewDecoder(bytes.NewReader(blob)).Decode(&e); err == nil {
		isDSSE = true
		ptype = e.PayloadType
		var e2 envelope
		if err := json.Unmarshal(blob, &e2); err == nil {
			b, err := base64.StdEncoding.DecodeString(e2.Payload)
			if err != nil {
				b, err = base64.URLEncoding.DecodeString(e2.Payload)
			}
			if err == nil {
				payload, payloadOK = b, true
			}
		}
		for i, k := range u.DSSE {
			v := dsse.WrapMultiVerifier(mediaType, 1, k.sv)
			if v.VerifySignature(bytes.NewReader(blob), nil) == nil {
				vkeys = append(vkeys, fmt.Sprint(100+i))
			}
		}
	}
	if b, _ := clearsign.Decode(blob); b != nil {
		isCS = true
		plain = b.Plaintext
		kr := openpgp.EntityList(u.PGP)
		if ent, err := openpgp.CheckDetachedSignatureAndHash(kr, bytes.NewReader(b.Bytes), b.ArmoredSignature.Body, expectedHashes, nil); err == nil {
			if i := u.pgpIndex(ent); i >= 0 {
				signer = fmt.Sprint(i)
			}
		}
	}
	if isDSSE && ptype == mediaType {
		if payloadOK {
			mdSrc, haveMD = payload, true
		}
	} else if isCS {
		mdSrc, haveMD = plain, true
	}
	l := fmt.Sprintf("sf id=%d h=%d dsse=%d ptype=%s payload=%s vkeys=%s cs=%d plain=%s signer=%s", id, fnv64(blob), b2i(isDSSE), hx([]byte(ptype)),
		func() string {
			if !payloadOK {
				return "none"
			}
			return hx(payload)
		}(), func() string {
			if len(vkeys) == 0 {
				return "-"
			}
			return strings.Join(vkeys, ",")
		}(), b2i(isCS), hx(plain), signer)
	var objLines []string
	mdOK := false
	if haveMD {
		var m jsonMD
		if err := json.Unmarshal(mdSrc, &m); err == nil {
			hd, ok := digestField(m.Header.Digest)
			good := ok
			for _, o := range m.Objects {
				dd, ok1 := digestField(o.DescriptorDigest)
				od, ok2 := digestField(o.ObjectDigest)
				good = good && ok1 && ok2
				objLines = append(objLines, fmt.Sprintf("mo rel=%d dd=%s od=%s", o.RelativeID, dd, od))
			}
			if good {
				mdOK = true
				l += fmt.Sprintf(" md=1 ver=%d hd=%s nobj=%d", m.Version, hd, len(m.Objects))
			}
		}
	}
	if !mdOK {
		l += " md=0"
		objLines = nil
	}
	return append([]string{l}, objLines...)
}

// factLines describes every signature object of the current image.
func (e *Env) factLines() []string {
	u := getUniverse()
	var body []string
	n := 0
	if e.f != nil {
		e.f.WithDescriptors(func(d sif.Descriptor) bool {
			if d.DataType() == sif.DataSignature {
				// the bytes the library's decoders are handed: the reader runs to the descriptor's
				// size or to the end of the file, whichever comes first (GetData refuses a size
				// that exceeds the file; the integrity package reads through GetReader)
				b, _ := io.ReadAll(d.GetReader())
				body = append(body, u.sigFactLines(d.ID(), b)...)
				n++
			}
			return false
		})
	}
	return append([]string{fmt.Sprintf("facts n=%d", n)}, body...)
}

// ---- operations ----

func idList(xs []uint32) string {
	if len(xs) == 0 {
		return "-"
	}
	var p []string
	for _, x := range xs {
		p = append(p, fmt.Sprint(x))
	}
	return strings.Join(p, ",")
}

func intList(xs []int, none bool) string {
	if none {
		return "none"
	}
	if len(xs) == 0 {
		return "-"
	}
	var p []string
	for _, x := range xs {
		p = append(p, fmt.Sprint(x))
	}
	return strings.Join(p, ",")
}

// VOpts are verification options.
type VOpts struct {
	Groups, Objects   []uint32
	Legacy, LegacyAll bool
	VS                []int // DSSE key indices (100..); nil slice with NoVS = no verifier option at all
	KR                []int // PGP entity indices
	NoVS, NoKR        bool
}

func (v VOpts) String() string {
	return fmt.Sprintf("groups=%s objects=%s legacy=%d legacyall=%d vs=%s kr=%s", idList(v.Groups), idList(v.Objects),
		b2i(v.Legacy), b2i(v.LegacyAll), intList(v.VS, v.NoVS), intList(v.KR, v.NoKR))
}

func (v VOpts) build() []integrity.VerifierOpt {
	u := getUniverse()
	var o []integrity.VerifierOpt
	for _, g := range v.Groups {
		o = append(o, integrity.OptVerifyGroup(g))
	}
	for _, id := range v.Objects {
		o = append(o, integrity.OptVerifyObject(id))
	}
	if v.LegacyAll {
		o = append(o, integrity.OptVerifyLegacyAll())
	} else if v.Legacy {
		o = append(o, integrity.OptVerifyLegacy())
	}
	if !v.NoVS {
		vs := []signature.Verifier{}
		for _, i := range v.VS {
			vs = append(vs, u.DSSE[i-100].sv)
		}
		if len(vs) > 0 {
			o = append(o, integrity.OptVerifyWithVerifier(vs...))
		} else {
			v.NoVS = true
		}
	}
	if !v.NoKR {
		var el openpgp.EntityList
		for _, i := range v.KR {
			el = append(el, u.PGP[i])
		}
		o = append(o, integrity.OptVerifyWithKeyRing(el))
	}
	return o
}

func ierrClass(err error) string {
	var (
		nf *integrity.SignatureNotFoundError
		nv *integrity.SignatureNotValidError
		di *integrity.DescriptorIntegrityError
		oi *integrity.ObjectIntegrityError
	)
	switch {
	case errors.As(err, &nv):
		return fmt.Sprintf("sigNotValid:%d", nv.ID)
	case errors.As(err, &nf):
		g := "o"
		if nf.IsGroup {
			g = "g"
		}
		return fmt.Sprintf("sigNotFound:%d:%s", nf.ID, g)
	case errors.As(err, &di):
		return fmt.Sprintf("descIntegrity:%d", di.ID)
	case errors.As(err, &oi):
		return fmt.Sprintf("objIntegrity:%d", oi.ID)
	case errors.Is(err, integrity.ErrHeaderIntegrity):
		return "hdrIntegrity"
	case errors.Is(err, integrity.ErrNoKeyMaterial):
		return "noKeyMaterial"
	}
	if c := errClass(err); c != "err:other" {
		return "sif:" + strings.TrimPrefix(c, "err:")
	}
	return "other"
}

// VResult is one signature's verification result, canonicalised.
type VResult struct {
	Sig      uint32
	Verified []uint32
	Keys     []int
	Entity   int
	Err      string
}

// doVerify runs NewVerifier+Verify and returns the observation lines plus structured results.
func (e *Env) doVerify(v VOpts) ([]string, []VResult, error) {
	var held []integrity.VerifyResult
	opts := v.build()
	opts = append(opts, integrity.OptVerifyCallback(func(r integrity.VerifyResult) bool {
		held = append(held, r) // read only after Verify has returned: results must stay valid
		return false
	}))
	ver, err := integrity.NewVerifier(e.f, opts...)
	if err != nil {
		return []string{"v newerr:" + ierrClass(err)}, nil, err
	}
	verr := ver.Verify()
	ls, rs := verifyLinesRes(held, verr)
	return ls, rs, verr
}

// verifyLines renders the outcome of one Verify call (results handed to the callback + error).
func verifyLines(held []integrity.VerifyResult, verr error) []string {
	ls, _ := verifyLinesRes(held, verr)
	return ls
}

func verifyLinesRes(held []integrity.VerifyResult, verr error) ([]string, []VResult) {
	u := getUniverse()
	var rs []VResult
	for _, r := range held {
		vr := VResult{Sig: r.Signature().ID(), Entity: u.pgpIndex(r.Entity())}
		for _, d := range r.Verified() {
			vr.Verified = append(vr.Verified, d.ID())
		}
		for _, k := range r.Keys() {
			vr.Keys = append(vr.Keys, u.dsseIndex(k))
		}
		sort.Ints(vr.Keys)
		if r.Error() != nil {
			vr.Err = ierrClass(r.Error())
		}
		rs = append(rs, vr)
	}
	if verr != nil {
		return []string{"v err:" + ierrClass(verr)}, rs
	}
	ls := []string{fmt.Sprintf("v ok n=%d", len(rs))}
	for _, r := range rs {
		ent := "-"
		if r.Entity >= 0 {
			ent = fmt.Sprint(r.Entity)
		}
		var ks []string
		last := -2
		for _, k := range r.Keys {
			if k != last {
				ks = append(ks, fmt.Sprint(k))
			}
			last = k
		}
		ls = append(ls, fmt.Sprintf("vr sig=%d verified=%s keys=%s ent=%s", r.Sig, strings.ReplaceAll(idList(r.Verified), "-", ""), strings.Join(ks, ","), ent))
	}
	return ls, rs
}

func (e *Env) doSignedBy(v VOpts, any bool) []string {
	ver, err := integrity.NewVerifier(e.f, v.build()...)
	if err != nil {
		return []string{"fp newerr:" + ierrClass(err)}
	}
	var fps [][]byte
	if any {
		fps, err = ver.AnySignedBy()
	} else {
		fps, err = ver.AllSignedBy()
	}
	if err != nil {
		return []string{"fp err:" + ierrClass(err)}
	}
	var p []string
	for _, f := range fps {
		p = append(p, hx(f))
	}
	return []string{"fp ok " + strings.Join(p, ",")}
}

// SOpts are signing options.
type SOpts struct {
	PGP       int   // entity index, -1 if DSSE
	DSSE      []int // signer key indices
	Groups    []uint32
	ObjSets   [][]uint32
	T         TOpt // det | at(T via OptSignWithTime) | dflt
	NoSalt    bool
	SigTime   int64 // fixed signature timestamp (PGP) when T.Kind == "at"
}

func (s SOpts) objsets() string {
	if len(s.ObjSets) == 0 {
		return "-"
	}
	var p []string
	for _, set := range s.ObjSets {
		var q []string
		for _, id := range set {
			q = append(q, fmt.Sprint(id))
		}
		p = append(p, strings.Join(q, "+"))
	}
	return strings.Join(p, ";")
}

// doSign performs the real Sign and returns observation lines; blobs are the contents of the
// signature objects it appended, in order.
func (e *Env) doSign(s SOpts) (lines []string, blobs [][]byte, now int64, fp []byte, err error) {
	lines, blobs, _, now, fp, err = e.doSignT(s)
	return
}

func (e *Env) doSignT(s SOpts) (lines []string, blobs [][]byte, nows []int64, now int64, fp []byte, err error) {
	u := getUniverse()
	var opts []integrity.SignerOpt
	if s.PGP >= 0 {
		opts = append(opts, integrity.OptSignWithEntity(u.PGP[s.PGP]))
		fp = u.PGP[s.PGP].PrimaryKey.Fingerprint
	} else {
		var ss []signature.Signer
		for _, i := range s.DSSE {
			ss = append(ss, u.DSSE[i-100].sv)
		}
		opts = append(opts, integrity.OptSignWithSigner(ss...))
	}
	for _, g := range s.Groups {
		opts = append(opts, integrity.OptSignGroup(g))
	}
	for _, set := range s.ObjSets {
		opts = append(opts, integrity.OptSignObjects(set...))
	}
	switch s.T.Kind {
	case "det":
		opts = append(opts, integrity.OptSignDeterministic())
	case "at":
		t := s.T.T
		opts = append(opts, integrity.OptSignWithTime(func() time.Time { return time.Unix(t, 0) }))
	}
	if s.NoSalt {
		opts = append(opts, integrity.OptSignWithoutPGPSignatureSalt())
	}
	before := map[uint32]bool{}
	for _, id := range inspect(e.f).ids {
		before[id] = true
	}
	sg, err := integrity.NewSigner(e.f, opts...)
	if err != nil {
		return []string{"sg newerr:" + ierrClass(err)}, nil, nil, 0, fp, err
	}
	serr := sg.Sign()
	// the signature objects appended (possibly a prefix, when Sign failed part-way)
	type added struct {
		id    uint32
		group uint32
		blob  []byte
		ct    int64
	}
	var adds []added
	e.f.WithDescriptors(func(d sif.Descriptor) bool {
		if !before[d.ID()] {
			b, _ := d.GetData()
			l, _ := d.LinkedID()
			adds = append(adds, added{d.ID(), l, b, d.CreatedAt().Unix()})
		}
		return false
	})
	// order of addition = order of the signers; free slots are filled in ascending order and IDs
	// derive from slots, so ascending ID is the order of addition
	sort.Slice(adds, func(a, b int) bool { return adds[a].id < adds[b].id })
	lines = append(lines, "sg ok")
	for _, a := range adds {
		blobs = append(blobs, a.blob)
		nows = append(nows, a.ct)
		lines = append(lines, fmt.Sprintf("md g=%d %s", a.group, hx(oraclePayload(a.blob))), "res ok")
	}
	if serr != nil {
		lines = append(lines, "sg failed")
	}
	now = e.f.ModifiedAt().Unix()
	return lines, blobs, nows, now, fp, serr
}

// oraclePayload extracts the signed message of a freshly made signature blob.
func oraclePayload(blob []byte) []byte {
	var env envelope
	if err := json.Unmarshal(blob, &env); err == nil && env.PayloadType == mediaType {
		if b, err := base64.StdEncoding.DecodeString(env.Payload); err == nil {
			return b
		}
	}
	if b, _ := clearsign.Decode(blob); b != nil {
		return b.Plaintext
	}
	return nil
}

// keyring returns every PGP entity of the universe.
func (u *Universe) keyring() openpgp.EntityList {
	var el openpgp.EntityList
	for _, e := range u.PGP {
		el = append(el, e)
	}
	return el
}

// allVerifiers returns every DSSE verifier of the universe.
func (u *Universe) allVerifiers() []signature.Verifier {
	var vs []signature.Verifier
	for _, k := range u.DSSE {
		vs = append(vs, k.sv)
	}
	return vs
}
