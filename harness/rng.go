package main

// SplitMix64: every random choice in the harness derives from one of these, seeded from
// VERIF_SEED and a per-case index, so that any case replays exactly.
type RNG struct{ s uint64 }

func NewRNG(seed uint64) *RNG { return &RNG{s: seed} }

func (r *RNG) U64() uint64 {
	r.s += 0x9e3779b97f4a7c15
	z := r.s
	z = (z ^ (z >> 30)) * 0xbf58476d1ce4e5b9
	z = (z ^ (z >> 27)) * 0x94d049bb133111eb
	return z ^ (z >> 31)
}

func (r *RNG) Intn(n int) int {
	if n <= 0 {
		return 0
	}
	return int(r.U64() % uint64(n))
}

func (r *RNG) Chance(num, den int) bool { return r.Intn(den) < num }

func (r *RNG) Bytes(n int) []byte {
	b := make([]byte, n)
	for i := range b {
		b[i] = byte(r.U64())
	}
	return b
}

func pick[T any](r *RNG, xs []T) T { return xs[r.Intn(len(xs))] }

// lcgBytes is the bulk-payload generator shared with the Lean driver.
func lcgBytes(n int, seed uint64) []byte {
	b := make([]byte, n)
	x := seed
	for i := range b {
		x = x*6364136223846793005 + 1442695040888963407
		b[i] = byte(x >> 56)
	}
	return b
}

func fnv64(b []byte) uint64 {
	h := uint64(14695981039346656037)
	for _, c := range b {
		h ^= uint64(c)
		h *= 1099511628211
	}
	return h
}
