package main

// Foreign images: described here, encoded by the Lean model's encoder (an implementation that
// shares no code with the library), loaded by the library.  Arbitrary unique ID numbering, free
// slots anywhere, leftover bytes in unused slots, arbitrary placement order, gaps after the
// table — and, for the refusal cases, non-canonical magic/version bytes.

import (
	"fmt"
	"path/filepath"
)

type FDesc struct {
	Used                                   bool
	DT                                     int32
	ID, GID, Link                          uint32
	Off, Size, SizePad, CT, MT, UID, GIDow int64
	Name, Extra                            []byte
	Data                                   *DataSpec
}

type FImg struct {
	Launch, Magic, Version, Arch, ID              []byte
	CT, MT, Free, Total, DOff, DSize, DataOff, DataSize int64
	Descs                                         []FDesc
	FLen                                          int64
	WellFormed                                    bool // satisfies the theorems' hypotheses (WF, Placed)
	BadMagicVersion                               bool
	TableBehind                                   bool // the descriptor table lies behind the data section: outside the theorems' hypotheses (tabRegion)
}

func (f *FImg) lines(path string) []string {
	ls := []string{fmt.Sprintf("mkimg path=%s launch=%s magic=%s version=%s arch=%s id=%s ct=%d mt=%d dfree=%d dtotal=%d doff=%d dsize=%d dataoff=%d datasize=%d n=%d flen=%d",
		path, hx(f.Launch), hx(f.Magic), hx(f.Version), hx(f.Arch), hx(f.ID), f.CT, f.MT, f.Free, f.Total, f.DOff, f.DSize, f.DataOff, f.DataSize, len(f.Descs), f.FLen)}
	for _, d := range f.Descs {
		l := fmt.Sprintf("fd used=%d dt=%d id=%d gid=%d link=%d off=%d size=%d sizepad=%d ct=%d mt=%d uid=%d gidown=%d name=%s extra=%s",
			b2i(d.Used), d.DT, d.ID, d.GID, d.Link, d.Off, d.Size, d.SizePad, d.CT, d.MT, d.UID, d.GIDow, hx(d.Name), hx(d.Extra))
		if d.Data != nil {
			l += " data=" + d.Data.String()
		}
		ls = append(ls, l)
	}
	return ls
}

var archCodes = []string{"01", "02", "03", "04", "05", "06", "07", "08", "09", "10", "11", "12"}

// genForeign draws a well-formed foreign image.
func (g *Gen) genForeign() *FImg {
	r := g.r
	g.partHeavy = r.Chance(1, 4) // a history about partitions on another writer's image: its unused slots hold former primary partitions
	if g.partHeavy {
		g.count("history:partition-heavy-foreign")
	}
	n := 1 + r.Intn(6)
	f := &FImg{Magic: []byte("SIF_MAGIC\x00"), Version: []byte("01\x00"), Arch: []byte("00\x00"), WellFormed: true}
	if r.Chance(1, 2) {
		f.Launch = []byte("#!/usr/bin/env run-singularity\n")
	}
	if r.Chance(2, 3) {
		f.ID = r.Bytes(16)
		f.CT = int64(r.Intn(2000000000))
		f.MT = f.CT + int64(r.Intn(1000))
	} else {
		f.CT, f.MT = -62135596800, -62135596800 // deterministic
	}
	f.Total = int64(n)
	f.DOff = pick(r, []int64{128, 200, 4096, 4096, 4097})
	f.DSize = 585*int64(n) + int64(pick(r, []int{0, 0, 7, 585, 1000}))
	f.DataOff = f.DOff + f.DSize + int64(pick(r, []int{0, 0, 592, 13}))
	if r.Chance(1, 8) {
		f.TableBehind, f.WellFormed = true, false
		f.DataOff = int64(pick(r, []int{128, 128, 512, 4096}))
	}
	// choose used slots and unique IDs not tied to slot order
	ids := []uint32{}
	for len(ids) < n {
		c := uint32(1 + r.Intn(n+3))
		dup := false
		for _, x := range ids {
			dup = dup || x == c
		}
		if !dup {
			ids = append(ids, c)
		}
	}
	used := make([]bool, n)
	nu := 0
	for i := range used {
		used[i] = r.Chance(3, 5)
		if used[i] {
			nu++
		}
	}
	f.Free = int64(n - nu)
	// placement order: a random permutation of the used slots
	order := []int{}
	for i, u := range used {
		if u {
			order = append(order, i)
		}
	}
	for i := len(order) - 1; i > 0; i-- {
		j := r.Intn(i + 1)
		order[i], order[j] = order[j], order[i]
	}
	f.Descs = make([]FDesc, n)
	cur := f.DataOff
	havePrim := false
	// sometimes the first three objects placed are partitions marked primary, primary and system (an
	// image two writers each gave "their" primary partition): promoting the third is refused
	twoPrims := len(order) >= 3 && r.Chance(1, 5)
	if twoPrims {
		g.count("foreign:two-primary-partitions-and-a-system-partition")
	}
	placed := 0
	for _, i := range order {
		gap := int64(pick(r, []int{0, 0, 0, 1, 5, 64, 512}))
		off := cur + gap
		ds := g.size()
		data := ds.Bytes()
		dt := pick(r, dataTypes)
		placed++
		if twoPrims && placed <= 3 {
			dt = 0x4004
		}
		d := FDesc{Used: true, DT: dt, ID: ids[i], GID: 0xf0000000 | pick(r, []uint32{0, 1, 1, 2, 3}), Off: off, Size: int64(len(data)),
			SizePad: gap + int64(len(data)), CT: int64(r.Intn(2000000000)), MT: int64(r.Intn(2000000000)), Name: g.name(), Data: &ds}
		if len(d.Name) > 128 {
			d.Name = d.Name[:128]
		}
		if r.Chance(1, 2) {
			// early releases recorded the builder's user and group in the descriptor
			d.UID, d.GIDow = int64(pick(r, []int{0, 1000, 1000, 501, 65534})), int64(pick(r, []int{0, 100, 1000, 20, 65534}))
		}
		switch r.Intn(6) {
		case 0:
			d.Link = uint32(1 + r.Intn(n))
		case 1:
			d.Link = 0xf0000000 | uint32(1+r.Intn(3))
		}
		switch dt {
		case 0x4004:
			pt := int32(1 + r.Intn(4))
			if twoPrims && placed <= 3 {
				pt = []int32{2, 2, 1}[placed-1]
			} else if pt == 2 && havePrim {
				pt = 1
				if r.Chance(1, 4) {
					// another writer's image with two partitions marked primary
					pt = 2
					g.count("foreign:two-primary-partitions")
				}
			}
			ac := pick(r, archCodes)
			if pt != 2 && r.Chance(1, 5) {
				// data and overlay partitions written without an architecture, or by a newer writer
				ac = pick(r, []string{"00", "13", "99"})
				g.count("foreign:partition-with-unnamed-arch-code")
			}
			ex := make([]byte, 11)
			ex[0] = byte(1 + r.Intn(5))
			ex[4] = byte(pt)
			copy(ex[8:], ac)
			d.Extra = ex
			if pt == 2 {
				havePrim = true
				f.Arch = []byte(ac + "\x00")
				if r.Chance(1, 6) {
					// a writer that does not record the primary architecture in the global header
					f.Arch = []byte("00\x00")
					g.count("foreign:primary-partition-header-arch-unknown")
				}
			}
		case 0x400A, 0x400B:
			d.Extra = []byte(fmt.Sprintf("sha256:%x", r.Bytes(32)))
		default:
			if r.Chance(1, 3) {
				d.Extra = r.Bytes(r.Intn(385))
			}
		}
		f.Descs[i] = d
		cur = off + int64(len(data))
	}
	f.DataSize = cur - f.DataOff + int64(pick(r, []int{0, 0, 0, 100}))
	f.FLen = cur
	if nu == 0 && !f.TableBehind && r.Chance(1, 2) {
		// an image without objects that ends with its last descriptor although the header declares
		// a larger table region (reserved space that was never written)
		f.DSize = 585*int64(n) + int64(pick(r, []int{7, 585, 4096}))
		f.DataOff = f.DOff + f.DSize
		f.DataSize = 0
		f.FLen = f.DOff + 585*int64(n)
		g.count("foreign:declared-table-region-beyond-the-end")
	}
	if f.TableBehind {
		// the descriptor table lies behind the data section (a writer that appends its index)
		f.DOff = f.DataOff + f.DataSize + int64(pick(r, []int{0, 3, 585, 4096}))
		f.DSize = 585*int64(n) + int64(pick(r, []int{0, 0, 7}))
		f.FLen = f.DOff + f.DSize
		if r.Chance(1, 2) {
			f.FLen = f.DOff + 585*int64(n) // every descriptor is present; the declared table size runs past the end of the file
		}
		g.count("foreign:table-behind-data")
	}
	// leftover bytes in unused slots
	for i, u := range used {
		if !u && (r.Chance(1, 2) || g.partHeavy) {
			f.Descs[i] = FDesc{Used: false, DT: pick(r, dataTypes), ID: leftoverID(r.Intn(9), i), GID: uint32(r.U64()), Link: uint32(r.U64()),
				Off: int64(r.Intn(100000)), Size: int64(r.Intn(1000)), SizePad: int64(r.Intn(1000)), CT: int64(r.Intn(1 << 30)), MT: int64(r.Intn(1 << 30)),
				UID: int64(r.Intn(3)), GIDow: int64(r.Intn(3)), Name: r.Bytes(r.Intn(129)), Extra: r.Bytes(r.Intn(385))}
			if r.Chance(1, 3) || g.partHeavy {
				// what a writer that frees a slot by clearing only its in-use flag leaves behind: the
				// whole descriptor of a former primary system partition
				ex := make([]byte, 11)
				ex[0], ex[4] = byte(1+r.Intn(5)), 2
				copy(ex[8:], pick(r, archCodes))
				f.Descs[i].DT, f.Descs[i].Extra = 0x4004, ex
				f.Descs[i].GID = 0xf0000000 | 1
				g.count("foreign:unused-slot-holds-a-former-primary-partition")
			}
			if r.Chance(1, 4) {
				// the loader accepts anything in a slot that is not in use
				f.Descs[i].Off = -int64(1 + r.Intn(100000))
				g.count("foreign:unused-negative-offset")
			}
			if r.Chance(1, 4) {
				f.Descs[i].Size = -int64(1 + r.Intn(100000))
				g.count("foreign:unused-negative-size")
			}
		}
	}
	g.count(fmt.Sprintf("foreign:n%d-used%d", n, nu))
	return f
}

// badMagicVersion perturbs the magic or the version of a well-formed image.
func (g *Gen) badMagicVersion(f *FImg) {
	r := g.r
	f.BadMagicVersion = true
	switch r.Intn(12) {
	case 0:
		f.Version = []byte("00\x00")
	case 1:
		f.Version = []byte("1\x00\x00")
	case 2:
		f.Version = []byte("001")
	case 3:
		f.Version = []byte("02\x00")
	case 4:
		f.Version = []byte("01 ")
	case 5:
		f.Version = []byte("\x0001")
	case 6:
		f.Version = []byte{'0', '1', byte(1 + r.Intn(255))}
	case 7:
		f.Magic = []byte("SIF_MAGIC\x01")
	case 8:
		f.Magic = []byte("sif_magic\x00")
	case 9:
		m := []byte("SIF_MAGIC\x00")
		m[r.Intn(10)] ^= byte(1 << r.Intn(8))
		f.Magic = m
	case 10:
		v := []byte("01\x00")
		v[r.Intn(3)] ^= byte(1 << r.Intn(8))
		f.Version = v
	default:
		f.Magic = append([]byte("SIF_MAGI"), 0, 0)
	}
	g.count("foreign:bad-magic-version")
}

func foreignPath(dir string, seq int) string { return filepath.Join(dir, fmt.Sprintf("foreign%d.sif", seq)) }

// leftoverID: the ID field an unused slot still holds — any small number, or (half of the time) the
// number the slot's position implies, as after a delete that cleared only the in-use flag
func leftoverID(x, slot int) uint32 {
	if x%2 == 1 {
		return uint32(slot + 1)
	}
	return uint32(x)
}
