package main

// C18: concurrent read-only use of one handle.
//
// Every scenario builds a signed image through the real library (the construction and the
// run-alone answers are also compared with the Lean model, like every other integrity scenario),
// then loads FRESH handles of the resulting bytes on both backing stores and lets several
// goroutines make their first and all later accesses concurrently.  Each goroutine's answers must
// equal the answers obtained alone on a separate handle.  Built with -race by bin/check: a race
// report of the Go runtime is a violation as well (collected by bin/check from GORACE's log).

import (
	"crypto"
	"bytes"
	"fmt"
	"os"
	"path/filepath"
	"runtime"
	"sort"
	"strings"
	"sync"

	"github.com/sylabs/sif/v2/pkg/integrity"
	"github.com/sylabs/sif/v2/pkg/sif"
)

type concQuery struct {
	name string
	run  func(f *sif.FileImage) string
}

func descList(f *sif.FileImage, fns ...sif.DescriptorSelectorFunc) string {
	ds, err := f.GetDescriptors(fns...)
	if err != nil {
		return "err:" + errClass(err)
	}
	var ls []string
	for _, d := range ds {
		ls = append(ls, objLine("", d))
	}
	return strings.Join(ls, "\n")
}

// heldStreams obtains the integrity stream of every object first, yields, and only then drains
// them: the answers must not depend on what other callers (or this one) obtained in between.
func heldStreams(f *sif.FileImage) string {
	ds, err := f.GetDescriptors()
	if err != nil {
		return "err:" + errClass(err)
	}
	type held struct {
		id uint32
		r  interface{ Read([]byte) (int, error) }
	}
	var hs []held
	for _, d := range ds {
		hs = append(hs, held{d.ID(), d.GetIntegrityReader()})
	}
	hr := f.GetHeaderIntegrityReader()
	runtime.Gosched()
	var ls []string
	for _, h := range hs {
		ls = append(ls, fmt.Sprintf("%d:%x", h.id, readAll(h.r)))
	}
	ls = append(ls, fmt.Sprintf("hdr:%x", readAll(hr)))
	return strings.Join(ls, "\n")
}

func concQueries(f0 *sif.FileImage, v VOpts) []concQuery {
	qs := []concQuery{
		{"list", func(f *sif.FileImage) string { return descList(f) }},
		{"held-streams", heldStreams},
		{"header", func(f *sif.FileImage) string { return strings.Join(viewLines("", f)[:1], "\n") }},
		{"verify", func(f *sif.FileImage) string {
			ls, _, _ := (&Env{f: f}).doVerify(v)
			return strings.Join(ls, "\n")
		}},
		{"signedby", func(f *sif.FileImage) string {
			return strings.Join((&Env{f: f}).doSignedBy(VOpts{NoVS: true, NoKR: true, Legacy: false}, true), "\n")
		}},
		{"with", func(f *sif.FileImage) string {
			var ls []string
			f.WithDescriptors(func(d sif.Descriptor) bool { ls = append(ls, objLine("", d)); return false })
			return strings.Join(ls, "\n")
		}},
	}
	groups := map[uint32]bool{}
	ds, _ := f0.GetDescriptors()
	for _, d := range ds {
		d := d
		if g := d.GroupID(); g != 0 && !groups[g] {
			groups[g] = true
			qs = append(qs, concQuery{fmt.Sprintf("group-%d", g), func(f *sif.FileImage) string { return descList(f, sif.WithGroupID(g)) }})
			qs = append(qs, concQuery{fmt.Sprintf("linkedgroup-%d", g), func(f *sif.FileImage) string { return descList(f, sif.WithLinkedGroupID(g)) }})
		}
		id := d.ID()
		qs = append(qs, concQuery{fmt.Sprintf("one-%d", id), func(f *sif.FileImage) string {
			x, err := f.GetDescriptor(sif.WithID(id))
			if err != nil {
				return "err:" + errClass(err)
			}
			b, err := x.GetData()
			if err != nil {
				return "dataerr"
			}
			return objLine("", x) + fmt.Sprintf(" %d:%d", len(b), fnv64(b)) + fmt.Sprintf(" r:%d", fnv64(readAll(x.GetReader())))
		}})
	}
	qs = append(qs, concQuery{"sigs", func(f *sif.FileImage) string { return descList(f, sif.WithDataType(sif.DataSignature)) }})
	return qs
}

func openHandle(b []byte, backend, dir string, n int) (*sif.FileImage, func(), error) {
	if backend == "file" {
		p := filepath.Join(dir, fmt.Sprintf("conc%d.sif", n))
		if err := os.WriteFile(p, b, 0o644); err != nil {
			return nil, nil, err
		}
		f, err := sif.LoadContainerFromPath(p, sif.OptLoadWithFlag(os.O_RDONLY))
		if err != nil {
			return nil, nil, err
		}
		return f, func() { _ = f.UnloadContainer(); _ = os.Remove(p) }, nil
	}
	f, err := sif.LoadContainer(sif.NewBuffer(append([]byte(nil), b...)), sif.OptLoadWithFlag(os.O_RDONLY))
	if err != nil {
		return nil, nil, err
	}
	return f, func() { _ = f.UnloadContainer() }, nil
}

// concStress returns a description of the first differing answer, or "".
func concStress(g *Gen, img []byte, v VOpts, dir string) string {
	r := g.r
	base, closeBase, err := openHandle(img, "buf", dir, 0)
	if err != nil {
		return ""
	}
	qs := concQueries(base, v)
	solo := make([]string, len(qs))
	for i, q := range qs {
		solo[i] = q.run(base)
	}
	closeBase()
	rounds := 3
	modified := r.Chance(1, 2)
	if modified {
		rounds = 4
	}
	for round := 0; round < rounds; round++ {
		backend := pick(r, []string{"buf", "file"})
		f, closeF, err := openHandle(img, backend, dir, round+1)
		if err != nil {
			continue
		}
		if modified && round == 3 {
			// a handle that has just been modified (an object deleted without compaction, perhaps one
			// added) and is then only read, by several goroutines at once: the answers are those of
			// a fresh load of the bytes it wrote
			closeF()
			buf := sif.NewBuffer(append([]byte(nil), img...))
			wf, werr := sif.LoadContainer(buf)
			if werr != nil {
				continue
			}
			var ids []uint32
			wf.WithDescriptors(func(d sif.Descriptor) bool { ids = append(ids, d.ID()); return false })
			if len(ids) < 2 {
				_ = wf.UnloadContainer()
				continue
			}
			if wf.DeleteObject(pick(r, ids), sif.OptDeleteDeterministic(), sif.OptDeleteZero(r.Chance(1, 2))) != nil {
				_ = wf.UnloadContainer()
				continue
			}
			if r.Chance(1, 2) {
				if di, derr := sif.NewDescriptorInput(sif.DataGeneric, bytes.NewReader(r.Bytes(1+r.Intn(64))), sif.OptGroupID(1)); derr == nil {
					_ = wf.AddObject(di, sif.OptAddDeterministic())
				}
			}
			if r.Chance(2, 3) {
				// … and on which modifications were then refused (each leaves the image as it was):
				// an object that does not exist, a name that is too long, a data source that fails, a
				// full descriptor table
				_ = wf.DeleteObject(9999, sif.OptDeleteDeterministic())
				_ = wf.SetPrimPart(9999, sif.OptSetDeterministic())
				if di, derr := sif.NewDescriptorInput(sif.DataGeneric, bytes.NewReader([]byte("x")), sif.OptObjectName(strings.Repeat("n", 129))); derr == nil {
					_ = wf.AddObject(di, sif.OptAddDeterministic())
				}
				if di, derr := sif.NewDescriptorInput(sif.DataGeneric, &failReader{data: []byte("abc")}); derr == nil {
					_ = wf.AddObject(di, sif.OptAddDeterministic())
				}
				if r.Chance(1, 2) {
					for k := 0; k < 300; k++ {
						di, derr := sif.NewDescriptorInput(sif.DataGeneric, bytes.NewReader([]byte{byte(k)}), sif.OptGroupID(1))
						if derr != nil || wf.AddObject(di, sif.OptAddDeterministic()) != nil {
							break
						}
					}
					g.count("conc:after-add-refused-on-full-table")
				}
				g.count("conc:after-refused-modifications")
			}
			ref, closeRef, rerr := openHandle(append([]byte(nil), buf.Bytes()...), "buf", dir, 9)
			if rerr != nil {
				_ = wf.UnloadContainer()
				continue
			}
			qs = concQueries(ref, v)
			solo = make([]string, len(qs))
			for i, q := range qs {
				solo[i] = q.run(ref)
			}
			closeRef()
			f, closeF, backend = wf, func() { _ = wf.UnloadContainer() }, "just-modified buf"
			g.count("conc:just-modified-handle")
		}
		nG := 2 + r.Intn(7)
		g.count(fmt.Sprintf("conc:goroutines-%d", nG))
		g.count("conc:backend-" + backend)
		orders := make([][]int, nG)
		for k := range orders {
			// the first query of each goroutine is the handle's first descriptor access
			o := make([]int, 0, 2*len(qs))
			for rep := 0; rep < 2; rep++ {
				perm := make([]int, len(qs))
				for i := range perm {
					perm[i] = i
				}
				for i := len(perm) - 1; i > 0; i-- {
					j := r.Intn(i + 1)
					perm[i], perm[j] = perm[j], perm[i]
				}
				o = append(o, perm...)
			}
			orders[k] = o
		}
		start := make(chan struct{})
		var wg sync.WaitGroup
		var mu sync.Mutex
		diff := ""
		for k := 0; k < nG; k++ {
			wg.Add(1)
			go func(k int) {
				defer wg.Done()
				defer func() {
					if p := recover(); p != nil {
						mu.Lock()
						if diff == "" {
							diff = fmt.Sprintf("goroutine %d of %d on %s handle panicked: %v", k, nG, backend, p)
						}
						mu.Unlock()
					}
				}()
				<-start
				for _, qi := range orders[k] {
					got := qs[qi].run(f)
					if got != solo[qi] {
						mu.Lock()
						if diff == "" {
							diff = fmt.Sprintf("query %s by goroutine %d of %d on a fresh %s handle: concurrent answer differs from the answer alone\n alone: %s\n concurrent: %s",
								qs[qi].name, k, nG, backend, firstDiffLine(solo[qi], got), firstDiffLine(got, solo[qi]))
						}
						mu.Unlock()
						return
					}
				}
			}(k)
		}
		close(start)
		wg.Wait()
		g.stats["conc:queries"] += nG * 2 * len(qs)
		if diff == "" {
			diff = sharedVerifier(g, f, v, nG, backend)
		}
		closeF()
		if diff != "" {
			return diff
		}
	}
	return ""
}

// canonResult renders one verification result the way doVerify does.
func canonResult(r integrity.VerifyResult) string {
	u := getUniverse()
	var ids []string
	for _, d := range r.Verified() {
		ids = append(ids, fmt.Sprint(d.ID()))
	}
	var ks []int
	for _, k := range r.Keys() {
		ks = append(ks, u.dsseIndex(k))
	}
	sort.Ints(ks)
	e := ""
	if r.Error() != nil {
		e = ierrClass(r.Error())
	}
	return fmt.Sprintf("sig=%d verified=%s keys=%v ent=%d err=%s", r.Signature().ID(), strings.Join(ids, ","), ks, u.pgpIndex(r.Entity()), e)
}

// sharedVerifier: ONE integrity.Verifier value used by several goroutines at once (Verify and the
// two listings).  Every call must report what the same call reports alone: the results handed
// to the callback, taken together, are n copies of the solo results.
func sharedVerifier(g *Gen, f *sif.FileImage, v VOpts, n int, backend string) string {
	var mu sync.Mutex
	var held []integrity.VerifyResult
	opts := append(v.build(), integrity.OptVerifyCallback(func(r integrity.VerifyResult) bool {
		mu.Lock()
		held = append(held, r)
		mu.Unlock()
		return false
	}))
	// the solo answers come from a Verifier of their own: the shared one must be fresh, so that
	// the goroutines' calls are the first ones ever made on it
	ver0, err := integrity.NewVerifier(f, opts...)
	if err != nil {
		return ""
	}
	soloErr := ver0.Verify()
	var solo []string
	for _, r := range held {
		solo = append(solo, canonResult(r))
	}
	sort.Strings(solo)
	soloAny, soloAnyErr := ver0.AnySignedBy()
	soloAll, soloAllErr := ver0.AllSignedBy()
	held = nil
	ver, err := integrity.NewVerifier(f, opts...)
	if err != nil {
		return ""
	}
	errs := make([]error, n)
	anys := make([][][]byte, n)
	alls := make([][][]byte, n)
	anyErrs := make([]error, n)
	allErrs := make([]error, n)
	var wg sync.WaitGroup
	start := make(chan struct{})
	for k := 0; k < n; k++ {
		wg.Add(1)
		go func(k int) {
			defer wg.Done()
			<-start
			// the goroutines start with different calls
			switch k % 3 {
			case 0:
				alls[k], allErrs[k] = ver.AllSignedBy()
				anys[k], anyErrs[k] = ver.AnySignedBy()
				errs[k] = ver.Verify()
			case 1:
				anys[k], anyErrs[k] = ver.AnySignedBy()
				alls[k], allErrs[k] = ver.AllSignedBy()
				errs[k] = ver.Verify()
			default:
				errs[k] = ver.Verify()
				alls[k], allErrs[k] = ver.AllSignedBy()
				anys[k], anyErrs[k] = ver.AnySignedBy()
			}
		}(k)
	}
	close(start)
	wg.Wait()
	g.stats["conc:shared-verifier-calls"] += n
	for k := range errs {
		if (errs[k] == nil) != (soloErr == nil) {
			return fmt.Sprintf("one Verifier shared by %d goroutines on a %s handle: Verify returned %v, alone it returns %v", n, backend, errs[k], soloErr)
		}
		if fmt.Sprint(anys[k]) != fmt.Sprint(soloAny) || (anyErrs[k] == nil) != (soloAnyErr == nil) {
			return fmt.Sprintf("one fresh Verifier shared by %d goroutines on a %s handle: AnySignedBy returned %x (%v), alone %x (%v)", n, backend, anys[k], anyErrs[k], soloAny, soloAnyErr)
		}
		if fmt.Sprint(alls[k]) != fmt.Sprint(soloAll) || (allErrs[k] == nil) != (soloAllErr == nil) {
			return fmt.Sprintf("one fresh Verifier shared by %d goroutines on a %s handle: AllSignedBy returned %x (%v), alone %x (%v)", n, backend, alls[k], allErrs[k], soloAll, soloAllErr)
		}
	}
	var got []string
	for _, r := range held {
		got = append(got, canonResult(r))
	}
	sort.Strings(got)
	var want []string
	for k := 0; k < n; k++ {
		want = append(want, solo...)
	}
	sort.Strings(want)
	if strings.Join(got, "\n") != strings.Join(want, "\n") {
		return fmt.Sprintf("one Verifier shared by %d goroutines on a %s handle: the results reported to the callback are not %d copies of the solo results\n alone: %s\n concurrent: %s",
			n, backend, n, firstDiffLine(strings.Join(want, "\n"), strings.Join(got, "\n")), firstDiffLine(strings.Join(got, "\n"), strings.Join(want, "\n")))
	}
	return ""
}

func firstDiffLine(a, b string) string {
	la, lb := strings.Split(a, "\n"), strings.Split(b, "\n")
	for i := range la {
		if i >= len(lb) || la[i] != lb[i] {
			if len(la[i]) > 400 {
				return la[i][:400] + "…"
			}
			return la[i]
		}
	}
	return "(prefix)"
}

func scenC18(g *Gen, dir string) ([]*Op, func(e *Env, i int, op *Op, obs []string) *Violation) {
	r := g.r
	create, groups := g.baseImage(4, 12)
	ops := []*Op{keysOp(), create}
	legacyGroup := r.Chance(1, 6)
	var legacyV VOpts
	if legacyGroup {
		// another writer's legacy image: group 1 = two objects whose table order is not their ID order,
		// with a legacy signature over the group (objects digested in table order); requests are
		// legacy group verifications through one shared Verifier with a callback
		u := getUniverse()
		ent := r.Intn(len(u.PGP))
		a, b := r.Bytes(5+r.Intn(20)), r.Bytes(5+r.Intn(20))
		mk := func(d []byte) DI {
			return DI{DT: 0x4007, Fail: -1, Data: DataSpec{Lit: d}, Opts: []DIOpt{{Kind: "group", N: 1}}}
		}
		create = &Op{Kind: "create", Backend: "buf", COpts: []CreateOpt{{Kind: "cap", I: 8}, {Kind: "det"}, {Kind: "descs", DIs: []DI{mk(a), mk(b)}}}}
		groups = map[uint32][]uint32{1: {1, 2}}
		ops = []*Op{keysOp(), create, {Kind: "patch", SwapSlots: []int{0, 1}},
			{Kind: "add", T: TOpt{Kind: "det"}, DI: sigObjectDI(legacyBlob(ent, append(append([]byte{}, b...), a...), crypto.SHA256), 1, 0, 1, u.PGP[ent].PrimaryKey.Fingerprint, 0)}}
		legacyV = trustFor([]int{ent})
		legacyV.Legacy, legacyV.Groups = true, []uint32{1}
		g.count("variant:legacy-group-in-another-writers-table-order")
	}
	if r.Chance(1, 2) && !legacyGroup {
		gid := pick(r, sortedGroups(groups))
		if len(groups[gid]) > 1 {
			// relative IDs differ from absolute ones in this group afterwards
			ops = append(ops, &Op{Kind: "del", Sel: Sel{Kind: "id", N: int64(groups[gid][0])}, T: TOpt{Kind: "det"}})
			g.count("pre:delete-lowest")
		}
	}
	if r.Chance(1, 3) {
		// objects larger than the buffers and thresholds read paths use (io.Copy's 32 KiB, 64 KiB,
		// 1 MiB): whatever fast path a reader takes for them must still not touch shared state
		for k := 1; k > 0; k-- {
			n := pick(r, []int{32769, 65537, 70000, 200 * 1024, 1 << 20, 1<<20 + 4097})
			gid := pick(r, sortedGroups(groups))
			ops = append(ops, &Op{Kind: "add", T: TOpt{Kind: "det"}, DI: DI{DT: 0x4007, Fail: -1, Data: DataSpec{Gen: true, Len: n, Seed: r.U64()}, Opts: []DIOpt{{Kind: "group", N: gid}}}})
			g.count(fmt.Sprintf("large-object:%d", n))
		}
	}
	var keys []int
	for n := 1 + r.Intn(2); n > 0 && !legacyGroup; n-- {
		s := g.signKeys()
		ops = append(ops, &Op{Kind: "sign", S: s})
		keys = append(keys, s.keyList()...)
	}
	v := trustFor(dedupInts(keys))
	if legacyGroup {
		v = legacyV
	}
	ops = append(ops, factsOp(), obsOp())
	ops = append(ops, &Op{Kind: "verify", V: v})
	last := len(ops) - 1
	check := func(e *Env, i int, op *Op, obs []string) *Violation {
		if i != last || e.f == nil {
			return nil
		}
		img := e.storeBytes()
		if d := concStress(g, img, v, dir); d != "" {
			return &Violation{Key: "C18:concurrent-answer-differs", What: d, Op: i}
		}
		// one caller keeping several streams open: the same answers as draining each at once
		f, closeF, err := openHandle(img, "buf", dir, 99)
		if err == nil {
			defer closeF()
			ds, _ := f.GetDescriptors()
			var want [][]byte
			for _, d := range ds {
				want = append(want, readAll(d.GetIntegrityReader()))
			}
			var rs []interface{ Read([]byte) (int, error) }
			for _, d := range ds {
				rs = append(rs, d.GetIntegrityReader())
			}
			for k := range rs {
				if got := readAll(rs[k]); !bytes.Equal(got, want[k]) {
					return &Violation{Key: "C18:stream-aliasing", What: fmt.Sprintf("integrity stream of object %d read after other streams were obtained differs from the stream read at once", ds[k].ID()), Op: i}
				}
			}
		}
		return nil
	}
	_ = sort.Ints
	return ops, check
}

func init() {
	integScen["C18"] = scenC18
	integCases["C18"] = [2]int{90, 1500}
	integCorr["C18"] = "run-alone answers of the read-only API (listing, data, integrity streams, verification) = model; concurrent answers on fresh handles = run-alone answers"
}
