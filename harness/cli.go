package main

// C15: the siftool binary, built from $REPO's working tree, against the Lean model of its
// argument translation (Model/Siftool.lean) composed with the library model.

import (
	"bytes"
	"context"
	"crypto"
	"encoding/hex"
	"fmt"
	"os"
	"os/exec"
	"path/filepath"
	"regexp"
	"sort"
	"strconv"
	"strings"
	"sync"
	"time"

	"github.com/google/uuid"
	"github.com/spf13/cobra"
	"github.com/sylabs/sif/v2/pkg/sif"
	"github.com/sylabs/sif/v2/pkg/siftool"
)

// cliInProcMu: commands run inside this process (a program that embeds pkg/siftool, one command
// tree per invocation) are run one at a time — the package keeps its flag values in package-level
// variables, which is fine for its documented use and not something the workers of this harness
// may share
var cliInProcMu sync.Mutex

// runSiftoolInProcess: the same command line through pkg/siftool's AddCommands on a fresh root
// command, as an embedding program does.
func runSiftoolInProcess(argv []string, so, se *bytes.Buffer) (err error) {
	cliInProcMu.Lock()
	defer cliInProcMu.Unlock()
	defer func() {
		if r := recover(); r != nil {
			err = fmt.Errorf("panic: %v", r)
			fmt.Fprintln(se, "panic:", r)
		}
	}()
	root := &cobra.Command{Use: "siftool", SilenceUsage: true}
	if aerr := siftool.AddCommands(root); aerr != nil {
		return aerr
	}
	root.SetArgs(argv)
	root.SetOut(so)
	root.SetErr(se)
	return root.Execute()
}

// CliOp is one siftool invocation.
type CliOp struct {
	InProc bool // run through pkg/siftool inside this process (an embedding program) instead of the built binary
	Cmd string // new add del setprim dump info header list
	Arg string // the <id> argument as typed
	// add
	Flags  map[string]string // flags given on the command line (absent = not given)
	Data   DataSpec
	NoObj  bool // the object file does not exist
	BadFlg bool // a flag value pflag itself refuses (not modelled: must fail and change nothing)
	Later  bool // run in a later wall-clock second than the image's last modification
}

var (
	siftoolOnce sync.Once
	siftoolBin  string
	siftoolErr  string
)

func buildSiftool() (string, string) {
	siftoolOnce.Do(func() {
		dir, err := os.MkdirTemp(scratchRoot, "siftool-bin") // inside the run's scratch: removed with it
		if err != nil {
			siftoolErr = err.Error()
			return
		}
		siftoolBin = filepath.Join(dir, "siftool")
		cmd := exec.Command("go", "build", "-o", siftoolBin, "./cmd/siftool")
		cmd.Dir = repoDir()
		cmd.Env = append(os.Environ(), "GOFLAGS=-mod=mod", "GOPROXY=off", "GOSUMDB=off", "GOTOOLCHAIN=local", "CGO_ENABLED=0")
		if out, err := cmd.CombinedOutput(); err != nil {
			siftoolErr = string(out) + err.Error()
		}
	})
	return siftoolBin, siftoolErr
}

func (c *CliOp) argv(img, obj string) []string {
	switch c.Cmd {
	case "new":
		return []string{"new", img}
	case "add":
		a := []string{"add"}
		keys := make([]string, 0, len(c.Flags))
		for k := range c.Flags {
			keys = append(keys, k)
		}
		sort.Strings(keys)
		for _, k := range keys {
			a = append(a, "--"+k+"="+c.Flags[k])
		}
		return append(a, img, obj)
	case "header", "list":
		return []string{c.Cmd, img}
	}
	return []string{c.Cmd, "--", c.Arg, img}
}

func (c *CliOp) short() string {
	if c.Cmd == "add" {
		var fs []string
		for k, v := range c.Flags {
			fs = append(fs, k+"="+v)
		}
		sort.Strings(fs)
		return fmt.Sprintf("siftool add %s <%s>", strings.Join(fs, " "), c.Data)
	}
	return "siftool " + c.Cmd + " " + c.Arg
}

func flagOr(m map[string]string, k, d string) string {
	if v, ok := m[k]; ok {
		return v
	}
	return d
}

func optField(m map[string]string, k string) string {
	if v, ok := m[k]; ok {
		return v
	}
	return "-"
}

// protocol line
func (c *CliOp) line(exists bool, now int64, rnd []byte) string {
	ex := 0
	if exists {
		ex = 1
	}
	switch c.Cmd {
	case "add":
		fn := "-"
		if v, ok := c.Flags["filename"]; ok {
			fn = "h:" + hex.EncodeToString([]byte(v))
		}
		data := c.Data.String()
		if c.NoObj {
			data = "none"
		}
		bf := ""
		if c.BadFlg {
			bf = " badflag=1"
		}
		return fmt.Sprintf("cli cmd=add exists=%d"+bf+" datatype=%s parttype=%s partfs=%s partarch=%s signhash=%s signentity=%s sbomformat=%s groupid=%s link=%s alignment=%s filename=%s data=%s now=%d",
			ex, flagOr(c.Flags, "datatype", "0"), flagOr(c.Flags, "parttype", "0"), flagOr(c.Flags, "partfs", "0"), flagOr(c.Flags, "partarch", "0"),
			flagOr(c.Flags, "signhash", "0"), hx([]byte(c.Flags["signentity"])), hx([]byte(c.Flags["sbomformat"])), flagOr(c.Flags, "groupid", "0"),
			optField(c.Flags, "link"), optField(c.Flags, "alignment"), fn, data, now)
	case "new":
		return fmt.Sprintf("cli cmd=new exists=%d now=%d rnd=%s", ex, now, hx(rnd))
	case "header", "list":
		return fmt.Sprintf("cli cmd=%s exists=%d", c.Cmd, ex)
	}
	return fmt.Sprintf("cli cmd=%s exists=%d arg=%s now=%d", c.Cmd, ex, hx([]byte(c.Arg)), now)
}

var kvLine = regexp.MustCompile(`^\s*([A-Za-z ]+):\s*(.*?)\s*$`)

func parseKVOut(out string) map[string]string {
	m := map[string]string{}
	for _, l := range strings.Split(out, "\n") {
		if mm := kvLine.FindStringSubmatch(l); mm != nil {
			m[mm[1]] = mm[2]
		}
	}
	return m
}

// exactReadable renders a size as siftool does, with exact integer rounding (half away from zero).
func exactReadable(size int64) string {
	if -1024 < size && size < 1024 {
		return fmt.Sprintf("%d B", size)
	}
	units := "KMGTPE"
	div, exp := int64(1024), 0
	for n := size / 1024; n <= -1024 || 1024 <= n; n /= 1024 {
		div *= 1024
		exp++
	}
	q, r := size/div, size%div
	if r < 0 {
		r = -r
	}
	if 2*r >= div {
		if size < 0 {
			q--
		} else {
			q++
		}
	}
	return fmt.Sprintf("%d %ciB", q, units[exp])
}

// truthOracle: header/list/info output against the library's accessors.
func truthOracle(c *CliOp, stdout string, f *sif.FileImage) string {
	switch c.Cmd {
	case "header":
		m := parseKVOut(stdout)
		want := map[string]string{
			"Version":            f.Version(),
			"Descriptors Free":   fmt.Sprint(f.DescriptorsFree()),
			"Descriptors Total":  fmt.Sprint(f.DescriptorsTotal()),
			"Descriptors Offset": fmt.Sprint(f.DescriptorsOffset()),
			"Descriptors Size":   exactReadable(f.DescriptorsSize()),
			"Data Offset":        fmt.Sprint(f.DataOffset()),
			"Data Size":          exactReadable(f.DataSize()),
		}
		if a := f.PrimaryArch(); a != "unknown" {
			want["Primary Architecture"] = a
		}
		if id := f.ID(); id != uuid.Nil.String() {
			want["ID"] = id
		}
		if t := f.CreatedAt(); !t.IsZero() {
			want["Created At"] = t.UTC().String()
		}
		if t := f.ModifiedAt(); !t.IsZero() {
			want["Modified At"] = t.UTC().String()
		}
		for k, v := range want {
			if m[k] != v {
				return fmt.Sprintf("header reports %s = %q, the file holds %q", k, m[k], v)
			}
		}
		for k := range m {
			if _, ok := want[k]; !ok && k != "Launch Script" {
				return fmt.Sprintf("header reports %s = %q, which the file does not have", k, m[k])
			}
		}
	case "list":
		var rows []string
		for _, l := range strings.Split(stdout, "\n") {
			if len(l) > 0 && l[0] >= '0' && l[0] <= '9' {
				rows = append(rows, l)
			}
		}
		var want []string
		f.WithDescriptors(func(d sif.Descriptor) bool {
			grp := "NONE"
			if g := d.GroupID(); g != 0 {
				grp = fmt.Sprint(g)
			}
			link := "NONE"
			if id, isG := d.LinkedID(); id != 0 {
				link = fmt.Sprint(id)
				if isG {
					link += " (G)"
				}
			}
			want = append(want, fmt.Sprintf("%d|%s|%s|%d-%d|%s", d.ID(), grp, link, d.Offset(), d.Offset()+d.Size(), d.DataType()))
			return false
		})
		if len(rows) != len(want) {
			return fmt.Sprintf("list shows %d objects, the file holds %d", len(rows), len(want))
		}
		for i, r := range rows {
			cols := strings.Split(r, "|")
			if len(cols) != 5 {
				return "list row has " + fmt.Sprint(len(cols)) + " columns: " + r
			}
			for j := range cols {
				cols[j] = strings.TrimSpace(cols[j])
			}
			typ := cols[4]
			if k := strings.Index(typ, " ("); k >= 0 {
				typ = typ[:k]
			}
			got := strings.Join([]string{cols[0], cols[1], cols[2], cols[3], typ}, "|")
			if got != want[i] {
				return fmt.Sprintf("list row %d is %q, the file holds %q", i, got, want[i])
			}
		}
	case "info":
		id, err := strconv.ParseUint(c.Arg, 10, 32)
		if err != nil {
			return ""
		}
		d, err := f.GetDescriptor(sif.WithID(uint32(id)))
		if err != nil {
			return ""
		}
		m := parseKVOut(stdout)
		grp := "NONE"
		if g := d.GroupID(); g != 0 {
			grp = fmt.Sprint(g)
		}
		link := "NONE"
		if l, isG := d.LinkedID(); l != 0 {
			link = fmt.Sprint(l)
			if isG {
				link += " (G)"
			}
		}
		want := map[string]string{"Data Type": d.DataType().String(), "ID": fmt.Sprint(d.ID()), "Group ID": grp, "Linked ID": link,
			"Offset": fmt.Sprint(d.Offset()), "Size": fmt.Sprint(d.Size())}
		if t := d.CreatedAt(); !t.IsZero() {
			want["Created At"] = t.UTC().String()
		}
		if t := d.ModifiedAt(); !t.IsZero() {
			want["Modified At"] = t.UTC().String()
		}
		if n := d.Name(); n != "" && !strings.ContainsAny(n, "\n:") {
			want["Name"] = strings.TrimSpace(n)
		}
		switch d.DataType() {
		case sif.DataPartition:
			if fs, pt, arch, err := d.PartitionMetadata(); err == nil {
				want["Filesystem Type"], want["Partition Type"], want["Architecture"] = fs.String(), pt.String(), arch
			}
		case sif.DataSignature:
			if ht, fp, err := d.SignatureMetadata(); err == nil {
				want["Hash Type"] = ht.String()
				if len(fp) > 0 {
					want["Entity"] = fmt.Sprintf("%X", fp)
				}
			}
		case sif.DataSBOM:
			if sf, err := d.SBOMMetadata(); err == nil {
				want["Format"] = sf.String()
			}
		case sif.DataOCIBlob, sif.DataOCIRootIndex:
			if h, err := d.OCIBlobDigest(); err == nil {
				want["Digest"] = h.String()
			}
		}
		for k, v := range want {
			if m[k] != v {
				return fmt.Sprintf("info reports %s = %q, the file holds %q", k, m[k], v)
			}
		}
	}
	return ""
}

// applyCli runs the binary and returns the observation lines.
func (e *Env) applyCli(op *Op) []string {
	bin, berr := buildSiftool()
	if berr != "" {
		return []string{"cli build-failed"}
	}
	c := op.Cli
	if e.path == "" {
		e.backend = "file"
		e.path = filepath.Join(e.dir, "cli.sif")
		_ = os.Remove(e.path) // a fresh history starts without an image file
	}
	e.Close()
	pre, preOK := []string(nil), false
	preBytes, _ := os.ReadFile(e.path)
	_, statErr := os.Stat(e.path)
	exists := statErr == nil
	if f, err := sif.LoadContainerFromPath(e.path, sif.OptLoadWithFlag(os.O_RDONLY)); err == nil {
		pre, preOK = viewLines("", f), true
		_ = f.UnloadContainer()
	}
	obj := filepath.Join(e.dir, "object.bin")
	_ = os.Remove(obj)
	if c.Cmd == "add" && !c.NoObj {
		_ = os.WriteFile(obj, c.Data.Bytes(), 0o644)
	}
	if c.Later && preOK {
		// timestamps have one-second resolution: let the clock pass the image's modification time
		// so that what this command stamps differs from what earlier commands stamped
		if f, err := sif.LoadContainerFromPath(e.path, sif.OptLoadWithFlag(os.O_RDONLY)); err == nil {
			mt := f.ModifiedAt().Unix()
			_ = f.UnloadContainer()
			for i := 0; i < 60 && time.Now().Unix() <= mt; i++ {
				time.Sleep(25 * time.Millisecond)
			}
		}
	}
	ctx, cancel := context.WithTimeout(context.Background(), 60*time.Second)
	defer cancel()
	var so, se bytes.Buffer
	var err error
	if c.InProc {
		err = runSiftoolInProcess(c.argv(e.path, obj), &so, &se)
	} else {
		cmd := exec.CommandContext(ctx, bin, c.argv(e.path, obj)...)
		cmd.Stdout, cmd.Stderr = &so, &se
		err = cmd.Run()
	}
	ok := err == nil
	// the handle later observations use: a fresh read-only load
	if f, lerr := sif.LoadContainerFromPath(e.path, sif.OptLoadWithFlag(os.O_RDONLY)); lerr == nil {
		e.f = f
	}
	op.CliExists = exists
	if ok && e.f != nil {
		op.Now = e.f.ModifiedAt().Unix()
		if c.Cmd == "new" {
			op.Now = e.f.CreatedAt().Unix()
			if u, err := uuid.Parse(e.f.ID()); err == nil {
				op.Rnd = u[:]
			}
		}
	}
	res := "cli err"
	if ok {
		res = "cli ok"
	}
	if c.Cmd == "setprim" && ok && preOK && e.f != nil && e.stats != nil {
		if strings.Join(viewLines("", e.f), "\n") != strings.Join(pre, "\n") {
			e.stats["cli:setprim-changed-the-image"]++
			if c.Later {
				e.stats["cli:setprim-changed-the-image-in-a-later-second"]++
			}
		}
	}
	if c.Cmd == "dump" {
		res += fmt.Sprintf(" dump=%d:%d", so.Len(), fnv64(so.Bytes()))
	}
	// implementation-only oracles
	viol := func(key, what string) {
		e.pending = append(e.pending, &Violation{Prop: "C15", Key: key, What: c.short() + ": " + what})
	}
	if !ok {
		if se.Len() == 0 {
			viol("C15:silent-failure", "exited non-zero without a message")
		}
		if preOK {
			if e.f == nil {
				viol("C15:failed-command-changed-file", "after the failing command the file no longer loads")
			} else if post := viewLines("", e.f); strings.Join(post, "\n") != strings.Join(pre, "\n") {
				viol("C15:failed-command-changed-file", fmt.Sprintf("a failing command changed the file: %q -> %q", firstDiffLine(strings.Join(pre, "\n"), strings.Join(post, "\n")), firstDiffLine(strings.Join(post, "\n"), strings.Join(pre, "\n"))))
			}
		} else if !exists {
			if _, err := os.Stat(e.path); err == nil && c.Cmd != "new" {
				viol("C15:failed-command-changed-file", "a failing command created the image file")
			}
		}
	} else if e.f != nil {
		if c.Cmd == "new" {
			// what the library's CreateContainerAtPath leaves at that path, whatever was there before:
			// an empty image and not a byte more
			if st, err := os.Stat(e.path); err == nil && st.Size() != e.f.DataOffset()+e.f.DataSize() {
				viol("C15:differs-from-library", fmt.Sprintf("new left a file of %d bytes, the image it created ends at %d (sif.CreateContainerAtPath leaves nothing behind it)", st.Size(), e.f.DataOffset()+e.f.DataSize()))
			}
		}
		switch c.Cmd {
		case "header", "list", "info":
			if c.Cmd == "info" && e.stats != nil {
				if id, err := strconv.ParseUint(c.Arg, 10, 32); err == nil {
					if d, err := e.f.GetDescriptor(sif.WithID(uint32(id))); err == nil && !d.ModifiedAt().Equal(d.CreatedAt()) {
						e.stats["cli:info-of-object-modified-after-creation"]++
					}
				}
			}
			if why := truthOracle(c, so.String(), e.f); why != "" {
				viol("C15:untrue-report", why)
			}
			fallthrough
		case "dump":
			if now, _ := os.ReadFile(e.path); !bytes.Equal(now, preBytes) {
				viol("C15:read-only-command-wrote", "a read-only command changed the file's bytes")
			}
			if c.Cmd == "dump" {
				if id, err := strconv.ParseUint(c.Arg, 10, 32); err == nil {
					if d, err := e.f.GetDescriptor(sif.WithID(uint32(id))); err == nil {
						if b, err := d.GetData(); err == nil && !bytes.Equal(b, so.Bytes()) {
							viol("C15:dump-differs", fmt.Sprintf("dump printed %d bytes, the object holds %d other bytes", so.Len(), len(b)))
						} else if err != nil {
							viol("C15:differs-from-library", fmt.Sprintf("dump exited 0 after printing %d bytes, reading the object through the library fails (%v)", so.Len(), err))
						}
					}
				}
			}
		}
	}
	if c.BadFlg && ok {
		viol("C15:bad-flag-accepted", "a flag value that cannot be parsed was accepted")
	}
	// the same arguments through the library, on a copy of the file as it was
	if (c.Cmd == "add" || c.Cmd == "del" || c.Cmd == "setprim") && preOK {
		now := op.Now
		if !ok {
			now = time.Now().Unix()
		}
		tok, tbytes := libTwin(preBytes, c, now)
		post, _ := os.ReadFile(e.path)
		switch {
		case tok && !ok:
			viol("C15:differs-from-library", "the command failed ("+strings.TrimSpace(se.String())+"), the library call with the same arguments succeeds")
		case !tok && ok:
			viol("C15:differs-from-library", "the command succeeded, the library call with the same arguments is refused (or the arguments are invalid)")
		case tok && ok && !bytes.Equal(tbytes, post):
			what := fmt.Sprintf("file is %d bytes, the library call with the same arguments leaves %d bytes", len(post), len(tbytes))
			if tf, err := sif.LoadContainer(sif.NewBuffer(tbytes)); err == nil && e.f != nil {
				a, b := strings.Join(viewLines("", e.f), "\n"), strings.Join(viewLines("", tf), "\n")
				if a != b {
					what = fmt.Sprintf("siftool left %q, the library call with the same arguments leaves %q", firstDiffLine(a, b), firstDiffLine(b, a))
				}
			}
			viol("C15:differs-from-library", what)
		}
	}
	return []string{res}
}

// ---- generator ----

func (g *Gen) cliAdd(in imgInfo) *CliOp {
	r := g.r
	c := &CliOp{Cmd: "add", Flags: map[string]string{}}
	dt := 1 + r.Intn(11)
	if r.Chance(1, 5) {
		dt = 4 // partitions are what setprim, the header architecture and info's metadata lines act on
	}
	switch {
	case r.Chance(1, 20):
		dt = pick(r, []int{0, 12, -1, 99})
		g.count("cli:add-bad-datatype")
	case r.Chance(1, 25):
		dt = 0
		// flag absent altogether
	}
	if dt != 0 || r.Chance(1, 2) {
		c.Flags["datatype"] = fmt.Sprint(dt)
	}
	set := func(k, v string) { c.Flags[k] = v }
	if dt == 4 || r.Chance(1, 12) {
		if !r.Chance(1, 10) {
			pt := pick(r, []int{1, 1, 1, 2, 3, 4})
			if pt == 2 && in.hasPrim && r.Chance(3, 4) {
				pt = 1
			}
			set("parttype", fmt.Sprint(pt))
		}
		if !r.Chance(1, 10) {
			set("partfs", fmt.Sprint(1+r.Intn(5)))
		}
		if !r.Chance(1, 10) {
			set("partarch", fmt.Sprint(pick(r, []int{1, 2, 3, 4, 5, 6, 7, 8, 9, 10, 11, 12, 12, 13, 0})))
		}
	}
	if dt == 5 || r.Chance(1, 12) {
		if !r.Chance(1, 10) {
			set("signhash", fmt.Sprint(pick(r, []int{1, 2, 3, 4, 5, 5, 0, 6})))
		}
		switch r.Intn(10) {
		case 0:
			set("signentity", "abc")
		case 1:
			set("signentity", "zz"+strings.Repeat("0", 38))
		case 2:
			set("signentity", strings.Repeat("ab", 19))
		case 3:
		default:
			h := hex.EncodeToString(r.Bytes(20))
			if r.Chance(1, 2) {
				h = strings.ToUpper(h)
			}
			set("signentity", h)
		}
	}
	if dt == 9 || r.Chance(1, 12) {
		switch r.Intn(8) {
		case 0:
			set("sbomformat", "nonsense")
		case 1:
		default:
			set("sbomformat", pick(r, []string{"cyclonedx-json", "cyclonedx-xml", "github", "github-json", "spdx-json", "spdx-rdf", "spdx-tag-value", "spdx-yaml", "syft-json"}))
		}
	}
	if r.Chance(1, 2) {
		set("groupid", fmt.Sprint(pick(r, []int{0, 1, 2, 3, 7, 268435455, 268435456})))
	}
	if r.Chance(1, 3) {
		set("link", fmt.Sprint(pick(r, []int{0, 1, 2, 5})))
	}
	if r.Chance(1, 2) {
		set("alignment", fmt.Sprint(pick(r, []int{0, 0, 1, 2, 512, 4096, 4097, -1, 65536})))
	}
	if r.Chance(1, 3) {
		n := pick(r, []string{"", "x", "recipe.def", "héllo wörld", strings.Repeat("n", 128), strings.Repeat("n", 129)})
		set("filename", n)
	}
	if r.Chance(1, 40) {
		k := pick(r, []string{"groupid", "link", "alignment", "parttype"})
		v := pick(r, []string{"x", "-1x", "4294967296000", ""})
		if k == "alignment" && v == "4294967296000" {
			v = "1e3" // fits an int: a valid (and enormous) alignment, not a parse error
		}
		set(k, v)
		c.BadFlg = true
		g.count("cli:add-unparsable-flag")
	}
	switch r.Intn(12) {
	case 0:
		c.Data = DataSpec{}
	case 1:
		c.Data = DataSpec{Gen: true, Len: pick(r, []int{4095, 4096, 4097, 65536}), Seed: r.U64()}
	case 2:
		if r.Chance(1, 4) {
			c.Data = DataSpec{Gen: true, Len: (1 << 20) + r.Intn(1<<21), Seed: r.U64()}
			g.count("cli:add-multi-megabyte")
		} else {
			c.Data = DataSpec{Lit: []byte{0, 255, 10, 13, 0, 27}}
		}
	case 3:
		c.NoObj = r.Chance(1, 3)
		c.Data = DataSpec{Lit: r.Bytes(3)}
	default:
		c.Data = DataSpec{Lit: r.Bytes(1 + r.Intn(300))}
	}
	g.count(fmt.Sprintf("cli:add-datatype-%d", dt))
	return c
}

func (g *Gen) cliArg(in imgInfo) string {
	r := g.r
	live := uint32(1)
	if len(in.ids) > 0 {
		live = pick(r, in.ids)
	}
	switch r.Intn(14) {
	case 0:
		g.count("cli:arg-nonnumeric")
		return pick(r, []string{"abc", "", "1x", "0x1", "+1", " 1", "1.0", "١"})
	case 1:
		g.count("cli:arg-negative")
		return pick(r, []string{"-1", "-0"})
	case 2:
		g.count("cli:arg-beyond-32-bits")
		return fmt.Sprint(uint64(1)<<32 + uint64(live))
	case 3:
		g.count("cli:arg-beyond-64-bits")
		return "18446744073709551617"
	case 4:
		return "0"
	case 5:
		g.count("cli:arg-absent-id")
		return fmt.Sprint(len(in.ids) + 1 + r.Intn(5))
	case 6:
		return fmt.Sprintf("%03d", live) // leading zeros are decimal digits too
	}
	return fmt.Sprint(live)
}

func (g *Gen) cliNext(in imgInfo) *CliOp {
	r := g.r
	if g.cliFocus != "" {
		// look at the object the previous command re-stamped
		a := g.cliFocus
		g.cliFocus = ""
		if r.Chance(2, 3) {
			g.count("cli:info-after-setprim")
			return &CliOp{Cmd: "info", Arg: a}
		}
	}
	switch r.Intn(20) {
	case 0, 1, 2, 3, 4, 5, 6:
		return g.cliAdd(in)
	case 7, 8, 9:
		g.count("cli:del")
		return &CliOp{Cmd: "del", Arg: g.cliArg(in)}
	case 10, 11:
		g.count("cli:setprim")
		a := g.cliArg(in)
		if len(in.parts) > 0 && r.Chance(2, 3) {
			a = fmt.Sprint(pick(r, in.parts))
		}
		if len(in.sysParts) > 0 && r.Chance(1, 2) {
			a = fmt.Sprint(pick(r, in.sysParts))
		}
		later := r.Chance(1, 2)
		if later {
			g.count("cli:setprim-in-a-later-second")
			g.cliFocus = a
			if len(in.parts) > 1 && r.Chance(1, 2) {
				g.cliFocus = fmt.Sprint(pick(r, in.parts)) // e.g. the partition it demotes
			}
		}
		return &CliOp{Cmd: "setprim", Arg: a, Later: later}
	case 12, 13, 14:
		g.count("cli:dump")
		return &CliOp{Cmd: "dump", Arg: g.cliArg(in)}
	case 15, 16:
		g.count("cli:info")
		return &CliOp{Cmd: "info", Arg: g.cliArg(in)}
	case 17:
		g.count("cli:header")
		return &CliOp{Cmd: "header"}
	case 18:
		g.count("cli:list")
		return &CliOp{Cmd: "list"}
	}
	if r.Chance(1, 6) {
		g.count("cli:new-over-existing")
		return &CliOp{Cmd: "new"}
	}
	return g.cliAdd(in)
}

// ---- the library twin: what the library does for the same arguments (independent translation,
// written from siftool's documented flag meanings) ----

var twinDataTypes = map[string]sif.DataType{"1": sif.DataDeffile, "2": sif.DataEnvVar, "3": sif.DataLabels, "4": sif.DataPartition,
	"5": sif.DataSignature, "6": sif.DataGenericJSON, "7": sif.DataGeneric, "8": sif.DataCryptoMessage, "9": sif.DataSBOM,
	"10": sif.DataOCIRootIndex, "11": sif.DataOCIBlob}

var twinSBOM = map[string]sif.SBOMFormat{"cyclonedx-json": sif.SBOMFormatCycloneDXJSON, "cyclonedx-xml": sif.SBOMFormatCycloneDXXML,
	"github": sif.SBOMFormatGitHubJSON, "github-json": sif.SBOMFormatGitHubJSON, "spdx-json": sif.SBOMFormatSPDXJSON, "spdx-rdf": sif.SBOMFormatSPDXRDF,
	"spdx-tag-value": sif.SBOMFormatSPDXTagValue, "spdx-yaml": sif.SBOMFormatSPDXYAML, "syft-json": sif.SBOMFormatSyftJSON}

// libTwin applies the command through the library to a copy of the pre-state; returns whether
// the library accepts it and the resulting bytes.
func libTwin(pre []byte, c *CliOp, now int64) (ok bool, out []byte) {
	buf := sif.NewBuffer(append([]byte(nil), pre...))
	f, err := sif.LoadContainer(buf)
	if err != nil {
		return false, pre
	}
	defer func() { out = append([]byte(nil), buf.Bytes()...) }()
	defer f.UnloadContainer()
	t := time.Unix(now, 0)
	// the commands take no time argument: the library call with the same arguments is the one with
	// its default time, which for a deterministic image is "unset" whatever the clock says (for
	// other images it is the clock, and the twin stamps the second the command stamped)
	det := f.ID() == uuid.Nil.String() && f.CreatedAt().Equal(time.Time{}) && f.ModifiedAt().Equal(time.Time{})
	delOpts, setOpts, addOpts := []sif.DeleteOpt{sif.OptDeleteWithTime(t)}, []sif.SetOpt{sif.OptSetWithTime(t)}, []sif.AddOpt{sif.OptAddWithTime(t)}
	if det {
		delOpts, setOpts, addOpts = nil, nil, nil
	}
	atoi := func(k string) (int64, bool) {
		v, ok := c.Flags[k]
		if !ok {
			return 0, true
		}
		n, err := strconv.ParseInt(v, 10, 64)
		return n, err == nil
	}
	switch c.Cmd {
	case "del", "setprim":
		id, err := strconv.ParseUint(c.Arg, 10, 32)
		if err != nil {
			return false, nil
		}
		if c.Cmd == "del" {
			return f.DeleteObject(uint32(id), delOpts...) == nil, nil
		}
		return f.SetPrimPart(uint32(id), setOpts...) == nil, nil
	case "add":
		if c.BadFlg || c.NoObj {
			return false, nil
		}
		dt, okdt := twinDataTypes[c.Flags["datatype"]]
		if !okdt {
			return false, nil
		}
		var opts []sif.DescriptorInputOpt
		g, _ := atoi("groupid")
		if g == 0 {
			opts = append(opts, sif.OptNoGroup())
		} else {
			opts = append(opts, sif.OptGroupID(uint32(g)))
		}
		if _, given := c.Flags["link"]; given {
			l, _ := atoi("link")
			opts = append(opts, sif.OptLinkedID(uint32(l)))
		}
		if _, given := c.Flags["alignment"]; given {
			a, _ := atoi("alignment")
			opts = append(opts, sif.OptObjectAlignment(int(a)))
		}
		if n, given := c.Flags["filename"]; given {
			opts = append(opts, sif.OptObjectName(n))
		}
		switch dt {
		case sif.DataPartition:
			pt, _ := atoi("parttype")
			fs, _ := atoi("partfs")
			pa, _ := atoi("partarch")
			if pt == 0 || fs == 0 || pa == 0 {
				return false, nil
			}
			arch := "unknown"
			if pa >= 1 && pa <= 12 {
				arch = archNames[pa-1]
			}
			opts = append(opts, sif.OptPartitionMetadata(sif.FSType(fs), sif.PartType(pt), arch))
		case sif.DataSignature:
			fp, err := hex.DecodeString(c.Flags["signentity"])
			h, _ := atoi("signhash")
			hashes := map[int64]crypto.Hash{1: crypto.SHA256, 2: crypto.SHA384, 3: crypto.SHA512, 4: crypto.BLAKE2s_256, 5: crypto.BLAKE2b_256}
			ht, okh := hashes[h]
			if err != nil || !okh || len(fp) != 20 {
				return false, nil
			}
			opts = append(opts, sif.OptSignatureMetadata(ht, fp))
		case sif.DataSBOM:
			sf, oks := twinSBOM[c.Flags["sbomformat"]]
			if !oks {
				return false, nil
			}
			opts = append(opts, sif.OptSBOMMetadata(sf))
		}
		di, err := sif.NewDescriptorInput(dt, bytes.NewReader(c.Data.Bytes()), opts...)
		if err != nil {
			return false, nil
		}
		return f.AddObject(di, addOpts...) == nil, nil
	}
	return false, nil
}
