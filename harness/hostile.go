package main

// C10: hostile or corrupt input.
//
// Parent: builds small valid images (generated and signed through the library, plus the shipped
// corpus), enumerates mutations (every single-bit flip of header + descriptor table, boundary
// values in every numeric field singly and in pairs, truncations, noise) and hands them to child
// processes.  Child (`-mode c10child`): for each job loads the mutated bytes and exercises every
// read-only facility and the siftool inspection commands, WITHOUT recovering panics; reports
// outcome, wall time and bytes allocated.  A child that dies (panic, fatal out-of-memory, kill on
// timeout) identifies the job it was running.  Every input the child survived is then also loaded
// in-process and compared with the Lean model's loader and view (correspondence).

import (
	"bufio"
	"bytes"
	"encoding/binary"
	"encoding/hex"
	"encoding/json"
	"fmt"
	"io"
	"math"
	"os"
	"os/exec"
	"path/filepath"
	"runtime"
	"sort"
	"strconv"
	"strings"
	"sync"
	"syscall"
	"time"

	"github.com/spf13/cobra"
	"github.com/sylabs/sif/v2/pkg/integrity"
	"github.com/sylabs/sif/v2/pkg/sif"
	"github.com/sylabs/sif/v2/pkg/siftool"
)

// ---- mutations ----

type setSpec struct {
	Off int
	B   []byte
}

type mutation struct {
	Base  int // index of the base image
	Kind  string
	Flip  int // bit index (flip)
	Sets  []setSpec
	Trunc int
	Desc  string
}

func (m mutation) spec() string {
	switch m.Kind {
	case "flip":
		return fmt.Sprintf("flip:%d", m.Flip)
	case "set":
		var ps []string
		for _, s := range m.Sets {
			ps = append(ps, fmt.Sprintf("%d:%s", s.Off, hex.EncodeToString(s.B)))
		}
		return "set:" + strings.Join(ps, ",")
	case "trunc":
		return fmt.Sprintf("trunc:%d", m.Trunc)
	}
	return "none"
}

func applySpec(base []byte, spec string) []byte {
	b := append([]byte(nil), base...)
	switch {
	case strings.HasPrefix(spec, "flip:"):
		n, _ := strconv.Atoi(spec[5:])
		if n/8 < len(b) {
			b[n/8] ^= 1 << (n % 8)
		}
	case strings.HasPrefix(spec, "set:"):
		for _, p := range strings.Split(spec[4:], ",") {
			kv := strings.SplitN(p, ":", 2)
			off, _ := strconv.Atoi(kv[0])
			v, _ := hex.DecodeString(kv[1])
			if off+len(v) <= len(b) {
				copy(b[off:], v)
			}
		}
	case strings.HasPrefix(spec, "trunc:"):
		n, _ := strconv.Atoi(spec[6:])
		if n < len(b) {
			b = b[:n]
		}
	}
	return b
}

type field struct {
	name string
	off  int
	w    int
}

var hdrFields = []field{{"CreatedAt", 64, 8}, {"ModifiedAt", 72, 8}, {"DescriptorsFree", 80, 8}, {"DescriptorsTotal", 88, 8},
	{"DescriptorsOffset", 96, 8}, {"DescriptorsSize", 104, 8}, {"DataOffset", 112, 8}, {"DataSize", 120, 8}}

var descFields = []field{{"DataType", 0, 4}, {"Used", 4, 1}, {"ID", 5, 4}, {"GroupID", 9, 4}, {"LinkedID", 13, 4}, {"Offset", 17, 8},
	{"Size", 25, 8}, {"SizeWithPadding", 33, 8}, {"CreatedAt", 41, 8}, {"ModifiedAt", 49, 8}, {"UID", 57, 8}, {"GID", 65, 8},
	{"Extra0", 201, 4}, {"Extra4", 205, 4}}

func gridValues(w int, flen int64) [][]byte {
	var vs []int64
	switch w {
	case 8:
		vs = []int64{0, 1, -1, math.MinInt64, math.MaxInt64, flen - 1, flen, flen + 1, 2 * flen, 1 << 19, 1 << 31, 1 << 32, 1 << 40, math.MinInt64 + 1, -flen}
	case 4:
		vs = []int64{0, 1, 0xffffffff, 0x80000000, 0x7fffffff, flen + 1, 0x4005, 0x4004, 0xf0000000, 0xf0000001}
	case 1:
		vs = []int64{0, 1, 2, 255}
	}
	var out [][]byte
	for _, v := range vs {
		b := make([]byte, 8)
		binary.LittleEndian.PutUint64(b, uint64(v))
		out = append(out, b[:w])
	}
	return out
}

// enumerate the mutations of one base image
func mutationsOf(bi int, base []byte, tier string, r *RNG) []mutation {
	var ms []mutation
	ms = append(ms, mutation{Base: bi, Kind: "none", Desc: "unmodified"})
	flen := int64(len(base))
	dtotal := int64(binary.LittleEndian.Uint64(base[88:]))
	doff := int(int64(binary.LittleEndian.Uint64(base[96:])))
	if dtotal < 0 || dtotal > 64 || doff < 128 || doff+int(dtotal)*585 > len(base) {
		dtotal = 0
	}
	// descriptors worth mutating: signature descriptors first (their link, type and metadata
	// steer the verifiers), then the other used ones, plus one free slot
	var slots, sigs, others []int
	free := -1
	for i := 0; i < int(dtotal); i++ {
		o := doff + i*585
		switch {
		case base[o+4] == 0:
			if free < 0 {
				free = i
			}
		case base[o] == 0x05 && base[o+1] == 0x40:
			sigs = append(sigs, i)
		default:
			others = append(others, i)
		}
	}
	maxSlots := 5
	if tier == "thorough" {
		maxSlots = 12
	}
	if len(sigs) > 2 && tier != "thorough" {
		sigs = sigs[:2]
	}
	slots = append(slots, sigs...)
	for _, i := range others {
		if len(slots) < maxSlots-1 {
			slots = append(slots, i)
		}
	}
	if free >= 0 {
		slots = append(slots, free)
	}
	if len(slots) > maxSlots {
		slots = slots[:maxSlots]
	}
	sort.Ints(slots)
	// every single-bit flip of the header and of those descriptors
	for bit := 0; bit < 128*8; bit++ {
		ms = append(ms, mutation{Base: bi, Kind: "flip", Flip: bit, Desc: fmt.Sprintf("bit %d of header byte %d", bit%8, bit/8)})
	}
	for _, s := range slots {
		lim := 585
		if tier != "thorough" {
			lim = 209 // fields + first bytes of extra; the rest of name/extra is sampled
		}
		for bit := 0; bit < lim*8; bit++ {
			o := doff + s*585
			ms = append(ms, mutation{Base: bi, Kind: "flip", Flip: o*8 + bit, Desc: fmt.Sprintf("bit %d of descriptor %d byte %d", bit%8, s, bit/8)})
		}
	}
	// boundary grid, singly
	for _, f := range hdrFields {
		for _, v := range gridValues(f.w, flen) {
			ms = append(ms, mutation{Base: bi, Kind: "set", Sets: []setSpec{{f.off, v}}, Desc: fmt.Sprintf("header %s = %d", f.name, int64(binary.LittleEndian.Uint64(append(append([]byte(nil), v...), make([]byte, 8)...))))})
		}
	}
	for _, s := range slots {
		for _, f := range descFields {
			for _, v := range gridValues(f.w, flen) {
				ms = append(ms, mutation{Base: bi, Kind: "set", Sets: []setSpec{{doff + s*585 + f.off, v}}, Desc: fmt.Sprintf("descriptor %d %s = %x", s, f.name, v)})
			}
		}
	}
	// pairs: every pair of header fields
	for i := 0; i < len(hdrFields); i++ {
		for j := i + 1; j < len(hdrFields); j++ {
			for _, v := range gridValues(8, flen) {
				for _, w := range gridValues(8, flen) {
					ms = append(ms, mutation{Base: bi, Kind: "set", Sets: []setSpec{{hdrFields[i].off, v}, {hdrFields[j].off, w}},
						Desc: fmt.Sprintf("header %s = %d, %s = %d", hdrFields[i].name, int64(binary.LittleEndian.Uint64(v)), hdrFields[j].name, int64(binary.LittleEndian.Uint64(w)))})
				}
			}
		}
	}
	// pairs inside a descriptor: the size/offset fields with each other and with used/type
	pairIdx := [][2]int{{5, 6}, {6, 7}, {5, 7}, {1, 5}, {1, 6}, {0, 6}, {0, 5}, {2, 3}, {3, 4}, {12, 6}}
	for _, s := range slots {
		for _, p := range pairIdx {
			fa, fb := descFields[p[0]], descFields[p[1]]
			for _, v := range gridValues(fa.w, flen) {
				for _, w := range gridValues(fb.w, flen) {
					ms = append(ms, mutation{Base: bi, Kind: "set", Sets: []setSpec{{doff + s*585 + fa.off, v}, {doff + s*585 + fb.off, w}},
						Desc: fmt.Sprintf("descriptor %d %s = %x, %s = %x", s, fa.name, v, fb.name, w)})
				}
			}
		}
	}
	// header count/size against a descriptor's size
	if len(slots) > 0 {
		s := slots[0]
		for _, hf := range []field{hdrFields[3], hdrFields[5]} {
			for _, v := range gridValues(8, flen) {
				for _, w := range gridValues(8, flen) {
					ms = append(ms, mutation{Base: bi, Kind: "set", Sets: []setSpec{{hf.off, v}, {doff + s*585 + 25, w}}, Desc: fmt.Sprintf("header %s = %x, descriptor %d Size = %x", hf.name, v, s, w)})
				}
			}
		}
	}
	// headers that are wrong but *internally consistent*: a descriptor count with the table size
	// (and the data offset, and the data size) that such a table would have — nothing in the
	// header contradicts anything else in it, only the file is far too short
	le := func(v int64) []byte {
		b := make([]byte, 8)
		binary.LittleEndian.PutUint64(b, uint64(v))
		return b
	}
	for _, n := range []int64{49, 1 << 10, 1 << 14, 1 << 17, 1 << 20, 1 << 24, 1 << 28, 1 << 31, 1 << 36, 1 << 44, (1 << 53) / 585} {
		tot, sz := le(n), le(n*585)
		ms = append(ms, mutation{Base: bi, Kind: "set", Sets: []setSpec{{88, tot}, {104, sz}}, Desc: fmt.Sprintf("header DescriptorsTotal = %d with DescriptorsSize = 585*that", n)})
		ms = append(ms, mutation{Base: bi, Kind: "set", Sets: []setSpec{{88, tot}, {104, sz}, {112, le(int64(doff) + n*585)}},
			Desc: fmt.Sprintf("header DescriptorsTotal = %d with consistent DescriptorsSize and DataOffset", n)})
		ms = append(ms, mutation{Base: bi, Kind: "set", Sets: []setSpec{{88, tot}, {80, tot}, {104, sz}, {112, le(int64(doff) + n*585)}, {120, le(0)}},
			Desc: fmt.Sprintf("header of an empty image with %d descriptors (free = total, consistent size and data offset)", n)})
	}
	// counts whose product with the descriptor size wraps around to a plausible table size:
	// T = S * 585^-1 (mod 2^64), for table sizes S that really are present in the file
	inv585 := uint64(1)
	for k := 0; k < 6; k++ { // Newton iteration for the inverse of 585 modulo 2^64
		inv585 *= 2 - 585*inv585
	}
	dsz := int64(binary.LittleEndian.Uint64(base[104:]))
	for _, sz := range []int64{dsz + 1, dsz + 2, dsz - 1, 585 + 1, flen - int64(doff), 2} {
		if sz <= 0 {
			continue
		}
		t := int64(uint64(sz) * inv585)
		if t <= 0 {
			continue
		}
		ms = append(ms, mutation{Base: bi, Kind: "set", Sets: []setSpec{{88, le(t)}, {104, le(sz)}},
			Desc: fmt.Sprintf("header DescriptorsSize = %d, DescriptorsTotal = %d (their product wraps to the size)", sz, t)})
	}
	// the whole image renumbered to the top of the ID range (what a signature covers is relative to
	// each group's lowest ID, so signatures stay valid): highest object ID = 0xFFFFFFFF, 0xFFFFFFFE
	{
		var maxID uint32
		var used []int
		for i := 0; i < int(dtotal); i++ {
			o := doff + i*585
			if base[o+4] != 0 {
				used = append(used, o)
				if id := binary.LittleEndian.Uint32(base[o+5:]); id > maxID {
					maxID = id
				}
			}
		}
		for _, top := range []uint32{0xFFFFFFFF, 0xFFFFFFFE, 0x80000000} {
			if maxID == 0 || maxID >= top {
				continue
			}
			k := top - maxID
			var sets []setSpec
			for _, o := range used {
				b := make([]byte, 4)
				binary.LittleEndian.PutUint32(b, binary.LittleEndian.Uint32(base[o+5:])+k)
				sets = append(sets, setSpec{o + 5, b})
			}
			ms = append(ms, mutation{Base: bi, Kind: "set", Sets: sets, Desc: fmt.Sprintf("every object ID moved up by %d (highest = %#x)", k, top)})
		}
		// … and only the signed (non-signature) objects moved, so that the highest ID a signature
		// covers is the top one while the signature objects keep their numbers
		var maxData uint32
		var data []int
		for _, o := range used {
			if !(base[o] == 0x05 && base[o+1] == 0x40) {
				data = append(data, o)
				if id := binary.LittleEndian.Uint32(base[o+5:]); id > maxData {
					maxData = id
				}
			}
		}
		for _, top := range []uint32{0xFFFFFFFF, 0xFFFFFFFE} {
			if maxData == 0 || maxData >= top {
				continue
			}
			k := top - maxData
			var sets []setSpec
			for _, o := range data {
				b := make([]byte, 4)
				binary.LittleEndian.PutUint32(b, binary.LittleEndian.Uint32(base[o+5:])+k)
				sets = append(sets, setSpec{o + 5, b})
			}
			ms = append(ms, mutation{Base: bi, Kind: "set", Sets: sets, Desc: fmt.Sprintf("every non-signature object ID moved up by %d (highest signed object = %#x)", k, top)})
		}
	}
	// … and descriptors likewise: a size with its padded size, at an offset inside the data section
	for _, s := range slots {
		o := doff + s*585
		off := int64(binary.LittleEndian.Uint64(base[o+17:]))
		for _, n := range []int64{1 << 16, 1 << 20, 1 << 26, 1 << 31, 1 << 40, math.MaxInt64 - off} {
			ms = append(ms, mutation{Base: bi, Kind: "set", Sets: []setSpec{{o + 25, le(n)}, {o + 33, le(n)}, {120, le(off + n - int64(binary.LittleEndian.Uint64(base[112:])))}},
				Desc: fmt.Sprintf("descriptor %d Size = SizeWithPadding = %d, header DataSize extended to cover it", s, n)})
		}
	}
	// truncations and noise
	for _, n := range []int{0, 1, 127, 128, 129, doff, doff + 1, doff + 584, doff + 585, doff + 586, len(base) - 1, len(base) / 2} {
		if n >= 0 && n < len(base) {
			ms = append(ms, mutation{Base: bi, Kind: "trunc", Trunc: n, Desc: fmt.Sprintf("truncated to %d bytes", n)})
		}
	}
	nNoise := 60
	if tier == "thorough" {
		nNoise = 600
	}
	for k := 0; k < nNoise; k++ {
		var sets []setSpec
		for c := 0; c < 1+r.Intn(4); c++ {
			region := 128
			off := r.Intn(region)
			if dtotal > 0 && r.Chance(2, 3) {
				off = doff + r.Intn(int(dtotal)*585)
			} else if r.Chance(1, 4) {
				off = r.Intn(len(base))
			}
			sets = append(sets, setSpec{off, r.Bytes(1 + r.Intn(8))})
		}
		ms = append(ms, mutation{Base: bi, Kind: "set", Sets: sets, Desc: "random bytes"})
	}
	return ms
}

// ---- the battery (child) ----

type jobResult struct {
	Idx       int    `json:"i"`
	Load      string `json:"load"`
	LoadAlloc uint64 `json:"la"`
	DataAlloc uint64 `json:"da"` // largest allocation of a single GetData
	Alloc     uint64 `json:"a"`
	Ms        int64  `json:"ms"`
	Len       int    `json:"n"`
	Objs      int    `json:"objs"`
}

func totalAlloc() uint64 {
	var m runtime.MemStats
	runtime.ReadMemStats(&m)
	return m.TotalAlloc
}

func runSiftool(args ...string) {
	root := &cobra.Command{Use: "siftool", SilenceUsage: true, SilenceErrors: true}
	_ = siftool.AddCommands(root)
	root.SetOut(io.Discard)
	root.SetErr(io.Discard)
	root.SetArgs(args)
	_ = root.Execute()
}

// battery exercises every read-only facility on the input; it must return, never panic.
func battery(img []byte, tmp string, res *jobResult) {
	a0 := totalAlloc()
	f, err := sif.LoadContainer(sif.NewBuffer(img), sif.OptLoadWithFlag(os.O_RDONLY))
	res.LoadAlloc = totalAlloc() - a0
	res.Load = errClass(err)
	if err == nil {
		_ = f.LaunchScript()
		_ = f.Version()
		_ = f.PrimaryArch()
		_ = f.ID()
		_, _, _ = f.CreatedAt(), f.ModifiedAt(), f.DescriptorsFree()
		_, _, _, _, _ = f.DescriptorsTotal(), f.DescriptorsOffset(), f.DescriptorsSize(), f.DataOffset(), f.DataSize()
		_, _ = io.Copy(io.Discard, f.GetHeaderIntegrityReader())
		ds, _ := f.GetDescriptors()
		res.Objs = len(ds)
		f.WithDescriptors(func(d sif.Descriptor) bool {
			_, _, _, _ = d.DataType(), d.ID(), d.GroupID(), d.Name()
			_, _ = d.LinkedID()
			_, _, _, _ = d.Offset(), d.Size(), d.CreatedAt(), d.ModifiedAt()
			_, _, _, _ = d.PartitionMetadata()
			_, _, _ = d.SignatureMetadata()
			_, _, _ = d.CryptoMessageMetadata()
			_, _ = d.SBOMMetadata()
			_, _ = d.OCIBlobDigest()
			var rc rawCapture
			_ = d.GetMetadata(&rc)
			b0 := totalAlloc()
			_, _ = d.GetData()
			if x := totalAlloc() - b0; x > res.DataAlloc {
				res.DataAlloc = x
			}
			_, _ = io.Copy(io.Discard, d.GetReader())
			_, _ = io.Copy(io.Discard, d.GetIntegrityReader())
			return false
		})
		for _, sel := range []sif.DescriptorSelectorFunc{sif.WithDataType(sif.DataSignature), sif.WithID(1), sif.WithGroupID(1), sif.WithNoGroup(),
			sif.WithLinkedID(1), sif.WithLinkedGroupID(1), sif.WithPartitionType(sif.PartPrimSys)} {
			_, _ = f.GetDescriptors(sel)
			_, _ = f.GetDescriptor(sel)
		}
		// signer listing and verification, every flavour
		u := getUniverse()
		both := func(more ...integrity.VerifierOpt) []integrity.VerifierOpt {
			return append([]integrity.VerifierOpt{integrity.OptVerifyWithKeyRing(u.keyring()), integrity.OptVerifyWithVerifier(u.allVerifiers()...)}, more...)
		}
		for _, opts := range [][]integrity.VerifierOpt{
			{integrity.OptVerifyWithKeyRing(u.keyring())},
			{integrity.OptVerifyWithVerifier(u.allVerifiers()...)},
			both(),
			both(integrity.OptVerifyLegacy()),
			both(integrity.OptVerifyLegacyAll()),
			both(integrity.OptVerifyGroup(1)),
			both(integrity.OptVerifyObject(1)),
			both(integrity.OptVerifyLegacy(), integrity.OptVerifyGroup(1)),
			both(integrity.OptVerifyLegacy(), integrity.OptVerifyObject(1)),
			{},
		} {
			opts = append(opts, integrity.OptVerifyCallback(func(integrity.VerifyResult) bool { return false }))
			if v, err := integrity.NewVerifier(f, opts...); err == nil {
				_, _ = v.AnySignedBy()
				_, _ = v.AllSignedBy()
				_ = v.Verify()
			}
		}
		_ = f.UnloadContainer()
	}
	// the siftool inspection commands on the same bytes
	p := filepath.Join(tmp, "in.sif")
	if os.WriteFile(p, img, 0o644) == nil {
		runSiftool("header", p)
		runSiftool("list", p)
		for id := 1; id <= 3; id++ {
			runSiftool("info", strconv.Itoa(id), p)
			runSiftool("dump", strconv.Itoa(id), p)
		}
	}
	res.Alloc = totalAlloc() - a0
}

func c10child() {
	// address-space cap: a runaway allocation dies instead of taking the machine down
	lim := uint64(6 << 30)
	_ = syscall.Setrlimit(syscall.RLIMIT_AS, &syscall.Rlimit{Cur: lim, Max: lim})
	getUniverse()
	// scratch space inside the parent's scratch directory, so that a child that dies leaves nothing behind
	tmp, _ := os.MkdirTemp(os.Getenv("C10_TMP"), "c10child")
	defer os.RemoveAll(tmp)
	bases := map[string][]byte{}
	in := bufio.NewScanner(os.Stdin)
	in.Buffer(make([]byte, 1<<20), 1<<24)
	out := bufio.NewWriter(os.Stdout)
	for in.Scan() {
		parts := strings.SplitN(in.Text(), " ", 3)
		if len(parts) != 3 {
			continue
		}
		idx, _ := strconv.Atoi(parts[0])
		base, ok := bases[parts[1]]
		if !ok {
			base, _ = os.ReadFile(parts[1])
			bases[parts[1]] = base
		}
		img := applySpec(base, parts[2])
		fmt.Fprintf(out, "start %d\n", idx)
		out.Flush()
		res := jobResult{Idx: idx, Len: len(img)}
		t0 := time.Now()
		battery(img, tmp, &res)
		res.Ms = time.Since(t0).Milliseconds()
		b, _ := json.Marshal(res)
		fmt.Fprintf(out, "done %s\n", b)
		out.Flush()
	}
}

// ---- parent ----

type hostileFinding struct {
	m    mutation
	key  string
	what string
}

func allocBound(n int) (load, data, total uint64) {
	return uint64(4*n + 64<<10), uint64(4*n + 64<<10), uint64(96*n + 24<<20)
}

// runShard feeds jobs[lo:hi] to child processes, restarting after a death.
func runShard(self, scratchDir string, basePaths []string, jobs []mutation, idxs []int, results []*jobResult, deaths *[]hostileFinding, mu *sync.Mutex) {
	pos := 0
	for pos < len(idxs) {
		cmd := exec.Command(self, "-mode", "c10child", "-prop", "C10")
		cmd.Env = append(os.Environ(), "GOMEMLIMIT=3GiB", "C10_TMP="+scratchDir)
		stdin, _ := cmd.StdinPipe()
		stdout, _ := cmd.StdoutPipe()
		var stderr bytes.Buffer
		cmd.Stderr = &stderr
		if err := cmd.Start(); err != nil {
			return
		}
		go func(from int) {
			w := bufio.NewWriter(stdin)
			for _, i := range idxs[from:] {
				fmt.Fprintf(w, "%d %s %s\n", i, basePaths[jobs[i].Base], jobs[i].spec())
			}
			w.Flush()
			stdin.Close()
		}(pos)
		cur := -1
		lines := make(chan string, 64)
		go func() {
			sc := bufio.NewScanner(stdout)
			sc.Buffer(make([]byte, 1<<20), 1<<24)
			for sc.Scan() {
				lines <- sc.Text()
			}
			close(lines)
		}()
		hung := false
	loop:
		for {
			select {
			case l, ok := <-lines:
				if !ok {
					break loop
				}
				if strings.HasPrefix(l, "start ") {
					cur, _ = strconv.Atoi(l[6:])
				} else if strings.HasPrefix(l, "done ") {
					var r jobResult
					if json.Unmarshal([]byte(l[5:]), &r) == nil {
						results[r.Idx] = &r
						cur = -1
						pos++
					}
				}
			case <-time.After(20 * time.Second):
				hung = true
				_ = cmd.Process.Kill()
				break loop
			}
		}
		_ = cmd.Wait()
		if pos >= len(idxs) {
			return
		}
		// the child died while running job idxs[pos]
		bad := idxs[pos]
		if cur >= 0 {
			bad = cur
		}
		what := "the process died: " + lastLines(stderr.String(), 12)
		key := "C10:crash"
		if hung {
			what, key = "no result within 20 s (killed)", "C10:hang"
		}
		if os.Getenv("C10_DEBUG") != "" {
			fmt.Fprintf(os.Stderr, "death: job %d (%s) %s %s\n", bad, jobs[bad].Desc, key, what)
		}
		mu.Lock()
		*deaths = append(*deaths, hostileFinding{m: jobs[bad], key: key, what: what})
		mu.Unlock()
		pos++
	}
}

func lastLines(s string, n int) string {
	ls := strings.Split(strings.TrimSpace(s), "\n")
	// the panic message is at the top of the goroutine dump
	for i, l := range ls {
		if strings.HasPrefix(l, "panic:") || strings.HasPrefix(l, "fatal error:") || strings.Contains(l, "out of memory") {
			end := i + n
			if end > len(ls) {
				end = len(ls)
			}
			return strings.Join(ls[i:end], " | ")
		}
	}
	if len(ls) > n {
		ls = ls[:n]
	}
	return strings.Join(ls, " | ")
}

// generated, signed base images
func hostileBases(scratch string, seed uint64, tier string) (paths []string, names []string) {
	n := 3
	if tier == "thorough" {
		n = 10
	}
	for k := 0; k < n; k++ {
		g := &Gen{r: NewRNG(seed*977 + uint64(k)), stats: map[string]int{}}
		dir := filepath.Join(scratch, fmt.Sprintf("base%d", k))
		_ = os.MkdirAll(dir, 0o755)
		create, _ := g.baseImage(2, 2)
		e := &Env{dir: dir}
		e.applyCore(create)
		if e.f == nil {
			continue
		}
		s := g.signKeys()
		s.T = TOpt{Kind: "det"}
		e.applyCore(&Op{Kind: "sign", S: s})
		if k%2 == 1 {
			s2 := g.signKeys()
			s2.T = TOpt{Kind: "det"}
			e.applyCore(&Op{Kind: "sign", S: s2})
		}
		b := e.storeBytes()
		e.Close()
		p := filepath.Join(scratch, fmt.Sprintf("gen%d.sif", k))
		if os.WriteFile(p, b, 0o644) == nil {
			paths = append(paths, p)
			names = append(names, fmt.Sprintf("generated-signed-%d(%dB)", k, len(b)))
		}
	}
	corpus := []string{"one-group-signed-pgp.sif", "one-group-signed-dsse.sif", "one-group-signed-legacy.sif", "empty.sif", "one-object-oci-blob.sif"}
	if tier == "thorough" {
		ents, _ := os.ReadDir(filepath.Join(repoDir(), "test", "images"))
		corpus = nil
		for _, en := range ents {
			if strings.HasSuffix(en.Name(), ".sif") {
				corpus = append(corpus, en.Name())
			}
		}
	}
	for _, c := range corpus {
		p := filepath.Join(repoDir(), "test", "images", c)
		if st, err := os.Stat(p); err == nil && st.Size() < 64<<10 {
			paths = append(paths, p)
			names = append(names, "shipped:"+c)
		}
	}
	return
}

func repoDir() string { return envOr("REPO", "/repo") }

func decideHostile(prop, tier string, seed uint64, scratch, replays string) *Output {
	t0 := time.Now()
	// the children verify with this process's keys: the generated and crafted images are signed by them
	up := filepath.Join(scratch, "universe.json")
	if err := getUniverse().save(up); err == nil {
		os.Setenv("VERIF_UNIVERSE", up)
	}
	self, _ := os.Executable()
	basePaths, baseNames := hostileBases(scratch, seed, tier)
	cp, cn := craftedSignatureImages(scratch, seed, tier)
	basePaths, baseNames = append(basePaths, cp...), append(baseNames, cn...)
	r := NewRNG(seed)
	var jobs []mutation
	dist := map[string]int{}
	var baseBytes [][]byte
	for bi, p := range basePaths {
		b, _ := os.ReadFile(p)
		baseBytes = append(baseBytes, b)
		ms := mutationsOf(bi, b, tier, r)
		if strings.HasPrefix(baseNames[bi], "crafted:") {
			// validly signed, unusual metadata: the image itself is the hostile input
			ms = ms[:1]
		}
		if strings.HasPrefix(baseNames[bi], "shipped:") && tier != "thorough" {
			// the corpus images have 48 slots: bit flips of the header and first descriptors, singles, a pair sample
			var keep []mutation
			for _, m := range ms {
				if m.Kind != "set" || len(m.Sets) == 1 || r.Chance(1, 6) {
					keep = append(keep, m)
				}
			}
			ms = keep
		}
		jobs = append(jobs, ms...)
	}
	if v := envInt("VERIF_CASES", 0); v > 0 && v < len(jobs) {
		// keep a deterministic subsample
		step := len(jobs) / v
		var keep []mutation
		for i := 0; i < len(jobs); i += step {
			keep = append(keep, jobs[i])
		}
		jobs = keep
	}
	for _, m := range jobs {
		k := m.Kind
		if k == "set" {
			k = fmt.Sprintf("set-%d-fields", len(m.Sets))
			if m.Desc == "random bytes" {
				k = "noise"
			}
		}
		if strings.HasPrefix(baseNames[m.Base], "crafted:") {
			k = "validly-signed-crafted-metadata"
		}
		dist["mutation:"+k]++
	}
	results := make([]*jobResult, len(jobs))
	var deaths []hostileFinding
	var mu sync.Mutex
	workers := envInt("VERIF_WORKERS", 16)
	var wg sync.WaitGroup
	for w := 0; w < workers; w++ {
		var idxs []int
		for i := w; i < len(jobs); i += workers {
			idxs = append(idxs, i)
		}
		wg.Add(1)
		go func(idxs []int) {
			defer wg.Done()
			runShard(self, scratch, basePaths, jobs, idxs, results, &deaths, &mu)
		}(idxs)
	}
	wg.Wait()
	findings := deaths
	if os.Getenv("C10_DEBUG") != "" {
		for i, m := range jobs {
			if strings.Contains(m.Desc, "non-signature") {
				fmt.Fprintf(os.Stderr, "job %d base %s %s: result %+v\n", i, baseNames[m.Base], m.Desc, results[i])
			}
		}
	}
	var maxMs int64
	var maxRatio float64
	for i, res := range results {
		if res == nil {
			continue
		}
		dist["load:"+res.Load]++
		if res.Ms > maxMs {
			maxMs = res.Ms
		}
		if res.Len > 0 {
			if q := float64(res.LoadAlloc) / float64(res.Len+1); q > maxRatio {
				maxRatio = q
			}
		}
		lb, db, tb := allocBound(res.Len)
		switch {
		case res.LoadAlloc > lb:
			findings = append(findings, hostileFinding{jobs[i], "C10:load-allocation", fmt.Sprintf("LoadContainer allocated %d bytes for a %d-byte input (bound 4n+64KiB = %d)", res.LoadAlloc, res.Len, lb)})
		case res.DataAlloc > db:
			findings = append(findings, hostileFinding{jobs[i], "C10:getdata-allocation", fmt.Sprintf("one GetData allocated %d bytes on a %d-byte input (bound %d)", res.DataAlloc, res.Len, db)})
		case res.Alloc > tb:
			findings = append(findings, hostileFinding{jobs[i], "C10:total-allocation", fmt.Sprintf("the read-only battery allocated %d bytes on a %d-byte input (bound 96n+24MiB = %d)", res.Alloc, res.Len, tb)})
		case res.Ms > 5000:
			findings = append(findings, hostileFinding{jobs[i], "C10:slow", fmt.Sprintf("the read-only battery took %d ms on a %d-byte input", res.Ms, res.Len)})
		}
	}
	dist["max-battery-ms"] = int(maxMs)
	dist["max-load-alloc-per-input-byte-x100"] = int(maxRatio * 100)
	o := &Output{Property: prop, Tier: tier, Seed: seed, Campaign: "hostile inputs in memory-limited child processes: " + campaignBases(baseNames),
		Evaluations: len(jobs), Distinct: len(jobs), Traces: 0,
		Rule:    "every enumerated mutation is a distinct input (single-bit flips of header+descriptors, boundary grid singly and in pairs, truncations, noise); each runs LoadContainer and, when it loads, every read-only API, signer listing, six verification flavours and siftool header/list/info/dump",
		Samples: []string{}, Distribution: dist}
	for i := 0; i < len(jobs) && len(o.Samples) < 4; i += len(jobs)/4 + 1 {
		o.Samples = append(o.Samples, baseNames[jobs[i].Base]+": "+jobs[i].Desc)
	}
	// correspondence: the model's loader and view on the inputs the children survived
	corrN := 400
	if tier == "thorough" {
		corrN = 6000
	}
	breaks, traces, lines := hostileCorrespondence(scratch, jobs, results, baseBytes, corrN, r, dist)
	o.Traces, o.LinesCmp = traces, lines
	known := loadKnown()
	seenKnown := map[string]bool{}
	seenKey := map[string]bool{}
	sort.SliceStable(findings, func(a, b int) bool { return findings[a].key < findings[b].key })
	for _, f := range findings {
		if _, ok := known[f.key]; ok {
			if !seenKnown[f.key] {
				seenKnown[f.key] = true
				o.Known = append(o.Known, f.key)
				o.Messages = append(o.Messages, fmt.Sprintf("KNOWN-FINDING: property=%s %s (%s)", prop, f.key, known[f.key]))
			}
			continue
		}
		if seenKey[f.key] {
			continue
		}
		seenKey[f.key] = true
		img := applySpec(baseBytes[f.m.Base], f.m.spec())
		ip := filepath.Join(replays, fmt.Sprintf("%s-input-%s-%d.sif", prop, strings.ReplaceAll(f.key, ":", "_"), seed))
		_ = os.MkdirAll(replays, 0o755)
		_ = os.WriteFile(ip, img, 0o644)
		rf := &ReplayFile{Property: prop, Kind: "oracle", Key: f.key, What: fmt.Sprintf("%s: %s; base %s, mutation %s (%s); input written to %s", f.key, f.what, baseNames[f.m.Base], f.m.spec(), f.m.Desc, ip), Seed: seed, Found: true}
		p := writeReplay(replays, rf, "oracle")
		o.Violations++
		o.Messages = append(o.Messages, fmt.Sprintf("VIOLATION property=%s replay=%s", prop, p))
	}
	if len(breaks) > 0 && o.Violations == 0 {
		b := breaks[0]
		rf := &ReplayFile{Property: prop, Kind: "correspondence", Key: prop + ":correspondence", What: b, Broken: "corr.C10.loader (LoadContainer accept/reject and the view of every accepted hostile input = model); C10_load_bounded, C10_loaded_safe rest on this model", Seed: seed}
		p := writeReplay(replays, rf, "corr")
		o.Violations++
		o.Messages = append(o.Messages, fmt.Sprintf("VIOLATION property=%s replay=%s no-failing-input-found", prop, p))
	}
	o.WallS = time.Since(t0).Seconds()
	return o
}

// hostileCorrespondence: the survived inputs, loaded in-process and by the Lean driver.
func hostileCorrespondence(scratch string, jobs []mutation, results []*jobResult, baseBytes [][]byte, n int, r *RNG, dist map[string]int) (breaks []string, traces, lines int) {
	var idxs []int
	for i, res := range results {
		if res != nil {
			idxs = append(idxs, i)
		}
	}
	// prefer the accepted ones (their view is compared too), keep a share of rejected ones
	var pick []int
	for _, i := range idxs {
		if results[i].Load == "ok" {
			pick = append(pick, i)
		}
	}
	for i := len(pick) - 1; i > 0; i-- {
		j := r.Intn(i + 1)
		pick[i], pick[j] = pick[j], pick[i]
	}
	if len(pick) > n*3/4 {
		pick = pick[:n*3/4]
	}
	var rej []int
	for _, i := range idxs {
		if results[i].Load != "ok" {
			rej = append(rej, i)
		}
	}
	for i := len(rej) - 1; i > 0; i-- {
		j := r.Intn(i + 1)
		rej[i], rej[j] = rej[j], rej[i]
	}
	if len(rej) > n/4 {
		rej = rej[:n/4]
	}
	pick = append(pick, rej...)
	dir := filepath.Join(scratch, "corr")
	_ = os.MkdirAll(dir, 0o755)
	var mu sync.Mutex
	chunk := 40
	var chunks [][]int
	for i := 0; i < len(pick); i += chunk {
		e := i + chunk
		if e > len(pick) {
			e = len(pick)
		}
		chunks = append(chunks, pick[i:e])
	}
	parallel(len(chunks), envInt("VERIF_WORKERS", 16), func(ci int) {
		cdir := filepath.Join(dir, fmt.Sprintf("k%d", ci))
		_ = os.MkdirAll(cdir, 0o755)
		defer os.RemoveAll(cdir)
		e := &Env{dir: cdir}
		defer e.Close()
		c := &Case{}
		var ops []*Op
		for k, ji := range chunks[ci] {
			p := filepath.Join(cdir, fmt.Sprintf("h%d.sif", k))
			_ = os.WriteFile(p, applySpec(baseBytes[jobs[ji].Base], jobs[ji].spec()), 0o644)
			ops = append(ops, &Op{Kind: "load", Backend: "buf", Path: p}, &Op{Kind: "obs"})
		}
		n := 0
		opJob := map[int]int{}
		for i, op := range ops {
			if op.Kind == "obs" && e.f == nil {
				continue // refused by the loader: nothing to view
			}
			obs := e.applyCore(op)
			c.Ops = append(c.Ops, op)
			c.record(n, op, obs)
			opJob[n] = i / 2
			n++
		}
		model, err := runDriver(c.Proto)
		mu.Lock()
		defer mu.Unlock()
		traces += len(chunks[ci])
		lines += len(c.Impl)
		if err != nil {
			breaks = append(breaks, "driver: "+err.Error())
			return
		}
		if m := compare(c, model); m != nil {
			ji := -1
			if k, ok := opJob[m.Op]; ok && k < len(chunks[ci]) {
				ji = chunks[ci][k]
			}
			d := ""
			if ji >= 0 {
				d = jobs[ji].spec() + " (" + jobs[ji].Desc + ")"
			}
			breaks = append(breaks, fmt.Sprintf("hostile input %s: implementation %q, model %q", d, m.Impl, m.Model))
		}
	})
	dist["correspondence:inputs"] = traces
	return
}

// campaignBases names the base images; the crafted ones are counted, not listed.
func campaignBases(names []string) string {
	var plain []string
	crafted := 0
	for _, n := range names {
		if strings.HasPrefix(n, "crafted:") {
			crafted++
		} else {
			plain = append(plain, n)
		}
	}
	return fmt.Sprintf("%s, and %d images whose signature by a trusted key covers crafted metadata (members deleted / retyped / duplicated)", strings.Join(plain, ", "), crafted)
}
