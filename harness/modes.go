package main

// Campaign modes other than the operation-history one.

import (
	"fmt"
	"sort"
)

func runMode(mode, prop, tier string, seed uint64, scratch, replays string) *Output {
	switch mode {
	case "one":
		spec := propSpecs[prop]
		c, vs, _ := runHistory(scratch, seed, spec, "")
		for _, v := range vs {
			println("runHistory:", v.Key, v.What, v.Op, c.Ops[v.Op].Short())
		}
		for _, v := range oraclesOn(scratch, c.Ops, spec, prop) {
			println("oraclesOn:", v.Key, v.What, v.Op)
		}
		return &Output{Property: prop}
	case "integ":
		return decideInteg(prop, tier, seed, scratch, replays)
	case "hostile":
		return decideHostile(prop, tier, seed, scratch, replays)
	case "c10child":
		c10child()
		exit(0)
	}
	return &Output{Property: prop, Tier: tier, Seed: seed, Violations: 1, Messages: []string{"unknown mode " + mode}}
}

// decideInteg turns an integrity campaign's result into a verdict.
func decideInteg(prop, tier string, seed uint64, scratch, replays string) *Output {
	res := integCampaign(prop, tier, seed, scratch)
	o := &Output{Property: prop, Tier: tier, Seed: seed, Campaign: "signed-image scenarios: " + integCorr[prop],
		Evaluations: res.OpsRun, Distinct: res.Distinct, Traces: res.Cases, LinesCmp: res.Lines,
		Rule:         "scenarios drawn from the property's generator (base image x signing configuration x edit/tamper/trust variant), every random choice from the per-case SplitMix64 sub-seed; distinct = distinct protocol text; every scenario signs with real keys and verifies, so all are non-trivial",
		Samples:      res.Samples, Distribution: res.Stats, WallS: res.WallS}
	if len(o.Samples) == 0 {
		o.Samples = []string{"(none)"}
	}
	known := loadKnown()
	seenKnown, seenKey := map[string]bool{}, map[string]bool{}
	if res.DriverErr != "" {
		rf := &ReplayFile{Property: prop, Kind: "correspondence", Key: prop + ":driver-error", What: res.DriverErr, Broken: integCorr[prop], Seed: seed}
		p := writeReplay(replays, rf, "driver")
		o.Violations++
		o.Messages = append(o.Messages, fmt.Sprintf("VIOLATION property=%s replay=%s no-failing-input-found", prop, p))
		return o
	}
	sort.Slice(res.Findings, func(a, b int) bool { return len(res.Findings[a].Ops) < len(res.Findings[b].Ops) })
	for _, f := range res.Findings {
		if f.Known {
			if !seenKnown[f.V.Key] {
				seenKnown[f.V.Key] = true
				o.Known = append(o.Known, f.V.Key)
				o.Messages = append(o.Messages, fmt.Sprintf("KNOWN-FINDING: property=%s %s (%s)", prop, f.V.Key, known[f.V.Key]))
			}
			continue
		}
		if seenKey[f.V.Key] {
			continue
		}
		seenKey[f.V.Key] = true
		c, _, _ := runInteg(prop, scratch, f.Seed)
		rf := &ReplayFile{Property: prop, Kind: "oracle", Key: f.V.Key, What: f.V.What, Seed: f.Seed, Ops: c.Ops, Proto: c.Proto, Impl: c.Impl, Found: true}
		p := writeReplay(replays, rf, "oracle")
		o.Violations++
		o.Messages = append(o.Messages, fmt.Sprintf("VIOLATION property=%s replay=%s", prop, p))
	}
	if len(res.Breaks) > 0 && o.Violations == 0 {
		b := res.Breaks[0]
		c, _, _ := runInteg(prop, scratch, b.Seed)
		model, _ := runDriver(c.Proto)
		what := fmt.Sprintf("implementation and model disagree (%d scenarios); first: kind=%s fields=%v impl=%q model=%q", len(res.Breaks), b.M.Kind, b.Fields, b.M.Impl, b.M.Model)
		// focused search: more scenarios from derived seeds, oracle only
		var found *Finding
		searched := 0
		for i := 0; i < integCases[prop][0]*3 && found == nil; i++ {
			cs := b.Seed ^ (uint64(i+1) * 0x9e3779b97f4a7c15)
			cc, vs, _ := runInteg(prop, scratch, cs)
			searched++
			for _, v := range vs {
				if _, k := known[v.Key]; !k {
					found = &Finding{V: *v, Seed: cs, Ops: cc.Ops}
					break
				}
			}
		}
		rf := &ReplayFile{Property: prop, Kind: "correspondence", Key: prop + ":correspondence", What: what,
			Broken: integCorr[prop] + "; theorems of Props/" + prop + ".lean rest on this model", Seed: b.Seed, Ops: c.Ops, Proto: c.Proto, Impl: c.Impl, Model: model, Searched: searched}
		if found != nil {
			cc, _, _ := runInteg(prop, scratch, found.Seed)
			rf.Found, rf.Kind, rf.Key, rf.What, rf.Seed = true, "oracle", found.V.Key, found.V.What+" [found after: "+what+"]", found.Seed
			rf.Ops, rf.Proto, rf.Impl, rf.Model = cc.Ops, cc.Proto, cc.Impl, nil
			p := writeReplay(replays, rf, "oracle")
			o.Messages = append(o.Messages, fmt.Sprintf("VIOLATION property=%s replay=%s", prop, p))
		} else {
			p := writeReplay(replays, rf, "corr")
			o.Messages = append(o.Messages, fmt.Sprintf("VIOLATION property=%s replay=%s no-failing-input-found", prop, p))
		}
		o.Violations++
	}
	sort.Strings(o.Known)
	return o
}

// replayMode re-executes a replay file of a non-history campaign from its seed.
func replayMode(rf *ReplayFile, scratch string) int {
	if _, ok := integScen[rf.Property]; ok {
		c, vs, _ := runInteg(rf.Property, scratch, rf.Seed)
		for _, op := range c.Ops {
			s := op.Short()
			if len(s) > 400 {
				s = s[:400] + "…"
			}
			fmt.Println("  ", s)
		}
		bad := 0
		for _, v := range vs {
			fmt.Printf("oracle: %s: %s (op %d)\n", v.Key, v.What, v.Op)
			bad++
		}
		model, err := runDriver(c.Proto)
		if err != nil {
			fmt.Println("driver:", err)
			bad++
		} else if m := compareInteg(c, model); m != nil {
			fmt.Printf("correspondence: op %d\n  impl : %s\n  model: %s\n", m.Op, m.Impl, m.Model)
			bad++
		}
		if bad > 0 {
			fmt.Printf("VIOLATION property=%s replay=(seed %d)\n", rf.Property, rf.Seed)
			return 1
		}
		fmt.Println("replay no longer fails")
		return 0
	}
	return 2
}
