package main

// Other campaigns (filled in as they are built).

func runMode(mode, prop, tier string, seed uint64, scratch, replays string) *Output {
	if mode == "one" {
		spec := propSpecs[prop]
		c, vs, _ := runHistory(scratch, seed, spec, "")
		for _, v := range vs {
			println("runHistory:", v.Key, v.What, v.Op, c.Ops[v.Op].Short())
		}
		for _, v := range oraclesOn(scratch, c.Ops, spec, prop) {
			println("oraclesOn:", v.Key, v.What, v.Op)
		}
		return &Output{Property: prop}
	}
	return &Output{Property: prop, Tier: tier, Seed: seed, Violations: 1, Messages: []string{"unknown mode " + mode}}
}

func replayMode(rf *ReplayFile, scratch string) int { return 2 }
