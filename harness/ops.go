package main

// Operation vocabulary shared by the generators, the executor of the real library (impl.go) and
// the serialiser of the line protocol understood by the Lean driver.

import (
	"encoding/hex"
	"fmt"
	"strings"
)

func hx(b []byte) string {
	if len(b) == 0 {
		return "-"
	}
	return hex.EncodeToString(b)
}

// DataSpec describes object content: literal bytes, or (len, seed) for the shared LCG.
type DataSpec struct {
	Lit  []byte
	Len  int
	Seed uint64
	Gen  bool
	// Holes: LCG bytes in which block i (of Blk bytes) is all zero when bit i%64 of Mask is set
	// (sparse payloads: zero runs at block boundaries, all-zero tails, all-zero objects)
	Holes bool
	Blk   int
	Mask  uint64
}

func (d DataSpec) Bytes() []byte {
	if d.Holes {
		b := lcgBytes(d.Len, d.Seed)
		for i := 0; i*d.Blk < len(b); i++ {
			if d.Mask>>(uint(i)%64)&1 == 1 {
				end := (i + 1) * d.Blk
				if end > len(b) {
					end = len(b)
				}
				for j := i * d.Blk; j < end; j++ {
					b[j] = 0
				}
			}
		}
		return b
	}
	if d.Gen {
		return lcgBytes(d.Len, d.Seed)
	}
	return d.Lit
}

func (d DataSpec) String() string {
	if d.Holes {
		return fmt.Sprintf("z:%d:%d:%d:%d", d.Len, d.Seed, d.Blk, d.Mask)
	}
	if d.Gen {
		return fmt.Sprintf("g:%d:%d", d.Len, d.Seed)
	}
	if len(d.Lit) == 0 {
		return "-"
	}
	return "h:" + hex.EncodeToString(d.Lit)
}

// MD is a metadata marshaler description.
type MD struct {
	Kind string // nil raw ociauto ocitext fail
	B    []byte
}

func (m MD) String() string {
	switch m.Kind {
	case "raw":
		return "raw:" + hx(m.B)
	case "ocitext":
		return "ocitext:" + hx(m.B)
	default:
		return m.Kind
	}
}

// DIOpt is one DescriptorInputOpt.
type DIOpt struct {
	Kind string // nogroup group link linkgroup align name time md crypto part sig sbom
	N    uint32
	I    int64
	J    int64
	B    []byte
	S    string
	MD   MD
}

func (o DIOpt) Line() string {
	switch o.Kind {
	case "nogroup":
		return "do nogroup"
	case "group":
		return fmt.Sprintf("do group=%d", o.N)
	case "link":
		return fmt.Sprintf("do link=%d", o.N)
	case "linkgroup":
		return fmt.Sprintf("do linkgroup=%d", o.N)
	case "align":
		return fmt.Sprintf("do align=%d", o.I)
	case "name":
		return "do name=" + hx(o.B)
	case "time":
		return fmt.Sprintf("do time=%d", o.I)
	case "md":
		return "do md=" + o.MD.String()
	case "crypto":
		return fmt.Sprintf("do crypto=%d,%d", o.I, o.J)
	case "part":
		return fmt.Sprintf("do part=%d,%d,%s", o.I, o.J, o.S)
	case "sig":
		return fmt.Sprintf("do sig=%d,%s", o.I, hx(o.B))
	case "sbom":
		return fmt.Sprintf("do sbom=%d", o.I)
	}
	panic("bad DIOpt " + o.Kind)
}

// DI is a NewDescriptorInput call.
type DI struct {
	DT   int32
	Opts []DIOpt
	Data DataSpec
	Fail int // -1: reader does not fail; n: fails after n bytes
	// Src != 0: the content is streamed from the live object with that ID of the image being
	// modified (d.GetReader() of the same handle); Data is filled in at execution time
	Src uint32
	// Seekable != "": the source is a seekable reader ("bytes": *bytes.Reader, "file": *os.File)
	// over Pre bytes of framing followed by the content, handed over positioned after the framing
	Seekable string
	Pre      int
}

func (d DI) Lines() []string {
	fail := "-"
	if d.Fail >= 0 {
		fail = fmt.Sprint(d.Fail)
	}
	ls := []string{fmt.Sprintf("di dt=%d nopts=%d data=%s fail=%s", d.DT, len(d.Opts), d.Data, fail)}
	for _, o := range d.Opts {
		ls = append(ls, o.Line())
	}
	return ls
}

// PatchSite is one raw byte edit of the file.
type PatchSite struct {
	Off int64
	B   []byte
}

// TOpt: "dflt", "det", or an explicit unix time.
type TOpt struct {
	Kind string
	T    int64
}

func (t TOpt) String() string {
	if t.Kind == "at" {
		return fmt.Sprint(t.T)
	}
	return t.Kind
}

// Sel is one descriptor selector.
type Sel struct {
	Kind string // dt id nogrp grp lid lgid pt oci P
	N    int64
	B    []byte
	// P: a caller's own selector function from a finite family: it answers with an error of its
	// own on the IDs in E and on data type ET, and otherwise accepts the IDs in M, data type MT and
	// group MG (zero: none)
	M, E   []uint32
	MT, ET int64
	MG     uint32
	// Nest: the function also queries the handle it is being called from (a selector such as "has a
	// signature linked to it" does); its answer is the same
	Nest bool
	// ByStream: the function recognises the objects of M by what their descriptors *say* — it reads
	// Descriptor.GetIntegrityReader and compares with the streams of those objects taken beforehand
	// ("find the object with this descriptor digest") — and by ID; its answer is the same
	ByStream bool
}

func idsPlus(ids []uint32) string {
	if len(ids) == 0 {
		return "-"
	}
	var p []string
	for _, i := range ids {
		p = append(p, fmt.Sprint(i))
	}
	return strings.Join(p, "+")
}

func (s Sel) String() string {
	switch s.Kind {
	case "nogrp":
		return "nogrp"
	case "oci":
		return "oci:" + hx(s.B)
	case "P":
		return fmt.Sprintf("P:%s:%s:%d:%d:%d", idsPlus(s.M), idsPlus(s.E), s.MT, s.ET, s.MG)
	}
	return fmt.Sprintf("%s:%d", s.Kind, s.N)
}

func selsString(ss []Sel) string {
	if len(ss) == 0 {
		return "-"
	}
	var p []string
	for _, s := range ss {
		p = append(p, s.String())
	}
	return strings.Join(p, ",")
}

// CreateOpt is one CreateOpt.
type CreateOpt struct {
	Kind string // launch det id cap time descs
	B    []byte
	I    int64
	Bad  bool
	DIs  []DI
}

// Op is one step of a history.
type Op struct {
	Kind string // create load add del setprim setmeta setoci reload obs q case dumpfile
	// create
	Backend string
	COpts   []CreateOpt
	// add
	DI DI
	// del
	Sel           Sel
	Zero, Compact bool
	// set*
	ID   uint32
	MD   MD
	Text []byte
	T    TOpt
	// q
	One  bool
	Sels []Sel
	// obs
	Reload bool
	Inv    bool // ask the model to evaluate the theorems' hypotheses (WF, Placed, Ranges) here
	// load
	Path    string
	Foreign bool // load the image the preceding mkimg produced
	// case
	Case int
	// mkimg
	Img *FImg
	// integrity
	V     VOpts
	Any   bool
	S     SOpts
	Blobs [][]byte
	Nows  []int64
	FP    []byte
	Raw   []string // protocol lines computed at execution time (facts)
	Sites []PatchSite
	CopySlot []int // patch: copy descriptor slot [0] over slot [1] (resolved at execution)
	SwapSlots []int // patch: exchange descriptor slots [0] and [1] byte for byte (resolved at execution)
	// the backing store fails this operation's FaultAt-th mutating call (FaultShort: after writing
	// half of it); Fault is filled in when the fault fired: "m:j" — m whole calls took effect
	// (zero-length writes not counted, chunks of one write taken together), then j bytes of the next
	FaultAt    int
	FaultShort bool
	Fault      string
	Cli       *CliOp // C15: one siftool invocation
	CliExists bool   // the image file existed before it
	IO    bool // C09: the model is asked for the operation's I/O plan (`io` lines)
	St    *StOp // C14: one raw call on a bare backing store (no image)
	N     int64 // ftrunc: the image file is cut to N bytes by someone else (a partial copy or download)
	Valid bool  // add: drawn from the valid stream (the library must accept it when a descriptor is free)
	Lib   bool  // ftrunc inside a library history: reload read-write on the same backend afterwards
	// filled in by the executor
	Now int64
	Rnd []byte
}

// Lines serialises the op (after execution, so Now/Rnd are known).
func (o *Op) Lines() []string {
	ls := o.lines0()
	if o.IO && len(ls) > 0 && isCrashOp(o.Kind) {
		ls[0] += " io=1"
	}
	if o.Fault != "" && len(ls) > 0 {
		ls[0] += " fault=" + o.Fault
	}
	return ls
}

func (o *Op) lines0() []string {
	switch o.Kind {
	case "case":
		return []string{fmt.Sprintf("case id=%d", o.Case)}
	case "create":
		ls := []string{fmt.Sprintf("create be=%s now=%d rnd=%s nopts=%d", o.Backend, o.Now, hx(o.Rnd), len(o.COpts))}
		for _, c := range o.COpts {
			switch c.Kind {
			case "launch":
				ls = append(ls, "co launch="+hx(c.B))
			case "det":
				ls = append(ls, "co det")
			case "id":
				if c.Bad {
					ls = append(ls, "co id=bad")
				} else {
					ls = append(ls, "co id="+hx(c.B))
				}
			case "cap":
				ls = append(ls, fmt.Sprintf("co cap=%d", c.I))
			case "time":
				ls = append(ls, fmt.Sprintf("co time=%d", c.I))
			case "descs":
				ls = append(ls, fmt.Sprintf("co descs=%d", len(c.DIs)))
				for _, d := range c.DIs {
					ls = append(ls, d.Lines()...)
				}
			}
		}
		return ls
	case "load":
		return []string{fmt.Sprintf("load be=%s path=%s", o.Backend, o.Path)}
	case "add":
		return append([]string{fmt.Sprintf("add t=%s now=%d", o.T, o.Now)}, o.DI.Lines()...)
	case "del":
		return []string{fmt.Sprintf("del sel=%s zero=%d compact=%d t=%s now=%d", o.Sel, b2i(o.Zero), b2i(o.Compact), o.T, o.Now)}
	case "setprim":
		return []string{fmt.Sprintf("setprim id=%d t=%s now=%d", o.ID, o.T, o.Now)}
	case "setmeta":
		return []string{fmt.Sprintf("setmeta id=%d md=%s t=%s now=%d", o.ID, o.MD, o.T, o.Now)}
	case "setoci":
		return []string{fmt.Sprintf("setoci id=%d text=%s t=%s now=%d", o.ID, hx(o.Text), o.T, o.Now)}
	case "reload":
		return []string{"reload"}
	case "st":
		return []string{o.St.line()}
	case "ftrunc":
		return []string{fmt.Sprintf("ftrunc n=%d", o.N)}
	case "obs":
		l := "obs"
		if o.Reload {
			l += " rl"
		}
		if o.Inv {
			l += " inv"
		}
		return []string{l}
	case "q":
		return []string{fmt.Sprintf("q one=%d sels=%s", b2i(o.One), selsString(o.Sels))}
	case "dumpfile":
		return []string{"dumpfile path=" + o.Path}
	case "mkimg":
		return o.Img.lines(o.Path)
	case "keys":
		return getUniverse().keyLines()
	case "facts", "forge", "transplant", "rewrap", "readd", "mangle", "delmangled":
		return o.Raw
	case "vhold":
		return []string{"vhold " + o.V.String()}
	case "vheld":
		return []string{"vheld mode=" + []string{"verify", "any", "all"}[o.N]}
	case "poke":
		ls := []string{fmt.Sprintf("poke nsites=%d", len(o.Sites))}
		for _, p := range o.Sites {
			ls = append(ls, fmt.Sprintf("ps off=%d hex=%s", p.Off, hx(p.B)))
		}
		return ls
	case "verify":
		return []string{"verify " + o.V.String()}
	case "signedby":
		return []string{fmt.Sprintf("signedby any=%d %s", b2i(o.Any), o.V.String())}
	case "sign":
		ls := []string{fmt.Sprintf("sign groups=%s objsets=%s ht=1 fp=%s t=%s now=%d nblobs=%d", idList(o.S.Groups), o.S.objsets(), hx(o.FP), o.S.T, o.Now, len(o.Blobs))}
		for i, b := range o.Blobs {
			now := o.Now
			if i < len(o.Nows) {
				now = o.Nows[i] // each signature object is added with its own clock reading
			}
			ls = append(ls, fmt.Sprintf("blob h=%s now=%d", hx(b), now))
		}
		return ls
	case "cli":
		return []string{o.Cli.line(o.CliExists, o.Now, o.Rnd)}
	case "resign":
		// seen by the model as: add a signature object holding the blob, under the given fingerprint
		if len(o.Blobs) != 1 {
			return []string{"nop"}
		}
		di := sigObjectDI(o.Blobs[0], o.S.Groups[0], 0, 1, o.FP, 0)
		return append([]string{"add t=det now=0"}, di.Lines()...)
	case "patch", "fpatch":
		ls := []string{fmt.Sprintf("patch nsites=%d", len(o.Sites))}
		for _, p := range o.Sites {
			ls = append(ls, fmt.Sprintf("ps off=%d hex=%s", p.Off, hx(p.B)))
		}
		return ls
	}
	panic("bad op " + o.Kind)
}

func b2i(b bool) int {
	if b {
		return 1
	}
	return 0
}

// Short renders an op compactly for evidence samples and replay files.
func (o *Op) Short() string { return strings.Join(o.Lines(), " ; ") }

// StOp is one raw call on a bare backing store (sif.Buffer or *os.File), from the repertoire the
// library issues: absolute seek, seek to end, non-empty write, in-range truncate, positioned read.
type StOp struct {
	Call string // new seek seekend write trunc read
	Be   string // new: buf | file
	Off  int64
	N    int64
	Data DataSpec
}

func (s *StOp) line() string {
	switch s.Call {
	case "new":
		return fmt.Sprintf("stnew be=%s data=%s", s.Be, s.Data)
	case "seek":
		return fmt.Sprintf("stseek off=%d", s.Off)
	case "seekend":
		return "stseekend"
	case "write":
		return fmt.Sprintf("stwrite data=%s", s.Data)
	case "trunc":
		return fmt.Sprintf("sttrunc n=%d", s.N)
	case "read":
		return fmt.Sprintf("stread off=%d n=%d", s.Off, s.N)
	}
	panic("bad st call " + s.Call)
}
