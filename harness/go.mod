module sifharness

go 1.23.0

require (
	github.com/google/go-containerregistry v0.20.3
	github.com/google/uuid v1.6.0
	github.com/sylabs/sif/v2 v2.0.0
)

replace github.com/sylabs/sif/v2 => /repo
