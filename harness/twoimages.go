package main

// Two independent images written at the same time (C01: what is stored is what was given — whatever
// else the process is doing).  The interleaving is forced at the source reader, so the scenario is
// deterministic: image B's whole add runs while image A's add is between reading a chunk from its
// source and storing it.

import (
	"bytes"
	"crypto/sha256"
	"encoding/hex"
	"fmt"
	"io"
	"os"
	"path/filepath"
	"sync"

	"github.com/sylabs/sif/v2/pkg/sif"
)

// gatedReader hands out data in chunks; after its k-th Read has filled the caller's buffer it runs
// gate once before returning.
type gatedReader struct {
	data  []byte
	chunk int
	after int
	n     int
	gate  func()
	once  sync.Once
}

func (r *gatedReader) Read(p []byte) (int, error) {
	if len(r.data) == 0 {
		return 0, io.EOF
	}
	m := len(p)
	if r.chunk > 0 && m > r.chunk {
		m = r.chunk
	}
	n := copy(p[:m], r.data)
	r.data = r.data[n:]
	r.n++
	if r.n >= r.after {
		r.once.Do(r.gate)
	}
	return n, nil
}

type onlyReader struct{ r io.Reader }

func (o onlyReader) Read(p []byte) (int, error) { return o.r.Read(p) }

func twoImagesOracle(scratch string, seed uint64, stats map[string]int) []*Violation {
	r := NewRNG(seed*7 + 3)
	var out []*Violation
	for round := 0; round < 12; round++ {
		dt := pick(r, []sif.DataType{sif.DataOCIBlob, sif.DataGeneric, sif.DataOCIRootIndex, sif.DataGeneric})
		be := pick(r, []string{"buf", "buf", "file"})
		sizeA := pick(r, []int{4096, 40000, 70000, 1<<20 + 5})
		sizeB := pick(r, []int{4096, 33000, 1 << 20})
		chunk := pick(r, []int{0, 0, 1000, 32768})
		after := 1 + r.Intn(3)
		blobA := bytes.Repeat([]byte{'A' + byte(round%20)}, sizeA)
		blobB := bytes.Repeat([]byte{'a' + byte(round%20)}, sizeB)
		dir := filepath.Join(scratch, fmt.Sprintf("two%d", round))
		_ = os.MkdirAll(dir, 0o755)
		open := func(name string) (*sif.FileImage, func() []byte, error) {
			if be == "file" {
				p := filepath.Join(dir, name+".sif")
				f, err := sif.CreateContainerAtPath(p, sif.OptCreateDeterministic())
				return f, func() []byte { b, _ := os.ReadFile(p); return b }, err
			}
			b := sif.NewBuffer(nil)
			f, err := sif.CreateContainer(b, sif.OptCreateDeterministic())
			return f, func() []byte { return append([]byte(nil), b.Bytes()...) }, err
		}
		imgA, bytesA, errA0 := open("a")
		imgB, bytesB, errB0 := open("b")
		if errA0 != nil || errB0 != nil {
			continue
		}
		aHasRead, bDone := make(chan struct{}), make(chan struct{})
		srcA := &gatedReader{data: append([]byte(nil), blobA...), chunk: chunk, after: after, gate: func() { close(aHasRead); <-bDone }}
		var errA, errB error
		var wg sync.WaitGroup
		wg.Add(2)
		go func() {
			defer wg.Done()
			di, err := sif.NewDescriptorInput(dt, srcA)
			if err != nil {
				errA = err
				srcA.once.Do(srcA.gate)
				return
			}
			errA = imgA.AddObject(di, sif.OptAddDeterministic())
			srcA.once.Do(func() { close(aHasRead) }) // the source was never read that far
		}()
		go func() {
			defer wg.Done()
			defer close(bDone)
			<-aHasRead
			di, err := sif.NewDescriptorInput(dt, onlyReader{bytes.NewReader(blobB)})
			if err != nil {
				errB = err
				return
			}
			errB = imgB.AddObject(di, sif.OptAddDeterministic())
		}()
		wg.Wait()
		stats["two-images:rounds"]++
		what := fmt.Sprintf("two images (%s backend) each given one %v object from two goroutines, the second add running while the first is between a Read of its source and the store", be, dt)
		if errA != nil || errB != nil {
			out = append(out, &Violation{Prop: "C01", Key: "C01:two-images-interfere", What: fmt.Sprintf("%s: an add failed: %v / %v", what, errA, errB)})
			break
		}
		check := func(name string, f *sif.FileImage, raw []byte, want []byte) *Violation {
			g, err := sif.LoadContainer(sif.NewBuffer(raw), sif.OptLoadWithFlag(os.O_RDONLY))
			if err != nil {
				return &Violation{Prop: "C01", Key: "C01:two-images-interfere", What: fmt.Sprintf("%s: image %s does not load: %v", what, name, err)}
			}
			for how, img := range map[string]*sif.FileImage{"same handle": f, "reloaded": g} {
				d, err := img.GetDescriptor(sif.WithDataType(dt))
				if err != nil {
					return &Violation{Prop: "C01", Key: "C01:two-images-interfere", What: fmt.Sprintf("%s: image %s (%s): %v", what, name, how, err)}
				}
				got, err := d.GetData()
				if err != nil || !bytes.Equal(got, want) {
					k := 8
					if len(got) < k {
						k = len(got)
					}
					return &Violation{Prop: "C01", Key: "C01:two-images-interfere", What: fmt.Sprintf("%s: image %s (%s) holds %d bytes starting %q, it was given %d bytes starting %q", what, name, how, len(got), got[:k], len(want), want[:8])}
				}
				if dt == sif.DataOCIBlob || dt == sif.DataOCIRootIndex {
					sum := sha256.Sum256(want)
					if h, err := d.OCIBlobDigest(); err != nil || h.Hex != hex.EncodeToString(sum[:]) {
						return &Violation{Prop: "C01", Key: "C01:two-images-interfere", What: fmt.Sprintf("%s: image %s (%s) records digest %v, the bytes given hash to %x", what, name, how, h, sum[:6])}
					}
				}
			}
			return nil
		}
		if v := check("A", imgA, bytesA(), blobA); v != nil {
			out = append(out, v)
			break
		}
		if v := check("B", imgB, bytesB(), blobB); v != nil {
			out = append(out, v)
			break
		}
		_ = imgA.UnloadContainer()
		_ = imgB.UnloadContainer()
		_ = os.RemoveAll(dir)
	}
	return out
}
