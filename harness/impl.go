package main

// Executor of operations against the real library (in-process), producing the same
// observation lines as the Lean driver.

import (
	"encoding/json"
	"bytes"
	"crypto"
	"encoding/binary"
	"errors"
	"fmt"
	"io"
	"os"
	"path/filepath"
	"strings"
	"time"

	v1 "github.com/google/go-containerregistry/pkg/v1"
	"github.com/google/uuid"
	"github.com/sylabs/sif/v2/pkg/integrity"
	"github.com/sylabs/sif/v2/pkg/sif"
)

type rawMD []byte

func (m rawMD) MarshalBinary() ([]byte, error) { return []byte(m), nil }

type failMD struct{}

func (failMD) MarshalBinary() ([]byte, error) { return nil, errors.New("marshal failure") }

type rawCapture struct{ b []byte }

func (c *rawCapture) UnmarshalBinary(b []byte) error {
	c.b = append([]byte(nil), b...)
	return nil
}

type failReader struct {
	data []byte
	pos  int
}

var errReader = errors.New("injected reader failure")

// errReaderEOF: the way a decompressor or a network body reports a stream that ended too early — an
// error that wraps io.EOF (errors.Is(err, io.EOF) holds); it is a failure all the same
var errReaderEOF = fmt.Errorf("source ended before its declared length: %w", io.EOF)

func (r *failReader) Read(p []byte) (int, error) {
	if r.pos >= len(r.data) {
		if len(r.data)%2 == 1 {
			return 0, errReaderEOF
		}
		return 0, errReader
	}
	n := copy(p, r.data[r.pos:])
	r.pos += n
	return n, nil
}

// plainReader hides WriterTo so that io.Copy uses its chunked path like any other reader.
type plainReader struct {
	data []byte
	pos  int
}

func (r *plainReader) Read(p []byte) (int, error) {
	if r.pos >= len(r.data) {
		return 0, io.EOF
	}
	n := copy(p, r.data[r.pos:])
	r.pos += n
	return n, nil
}

// dataEOFReader hands over its last bytes together with io.EOF in the same Read call (as tar
// entries, HTTP bodies and iotest.DataErrReader do), in chunks of at most 2560 bytes.
type dataEOFReader struct {
	data []byte
	pos  int
}

func (r *dataEOFReader) Read(p []byte) (int, error) {
	if len(p) > 2560 {
		p = p[:2560]
	}
	n := copy(p, r.data[r.pos:])
	r.pos += n
	if r.pos >= len(r.data) {
		return n, io.EOF
	}
	return n, nil
}

func (m MD) marshaler() interface{ MarshalBinary() ([]byte, error) } {
	switch m.Kind {
	case "raw":
		return rawMD(m.B)
	case "fail":
		return failMD{}
	}
	return nil
}

var hashByType = map[int64]crypto.Hash{1: crypto.SHA256, 2: crypto.SHA384, 3: crypto.SHA512, 4: crypto.BLAKE2s_256, 5: crypto.BLAKE2b_256}

func (o DIOpt) build() sif.DescriptorInputOpt {
	switch o.Kind {
	case "nogroup":
		return sif.OptNoGroup()
	case "group":
		return sif.OptGroupID(o.N)
	case "link":
		return sif.OptLinkedID(o.N)
	case "linkgroup":
		return sif.OptLinkedGroupID(o.N)
	case "align":
		return sif.OptObjectAlignment(int(o.I))
	case "name":
		return sif.OptObjectName(string(o.B))
	case "time":
		return sif.OptObjectTime(time.Unix(o.I, 0))
	case "md":
		if o.MD.Kind == "nil" {
			return sif.OptMetadata(nil)
		}
		return sif.OptMetadata(o.MD.marshaler())
	case "crypto":
		return sif.OptCryptoMessageMetadata(sif.FormatType(o.I), sif.MessageType(o.J))
	case "part":
		return sif.OptPartitionMetadata(sif.FSType(o.I), sif.PartType(o.J), o.S)
	case "sig":
		return sif.OptSignatureMetadata(hashByType[o.I], o.B)
	case "sbom":
		return sif.OptSBOMMetadata(sif.SBOMFormat(o.I))
	}
	panic("bad DIOpt " + o.Kind)
}

func (d DI) build() (sif.DescriptorInput, error) { return d.buildWith(nil) }

// buildWith: src, when not nil, is the reader handed to the library instead of one over Data.
func (d DI) buildWith(src io.Reader) (sif.DescriptorInput, error) {
	var r io.Reader
	data := d.Data.Bytes()
	if src != nil {
		r = src
	} else if d.Seekable == "dataeof" && d.Fail < 0 {
		r = &dataEOFReader{data: data}
	} else if d.Seekable != "" && d.Fail < 0 {
		whole := append(bytes.Repeat([]byte("FRAMING!"), d.Pre/8+1)[:d.Pre], data...)
		if d.Seekable == "file" {
			if fp, err := os.CreateTemp(scratchRoot, "src"); err == nil {
				_, _ = fp.Write(whole)
				_, _ = fp.Seek(int64(d.Pre), io.SeekStart)
				_ = os.Remove(fp.Name()) // unlinked: disappears with the descriptor
				r = fp
			}
		}
		if r == nil {
			br := bytes.NewReader(whole)
			_, _ = br.Seek(int64(d.Pre), io.SeekStart)
			r = br
		}
	} else if d.Fail >= 0 {
		n := d.Fail
		if n > len(data) {
			n = len(data)
		}
		r = &failReader{data: data[:n]}
	} else {
		r = &plainReader{data: data}
	}
	var opts []sif.DescriptorInputOpt
	for _, o := range d.Opts {
		opts = append(opts, o.build())
	}
	return sif.NewDescriptorInput(sif.DataType(d.DT), r, opts...)
}

// Env is one running history on the real library.
type Env struct {
	dir     string
	backend string
	buf     *sif.Buffer
	path    string
	f       *sif.FileImage
	wrap    func(sif.ReadWriter) sif.ReadWriter // optional I/O interposer (C09)
	fileSeq int
	lastForeign string
	heldVer  *integrity.Verifier      // a Verifier kept across operations (vhold / vheld)
	heldRes  []integrity.VerifyResult // what its callback was handed during the latest Verify
	staleHandle bool        // a store failure happened on this handle: its caches may be those of the failing phase until it is replaced by a fresh one
	signing  bool           // a sign operation is in progress (slowSmallReads)
	faultCtl bool           // interpose the controllable recorder (as crashCtl) without the C09 crash oracle
	desync   bool           // an injected store failure left handle and file apart; cleared by the next successful modification
	crashCtl bool           // C09: interpose a controllable recorder on every backing store
	ctl      *ctlRW         // the interposer of the current handle
	stats    map[string]int // campaign counters
	pending  []*Violation   // violations found by the crash oracle during Apply
	st       sif.ReadWriter // C14: bare backing store driven by raw calls
	stFile   *os.File
}

func (e *Env) Close() {
	if e.stFile != nil {
		e.stFile.Close()
		e.stFile = nil
	}
	if e.f != nil {
		_ = e.f.UnloadContainer()
		e.f = nil
	}
}

// errCallerPred is the error the harness's own selector functions answer with.
var errCallerPred = errors.New("caller's selector function failed")

func errClass(err error) string {
	switch {
	case err == nil:
		return "ok"
	case errors.Is(err, sif.ErrNoObjects):
		return "err:noObjects"
	case errors.Is(err, sif.ErrObjectNotFound):
		return "err:objectNotFound"
	case errors.Is(err, sif.ErrMultipleObjectsFound):
		return "err:multipleObjectsFound"
	case errors.Is(err, sif.ErrInvalidObjectID):
		return "err:invalidObjectID"
	case errors.Is(err, sif.ErrInvalidGroupID):
		return "err:invalidGroupID"
	case errors.Is(err, errCallerPred):
		return "err:caller"
	}
	return "err:other"
}

func (t TOpt) addOpt() []sif.AddOpt {
	switch t.Kind {
	case "det":
		return []sif.AddOpt{sif.OptAddDeterministic()}
	case "at":
		return []sif.AddOpt{sif.OptAddWithTime(time.Unix(t.T, 0))}
	}
	return nil
}

func (t TOpt) delOpt() []sif.DeleteOpt {
	switch t.Kind {
	case "det":
		return []sif.DeleteOpt{sif.OptDeleteDeterministic()}
	case "at":
		return []sif.DeleteOpt{sif.OptDeleteWithTime(time.Unix(t.T, 0))}
	}
	return nil
}

func (t TOpt) setOpt() []sif.SetOpt {
	switch t.Kind {
	case "det":
		return []sif.SetOpt{sif.OptSetDeterministic()}
	case "at":
		return []sif.SetOpt{sif.OptSetWithTime(time.Unix(t.T, 0))}
	}
	return nil
}

func (s Sel) build() sif.DescriptorSelectorFunc { return s.buildOn(nil) }

// buildOn: nestHandle is the handle a caller's selector function queries from inside (Sel.Nest):
// the one the selector is about to be handed to
func (s Sel) buildOn(nestHandle *sif.FileImage) sif.DescriptorSelectorFunc {
	switch s.Kind {
	case "dt":
		return sif.WithDataType(sif.DataType(s.N))
	case "id":
		return sif.WithID(uint32(s.N))
	case "nogrp":
		return sif.WithNoGroup()
	case "grp":
		return sif.WithGroupID(uint32(s.N))
	case "lid":
		return sif.WithLinkedID(uint32(s.N))
	case "lgid":
		return sif.WithLinkedGroupID(uint32(s.N))
	case "pt":
		return sif.WithPartitionType(sif.PartType(s.N))
	case "oci":
		parts := strings.SplitN(string(s.B), ":", 2)
		h := v1.Hash{Algorithm: parts[0]}
		if len(parts) > 1 {
			h.Hex = parts[1]
		}
		return sif.WithOCIBlobDigest(h)
	case "P":
		var streams map[string]bool
		if s.ByStream && nestHandle != nil {
			streams = map[string]bool{}
			for _, id := range s.M {
				if d, err := nestHandle.GetDescriptor(sif.WithID(id)); err == nil {
					if b, err := io.ReadAll(d.GetIntegrityReader()); err == nil {
						streams[string(b)] = true
					}
				}
			}
		}
		return func(d sif.Descriptor) (bool, error) {
			in := func(ids []uint32, id uint32) bool {
				for _, x := range ids {
					if x == id {
						return true
					}
				}
				return false
			}
			if s.Nest && nestHandle != nil {
				// re-entrant read-only use of the same handle from inside the selector
				_, _ = nestHandle.GetDescriptors(sif.WithDataType(d.DataType()))
				_, _ = nestHandle.GetDescriptor(sif.WithID(d.ID()))
				nestHandle.WithDescriptors(func(sif.Descriptor) bool { return false })
			}
			if in(s.E, d.ID()) || (s.ET != 0 && int64(d.DataType()) == s.ET) {
				return false, errCallerPred
			}
			byID := in(s.M, d.ID())
			if streams != nil && byID {
				// the descriptor handed to the function says what the object's own descriptor says
				b, err := io.ReadAll(d.GetIntegrityReader())
				byID = err == nil && streams[string(b)]
			}
			return byID || (s.MT != 0 && int64(d.DataType()) == s.MT) || (s.MG != 0 && d.GroupID() == s.MG), nil
		}
	}
	panic("bad sel " + s.Kind)
}

func (e *Env) storeBytes() []byte {
	if e.backend == "file" {
		b, err := os.ReadFile(e.path)
		if err != nil {
			return nil
		}
		return b
	}
	return append([]byte(nil), e.buf.Bytes()...)
}

func (e *Env) rw() (sif.ReadWriter, error) {
	var rw sif.ReadWriter
	if e.backend == "file" {
		fp, err := os.OpenFile(e.path, os.O_RDWR|os.O_CREATE, 0o644)
		if err != nil {
			return nil, err
		}
		rw = fp
	} else {
		rw = e.buf
	}
	if e.wrap != nil {
		rw = e.wrap(rw)
	}
	if e.crashCtl || crashMode || e.faultCtl {
		e.ctl = &ctlRW{inner: rw}
		rw = e.ctl
	}
	return rw, nil
}

// timeBracket records wall-clock bounds around an operation so that a default ("now") time read
// back from the image can be checked to lie inside them.
type timeBracket struct{ before, after int64 }

// Apply executes op and returns the observation lines the driver must reproduce.
func (e *Env) Apply(op *Op) []string {
	if op.FaultAt > 0 && e.f != nil && e.ctl != nil {
		// the backing store fails one call of this operation; the handle stays in use
		times := func() map[string]int64 {
			m := map[string]int64{"hdr": e.f.ModifiedAt().Unix()}
			k := 0
			e.f.WithDescriptors(func(d sif.Descriptor) bool {
				m[fmt.Sprintf("c%d.%d", d.ID(), k)], m[fmt.Sprintf("m%d.%d", d.ID(), k)] = d.CreatedAt().Unix(), d.ModifiedAt().Unix()
				k++
				return false
			})
			return m
		}
		pre, t0 := times(), time.Now().Unix()
		e.ctl.arm(op.FaultAt, op.FaultShort)
		obs := e.applyCore(op)
		t1 := time.Now().Unix()
		if opFailed(obs) && e.f != nil {
			// the clock reading the failed call used: a time it left on the handle, else irrelevant
			op.Now = t0
			for k, v := range times() {
				if pv, ok := pre[k]; (!ok || pv != v) && v >= t0 && v <= t1 {
					op.Now = v
				}
			}
		}
		fired, kind := e.ctl.fired, e.ctl.failKind
		done := e.ctl.disarm()
		if os.Getenv("FAULT_DEBUG") != "" {
			if fh, err := os.OpenFile(os.Getenv("FAULT_DEBUG"), os.O_APPEND|os.O_CREATE|os.O_WRONLY, 0o644); err == nil {
				fmt.Fprintf(fh, "fault-debug: %s at=%d short=%v fired=%v kind=%s obs=%v done=%d backend=%s\n", op.Kind, op.FaultAt, op.FaultShort, fired, kind, obs, len(done), e.backend)
				fh.Close()
			}
		}
		if fired {
			m, j := faultPoint(done, kind)
			op.Fault = fmt.Sprintf("%d:%d", m, j)
			e.desync = true
			e.staleHandle = true
			if !opFailed(obs) {
				e.pending = append(e.pending, &Violation{Prop: "C09", Key: "C09:fault", What: fmt.Sprintf("%s: the store failed a %s call and the operation reported %q", op.Kind, kind, strings.Join(obs, " | "))})
			}
		}
		return obs
	}
	if isCrashOp(op.Kind) && e.desync && e.ctl != nil {
		// (the crash oracle compares interrupted files with the handle's earlier view: it has
		// nothing to say while handle and file are apart)
		e.ctl.arm(0, false)
		obs := e.applyCore(op)
		wrote := false
		for _, ev := range e.ctl.disarm() {
			wrote = wrote || (ev.Kind == "write" && len(ev.P) > 0)
		}
		if len(obs) > 0 && !opFailed(obs) && wrote {
			// every successful modification that writes at all writes the whole table and the
			// header (SetPrimPart on the partition that already is primary writes nothing)
			e.desync = false
		}
		return obs
	}
	if !(e.crashCtl || crashMode) || e.f == nil || e.ctl == nil || !isCrashOp(op.Kind) || e.staleHandle {
		// (after a failed store call the handle keeps what the failing phase left — the group-minimum
		// cache of before a delete, say — also once a later success has brought the file up to date;
		// the crash oracle re-runs operations on freshly loaded copies, which is not this handle: the
		// C09 theorems assume a well-formed handle (WF.coh), and the oracle waits for a fresh one)
		if e.staleHandle {
			op.IO = false
		}
		return e.applyCore(op)
	}
	// C09: record the operation's mutating calls, emit them, and examine every interruption
	b0 := e.storeBytes()
	pre := objMap(e.f)
	op.IO = true
	e.ctl.arm(0, false)
	obs := e.applyCore(op)
	evs := e.ctl.disarm()
	if e.f != nil {
		for _, v := range e.crashOracle(op, obs, b0, pre, evs) {
			v.Prop = "C09"
			e.pending = append(e.pending, v)
		}
	}
	return append(obs, ioLines(evs)...)
}

func (e *Env) applyCore(op *Op) []string {
	switch op.Kind {
	case "create", "load", "reload", "patch", "ftrunc", "fpatch":
		e.desync = false // a fresh handle: it says what the file says
		e.staleHandle = false
	}
	switch op.Kind {
	case "cli":
		return e.applyCli(op)
	case "st":
		return e.applySt(op.St)
	case "forge":
		return e.applyForge(op)
	case "transplant":
		return e.applyTransplant(op)
	case "rewrap":
		return e.applyRewrap(op)
	case "readd":
		return e.applyReadd(op)
	case "mangle":
		return e.applyMangle(op)
	case "delmangled":
		// delete the signature object whose envelope carries an entry that is no signature
		if e.f == nil {
			op.Raw = []string{"nop"}
			return []string{"nop"}
		}
		var sid uint32
		e.f.WithDescriptors(func(d sif.Descriptor) bool {
			if d.DataType() != sif.DataSignature {
				return false
			}
			b, err := d.GetData()
			var env struct {
				Signatures []struct {
					KeyID string `json:"keyid"`
					Sig   string `json:"sig"`
				} `json:"signatures"`
			}
			if err != nil || json.Unmarshal(b, &env) != nil {
				return false
			}
			for _, x := range env.Signatures {
				if x.Sig == "" || x.Sig == "AAAA" || strings.Contains(x.Sig, "!") {
					sid = d.ID()
				}
			}
			return false
		})
		if sid == 0 {
			op.Raw = []string{"nop"}
			return []string{"nop"}
		}
		del := &Op{Kind: "del", Sel: Sel{Kind: "id", N: int64(sid)}, T: TOpt{Kind: "det"}}
		obs := e.applyCore(del)
		op.Raw = del.Lines()
		return obs
	case "ftrunc":
		// the file is cut short behind the library's back; later commands see what is left
		if op.Lib {
			// library history: the store is cut short, then loaded read-write on the same backend
			if e.f == nil {
				return []string{"noimg"}
			}
			b := e.storeBytes()
			if len(op.Raw) > 0 && op.Raw[0] == "fromend" {
				// so many bytes are missing at the end (a copy that stopped early)
				op.N, op.Raw = int64(len(b))-op.N, nil
				if op.N < 0 {
					op.N = 0
				}
			}
			if op.N < int64(len(b)) {
				b = b[:op.N]
			}
			e.Close()
			if e.backend == "file" {
				if err := os.WriteFile(e.path, b, 0o644); err != nil {
					return []string{"ftrunc err"}
				}
			} else {
				e.buf = sif.NewBuffer(append([]byte(nil), b...))
			}
			rw, err := e.rw()
			if err != nil {
				return []string{"ftrunc err"}
			}
			if f, err := sif.LoadContainer(rw); err == nil {
				e.f = f
			}
			return []string{"ftrunc ok"}
		}
		if e.path == "" {
			return []string{"noimg"}
		}
		e.Close()
		if err := os.Truncate(e.path, op.N); err != nil {
			return []string{"ftrunc err"}
		}
		if f, err := sif.LoadContainerFromPath(e.path, sif.OptLoadWithFlag(os.O_RDONLY)); err == nil {
			e.f = f
		}
		return []string{"ftrunc ok"}
	case "fpatch":
		// bytes of the image *file* changed behind the tools' back (CLI histories): same protocol
		// lines as "patch" — raw edits, then whoever opens the file next sees them
		if e.path == "" {
			return []string{"noimg"}
		}
		e.Close()
		b, err := os.ReadFile(e.path)
		if err != nil {
			return []string{"noimg"}
		}
		for _, p := range op.Sites {
			if p.Off >= 0 && int(p.Off)+len(p.B) <= len(b) {
				copy(b[p.Off:], p.B)
			}
		}
		if err := os.WriteFile(e.path, b, 0o644); err != nil {
			return []string{"res err:other"}
		}
		f, err := sif.LoadContainerFromPath(e.path, sif.OptLoadWithFlag(os.O_RDONLY))
		if err != nil {
			e.f = nil
			return []string{"res " + errClass(err)}
		}
		e.f = f
		return []string{"res ok"}
	case "case":
		return []string{fmt.Sprintf("case %d", op.Case)}
	case "create":
		e.Close()
		atPath := false // create through CreateContainerAtPath (over an existing file), then open the result
		e.backend = op.Backend
		if e.backend == "file" {
			e.fileSeq++
			e.path = filepath.Join(e.dir, fmt.Sprintf("img%d.sif", e.fileSeq))
			_ = os.Remove(e.path)
			if len(op.COpts)%2 == 0 {
				// an image is rebuilt in place: the path already holds a file (an older, longer image or
				// unrelated bytes, nowhere zero); nothing of it may show in the new image
				_ = os.WriteFile(e.path, bytes.Repeat([]byte{0xA5}, 200000), 0o644)
				atPath = true
			}
		} else {
			e.buf = sif.NewBuffer(dirtyCap(nil))
		}
		var opts []sif.CreateOpt
		for _, c := range op.COpts {
			switch c.Kind {
			case "launch":
				opts = append(opts, sif.OptCreateWithLaunchScript(string(c.B)))
			case "det":
				opts = append(opts, sif.OptCreateDeterministic())
			case "id":
				if c.Bad {
					opts = append(opts, sif.OptCreateWithID("not-a-uuid"))
				} else {
					u, _ := uuid.FromBytes(c.B)
					opts = append(opts, sif.OptCreateWithID(u.String()))
				}
			case "cap":
				opts = append(opts, sif.OptCreateWithDescriptorCapacity(c.I))
			case "time":
				opts = append(opts, sif.OptCreateWithTime(time.Unix(c.I, 0)))
			case "descs":
				var dis []sif.DescriptorInput
				for _, d := range c.DIs {
					di, err := d.build()
					if err != nil {
						return []string{"res " + errClass(err)}
					}
					dis = append(dis, di)
				}
				opts = append(opts, sif.OptCreateWithDescriptors(dis...))
			}
		}
		if atPath {
			f0, cerr := sif.CreateContainerAtPath(e.path, opts...)
			if cerr != nil {
				_ = os.Remove(e.path)
				return []string{"res " + errClass(cerr)}
			}
			op.Now = f0.CreatedAt().Unix()
			if u, perr := uuid.Parse(f0.ID()); perr == nil {
				op.Rnd = u[:]
			}
			_ = f0.UnloadContainer()
			rw, rerr := e.rw()
			if rerr != nil {
				return []string{"res err:other"}
			}
			f1, lerr := sif.LoadContainer(rw)
			if lerr != nil {
				return []string{"res " + errClass(lerr)}
			}
			e.f = f1
			return []string{"res ok"}
		}
		rw, err := e.rw()
		if err != nil {
			return []string{"res err:other"}
		}
		f, err := sif.CreateContainer(rw, opts...)
		if err != nil {
			if c, ok := rw.(io.Closer); ok && e.backend == "file" {
				c.Close()
			}
			return []string{"res " + errClass(err)}
		}
		e.f = f
		op.Now = f.CreatedAt().Unix()
		if u, err := uuid.Parse(f.ID()); err == nil {
			op.Rnd = u[:]
		}
		return []string{"res ok"}
	case "load":
		e.Close()
		e.backend = op.Backend
		if op.Foreign {
			op.Path = e.lastForeign
		}
		b, err := os.ReadFile(op.Path)
		if err != nil {
			return []string{"res err:other"}
		}
		if e.backend == "file" {
			e.fileSeq++
			e.path = filepath.Join(e.dir, fmt.Sprintf("img%d.sif", e.fileSeq))
			if err := os.WriteFile(e.path, b, 0o644); err != nil {
				return []string{"res err:other"}
			}
		} else {
			e.buf = sif.NewBuffer(dirtyCap(b))
		}
		rw, err := e.rw()
		if err != nil {
			return []string{"res err:other"}
		}
		f, err := sif.LoadContainer(rw)
		if err != nil {
			return []string{"res " + errClass(err)}
		}
		e.f = f
		return []string{"res ok"}
	case "reload":
		if e.f == nil {
			return []string{"noimg"}
		}
		if e.backend == "file" {
			_ = e.f.UnloadContainer()
		} else {
			e.buf = sif.NewBuffer(dirtyCap(e.buf.Bytes()))
		}
		rw, err := e.rw()
		if err != nil {
			return []string{"res err:other"}
		}
		f, err := sif.LoadContainer(rw)
		if err != nil {
			return []string{"res " + errClass(err)}
		}
		e.f = f
		return []string{"res ok"}
	case "obs":
		if e.f == nil {
			return []string{"noimg"}
		}
		ls := viewLines("", e.f)
		b := e.storeBytes()
		ls = append(ls, fmt.Sprintf("file len=%d fnv=%d", len(b), fnv64(b)))
		if op.Inv {
			ls = append(ls, "inv ok")
		}
		if op.Reload {
			f2, err := sif.LoadContainer(sif.NewBuffer(b), sif.OptLoadWithCloseOnUnload(false))
			if err != nil {
				ls = append(ls, "rl err")
			} else {
				ls = append(ls, "rl ok")
				ls = append(ls, viewLines("rl-", f2)...)
			}
		}
		return ls
	case "q":
		if e.f == nil {
			return []string{"noimg"}
		}
		var fns []sif.DescriptorSelectorFunc
		for _, s := range op.Sels {
			fns = append(fns, s.buildOn(e.f))
		}
		if op.One {
			d, err := e.f.GetDescriptor(fns...)
			if err != nil {
				return []string{"q " + errClass(err)}
			}
			return []string{fmt.Sprintf("q ok ids=%d", d.ID())}
		}
		ds, err := e.f.GetDescriptors(fns...)
		if err != nil {
			return []string{"q " + errClass(err)}
		}
		var ids []string
		for _, d := range ds {
			ids = append(ids, fmt.Sprint(d.ID()))
		}
		return []string{"q ok ids=" + strings.Join(ids, ",")}
	case "dumpfile":
		return []string{"dumped"}
	case "keys":
		return []string{"keys ok"}
	case "facts":
		op.Raw = e.factLines()
		return []string{"facts ok"}
	case "verify":
		if e.f == nil {
			return []string{"noimg"}
		}
		ls, _, _ := e.doVerify(op.V)
		return ls
	case "signedby":
		if e.f == nil {
			return []string{"noimg"}
		}
		return e.doSignedBy(op.V, op.Any)
	case "vhold":
		// one Verifier value kept across later operations on the same handle
		if e.f == nil {
			return []string{"noimg"}
		}
		e.heldVer, e.heldRes = nil, nil
		opts := append(op.V.build(), integrity.OptVerifyCallback(func(r integrity.VerifyResult) bool {
			e.heldRes = append(e.heldRes, r)
			return false
		}))
		ver, err := integrity.NewVerifier(e.f, opts...)
		if err != nil {
			return []string{"vh newerr:" + ierrClass(err)}
		}
		e.heldVer = ver
		return []string{"vh ok"}
	case "vheld":
		if e.f == nil || e.heldVer == nil {
			return []string{"vh none"}
		}
		if op.N == 0 {
			e.heldRes = nil
			verr := e.heldVer.Verify()
			return verifyLines(e.heldRes, verr)
		}
		var fps [][]byte
		var err error
		if op.N == 1 {
			fps, err = e.heldVer.AnySignedBy()
		} else {
			fps, err = e.heldVer.AllSignedBy()
		}
		if err != nil {
			return []string{"fp err:" + ierrClass(err)}
		}
		var p []string
		for _, f := range fps {
			p = append(p, hx(f))
		}
		return []string{"fp ok " + strings.Join(p, ",")}
	case "poke":
		// another writer changes bytes of the backing store; the handle is not told
		if e.f == nil || e.backend != "buf" || e.buf == nil {
			return []string{"noimg"}
		}
		n := int64(len(e.buf.Bytes()))
		for _, p := range op.Sites {
			if p.Off >= 0 && p.Off+int64(len(p.B)) <= n {
				if _, err := e.buf.Seek(p.Off, io.SeekStart); err == nil {
					_, _ = e.buf.Write(p.B)
				}
			}
		}
		return []string{"poked"}
	case "sign":
		if e.f == nil {
			return []string{"noimg"}
		}
		e.signing = true
		ls, blobs, nows, now, fp, _ := e.doSignT(op.S)
		e.signing = false
		op.Blobs, op.Nows, op.Now, op.FP = blobs, nows, now, fp
		return ls
	case "resign":
		if e.f == nil {
			return []string{"noimg"}
		}
		before := map[uint32]bool{}
		for _, id := range inspect(e.f).ids {
			before[id] = true
		}
		ls, blobs, _, _, serr := e.doSign(op.S)
		if serr != nil || len(blobs) != 1 {
			return append(ls, "resign-skip")
		}
		var nid uint32
		for _, id := range inspect(e.f).ids {
			if !before[id] {
				nid = id
			}
		}
		op.Blobs, op.ID = blobs, nid
		if err := e.f.DeleteObject(nid, sif.OptDeleteDeterministic(), sif.OptDeleteCompact(true)); err != nil {
			return []string{"resign-del-failed"}
		}
		di := sigObjectDI(blobs[0], op.S.Groups[0], 0, 1, op.FP, 0)
		inp, err := di.build()
		if err != nil {
			return []string{"resign-build-failed"}
		}
		if err := e.f.AddObject(inp, sif.OptAddDeterministic()); err != nil {
			return []string{"res " + errClass(err), "spec ok"}
		}
		return []string{"res ok", "spec ok"}
	case "patch":
		if e.f == nil {
			return []string{"noimg"}
		}
		b := e.storeBytes()
		for _, p := range op.Sites {
			if p.Off >= 0 && int(p.Off)+len(p.B) <= len(b) {
				copy(b[p.Off:], p.B)
			}
		}
		e.Close()
		e.backend = "buf"
		e.buf = sif.NewBuffer(b)
		rw, rerr := e.rw() // keeps the C09 recorder in place
		if rerr != nil {
			return []string{"res err:other"}
		}
		f, err := sif.LoadContainer(rw)
		if err != nil {
			e.f = nil
			return []string{"res " + errClass(err)}
		}
		e.f = f
		return []string{"res ok"}
	case "mkimg":
		// the Lean encoder writes the file now, so that the library can load it next
		e.fileSeq++
		op.Path = foreignPath(e.dir, e.fileSeq)
		e.lastForeign = op.Path
		out, err := runDriver(op.Img.lines(op.Path))
		if err != nil || len(out) != 1 || out[0] != "made" {
			return []string{"mkimg-failed"}
		}
		return []string{"made"}
	}
	// mutators
	if e.f == nil {
		if op.Kind == "add" {
			if _, err := op.DI.build(); err != nil {
				return []string{"res " + errClass(err)}
			}
		}
		return []string{"noimg"}
	}
	var err error
	switch op.Kind {
	case "add":
		var src io.Reader
		if op.DI.Src != 0 {
			// in-image copy: the library reads the source object through the very handle (and
			// backing store) it is writing to; the model sees the bytes that object holds now
			op.DI.Fail = -1
			if d, derr := e.f.GetDescriptor(sif.WithID(op.DI.Src)); derr == nil {
				if b, gerr := d.GetData(); gerr == nil {
					op.DI.Data = DataSpec{Lit: b}
					src = d.GetReader()
					if e.stats != nil {
						e.stats["add:in-image-copy"]++
					}
				}
			}
		}
		di, derr := op.DI.buildWith(src)
		if derr != nil {
			return []string{"res " + errClass(derr)}
		}
		err = e.f.AddObject(di, op.T.addOpt()...)
	case "del":
		opts := op.T.delOpt()
		opts = append(opts, sif.OptDeleteZero(op.Zero), sif.OptDeleteCompact(op.Compact))
		err = e.f.DeleteObjects(op.Sel.buildOn(e.f), opts...)
	case "setprim":
		err = e.f.SetPrimPart(op.ID, op.T.setOpt()...)
	case "setmeta":
		if op.MD.Kind == "nil" {
			err = e.f.SetMetadata(op.ID, nil, op.T.setOpt()...)
		} else {
			err = e.f.SetMetadata(op.ID, op.MD.marshaler(), op.T.setOpt()...)
		}
	case "setoci":
		parts := strings.SplitN(string(op.Text), ":", 2)
		h := v1.Hash{Algorithm: parts[0]}
		if len(parts) > 1 {
			h.Hex = parts[1]
		}
		err = e.f.SetOCIBlobDigest(op.ID, h, op.T.setOpt()...)
	default:
		panic("bad op " + op.Kind)
	}
	if err == nil {
		op.Now = e.f.ModifiedAt().Unix()
	}
	// "spec ok": the Lean driver checks on its side that the model's step is the abstract reference
	// model's step (Model/Spec.lean) and prints the same constant when it is
	return []string{"res " + errClass(err), "spec ok"}
}

func readAll(r io.Reader) []byte {
	b, _ := io.ReadAll(r)
	return b
}

func trimNulHex(b []byte) string {
	n := len(b)
	for n > 0 && b[n-1] == 0 {
		n--
	}
	return hx(b[:n])
}

// viewLines renders everything the public accessors return for f.
func viewLines(pfx string, f *sif.FileImage) []string {
	var id []byte
	if u, err := uuid.Parse(f.ID()); err == nil {
		id = u[:]
	}
	ls := []string{fmt.Sprintf("%shdr launch=%s ver=%s arch=%s id=%s ct=%d mt=%d free=%d total=%d doff=%d dsize=%d dataoff=%d datasize=%d hs=%d",
		pfx, hx([]byte(f.LaunchScript())), hx([]byte(f.Version())), f.PrimaryArch(), hx(id),
		f.CreatedAt().Unix(), f.ModifiedAt().Unix(), f.DescriptorsFree(), f.DescriptorsTotal(),
		f.DescriptorsOffset(), f.DescriptorsSize(), f.DataOffset(), f.DataSize(),
		fnv64(readAll(f.GetHeaderIntegrityReader())))}
	f.WithDescriptors(func(d sif.Descriptor) bool {
		ls = append(ls, objLine(pfx, d))
		return false
	})
	return ls
}

func objLine(pfx string, d sif.Descriptor) string {
	var rc rawCapture
	_ = d.GetMetadata(&rc)
	stream := readAll(d.GetIntegrityReader())
	rel := uint32(0)
	if len(stream) >= 9 {
		rel = binary.LittleEndian.Uint32(stream[5:9])
	}
	link, isGroup := d.LinkedID()
	lk := "o"
	if isGroup {
		lk = "g"
	}
	data := "short"
	if b, err := d.GetData(); err == nil {
		data = fmt.Sprintf("%d:%d", len(b), fnv64(b))
	}
	return fmt.Sprintf("%sobj id=%d dt=%d grp=%d link=%d/%s off=%d size=%d ct=%d mt=%d name=%s extra=%s rel=%d is=%d data=%s",
		pfx, d.ID(), int32(d.DataType()), d.GroupID(), link, lk, d.Offset(), d.Size(),
		d.CreatedAt().Unix(), d.ModifiedAt().Unix(), hx([]byte(d.Name())), trimNulHex(rc.b),
		rel, fnv64(stream), data)
}

// applySt executes one raw call on the bare backing store and renders its result together with
// the store's position (read with Seek(0, io.SeekCurrent)), length and contents.
func (e *Env) applySt(s *StOp) []string {
	if s.Call == "new" {
		if e.stFile != nil {
			e.stFile.Close()
			e.stFile = nil
		}
		init := s.Data.Bytes()
		if s.Be == "file" {
			e.fileSeq++
			p := filepath.Join(e.dir, fmt.Sprintf("store%d.bin", e.fileSeq))
			if err := os.WriteFile(p, init, 0o644); err != nil {
				return []string{"st new err"}
			}
			fp, err := os.OpenFile(p, os.O_RDWR, 0o644)
			if err != nil {
				return []string{"st new err"}
			}
			e.stFile, e.st = fp, fp
		} else {
			e.st = sif.NewBuffer(append([]byte(nil), init...))
		}
		return []string{"st new " + e.stState()}
	}
	if e.st == nil {
		return []string{"nostore"}
	}
	r := ""
	switch s.Call {
	case "seek":
		n, err := e.st.Seek(s.Off, io.SeekStart)
		r = fmt.Sprintf("seek r=%d/%s", n, okErr(err))
	case "seekend":
		n, err := e.st.Seek(0, io.SeekEnd)
		r = fmt.Sprintf("seek r=%d/%s", n, okErr(err))
	case "write":
		n, err := e.st.Write(s.Data.Bytes())
		r = fmt.Sprintf("write r=%d/%s", n, okErr(err))
	case "trunc":
		r = "trunc r=" + okErr(e.st.Truncate(s.N))
	case "read":
		p := make([]byte, s.N)
		n, err := e.st.ReadAt(p, s.Off)
		cls := okErr(err)
		if err == io.EOF {
			cls = "eof"
		}
		r = fmt.Sprintf("read r=%d:%d/%s", n, fnv64(p[:n]), cls)
	}
	return []string{"st " + r + " " + e.stState()}
}

func okErr(err error) string {
	if err == nil {
		return "ok"
	}
	return "err"
}

func (e *Env) stState() string {
	pos, err := e.st.Seek(0, io.SeekCurrent)
	if err != nil {
		pos = -1
	}
	var b []byte
	if e.stFile != nil {
		b, _ = os.ReadFile(e.stFile.Name())
	} else if bb, ok := e.st.(*sif.Buffer); ok {
		b = bb.Bytes()
	}
	return fmt.Sprintf("pos=%d len=%d fnv=%d", pos, len(b), fnv64(b))
}

// applyForge replaces the signatures of group op.S.Groups[0] by ONE envelope assembled from two
// of them: the first signature's signed payload and signature list, plus — under a member name
// that differs only in letter case — the payload of the last one (made over the image as it is
// now, by a key nobody trusts).  A DSSE verifier and a metadata reader that disagree on which of
// the two members is "the" payload would verify one document and interpret the other.
func (e *Env) applyForge(op *Op) []string {
	if e.f == nil || len(op.S.Groups) == 0 {
		op.Raw = []string{"nop"}
		return []string{"nop"}
	}
	gid := op.S.Groups[0]
	type sigObj struct {
		id   uint32
		blob []byte
	}
	var sigs []sigObj
	e.f.WithDescriptors(func(d sif.Descriptor) bool {
		if l, isG := d.LinkedID(); d.DataType() == sif.DataSignature && isG && l == gid {
			b, _ := d.GetData()
			sigs = append(sigs, sigObj{d.ID(), b})
		}
		return false
	})
	skip := func() []string {
		op.Raw = []string{"nop"}
		return []string{"nop"}
	}
	if len(sigs) < 2 {
		return skip()
	}
	if bytes.HasPrefix(sigs[0].blob, []byte("-----BEGIN PGP SIGNED MESSAGE-----")) && bytes.HasPrefix(sigs[len(sigs)-1].blob, []byte("-----BEGIN PGP SIGNED MESSAGE-----")) {
		// clear-signed: one signature object holding two armored blocks — the outsider's block over
		// the image as it is now and the trusted key's genuine block — in either order, under the
		// descriptor (fingerprint) of the trusted signature
		var fp []byte
		e.f.WithDescriptors(func(d sif.Descriptor) bool {
			if d.ID() == sigs[0].id {
				_, fp, _ = d.SignatureMetadata()
			}
			return false
		})
		a, b := sigs[len(sigs)-1].blob, sigs[0].blob
		if op.ID%2 == 1 {
			a, b = b, a
		}
		crafted := append(append(append([]byte(nil), a...), '\n'), b...)
		var subs []*Op
		for _, s := range sigs {
			subs = append(subs, &Op{Kind: "del", Sel: Sel{Kind: "id", N: int64(s.id)}, T: TOpt{Kind: "det"}})
		}
		subs = append(subs, &Op{Kind: "add", T: TOpt{Kind: "det"}, DI: sigObjectDI(crafted, gid, 0, 1, fp, 0)})
		var obs []string
		op.Raw = nil
		for _, so := range subs {
			obs = append(obs, e.applyCore(so)...)
			op.Raw = append(op.Raw, so.Lines()...)
		}
		return obs
	}
	var good, evil map[string]json.RawMessage
	if json.Unmarshal(sigs[0].blob, &good) != nil || json.Unmarshal(sigs[len(sigs)-1].blob, &evil) != nil ||
		good["payload"] == nil || evil["payload"] == nil || good["signatures"] == nil {
		return skip()
	}
	var crafted []byte
	switch op.ID % 3 {
	case 0: // lower-case member first, the signed one under another capitalisation last
		crafted = []byte(fmt.Sprintf(`{"payload":%s,"payloadType":%s,"signatures":%s,"Payload":%s}`, evil["payload"], good["payloadType"], good["signatures"], good["payload"]))
	case 1: // the other order
		crafted = []byte(fmt.Sprintf(`{"PAYLOAD":%s,"payloadType":%s,"signatures":%s,"payload":%s}`, good["payload"], good["payloadType"], good["signatures"], evil["payload"]))
	default: // the same member twice
		crafted = []byte(fmt.Sprintf(`{"payload":%s,"payload":%s,"payloadType":%s,"signatures":%s}`, evil["payload"], good["payload"], good["payloadType"], good["signatures"]))
	}
	var subs []*Op
	for _, s := range sigs {
		subs = append(subs, &Op{Kind: "del", Sel: Sel{Kind: "id", N: int64(s.id)}, T: TOpt{Kind: "det"}})
	}
	subs = append(subs, &Op{Kind: "add", T: TOpt{Kind: "det"}, DI: sigObjectDI(crafted, gid, 0, 1, nil, 0)})
	var obs []string
	op.Raw = nil
	for _, so := range subs {
		obs = append(obs, e.applyCore(so)...)
		op.Raw = append(op.Raw, so.Lines()...)
	}
	return obs
}

// applyTransplant adds a second signature object to group op.S.Groups[0]: the armored OpenPGP
// signature packet of the group's first clear-signed signature, attached to a plaintext that
// differs from the signed one (a space after the opening brace: the same JSON document, other
// bytes).  No key validates it.
func (e *Env) applyTransplant(op *Op) []string {
	skip := func() []string {
		op.Raw = []string{"nop"}
		return []string{"nop"}
	}
	if e.f == nil || len(op.S.Groups) == 0 {
		return skip()
	}
	gid := op.S.Groups[0]
	var blob []byte
	e.f.WithDescriptors(func(d sif.Descriptor) bool {
		if l, isG := d.LinkedID(); d.DataType() == sif.DataSignature && isG && l == gid && blob == nil {
			if b, err := d.GetData(); err == nil && bytes.HasPrefix(b, []byte("-----BEGIN PGP SIGNED MESSAGE-----")) {
				blob = b
			}
		}
		return false
	})
	if blob == nil {
		return skip()
	}
	i := bytes.Index(blob, []byte("{"))
	if i < 0 {
		return skip()
	}
	crafted := append(append(append([]byte(nil), blob[:i+1]...), ' '), blob[i+1:]...)
	so := &Op{Kind: "add", T: TOpt{Kind: "det"}, DI: sigObjectDI(crafted, gid, 0, 1, op.FP, 0)}
	obs := e.applyCore(so)
	op.Raw = so.Lines()
	return obs
}

// applyReadd: the bytes of object op.ID are fetched with GetData and kept (not copied), the object is
// deleted with the given zero/compact options, and the kept bytes are added as a new object.  What
// GetData returned is the caller's: it is what gets stored, whatever the delete did to the image.
func (e *Env) applyReadd(op *Op) []string {
	skip := func() []string {
		op.Raw = []string{"nop"}
		return []string{"nop"}
	}
	if e.f == nil {
		return skip()
	}
	d, err := e.f.GetDescriptor(sif.WithID(op.ID))
	if err != nil {
		return skip()
	}
	kept, err := d.GetData()
	if err != nil {
		return skip()
	}
	orig := append([]byte(nil), kept...)
	del := &Op{Kind: "del", Sel: Sel{Kind: "id", N: int64(op.ID)}, Zero: op.Zero, Compact: op.Compact, T: op.T}
	obs := e.applyCore(del)
	lines := del.Lines()
	if len(obs) > 0 && obs[0] == "res ok" {
		di, derr := sif.NewDescriptorInput(sif.DataGeneric, bytes.NewReader(kept), sif.OptObjectName("kept"))
		if derr != nil {
			return skip()
		}
		before := map[uint32]bool{}
		e.f.WithDescriptors(func(x sif.Descriptor) bool { before[x.ID()] = true; return false })
		aerr := e.f.AddObject(di, op.T.addOpt()...)
		add := &Op{Kind: "add", T: op.T, DI: DI{DT: 0x4007, Fail: -1, Data: DataSpec{Lit: orig}, Opts: []DIOpt{{Kind: "name", B: []byte("kept")}}}}
		if aerr == nil {
			add.Now = e.f.ModifiedAt().Unix()
		}
		obs = append(obs, "res "+errClass(aerr), "spec ok")
		lines = append(lines, add.Lines()...)
		if aerr == nil {
			// the object just added holds the bytes GetData had returned
			var last sif.Descriptor
			e.f.WithDescriptors(func(x sif.Descriptor) bool {
				if !before[x.ID()] {
					last = x
				}
				return false
			})
			if got, gerr := last.GetData(); gerr != nil || !bytes.Equal(got, orig) {
				e.pending = append(e.pending, &Violation{Prop: "C14", Key: "C14:returned-data-changed", What: fmt.Sprintf("bytes returned by GetData for object %d (%d bytes) were kept across a delete (zero=%v compact=%v) and added as a new object: the new object holds other bytes (on the %s backend)", op.ID, len(orig), op.Zero, op.Compact, e.backend)})
			}
		}
	}
	op.Raw = lines
	return obs
}

// applyMangle: the last DSSE signature object of group S.Groups[0] is replaced by the same envelope
// with one more entry in its "signatures" list that is not a signature at all (op.N picks the kind:
// text that is not base64, bytes that are no signature, an empty entry).
func (e *Env) applyMangle(op *Op) []string {
	skip := func() []string {
		op.Raw = []string{"nop"}
		return []string{"nop"}
	}
	if e.f == nil || len(op.S.Groups) == 0 {
		return skip()
	}
	gid := op.S.Groups[0]
	var blob []byte
	var sid uint32
	e.f.WithDescriptors(func(d sif.Descriptor) bool {
		if l, isG := d.LinkedID(); d.DataType() == sif.DataSignature && isG && l == gid {
			if b, err := d.GetData(); err == nil && bytes.HasPrefix(bytes.TrimSpace(b), []byte("{")) {
				blob, sid = b, d.ID()
			}
		}
		return false
	})
	var env map[string]any
	if blob == nil || json.Unmarshal(blob, &env) != nil {
		return skip()
	}
	sigs, _ := env["signatures"].([]any)
	switch {
	case op.N == 3 && len(op.S.DSSE) > 0:
		// an extra entry whose hint names another key (one the verifier may well be given) over bytes
		// that key never produced
		kid := ""
		var other map[string]any
		if ob := foreignPayloadBlob(op.S.DSSE[0], "text/plain", []byte("x")); ob != nil && json.Unmarshal(ob, &other) == nil {
			if ss, _ := other["signatures"].([]any); len(ss) > 0 {
				if m, _ := ss[0].(map[string]any); m != nil {
					kid, _ = m["keyid"].(string)
				}
			}
		}
		if kid == "" {
			return skip()
		}
		env["signatures"] = append(sigs, map[string]any{"keyid": kid, "sig": "QUJDREVGR0hJSktMTU5PUFFSU1RVVldYWVo="})
	case op.N == 4:
		// the genuine entry without its hint (DSSE allows an empty keyid)
		if len(sigs) == 0 {
			return skip()
		}
		if m, _ := sigs[0].(map[string]any); m != nil {
			m["keyid"] = ""
		}
		env["signatures"] = sigs
	default:
		extra := []map[string]any{{"keyid": "", "sig": "!!! not base64 !!!"}, {"keyid": "x", "sig": "AAAA"}, {"keyid": "", "sig": ""}}[int(op.N)%3]
		env["signatures"] = append(sigs, extra)
	}
	nb, err := json.Marshal(env)
	if err != nil {
		return skip()
	}
	del := &Op{Kind: "del", Sel: Sel{Kind: "id", N: int64(sid)}, T: TOpt{Kind: "det"}}
	obs := e.applyCore(del)
	add := &Op{Kind: "add", T: TOpt{Kind: "det"}, DI: sigObjectDI(nb, gid, 0, 1, nil, 0)}
	obs = append(obs, e.applyCore(add)...)
	op.Raw = append(del.Lines(), add.Lines()...)
	op.ID = sid
	return obs
}

// applyRewrap: the DSSE signature of group S.Groups[0] is replaced by an envelope over the very
// same (genuine) payload, signed by the same key S.DSSE[0], whose payloadType is op.Text — a type
// that is *not* the SIF metadata type (however close it looks).
func (e *Env) applyRewrap(op *Op) []string {
	skip := func() []string {
		op.Raw = []string{"nop"}
		return []string{"nop"}
	}
	if e.f == nil || len(op.S.Groups) == 0 || len(op.S.DSSE) == 0 {
		return skip()
	}
	gid := op.S.Groups[0]
	var blob []byte
	var sid uint32
	e.f.WithDescriptors(func(d sif.Descriptor) bool {
		if l, isG := d.LinkedID(); d.DataType() == sif.DataSignature && isG && l == gid && blob == nil {
			if b, err := d.GetData(); err == nil && bytes.HasPrefix(bytes.TrimSpace(b), []byte("{")) {
				blob, sid = b, d.ID()
			}
		}
		return false
	})
	payload := oraclePayload(blob)
	if blob == nil || payload == nil {
		return skip()
	}
	nb := foreignPayloadBlob(op.S.DSSE[0], string(op.Text), payload)
	if nb == nil {
		return skip()
	}
	del := &Op{Kind: "del", Sel: Sel{Kind: "id", N: int64(sid)}, T: TOpt{Kind: "det"}}
	obs := e.applyCore(del)
	add := &Op{Kind: "add", T: TOpt{Kind: "det"}, DI: sigObjectDI(nb, gid, 0, 1, nil, 0)}
	obs = append(obs, e.applyCore(add)...)
	op.Raw = append(del.Lines(), add.Lines()...)
	return obs
}

// dirtyCap returns a copy of b whose spare capacity (64 KiB beyond len) holds non-zero bytes: a
// recycled slice, as a caller of NewBuffer may well pass.  Whatever the Buffer exposes beyond its
// length must come from what was written, never from there.
func dirtyCap(b []byte) []byte {
	out := make([]byte, len(b), len(b)+64<<10)
	copy(out, b)
	spare := out[len(b):cap(out)]
	for i := range spare {
		spare[i] = 0xAA
	}
	return out
}

// slowSmallReads: a backing store on which short reads are slow while the image is being signed
// (a store with per-request latency: small objects cost as much as a chunk of a big one).  Used
// by the second run of C12's histories that hold an object of a megabyte or more, so that the two
// runs differ in the relative timing of reading small and large objects, not only in clock and backend.
type slowSmallReads struct {
	sif.ReadWriter
	on *bool
}

func (s slowSmallReads) ReadAt(p []byte, off int64) (int, error) {
	if *s.on && len(p) < 4096 {
		time.Sleep(2 * time.Millisecond)
	}
	return s.ReadWriter.ReadAt(p, off)
}
