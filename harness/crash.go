package main

// C09: interrupted modifications.
//
// A controllable interposer around the backing store records every mutating call (Seek, Write,
// Truncate) an operation issues.  From the recording the harness (a) emits the operation's I/O
// trace in the canonical `io` lines the Lean model's plan must reproduce, (b) builds every crash
// image — the pre-state with a prefix of the calls applied, the last write possibly torn — and
// checks each with the real loader, and (c) re-runs the operation from the same pre-state with an
// injected failure (error, or short write + error) at each call and checks the error reaches the
// caller and the bytes left behind are one of those crash images' kind.

import (
	"bytes"
	"errors"
	"fmt"
	"io"
	"os"
	"path/filepath"
	"sort"
	"strings"

	"github.com/sylabs/sif/v2/pkg/sif"
)

type ioEv struct {
	Kind   string // seek write trunc
	Off    int64
	Whence int
	P      []byte
}

// crashMode: the C09 campaign is running (set from the property id in main)
var crashMode bool

var errInjected = errors.New("injected I/O failure")

type ctlRW struct {
	inner  sif.ReadWriter
	rec    bool
	evs    []ioEv
	n      int
	failAt int // 1-based index of the mutating call that fails (0 = none)
	short  bool
	fired  bool
	failKind string // the kind of the call that was failed
}

func (c *ctlRW) ReadAt(p []byte, off int64) (int, error) { return c.inner.ReadAt(p, off) }

func (c *ctlRW) hit() bool {
	c.n++
	if c.failAt != 0 && c.n == c.failAt {
		c.fired = true
		return true
	}
	return false
}

func (c *ctlRW) Seek(off int64, whence int) (int64, error) {
	if c.hit() {
		c.failKind = "seek"
		return 0, errInjected
	}
	if c.rec {
		c.evs = append(c.evs, ioEv{Kind: "seek", Off: off, Whence: whence})
	}
	return c.inner.Seek(off, whence)
}

func (c *ctlRW) Write(p []byte) (int, error) {
	if c.hit() {
		c.failKind = "write"
		if c.short && len(p) >= 2 {
			k := len(p) / 2
			if c.rec {
				c.evs = append(c.evs, ioEv{Kind: "write", P: append([]byte(nil), p[:k]...)})
			}
			n, _ := c.inner.Write(p[:k])
			return n, errInjected
		}
		return 0, errInjected
	}
	if c.rec {
		c.evs = append(c.evs, ioEv{Kind: "write", P: append([]byte(nil), p...)})
	}
	return c.inner.Write(p)
}

func (c *ctlRW) Truncate(n int64) error {
	if c.hit() {
		c.failKind = "trunc"
		return errInjected
	}
	if c.rec {
		c.evs = append(c.evs, ioEv{Kind: "trunc", Off: n})
	}
	return c.inner.Truncate(n)
}

func (c *ctlRW) Close() error {
	if cl, ok := c.inner.(io.Closer); ok {
		return cl.Close()
	}
	return nil
}

func (c *ctlRW) arm(failAt int, short bool) {
	c.rec, c.evs, c.n, c.failAt, c.short, c.fired = true, nil, 0, failAt, short, false
}

func (c *ctlRW) disarm() []ioEv {
	evs := c.evs
	c.rec, c.evs, c.failAt = false, nil, 0
	return evs
}

// mergeWrites joins consecutive writes (io.Copy chunks its source) and drops empty ones.
func mergeWrites(evs []ioEv) []ioEv {
	var out []ioEv
	for _, e := range evs {
		if e.Kind == "write" {
			if len(e.P) == 0 {
				continue
			}
			if n := len(out); n > 0 && out[n-1].Kind == "write" {
				out[n-1].P = append(append([]byte(nil), out[n-1].P...), e.P...)
				continue
			}
		}
		out = append(out, e)
	}
	return out
}

func ioLines(evs []ioEv) []string {
	var ls []string
	for _, e := range mergeWrites(evs) {
		switch e.Kind {
		case "seek":
			switch e.Whence {
			case io.SeekStart:
				ls = append(ls, fmt.Sprintf("io seek %d", e.Off))
			case io.SeekEnd:
				if e.Off == 0 {
					ls = append(ls, "io seekend")
				} else {
					ls = append(ls, fmt.Sprintf("io seekend+%d", e.Off))
				}
			default:
				ls = append(ls, fmt.Sprintf("io seekcur %d", e.Off))
			}
		case "write":
			ls = append(ls, fmt.Sprintf("io write %d %d", len(e.P), fnv64(e.P)))
		case "trunc":
			ls = append(ls, fmt.Sprintf("io trunc %d", e.Off))
		}
	}
	return ls
}

// simStore replays events on a byte image with the semantics of the backing stores.
type simStore struct {
	buf []byte
	pos int64
}

func (s *simStore) apply(e ioEv) {
	switch e.Kind {
	case "seek":
		switch e.Whence {
		case io.SeekStart:
			s.pos = e.Off
		case io.SeekCurrent:
			s.pos += e.Off
		case io.SeekEnd:
			s.pos = int64(len(s.buf)) + e.Off
		}
	case "write":
		if len(e.P) == 0 {
			return
		}
		if need := s.pos + int64(len(e.P)); need > int64(len(s.buf)) {
			s.buf = append(s.buf, make([]byte, need-int64(len(s.buf)))...)
		}
		copy(s.buf[s.pos:], e.P)
		s.pos += int64(len(e.P))
	case "trunc":
		if e.Off <= int64(len(s.buf)) {
			s.buf = s.buf[:e.Off]
		} else {
			s.buf = append(s.buf, make([]byte, e.Off-int64(len(s.buf)))...)
		}
	}
}

// tearPoints: byte counts at which a write of p over the existing bytes is torn.
func tearPoints(p, existing []byte) []int {
	L := len(p)
	set := map[int]bool{1: true, L / 2: true, L - 1: true}
	fd := -1
	for i := range p {
		if i >= len(existing) || existing[i] != p[i] {
			fd = i
			break
		}
	}
	if fd >= 0 {
		for _, k := range []int{1, 2, 5, 9, 21, 29, 37, 585, 586} {
			set[fd+k] = true
		}
		// every descriptor-sized boundary after the first difference, a few of them
		for m := 1; m <= 3; m++ {
			set[(fd/585+m)*585] = true
			set[(fd/585+m)*585+5] = true
		}
	}
	// the boundaries of every run of bytes the write changes (a table write that changes fields of
	// several slots: between any two of them the file holds one change without the other)
	runs := 0
	for i := 0; i < L && runs < 24; i++ {
		differs := func(k int) bool { return k >= len(existing) || existing[k] != p[k] }
		if differs(i) && (i == 0 || !differs(i-1)) {
			set[i] = true
			runs++
		}
		if !differs(i) && i > 0 && differs(i-1) {
			set[i] = true
		}
	}
	var out []int
	for j := range set {
		if j >= 1 && j <= L-1 {
			out = append(out, j)
		}
	}
	sort.Ints(out)
	return out
}

type crashImage struct {
	k, j int   // k whole calls applied, then j bytes of call k (a write); j = 0: none
	pos  int64 // where that write starts
	buf  []byte
	real bool // j > 0, yet the cut falls between two Write calls the library really issued (one logical write sent in pieces)
}

func crashImages(b0 []byte, raw []ioEv) []crashImage {
	evs := mergeWrites(raw)
	// where, inside each merged write, the library's own Write calls ended (a table or an object
	// sent in several pieces): those cuts fall *between calls*
	pieces := make([][]int, len(evs))
	{
		k := -1
		lastWrite := false
		for _, e := range raw {
			if e.Kind == "write" && len(e.P) == 0 {
				continue
			}
			if e.Kind == "write" && lastWrite {
				acc := 0
				if n := len(pieces[k]); n > 0 {
					acc = pieces[k][n-1]
				}
				pieces[k] = append(pieces[k], acc+len(e.P))
				continue
			}
			k++
			lastWrite = e.Kind == "write"
			if lastWrite && k < len(pieces) {
				pieces[k] = []int{len(e.P)}
			}
		}
	}
	var out []crashImage
	s := &simStore{buf: append([]byte(nil), b0...)}
	for k := 0; k <= len(evs); k++ {
		out = append(out, crashImage{k: k, pos: s.pos, buf: append([]byte(nil), s.buf...)})
		if k == len(evs) {
			break
		}
		e := evs[k]
		if e.Kind == "write" && len(e.P) >= 2 {
			var existing []byte
			if s.pos < int64(len(s.buf)) {
				existing = s.buf[s.pos:]
			}
			realCut := map[int]bool{}
			pts := tearPoints(e.P, existing)
			if k < len(pieces) && len(pieces[k]) > 1 && len(pieces[k]) <= 64 {
				for _, j := range pieces[k][:len(pieces[k])-1] {
					if j >= 1 && j <= len(e.P)-1 {
						realCut[j] = true
						pts = append(pts, j)
					}
				}
			}
			done := map[int]bool{}
			for _, j := range pts {
				if done[j] {
					continue
				}
				done[j] = true
				t := &simStore{buf: append([]byte(nil), s.buf...), pos: s.pos}
				t.apply(ioEv{Kind: "write", P: e.P[:j]})
				out = append(out, crashImage{k: k, j: j, pos: s.pos, buf: t.buf, real: realCut[j]})
			}
		}
		s.apply(e)
	}
	return out
}

// coreLine: an object's line without the group-relative fields (they legitimately change when
// another object of the group is deleted) and, optionally, without times.
func coreLine(l string, dropTimes bool) string {
	var fs []string
	for _, f := range strings.Fields(l) {
		if strings.HasPrefix(f, "rel=") || strings.HasPrefix(f, "is=") {
			continue
		}
		if dropTimes && (strings.HasPrefix(f, "ct=") || strings.HasPrefix(f, "mt=")) {
			continue
		}
		fs = append(fs, f)
	}
	return strings.Join(fs, " ")
}

func objMap(f *sif.FileImage) map[uint32]string {
	m := map[uint32]string{}
	f.WithDescriptors(func(d sif.Descriptor) bool {
		m[d.ID()] = coreLine(objLine("", d), false)
		return false
	})
	return m
}

// crashCheck decides one image left behind by an interrupted operation.
func crashCheck(img []byte, pre, post map[uint32]string, dropTimes, betweenCalls bool, skip map[uint32]bool) string {
	f, err := sif.LoadContainer(sif.NewBuffer(append([]byte(nil), img...)), sif.OptLoadWithFlag(os.O_RDONLY))
	if err != nil {
		return "the file no longer loads: " + err.Error()
	}
	defer f.UnloadContainer()
	got := objMap(f)
	// all objects of the crash image, as a multiset: a torn write inside the slot being filled can
	// show a half-written descriptor (the operation's own target) whose ID collides with a bystander
	have := map[string]int{}
	f.WithDescriptors(func(d sif.Descriptor) bool {
		have[coreLine(objLine("", d), false)]++
		return false
	})
	for id, l := range pre {
		if pl, ok := post[id]; ok && pl == l && !skip[id] {
			if strings.Contains(l, " data=short") {
				// the object's data already reached past the end of the file before this operation (the
				// target of an earlier, interrupted compacting delete that is still in the table after a
				// reload): it has no stored bytes to preserve — the placement hypothesis of the C09
				// theorems (Placed.inFile) does not hold of it — and what a read of that range returns
				// changes as soon as anything else is stored there
				continue
			}
			// not being changed by the operation
			if have[l] == 0 {
				if g, ok := got[id]; ok {
					return fmt.Sprintf("object %d, which the operation does not change, differs: before %q now %q", id, l, g)
				}
				return fmt.Sprintf("object %d, which the operation does not change, is missing", id)
			}
		}
	}
	// "when the interruption falls between write calls an object being added is either absent or
	// completely present" - a torn write inside the new descriptor is outside that clause
	for id, l := range post {
		if !betweenCalls {
			break
		}
		if _, ok := pre[id]; !ok {
			if g, ok := got[id]; ok {
				if coreLine(g, dropTimes) != coreLine(l, dropTimes) {
					return fmt.Sprintf("object %d being added is neither absent nor complete: complete %q present %q", id, l, g)
				}
			}
		}
	}
	return ""
}

func isCrashOp(k string) bool {
	switch k {
	case "add", "del", "setprim", "setmeta", "setoci", "sign":
		return true
	}
	return false
}

func opFailed(obs []string) bool {
	for _, l := range obs {
		if strings.HasPrefix(l, "res err") || l == "sg failed" || strings.HasPrefix(l, "sg newerr") {
			return true
		}
	}
	return false
}

// crashOracle runs after op was applied with recording on.  b0/pre: state before; evs: recording.
func (e *Env) crashOracle(op *Op, obs []string, b0 []byte, pre map[uint32]string, evs []ioEv) (out []*Violation) {
	if h, _, err := decodeRaw(b0); err == nil && h.DOff >= h.DataOff {
		// another writer's layout with the descriptor table behind the data section: outside the
		// hypotheses of the C09 theorems (WF.tabRegion) — there a compacting delete truncates the
		// table away before it rewrites it (DESIGN 10.6, observation)
		return nil
	}
	post := objMap(e.f)
	// the operation's own targets are not bystanders even when, by coincidence of the clock, the
	// completed operation left their line unchanged (set-metadata with the default time in the
	// second the object was created): take them out of the comparison
	skip := targetsOf(op, b0)
	failed := opFailed(obs)
	if failed {
		post = pre
	}
	// self-check of the recording: replaying it on the pre-state gives the store's bytes
	s := &simStore{buf: append([]byte(nil), b0...)}
	for _, ev := range evs {
		s.apply(ev)
	}
	if b1 := e.storeBytes(); !failed && !bytes.Equal(s.buf, b1) {
		return []*Violation{{Key: "C09:harness-recording", What: fmt.Sprintf("replaying the recorded calls on the pre-state does not give the store's bytes (%d vs %d bytes)", len(s.buf), len(b1))}}
	}
	imgs := crashImages(b0, evs)
	e.stat("crash:images", len(imgs))
	e.stat("crash:calls", len(mergeWrites(evs)))
	for _, ci := range imgs {
		if ci.j > 0 {
			e.stat("crash:torn-images", 1)
		}
		if why := crashCheck(ci.buf, pre, post, false, ci.j == 0 || ci.real, skip); why != "" {
			if strings.HasPrefix(why, "the file no longer loads") && tornInNegativeLeftover(b0, ci) {
				// D11 (known finding): the slot being filled held, not in use, a leftover descriptor
				// with a negative offset or size, and the table write is torn inside that slot
				if len(out) == 0 {
					out = append(out, &Violation{Key: "C09:torn-slot-negative-leftover", What: fmt.Sprintf("%s interrupted %d bytes into the descriptor-table write, inside a free slot whose leftover bytes hold a negative offset/size: %s", op.Kind, ci.j, why)})
				}
				continue // keep examining the other interruptions of this operation
			}
			return append(out, &Violation{Key: "C09:crash-image", What: fmt.Sprintf("%s interrupted after %d of %d calls (+%d bytes of the next write): %s", op.Kind, ci.k, len(mergeWrites(evs)), ci.j, why)})
		}
	}
	if failed {
		return out
	}
	// fault injection at every mutating call (sampled when there are many)
	n := len(evs)
	var ks []int
	if n <= 14 {
		for k := 1; k <= n; k++ {
			ks = append(ks, k)
		}
	} else {
		for k := 1; k <= 5; k++ {
			ks = append(ks, k, n-k+1)
		}
		ks = append(ks, n/2, n/3)
	}
	for _, k := range ks {
		for _, short := range []bool{false, true} {
			if short && (evs[k-1].Kind != "write" || len(evs[k-1].P) < 2) {
				continue
			}
			if why := e.faultRun(op, b0, pre, post, k, short, evs, skip); why != "" {
				v := "error"
				if short {
					v = "short write + error"
				}
				return append(out, &Violation{Key: "C09:fault", What: fmt.Sprintf("%s with %s injected at mutating call %d of %d (%s): %s", op.Kind, v, k, n, evs[k-1].Kind, why)})
			}
			e.stat("crash:fault-runs", 1)
		}
	}
	return out
}

func (e *Env) stat(k string, n int) {
	if e.stats != nil {
		e.stats[k] += n
	}
}

func (e *Env) faultRun(op *Op, b0 []byte, pre, post map[uint32]string, k int, short bool, evs []ioEv, skip map[uint32]bool) string {
	dir, err := os.MkdirTemp(e.dir, "fault")
	if err != nil {
		return ""
	}
	defer os.RemoveAll(dir)
	p := filepath.Join(dir, "pre.sif")
	if err := os.WriteFile(p, b0, 0o644); err != nil {
		return ""
	}
	e2 := &Env{dir: dir, crashCtl: true}
	defer e2.Close()
	if lo := e2.applyCore(&Op{Kind: "load", Backend: e.backend, Path: p}); len(lo) == 0 || lo[0] != "res ok" {
		return ""
	}
	cp := *op
	e2.ctl.arm(k, short)
	obs := e2.applyCore(&cp)
	got := e2.ctl.disarm()
	if !e2.ctl.fired {
		return "" // the re-run issued fewer calls (clock-dependent content); nothing injected
	}
	if !opFailed(obs) {
		return fmt.Sprintf("the I/O error was swallowed: the operation reported %q", strings.Join(obs, " | "))
	}
	// the calls before the failure are the same calls
	want := evs[:k-1]
	if len(got) < len(want) {
		return fmt.Sprintf("only %d calls before the failure, expected %d", len(got), len(want))
	}
	bf := e2.storeBytes()
	if why := crashCheck(bf, pre, post, true, !short, skip); why != "" {
		return "bytes left behind: " + why
	}
	return ""
}

// tornInNegativeLeftover: the crash image tears the descriptor-table write inside a slot that, in
// the pre-state, is not in use and holds a negative offset or size.
func tornInNegativeLeftover(b0 []byte, ci crashImage) bool {
	h, ds, err := decodeRaw(b0)
	if err != nil || ci.j == 0 || ci.pos != h.DOff {
		return false
	}
	slot := ci.j / 585
	if slot >= len(ds) {
		return false
	}
	d := ds[slot]
	return !d.Used && (d.Off < 0 || d.Size < 0) && ci.j%585 >= 5
}

// targetsOf: the objects an operation addresses by ID (and, for set-primary, the current primary
// partition, which gets demoted); they are not bystanders.
func targetsOf(op *Op, b0 []byte) map[uint32]bool {
	out := map[uint32]bool{}
	switch op.Kind {
	case "setmeta", "setoci", "setprim":
	default:
		return out
	}
	out[op.ID] = true
	if op.Kind == "setprim" {
		if _, ds, err := decodeRaw(b0); err == nil {
			for _, d := range ds {
				if d.Used && d.DT == 0x4004 && len(d.Extra) >= 8 && le32(d.Extra[4:]) == 2 {
					out[d.ID] = true
				}
			}
		}
	}
	return out
}

func le32(b []byte) int32 {
	return int32(uint32(b[0]) | uint32(b[1])<<8 | uint32(b[2])<<16 | uint32(b[3])<<24)
}

// faultPoint names, in the model's terms, where an injected fault fell: m whole calls took effect
// (consecutive writes taken together, zero-length writes not counted), then j bytes of call m.
func faultPoint(done []ioEv, failKind string) (m, j int) {
	merged := mergeWrites(done)
	if n := len(merged); failKind == "write" && n > 0 && merged[n-1].Kind == "write" {
		// the failed Write continues (or is the rest of) the write the recording ends with
		return n - 1, len(merged[n-1].P)
	}
	return len(merged), 0
}

// dryRunCalls: the mutating calls op issues, found by running it on a scratch copy of the image.
func (e *Env) dryRunCalls(op *Op) []ioEv {
	dir, err := os.MkdirTemp(e.dir, "dry")
	if err != nil {
		return nil
	}
	defer os.RemoveAll(dir)
	p := filepath.Join(dir, "pre.sif")
	if err := os.WriteFile(p, e.storeBytes(), 0o644); err != nil {
		return nil
	}
	e2 := &Env{dir: dir, faultCtl: true}
	defer e2.Close()
	if lo := e2.applyCore(&Op{Kind: "load", Backend: e.backend, Path: p}); len(lo) == 0 || lo[0] != "res ok" || e2.ctl == nil {
		return nil
	}
	cp := *op
	e2.ctl.arm(0, false)
	e2.applyCore(&cp)
	return e2.ctl.disarm()
}
