package main

// Generators: structured, mostly-valid inputs from the repository's own types, plus a separate
// malformed stream that feeds the rejection paths.  Every choice derives from the case's RNG.

import (
	"bytes"
	"fmt"
	"sort"

	"github.com/sylabs/sif/v2/pkg/sif"
)

var archNames = []string{"386", "amd64", "arm", "arm64", "ppc64", "ppc64le", "mips", "mipsle", "mips64", "mips64le", "s390x", "riscv64"}

var boundarySizes = []int{0, 1, 2, 3, 511, 512, 513, 4095, 4096, 4097, 32767, 32768, 32769, 65535, 65536, 65537}
var smallSizes = []int{0, 0, 1, 2, 3, 5, 8, 16, 31, 64, 100}
var alignments = []int64{0, 0, 0, 1, 2, 4, 8, 16, 64, 512, 4096, 8192, 65536, 3, 5, 6, 7, 12, 100, 1000, 4097, -1, -4096}
var groupChoices = []uint32{1, 1, 2, 2, 3, 0x0fffffff}

// Profile tunes a campaign's generator.
type Profile struct {
	MaxCap      int  // descriptor capacities drawn from 0..MaxCap (plus the default 48 sometimes)
	MaxOps      int  // history length
	BigData     bool // include boundary sizes up to 64 KiB and an occasional ~200 KiB object
	Queries     int  // descriptor queries issued after each step
	Backends    []string
	Rejects     int  // per-mille probability that a generated op is from the malformed stream
	ObsReload   bool // observations include a fresh load of the current bytes
	DetBias     int  // per-mille probability of deterministic/explicit-time variants
	FailReaders bool
	Sign        int // per-mille probability that an operation is an (ed25519 DSSE, deterministic) Sign
	Cli         bool // C15: histories of siftool invocations
	Foreign     int // per-mille probability that a history starts from a foreign (Lean-encoded) image
	BadMagic    int // per-mille probability, among foreign images, of a non-canonical magic/version
	TornHeader  bool // histories include "reopened after an add that was interrupted before its header write"
	Faults      bool // histories include operations during which the backing store fails a call, the handle being used on afterwards
	Readd       bool // histories include "GetData, delete, add the kept bytes" (C14)
	Truncs      bool // histories include "the file is cut short inside an object, then opened again"
}

type Gen struct {
	forceSign    bool // the next operation signs (scripted: a group holding an object of over 1 MiB)
	bigBlob      bool // integrity scenarios: the next base image starts with an OCI blob of a megabyte or more
	crowdedGroup bool // integrity scenarios: the next base image has one group of well over a hundred objects
	r *RNG
	p Profile
	// distribution counters, reported in the evidence
	stats map[string]int
	cliFocus string // C15: the <id> the next `info` should look at
	partHeavy    bool // this history is about partitions: half of its objects are partitions of all four types
	emptyTail    uint32 // an empty object was just added at an aligned offset beyond the stored bytes (its ID): next, another object is deleted with compaction
	afterCut     bool // the file has just been cut short: next, an object reaching beyond the new end is deleted with zeroing
	noGrow       bool // the image's descriptor table lies behind its data section: the history does not add objects (the library lays new data out on the assumption that nothing follows the data section)
	promoteLow   bool // slot 1 holds a system partition, slot 2 the primary one: promote the lower one
	bigFirst     bool // this history starts with an object of over 1 MiB followed by small ones, and deletes it with zeroing
	afterCompact bool // the previous op was a compacting delete without zeroing (storage shrank, old bytes may linger)
}

func (g *Gen) count(k string) { g.stats[k]++ }

func (g *Gen) size() DataSpec {
	r := g.r
	if g.p.BigData {
		switch r.Intn(10) {
		case 0, 1, 2:
			n := pick(r, boundarySizes)
			return DataSpec{Gen: true, Len: n, Seed: r.U64()}
		case 3:
			if r.Chance(1, 6) {
				return DataSpec{Gen: true, Len: 200*1024 + r.Intn(5), Seed: r.U64()}
			}
			if r.Chance(1, 12) {
				// beyond one 1 MiB block, not a multiple of it (block-wise copy/zero loops)
				g.count("data:over-1MiB")
				return DataSpec{Gen: true, Len: 1<<20 + pick(r, []int{1, 4097, 300000}), Seed: r.U64()}
			}
		case 4:
			// sparse payloads: whole blocks of zeros at the block sizes copy loops and sparse-file
			// logic use (512, 4 KiB, the 32 KiB io.Copy buffer, 64 KiB), incl. all-zero tails
			blk := pick(r, []int{512, 4096, 32768, 32768, 65536})
			nb := 1 + r.Intn(4)
			if blk == 65536 && nb > 3 {
				nb = 3
			}
			tail := pick(r, []int{0, 0, 0, 1, blk / 2})
			var mask uint64
			switch r.Intn(5) {
			case 0, 1:
				mask = 1 << uint(nb-1) // the last full block is a hole
			case 2:
				mask = ^uint64(0) // all zero
			case 3:
				mask = r.U64()
			default:
				mask = 1
			}
			g.count(fmt.Sprintf("data:holes blk=%d", blk))
			return DataSpec{Holes: true, Len: blk*nb + tail, Seed: r.U64(), Blk: blk, Mask: mask}
		}
	}
	n := pick(r, smallSizes)
	if r.Chance(1, 4) {
		n = r.Intn(300)
	}
	return DataSpec{Lit: r.Bytes(n)}
}

func (g *Gen) name() []byte {
	r := g.r
	switch r.Intn(12) {
	case 0:
		return nil
	case 1:
		return []byte("a")
	case 2:
		b := r.Bytes(127)
		for i := range b {
			b[i] = 'a' + b[i]%26
		}
		return b
	case 3:
		b := r.Bytes(128)
		for i := range b {
			b[i] = 'A' + b[i]%26
		}
		return b
	case 4:
		return []byte("na\x00me") // interior NUL
	case 5:
		return []byte("h\xc3\xa9llo-\xe4\xb8\x96\xe7\x95\x8c")
	case 6:
		// 128 bytes ending in a multi-byte rune
		b := make([]byte, 0, 128)
		for len(b) < 126 {
			b = append(b, 'x')
		}
		return append(b, 0xc3, 0xa9)
	default:
		n := 1 + r.Intn(20)
		b := r.Bytes(n)
		for i := range b {
			b[i] = 'a' + b[i]%26
		}
		return b
	}
}

var dataTypes = []int32{0x4001, 0x4002, 0x4003, 0x4004, 0x4005, 0x4006, 0x4007, 0x4008, 0x4009, 0x400A, 0x400B}

// validDI draws a descriptor input the library accepts (given a free slot and no second primary).
func (g *Gen) validDI(allowPrimary bool) DI {
	r := g.r
	dt := pick(r, dataTypes)
	if r.Chance(1, 3) {
		dt = 0x4007
	}
	if g.partHeavy && r.Chance(1, 2) {
		dt = 0x4004
	}
	di := DI{DT: dt, Fail: -1, Data: g.size()}
	g.count(fmt.Sprintf("dt:%x", dt))
	if r.Chance(1, 8) || ((dt == 0x400A || dt == 0x400B) && r.Chance(1, 3)) {
		// a seekable source handed over in the middle of a larger stream (after a framing header)
		di.Seekable = pick(r, []string{"bytes", "bytes", "file", "dataeof", "dataeof"})
		di.Pre = pick(r, []int{0, 1, 16, 512, 4096})
		g.count("reader:seekable-" + di.Seekable)
	}
	// group
	switch r.Intn(5) {
	case 0:
		di.Opts = append(di.Opts, DIOpt{Kind: "nogroup"})
	case 1, 2:
		di.Opts = append(di.Opts, DIOpt{Kind: "group", N: pick(r, groupChoices)})
	}
	// link
	switch r.Intn(8) {
	case 0:
		di.Opts = append(di.Opts, DIOpt{Kind: "link", N: uint32(1 + r.Intn(4))})
	case 1:
		di.Opts = append(di.Opts, DIOpt{Kind: "linkgroup", N: pick(r, groupChoices)})
	case 2:
		di.Opts = append(di.Opts, DIOpt{Kind: "link", N: 0x0fffffff})
	}
	if r.Chance(1, 2) {
		a := pick(r, alignments)
		di.Opts = append(di.Opts, DIOpt{Kind: "align", I: a})
		g.count(fmt.Sprintf("align:%d", a))
	}
	if r.Chance(2, 3) {
		di.Opts = append(di.Opts, DIOpt{Kind: "name", B: g.name()})
	}
	if r.Chance(1, 4) {
		di.Opts = append(di.Opts, DIOpt{Kind: "time", I: int64(r.Intn(2000000000)) - 1000})
	}
	switch dt {
	case 0x4004:
		if r.Chance(9, 10) {
			pt := int64(1 + r.Intn(4))
			if pt == 2 && !allowPrimary {
				pt = 1
			}
			di.Opts = append(di.Opts, DIOpt{Kind: "part", I: int64(1 + r.Intn(5)), J: pt, S: pick(r, archNames)})
			g.count(fmt.Sprintf("parttype:%d", pt))
		}
	case 0x4005:
		if r.Chance(9, 10) {
			fp := r.Bytes(20)
			if r.Chance(1, 5) {
				fp = nil
			}
			di.Opts = append(di.Opts, DIOpt{Kind: "sig", I: int64(1 + r.Intn(5)), B: fp})
		}
	case 0x4008:
		if r.Chance(9, 10) {
			di.Opts = append(di.Opts, DIOpt{Kind: "crypto", I: int64(1 + r.Intn(2)), J: int64(0x100 * (1 + r.Intn(2)))})
		}
	case 0x4009:
		if r.Chance(9, 10) {
			di.Opts = append(di.Opts, DIOpt{Kind: "sbom", I: int64(1 + r.Intn(8))})
		}
	case 0x400A, 0x400B:
		// default: digest accumulated from the stored bytes
	default:
		if r.Chance(1, 5) {
			n := pick(r, []int{0, 1, 12, 100, 383, 384})
			di.Opts = append(di.Opts, DIOpt{Kind: "md", MD: MD{Kind: "raw", B: r.Bytes(n)}})
			g.count("md:raw")
		}
	}
	return di
}

// rejectedDI draws a descriptor input from the malformed stream; the string names the kind.
func (g *Gen) rejectedDI() (DI, string) {
	r := g.r
	di := g.validDI(true)
	kinds := []string{"name129", "extra385", "mdfail", "wrongtype", "group0", "link0", "linkgroup0", "unknownarch", "secondprimary"}
	if g.p.FailReaders {
		kinds = append(kinds, "reader", "reader")
	}
	k := pick(r, kinds)
	switch k {
	case "name129":
		b := r.Bytes(129 + r.Intn(3))
		for i := range b {
			b[i] = 'n'
		}
		switch r.Intn(3) {
		case 0:
			// too long in bytes, not in characters: 65 two-byte runes, or 43 three-byte ones and a letter
			b = bytes.Repeat([]byte("\xc3\xa9"), 65)
		case 1:
			b = append(bytes.Repeat([]byte("\xe4\xb8\x96"), 43), 'x')
		}
		di.Opts = append(di.Opts, DIOpt{Kind: "name", B: b})
	case "extra385":
		di.Opts = append(di.Opts, DIOpt{Kind: "md", MD: MD{Kind: "raw", B: r.Bytes(385 + r.Intn(3))}})
	case "mdfail":
		di.Opts = append(di.Opts, DIOpt{Kind: "md", MD: MD{Kind: "fail"}})
	case "wrongtype":
		di.DT = 0x4007
		di.Opts = append(di.Opts, DIOpt{Kind: pick(r, []string{"sbom", "crypto", "part", "sig"}), I: 1, J: 1, S: "amd64", B: r.Bytes(20)})
	case "group0":
		di.Opts = append(di.Opts, DIOpt{Kind: "group", N: 0})
	case "link0":
		di.Opts = append(di.Opts, DIOpt{Kind: "link", N: 0})
	case "linkgroup0":
		di.Opts = append(di.Opts, DIOpt{Kind: "linkgroup", N: 0})
	case "unknownarch":
		di.DT = 0x4004
		di.Opts = []DIOpt{{Kind: "part", I: 1, J: 1, S: "pdp11"}}
	case "secondprimary":
		di.DT = 0x4004
		di.Opts = []DIOpt{{Kind: "part", I: int64(1 + r.Intn(5)), J: 2, S: pick(r, archNames)}}
		if r.Chance(1, 2) {
			di.Opts = append(di.Opts, DIOpt{Kind: "name", B: []byte("second-primary")})
		}
	case "reader":
		n := len(di.Data.Bytes())
		di.Fail = r.Intn(n + 1)
	}
	if (k == "name129" || k == "reader") && r.Chance(1, 3) {
		// the rejected input is a primary system partition: whatever the add staged before the
		// failure (architecture, counters) must not survive it
		var keep []DIOpt
		for _, o := range di.Opts {
			if o.Kind == "name" || o.Kind == "align" || o.Kind == "group" || o.Kind == "nogroup" {
				keep = append(keep, o)
			}
		}
		di.DT = 0x4004
		di.Opts = append([]DIOpt{{Kind: "part", I: int64(1 + r.Intn(5)), J: 2, S: pick(r, archNames)}}, keep...)
		g.count("reject:" + k + "-primary")
	}
	g.count("reject:" + k)
	return di, k
}

func (g *Gen) topt() TOpt {
	r := g.r
	if r.Intn(1000) < g.p.DetBias {
		if r.Chance(1, 2) {
			return TOpt{Kind: "det"}
		}
		return TOpt{Kind: "at", T: int64(r.Intn(2000000000))}
	}
	return TOpt{Kind: "dflt"}
}

// createOp draws a CreateContainer call.
func (g *Gen) createOp() *Op {
	r := g.r
	op := &Op{Kind: "create", Backend: pick(r, g.p.Backends)}
	g.partHeavy = r.Chance(1, 5)
	g.noGrow = false
	if g.partHeavy {
		g.count("history:partition-heavy")
	}
	cap := -1
	if !r.Chance(1, 10) {
		cap = r.Intn(g.p.MaxCap + 1)
		if r.Chance(1, 12) {
			cap = pick(r, []int{0, 48, 64})
		}
		op.COpts = append(op.COpts, CreateOpt{Kind: "cap", I: int64(cap)})
	} else {
		cap = 48
	}
	g.count(fmt.Sprintf("cap:%d", cap))
	if r.Chance(1, 2) {
		n := r.Intn(32)
		if r.Intn(1000) < g.p.Rejects/4 {
			n = 32
			g.count("reject:launch32")
		}
		b := r.Bytes(n)
		for i := range b {
			b[i] = 33 + b[i]%90
		}
		op.COpts = append(op.COpts, CreateOpt{Kind: "launch", B: b})
	}
	det := false
	switch {
	case r.Intn(1000) < g.p.DetBias:
		op.COpts = append(op.COpts, CreateOpt{Kind: "det"})
		det = true
		g.count("create:det")
	case r.Chance(1, 3):
		op.COpts = append(op.COpts, CreateOpt{Kind: "id", B: r.Bytes(16)})
		g.count("create:id")
		if r.Chance(1, 4) {
			// the nil ID, given explicitly (with the zero time: the same image as the deterministic option makes)
			op.COpts[len(op.COpts)-1].B = make([]byte, 16)
			op.COpts = append(op.COpts, CreateOpt{Kind: "time", I: -62135596800})
			det = true
			g.count("create:explicit-nil-id-and-zero-time")
		}
	case r.Intn(1000) < g.p.Rejects/8:
		op.COpts = append(op.COpts, CreateOpt{Kind: "id", Bad: true})
		g.count("reject:baduuid")
	}
	if !det && r.Chance(1, 2) {
		op.COpts = append(op.COpts, CreateOpt{Kind: "time", I: int64(r.Intn(2000000000))})
		g.count("create:time")
	}
	// initial objects
	n := 0
	if cap > 0 {
		n = r.Intn(cap + 1)
		if n > 6 {
			n = r.Intn(7)
		}
	}
	crowded := false
	crashCampaign := g.p.TornHeader && g.p.Sign > 0 // (C09's profile)
	crowdChance := 30
	if crashCampaign {
		crowdChance = 10
	}
	if g.p.MaxCap > 0 && r.Chance(1, crowdChance) {
		// a crowded image: a descriptor table larger than the 32 KiB and 64 KiB buffers I/O layers
		// use (57+ and 113+ slots; 130 and 200 exceed a 128-entry batch), nearly or exactly full
		cap = pick(r, []int{57, 64, 113, 120, 130, 200})
		n = cap - pick(r, []int{0, 1, 1, 2, 8})
		if crashCampaign && r.Chance(2, 3) {
			// … filled up to a slot in which a 4 KiB, 32 KiB or 64 KiB boundary of the table falls just
			// behind the in-use flag (slots 35, 42, 56, 112): the next add goes there, and a table
			// written in pieces of that size tears exactly that descriptor between two calls
			pr := pick(r, [][2]int{{36, 35}, {43, 42}, {48, 35}, {57, 56}, {64, 56}, {113, 112}, {120, 112}})
			cap, n = pr[0], pr[1]
			g.count("create:crowded-up-to-a-buffer-boundary-slot")
		}
		for k := range op.COpts {
			if op.COpts[k].Kind == "cap" {
				op.COpts[k].I = int64(cap)
			}
		}
		if len(op.COpts) == 0 || op.COpts[0].Kind != "cap" {
			op.COpts = append([]CreateOpt{{Kind: "cap", I: int64(cap)}}, op.COpts...)
		}
		crowded = true
		g.count("create:crowded-table")
	}
	if r.Intn(1000) < g.p.Rejects/8 {
		n = cap + 1
		g.count("reject:create-overfull")
	}
	g.bigFirst, g.forceSign = false, false
	if g.p.MaxCap >= 3 && !crowded && n <= cap && r.Chance(1, 30) {
		// an object of more than one 1 MiB block (and not a whole number of them) with small
		// objects stored after it; the history then deletes it with zeroing
		g.bigFirst = true
		if cap < 3 {
			cap = 3 + r.Intn(3)
			for k := range op.COpts {
				if op.COpts[k].Kind == "cap" {
					op.COpts[k].I = int64(cap)
				}
			}
		}
		n = 2 + r.Intn(2)
		g.count("history:big-object-first")
	}
	g.promoteLow = false
	if g.partHeavy && !g.bigFirst && !crowded && cap >= 2 && n <= cap && r.Chance(1, 3) {
		// a system partition in the first slot, the primary partition in the second: promoting the
		// lower one rewrites two slots in one table write, the promoted one first
		g.promoteLow = true
		if n < 2 {
			n = 2
		}
		g.count("history:primary-above-system-partition")
	}
	if n > 0 {
		var dis []DI
		havePrim := false
		for i := 0; i < n; i++ {
			di := g.validDI(!havePrim && !g.promoteLow)
			if g.promoteLow && i < 2 {
				di = DI{DT: 0x4004, Fail: -1, Data: DataSpec{Lit: r.Bytes(1 + r.Intn(40))},
					Opts: []DIOpt{{Kind: "part", I: int64(1 + r.Intn(5)), J: int64(1 + i), S: pick(r, archNames)}}}
			}
			if g.bigFirst {
				di = DI{DT: 0x4007, Fail: -1, Data: DataSpec{Lit: r.Bytes(1 + r.Intn(40))}}
				if i == 0 {
					di.Data = DataSpec{Gen: true, Len: 1<<20 + pick(r, []int{1, 4097, 300000}), Seed: r.U64()}
				}
				if g.p.Sign > 0 {
					// … all in one group, which is then signed while the big object is still there
					di.Opts = append(di.Opts, DIOpt{Kind: "group", N: 1})
					g.forceSign = true
				} else if r.Chance(1, 2) {
					di.Opts = append(di.Opts, DIOpt{Kind: "group", N: pick(r, groupChoices)})
				}
			}
			if crowded && i >= 4 {
				// keep crowded images small: tiny unaligned objects after the first few
				di = DI{DT: 0x4007, Fail: -1, Data: DataSpec{Lit: r.Bytes(1 + r.Intn(3))}}
				if r.Chance(1, 2) {
					di.Opts = append(di.Opts, DIOpt{Kind: "group", N: pick(r, groupChoices)})
				}
			}
			for _, o := range di.Opts {
				if o.Kind == "part" && o.J == 2 {
					havePrim = true
				}
			}
			dis = append(dis, di)
		}
		if !crowded && !g.bigFirst && !g.promoteLow && n+2 <= cap && r.Intn(1000) < g.p.Rejects/4 {
			// a second primary system partition among the initial objects: creation must refuse it
			if !havePrim {
				dis = append(dis, DI{DT: 0x4004, Fail: -1, Data: DataSpec{Lit: r.Bytes(1 + r.Intn(20))},
					Opts: []DIOpt{{Kind: "part", I: int64(1 + r.Intn(5)), J: 2, S: pick(r, archNames)}}})
			}
			dis = append(dis, DI{DT: 0x4004, Fail: -1, Data: DataSpec{Lit: r.Bytes(1 + r.Intn(20))},
				Opts: []DIOpt{{Kind: "part", I: int64(1 + r.Intn(5)), J: 2, S: pick(r, archNames)}}})
			g.count("reject:create-second-primary")
		}
		// one or two option calls
		if len(dis) > 1 && r.Chance(1, 3) {
			k := 1 + r.Intn(len(dis)-1)
			op.COpts = append(op.COpts, CreateOpt{Kind: "descs", DIs: dis[:k]}, CreateOpt{Kind: "descs", DIs: dis[k:]})
		} else {
			op.COpts = append(op.COpts, CreateOpt{Kind: "descs", DIs: dis})
		}
	}
	return op
}

// imgInfo is what the generator learns from the live handle to aim operations.
type imgInfo struct {
	ids       []uint32
	groups    []uint32
	parts     []uint32 // IDs of partition objects
	sysParts  []uint32 // … of type system (what SetPrimPart promotes)
	ocis      []uint32
	hasPrim   bool
	free      int64
	total     int64
	links     []uint32
	linkGrps  []uint32
	dts       []int32
	ociDigest [][]byte
	twoPrims  bool // more than one partition is marked primary (another writer's image, or raw partition records)
}

func inspect(f *sif.FileImage) imgInfo {
	var in imgInfo
	if f == nil {
		return in
	}
	in.free, in.total = f.DescriptorsFree(), f.DescriptorsTotal()
	f.WithDescriptors(func(d sif.Descriptor) bool {
		in.ids = append(in.ids, d.ID())
		in.dts = append(in.dts, int32(d.DataType()))
		if g := d.GroupID(); g != 0 {
			in.groups = append(in.groups, g)
		}
		if l, isG := d.LinkedID(); l != 0 {
			if isG {
				in.linkGrps = append(in.linkGrps, l)
			} else {
				in.links = append(in.links, l)
			}
		}
		if d.DataType() == sif.DataPartition {
			in.parts = append(in.parts, d.ID())
			if _, pt, _, err := d.PartitionMetadata(); err == nil && pt == sif.PartPrimSys {
				if in.hasPrim {
					in.twoPrims = true
				}
				in.hasPrim = true
			} else if err == nil && pt == sif.PartSystem {
				in.sysParts = append(in.sysParts, d.ID())
			}
		}
		if d.DataType() == sif.DataOCIBlob || d.DataType() == sif.DataOCIRootIndex {
			in.ocis = append(in.ocis, d.ID())
			if h, err := d.OCIBlobDigest(); err == nil {
				in.ociDigest = append(in.ociDigest, []byte(h.String()))
			}
		}
		return false
	})
	return in
}

func (g *Gen) someID(in imgInfo) uint32 {
	r := g.r
	if len(in.ids) > 0 && !r.Chance(1, 8) {
		return pick(r, in.ids)
	}
	return uint32(r.Intn(int(in.total) + 3))
}

// nextOp draws the next operation of a history given the live handle.
func (g *Gen) nextOp(f *sif.FileImage) *Op {
	r := g.r
	in := inspect(f)
	reject := r.Intn(1000) < g.p.Rejects
	forced := g.forceSign && len(in.groups) > 0
	if forced {
		g.forceSign = false
		g.count("op:sign-group-with-megabyte-object")
	}
	if g.p.Sign > 0 && !g.noGrow && (forced || r.Intn(1000) < g.p.Sign) && len(in.groups) > 0 {
		// ed25519 DSSE signatures are deterministic: the whole image stays reproducible
		u := getUniverse()
		k := 100
		for i, dk := range u.DSSE {
			if dk.kind == "ed25519" {
				k = 100 + i
				break
			}
		}
		g.count("op:sign")
		so := SOpts{PGP: -1, DSSE: []int{k}, T: g.topt()}
		if r.Chance(1, 3) {
			// one request naming objects of several groups: one signature per group, in group order
			byGroup := map[uint32][]uint32{}
			f.WithDescriptors(func(d sif.Descriptor) bool {
				if gid := d.GroupID(); gid != 0 && d.DataType() != sif.DataSignature {
					byGroup[gid] = append(byGroup[gid], d.ID())
				}
				return false
			})
			var set []uint32
			for _, ids := range byGroup {
				set = append(set, ids[0])
				if len(ids) > 1 && r.Chance(1, 2) {
					set = append(set, ids[len(ids)-1])
				}
			}
			if len(byGroup) > 1 {
				sort.Slice(set, func(a, b int) bool { return set[a] < set[b] })
				for i := len(set) - 1; i > 0; i-- { // any order of mention
					j := r.Intn(i + 1)
					set[i], set[j] = set[j], set[i]
				}
				so.ObjSets = [][]uint32{set}
				g.count("op:sign-objects-across-groups")
			}
		}
		return &Op{Kind: "sign", S: so}
	}
	if g.afterCompact && !g.noGrow {
		g.afterCompact = false
		if r.Chance(1, 2) {
			// right after storage shrank: an object whose alignment skips over a gap, so that
			// whatever the backend keeps beyond its new end would show through
			di := DI{DT: 0x4007, Fail: -1, Data: DataSpec{Lit: r.Bytes(1 + r.Intn(24))},
				Opts: []DIOpt{{Kind: "align", I: pick(r, []int64{64, 512, 4096, 4096, 65536})}}}
			if r.Chance(1, 3) {
				di = DI{DT: 0x4004, Fail: -1, Data: DataSpec{Lit: r.Bytes(1 + r.Intn(24))},
					Opts: []DIOpt{{Kind: "part", I: int64(1 + r.Intn(5)), J: 1, S: pick(r, archNames)}}}
			}
			g.count("op:aligned-add-after-compaction")
			return &Op{Kind: "add", T: g.topt(), DI: di, Valid: true}
		}
	}
	if g.bigFirst && r.Chance(1, 2) {
		g.bigFirst = false
		for _, id := range in.ids {
			if id == 1 {
				g.count("op:zeroing-delete-of-big-object")
				return &Op{Kind: "del", T: g.topt(), Sel: Sel{Kind: "id", N: 1}, Zero: true, Compact: r.Chance(1, 3)}
			}
		}
	}
	if g.emptyTail != 0 {
		tail := g.emptyTail
		g.emptyTail = 0
		f.WithDescriptors(func(d sif.Descriptor) bool {
			if d.Name() == "empty-tail" && d.Size() == 0 {
				tail = d.ID()
			}
			return false
		})
		var others []uint32
		for _, id := range in.ids {
			if id != tail {
				others = append(others, id)
			}
		}
		if len(others) > 0 {
			g.count("op:compacting-delete-under-an-empty-aligned-tail")
			return &Op{Kind: "del", T: g.topt(), Sel: Sel{Kind: "id", N: int64(pick(r, others))}, Zero: r.Chance(1, 2), Compact: true}
		}
	}
	if !g.noGrow && in.free > 0 && len(in.ids) > 0 && r.Chance(1, 25) {
		// an empty object whose alignment puts its offset beyond the last stored byte (adding it does
		// not extend the file); the next operation compacts
		g.emptyTail = ^uint32(0)
		g.count("op:empty-aligned-add")
		return &Op{Kind: "add", T: g.topt(), Valid: true, DI: DI{DT: 0x4007, Fail: -1, Data: DataSpec{Lit: nil},
			Opts: []DIOpt{{Kind: "align", I: pick(r, []int64{4096, 65536, 512})}, {Kind: "name", B: []byte("empty-tail")}}}}
	}
	if g.afterCut {
		g.afterCut = false
		var beyond []uint32
		end := int64(0)
		f.WithDescriptors(func(d sif.Descriptor) bool {
			if b, err := d.GetData(); err != nil || int64(len(b)) < d.Size() {
				beyond = append(beyond, d.ID())
			}
			if d.Offset()+d.Size() > end {
				end = d.Offset() + d.Size()
			}
			return false
		})
		if len(beyond) > 0 && r.Chance(2, 3) {
			g.count("op:zeroing-delete-of-an-object-beyond-the-end")
			return &Op{Kind: "del", T: g.topt(), Sel: Sel{Kind: "id", N: int64(pick(r, beyond))}, Zero: true, Compact: r.Chance(1, 4)}
		}
	}
	if g.promoteLow && r.Chance(1, 2) {
		g.promoteLow = false
		g.count("op:promote-partition-below-primary")
		return &Op{Kind: "setprim", T: g.topt(), ID: 1}
	}
	x := r.Intn(100)
	if g.partHeavy && len(in.parts) > 0 && r.Chance(1, 4) {
		x = 64 // set-primary
	}
	if g.noGrow && x < 42 {
		x = 42 + r.Intn(48) // delete / set-* instead of add
	}
	switch {
	case x < 42:
		op := &Op{Kind: "add", T: g.topt()}
		if reject {
			op.DI, _ = g.rejectedDI()
		} else {
			op.DI = g.validDI(!in.hasPrim)
			op.Valid = true
			if len(in.ids) > 0 && r.Chance(1, 10) {
				op.DI.Src = pick(r, in.ids) // copy of an object of the same image, streamed from it
			}
			if op.DI.DT != 0x4004 && op.DI.DT != 0x400A && op.DI.DT != 0x400B && r.Chance(1, 12) {
				// application metadata that happens to look like another type's record: a
				// partition record (fs, type, arch) on an object that is not a partition
				b := make([]byte, 12)
				b[0], b[4] = byte(1+r.Intn(5)), byte(1+r.Intn(4))
				copy(b[8:], []byte{'0', byte('1' + r.Intn(9)), 0})
				op.DI.Opts = append(op.DI.Opts, DIOpt{Kind: "md", MD: MD{Kind: "raw", B: b}})
				g.count("md:partition-record-on-non-partition")
			}
			if len(in.ociDigest) > 0 && op.DI.DT != 0x400A && op.DI.DT != 0x400B && op.DI.DT != 0x4004 && r.Chance(1, 5) {
				// an object of another type annotated with the digest text of an OCI blob of the image
				op.DI.Opts = append(op.DI.Opts, DIOpt{Kind: "md", MD: MD{Kind: "raw", B: pick(r, in.ociDigest)}})
				g.count("md:oci-digest-text-on-non-oci-object")
			}
		}
		if in.free == 0 {
			g.count("reject:full-table")
		}
		g.count("op:add")
		return op
	case x < 64:
		op := &Op{Kind: "del", T: g.topt(), Zero: r.Chance(1, 2), Compact: r.Chance(1, 2)}
		switch y := r.Intn(12); {
		case y >= 10:
			// DeleteObjects with the caller's own selector function
			op.Sel = g.callerPred(in)
			g.count("op:del-caller-predicate")
		case y < 6:
			op.Sel = Sel{Kind: "id", N: int64(g.someID(in))}
		case y < 7 && len(in.groups) > 0:
			op.Sel = Sel{Kind: "grp", N: int64(pick(r, in.groups))}
		case y < 8 && len(in.dts) > 0:
			op.Sel = Sel{Kind: "dt", N: int64(pick(r, in.dts))}
		case y < 9:
			op.Sel = pick(r, []Sel{{Kind: "nogrp"}, {Kind: "pt", N: int64(1 + r.Intn(4))}, {Kind: "lid", N: int64(1 + r.Intn(4))}, {Kind: "lgid", N: int64(1 + r.Intn(3))}})
		default:
			op.Sel = pick(r, []Sel{{Kind: "id", N: 0}, {Kind: "grp", N: 0}, {Kind: "grp", N: 77}, {Kind: "lid", N: 0}, {Kind: "lgid", N: 0}})
			g.count("reject:del-" + op.Sel.String())
		}
		if g.p.Readd && !g.noGrow && op.Sel.Kind == "id" && len(in.ids) > 0 && r.Chance(1, 6) {
			// replace an object by itself: its bytes are fetched with GetData and kept, the object
			// is deleted (zeroing / compacting), and the kept bytes are added as a new object
			op.Kind, op.ID = "readd", pick(r, in.ids)
			op.Sel = Sel{Kind: "id", N: int64(op.ID)}
			g.count(fmt.Sprintf("op:readd z%d c%d", b2i(op.Zero), b2i(op.Compact)))
			return op
		}
		g.count(fmt.Sprintf("op:del z%d c%d", b2i(op.Zero), b2i(op.Compact)))
		g.afterCompact = op.Compact && !op.Zero
		return op
	case x < 74:
		op := &Op{Kind: "setprim", T: g.topt()}
		if in.twoPrims && len(in.sysParts) > 0 && r.Chance(2, 3) {
			// promoting a system partition while two partitions are marked primary: refused
			op.ID = pick(r, in.sysParts)
			g.count("op:setprim-with-two-primaries")
		} else if len(in.parts) > 0 && (!reject || r.Chance(1, 2)) {
			// any partition: system ones are promoted, data/overlay ones refused, the primary one is a no-op
			op.ID = pick(r, in.parts)
		} else {
			op.ID = g.someID(in)
			g.count("reject:setprim-nonpartition?")
		}
		g.count("op:setprim")
		return op
	case x < 84:
		op := &Op{Kind: "setmeta", T: g.topt(), ID: g.someID(in)}
		switch y := r.Intn(10); {
		case y < 6:
			op.MD = MD{Kind: "raw", B: r.Bytes(pick(r, []int{0, 1, 11, 12, 50, 384}))}
			if len(in.ociDigest) > 0 && r.Chance(1, 4) {
				op.MD.B = pick(r, in.ociDigest)
				g.count("setmeta:oci-digest-text")
			}
		case y < 7:
			op.MD = MD{Kind: "nil"}
			if len(in.parts) > 0 {
				// a caller that maintains partition metadata itself: a well-formed partition record,
				// any partition type (incl. primary system), any architecture, aimed at a partition
				ex := make([]byte, 11)
				ex[0], ex[4] = byte(1+r.Intn(5)), byte(1+r.Intn(4))
				copy(ex[8:], pick(r, archCodes))
				if r.Chance(1, 4) {
					// a code this release has no name for (a newer writer's, or none at all)
					copy(ex[8:], pick(r, []string{"00", "13", "99"}))
					g.count("setmeta:partition-record-unknown-arch-code")
				}
				op.ID, op.MD = pick(r, in.parts), MD{Kind: "raw", B: ex}
				g.count("setmeta:partition-record-as-raw-bytes")
			}
		case y < 8:
			op.MD = MD{Kind: "fail"}
			g.count("reject:setmeta-marshal")
		default:
			op.MD = MD{Kind: "raw", B: r.Bytes(385)}
			g.count("reject:setmeta-385")
		}
		g.count("op:setmeta")
		return op
	case x < 90:
		op := &Op{Kind: "setoci", T: g.topt()}
		if len(in.ocis) > 0 && !reject {
			op.ID = pick(r, in.ocis)
		} else {
			op.ID = g.someID(in)
			g.count("reject:setoci-wrongtype?")
		}
		hexd := fmt.Sprintf("%x", r.Bytes(32))
		op.Text = []byte("sha256:" + hexd)
		if r.Chance(1, 8) {
			op.Text = []byte("sha512:" + hexd + hexd)
		}
		g.count("op:setoci")
		return op
	default:
		if g.p.Truncs && len(in.ids) > 0 && r.Chance(1, 4) {
			// the image is cut short inside (or at the start of) its last objects behind the
			// library's back, and opened again
			var cuts []int64
			f.WithDescriptors(func(d sif.Descriptor) bool {
				if d.Size() > 0 {
					cuts = append(cuts, d.Offset(), d.Offset()+d.Size()/2, d.Offset()+d.Size()-1)
				}
				return false
			})
			if len(cuts) > 0 {
				g.count("op:file-cut-short")
				g.afterCut = true
				return &Op{Kind: "ftrunc", Lib: true, N: pick(r, cuts)}
			}
		}
		g.count("op:reload")
		return &Op{Kind: "reload"}
	}
}

// queryOp draws a descriptor query over values present in the image plus absent and invalid ones.
func (g *Gen) queryOp(in imgInfo) *Op {
	r := g.r
	n := r.Intn(4)
	if r.Chance(1, 10) {
		// long selector lists: four or five selectors that hold of some object, then one more that
		// decides (accepts it, rejects it, or is ill-formed)
		n = 5 + r.Intn(3)
		g.count("q:many-selectors")
	}
	op := &Op{Kind: "q", One: r.Chance(1, 3)}
	for i := 0; i < n; i++ {
		sel := g.selector(in)
		if n >= 5 && i < n-1 && len(in.ids) > 0 {
			// keep the front of a long list satisfiable: selectors that hold of every object or of one chosen object
			sel = pick(r, []Sel{{Kind: "P", M: in.ids}, {Kind: "P", M: in.ids, MT: 0x4007}, {Kind: "id", N: int64(in.ids[len(in.ids)-1])}, {Kind: "P", M: in.ids[len(in.ids)-1:]}})
		}
		op.Sels = append(op.Sels, sel)
	}
	g.count(fmt.Sprintf("q:len%d", n))
	return op
}

// callerPred: a caller's own selector function.  It accepts some of the objects present (by ID,
// data type or group) and, in half of the cases, answers with an error of its own on some object —
// often one that lies *after* objects it accepts, the way a function that inspects partition
// metadata fails on the first object that is not a partition.
func (g *Gen) callerPred(in imgInfo) Sel {
	r := g.r
	s := Sel{Kind: "P"}
	ids := append([]uint32(nil), in.ids...)
	for _, id := range ids {
		if r.Chance(1, 3) {
			s.M = append(s.M, id)
		}
	}
	if len(s.M) == 0 && len(ids) > 0 {
		s.M = []uint32{ids[0]}
	}
	if r.Chance(1, 4) && len(in.dts) > 0 {
		s.MT = int64(pick(r, in.dts))
	}
	if r.Chance(1, 5) && len(in.groups) > 0 {
		s.MG = pick(r, in.groups)
	}
	if r.Chance(1, 8) {
		s.M = append(s.M, uint32(60+r.Intn(4))) // an ID nothing has
	}
	g.count("q:caller-predicate")
	if r.Chance(1, 3) {
		s.Nest = true
		g.count("q:caller-predicate-queries-the-same-handle")
	}
	if r.Chance(1, 3) {
		s.ByStream = true
		g.count("q:caller-predicate-reads-the-descriptor-stream")
	}
	if r.Chance(1, 2) {
		switch {
		case len(ids) > 1 && r.Chance(2, 3):
			// fail on a later object than the first accepted one
			s.E = []uint32{ids[1+r.Intn(len(ids)-1)]}
			g.count("q:caller-predicate-fails-late")
		case len(in.dts) > 0 && r.Chance(1, 2):
			s.ET = int64(pick(r, in.dts))
			g.count("q:caller-predicate-fails-on-type")
		case len(ids) > 0:
			s.E = []uint32{pick(r, ids)}
			g.count("q:caller-predicate-fails")
		}
	}
	return s
}

func (g *Gen) selector(in imgInfo) Sel {
	r := g.r
	idv := func(present []uint32) int64 {
		switch r.Intn(7) {
		case 0:
			return 0
		case 1:
			return int64(50 + r.Intn(5))
		case 2:
			// values that carry the group-mask nibble or the largest representable number:
			// absent as object/group IDs, but equal to the *raw* stored field of a group link
			hi := []int64{0xffffffff, 0x0fffffff, 0xf0000000, 0x10000000}
			for _, p := range in.linkGrps {
				hi = append(hi, 0xf0000000|int64(p))
			}
			for _, p := range in.groups {
				hi = append(hi, 0xf0000000|int64(p))
			}
			for _, p := range present {
				hi = append(hi, 0xf0000000|int64(p))
			}
			g.count("q:mask-bits-value")
			return pick(r, hi)
		default:
			if len(present) > 0 {
				return int64(pick(r, present))
			}
			return int64(1 + r.Intn(3))
		}
	}
	if r.Chance(1, 8) {
		return g.callerPred(in)
	}
	switch r.Intn(9) {
	case 0:
		if len(in.dts) > 0 && r.Chance(3, 4) {
			return Sel{Kind: "dt", N: int64(pick(r, in.dts))}
		}
		return Sel{Kind: "dt", N: int64(pick(r, dataTypes))}
	case 1, 2:
		return Sel{Kind: "id", N: idv(in.ids)}
	case 3:
		return Sel{Kind: "nogrp"}
	case 4:
		return Sel{Kind: "grp", N: idv(in.groups)}
	case 5:
		return Sel{Kind: "lid", N: idv(in.links)}
	case 6:
		return Sel{Kind: "lgid", N: idv(in.linkGrps)}
	case 7:
		return Sel{Kind: "pt", N: int64(r.Intn(6))}
	default:
		if len(in.ociDigest) > 0 && r.Chance(1, 4) {
			// a digest text that is only a prefix of a recorded one (abbreviated, one digit short, bare algorithm)
			d := pick(r, in.ociDigest)
			cut := pick(r, []int{7, 8, 19, len(d) - 1, len(d) - 2})
			if cut > 0 && cut < len(d) {
				g.count("q:oci-digest-prefix")
				return Sel{Kind: "oci", B: append([]byte(nil), d[:cut]...)}
			}
		}
		if len(in.ociDigest) > 0 && r.Chance(2, 3) {
			return Sel{Kind: "oci", B: pick(r, in.ociDigest)}
		}
		return Sel{Kind: "oci", B: []byte(fmt.Sprintf("sha256:%x", r.Bytes(32)))}
	}
}

// stSequence draws a raw call sequence on a bare backing store from the repertoire the library
// issues (absolute seek >= 0, seek to end, non-empty write at any position incl. past the end,
// truncation to at most the current length, positioned read of >= 1 byte anywhere).  The
// generator tracks length and position itself (reference semantics) only to aim the calls.
func (g *Gen) stSequence(be string) []*Op {
	r := g.r
	init := r.Bytes(pick(r, []int{0, 0, 1, 7, 64, 600, 5000}))
	ops := []*Op{{Kind: "st", St: &StOp{Call: "new", Be: be, Data: DataSpec{Lit: init}}}}
	ln, pos := int64(len(init)), int64(0)
	near := func(x int64) int64 {
		v := x + int64(r.Intn(9)) - 4
		if v < 0 {
			v = 0
		}
		return v
	}
	n := 6 + r.Intn(40)
	for i := 0; i < n; i++ {
		s := &StOp{}
		switch x := r.Intn(100); {
		case x < 22:
			s.Call = "seek"
			s.Off = pick(r, []int64{0, ln, near(ln), near(pos), near(ln / 2), ln + int64(r.Intn(5000)), int64(r.Intn(int(ln) + 1))})
			pos = s.Off
		case x < 30:
			s.Call = "seekend"
			pos = ln
		case x < 62:
			s.Call = "write"
			k := 1 + r.Intn(40)
			if r.Chance(1, 8) {
				k = 1 + r.Intn(9000)
			}
			s.Data = DataSpec{Lit: r.Bytes(k)}
			if r.Chance(1, 6) {
				s.Data = DataSpec{Lit: make([]byte, k)} // zeros
			}
			pos += int64(k)
			if pos > ln {
				ln = pos
			}
		case x < 78:
			s.Call = "trunc"
			s.N = pick(r, []int64{0, ln, ln, near(ln), near(pos), ln / 2, int64(r.Intn(int(ln) + 1))})
			if s.N > ln {
				s.N = ln
			}
			ln = s.N
		default:
			s.Call = "read"
			s.Off = pick(r, []int64{0, near(ln), near(pos), ln, ln + 3, int64(r.Intn(int(ln) + 1))})
			s.N = int64(1 + r.Intn(pick(r, []int{4, 64, 5000})))
		}
		g.count("st:" + s.Call)
		ops = append(ops, &Op{Kind: "st", St: s})
	}
	return ops
}
