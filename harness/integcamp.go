package main

// Integrity campaigns (C04, C05, C06, C07, C16, C17): scenario generators over signed images,
// executed on the real library and on the Lean model (fed with the crypto oracle's facts), plus
// implementation-only oracles.

import (
	"bytes"
	"crypto"
	"crypto/sha256"
	"crypto/sha512"
	"encoding/hex"
	"fmt"
	"os"
	"path/filepath"
	"sort"
	"strings"
	"sync"
	"time"

	"github.com/ProtonMail/go-crypto/openpgp/clearsign"
	"github.com/ProtonMail/go-crypto/openpgp/packet"
	"github.com/sigstore/sigstore/pkg/signature/dsse"
	"github.com/sylabs/sif/v2/pkg/sif"
)

// ---- protected view: what a signature covers, recomputed through the public API ----

type protObj struct {
	DT     int32
	Link   uint32
	LinkG  bool
	Size   int64
	CT     int64
	Name   string
	Extra  []byte
	Data   []byte
	RelPos uint32 // relative ID (from the integrity stream)
	Group  uint32 // not protected as a number (a group may be renumbered as a whole): not part of equal
}

type protView struct {
	Launch, Version, ID string
	Objs                map[uint32][]protObj // by object ID (tampering can make IDs collide)
}

func protectedView(f *sif.FileImage) protView {
	pv := protView{Launch: f.LaunchScript(), Version: f.Version(), ID: f.ID(), Objs: map[uint32][]protObj{}}
	// an object's position relative to its group, from the table alone: its ID minus the lowest ID
	// any member of its group carries (not taken from the library's integrity stream, which is one
	// of the things under test)
	minID := map[uint32]uint32{}
	f.WithDescriptors(func(d sif.Descriptor) bool {
		if m, ok := minID[d.GroupID()]; !ok || d.ID() < m {
			minID[d.GroupID()] = d.ID()
		}
		return false
	})
	f.WithDescriptors(func(d sif.Descriptor) bool {
		var rc rawCapture
		_ = d.GetMetadata(&rc)
		l, g := d.LinkedID()
		b, _ := d.GetData()
		st := readAll(d.GetIntegrityReader())
		_ = st
		rel := d.ID() - minID[d.GroupID()]
		if d.GroupID() == 0 {
			rel = 0
		}
		pv.Objs[d.ID()] = append(pv.Objs[d.ID()], protObj{DT: int32(d.DataType()), Link: l, LinkG: g, Size: d.Size(), CT: d.CreatedAt().Unix(),
			Name: d.Name(), Extra: rc.b, Data: b, RelPos: rel, Group: d.GroupID()})
		return false
	})
	return pv
}

func (a protObj) equal(b protObj) bool {
	return a.DT == b.DT && a.Link == b.Link && a.LinkG == b.LinkG && a.Size == b.Size && a.CT == b.CT && a.Name == b.Name &&
		bytes.Equal(a.Extra, b.Extra) && bytes.Equal(a.Data, b.Data) && a.RelPos == b.RelPos
}

// ---- scenario building blocks ----

type scenario struct {
	ops     []*Op
	signers []int // key indices that signed
	pgp     bool
	note    string
}

var mdTypes = []int32{0x4001, 0x4002, 0x4003, 0x4006, 0x4007, 0x4009, 0x400B, 0x4004}

// baseImage: 1-4 groups of 1-5 objects (all types, empty objects), room for signatures.
func (g *Gen) baseImage(maxGroups int, spare int) (*Op, map[uint32][]uint32) {
	r := g.r
	ng := 1 + r.Intn(maxGroups)
	groups := map[uint32][]uint32{}
	var dis []DI
	var gids []uint32
	havePrim := false
	// group numbers need not appear in ascending order in the table: the labels 1..ng are
	// permuted half of the time, and a third of the time members of different groups interleave
	label := make([]uint32, ng+1)
	for gi := 1; gi <= ng; gi++ {
		label[gi] = uint32(gi)
	}
	if ng > 1 && r.Chance(1, 2) {
		for i := ng; i > 1; i-- {
			j := 1 + r.Intn(i)
			label[i], label[j] = label[j], label[i]
		}
		g.count("base:group-labels-permuted")
	}
	for gi := 1; gi <= ng; gi++ {
		no := 1 + r.Intn(5)
		if g.crowdedGroup && gi == 1 {
			// a group of well over a hundred objects: its signature (one entry per object) is a large
			// object itself — tens of kilobytes
			no = 125 + r.Intn(90)
			g.count("base:group-of-more-than-120-objects")
		}
		for k := 0; k < no; k++ {
			di := DI{DT: pick(r, mdTypes), Fail: -1, Data: DataSpec{Lit: r.Bytes(pick(r, []int{0, 1, 3, 17, 64, 200}))}}
			di.Opts = append(di.Opts, DIOpt{Kind: "group", N: label[gi]})
			if r.Chance(1, 2) {
				di.Opts = append(di.Opts, DIOpt{Kind: "name", B: []byte(fmt.Sprintf("obj-%d-%d", gi, k))})
			}
			switch di.DT {
			case 0x4004:
				pt := int64(1 + r.Intn(4))
				if pt == 2 && havePrim {
					pt = 1
				}
				havePrim = havePrim || pt == 2
				di.Opts = append(di.Opts, DIOpt{Kind: "part", I: int64(1 + r.Intn(5)), J: pt, S: pick(r, archNames)}, DIOpt{Kind: "align", I: int64(pick(r, []int{0, 8, 512}))})
			case 0x4009:
				di.Opts = append(di.Opts, DIOpt{Kind: "sbom", I: int64(1 + r.Intn(8))})
			}
			if r.Chance(1, 6) {
				di.Opts = append(di.Opts, DIOpt{Kind: "link", N: uint32(1 + r.Intn(3))})
			}
			if g.bigBlob && gi == 1 && k == 0 {
				// an OCI blob of a megabyte or more (a layer): large enough for any size-dependent path
				di = DI{DT: 0x400B, Fail: -1, Data: DataSpec{Gen: true, Len: 1<<20 + r.Intn(70000), Seed: r.U64()},
					Opts: []DIOpt{{Kind: "group", N: label[gi]}}}
				g.count("base:oci-blob-of-a-megabyte")
			}
			if len(dis) > 0 && r.Chance(1, 5) {
				// byte-identical content to an earlier object (digest collisions by equality)
				di.Data = dis[r.Intn(len(dis))].Data
				g.count("base:duplicate-content")
			}
			dis = append(dis, di)
			gids = append(gids, label[gi])
		}
	}
	if ng > 1 && r.Chance(1, 3) {
		for i := len(dis) - 1; i > 0; i-- {
			j := r.Intn(i + 1)
			dis[i], dis[j] = dis[j], dis[i]
			gids[i], gids[j] = gids[j], gids[i]
		}
		g.count("base:groups-interleaved")
	}
	for i, gid := range gids {
		groups[gid] = append(groups[gid], uint32(i+1))
	}
	op := &Op{Kind: "create", Backend: "buf", COpts: []CreateOpt{{Kind: "cap", I: int64(len(dis) + spare)}}}
	if r.Chance(2, 3) {
		op.COpts = append(op.COpts, CreateOpt{Kind: "det"})
	} else {
		op.COpts = append(op.COpts, CreateOpt{Kind: "id", B: r.Bytes(16)}, CreateOpt{Kind: "time", I: int64(1500000000 + r.Intn(1000))})
	}
	if r.Chance(1, 2) {
		op.COpts = append(op.COpts, CreateOpt{Kind: "launch", B: []byte("#!/bin/run\n")})
	}
	op.COpts = append(op.COpts, CreateOpt{Kind: "descs", DIs: dis})
	return op, groups
}

// swapSlotsOp: exchange two used descriptor-table slots byte for byte and load the result — the
// same objects, IDs, groups and contents (the same protected view), only their table positions
// differ (an image another writer, or a re-packing tool, could have produced).
func (g *Gen) swapSlotsOp(groups map[uint32][]uint32) *Op {
	r := g.r
	gs := sortedGroups(groups)
	var cand []uint32
	for _, gid := range gs {
		if len(groups[gid]) > 1 {
			cand = append(cand, gid)
		}
	}
	var a, b uint32
	if len(cand) > 0 && r.Chance(3, 4) {
		// inside one group, preferably moving its lowest ID away from the front
		ids := groups[pick(r, cand)]
		a = ids[0]
		if r.Chance(1, 3) {
			a = pick(r, ids)
		}
		for b = pick(r, ids); b == a; b = pick(r, ids) {
		}
	} else {
		var all []uint32
		for _, gid := range gs {
			all = append(all, groups[gid]...)
		}
		if len(all) < 2 {
			return nil
		}
		a = pick(r, all)
		for b = pick(r, all); b == a; b = pick(r, all) {
		}
	}
	g.count("relocate:swap-table-slots")
	return &Op{Kind: "patch", SwapSlots: []int{int(a) - 1, int(b) - 1}}
}

func (g *Gen) signKeys() SOpts {
	r := g.r
	u := getUniverse()
	s := SOpts{PGP: -1, T: pick(r, []TOpt{{Kind: "det"}, {Kind: "at", T: 1504657553}, {Kind: "at", T: 1600000000}, {Kind: "dflt"}})}
	if r.Chance(2, 5) {
		s.PGP = r.Intn(len(u.PGP))
		s.NoSalt = r.Chance(1, 2)
	} else {
		n := 1 + r.Intn(2)
		seen := map[int]bool{}
		for len(s.DSSE) < n {
			k := 100 + r.Intn(len(u.DSSE))
			if !seen[k] {
				seen[k] = true
				s.DSSE = append(s.DSSE, k)
			}
		}
	}
	return s
}

func (s SOpts) keyList() []int {
	if s.PGP >= 0 {
		return []int{s.PGP}
	}
	return s.DSSE
}

// trustFor builds key material that contains exactly the given keys.
func trustFor(keys []int) VOpts {
	v := VOpts{NoVS: true, NoKR: true}
	for _, k := range keys {
		if k >= 100 {
			v.VS = append(v.VS, k)
			v.NoVS = false
		} else {
			v.KR = append(v.KR, k)
			v.NoKR = false
		}
	}
	return v
}

func keysOp() *Op  { return &Op{Kind: "keys"} }
func factsOp() *Op { return &Op{Kind: "facts"} }
func obsOp() *Op   { return &Op{Kind: "obs", Inv: true} }

func sortedGroups(m map[uint32][]uint32) []uint32 {
	var gs []uint32
	for g := range m {
		gs = append(gs, g)
	}
	sort.Slice(gs, func(a, b int) bool { return gs[a] < gs[b] })
	return gs
}

// selection picks what to sign and the matching verification request.
func (g *Gen) selection(groups map[uint32][]uint32) (s SOpts, v VOpts, covered []uint32) {
	r := g.r
	s = g.signKeys()
	gs := sortedGroups(groups)
	k := r.Intn(4)
	if len(gs) >= 2 && r.Chance(1, 5) {
		k = 4
	}
	switch k {
	case 4: // chosen objects of several groups in one request, mentioned in any order
		for _, gid := range gs {
			if len(covered) > 0 && r.Chance(1, 3) && gid != gs[len(gs)-1] {
				continue
			}
			for _, id := range groups[gid] {
				if r.Chance(2, 3) {
					covered = append(covered, id)
				}
			}
		}
		if len(covered) == 0 {
			covered = []uint32{groups[gs[0]][0], groups[gs[1]][0]}
		}
		for i := len(covered) - 1; i > 0; i-- {
			j := r.Intn(i + 1)
			covered[i], covered[j] = covered[j], covered[i]
		}
		s.ObjSets = [][]uint32{covered}
		v.Objects = append([]uint32(nil), covered...)
		g.count("select:objects-across-groups")
	case 0, 1: // everything
		for _, gid := range gs {
			covered = append(covered, groups[gid]...)
		}
		g.count("select:all")
	case 2: // one group
		gid := pick(r, gs)
		s.Groups = []uint32{gid}
		v.Groups = []uint32{gid}
		covered = append(covered, groups[gid]...)
		g.count("select:group")
	default: // a non-empty subset of one group's objects
		gid := pick(r, gs)
		var set []uint32
		for _, id := range groups[gid] {
			if r.Chance(1, 2) {
				set = append(set, id)
			}
		}
		if len(set) == 0 {
			set = []uint32{groups[gid][0]}
		}
		s.ObjSets = [][]uint32{set}
		v.Objects = set
		covered = set
		g.count("select:objects")
	}
	t := trustFor(s.keyList())
	v.VS, v.KR, v.NoVS, v.NoKR = t.VS, t.KR, t.NoVS, t.NoKR
	return
}

// ---- hand-made signature objects (legacy SIFHASH, foreign payload types) ----

func legacyBlob(ent int, content []byte, ht crypto.Hash) []byte {
	u := getUniverse()
	var sum []byte
	switch ht {
	case crypto.SHA384:
		s := sha512.Sum384(content)
		sum = s[:]
	case crypto.SHA512:
		s := sha512.Sum512(content)
		sum = s[:]
	default:
		s := sha256.Sum256(content)
		sum = s[:]
	}
	var b bytes.Buffer
	w, err := clearsign.Encode(&b, u.PGP[ent].PrivateKey, &packet.Config{Time: func() time.Time { return time.Unix(1504657553, 0) }})
	if err != nil {
		return nil
	}
	fmt.Fprintf(w, "SIFHASH:\n%s", hex.EncodeToString(sum))
	w.Close()
	return b.Bytes()
}

// pgpFP: the fingerprint of universe entity k's primary key, or (k >= 1000) of the first subkey of entity k-1000
func pgpFP(k int) []byte {
	u := getUniverse()
	if k >= 1000 {
		return u.PGP[k-1000].Subkeys[0].PublicKey.Fingerprint
	}
	return u.PGP[k].PrimaryKey.Fingerprint
}

// clearsignedText: any text clear-signed by a universe entity
func clearsignedText(ent int, text string) []byte {
	u := getUniverse()
	var b bytes.Buffer
	w, err := clearsign.Encode(&b, u.PGP[ent].PrivateKey, &packet.Config{Time: func() time.Time { return time.Unix(1504657553, 0) }})
	if err != nil {
		return nil
	}
	fmt.Fprint(w, text)
	w.Close()
	return b.Bytes()
}

func foreignPayloadBlob(key int, ptype string, payload []byte) []byte {
	u := getUniverse()
	s := dsse.WrapMultiSigner(ptype, u.DSSE[key-100].sv)
	b, err := s.SignMessage(bytes.NewReader(payload))
	if err != nil {
		return nil
	}
	return b
}

func sigObjectDI(blob []byte, linkGroup uint32, linkObj uint32, ht int64, fp []byte, group uint32) DI {
	di := DI{DT: 0x4005, Fail: -1, Data: DataSpec{Lit: blob}}
	if group == 0 {
		di.Opts = append(di.Opts, DIOpt{Kind: "nogroup"})
	} else {
		di.Opts = append(di.Opts, DIOpt{Kind: "group", N: group})
	}
	if linkGroup != 0 {
		di.Opts = append(di.Opts, DIOpt{Kind: "linkgroup", N: linkGroup})
	} else if linkObj != 0 {
		di.Opts = append(di.Opts, DIOpt{Kind: "link", N: linkObj})
	}
	di.Opts = append(di.Opts, DIOpt{Kind: "sig", I: ht, B: fp})
	return di
}

// ---- running one scenario with property oracles ----

type integCtx struct {
	prop string
	g    *Gen
}

// runScenario executes the ops, calling check after each with the env and observation lines.
func runScenario(dir string, ops []*Op, check func(e *Env, i int, op *Op, obs []string) *Violation) (*Case, []*Violation) {
	e := &Env{dir: dir}
	defer e.Close()
	c := &Case{}
	var vs []*Violation
	for i, op := range ops {
		cp := *op
		obs := e.Apply(&cp)
		c.Ops = append(c.Ops, &cp)
		c.record(i, &cp, obs)
		if check != nil {
			if v := check(e, i, &cp, obs); v != nil {
				vs = append(vs, v)
			}
		}
	}
	return c, vs
}

func integKinds() map[string]bool {
	return kinds("res", "hdr", "obj", "file", "v", "vr", "fp", "sg", "md", "shape", "other")
}

func integLineKind(l string) string {
	switch {
	case strings.HasPrefix(l, "v "):
		return "v"
	case strings.HasPrefix(l, "vr "):
		return "vr"
	case strings.HasPrefix(l, "fp "):
		return "fp"
	case strings.HasPrefix(l, "sg "):
		return "sg"
	case strings.HasPrefix(l, "md "):
		return "md"
	}
	return lineKind(l)
}

// Scenario generators, one per property.  Each returns the op list and a checker closure that
// implements the property's implementation-only oracle.
type scenGen func(g *Gen, dir string) ([]*Op, func(e *Env, i int, op *Op, obs []string) *Violation)

// C06: whatever was signed verifies (same handle, reload, co-sign, changes elsewhere).
func scenC06(g *Gen, dir string) ([]*Op, func(e *Env, i int, op *Op, obs []string) *Violation) {
	r := g.r
	g.crowdedGroup = r.Chance(1, 25)
	create, groups := g.baseImage(4, 8)
	g.crowdedGroup = false
	ops := []*Op{keysOp(), create}
	// pre-signing history: a group is emptied, its low slot goes to another group, and the group
	// number is used again (whatever the handle remembers about the old members must be gone)
	if gs0 := sortedGroups(groups); len(gs0) >= 2 && r.Chance(1, 5) {
		gid := pick(r, gs0)
		other := gs0[0]
		if other == gid {
			other = gs0[1]
		}
		ops = append(ops,
			&Op{Kind: "del", Sel: Sel{Kind: "grp", N: int64(gid)}, T: TOpt{Kind: "det"}, Compact: r.Chance(1, 2)},
			&Op{Kind: "add", T: TOpt{Kind: "det"}, DI: DI{DT: 0x4007, Fail: -1, Data: DataSpec{Lit: r.Bytes(7)}, Opts: []DIOpt{{Kind: "group", N: other}}}},
			&Op{Kind: "add", T: TOpt{Kind: "det"}, DI: DI{DT: 0x4007, Fail: -1, Data: DataSpec{Lit: r.Bytes(11)}, Opts: []DIOpt{{Kind: "group", N: gid}}}})
		g.count("pre:group-emptied-and-reused")
		groups = nil
	} else if gs0 := sortedGroups(groups); len(gs0) >= 2 && r.Chance(1, 5) {
		// the lowest slot of the table is freed (it belonged to another group) and an add into a
		// group is then refused: whatever the refused call computed about that group must be gone
		var lo uint32
		for _, gid := range gs0 {
			if groups[gid][0] == 1 {
				lo = gid
			}
		}
		var into []uint32
		for _, gid := range gs0 {
			if gid != lo {
				into = append(into, gid)
			}
		}
		if lo != 0 && len(into) > 0 {
			gid := pick(r, into)
			bad := DI{DT: 0x4007, Fail: -1, Data: DataSpec{Lit: r.Bytes(5)}, Opts: []DIOpt{{Kind: "group", N: gid}}}
			switch r.Intn(3) {
			case 0:
				bad.Opts = append(bad.Opts, DIOpt{Kind: "name", B: bytes.Repeat([]byte{'n'}, 129)})
			case 1:
				bad.Opts = append(bad.Opts, DIOpt{Kind: "md", MD: MD{Kind: "raw", B: r.Bytes(385)}})
			default:
				bad.Fail = 2
			}
			ops = append(ops, &Op{Kind: "del", Sel: Sel{Kind: "id", N: 1}, T: TOpt{Kind: "det"}}, &Op{Kind: "add", T: TOpt{Kind: "det"}, DI: bad})
			groups[lo] = groups[lo][1:]
			if len(groups[lo]) == 0 {
				delete(groups, lo)
			}
			g.count("pre:refused-add-below-group")
		}
	} else if r.Chance(1, 3) {
		gid := pick(r, sortedGroups(groups))
		if len(groups[gid]) > 1 {
			ops = append(ops, &Op{Kind: "del", Sel: Sel{Kind: "id", N: int64(groups[gid][0])}, T: TOpt{Kind: "det"}, Compact: r.Chance(1, 2)})
			groups[gid] = groups[gid][1:]
			g.count("pre:delete-lowest")
			if r.Chance(1, 2) {
				// re-add into the same group: the freed low slot is reused
				ops = append(ops, &Op{Kind: "add", T: TOpt{Kind: "det"}, DI: DI{DT: 0x4007, Fail: -1, Data: DataSpec{Lit: r.Bytes(9)}, Opts: []DIOpt{{Kind: "group", N: gid}}}})
				g.count("pre:readd-low-slot")
				groups = nil // IDs no longer tracked exactly: sign/verify everything
			}
		}
	}
	var s SOpts
	var v VOpts
	var covered []uint32
	relocated := false
	if groups == nil {
		s = g.signKeys()
		v = trustFor(s.keyList())
	} else {
		if r.Chance(1, 4) {
			// the image to be signed was laid out by another writer: same objects, other slots
			if sw := g.swapSlotsOp(groups); sw != nil {
				ops = append(ops, sw)
				relocated = true
				g.count("pre:relocated")
			}
		}
		s, v, covered = g.selection(groups)
	}
	if r.Chance(1, 6) {
		// the image to be signed carries the builder's uid/gid in its descriptors (early releases
		// recorded them; the fields are part of the descriptor integrity stream): whatever signing
		// and later table rewrites do, what was signed has to verify
		slot := r.Intn(2)
		le := func(v uint64) []byte {
			o := make([]byte, 8)
			for k := 0; k < 8; k++ {
				o[k] = byte(v >> (8 * k))
			}
			return o
		}
		ops = append(ops, &Op{Kind: "patch", Sites: []PatchSite{
			{Off: int64(4096 + 585*slot + 57), B: le(uint64(1000 + r.Intn(5)))},
			{Off: int64(4096 + 585*slot + 65), B: le(uint64(100 + r.Intn(5)))}}})
		g.count("pre:descriptors-record-uid-gid")
	}
	signIdx := len(ops)
	ops = append(ops, &Op{Kind: "sign", S: s}, factsOp(), &Op{Kind: "obs", Inv: !relocated})
	verIdx := len(ops)
	ops = append(ops, &Op{Kind: "verify", V: v})
	ver6 := -1
	if groups != nil && len(v.Groups) == 0 && len(v.Objects) == 0 && r.Chance(1, 4) {
		// the same protected view under other numbers: a whole group's object IDs shifted together
		// (links are protected as written and stay), or the group renumbered
		gid := pick(r, sortedGroups(groups))
		if r.Chance(1, 2) {
			ops = append(ops, &Op{Kind: "patch", Raw: []string{"renamegroup", fmt.Sprint(gid), fmt.Sprint(40 + r.Intn(5))}}, factsOp())
			g.count("post:group-renamed")
		} else {
			ops = append(ops, &Op{Kind: "patch", Raw: []string{"shiftgroup", fmt.Sprint(gid), fmt.Sprint(200 + r.Intn(9))}}, factsOp())
			g.count("post:group-ids-shifted")
		}
		ver6 = len(ops)
		ops = append(ops, &Op{Kind: "verify", V: v})
		covered = nil
	}
	ver5 := -1
	if groups != nil && ver6 < 0 && r.Chance(1, 3) {
		// another image presenting the same protected view: two objects exchange table slots
		if sw := g.swapSlotsOp(groups); sw != nil {
			ops = append(ops, sw, factsOp())
			ver5 = len(ops)
			ops = append(ops, &Op{Kind: "verify", V: v})
			g.count("post:relocated")
		}
	}
	// after reloading the file
	ops = append(ops, &Op{Kind: "reload"}, factsOp())
	ver2 := len(ops)
	ops = append(ops, &Op{Kind: "verify", V: v})
	ver3, ver4 := -1, -1
	// a further party co-signs with the same selection
	if r.Chance(1, 2) {
		s2 := g.signKeys()
		s2.Groups, s2.ObjSets = s.Groups, s.ObjSets
		ops = append(ops, &Op{Kind: "sign", S: s2}, factsOp())
		v2 := trustFor(dedupInts(append(append([]int{}, s.keyList()...), s2.keyList()...)))
		v2.Groups, v2.Objects = v.Groups, v.Objects
		ver3 = len(ops)
		ops = append(ops, &Op{Kind: "verify", V: v2})
		v = v2
		g.count("post:cosign")
	}
	// objects in another (new) group are added: group/object-level verification is unaffected
	if (len(v.Groups) > 0 || len(v.Objects) > 0) && r.Chance(1, 2) {
		ops = append(ops, &Op{Kind: "add", T: TOpt{Kind: "det"}, DI: DI{DT: 0x4007, Fail: -1, Data: DataSpec{Lit: r.Bytes(5)}, Opts: []DIOpt{{Kind: "group", N: 9}}}}, factsOp())
		ver4 = len(ops)
		ops = append(ops, &Op{Kind: "verify", V: v})
		g.count("post:add-elsewhere")
	}
	_ = ver3
	var before []uint32
	check := func(e *Env, i int, op *Op, obs []string) *Violation {
		if i == signIdx-1 && e.f != nil {
			before = inspect(e.f).ids
		}
		if i == signIdx {
			if len(obs) == 0 || !strings.HasPrefix(obs[0], "sg ok") || obs[len(obs)-1] == "sg failed" {
				return &Violation{Prop: "C06", Key: "C06:sign-failed", What: "signing a well-formed image with a supported configuration failed: " + strings.Join(obs, " / "), Op: i}
			}
			// only ungrouped signature objects linked to a group were appended
			was := map[uint32]bool{}
			for _, id := range before {
				was[id] = true
			}
			var bad string
			e.f.WithDescriptors(func(d sif.Descriptor) bool {
				if !was[d.ID()] {
					_, isG := d.LinkedID()
					if d.DataType() != sif.DataSignature || d.GroupID() != 0 || !isG {
						bad = fmt.Sprintf("object %d appended by Sign is not an ungrouped signature linked to a group", d.ID())
					}
				}
				return false
			})
			if bad != "" {
				return &Violation{Prop: "C06", Key: "C06:sign-shape", What: bad, Op: i}
			}
		}
		if i == verIdx || i == ver2 || i == ver3 || i == ver4 || i == ver5 || i == ver6 {
			if len(obs) == 0 || !strings.HasPrefix(obs[0], "v ok") {
				where := map[int]string{verIdx: "on the signing handle", ver2: "after reload", ver3: "after co-signing", ver4: "after adding an object to another group",
					ver6: "on an image with the same protected view under other numbers (a group's IDs shifted together / the group renumbered)",
					ver5: "on an image with the same protected view whose objects occupy other table slots"}[i]
				return &Violation{Prop: "C06", Key: "C06:verify-failed", What: "verification of what was signed failed " + where + ": " + strings.Join(obs, " / "), Op: i}
			}
			if covered != nil && (i == verIdx || i == ver2 || i == ver5) {
				want := append([]uint32{}, covered...)
				sort.Slice(want, func(a, b int) bool { return want[a] < want[b] })
				got := map[uint32]bool{}
				for _, l := range obs[1:] {
					for _, x := range strings.Split(fieldOf(l, "verified"), ",") {
						var id uint32
						if _, err := fmt.Sscan(x, &id); err == nil {
							got[id] = true
						}
					}
				}
				var gl []uint32
				for id := range got {
					gl = append(gl, id)
				}
				sort.Slice(gl, func(a, b int) bool { return gl[a] < gl[b] })
				if fmt.Sprint(gl) != fmt.Sprint(want) {
					return &Violation{Prop: "C06", Key: "C06:verified-set", What: fmt.Sprintf("verified objects %v, covered objects %v", gl, want), Op: i}
				}
			}
		}
		return nil
	}
	return ops, check
}

func fieldOf(line, key string) string {
	for _, f := range strings.Fields(line) {
		if strings.HasPrefix(f, key+"=") {
			return f[len(key)+1:]
		}
	}
	return ""
}

// C05: default verification covers the whole image — structural edits after signing.
func scenC05(g *Gen, dir string) ([]*Op, func(e *Env, i int, op *Op, obs []string) *Violation) {
	r := g.r
	create, groups := g.baseImage(3, 6)
	s := g.signKeys()
	ops := []*Op{keysOp(), create, {Kind: "sign", S: s}, factsOp()}
	v := trustFor(s.keyList())
	ver0 := len(ops)
	ops = append(ops, &Op{Kind: "verify", V: v})
	gs := sortedGroups(groups)
	gid := pick(r, gs)
	mustFail := true
	edit := ""
	var nobj uint32
	for _, x := range gs {
		nobj += uint32(len(groups[x]))
	}
	nsig := uint32(len(gs))
	total := int64(nobj) + 6
	contentEdit := -1
	vFinal := v
	switch k := r.Intn(20); k {
	case 19:
		// the group gets a second signature in the *other* format, from someone the verifier has no
		// key material for at all (PGP next to DSSE or the other way round): all of a group's
		// signatures have to be valid under the trusted keys, so the request must fail
		edit = "co-sign in the other signature format, verify with key material for the first format only"
		u := getUniverse()
		s2 := SOpts{PGP: -1, T: TOpt{Kind: "det"}}
		if s.PGP >= 0 {
			s2.DSSE = []int{100 + r.Intn(len(u.DSSE))}
		} else {
			s2.PGP = r.Intn(len(u.PGP))
			s2.NoSalt = true
		}
		ops = append(ops, &Op{Kind: "sign", S: s2})
	case 18:
		// an unsigned object that is typed as a signature and linked to the very group it is put
		// into (its bytes: a well-formed legacy-format blob, which non-legacy verification does not
		// take for a signature of the group): it is a member of the group like any other
		edit = "add an unsigned signature-typed object, linked to the group, into the signed group"
		data := r.Bytes(5)
		ent := r.Intn(len(getUniverse().PGP))
		ops = append(ops, &Op{Kind: "add", T: TOpt{Kind: "det"}, DI: sigObjectDI(legacyBlob(ent, data, crypto.SHA256), gid, 0, 1, getUniverse().PGP[ent].PrimaryKey.Fingerprint, gid)})
	case 17:
		// co-sign, then lose the end of the file (a copy that stopped early): the last signature
		// object, one of two its group now has, reaches past the end of the storage
		edit = "co-sign, then cut the file short inside the last signature object"
		s2 := g.signKeys()
		vFinal = trustFor(append(s.keyList(), s2.keyList()...))
		ops = append(ops, &Op{Kind: "sign", S: s2}, &Op{Kind: "ftrunc", Lib: true, N: int64(1 + r.Intn(40)), Raw: []string{"fromend"}})
	case 16:
		// an unsigned object whose group field names a signed group in its low 28 bits under
		// another flag nibble than the library writes (another writer's encoding): it decodes as a
		// member of that group
		edit = "add an unsigned object whose group field names a signed group under a non-canonical flag nibble"
		ops = append(ops, &Op{Kind: "add", T: TOpt{Kind: "det"}, DI: DI{DT: 0x4007, Fail: -1, Data: DataSpec{Lit: r.Bytes(4)}, Opts: []DIOpt{{Kind: "group", N: 7}}}},
			&Op{Kind: "patch", Sites: []PatchSite{{Off: int64(4096) + 585*int64(nobj+nsig) + 9, B: []byte{byte(gid), 0, 0, pick(r, []byte{0x00, 0x80, 0x70, 0x10})}}}})
	case 15:
		// a stale co-signature behind a fresh one: the group gets a second signature by another
		// key; the first signature is deleted; a member is replaced by an object with the same ID
		// and other content; the group is signed again (the new signature takes the freed slot, in
		// front of the second one, which still describes the replaced member)
		edit = "replace a member, re-sign in front of a co-signature that describes the old member"
		idx := 0
		for k, x := range gs {
			if x == gid {
				idx = k
			}
		}
		s2 := g.signKeys()
		s2.Groups = []uint32{gid}
		x := pick(r, groups[gid])
		s3 := s
		s3.Groups = []uint32{gid}
		ops = append(ops, &Op{Kind: "sign", S: s2},
			&Op{Kind: "del", Sel: Sel{Kind: "id", N: int64(nobj) + int64(idx) + 1}, T: TOpt{Kind: "det"}},
			&Op{Kind: "del", Sel: Sel{Kind: "id", N: int64(x)}, T: TOpt{Kind: "det"}},
			&Op{Kind: "add", T: TOpt{Kind: "det"}, DI: DI{DT: 0x4007, Fail: -1, Data: DataSpec{Lit: r.Bytes(9)}, Opts: []DIOpt{{Kind: "group", N: gid}}}},
			&Op{Kind: "sign", S: s3})
		vFinal = trustFor(dedupInts(append(append([]int{}, s.keyList()...), s2.keyList()...)))
	case 14:
		// AddObject of an object in a new group, cut short between its table write and its header
		// write; the file is opened again with the old header (stale free count and data size)
		edit = "add object in a new group, interrupted before the header write, file reopened"
		ops = append(ops, &Op{Kind: "add", T: TOpt{Kind: "det"}, DI: DI{DT: pick(r, []int32{0x4007, 0x4001}), Fail: -1, Data: DataSpec{Lit: r.Bytes(1 + r.Intn(8))}, Opts: []DIOpt{{Kind: "group", N: 7}}}},
			&Op{Kind: "patch", Raw: []string{"tornheader"}})
	case 13:
		// the bytes of a signed object change in place, its descriptor untouched
		edit = "flip a bit in the content of a signed object"
		contentEdit = len(ops)
		ops = append(ops, &Op{Kind: "patch", Raw: []string{"20", fmt.Sprint(total)}})
		mustFail = false // decided when the patch is made: only if an object has content
	case 12:
		// a new group whose only linked signature is of the other flavour (a legacy SIFHASH
		// clear-signature, by any key): no current-format signature covers the group
		edit = "add object in a new group carrying only a legacy-format signature"
		data := r.Bytes(6)
		ops = append(ops, &Op{Kind: "add", T: TOpt{Kind: "det"}, DI: DI{DT: 0x4007, Fail: -1, Data: DataSpec{Lit: data}, Opts: []DIOpt{{Kind: "group", N: 7}}}})
		ent := r.Intn(len(getUniverse().PGP))
		ops = append(ops, &Op{Kind: "add", T: TOpt{Kind: "det"}, DI: sigObjectDI(legacyBlob(ent, data, crypto.SHA256), 7, 0, 1, getUniverse().PGP[ent].PrimaryKey.Fingerprint, 0)})
	case 11:
		// a byte-for-byte copy of one member's descriptor over another member's slot: the group
		// keeps its size and every in-use ID is a signed ID, but a signed object is gone
		edit = "overwrite a member's slot with a copy of another member's slot"
		if len(groups[gid]) < 2 {
			edit = "delete the only object of a signed group"
			ops = append(ops, &Op{Kind: "del", Sel: Sel{Kind: "id", N: int64(groups[gid][0])}, T: TOpt{Kind: "det"}})
			break
		}
		a := r.Intn(len(groups[gid]))
		b := (a + 1 + r.Intn(len(groups[gid])-1)) % len(groups[gid])
		ops = append(ops, &Op{Kind: "patch", CopySlot: []int{int(groups[gid][a]) - 1, int(groups[gid][b]) - 1}})
	case 0:
		edit = "add unsigned object to a signed group"
		ops = append(ops, &Op{Kind: "add", T: TOpt{Kind: "det"}, DI: DI{DT: 0x4007, Fail: -1, Data: DataSpec{Lit: r.Bytes(4)}, Opts: []DIOpt{{Kind: "group", N: gid}}}})
	case 1:
		edit = "add object in a new group"
		dt := pick(r, []int32{0x4007, 0x4005, 0x4001})
		ops = append(ops, &Op{Kind: "add", T: TOpt{Kind: "det"}, DI: DI{DT: dt, Fail: -1, Data: DataSpec{Lit: r.Bytes(4)}, Opts: []DIOpt{{Kind: "group", N: 7}}}})
	case 2:
		edit = "add ungrouped non-signature object"
		ops = append(ops, &Op{Kind: "add", T: TOpt{Kind: "det"}, DI: DI{DT: 0x4007, Fail: -1, Data: DataSpec{Lit: r.Bytes(4)}, Opts: []DIOpt{{Kind: "nogroup"}}}})
		if r.Chance(1, 2) {
			edit = "add two ungrouped non-signature objects"
			ops = append(ops, &Op{Kind: "add", T: TOpt{Kind: "det"}, DI: DI{DT: pick(r, []int32{0x4007, 0x4001, 0x4002}), Fail: -1, Data: DataSpec{Lit: r.Bytes(3)}, Opts: []DIOpt{{Kind: "nogroup"}}}})
		}
	case 3:
		edit = "delete a signed object"
		if len(groups[gid]) == 1 {
			edit = "delete the only object of a signed group"
		}
		ops = append(ops, &Op{Kind: "del", Sel: Sel{Kind: "id", N: int64(pick(r, groups[gid]))}, T: TOpt{Kind: "det"}})
	case 4:
		edit = "delete a signature"
		ops = append(ops, &Op{Kind: "del", Sel: Sel{Kind: "id", N: int64(nobj + 1 + uint32(r.Intn(int(nsig))))}, T: TOpt{Kind: "det"}})
	case 5:
		edit = "set metadata of a signed object"
		ops = append(ops, &Op{Kind: "setmeta", ID: pick(r, groups[gid]), MD: MD{Kind: "raw", B: r.Bytes(7)}, T: TOpt{Kind: "det"}})
	default:
		// descriptor-table edits on the raw file: used flag, ID, group, link, type of any slot
		slot := int64(r.Intn(int(total)))
		base := int64(4096) + 585*slot
		var site PatchSite
		switch k {
		case 6:
			edit = "flip used flag of a slot"
			site = PatchSite{Off: base + 4, B: []byte{byte(r.Intn(2))}}
		case 7:
			edit = "rewrite ID of a slot"
			site = PatchSite{Off: base + 5, B: []byte{byte(1 + r.Intn(int(total))), 0, 0, 0}}
		case 8:
			edit = "rewrite group of a slot"
			site = PatchSite{Off: base + 9, B: []byte{byte(r.Intn(4)), 0, 0, 0xf0}}
		case 9:
			edit = "rewrite link of a slot"
			site = PatchSite{Off: base + 13, B: pick(r, [][]byte{{1, 0, 0, 0xf0}, {2, 0, 0, 0xf0}, {1, 0, 0, 0}, {0, 0, 0, 0}})}
		default:
			edit = "rewrite type of a slot"
			dt := pick(r, []int32{0x4005, 0x4007, 0x4001})
			site = PatchSite{Off: base, B: []byte{byte(dt), byte(dt >> 8), 0, 0}}
		}
		mustFail = false // may be a no-op edit: the oracle compares protected structure instead
		ops = append(ops, &Op{Kind: "patch", Sites: []PatchSite{site}})
	}
	g.count("edit:" + edit)
	ops = append(ops, factsOp())
	ver1 := len(ops)
	ops = append(ops, &Op{Kind: "verify", V: vFinal})
	var orig protView
	var origStruct string
	check := func(e *Env, i int, op *Op, obs []string) *Violation {
		if i == ver0 {
			if len(obs) == 0 || !strings.HasPrefix(obs[0], "v ok") {
				return nil // base image did not verify (e.g. no free descriptor): nothing to conclude
			}
			orig = protectedView(e.f)
			origStruct = structureOf(e.f)
		}
		if i == contentEdit && op.N == 1 {
			mustFail = true
		}
		if i == ver1 && orig.Objs != nil && e.f != nil && len(obs) > 0 && strings.HasPrefix(obs[0], "v ok") {
			if mustFail {
				key := "C05:edit-accepted"
				if edit == "delete the only object of a signed group" {
					key = "C05:whole-group-removed"
				}
				return &Violation{Prop: "C05", Key: key, What: "default verification still succeeds after: " + edit, Op: i}
			}
			if st := structureOf(e.f); st != origStruct {
				if st == dropVanishedGroups(origStruct, st) {
					return &Violation{Prop: "C05", Key: "C05:whole-group-removed", What: fmt.Sprintf("default verification succeeds although a whole signed group disappeared (%s): %s -> %s", edit, origStruct, st), Op: i}
				}
				return &Violation{Prop: "C05", Key: "C05:structure-changed", What: fmt.Sprintf("default verification succeeds although the grouping/signature structure changed (%s): %s -> %s", edit, origStruct, st), Op: i}
			}
		}
		return nil
	}
	return ops, check
}

// structureOf summarises what default verification must pin down: which non-signature objects
// exist in which group at which position relative to the group's lowest ID (absolute IDs of a
// whole group may shift: only relative positions are protected), and how many signatures are
// linked to each group.
func structureOf(f *sif.FileImage) string {
	minID := map[uint32]uint32{}
	f.WithDescriptors(func(d sif.Descriptor) bool {
		if m, ok := minID[d.GroupID()]; !ok || d.ID() < m {
			minID[d.GroupID()] = d.ID()
		}
		return false
	})
	var p []string
	f.WithDescriptors(func(d sif.Descriptor) bool {
		l, g := d.LinkedID()
		if d.DataType() == sif.DataSignature && d.GroupID() == 0 {
			p = append(p, fmt.Sprintf("S->%d/%v", l, g))
		} else {
			p = append(p, fmt.Sprintf("O+%d@%d", d.ID()-minID[d.GroupID()], d.GroupID()))
		}
		return false
	})
	sort.Strings(p)
	return strings.Join(p, " ")
}

// dropVanishedGroups removes from the original structure the members of groups that have no
// member at all in the new structure (the known whole-group-removal finding D10).
func dropVanishedGroups(orig, now string) string {
	present := map[string]bool{}
	for _, t := range strings.Fields(now) {
		if strings.HasPrefix(t, "O") {
			present[t[strings.Index(t, "@"):]] = true
		}
	}
	var keep []string
	for _, t := range strings.Fields(orig) {
		if strings.HasPrefix(t, "O") && !present[t[strings.Index(t, "@"):]] {
			continue
		}
		keep = append(keep, t)
	}
	return strings.Join(keep, " ")
}

// C04: tamper evidence — byte-level modifications of a signed image.
func scenC04(g *Gen, dir string) ([]*Op, func(e *Env, i int, op *Op, obs []string) *Violation) {
	r := g.r
	g.bigBlob = r.Chance(1, 25)
	bigBlob := g.bigBlob
	create, groups := g.baseImage(2, 4)
	g.bigBlob = false
	s := g.signKeys()
	ops := []*Op{keysOp(), create}
	subset := r.Chance(1, 5) && !bigBlob
	var v VOpts
	if subset {
		// only some objects are signed (one group, chosen objects of one or of several groups),
		// possibly on an image whose objects another writer put in other table slots
		if r.Chance(1, 2) {
			if sw := g.swapSlotsOp(groups); sw != nil {
				ops = append(ops, sw)
				g.count("base:relocated")
			}
		}
		s, v, _ = g.selection(groups)
		g.count("request:what-was-signed")
	}
	ops = append(ops, &Op{Kind: "sign", S: s}, factsOp())
	if !subset {
		v = trustFor(s.keyList())
	}
	// what is asked to be verified: everything (default), one group, or chosen objects
	switch k := r.Intn(4); {
	case subset:
	case k == 0:
		v.Groups = []uint32{pick(r, sortedGroups(groups))}
		g.count("request:group")
	case k == 1:
		ids := groups[pick(r, sortedGroups(groups))]
		v.Objects = []uint32{pick(r, ids)}
		if r.Chance(1, 2) {
			v.Objects = append(v.Objects, pick(r, ids))
		}
		g.count("request:objects")
	default:
		g.count("request:default")
	}
	ver0 := len(ops)
	ops = append(ops, &Op{Kind: "verify", V: v})
	var nobj int
	for _, x := range groups {
		nobj += len(x)
	}
	total := nobj + 4
	// one Verifier value kept and used again after the bytes changed behind the handle's back
	// (another writer on the same storage): what it reports the second time is held to the same rule
	held := r.Chance(1, 5)
	if held {
		ops = append(ops, &Op{Kind: "vhold", V: v}, &Op{Kind: "vheld", N: 0})
		if r.Chance(1, 2) {
			ops = append(ops, &Op{Kind: "vheld", N: int64(1 + r.Intn(2))})
		}
		g.count("request:one-verifier-before-and-after-the-edit")
	}
	// choose the tampering: single-bit flip anywhere, or a field rewrite from the catalogue
	patchIdx := len(ops)
	ops = append(ops, &Op{Kind: "patch"}) // sites filled in by the checker once the file length is known
	if held {
		ops[patchIdx].Kind = "poke"
	}
	forge := r.Chance(1, 6) && !held && !subset
	if forge && s.PGP >= 0 {
		// the clear-sign analogue: someone without a trusted key signs the image as it is now; both
		// armored blocks go into one signature object
		u := getUniverse()
		outsider := (s.PGP + 1 + r.Intn(len(u.PGP)-1)) % len(u.PGP)
		for _, gid := range sortedGroups(groups) {
			ops = append(ops, &Op{Kind: "sign", S: SOpts{PGP: outsider, Groups: []uint32{gid}, T: TOpt{Kind: "det"}, NoSalt: true}},
				&Op{Kind: "forge", S: SOpts{Groups: []uint32{gid}}, ID: uint32(r.Intn(2))})
		}
		g.count("tamper:two-clear-signed-blocks-in-one-signature-object")
	} else if forge {
		// parser-differential forgery: after the edit, someone without any trusted key signs the
		// image as it is now and splices that payload into the trusted signature's envelope under
		// a duplicate member name
		u := getUniverse()
		outsider := 100 + r.Intn(len(u.DSSE))
		for containsInt(s.DSSE, outsider) {
			outsider = 100 + (outsider-100+1)%len(u.DSSE)
		}
		for _, gid := range sortedGroups(groups) {
			ops = append(ops, &Op{Kind: "sign", S: SOpts{PGP: -1, DSSE: []int{outsider}, Groups: []uint32{gid}, T: TOpt{Kind: "det"}}},
				&Op{Kind: "forge", S: SOpts{Groups: []uint32{gid}}, ID: uint32(r.Intn(3))})
		}
		g.count("tamper:envelope-duplicate-member-forgery")
	}
	otherKind := false
	if gsAll := sortedGroups(groups); len(gsAll) >= 2 && !subset && !held && !forge && !bigBlob && len(v.Groups) == 0 && len(v.Objects) == 0 && r.Chance(1, 6) {
		// after the edit, every group but the first loses its signature and gets one in the *other*
		// signature format from somebody the verifier knows nothing about (it holds key material for
		// the first format only): the first group's genuine signature must not carry the others
		u := getUniverse()
		otherKind = true
		for k, gid := range gsAll[1:] {
			s2 := SOpts{PGP: -1, Groups: []uint32{gid}, T: TOpt{Kind: "det"}}
			if s.PGP >= 0 {
				s2.DSSE = []int{100 + r.Intn(len(u.DSSE))}
			} else {
				s2.PGP, s2.NoSalt = r.Intn(len(u.PGP)), true
			}
			ops = append(ops, &Op{Kind: "del", Sel: Sel{Kind: "id", N: int64(nobj + 2 + k)}, T: TOpt{Kind: "det"}}, &Op{Kind: "sign", S: s2})
		}
		g.count("tamper:other-groups-re-signed-in-the-other-format-by-a-stranger")
	}
	ops = append(ops, factsOp())
	ver1 := len(ops)
	ops = append(ops, &Op{Kind: "verify", V: v})
	mode := r.Intn(12)
	if mode == 11 {
		mode = 21 // a signature descriptor's Size enlarged
	}
	if r.Chance(1, 10) || (subset && r.Chance(1, 2)) {
		mode = 22 // two objects exchange their IDs
	}
	if r.Chance(1, 12) {
		mode = 23 // a second live descriptor under a signed object's ID
	}
	if forge {
		mode = 5 + r.Intn(2) // a data bit of an object
	}
	if held {
		ops[ver1] = &Op{Kind: "vheld", N: 0}
		if r.Chance(2, 3) {
			mode = 20 // a bit inside the content of an object
		}
	}
	if bigBlob && !forge {
		mode = 20
	}
	if otherKind {
		mode = 20 // a bit inside the content of an object
	}
	var orig protView
	var verifiedIDs []uint32
	check := func(e *Env, i int, op *Op, obs []string) *Violation {
		if i == ver0 {
			if len(obs) == 0 || !strings.HasPrefix(obs[0], "v ok") {
				return nil
			}
			orig = protectedView(e.f)
			for _, l := range obs[1:] {
				for _, x := range strings.Split(fieldOf(l, "verified"), ",") {
					var id uint32
					if _, err := fmt.Sscan(x, &id); err == nil {
						verifiedIDs = append(verifiedIDs, id)
					}
				}
			}
		}
		if i == ver1 && orig.Objs != nil && e.f != nil && len(obs) > 0 && strings.HasPrefix(obs[0], "v ok") {
			now := protectedView(e.f)
			if now.Launch != orig.Launch || now.Version != orig.Version || now.ID != orig.ID {
				return &Violation{Prop: "C04", Key: "C04:header-change-verifies", What: "launch script / version / image ID changed and verification still succeeds", Op: i}
			}
			// no alteration changes a covered object and still verifies: an object that the same
			// request reported verified before the edit, and that is still present under its ID,
			// still carries the protected attributes and content of a signed object
			for _, id := range verifiedIDs {
				for _, n := range now.Objs[id] {
					if n.DT == 0x4005 {
						continue
					}
					// (an edit can hand the ID to an object of another group — two objects exchange
					// their numbers —: that object is not the covered one, and nobody claims it is)
					sameGroup := false
					for _, o := range orig.Objs[id] {
						sameGroup = sameGroup || o.Group == n.Group
					}
					if !sameGroup {
						continue
					}
					same := false
					for _, os := range orig.Objs {
						for _, o := range os {
							same = same || o.equal(n)
						}
					}
					if !same {
						return &Violation{Prop: "C04", Key: "C04:covered-object-changed-verifies", What: fmt.Sprintf("object %d was covered by the verified signatures; after the edit its protected attributes/content are those of no signed object, yet the same verification still succeeds", id), Op: i}
					}
				}
			}
			for _, l := range obs[1:] {
				for _, x := range strings.Split(fieldOf(l, "verified"), ",") {
					var id uint32
					if _, err := fmt.Sscan(x, &id); err != nil {
						continue
					}
					// the object reported verified must be one of the signed ones, unchanged, at the
					// same position relative to its group
					found := false
					for _, os := range orig.Objs {
						for _, o := range os {
							for _, n := range now.Objs[id] {
								if o.equal(n) {
									found = true
								}
							}
						}
					}
					if !found {
						return &Violation{Prop: "C04", Key: "C04:tampered-object-verifies", What: fmt.Sprintf("object %d is reported verified but its protected attributes/content are not those of any signed object", id), Op: i}
					}
				}
			}
		}
		return nil
	}
	// the patch sites depend on the file: computed lazily through a pre-pass closure
	ops[patchIdx].Sites = nil
	ops[patchIdx].Raw = []string{fmt.Sprint(mode), fmt.Sprint(total)}
	return ops, check
}

// tableSlot is what the structured table edits need to know about one descriptor slot.
type tableSlot struct {
	o          int // byte offset of the slot
	used, sig  bool
	id, gid    uint32
	link       uint32
	off, size  int64
}

func parseTable(b []byte, total int) []tableSlot {
	var out []tableSlot
	for i := 0; i < total; i++ {
		o := 4096 + 585*i
		if o+585 > len(b) {
			break
		}
		le32 := func(p int) uint32 { return uint32(b[p]) | uint32(b[p+1])<<8 | uint32(b[p+2])<<16 | uint32(b[p+3])<<24 }
		le64 := func(p int) int64 { return int64(le32(p)) | int64(le32(p+4))<<32 }
		out = append(out, tableSlot{o: o, used: b[o+4] != 0, sig: b[o] == 0x05 && b[o+1] == 0x40, id: le32(o + 5), gid: le32(o + 9),
			link: le32(o + 13), off: le64(o + 17), size: le64(o + 25)})
	}
	return out
}

func put32(v uint32) []byte { return []byte{byte(v), byte(v >> 8), byte(v >> 16), byte(v >> 24)} }

// shiftGroupSites: every member of raw group gid gets its ID moved by k (the relative positions
// inside the group — what a signature protects — stay); withLinks also moves the members' links to
// data objects by k (which changes what they point at: protected).
func shiftGroupSites(b []byte, total int, gid uint32, k uint32, withLinks bool) []PatchSite {
	var sites []PatchSite
	for _, t := range parseTable(b, total) {
		if !t.used || t.gid != gid {
			continue
		}
		sites = append(sites, PatchSite{Off: int64(t.o + 5), B: put32(t.id + k)})
		if withLinks && t.link != 0 && t.link&0xf0000000 != 0xf0000000 {
			sites = append(sites, PatchSite{Off: int64(t.o + 13), B: put32(t.link + k)})
		}
	}
	return sites
}

// renameGroupSites: raw group gid becomes newGid everywhere: members and the links of the
// signatures (and anything else) linked to the group.
func renameGroupSites(b []byte, total int, gid, newGid uint32) []PatchSite {
	var sites []PatchSite
	for _, t := range parseTable(b, total) {
		if !t.used {
			continue
		}
		if t.gid == gid {
			sites = append(sites, PatchSite{Off: int64(t.o + 9), B: put32(newGid)})
		}
		if t.link == gid { // group links carry the same flag nibble as raw group ids
			sites = append(sites, PatchSite{Off: int64(t.o + 13), B: put32(newGid)})
		}
	}
	return sites
}

// fillPatch chooses tamper sites for a C04/C16 scenario once the file bytes are known.
func fillPatch(g *Gen, op *Op, b []byte) {
	r := g.r
	if len(op.Sites) > 0 || len(op.Raw) < 2 {
		return
	}
	var mode, total int
	fmt.Sscan(op.Raw[0], &mode)
	fmt.Sscan(op.Raw[1], &total)
	flip := func(off int) PatchSite {
		return PatchSite{Off: int64(off), B: []byte{b[off] ^ byte(1<<r.Intn(8))}}
	}
	tabEnd := 4096 + 585*total
	if tabEnd > len(b) {
		tabEnd = len(b)
	}
	switch {
	case mode == 24: // the last live non-signature descriptor takes the ID of the first one of its group
		ts := parseTable(b, total)
		var objs []tableSlot
		for _, t := range ts {
			if t.used && !t.sig {
				objs = append(objs, t)
			}
		}
		if len(objs) < 2 {
			return
		}
		last := objs[len(objs)-1]
		for _, t := range objs[:len(objs)-1] {
			if t.gid == last.gid {
				op.Sites = []PatchSite{{Off: int64(last.o + 5), B: put32(t.id)}}
				op.N = 1
				g.count("tamper:two-live-descriptors-one-id")
				return
			}
		}
		return
	case mode == 23: // a second in-use descriptor under a signed object's ID, in front of the genuine one
		// the genuine descriptor is copied into a free slot further down the table; the original slot
		// is then pointed at another object's bytes: two live descriptors carry the ID, the first
		// one with content nobody signed under that ID (another writer's numbering can do this; the
		// library's own never does)
		ts := parseTable(b, total)
		var objs []tableSlot
		free := -1
		for _, t := range ts {
			if t.used && !t.sig && t.size > 0 {
				objs = append(objs, t)
			}
			if !t.used {
				free = t.o
			}
		}
		if len(objs) < 2 || free < 0 || len(b) < 128 {
			op.Sites = []PatchSite{flip(r.Intn(128))}
			break
		}
		a := r.Intn(len(objs))
		c := (a + 1 + r.Intn(len(objs)-1)) % len(objs)
		x, y := objs[a], objs[c]
		if free < x.o {
			op.Sites = []PatchSite{flip(r.Intn(128))}
			break
		}
		put64 := func(v int64) []byte {
			o := make([]byte, 8)
			for k := 0; k < 8; k++ {
				o[k] = byte(v >> (8 * k))
			}
			return o
		}
		var dfree int64
		for k := 7; k >= 0; k-- {
			dfree = dfree<<8 | int64(b[80+k])
		}
		op.Sites = []PatchSite{
			{Off: int64(free), B: append([]byte{}, b[x.o:x.o+585]...)},
			{Off: int64(x.o + 17), B: append(put64(y.off), put64(y.size)...)},
			{Off: 80, B: put64(dfree - 1)}}
		op.N = 1
		g.count("tamper:second-descriptor-under-a-signed-id")
	case mode == 22: // the ID fields of two in-use non-signature descriptors exchanged (positions relative to the groups change)
		ts := parseTable(b, total)
		var objs []tableSlot
		for _, t := range ts {
			if t.used && !t.sig {
				objs = append(objs, t)
			}
		}
		if len(objs) < 2 {
			op.Sites = []PatchSite{flip(r.Intn(128))}
			break
		}
		a := r.Intn(len(objs))
		c := (a + 1 + r.Intn(len(objs)-1)) % len(objs)
		// prefer two objects of different groups
		for k := 0; k < 6 && objs[a].gid == objs[c].gid; k++ {
			c = (a + 1 + r.Intn(len(objs)-1)) % len(objs)
		}
		op.Sites = []PatchSite{{Off: int64(objs[a].o + 5), B: put32(objs[c].id)}, {Off: int64(objs[c].o + 5), B: put32(objs[a].id)}}
		g.count("tamper:two-object-ids-exchanged")
	case mode == 21: // the Size of a signature object's descriptor enlarged: its reader runs on into what follows (to the end of the file if need be)
		ts := parseTable(b, total)
		var sigs []tableSlot
		for _, t := range ts {
			if t.used && t.sig {
				sigs = append(sigs, t)
			}
		}
		if len(sigs) == 0 {
			op.Sites = []PatchSite{flip(r.Intn(128))}
			break
		}
		t := pick(r, sigs)
		ns := t.size + int64(pick(r, []int{1, 7, 300, 100000}))
		if r.Chance(1, 3) {
			ns = 0x0c42d46a21568883
		}
		v := make([]byte, 8)
		for k := 0; k < 8; k++ {
			v[k] = byte(ns >> (8 * k))
		}
		op.Sites = []PatchSite{{Off: int64(t.o + 25), B: v}}
		g.count("tamper:signature-size-enlarged")
	case mode == 20: // a bit inside the content of an in-use non-signature object (an OCI blob half of the time when there is one)
		ts := parseTable(b, total)
		var objs, blobs []tableSlot
		for _, t := range ts {
			if t.used && !t.sig && t.size > 0 && int(t.off)+int(t.size) <= len(b) {
				objs = append(objs, t)
				if b[t.o] == 0x0B && b[t.o+1] == 0x40 {
					blobs = append(blobs, t)
				}
			}
		}
		if len(objs) == 0 {
			return
		}
		t := pick(r, objs)
		if len(blobs) > 0 && r.Chance(1, 2) {
			t = pick(r, blobs)
			g.count("tamper:oci-blob-content-bit")
		}
		for _, bl := range blobs {
			if bl.size >= 1<<20 {
				t = bl
				g.count("tamper:megabyte-oci-blob-content-bit")
			}
		}
		op.Sites = []PatchSite{flip(int(t.off) + r.Intn(int(t.size)))}
		op.N = 1
		g.count("tamper:object-content-bit")
	case mode < 2: // header bit
		off := r.Intn(128)
		if r.Chance(2, 3) {
			// a byte of the launch script or of the image ID (the fields signatures protect)
			off = r.Intn(48)
			if off >= 32 {
				off += 16
			}
			g.count("tamper:protected-header-field-bit")
		}
		op.Sites = []PatchSite{flip(off)}
		g.count("tamper:header-bit")
	case mode < 5: // descriptor table bit
		op.Sites = []PatchSite{flip(4096 + r.Intn(tabEnd-4096))}
		g.count("tamper:table-bit")
	case mode < 7: // data bit (objects and signatures)
		if len(b) > tabEnd {
			off := tabEnd + r.Intn(len(b)-tabEnd)
			// objects whose bytes equal those of an earlier object (stored twice): aim at the later
			// copy half of the time — anything keyed by digest value instead of by object shows here
			type span struct{ off, n int }
			var spans, later []span
			for slot := 0; slot < total; slot++ {
				o := 4096 + 585*slot
				if o+33 <= len(b) && b[o+4] != 0 && !(b[o] == 0x05 && b[o+1] == 0x40) {
					doff := int(int64(b[o+17]) | int64(b[o+18])<<8 | int64(b[o+19])<<16 | int64(b[o+20])<<24)
					dsz := int(int64(b[o+25]) | int64(b[o+26])<<8 | int64(b[o+27])<<16)
					if dsz > 0 && doff >= 0 && doff+dsz <= len(b) {
						for _, e := range spans {
							if e.n == dsz && bytes.Equal(b[e.off:e.off+e.n], b[doff:doff+dsz]) {
								later = append(later, span{doff, dsz})
								break
							}
						}
						spans = append(spans, span{doff, dsz})
					}
				}
			}
			if len(later) > 0 && r.Chance(1, 2) {
				sp := pick(r, later)
				op.Sites = []PatchSite{flip(sp.off + r.Intn(sp.n))}
				g.count("tamper:data-bit-in-duplicate-copy")
				break
			}
			if r.Chance(2, 3) {
				// aim inside the data of a used non-signature object (the last bytes of a copy)
				slot := r.Intn(total)
				o := 4096 + 585*slot
				if o+33 <= len(b) && b[o+4] != 0 && !(b[o] == 0x05) {
					doff := int(int64(b[o+17]) | int64(b[o+18])<<8 | int64(b[o+19])<<16 | int64(b[o+20])<<24)
					dsz := int(int64(b[o+25]) | int64(b[o+26])<<8 | int64(b[o+27])<<16)
					if dsz > 0 && doff+dsz <= len(b) {
						off = doff + r.Intn(dsz)
					}
				}
			}
			op.Sites = []PatchSite{flip(off)}
		} else {
			op.Sites = []PatchSite{flip(r.Intn(128))}
		}
		g.count("tamper:data-bit")
	case mode >= 10: // a bit in the first bytes of a signature object's data (armor header, SIFHASH prefix, JSON framing)
		slot := r.Intn(total)
		site := flip(r.Intn(128))
		for k := 0; k < total; k++ {
			o := 4096 + 585*((slot+k)%total)
			if o+33 <= len(b) && b[o+4] != 0 && b[o] == 0x05 && b[o+1] == 0x40 {
				doff := int(int64(b[o+17]) | int64(b[o+18])<<8 | int64(b[o+19])<<16 | int64(b[o+20])<<24)
				dsz := int(int64(b[o+25]) | int64(b[o+26])<<8 | int64(b[o+27])<<16)
				if dsz > 0 && doff+dsz <= len(b) {
					n := 80
					if dsz < n {
						n = dsz
					}
					site = flip(doff + r.Intn(n))
					break
				}
			}
		}
		op.Sites = []PatchSite{site}
		g.count("tamper:signature-head-bit")
	case mode < 9: // field rewrite from the catalogue
		slot := r.Intn(total)
		base := int64(4096 + 585*slot)
		field := pick(r, []struct {
			off int64
			n   int
		}{{0, 4}, {4, 1}, {5, 4}, {9, 4}, {13, 4}, {17, 8}, {25, 8}, {33, 8}, {41, 8}, {49, 8}, {57, 8}, {65, 8}, {73, 4}, {201, 8}})
		val := make([]byte, field.n)
		switch r.Intn(4) {
		case 0:
			for k := range val {
				val[k] = 0xff
			}
		case 1:
			val[0] = byte(1 + r.Intn(5))
		case 2:
			copy(val, r.Bytes(field.n))
		default:
			val[field.n-1] = 0xf0
			val[0] = 1
		}
		op.Sites = []PatchSite{{Off: base + field.off, B: val}}
		g.count("tamper:field-rewrite")
	case mode == 9 && r.Chance(1, 3): // a second descriptor with a signed object's ID, pointing at other bytes
		ts := parseTable(b, total)
		var a, f, other *tableSlot
		for i := range ts {
			t := &ts[i]
			switch {
			case t.used && !t.sig && t.size > 0 && a == nil && r.Chance(1, 2):
				a = t
			case !t.used && f == nil:
				f = t
			}
		}
		for i := range ts {
			t := &ts[i]
			if a != nil && t.used && t.o != a.o && t.size >= a.size {
				other = t
			}
		}
		if a == nil || f == nil {
			op.Sites = []PatchSite{flip(r.Intn(128))}
			g.count("tamper:header-bit")
			break
		}
		cp := append([]byte(nil), b[a.o:a.o+585]...)
		if other != nil {
			no := other.off
			for k := 0; k < 8; k++ {
				cp[17+k] = byte(no >> (8 * k))
			}
		}
		op.Sites = []PatchSite{{Off: int64(f.o), B: cp}}
		g.count("tamper:duplicate-descriptor-redirected")
	case mode == 9 && r.Chance(1, 2): // a whole group renumbered, optionally with its object links
		ts := parseTable(b, total)
		var gids []uint32
		for _, t := range ts {
			if t.used && !t.sig && t.gid != 0 {
				gids = append(gids, t.gid)
			}
		}
		if len(gids) == 0 {
			op.Sites = []PatchSite{flip(r.Intn(128))}
			break
		}
		withLinks := r.Chance(1, 2)
		op.Sites = shiftGroupSites(b, total, pick(r, gids), uint32(100+r.Intn(5)), withLinks)
		g.count(fmt.Sprintf("tamper:group-ids-shifted links=%v", withLinks))
	case mode == 9 && r.Chance(1, 2): // set the group flag nibble of a link, keeping its low bits
		slot := r.Intn(total)
		for k := 0; k < total; k++ { // prefer a slot that has a link
			o := 4096 + 585*((slot+k)%total)
			if o+17 <= len(b) && (b[o+13] != 0 || b[o+14] != 0) {
				slot = (slot + k) % total
				break
			}
		}
		o := 4096 + 585*slot + 16
		op.Sites = []PatchSite{{Off: int64(o), B: []byte{b[o] | 0xf0}}}
		g.count("tamper:link-group-flag")
	case mode == 9 && r.Chance(1, 2): // zero the fingerprint of a signature descriptor
		slot := r.Intn(total)
		for k := 0; k < total; k++ {
			o := 4096 + 585*((slot+k)%total)
			if o+4 <= len(b) && b[o] == 0x05 && b[o+1] == 0x40 {
				slot = (slot + k) % total
				break
			}
		}
		op.Sites = []PatchSite{{Off: int64(4096 + 585*slot + 201 + 4), B: make([]byte, 20)}}
		g.count("tamper:zero-fingerprint")
	default: // swap two descriptors
		a, c := r.Intn(total), r.Intn(total)
		da := append([]byte{}, b[4096+585*a:4096+585*a+585]...)
		dc := append([]byte{}, b[4096+585*c:4096+585*c+585]...)
		op.Sites = []PatchSite{{Off: int64(4096 + 585*a), B: dc}, {Off: int64(4096 + 585*c), B: da}}
		g.count("tamper:descriptor-swap")
	}
}

// C07: trust comes only from supplied keys; reported signers are the real ones.
func scenC07(g *Gen, dir string) ([]*Op, func(e *Env, i int, op *Op, obs []string) *Violation) {
	r := g.r
	u := getUniverse()
	create, groups := g.baseImage(2, 8)
	s := g.signKeys()
	s.Groups = []uint32{1}
	ops := []*Op{keysOp(), create, {Kind: "sign", S: s}}
	signers := append([]int{}, s.keyList()...)
	// scheme mixtures on one group
	if r.Chance(1, 2) {
		s2 := g.signKeys()
		s2.Groups = []uint32{1}
		if len(groups[1]) > 1 && r.Chance(1, 3) {
			// a co-signature over a strict subset of the group's objects
			s2.Groups = nil
			s2.ObjSets = [][]uint32{groups[1][:1+r.Intn(len(groups[1])-1)]}
			g.count("mix:subset-cosignature")
		}
		ops = append(ops, &Op{Kind: "sign", S: s2})
		signers = append(signers, s2.keyList()...)
		g.count("mix:second-signature")
	}
	variant := r.Intn(12)
	if variant == 10 {
		variant = 6 // (the envelope variants have two sub-cases)
	}
	if variant == 11 {
		variant = 0 // (so have the fingerprint rewrites: random, absent, somebody else's)
	}
	if variant == 0 && s.PGP < 0 && len(ops) == 3 {
		// a fingerprint rewrite needs a signature that carries one: the first signer is a PGP entity
		s.PGP, s.DSSE, s.NoSalt = r.Intn(len(u.PGP)), nil, true
		ops[2] = &Op{Kind: "sign", S: s}
		signers = append([]int{}, s.keyList()...)
	}
	mangled := false
	hintKey := -1
	var nobj uint32
	for _, x := range groups {
		nobj += uint32(len(x))
	}
	switch variant {
	case 0: // fingerprint in the descriptor rewritten
		fp := r.Bytes(20)
		if r.Chance(1, 2) {
			fp = make([]byte, 20)
		} else if r.Chance(1, 2) && len(u.PGP) > 1 {
			fp = u.PGP[r.Intn(len(u.PGP))].PrimaryKey.Fingerprint
		}
		ops = append(ops, &Op{Kind: "patch", Sites: []PatchSite{{Off: 4096 + 585*int64(nobj) + 201 + 4, B: fp}}})
		g.count("variant:fingerprint-rewrite")
	case 1: // foreign payload type, signed by a key that will be trusted
		k := 100 + r.Intn(len(u.DSSE))
		blob := foreignPayloadBlob(k, pick(r, []string{"application/vnd.in-toto+json", "application/vnd.sylabs.sif-metadata+jso", "text/plain", ""}), []byte(`{"version":1,"header":{"digest":"sha256:00"},"objects":[]}`))
		ops = append(ops, &Op{Kind: "add", T: TOpt{Kind: "det"}, DI: sigObjectDI(blob, 1, 0, 1, nil, 0)})
		signers = append(signers, k)
		g.count("variant:foreign-payload-type")
	case 2: // unrecognised signature format
		if r.Chance(1, 2) {
			// a clear-signed message by somebody whose text merely *starts like* a legacy signature
			// ("SIFHASH:" not followed by a newline): it is not a legacy signature, so a non-legacy
			// request has to deal with it — and it is no valid signature of the group by a supplied key
			ent := r.Intn(len(u.PGP))
			text := pick(r, []string{"SIFHASH:{\"version\":1}", "SIFHASH: sha256:00", "SIFHASH:", "SIFHASH:\tdeadbeef\n", "SIFHASH:\r\nabcd"})
			ops = append(ops, &Op{Kind: "add", T: TOpt{Kind: "det"}, DI: sigObjectDI(clearsignedText(ent, text), 1, 0, 1, u.PGP[ent].PrimaryKey.Fingerprint, 0)})
			g.count("variant:clear-signed-text-that-starts-like-a-legacy-signature")
			break
		}
		ops = append(ops, &Op{Kind: "add", T: TOpt{Kind: "det"}, DI: sigObjectDI(pick(r, [][]byte{[]byte("not a signature"), {}, []byte("{}"), []byte("-----BEGIN PGP SIGNED MESSAGE-----\n")}), 1, 0, 1, nil, 0)})
		g.count("variant:unrecognised-format")
	case 7: // the same entity signs the group twice; the second signature's descriptor is rewritten to name somebody else
		if s.PGP >= 0 && len(u.PGP) > 1 {
			nsig := int64(1)
			for _, o := range ops {
				if o.Kind == "sign" {
					nsig++
				}
			}
			nsig-- // signatures present so far (one per sign op on group 1)
			other := (s.PGP + 1 + r.Intn(len(u.PGP)-1)) % len(u.PGP)
			ops = append(ops, &Op{Kind: "sign", S: SOpts{PGP: s.PGP, Groups: []uint32{1}, T: TOpt{Kind: "det"}, NoSalt: true}},
				&Op{Kind: "patch", Sites: []PatchSite{{Off: 4096 + 585*(int64(nobj)+nsig) + 201 + 4, B: u.PGP[other].PrimaryKey.Fingerprint}}})
			g.count("variant:signed-twice-second-descriptor-names-another")
		}
	case 6: // a co-signature whose envelope carries one more "signatures" entry that is no signature; one Verifier sees it, then sees it gone
		if s.PGP < 0 {
			var other []int
			for k := 100; k < 100+len(u.DSSE); k++ {
				if !containsInt(signers, k) {
					other = append(other, k)
				}
			}
			if len(other) > 1 && r.Chance(1, 2) {
				// a co-signature from another writer whose "keyid" hints are not the truth: an extra
				// entry that names a key the verifier is given but carries no signature of it, or no
				// hint at all on the genuine entry.  The envelope is valid; who validated it is not
				// what the hints say.
				k1 := pick(r, other)
				k2 := pick(r, other)
				for k2 == k1 {
					k2 = pick(r, other)
				}
				ops = append(ops, &Op{Kind: "sign", S: SOpts{PGP: -1, DSSE: []int{k1}, Groups: []uint32{1}, T: TOpt{Kind: "det"}}},
					&Op{Kind: "mangle", S: SOpts{Groups: []uint32{1}, DSSE: []int{k2}}, N: int64(3 + r.Intn(2))})
				signers = append(signers, k1)
				hintKey = k2
				g.count("variant:envelope-with-untruthful-keyid-hints")
			} else if len(other) > 0 {
				k1 := pick(r, other)
				ops = append(ops, &Op{Kind: "sign", S: SOpts{PGP: -1, DSSE: []int{k1}, Groups: []uint32{1}, T: TOpt{Kind: "det"}}},
					&Op{Kind: "mangle", S: SOpts{Groups: []uint32{1}}, N: int64(r.Intn(3))})
				signers = append(signers, k1)
				mangled = true
				g.count("variant:envelope-with-an-entry-that-is-no-signature")
			}
		}
	case 4, 5: // the genuine metadata in an envelope of a payload type that is almost, but not, the SIF metadata type, signed by the same (trusted) key
		if s.PGP < 0 && len(s.DSSE) > 0 {
			near := pick(r, []string{strings.ToUpper(mediaType), "Application/vnd.sylabs.sif-metadata+json", mediaType + ";charset=utf-8",
				mediaType + "; profile=x", mediaType + " ", " " + mediaType, mediaType + "\t", "application/vnd.sylabs.sif-metadata+JSON"})
			ops = append(ops, &Op{Kind: "rewrap", S: SOpts{DSSE: []int{s.DSSE[0]}, Groups: []uint32{1}}, Text: []byte(near)})
			g.count("variant:payload-type-near-miss")
		}
	case 3: // a genuine PGP signature packet transplanted onto other (equivalent-looking) metadata
		if s.PGP >= 0 {
			ops = append(ops, &Op{Kind: "transplant", S: SOpts{Groups: []uint32{1}}, FP: u.PGP[s.PGP].PrimaryKey.Fingerprint})
			g.count("variant:signature-packet-transplant")
		}
	}
	// trusted set: disjoint, overlapping, superset, empty, scheme missing
	var trust []int
	switch r.Intn(6) {
	case 0:
		trust = signers
		g.count("trust:exact")
	case 1: // superset
		trust = append(append([]int{}, signers...), r.Intn(len(u.PGP)), 100+r.Intn(len(u.DSSE)))
		g.count("trust:superset")
	case 2: // disjoint
		for k := 0; k < len(u.PGP); k++ {
			if !containsInt(signers, k) {
				trust = append(trust, k)
			}
		}
		for k := 100; k < 100+len(u.DSSE); k++ {
			if !containsInt(signers, k) {
				trust = append(trust, k)
			}
		}
		g.count("trust:disjoint")
	case 3: // overlapping: one signer plus outsiders
		trust = []int{pick(r, signers), 100 + r.Intn(len(u.DSSE))}
		g.count("trust:overlap")
	case 4: // only the other scheme's material
		for _, k := range signers {
			if k >= 100 {
				trust = append(trust, r.Intn(len(u.PGP)))
			} else {
				trust = append(trust, 100+r.Intn(len(u.DSSE)))
			}
		}
		g.count("trust:other-scheme")
	default:
		g.count("trust:none")
	}
	if hintKey >= 0 {
		// every signer and the key the hint names are supplied
		trust = append(append([]int{}, signers...), hintKey)
	}
	v := trustFor(dedupInts(trust))
	switch r.Intn(3) {
	case 0:
		v.Groups = []uint32{1}
	case 1:
		// per-object verification of members of the signed group
		v.Objects = []uint32{pick(r, groups[1])}
		if r.Chance(1, 3) {
			v.Objects = append(v.Objects, pick(r, groups[1]))
		}
		g.count("request:objects")
	}
	ops = append(ops, factsOp())
	ver := len(ops)
	ops = append(ops, &Op{Kind: "verify", V: v})
	if mangled {
		// the Verifier is kept: first use with the broken co-signature present (refused), then the
		// broken object is deleted and the same Verifier is used again — what it reports for the
		// remaining signature is exactly the keys that validate that signature
		ops[ver] = &Op{Kind: "vhold", V: v}
		ops = append(ops, &Op{Kind: "vheld", N: 0}, &Op{Kind: "delmangled"}, factsOp())
		ver = len(ops)
		ops = append(ops, &Op{Kind: "vheld", N: 0})
	} else if variant >= 8 && r.Chance(1, 2) {
		// one Verifier kept while the group's first signature is deleted and the group is signed
		// again by somebody else (the new signature takes the freed slot and ID): what the kept
		// Verifier then reports is held to the same rules
		var outsider []int
		for k := 100; k < 100+len(u.DSSE); k++ {
			if !containsInt(trust, k) && !containsInt(signers, k) {
				outsider = append(outsider, k)
			}
		}
		if len(outsider) > 0 {
			ops[ver] = &Op{Kind: "vhold", V: v}
			ops = append(ops, &Op{Kind: "vheld", N: 0},
				&Op{Kind: "del", Sel: Sel{Kind: "id", N: int64(nobj) + 1}, T: TOpt{Kind: "det"}},
				&Op{Kind: "sign", S: SOpts{PGP: -1, DSSE: []int{pick(r, outsider)}, Groups: []uint32{1}, T: TOpt{Kind: "det"}}},
				factsOp())
			ver = len(ops)
			ops = append(ops, &Op{Kind: "vheld", N: 0})
			g.count("variant:verifier-kept-across-re-signing-by-an-outsider")
		}
	}
	check := func(e *Env, i int, op *Op, obs []string) *Violation {
		if i != ver || e.f == nil || len(obs) == 0 || !strings.HasPrefix(obs[0], "v ok") {
			return nil
		}
		// success: every reported signature must have been validated by a supplied key, and the
		// reported identities must be exactly the validating subset (per the crypto oracle)
		facts := map[uint32]string{}
		for _, l := range e.factLines() {
			if strings.HasPrefix(l, "sf ") {
				var id uint32
				fmt.Sscan(fieldOf(l, "id"), &id)
				facts[id] = l
			}
		}
		// never skipped: every signature object linked to a group the request covers was judged
		reported := map[uint32]bool{}
		for _, l := range obs[1:] {
			var sid uint32
			fmt.Sscan(fieldOf(l, "sig"), &sid)
			reported[sid] = true
		}
		taskGroups := map[uint32]bool{}
		for _, gid := range v.Groups {
			taskGroups[gid] = true
		}
		e.f.WithDescriptors(func(d sif.Descriptor) bool {
			for _, id := range v.Objects {
				if d.ID() == id {
					taskGroups[d.GroupID()] = true
				}
			}
			if len(v.Groups) == 0 && len(v.Objects) == 0 && d.GroupID() != 0 && d.DataType() != sif.DataSignature {
				taskGroups[d.GroupID()] = true
			}
			return false
		})
		var skipped uint32
		e.f.WithDescriptors(func(d sif.Descriptor) bool {
			if l, isG := d.LinkedID(); d.DataType() == sif.DataSignature && isG && taskGroups[l] && !reported[d.ID()] {
				plain, _ := hex.DecodeString(strings.ReplaceAll(fieldOf(facts[d.ID()], "plain"), "-", ""))
				if !(fieldOf(facts[d.ID()], "cs") == "1" && bytes.HasPrefix(plain, []byte("SIFHASH:\n"))) {
					skipped = d.ID()
				}
			}
			return false
		})
		if skipped != 0 {
			return &Violation{Prop: "C07", Key: "C07:signature-skipped", What: fmt.Sprintf("verification succeeded without judging signature object %d, which is linked to a group the request covers", skipped), Op: i}
		}
		for _, l := range obs[1:] {
			var sid uint32
			fmt.Sscan(fieldOf(l, "sig"), &sid)
			fl := facts[sid]
			keys, ent := fieldOf(l, "keys"), fieldOf(l, "ent")
			if pt, _ := hex.DecodeString(strings.ReplaceAll(fieldOf(fl, "ptype"), "-", "")); fieldOf(fl, "dsse") == "1" && keys != "" && string(pt) != mediaType {
				return &Violation{Prop: "C07", Key: "C07:foreign-payload-type", What: fmt.Sprintf("signature %d, a DSSE envelope of payload type %q, was accepted", sid, pt), Op: i}
			}
			if keys == "" && ent == "-" {
				return &Violation{Prop: "C07", Key: "C07:no-validating-key", What: fmt.Sprintf("signature %d accepted without any supplied key validating it", sid), Op: i}
			}
			if keys != "" {
				var want []string
				valid := strings.Split(fieldOf(fl, "vkeys"), ",")
				for _, k := range v.VS {
					for _, x := range valid {
						if x == fmt.Sprint(k) {
							want = append(want, x)
						}
					}
				}
				sort.Strings(want)
				got := strings.Split(keys, ",")
				sort.Strings(got)
				if strings.Join(got, ",") != strings.Join(want, ",") {
					return &Violation{Prop: "C07", Key: "C07:reported-keys", What: fmt.Sprintf("signature %d: reported keys %v, supplied keys that validate it %v", sid, got, want), Op: i}
				}
			}
			if ent != "-" {
				if fieldOf(fl, "signer") != ent || !containsInt(v.KR, atoi(ent)) {
					return &Violation{Prop: "C07", Key: "C07:reported-entity", What: fmt.Sprintf("signature %d: reported entity %s, real signer %s, supplied keyring %v", sid, ent, fieldOf(fl, "signer"), v.KR), Op: i}
				}
				// the descriptor must name the signer
				var fpOK bool
				e.f.WithDescriptors(func(d sif.Descriptor) bool {
					if d.ID() == sid {
						_, fp, err := d.SignatureMetadata()
						fpOK = err == nil && bytes.Equal(fp, u.PGP[atoi(ent)].PrimaryKey.Fingerprint)
					}
					return false
				})
				if !fpOK {
					return &Violation{Prop: "C07", Key: "C07:fingerprint-not-bound", What: fmt.Sprintf("signature %d verified although its descriptor does not name the key that produced it", sid), Op: i}
				}
			}
		}
		return nil
	}
	return ops, check
}

func containsInt(xs []int, x int) bool {
	for _, y := range xs {
		if y == x {
			return true
		}
	}
	return false
}

func dedupInts(xs []int) []int {
	var out []int
	for _, x := range xs {
		if !containsInt(out, x) {
			out = append(out, x)
		}
	}
	return out
}

func atoi(s string) int {
	var n int
	fmt.Sscan(s, &n)
	return n
}

// C16: legacy and current signatures are never confused; legacy mode is sound.
func scenC16(g *Gen, dir string) ([]*Op, func(e *Env, i int, op *Op, obs []string) *Violation) {
	r := g.r
	u := getUniverse()
	var ops []*Op
	ops = append(ops, keysOp())
	shipped := ""
	legacyKinds := map[string]bool{}
	var objData map[uint32][]byte
	if r.Chance(1, 3) {
		var legacy []string
		for _, p := range shippedImages {
			if strings.Contains(p, "signed") {
				legacy = append(legacy, p)
			}
		}
		shipped = pick(r, legacy)
		ops = append(ops, &Op{Kind: "load", Backend: "buf", Path: shipped})
		g.count("base:shipped")
	} else {
		// two objects in group 1, one in group 2; hand-made legacy signatures; optionally a current one
		objData = map[uint32][]byte{1: r.Bytes(40), 2: r.Bytes(3), 3: r.Bytes(17)}
		mk := func(gid uint32, b []byte) DI {
			return DI{DT: 0x4007, Fail: -1, Data: DataSpec{Lit: b}, Opts: []DIOpt{{Kind: "group", N: gid}}}
		}
		ops = append(ops, &Op{Kind: "create", Backend: "buf", COpts: []CreateOpt{{Kind: "cap", I: 12}, {Kind: "det"},
			{Kind: "descs", DIs: []DI{mk(1, objData[1]), mk(1, objData[2]), mk(2, objData[3])}}}})
		// an add-after-delete layout: object 1 is deleted and a new object takes its slot and ID,
		// its data appended at the end — the group's table order is no longer its file order
		relaid := r.Chance(1, 4)
		if relaid {
			objData[1] = r.Bytes(23)
			ops = append(ops, &Op{Kind: "del", Sel: Sel{Kind: "id", N: 1}, T: TOpt{Kind: "det"}},
				&Op{Kind: "add", T: TOpt{Kind: "det"}, DI: mk(1, objData[1])})
			g.count("base:group-table-order-differs-from-file-order")
		}
		ent := r.Intn(len(u.PGP))
		fp := u.PGP[ent].PrimaryKey.Fingerprint
		if r.Chance(1, 8) {
			// a writer that records no fingerprint in the signature descriptors (the field is all zero):
			// the descriptor does not name the signing key, so no legacy request may succeed
			fp = make([]byte, 20)
			g.count("base:legacy-signature-descriptors-without-fingerprint")
		}
		ht := pick(r, []crypto.Hash{crypto.SHA256, crypto.SHA384, crypto.SHA512})
		htN := map[crypto.Hash]int64{crypto.SHA256: 1, crypto.SHA384: 2, crypto.SHA512: 3}[ht]
		if r.Chance(2, 3) { // object-linked legacy signatures
			// one object may instead carry only a linked signature object that is *not* a legacy
			// signature: junk, a clear-signed message without the SIFHASH prefix, a damaged
			// armor header, or a current-format DSSE envelope made by a trusted key
			other := uint32(0)
			if r.Chance(1, 3) {
				other = uint32(1 + r.Intn(3))
			}
			// … or the armored PGP signature of object 1's genuine signature under a plaintext naming
			// this object's digest (the packet is real and by a trusted key; it signs another text)
			forged := uint32(0)
			var genuine1 []byte
			if other != 1 && r.Chance(1, 4) {
				forged = uint32(2 + r.Intn(2))
				if forged == other {
					forged = 0
				}
			}
			for id := uint32(1); id <= 3; id++ {
				if forged != 0 && id == 1 {
					genuine1 = legacyBlob(ent, objData[1], ht)
					ops = append(ops, &Op{Kind: "add", T: TOpt{Kind: "det"}, DI: sigObjectDI(genuine1, 0, 1, htN, fp, 0)})
					legacyKinds["object"] = true
					continue
				}
				if forged != 0 && id == forged && genuine1 != nil {
					own := legacyBlob(ent, objData[id], ht) // only for its plaintext
					cut := func(b []byte) (head, tail []byte) {
						k := bytes.Index(b, []byte("-----BEGIN PGP SIGNATURE-----"))
						if k < 0 {
							return b, nil
						}
						return b[:k], b[k:]
					}
					h, _ := cut(own)
					_, t := cut(genuine1)
					ops = append(ops, &Op{Kind: "add", T: TOpt{Kind: "det"}, DI: sigObjectDI(append(append([]byte{}, h...), t...), 0, id, htN, fp, 0)})
					g.count("object-linked:genuine-packet-under-another-plaintext")
					continue
				}
				if id == other {
					lb := legacyBlob(ent, objData[id], ht)
					var blob []byte
					switch r.Intn(4) {
					case 0:
						blob = []byte("not a signature")
						g.count("object-linked:junk")
					case 1:
						blob = bytes.Replace(lb, []byte("SIFHASH:"), []byte("RIFHASH:"), 1) // signature no longer valid either
						g.count("object-linked:prefix-damaged")
					case 2:
						blob = bytes.Replace(lb, []byte("-----BEGIN PGP SIGNED"), []byte("-----BEGIN PGP SIGNFD"), 1)
						g.count("object-linked:armor-damaged")
					default:
						blob = foreignPayloadBlob(100+r.Intn(len(u.DSSE)), mediaType, []byte(`{"version":1,"header":{"digest":"sha256:00"},"objects":[]}`))
						g.count("object-linked:dsse-envelope")
					}
					ops = append(ops, &Op{Kind: "add", T: TOpt{Kind: "det"}, DI: sigObjectDI(blob, 0, id, htN, fp, 0)})
					continue
				}
				if r.Chance(3, 4) {
					ops = append(ops, &Op{Kind: "add", T: TOpt{Kind: "det"}, DI: sigObjectDI(legacyBlob(ent, objData[id], ht), 0, id, htN, fp, 0)})
					legacyKinds["object"] = true
				}
			}
		}
		nl := pick(r, []int{0, 1, 1, 2, 3}) // group-linked legacy signatures over the concatenation
		nc := pick(r, []int{0, 0, 1, 2, 3}) // mixed with current-format signatures, in any order
		for nl+nc > 0 {
			if nl > 0 && (nc == 0 || r.Chance(1, 2)) {
				lfp := fp
				if r.Chance(1, 6) {
					lfp = nil // a signature descriptor that names nobody
				}
				stream := append(append([]byte{}, objData[1]...), objData[2]...) // table order
				if relaid && r.Chance(1, 2) {
					// signed in file order instead: not what the group presents
					stream = append(append([]byte{}, objData[2]...), objData[1]...)
					g.count("group-linked:signed-in-file-order")
				}
				ops = append(ops, &Op{Kind: "add", T: TOpt{Kind: "det"}, DI: sigObjectDI(legacyBlob(ent, stream, ht), 1, 0, htN, lfp, 0)})
				legacyKinds["group"] = true
				nl--
			} else {
				s := g.signKeys()
				s.Groups = []uint32{1}
				ops = append(ops, &Op{Kind: "sign", S: s})
				legacyKinds["current"] = true
				nc--
			}
		}
		g.count("base:generated")
	}
	// optional tampering
	tamper := r.Chance(1, 2)
	if tamper && r.Chance(1, 8) {
		// an unsigned object joins group 1 under the number of an object that is signed (another
		// writer's numbering): two live descriptors carry that ID
		ops = append(ops, &Op{Kind: "add", T: TOpt{Kind: "det"}, DI: DI{DT: 0x4007, Fail: -1, Data: DataSpec{Lit: r.Bytes(6 + r.Intn(9))}, Opts: []DIOpt{{Kind: "group", N: 1}}}},
			&Op{Kind: "patch", Raw: []string{"24", "12"}})
		g.count("tamper:unsigned-object-under-a-signed-objects-id")
	} else if tamper {
		mode := r.Intn(14)
		if mode >= 12 {
			mode = 21
		}
		ops = append(ops, &Op{Kind: "patch", Raw: []string{fmt.Sprint(mode), "12"}})
	}
	ops = append(ops, factsOp())
	// every verification mode
	allKeys := []int{}
	for k := range u.PGP {
		allKeys = append(allKeys, k)
	}
	for k := range u.DSSE {
		allKeys = append(allKeys, 100+k)
	}
	base := trustFor(allKeys)
	modes := []VOpts{base, base, base, base, base, base, base}
	modes[1].Legacy = true
	modes[2].LegacyAll = true
	modes[3].Legacy, modes[3].Groups = true, []uint32{1}
	modes[4].Legacy, modes[4].Objects = true, []uint32{uint32(1 + r.Intn(3))}
	if r.Chance(1, 2) {
		// several objects named in one request, in descending or mixed order, with repeats
		modes[4].Objects = pick(r, [][]uint32{{3, 1}, {2, 1}, {3, 2, 1}, {2, 3, 1}, {3, 3, 1}, {1, 3, 2}})
		g.count("request:legacy-objects-in-any-order")
	}
	modes[5].Groups = []uint32{1}
	// a group and one of its objects named in the same legacy request: two tasks, each with its own signatures
	modes[6].Legacy, modes[6].Groups, modes[6].Objects = true, []uint32{1}, []uint32{uint32(1 + r.Intn(2))}
	// "legacy all" together with an explicitly named object or group: the named tasks are added to
	// the whole-image expansion, they do not replace it
	la1, la2 := base, base
	la1.LegacyAll, la1.Objects = true, []uint32{uint32(1 + r.Intn(3))}
	la2.LegacyAll, la2.Groups = true, []uint32{uint32(1 + r.Intn(2))}
	modes = append(modes, la1, la2)
	first := len(ops)
	for _, m := range modes {
		ops = append(ops, &Op{Kind: "verify", V: m})
	}
	var origData map[uint32][]byte
	check := func(e *Env, i int, op *Op, obs []string) *Violation {
		if op.Kind == "patch" && origData == nil {
			return nil
		}
		if i < first || e.f == nil || len(obs) == 0 || !strings.HasPrefix(obs[0], "v ok") {
			return nil
		}
		m := op.V
		// which kinds of signature does the image hold now?
		hasLegacy, hasCurrent := false, false
		for _, l := range e.factLines() {
			if strings.HasPrefix(l, "sf ") {
				plain, _ := hex.DecodeString(strings.ReplaceAll(fieldOf(l, "plain"), "-", ""))
				if fieldOf(l, "cs") == "1" && bytes.HasPrefix(plain, []byte("SIFHASH:\n")) {
					hasLegacy = true
				} else {
					hasCurrent = true
				}
			}
		}
		if (m.Legacy || m.LegacyAll) && !hasLegacy {
			return &Violation{Prop: "C16", Key: "C16:legacy-satisfied-by-current", What: "a legacy verification request succeeded on an image without legacy signatures", Op: i}
		}
		if !(m.Legacy || m.LegacyAll) && !hasCurrent {
			return &Violation{Prop: "C16", Key: "C16:current-satisfied-by-legacy", What: "a non-legacy verification request succeeded on an image without current-format signatures", Op: i}
		}
		// legacy coverage: every object the request names must be reported verified by some
		// signature (a task that looked at no signature at all proves nothing)
		if m.Legacy || m.LegacyAll {
			need := map[uint32]bool{}
			e.f.WithDescriptors(func(d sif.Descriptor) bool {
				if d.DataType() == sif.DataSignature {
					return false
				}
				if m.LegacyAll && d.GroupID() != 0 {
					need[d.ID()] = true
				}
				switch {
				case len(m.Objects) > 0 || len(m.Groups) > 0:
					for _, id := range m.Objects {
						if d.ID() == id {
							need[id] = true
						}
					}
					for _, gid := range m.Groups {
						if d.GroupID() == gid {
							need[d.ID()] = true
						}
					}
				default:
					if d.GroupID() != 0 {
						need[d.ID()] = true
					}
				}
				return false
			})
			for _, l := range obs[1:] {
				for _, x := range strings.Split(fieldOf(l, "verified"), ",") {
					var id uint32
					if _, err := fmt.Sscan(x, &id); err == nil {
						delete(need, id)
					}
				}
			}
			carriers := map[uint32]int{}
			e.f.WithDescriptors(func(d sif.Descriptor) bool {
				if d.DataType() != sif.DataSignature {
					carriers[d.ID()]++
				}
				return false
			})
			for id, n := range carriers {
				if n > 1 && m.LegacyAll && len(m.Objects) == 0 && len(m.Groups) == 0 {
					return &Violation{Prop: "C16", Key: "C16:legacy-uncovered-object", What: fmt.Sprintf("legacy verification (%s) succeeded although %d live objects carry ID %d: an object-linked signature names one object", m.String(), n, id), Op: i}
				}
			}
			for id := range need {
				return &Violation{Prop: "C16", Key: "C16:legacy-uncovered-object", What: fmt.Sprintf("legacy verification (%s) succeeded although no signature was checked for object %d", m.String(), id), Op: i}
			}
		}
		// legacy soundness: the content of the covered objects hashes to the digest in the
		// clear-signed plaintext of the signature that was accepted (made by a trusted key)
		if m.Legacy || m.LegacyAll {
			plains := map[uint32][][]byte{} // tampering can make signature IDs collide
			for _, l := range e.factLines() {
				if strings.HasPrefix(l, "sf ") {
					var id uint32
					fmt.Sscan(fieldOf(l, "id"), &id)
					p, _ := hex.DecodeString(strings.ReplaceAll(fieldOf(l, "plain"), "-", ""))
					plains[id] = append(plains[id], p)
				}
			}
			for _, l := range obs[1:] {
				var sid uint32
				fmt.Sscan(fieldOf(l, "sig"), &sid)
				// the signature descriptor must name the key that validated it
				if ent := fieldOf(l, "ent"); ent != "-" && ent != "" {
					named := false
					e.f.WithDescriptors(func(d sif.Descriptor) bool {
						if d.ID() == sid && d.DataType() == sif.DataSignature {
							if _, fp, err := d.SignatureMetadata(); err == nil && bytes.Equal(fp, u.PGP[atoi(ent)].PrimaryKey.Fingerprint) {
								named = true
							}
						}
						return false
					})
					if !named {
						return &Violation{Prop: "C16", Key: "C16:legacy-fingerprint", What: fmt.Sprintf("legacy signature %d verified although its descriptor's fingerprint is not that of the key that signed", sid), Op: i}
					}
				}
				// … and that key really signed the text the signature object carries: the harness's own
				// check of the clear-signed message (third-party library called directly) names the same signer
				if ent := fieldOf(l, "ent"); ent != "-" && ent != "" {
					really := false
					for _, fl := range e.factLines() {
						if strings.HasPrefix(fl, "sf ") && fieldOf(fl, "id") == fmt.Sprint(sid) && fieldOf(fl, "signer") == ent {
							really = true
						}
					}
					if !really {
						return &Violation{Prop: "C16", Key: "C16:legacy-not-signed", What: fmt.Sprintf("legacy signature %d was accepted as made by entity %s, but that key did not sign the text it carries", sid, ent), Op: i}
					}
				}
				ids := strings.Split(fieldOf(l, "verified"), ",")
				var cat []byte
				taken := map[uint32]int{} // an ID may occur twice after ID tampering: k-th mention = k-th object in table order
				for _, x := range ids {
					var id uint32
					if _, err := fmt.Sscan(x, &id); err != nil {
						continue
					}
					skip := taken[id]
					taken[id]++
					e.f.WithDescriptors(func(d sif.Descriptor) bool {
						if d.ID() == id && d.DataType() != sif.DataSignature {
							if skip > 0 {
								skip--
								return false
							}
							b, _ := d.GetData()
							cat = append(cat, b...)
							return true
						}
						return false
					})
				}
				matched := false
				for _, pl := range plains[sid] {
					want := strings.TrimSuffix(strings.TrimPrefix(string(pl), "SIFHASH:\n"), "\n")
					var got string
					switch len(want) {
					case 96:
						x := sha512.Sum384(cat)
						got = hex.EncodeToString(x[:])
					case 128:
						x := sha512.Sum512(cat)
						got = hex.EncodeToString(x[:])
					default:
						x := sha256.Sum256(cat)
						got = hex.EncodeToString(x[:])
					}
					matched = matched || strings.EqualFold(got, want)
				}
				if !matched {
					return &Violation{Prop: "C16", Key: "C16:legacy-content", What: fmt.Sprintf("legacy verification by signature %d succeeded over objects %v whose content does not hash to the signed digest", sid, ids), Op: i}
				}
			}
		}
		return nil
	}
	_ = legacyKinds
	return ops, check
}

// C17: signer listings are exact.
// scenC17Legacy: listings for legacy requests.  Objects 1, 2 (group 1) and 3 (group 2) carry
// hand-made legacy signatures by various entities, linked to the objects and to group 1; one
// request may name a group and one of its own objects (two tasks with different signers).
func scenC17Legacy(g *Gen) ([]*Op, func(e *Env, i int, op *Op, obs []string) *Violation) {
	r := g.r
	u := getUniverse()
	objData := map[uint32][]byte{1: r.Bytes(20), 2: r.Bytes(5), 3: r.Bytes(9)}
	mk := func(gid uint32, b []byte) DI {
		return DI{DT: 0x4007, Fail: -1, Data: DataSpec{Lit: b}, Opts: []DIOpt{{Kind: "group", N: gid}}}
	}
	ops := []*Op{keysOp(), {Kind: "create", Backend: "buf", COpts: []CreateOpt{{Kind: "cap", I: 16}, {Kind: "det"},
		{Kind: "descs", DIs: []DI{mk(1, objData[1]), mk(1, objData[2]), mk(2, objData[3])}}}}}
	objSigners := map[uint32][]int{}
	var grpSigners []int
	mislabel := r.Chance(1, 3) // one signature's descriptor names another entity than the one that signed
	for id := uint32(1); id <= 3; id++ {
		for k := r.Intn(3); k > 0; k-- {
			ent := r.Intn(len(u.PGP))
			named := ent
			if mislabel {
				named = (ent + 1 + r.Intn(len(u.PGP)-1)) % len(u.PGP)
				mislabel = false
				g.count("legacy:descriptor-names-other-key")
			}
			ops = append(ops, &Op{Kind: "add", T: TOpt{Kind: "det"}, DI: sigObjectDI(legacyBlob(ent, objData[id], crypto.SHA256), 0, id, 1, u.PGP[named].PrimaryKey.Fingerprint, 0)})
			objSigners[id] = append(objSigners[id], named)
		}
	}
	for k := r.Intn(3); k > 0; k-- {
		ent := r.Intn(len(u.PGP))
		ops = append(ops, &Op{Kind: "add", T: TOpt{Kind: "det"}, DI: sigObjectDI(legacyBlob(ent, append(append([]byte{}, objData[1]...), objData[2]...), crypto.SHA256), 1, 0, 1, u.PGP[ent].PrimaryKey.Fingerprint, 0)})
		grpSigners = append(grpSigners, ent)
	}
	if r.Chance(1, 3) { // a current-format signature on the group: not a legacy signer
		ops = append(ops, &Op{Kind: "sign", S: SOpts{PGP: r.Intn(len(u.PGP)), Groups: []uint32{1}, T: TOpt{Kind: "det"}, NoSalt: true}})
	}
	ops = append(ops, factsOp(), obsOp())
	sel := VOpts{NoVS: true, NoKR: true, Legacy: true}
	type task struct {
		grp uint32
		obj uint32
	}
	var tasks []task
	switch r.Intn(4) {
	case 0: // a group and one of its own objects
		o := uint32(1 + r.Intn(2))
		sel.Groups, sel.Objects = []uint32{1}, []uint32{o}
		tasks = []task{{grp: 1}, {obj: o}}
		g.count("legacy-select:group-and-own-object")
	case 1:
		sel.Groups = []uint32{1}
		tasks = []task{{grp: 1}}
		g.count("legacy-select:group")
	case 2:
		a, b := uint32(1+r.Intn(3)), uint32(1+r.Intn(3))
		sel.Objects = []uint32{a}
		tasks = []task{{obj: a}}
		if b != a {
			sel.Objects = append(sel.Objects, b)
			tasks = append(tasks, task{obj: b})
		}
		g.count("legacy-select:objects")
	default: // every object: one task per grouped object
		sel.Legacy, sel.LegacyAll = false, true
		tasks = []task{{obj: 1}, {obj: 2}, {obj: 3}}
		if r.Chance(1, 2) {
			sel.Groups = []uint32{1}
			tasks = append([]task{{grp: 1}}, tasks...)
			g.count("legacy-select:all-and-group")
		} else {
			g.count("legacy-select:all")
		}
	}
	// verification of the same tasks with every key trusted: when it succeeds, every fingerprint the
	// listings name belongs to a key that really produced a valid signature
	var allKeys []int
	for k := range u.PGP {
		allKeys = append(allKeys, k)
	}
	vsel := trustFor(allKeys)
	vsel.Legacy, vsel.LegacyAll, vsel.Groups, vsel.Objects = sel.Legacy, sel.LegacyAll, sel.Groups, sel.Objects
	verI := len(ops)
	ops = append(ops, &Op{Kind: "verify", V: vsel})
	verOK := false
	qa := len(ops)
	ops = append(ops, &Op{Kind: "signedby", V: sel, Any: true})
	qb := len(ops)
	ops = append(ops, &Op{Kind: "signedby", V: sel, Any: false}, obsOp())
	check := func(e *Env, i int, op *Op, obs []string) *Violation {
		if i == verI {
			verOK = len(obs) > 0 && strings.HasPrefix(obs[0], "v ok")
			return nil
		}
		if (i != qa && i != qb) || len(obs) == 0 || !strings.HasPrefix(obs[0], "fp ok") {
			return nil
		}
		if verOK && i == qa {
			real := map[string]bool{}
			for _, l := range e.factLines() {
				if strings.HasPrefix(l, "sf ") && fieldOf(l, "signer") != "-" {
					real[hex.EncodeToString(u.PGP[atoi(fieldOf(l, "signer"))].PrimaryKey.Fingerprint)] = true
				}
			}
			for _, fp := range strings.Split(strings.TrimPrefix(obs[0], "fp ok "), ",") {
				if fp != "" && fp != "fp ok" && !real[fp] {
					return &Violation{Prop: "C17", Key: "C17:listed-not-validated", What: "legacy verification of the selected tasks succeeded, yet the listing names " + fp + ", a key that produced no valid signature in the image", Op: i}
				}
			}
		}
		count := map[string]int{}
		for _, t := range tasks {
			per := map[string]bool{}
			ents := grpSigners
			if t.obj != 0 {
				ents = objSigners[t.obj]
			}
			for _, ent := range ents {
				per[hex.EncodeToString(u.PGP[ent].PrimaryKey.Fingerprint)] = true
			}
			for fp := range per {
				count[fp]++
			}
		}
		var want []string
		for fp, n := range count {
			if i == qa || n == len(tasks) {
				want = append(want, fp)
			}
		}
		sort.Strings(want)
		got := strings.TrimPrefix(obs[0], "fp ok ")
		if got == "fp ok" {
			got = ""
		}
		if got != strings.Join(want, ",") {
			which := map[bool]string{true: "AnySignedBy", false: "AllSignedBy"}[i == qa]
			return &Violation{Prop: "C17", Key: "C17:listing", What: fmt.Sprintf("legacy %s over tasks %v returned [%s], recorded signer fingerprints give [%s]", which, tasks, got, strings.Join(want, ",")), Op: i}
		}
		return nil
	}
	return ops, check
}

// scenC17Held: one Verifier value is asked for its listings, then a signature of one kind is
// deleted and a signature of the other kind (legacy / current format) is added through the same
// handle — it lands in the freed slot under the same object ID — and the same Verifier is asked
// again: the listings are those of the signatures attached now.
func scenC17Held(g *Gen) ([]*Op, func(e *Env, i int, op *Op, obs []string) *Violation) {
	r := g.r
	u := getUniverse()
	objData := map[uint32][]byte{1: r.Bytes(20), 2: r.Bytes(5), 3: r.Bytes(9)}
	mk := func(gid uint32, b []byte) DI {
		return DI{DT: 0x4007, Fail: -1, Data: DataSpec{Lit: b}, Opts: []DIOpt{{Kind: "group", N: gid}}}
	}
	ops := []*Op{keysOp(), {Kind: "create", Backend: "buf", COpts: []CreateOpt{{Kind: "cap", I: 12}, {Kind: "det"},
		{Kind: "descs", DIs: []DI{mk(1, objData[1]), mk(1, objData[2]), mk(2, objData[3])}}}}}
	type sg struct {
		gid    uint32
		legacy bool
		ent    int
	}
	var sigs []sg // signature objects in ID order, IDs 4, 5, …
	addSig := func(gid uint32, legacy bool) {
		ent := r.Intn(len(u.PGP))
		if legacy {
			content := append(append([]byte{}, objData[1]...), objData[2]...)
			if gid == 2 {
				content = objData[3]
			}
			ops = append(ops, &Op{Kind: "add", T: TOpt{Kind: "det"}, DI: sigObjectDI(legacyBlob(ent, content, crypto.SHA256), gid, 0, 1, u.PGP[ent].PrimaryKey.Fingerprint, 0)})
		} else {
			ops = append(ops, &Op{Kind: "sign", S: SOpts{PGP: ent, Groups: []uint32{gid}, T: TOpt{Kind: "det"}, NoSalt: true}})
		}
		sigs = append(sigs, sg{gid, legacy, ent})
	}
	firstLegacy := r.Chance(1, 2)
	addSig(1, firstLegacy)
	for k := r.Intn(3); k > 0; k-- {
		addSig(uint32(1+r.Intn(2)), r.Chance(1, 2))
	}
	sel := VOpts{NoVS: true, NoKR: true, Legacy: r.Chance(1, 2)}
	tasks := []uint32{1, 2}
	switch r.Intn(3) {
	case 0:
		sel.Groups, tasks = []uint32{1}, []uint32{1}
	case 1:
		sel.Groups = []uint32{1, 2}
	}
	expect := func(any bool) string {
		count := map[string]int{}
		for _, gid := range tasks {
			per := map[string]bool{}
			for _, x := range sigs {
				if x.gid == gid && x.legacy == sel.Legacy {
					per[hex.EncodeToString(u.PGP[x.ent].PrimaryKey.Fingerprint)] = true
				}
			}
			for fp := range per {
				count[fp]++
			}
		}
		var want []string
		for fp, n := range count {
			if any || n == len(tasks) {
				want = append(want, fp)
			}
		}
		sort.Strings(want)
		return strings.Join(want, ",")
	}
	ops = append(ops, factsOp(), &Op{Kind: "vhold", V: sel})
	want := map[int]string{}
	want[len(ops)] = expect(true)
	ops = append(ops, &Op{Kind: "vheld", N: 1})
	want[len(ops)] = expect(false)
	ops = append(ops, &Op{Kind: "vheld", N: 2})
	// the first signature (ID 4) is replaced by one of the other kind
	ops = append(ops, &Op{Kind: "del", Sel: Sel{Kind: "id", N: 4}, T: TOpt{Kind: "det"}})
	old := sigs
	sigs = nil
	addSig(1, !firstLegacy) // takes slot 4 again
	sigs = append(sigs, old[1:]...)
	ops = append(ops, factsOp())
	want[len(ops)] = expect(true)
	ops = append(ops, &Op{Kind: "vheld", N: 1})
	want[len(ops)] = expect(false)
	ops = append(ops, &Op{Kind: "vheld", N: 2}, obsOp())
	g.count(fmt.Sprintf("held-listing:legacy-verifier=%v first-signature-legacy=%v", sel.Legacy, firstLegacy))
	check := func(e *Env, i int, op *Op, obs []string) *Violation {
		w, ok := want[i]
		if !ok || len(obs) == 0 || !strings.HasPrefix(obs[0], "fp ok") {
			return nil
		}
		got := strings.TrimPrefix(obs[0], "fp ok ")
		if got == "fp ok" {
			got = ""
		}
		if got != w {
			return &Violation{Prop: "C17", Key: "C17:listing", What: fmt.Sprintf("a Verifier kept while a signature was replaced by one of the other kind: listing over groups %v returned [%s], the signatures attached now record [%s]", tasks, got, w), Op: i}
		}
		return nil
	}
	return ops, check
}

func scenC17(g *Gen, dir string) ([]*Op, func(e *Env, i int, op *Op, obs []string) *Violation) {
	r := g.r
	if r.Chance(1, 4) {
		g.count("variant:legacy-listings")
		return scenC17Legacy(g)
	}
	if r.Chance(1, 5) {
		g.count("variant:verifier-kept-across-signature-replacement")
		return scenC17Held(g)
	}
	u := getUniverse()
	create, groups := g.baseImage(3, 14)
	many := r.Chance(1, 25)
	if many {
		// well over sixty-four groups (one object each), all but the last signed by one entity and the
		// last by another: more verification tasks than fit any machine word
		n := 66 + r.Intn(6)
		var dis []DI
		groups = map[uint32][]uint32{}
		for k := 1; k <= n; k++ {
			dis = append(dis, DI{DT: 0x4007, Fail: -1, Data: DataSpec{Lit: []byte{byte(k), 'x'}}, Opts: []DIOpt{{Kind: "group", N: uint32(k)}}})
			groups[uint32(k)] = []uint32{uint32(k)}
		}
		create = &Op{Kind: "create", Backend: "buf", COpts: []CreateOpt{{Kind: "cap", I: int64(2*n + 8)}, {Kind: "det"}, {Kind: "descs", DIs: dis}}}
		g.count("variant:more-than-64-groups")
	}
	ops := []*Op{keysOp(), create}
	gs := sortedGroups(groups)
	signersOf := map[uint32][]int{}
	if many {
		a := r.Intn(len(u.PGP))
		b := (a + 1 + r.Intn(len(u.PGP)-1)) % len(u.PGP)
		ops = append(ops, &Op{Kind: "sign", S: SOpts{PGP: a, Groups: gs[:len(gs)-1], T: TOpt{Kind: "det"}, NoSalt: true}},
			&Op{Kind: "sign", S: SOpts{PGP: b, Groups: gs[len(gs)-1:], T: TOpt{Kind: "det"}, NoSalt: true}})
		for _, gid := range gs[:len(gs)-1] {
			signersOf[gid] = []int{a}
		}
		signersOf[gs[len(gs)-1]] = []int{b}
		gs = nil // (the per-group signing below is skipped)
	}
	for _, gid := range gs {
		n := r.Intn(4) // 0-3 PGP signers per group
		for k := 0; k < n; k++ {
			ent := r.Intn(len(u.PGP))
			ops = append(ops, &Op{Kind: "sign", S: SOpts{PGP: ent, Groups: []uint32{gid}, T: TOpt{Kind: "det"}, NoSalt: true}})
			signersOf[gid] = append(signersOf[gid], ent)
		}
		if r.Chance(1, 3) { // DSSE signatures carry no fingerprint
			ops = append(ops, &Op{Kind: "sign", S: SOpts{PGP: -1, DSSE: []int{100 + r.Intn(len(u.DSSE))}, Groups: []uint32{gid}, T: TOpt{Kind: "det"}}})
		}
	}
	gs = sortedGroups(groups)
	// sometimes a group also carries a legacy-format signature by somebody else: listings made for
	// current-format tasks must not count it (and legacy listings must not count current ones)
	if r.Chance(1, 4) && !many {
		gid := pick(r, gs)
		ent := r.Intn(len(u.PGP))
		ops = append(ops, &Op{Kind: "add", T: TOpt{Kind: "det"}, DI: sigObjectDI(legacyBlob(ent, []byte("whatever the group held"), crypto.SHA256), gid, 0, 1, u.PGP[ent].PrimaryKey.Fingerprint, 0)})
		g.count("variant:legacy-signature-on-a-group")
	}
	// sometimes a signature descriptor names another entity than the one that signed
	forged := false
	if r.Chance(1, 3) && !many {
		gid := pick(r, gs)
		ent := r.Intn(len(u.PGP))
		other := (ent + 1 + r.Intn(len(u.PGP)-1)) % len(u.PGP)
		if r.Chance(1, 2) {
			// … next to a truthful signature by the same entity on the same group
			ops = append(ops, &Op{Kind: "sign", S: SOpts{PGP: ent, Groups: []uint32{gid}, T: TOpt{Kind: "det"}, NoSalt: true}})
			signersOf[gid] = append(signersOf[gid], ent)
			g.count("variant:truthful-and-mislabelled-by-one-key")
		}
		if len(u.PGP[ent].Subkeys) > 0 && r.Chance(1, 3) {
			// … names a *subkey* of the very entity that signed (its encryption subkey, say): still not
			// the key that issued the signature
			other = 1000 + ent
			g.count("variant:descriptor-names-a-subkey-of-the-signer")
		}
		// sign, then re-add the signature bytes under a descriptor naming `other`
		ops = append(ops, &Op{Kind: "resign", S: SOpts{PGP: ent, Groups: []uint32{gid}, T: TOpt{Kind: "det"}, NoSalt: true}, FP: pgpFP(other)})
		signersOf[gid] = append(signersOf[gid], other)
		forged = true
		g.count("variant:descriptor-names-other-key")
	}
	ops = append(ops, factsOp(), obsOp())
	sel := VOpts{NoVS: true, NoKR: true}
	selKind := r.Intn(4)
	if many {
		selKind = 0 // every group: the default tasks
	}
	switch selKind {
	case 1:
		sel.Groups = []uint32{pick(r, gs)}
	case 2:
		for _, gid := range gs {
			if r.Chance(1, 2) {
				sel.Groups = append(sel.Groups, gid)
			}
		}
	case 3:
		gid := pick(r, gs)
		sel.Objects = []uint32{pick(r, groups[gid])}
		if r.Chance(1, 2) {
			sel.Objects = append(sel.Objects, pick(r, groups[pick(r, gs)]))
		}
	}
	g.count(fmt.Sprintf("select:g%d-o%d", len(sel.Groups), len(sel.Objects)))
	// verification of the same tasks with every key trusted: when it succeeds, every listed PGP
	// fingerprint must belong to a key that really produced a valid signature there
	allKeys := []int{}
	for k := range u.PGP {
		allKeys = append(allKeys, k)
	}
	for k := range u.DSSE {
		allKeys = append(allKeys, 100+k)
	}
	vsel := trustFor(allKeys)
	switch r.Intn(4) {
	case 0: // key material for one scheme only: the other scheme's signatures must not be passed over
		vsel.VS, vsel.NoVS = nil, true
		g.count("verify:pgp-material-only")
	case 1:
		vsel.KR, vsel.NoKR = nil, true
		g.count("verify:dsse-material-only")
	}
	vsel.Groups, vsel.Objects = sel.Groups, sel.Objects
	verI := len(ops)
	ops = append(ops, &Op{Kind: "verify", V: vsel})
	verOK := false
	_ = forged
	qa := len(ops)
	ops = append(ops, &Op{Kind: "signedby", V: sel, Any: true})
	qb := len(ops)
	ops = append(ops, &Op{Kind: "signedby", V: sel, Any: false}, obsOp())
	// expected listing: union / intersection over the selected tasks of the recorded fingerprints
	check := func(e *Env, i int, op *Op, obs []string) *Violation {
		if i == verI {
			verOK = len(obs) > 0 && strings.HasPrefix(obs[0], "v ok")
			return nil
		}
		if (i != qa && i != qb) || len(obs) == 0 || !strings.HasPrefix(obs[0], "fp ok") {
			return nil
		}
		if verOK && i == qa {
			// real signers per the crypto oracle
			real := map[string]bool{}
			for _, l := range e.factLines() {
				if strings.HasPrefix(l, "sf ") && fieldOf(l, "signer") != "-" {
					real[hex.EncodeToString(u.PGP[atoi(fieldOf(l, "signer"))].PrimaryKey.Fingerprint)] = true
				}
			}
			for _, fp := range strings.Split(strings.TrimPrefix(obs[0], "fp ok "), ",") {
				if fp != "" && fp != "fp ok" && !real[fp] {
					return &Violation{Prop: "C17", Key: "C17:listed-not-validated", What: "verification of the selected tasks succeeded, yet the listing names " + fp + ", a key that produced no valid signature in the image", Op: i}
				}
			}
		}
		var tasks []uint32 // one group per task
		switch {
		case len(sel.Groups) > 0 || len(sel.Objects) > 0:
			seen := map[uint32]bool{}
			for _, gid := range sel.Groups {
				if !seen[gid] {
					seen[gid] = true
					tasks = append(tasks, gid)
				}
			}
			objSeen := map[uint32]bool{}
			for _, id := range sel.Objects {
				if objSeen[id] {
					continue
				}
				objSeen[id] = true
				for gid, ids := range groups {
					for _, x := range ids {
						if x == id {
							tasks = append(tasks, gid)
						}
					}
				}
			}
		default:
			tasks = gs
		}
		count := map[string]int{}
		for _, gid := range tasks {
			per := map[string]bool{}
			for _, ent := range signersOf[gid] {
				per[hex.EncodeToString(pgpFP(ent))] = true
			}
			for fp := range per {
				count[fp]++
			}
		}
		var want []string
		for fp, n := range count {
			if i == qa || n == len(tasks) {
				want = append(want, fp)
			}
		}
		sort.Strings(want)
		got := strings.TrimPrefix(obs[0], "fp ok ")
		if got == "fp ok" {
			got = ""
		}
		if got != strings.Join(want, ",") {
			which := map[bool]string{true: "AnySignedBy", false: "AllSignedBy"}[i == qa]
			return &Violation{Prop: "C17", Key: "C17:listing", What: fmt.Sprintf("%s over tasks %v returned [%s], recorded signer fingerprints give [%s]", which, tasks, got, strings.Join(want, ",")), Op: i}
		}
		return nil
	}
	return ops, check
}

var integScen = map[string]scenGen{"C04": scenC04, "C05": scenC05, "C06": scenC06, "C07": scenC07, "C16": scenC16, "C17": scenC17}
var integCases = map[string][2]int{"C04": {260, 6000}, "C05": {220, 5000}, "C06": {200, 4000}, "C07": {200, 4000}, "C16": {160, 3000}, "C17": {160, 3000}}
var integCorr = map[string]string{
	"C04": "corr.C04.tamper_verdict (model verdict from its own decode + SHA-2 + oracle envelope facts = Verify())",
	"C05": "corr.C05.edit_verdict (model verdict = Verify() after every structural edit)",
	"C06": "corr.C06.sign_verify (signed metadata = model encMD; bytes after Sign = model; verdict and verified sets)",
	"C07": "corr.C07.trust_matrix (verdict, accepted keys, entity for every (signers, trusted) pair)",
	"C16": "corr.C16.legacy_modes (verdict in every mode on legacy/current mixtures)",
	"C17": "corr.C17.listings (AnySignedBy/AllSignedBy = model fingerprints)",
}

// runInteg generates and runs one scenario; patch ops whose sites depend on the file are filled
// in when reached.
func runInteg(prop, dir string, seed uint64) (*Case, []*Violation, map[string]int) {
	g := &Gen{r: NewRNG(seed), stats: map[string]int{}}
	ops, check := integScen[prop](g, dir)
	e := &Env{dir: dir}
	defer e.Close()
	c := &Case{Seed: seed}
	var vs []*Violation
	var hdrBeforeAdd []byte // the header bytes as they were before the most recent add
	for i, op := range ops {
		cp := *op
		if cp.Kind == "add" && e.f != nil {
			if b := e.storeBytes(); len(b) >= 128 {
				hdrBeforeAdd = append([]byte(nil), b[:128]...)
			}
		}
		if cp.Kind == "patch" && len(cp.Sites) == 0 && len(cp.Raw) == 1 && cp.Raw[0] == "tornheader" && e.f != nil {
			// the add just made was cut short between its descriptor-table write and its header
			// write, and the file is opened again: new table, old header
			if hdrBeforeAdd != nil {
				cp.Sites = []PatchSite{{Off: 0, B: hdrBeforeAdd}}
			}
			cp.Raw = nil
		}
		if cp.Kind == "patch" && len(cp.Sites) == 0 && len(cp.CopySlot) == 2 && e.f != nil {
			b := e.storeBytes()
			from, to := 4096+585*cp.CopySlot[0], 4096+585*cp.CopySlot[1]
			if from+585 <= len(b) && to+585 <= len(b) {
				cp.Sites = []PatchSite{{Off: int64(to), B: append([]byte(nil), b[from:from+585]...)}}
			}
		}
		if cp.Kind == "patch" && len(cp.Sites) == 0 && len(cp.SwapSlots) == 2 && e.f != nil {
			b := e.storeBytes()
			x, y := 4096+585*cp.SwapSlots[0], 4096+585*cp.SwapSlots[1]
			if x+585 <= len(b) && y+585 <= len(b) {
				cp.Sites = []PatchSite{{Off: int64(x), B: append([]byte(nil), b[y:y+585]...)}, {Off: int64(y), B: append([]byte(nil), b[x:x+585]...)}}
			}
		}
		if cp.Kind == "patch" && len(cp.Sites) == 0 && len(cp.Raw) == 3 && cp.Raw[0] == "shiftgroup" && e.f != nil {
			var gid, k uint32
			fmt.Sscan(cp.Raw[1], &gid)
			fmt.Sscan(cp.Raw[2], &k)
			cp.Sites = shiftGroupSites(e.storeBytes(), int(e.f.DescriptorsTotal()), gid|0xf0000000, k, false)
			cp.Raw = nil
		}
		if cp.Kind == "patch" && len(cp.Sites) == 0 && len(cp.Raw) == 3 && cp.Raw[0] == "renamegroup" && e.f != nil {
			var gid, ng uint32
			fmt.Sscan(cp.Raw[1], &gid)
			fmt.Sscan(cp.Raw[2], &ng)
			cp.Sites = renameGroupSites(e.storeBytes(), int(e.f.DescriptorsTotal()), gid|0xf0000000, ng|0xf0000000)
			cp.Raw = nil
		}
		if (cp.Kind == "patch" || cp.Kind == "poke") && len(cp.Sites) == 0 && len(cp.SwapSlots) == 0 && len(cp.CopySlot) == 0 && e.f != nil {
			fillPatch(g, &cp, e.storeBytes())
		}
		obs := e.Apply(&cp)
		c.Ops = append(c.Ops, &cp)
		c.record(i, &cp, obs)
		if v := check(e, i, &cp, obs); v != nil {
			v.Prop = prop
			vs = append(vs, v)
		}
	}
	return c, vs, g.stats
}

// integCampaign is the analogue of histCampaign for the integrity properties.
func integCampaign(prop, tier string, seed uint64, scratch string) *Result {
	t0 := time.Now()
	getUniverse()
	n := integCases[prop][0]
	if tier == "thorough" {
		n = integCases[prop][1]
	}
	if v := os.Getenv("VERIF_CASES"); v != "" {
		fmt.Sscan(v, &n)
	}
	res := &Result{Prop: prop, Tier: tier, Seed: seed, Stats: map[string]int{}}
	known := loadKnown()
	var mu sync.Mutex
	seen := map[[32]byte]bool{}
	corpus := corpusSeeds(prop)
	res.Stats["corpus-cases"] = len(corpus)
	parallel(n+len(corpus), envInt("VERIF_WORKERS", 16), func(i int) {
		cs := seed*1000003 + uint64(i)*7919 + 1
		if i >= n {
			cs = corpus[i-n].seed // scenarios that exposed a seeded change before
		}
		dir := filepath.Join(scratch, fmt.Sprintf("c%d", i))
		_ = os.MkdirAll(dir, 0o755)
		defer os.RemoveAll(dir)
		c, vs, stats := runInteg(prop, dir, cs)
		model, err := runDriver(c.Proto)
		mu.Lock()
		defer mu.Unlock()
		res.Cases++
		res.OpsRun += len(c.Ops)
		res.Lines += len(c.Impl)
		for k, v := range stats {
			res.Stats[k] += v
		}
		for _, l := range c.Impl {
			if strings.HasPrefix(l, "v ") {
				f := strings.Fields(l)
				res.Stats["verdict:"+strings.SplitN(f[1], ":", 3)[0]+func() string {
					p := strings.SplitN(f[1], ":", 3)
					if len(p) > 1 {
						return ":" + p[1]
					}
					return ""
				}()]++
			}
		}
		k := protoKey(c)
		if !seen[k] {
			seen[k] = true
			res.Distinct++
		}
		if len(res.Samples) < 3 {
			var s []string
			for _, op := range c.Ops {
				if op.Kind != "obs" && op.Kind != "facts" && op.Kind != "keys" && len(s) < 7 {
					x := op.Short()
					if len(x) > 300 {
						x = x[:300] + "…"
					}
					s = append(s, x)
				}
			}
			res.Samples = append(res.Samples, strings.Join(s, " | "))
		}
		for _, v := range vs {
			f := &Finding{V: *v, Seed: cs, Ops: c.Ops}
			if _, ok := known[v.Key]; ok {
				f.Known = true
			}
			res.Findings = append(res.Findings, f)
		}
		if err != nil {
			if res.DriverErr == "" {
				res.DriverErr = err.Error()
			}
			return
		}
		if m := compareInteg(c, model); m != nil {
			res.Breaks = append(res.Breaks, &CorrBreak{Seed: cs, M: *m, Ops: c.Ops, Fields: diffFields(m.Impl, m.Model)})
		}
	})
	sort.Slice(res.Breaks, func(a, b int) bool { return len(res.Breaks[a].Ops) < len(res.Breaks[b].Ops) })
	res.WallS = time.Since(t0).Seconds()
	return res
}

func compareInteg(c *Case, model []string) *Mismatch {
	m := compare(c, model)
	if m != nil {
		m.Kind = integLineKind(m.Impl)
		if m.Impl == "" {
			m.Kind = "shape"
		}
	}
	return m
}
