package main

// C10: hostile images that are *validly signed*.  A signature by a key the verifier trusts over
// metadata that is well-formed JSON but not what the library writes (members missing, null, of
// another type, absurd numbers, duplicated objects) passes the cryptographic check, so the
// metadata reaches the code that interprets it.  An image from another writer, or from a signer
// whose tooling is broken or malicious, looks like this.

import (
	"bytes"
	"encoding/json"
	"fmt"
	"os"
	"path/filepath"
	"time"

	"github.com/ProtonMail/go-crypto/openpgp/clearsign"
	"github.com/ProtonMail/go-crypto/openpgp/packet"
)

// clearsignBlob clear-signs an arbitrary plaintext with PGP entity ent.
func clearsignBlob(ent int, plaintext []byte) []byte {
	u := getUniverse()
	var b bytes.Buffer
	w, err := clearsign.Encode(&b, u.PGP[ent].PrivateKey, &packet.Config{Time: func() time.Time { return time.Unix(1504657553, 0) }})
	if err != nil {
		return nil
	}
	_, _ = w.Write(plaintext)
	_ = w.Close()
	return b.Bytes()
}

// jsonVariants: the document with one member deleted, or one value replaced, at every path.
func jsonVariants(doc any) []any {
	var out []any
	repl := []any{nil, 0, -1, 4294967296, 1e308, "", "sha256:", "md5:d41d8cd98f00b204e9800998ecf8427e", "sha256:zz", []any{}, map[string]any{}, true}
	var walk func(node any, rebuild func(any) any)
	walk = func(node any, rebuild func(any) any) {
		switch n := node.(type) {
		case map[string]any:
			for k := range n {
				k := k
				// delete the member
				cp := map[string]any{}
				for kk, vv := range n {
					if kk != k {
						cp[kk] = vv
					}
				}
				out = append(out, rebuild(cp))
				for _, rv := range repl {
					cp2 := map[string]any{}
					for kk, vv := range n {
						cp2[kk] = vv
					}
					cp2[k] = rv
					out = append(out, rebuild(cp2))
				}
				walk(n[k], func(x any) any {
					cp3 := map[string]any{}
					for kk, vv := range n {
						cp3[kk] = vv
					}
					cp3[k] = x
					return rebuild(cp3)
				})
			}
		case []any:
			// element dropped, duplicated
			for i := range n {
				i := i
				cp := append(append([]any{}, n[:i]...), n[i+1:]...)
				out = append(out, rebuild(cp))
				dup := append(append([]any{}, n[:i+1]...), n[i:]...)
				out = append(out, rebuild(dup))
				walk(n[i], func(x any) any {
					cp3 := append([]any{}, n...)
					cp3[i] = x
					return rebuild(cp3)
				})
			}
		}
	}
	walk(doc, func(x any) any { return x })
	return out
}

// craftedSignatureImages writes images whose group 1 carries one valid signature, by a universe
// key, over each variant of the genuine metadata; plus a few non-metadata payloads.
func craftedSignatureImages(scratch string, seed uint64, tier string) (paths, names []string) {
	g := &Gen{r: NewRNG(seed*31 + 7), stats: map[string]int{}}
	dir := filepath.Join(scratch, "crafted")
	_ = os.MkdirAll(dir, 0o755)
	mk := func(b []byte) DI { return DI{DT: 0x4007, Fail: -1, Data: DataSpec{Lit: b}, Opts: []DIOpt{{Kind: "group", N: 1}}} }
	create := &Op{Kind: "create", Backend: "buf", COpts: []CreateOpt{{Kind: "cap", I: 6}, {Kind: "det"},
		{Kind: "descs", DIs: []DI{mk([]byte("first object")), mk([]byte("second"))}}}}
	u := getUniverse()
	dsseKey := 100
	for i, dk := range u.DSSE {
		if dk.kind == "ed25519" {
			dsseKey = 100 + i
		}
	}
	// the genuine metadata, from a real signature
	e := &Env{dir: dir}
	e.applyCore(create)
	if e.f == nil {
		return
	}
	unsigned := e.storeBytes()
	_, blobs, _, _, err := e.doSign(SOpts{PGP: -1, DSSE: []int{dsseKey}, Groups: []uint32{1}, T: TOpt{Kind: "det"}})
	e.Close()
	if err != nil || len(blobs) != 1 {
		return
	}
	var doc any
	if json.Unmarshal(oraclePayload(blobs[0]), &doc) != nil {
		return
	}
	var payloads [][]byte
	for _, v := range jsonVariants(doc) {
		if b, err := json.Marshal(v); err == nil {
			payloads = append(payloads, b)
		}
	}
	payloads = append(payloads, []byte("{}"), []byte("[]"), []byte("null"), []byte(`"text"`), []byte("1"), []byte(""), []byte("{"),
		[]byte(`{"version":1,"header":{"digest":"sha256:00"},"objects":[{"relativeId":0},{"relativeId":0}]}`),
		bytes.Repeat([]byte("["), 5000))
	if tier != "thorough" && len(payloads) > 160 {
		// a deterministic subsample that keeps every deletion (the first variant at each path)
		var keep [][]byte
		for i, p := range payloads {
			if i%13 == 0 || g.r.Chance(1, 3) || i >= len(payloads)-9 {
				keep = append(keep, p)
			}
		}
		payloads = keep
	}
	for i, pl := range payloads {
		for _, scheme := range []string{"dsse", "pgp"} {
			var blob []byte
			var fp []byte
			if scheme == "dsse" {
				blob = foreignPayloadBlob(dsseKey, mediaType, pl)
			} else {
				blob = clearsignBlob(0, pl)
				fp = u.PGP[0].PrimaryKey.Fingerprint
			}
			if blob == nil {
				continue
			}
			e2 := &Env{dir: dir}
			e2.applyCore(&Op{Kind: "load", Backend: "buf", Path: writeTemp(dir, unsigned)})
			if e2.f == nil {
				continue
			}
			e2.applyCore(&Op{Kind: "add", T: TOpt{Kind: "det"}, DI: sigObjectDI(blob, 1, 0, 1, fp, 0)})
			b := e2.storeBytes()
			e2.Close()
			p := filepath.Join(dir, fmt.Sprintf("crafted-%s-%d.sif", scheme, i))
			if os.WriteFile(p, b, 0o644) == nil {
				s := string(pl)
				if len(s) > 90 {
					s = s[:90] + "…"
				}
				paths = append(paths, p)
				names = append(names, fmt.Sprintf("crafted:%s-signed metadata %s", scheme, s))
			}
		}
	}
	return
}

func writeTemp(dir string, b []byte) string {
	p := filepath.Join(dir, "unsigned.sif")
	_ = os.WriteFile(p, b, 0o644)
	return p
}
