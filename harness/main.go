package main

import (
	"encoding/json"
	"flag"
	"fmt"
	"os"
	"path/filepath"
	"sort"
	"strconv"
	"strings"
)

type ReplayFile struct {
	Property string   `json:"property"`
	Kind     string   `json:"kind"` // oracle | correspondence
	Key      string   `json:"key"`
	What     string   `json:"what"`
	Broken   string   `json:"broken,omitempty"` // theorem / correspondence that no longer checks
	Seed     uint64   `json:"seed"`
	Ops      []*Op    `json:"ops"`
	Proto    []string `json:"protocol_lines"`
	Impl     []string `json:"implementation_lines,omitempty"`
	Model    []string `json:"model_lines,omitempty"`
	Found    bool     `json:"failing_input_found"`
	Searched int      `json:"neighbourhood_cases_searched,omitempty"`
}

func writeReplay(dir string, rf *ReplayFile, tag string) string {
	_ = os.MkdirAll(dir, 0o755)
	key := strings.NewReplacer(":", "_", " ", "_", "/", "_").Replace(rf.Key)
	p := filepath.Join(dir, fmt.Sprintf("%s-%s-%s-%d.json", rf.Property, tag, key, rf.Seed))
	b, _ := json.MarshalIndent(rf, "", " ")
	_ = os.WriteFile(p, b, 0o644)
	return p
}

// Output is what the harness hands back to bin/check for the evidence file.
type Output struct {
	Property     string         `json:"property"`
	Tier         string         `json:"tier"`
	Seed         uint64         `json:"seed"`
	Campaign     string         `json:"campaign"`
	Evaluations  int            `json:"evaluations"`
	Distinct     int            `json:"distinct_nontrivial"`
	Rule         string         `json:"rule"`
	Traces       int            `json:"traces_validated_against_impl"`
	LinesCmp     int            `json:"observation_lines_compared"`
	Samples      []string       `json:"samples"`
	Distribution map[string]int `json:"distribution"`
	Violations   int            `json:"violations"`
	Known        []string       `json:"known_findings_seen"`
	Unrelated    int            `json:"unrelated_disagreements"`
	Messages     []string       `json:"messages"`
	WallS        float64        `json:"wall_s"`
}

func main() {
	prop := flag.String("prop", "", "property id")
	tier := flag.String("tier", "quick", "quick|thorough")
	seedF := flag.Uint64("seed", 1, "seed")
	out := flag.String("out", "", "result json")
	replays := flag.String("replays", filepath.Join(verifDir(), "replays"), "replay dir")
	replay := flag.String("replay", "", "replay file to re-execute")
	mode := flag.String("mode", "hist", "campaign")
	flag.Parse()
	if v := os.Getenv("VERIF_SEED"); v != "" && !isFlagSet("seed") {
		if s, err := strconv.ParseUint(v, 10, 64); err == nil {
			*seedF = s
		}
	}
	// a C10 child works inside its parent's scratch directory, so that one that dies leaves nothing behind
	scratch, err := os.MkdirTemp(os.Getenv("C10_TMP"), "sifh-"+*prop+"-")
	if err != nil {
		fmt.Println("cannot create scratch dir:", err)
		os.Exit(2)
	}
	scratchRoot = scratch
	defer os.RemoveAll(scratch)

	if *replay != "" {
		exit(doReplay(*replay, scratch))
	}
	crashMode = *prop == "C09"
	var o *Output
	switch *mode {
	case "hist":
		if _, ok := propSpecs[*prop]; !ok {
			fmt.Println("no history campaign for", *prop)
			exit(2)
		}
		o = decideHist(*prop, *tier, *seedF, scratch, *replays)
	default:
		o = runMode(*mode, *prop, *tier, *seedF, scratch, *replays)
	}
	if *out != "" {
		b, _ := json.MarshalIndent(o, "", " ")
		_ = os.WriteFile(*out, b, 0o644)
	}
	for _, m := range o.Messages {
		fmt.Println(m)
	}
	if o.Violations > 0 {
		exit(1)
	}
}

// scratchRoot is the run's scratch directory; exit removes it (os.Exit skips deferred calls).
var scratchRoot string

func exit(code int) {
	if scratchRoot != "" {
		os.RemoveAll(scratchRoot)
	}
	os.Exit(code)
}

func isFlagSet(name string) bool {
	set := false
	flag.Visit(func(f *flag.Flag) {
		if f.Name == name {
			set = true
		}
	})
	return set
}

// decideHist runs the history campaign and turns its result into a verdict.
func decideHist(prop, tier string, seed uint64, scratch, replays string) *Output {
	spec := propSpecs[prop]
	res := histCampaign(prop, tier, seed, scratch)
	o := &Output{Property: prop, Tier: tier, Seed: seed, Campaign: "operation histories: " + spec.Corr,
		Evaluations: res.OpsRun, Distinct: res.Distinct, Traces: res.Cases, LinesCmp: res.Lines,
		Rule:         "histories drawn from the structured generator (SplitMix64 from VERIF_SEED, per-case sub-seed); distinct = distinct canonical protocol text (clock/RNG readings removed); non-trivial = at least one state-changing operation that succeeded and one observation or query",
		Samples:      res.Samples, Distribution: res.Stats, Unrelated: res.Unrelated, WallS: res.WallS}
	if len(o.Samples) == 0 {
		o.Samples = []string{"(no history longer than three operations was generated)"}
	}
	known := loadKnown()
	seenKnown := map[string]bool{}
	seenKey := map[string]bool{}
	if res.DriverErr != "" {
		o.Violations++
		rf := &ReplayFile{Property: prop, Kind: "correspondence", Key: prop + ":driver-error", What: res.DriverErr, Broken: spec.Corr, Seed: seed}
		p := writeReplay(replays, rf, "driver")
		o.Messages = append(o.Messages, fmt.Sprintf("VIOLATION property=%s replay=%s no-failing-input-found", prop, p))
		return o
	}
	// 1. oracle findings: concrete failing inputs on the implementation itself
	for _, f := range res.Findings {
		if f.V.Prop != prop {
			continue
		}
		if f.Known {
			if !seenKnown[f.V.Key] {
				seenKnown[f.V.Key] = true
				o.Known = append(o.Known, f.V.Key)
				o.Messages = append(o.Messages, fmt.Sprintf("KNOWN-FINDING: property=%s %s (%s)", prop, f.V.Key, known[f.V.Key]))
			}
			continue
		}
		if seenKey[f.V.Key] {
			continue
		}
		seenKey[f.V.Key] = true
		ops := shrinkOracle(scratch, f, spec)
		c := replayOps(scratch, ops, nil)
		rf := &ReplayFile{Property: prop, Kind: "oracle", Key: f.V.Key, What: f.V.What, Seed: f.Seed, Ops: ops, Proto: c.Proto, Impl: c.Impl, Found: true}
		p := writeReplay(replays, rf, "oracle")
		o.Violations++
		o.Messages = append(o.Messages, fmt.Sprintf("VIOLATION property=%s replay=%s", prop, p))
	}
	// 2. correspondence breaks: search for a failing input; report either way
	if len(res.Breaks) > 0 && o.Violations == 0 {
		b := res.Breaks[0]
		ops := shrink(scratch, b.Ops, b.M.Kind)
		c, m, _ := checkOps(scratch, ops)
		model, _ := runDriver(c.Proto)
		what := fmt.Sprintf("implementation and model disagree (%d histories); first: kind=%s fields=%v", len(res.Breaks), b.M.Kind, b.Fields)
		if m != nil {
			what += fmt.Sprintf(" impl=%q model=%q", m.Impl, m.Model)
		}
		// focused search: the minimal case and a neighbourhood, oracle only
		found, searched := searchNeighbourhood(prop, spec, scratch, b.Seed, ops)
		rf := &ReplayFile{Property: prop, Kind: "correspondence", Key: prop + ":correspondence", What: what, Broken: spec.Corr + "; theorems of Props/" + prop + ".lean rest on this model",
			Seed: b.Seed, Ops: ops, Proto: c.Proto, Impl: c.Impl, Model: model, Searched: searched}
		if found != nil && !found.Known {
			rf.Found = true
			rf.Kind = "oracle"
			rf.Key, rf.What = found.V.Key, found.V.What+" [found after: "+what+"]"
			rf.Ops = found.Ops
			cc := replayOps(scratch, found.Ops, nil)
			rf.Proto, rf.Impl, rf.Model = cc.Proto, cc.Impl, nil
			p := writeReplay(replays, rf, "oracle")
			o.Messages = append(o.Messages, fmt.Sprintf("VIOLATION property=%s replay=%s", prop, p))
		} else {
			p := writeReplay(replays, rf, "corr")
			o.Messages = append(o.Messages, fmt.Sprintf("VIOLATION property=%s replay=%s no-failing-input-found", prop, p))
		}
		o.Violations++
	}
	sort.Strings(o.Known)
	return o
}

// oraclesOn replays ops and returns the violations the property's oracles raise.
func oraclesOn(dir string, ops []*Op, spec PropSpec, prop string) []*Violation {
	e := &Env{dir: dir, faultCtl: anyFault(ops)}
	defer e.Close()
	st := &OracleState{}
	var vs []*Violation
	var first *Case
	for i, op := range ops {
		cp := *op
		before := map[uint32]bool{}
		if e.f != nil && cp.Kind == "add" {
			for _, id := range inspect(e.f).ids {
				before[id] = true
			}
		}
		var preBytes []byte
		if cp.Kind == "add" && e.f != nil {
			preBytes = e.storeBytes()
		}
		wasApart := e.desync
		cp.Fault = ""
		obs := e.Apply(&cp)
		for _, v := range e.pending {
			v.Op = i
			vs = append(vs, v)
		}
		e.pending = nil
		if preBytes != nil && e.f != nil && len(obs) > 0 {
			for _, o := range spec.Oracles {
				if (o == "C02" || o == "C08") && (spec.Prop == o || spec.Prop == "") {
					if v := oracleAddSlot(e, preBytes, o, i, &cp, obs[0]); v != nil {
						vs = append(vs, v)
					}
				}
			}
		}
		if first == nil {
			first = &Case{}
		}
		first.Ops = append(first.Ops, &cp)
		first.record(i, &cp, obs)
		if e.f == nil || len(obs) == 0 {
			continue
		}
		res := obs[0]
		for _, o := range spec.Oracles {
			var v *Violation
			switch {
			case o == "C01" && (cp.Kind == "add" || cp.Kind == "create"):
				v = oracleC01(e, i, &cp, res, before)
			case o == "C02" && (isMutator(cp.Kind) || cp.Kind == "create" || cp.Kind == "reload" || cp.Kind == "load"):
				v = oracleC02(e, st, i, &cp, res)
			case o == "C03" && (cp.Fault != "" || e.desync || wasApart) && isMutator(cp.Kind):
				st.afterFault = true
				st.prevBytes, st.havePrev = e.storeBytes(), false
			case o == "C03" && (isMutator(cp.Kind) || cp.Kind == "create" || cp.Kind == "load"):
				if cp.Kind == "create" || cp.Kind == "load" {
					st.prev, st.havePrev = takeSnap(e.f), true
				}
				v = oracleC03(e, st, i, &cp, res)
				if v == nil {
					st.prev, st.havePrev = takeSnap(e.f), true
				}
			case o == "C08" && (isMutator(cp.Kind) || cp.Kind == "create"):
				v = oracleC08(e, i)
			case o == "C11" && (isMutator(cp.Kind) || cp.Kind == "create"):
				v = oracleC11(e, i)
			case o == "C13" && cp.Kind == "q":
				v = oracleC13(e, i, &cp, res)
			}
			if v = spec.relabel(v); v != nil {
				vs = append(vs, v)
			}
		}
	}
	if spec.TwoRuns && first != nil {
		if v := secondRunC12(dir, first); v != nil {
			vs = append(vs, v)
		}
	}
	if spec.Backends && first != nil {
		if v, _ := otherBackendC14(dir, first); v != nil {
			vs = append(vs, v)
		}
	}
	return vs
}

// shrinkOracle minimises an oracle finding: drop ops while the same key is still raised.
func shrinkOracle(dir string, f *Finding, spec PropSpec) []*Op {
	still := func(cand []*Op) bool {
		for _, v := range oraclesOn(dir, cand, spec, f.V.Prop) {
			if v.Key == f.V.Key {
				return true
			}
		}
		return false
	}
	cur := f.Ops
	if f.V.Op+1 < len(cur) && f.V.Op > 0 {
		if cand := cur[:f.V.Op+1]; still(cand) {
			cur = cand
		}
	}
	if !still(cur) {
		return f.Ops
	}
	changed := true
	for changed {
		changed = false
		for i := len(cur) - 1; i >= 1; i-- {
			cand := append(append([]*Op{}, cur[:i]...), cur[i+1:]...)
			if still(cand) {
				cur = cand
				changed = true
			}
		}
	}
	return cur
}

// searchNeighbourhood looks for a concrete property failure near a correspondence break:
// the minimal disagreeing history itself, then fresh histories from derived seeds (10x a quick
// campaign's worth), oracles only.
func searchNeighbourhood(prop string, spec PropSpec, scratch string, seed uint64, ops []*Op) (*Finding, int) {
	known := loadKnown()
	for _, v := range oraclesOn(scratch, ops, spec, prop) {
		if v.Prop == prop {
			_, k := known[v.Key]
			if !k {
				return &Finding{V: *v, Seed: seed, Ops: ops}, 1
			}
		}
	}
	n := spec.Cases[0] * 4
	var found *Finding
	searched := 1
	for i := 0; i < n && found == nil; i++ {
		cs := seed ^ (uint64(i+1) * 0x9e3779b97f4a7c15)
		c, vs, _ := runHistory(scratch, cs, spec, "")
		searched++
		if spec.TwoRuns {
			if v := secondRunC12(scratch, c); v != nil {
				vs = append(vs, v)
			}
		}
		if spec.Backends {
			if v, _ := otherBackendC14(scratch, c); v != nil {
				vs = append(vs, v)
			}
		}
		for _, v := range vs {
			if v.Prop == prop {
				if _, k := known[v.Key]; !k {
					f := &Finding{V: *v, Seed: cs, Ops: c.Ops}
					f.Ops = shrinkOracle(scratch, f, spec)
					found = f
					break
				}
			}
		}
	}
	return found, searched
}

// doReplay re-executes a replay file: reports whether the failure still reproduces.
func doReplay(path, scratch string) int {
	b, err := os.ReadFile(path)
	if err != nil {
		fmt.Println(err)
		return 2
	}
	var rf ReplayFile
	if err := json.Unmarshal(b, &rf); err != nil {
		fmt.Println(err)
		return 2
	}
	crashMode = rf.Property == "C09"
	spec, ok := propSpecs[rf.Property]
	if !ok {
		return replayMode(&rf, scratch)
	}
	fmt.Printf("replaying %s (%s): %s\n", rf.Property, rf.Kind, rf.Key)
	for _, op := range rf.Ops {
		fmt.Println("  ", op.Short())
	}
	bad := 0
	for _, v := range oraclesOn(scratch, rf.Ops, spec, rf.Property) {
		if v.Prop == rf.Property {
			fmt.Printf("oracle: %s: %s (op %d)\n", v.Key, v.What, v.Op)
			bad++
		}
	}
	c, m, err := checkOps(scratch, rf.Ops)
	if err != nil {
		fmt.Println("driver:", err)
		bad++
	} else if m != nil {
		fmt.Printf("correspondence: op %d (%s)\n  impl : %s\n  model: %s\n", m.Op, strings.Join(diffFields(m.Impl, m.Model), ","), m.Impl, m.Model)
		bad++
	}
	_ = c
	if bad > 0 {
		fmt.Printf("VIOLATION property=%s replay=%s\n", rf.Property, path)
		return 1
	}
	fmt.Println("replay no longer fails")
	return 0
}
