package main

// The operation-history campaign shared (with different generator profiles, projections and
// oracles) by C01, C02, C03, C08, C11, C12, C13 and C14.

import (
	"github.com/sylabs/sif/v2/pkg/sif"
	"crypto/sha256"
	"encoding/json"
	"fmt"
	"os"
	"path/filepath"
	"sort"
	"strings"
	"sync"
	"time"
)

// PropSpec says how a property uses the history campaign.
type PropSpec struct {
	Profile  Profile
	Kinds    map[string]bool // observation-line kinds whose disagreement breaks this property's tie
	Cases    [2]int          // quick, thorough
	Oracles  []string        // oracles evaluated on every step
	Corr     string          // name of the correspondence (for no-failing-input-found reports)
	Shipped  bool            // also start histories from every image shipped under test/images
	TwoRuns  bool            // C12: run every history twice across a second boundary
	Backends bool            // C14: run every history on both backends in lock-step
	// Relabel: findings of another property's oracle that contradict this property's statement
	// too (oracle key -> key under this property); set together with Prop
	Prop    string
	Relabel map[string]string
}

// relabel turns a finding of a borrowed oracle into a finding of the campaign's own property.
func (s PropSpec) relabel(v *Violation) *Violation {
	if v == nil || s.Prop == "" || v.Prop == s.Prop {
		return v
	}
	if k, ok := s.Relabel[v.Key]; ok {
		v.Prop, v.Key = s.Prop, k
	}
	return v
}

func kinds(ks ...string) map[string]bool {
	m := map[string]bool{"inv": true, "spec": true}
	for _, k := range ks {
		m[k] = true
	}
	return m
}

var bothBackends = []string{"buf", "file"}

var propSpecs = map[string]PropSpec{
	"C01": {Profile: Profile{MaxCap: 8, MaxOps: 6, BigData: true, Backends: bothBackends, Rejects: 40, ObsReload: true, DetBias: 300, Foreign: 200},
		Kinds: kinds("res", "hdr", "obj", "file", "rl", "shape"), Cases: [2]int{700, 12000}, Oracles: []string{"C01", "C08", "C02"},
		Prop: "C01", Relabel: map[string]string{"C02:bystander-changed": "C01:earlier-object-changed",
			"C08:reload-fails": "C01:reload-fails", "C08:handle-vs-reload": "C01:reload-differs"},
		Corr: "corr.C01.create_add_readback (model bytes and view vs library, every create/add)"},
	"C02": {Profile: Profile{MaxCap: 6, MaxOps: 28, Backends: []string{"buf"}, Rejects: 220, DetBias: 350, FailReaders: true, Foreign: 250, Faults: true},
		Kinds: kinds("res", "hdr", "obj", "shape"), Cases: [2]int{600, 10000}, Oracles: []string{"C02", "C01"},
		Prop: "C02", Relabel: map[string]string{"C01:content": "C02:added-object-differs", "C01:attributes": "C02:added-object-differs",
			"C01:name": "C02:added-object-differs", "C01:metadata": "C02:added-object-differs", "C01:count": "C02:added-object-differs",
			"C01:time": "C02:added-object-differs", "C01:oci-digest": "C02:added-object-differs"},
		Corr: "corr.C02.history_view (accept/reject and full view after every step)"},
	"C03": {Profile: Profile{MaxCap: 6, MaxOps: 24, BigData: true, Backends: bothBackends, Rejects: 80, DetBias: 500, FailReaders: true, Foreign: 150, Faults: true},
		Kinds: kinds("file", "obj", "hdr", "shape"), Cases: [2]int{500, 8000}, Oracles: []string{"C03"},
		Corr: "corr.C03.raw_bytes (whole file, byte for byte, after every step)"},
	"C08": {Profile: Profile{MaxCap: 6, MaxOps: 24, Backends: bothBackends, Rejects: 200, ObsReload: true, DetBias: 350, FailReaders: true, Foreign: 150},
		Kinds: kinds("rl", "hdr", "obj", "shape"), Cases: [2]int{500, 8000}, Oracles: []string{"C08"},
		Corr: "corr.C08.handle_vs_reload (view incl. integrity streams, handle and reload, every step)"},
	"C11": {Profile: Profile{MaxCap: 10, MaxOps: 10, BigData: true, Backends: bothBackends, Rejects: 40, ObsReload: true, DetBias: 300, Foreign: 450, BadMagic: 300, Faults: true},
		Kinds: kinds("file", "rl", "hdr", "obj", "res", "shape"), Cases: [2]int{400, 8000}, Oracles: []string{"C11"}, Shipped: true,
		Corr: "corr.C11.layout (Lean encoder = library writer, byte for byte; Lean decoder = library reader)"},
	"C12": {Profile: Profile{MaxCap: 8, MaxOps: 14, Backends: bothBackends, Rejects: 100, DetBias: 800, Sign: 120},
		Kinds: kinds("file", "hdr", "obj", "sg", "md", "shape"), Cases: [2]int{250, 4000}, TwoRuns: true,
		Corr: "corr.C12.bytes (model bytes with explicit clock parameter = library bytes)"},
	"C13": {Profile: Profile{MaxCap: 6, MaxOps: 12, Queries: 14, Backends: []string{"buf"}, Rejects: 60, DetBias: 900, Foreign: 150, TornHeader: true, Faults: true},
		Kinds: kinds("q", "shape"), Cases: [2]int{400, 8000}, Oracles: []string{"C13"},
		Corr: "corr.C13.queries (GetDescriptors/GetDescriptor results for every selector tuple)"},
	"C09": {Profile: Profile{MaxCap: 6, MaxOps: 10, BigData: true, Backends: bothBackends, Rejects: 60, DetBias: 600, FailReaders: true, Sign: 100, Foreign: 120, TornHeader: true, Faults: true},
		Kinds: kinds("res", "io", "file", "shape", "hdr", "obj"), Cases: [2]int{220, 4000}, Oracles: []string{"C09"},
		Corr: "corr.C09.io_plan (the mutating calls each operation issues = the model's plan, call for call; bytes after every step)"},
	"C15": {Profile: Profile{MaxOps: 12, Cli: true},
		Kinds: kinds("cli", "hdr", "obj", "file", "shape"), Cases: [2]int{160, 3000}, Oracles: []string{"C15"},
		Corr: "corr.C15.siftool (exit status, dump output and the file's full view after every siftool invocation = Model/Siftool.lean composed with the library model)"},
	"C14": {Profile: Profile{MaxCap: 6, MaxOps: 20, BigData: true, Backends: []string{"buf"}, Rejects: 120, DetBias: 1000, FailReaders: true, Truncs: true, Readd: true, Foreign: 220},
		Kinds: kinds("res", "hdr", "obj", "file", "rl", "shape", "st"), Cases: [2]int{350, 6000}, Backends: true,
		Corr: "corr.C14.backends (Lean Buffer model = sif.Buffer, Lean file model = os.File, same histories)"},
}

type Finding struct {
	V      Violation
	Seed   uint64
	Ops    []*Op
	Known  bool
	Replay string
}

type CorrBreak struct {
	Seed     uint64
	M        Mismatch
	Ops      []*Op
	Fields   []string
	Replay   string
	Searched int
}

type Result struct {
	Prop        string
	Tier        string
	Seed        uint64
	Cases       int
	OpsRun      int
	Lines       int
	Distinct    int
	Stats       map[string]int
	Samples     []string
	Findings    []*Finding
	Breaks      []*CorrBreak
	Unrelated   int
	UnrelatedEx string
	DriverErr   string
	WallS       float64
}

// relevantMismatch returns the first disagreement whose kind matters for the property.
func relevantMismatch(c *Case, model []string, kindsOK map[string]bool) (*Mismatch, int) {
	unrelated := 0
	if len(c.Impl) != len(model) {
		m := compare(c, model)
		return m, 0
	}
	for i := range c.Impl {
		if c.Impl[i] != model[i] {
			k := lineKind(c.Impl[i])
			if lineKind(model[i]) != k {
				k = "shape"
			}
			if kindsOK[k] {
				return &Mismatch{Line: i, Op: c.OpOf[i], Impl: c.Impl[i], Model: model[i], Kind: k}, unrelated
			}
			unrelated++
		}
	}
	return nil, unrelated
}

// runHistory generates and executes one history on the real library, evaluating oracles.
func runHistory(dir string, seed uint64, spec PropSpec, shipped string) (*Case, []*Violation, map[string]int) {
	forceBackend := ""
	r := NewRNG(seed)
	g := &Gen{r: r, p: spec.Profile, stats: map[string]int{}}
	if forceBackend != "" {
		g.p.Backends = []string{forceBackend}
	}
	// store failures are injected through an interposer around the backing store; the library
	// behaves differently when it recognises the store's concrete type (*sif.Buffer, *os.File), so
	// only a third of the histories of a fault-injecting campaign run behind the interposer
	e := &Env{dir: dir, stats: g.stats, faultCtl: spec.Profile.Faults && r.Chance(1, 3)}
	defer e.Close()
	c := &Case{Seed: seed}
	var vs []*Violation
	st := &OracleState{}
	idx := 0
	cliInProc := spec.Profile.Cli && r.Chance(1, 3) // this history's commands run through pkg/siftool inside the process
	if cliInProc {
		g.count("cli:history-run-in-process-through-pkg-siftool")
	}
	emit := func(op *Op) []string {
		if op.Kind == "cli" && op.Cli != nil && cliInProc {
			op.Cli.InProc = true
		}
		before := map[uint32]bool{}
		if e.f != nil && (op.Kind == "add") {
			for _, id := range inspect(e.f).ids {
				before[id] = true
			}
		}
		var preBytes []byte
		if op.Kind == "add" && e.f != nil && (spec.Prop == "C02" || spec.Prop == "C08" || spec.Prop == "") {
			for _, o := range spec.Oracles {
				if o == "C02" || o == "C08" {
					preBytes = e.storeBytes()
				}
			}
		}
		wasApart := e.desync // handle and file were apart when this operation started
		obs := e.Apply(op)
		c.Ops = append(c.Ops, op)
		c.record(idx, op, obs)
		i := idx
		idx++
		if preBytes != nil && e.f != nil && len(obs) > 0 && op.Fault == "" && !wasApart && !st.storeFailed {
			for _, o := range spec.Oracles {
				if (o == "C02" || o == "C08") && (spec.Prop == o || spec.Prop == "") {
					if v := oracleAddSlot(e, preBytes, o, i, op, obs[0]); v != nil {
						vs = append(vs, v)
					}
				}
			}
		}
		for _, v := range e.pending {
			v.Op = i
			vs = append(vs, v)
		}
		e.pending = nil
		if e.f == nil || len(obs) == 0 {
			return obs
		}
		res := obs[0]
		for _, o := range spec.Oracles {
			var v *Violation
			switch {
			case o == "C01" && (op.Kind == "add" || op.Kind == "create"):
				v = oracleC01(e, i, op, res, before)
			case o == "C02" && (op.Fault != "" || e.desync || wasApart || st.storeFailed):
				// a store failure is outside the reference model (hypothesis of C02_refine) and what it
				// leaves behind stays: e.g. a set-primary that failed between its table write and its
				// header write keeps the old header architecture for good.  From here on this history
				// is compared with the Lean model only (which follows the failure: Model/Fault.lean)
				st.storeFailed = true
				st.havePrev = false
			case o == "C02" && (isMutator(op.Kind) || op.Kind == "create" || op.Kind == "reload" || op.Kind == "load"):
				v = oracleC02(e, st, i, op, res)
			case o == "C03" && (op.Fault != "" || e.desync || wasApart) && isMutator(op.Kind):
				st.afterFault = true
				// the store failed a call of this operation (or of an earlier one and nothing has been
				// written since): what the *file* holds half-way is C09's subject; the comparison
				// resumes, from the file as it is now, after the next operation that completes (that
				// operation flushes what the handle had and the file had not: not a change of its own)
				st.prevBytes, st.havePrev = e.storeBytes(), false
			case o == "C03" && (isMutator(op.Kind) || op.Kind == "create" || op.Kind == "load"):
				if op.Kind == "create" || op.Kind == "load" {
					st.prev, st.havePrev = takeSnap(e.f), true
				}
				v = oracleC03(e, st, i, op, res)
				if v == nil {
					st.prev, st.havePrev = takeSnap(e.f), true
				}
			case o == "C08" && (isMutator(op.Kind) || op.Kind == "create"):
				v = oracleC08(e, i)
			case o == "C11" && (isMutator(op.Kind) || op.Kind == "create"):
				v = oracleC11(e, i)
			case o == "C13" && op.Kind == "q":
				v = oracleC13(e, i, op, res)
			}
			if v = spec.relabel(v); v != nil {
				vs = append(vs, v)
			}
		}
		return obs
	}
	truncated := false // once the file has been cut short the placement invariant is not expected to hold
	faulted := false   // … nor once a store failure left handle and file apart
	obsOp := func() *Op {
		return &Op{Kind: "obs", Reload: spec.Profile.ObsReload, Inv: !truncated && !faulted}
	}
	if spec.Profile.Cli {
		// C15: a history of siftool invocations on one image file
		if r.Chance(1, 8) {
			// commands on a file that does not exist yet must fail and create nothing
			emit(&Op{Kind: "cli", Cli: g.cliNext(imgInfo{})})
			g.count("cli:before-new")
		}
		if r.Chance(1, 5) {
			// the image was made by a program using the library with OptCreateDeterministic (siftool
			// itself cannot make one): nil ID, unset times — and they stay unset whatever siftool does
			co := &Op{Kind: "create", Backend: "file", COpts: []CreateOpt{{Kind: "cap", I: int64(4 + r.Intn(8))}, {Kind: "det"}}}
			var dis []DI
			for k := r.Intn(3); k > 0; k-- {
				di := DI{DT: 0x4007, Fail: -1, Data: DataSpec{Lit: r.Bytes(1 + r.Intn(30))}}
				if r.Chance(1, 2) {
					di = DI{DT: 0x4004, Fail: -1, Data: DataSpec{Lit: r.Bytes(1 + r.Intn(30))},
						Opts: []DIOpt{{Kind: "part", I: int64(1 + r.Intn(5)), J: 1, S: pick(r, archNames)}}}
				}
				dis = append(dis, di)
			}
			if len(dis) > 0 {
				co.COpts = append(co.COpts, CreateOpt{Kind: "descs", DIs: dis})
			}
			emit(co)
			g.count("cli:on-deterministic-image-made-by-the-library")
		} else {
			emit(&Op{Kind: "cli", Cli: &CliOp{Cmd: "new"}})
		}
		emit(obsOp())
		if r.Chance(1, 4) {
			// a partition life cycle that random commands rarely complete: system partition(s),
			// promotion in a later second (so modification and creation times differ), inspection
			np := 1 + r.Intn(2)
			for k := 0; k < np; k++ {
				pt := "1"
				if k == 1 && r.Chance(1, 2) {
					pt = "2"
				}
				emit(&Op{Kind: "cli", Cli: &CliOp{Cmd: "add", Flags: map[string]string{"datatype": "4", "parttype": pt,
					"partfs": fmt.Sprint(1 + r.Intn(5)), "partarch": fmt.Sprint(1 + r.Intn(12))}, Data: DataSpec{Lit: r.Bytes(1 + r.Intn(40))}}})
				emit(obsOp())
			}
			for k := r.Intn(3); k > 0; k-- {
				emit(&Op{Kind: "cli", Cli: g.cliNext(inspect(e.f))})
				emit(obsOp())
			}
			emit(&Op{Kind: "cli", Cli: &CliOp{Cmd: "setprim", Arg: "1", Later: true}})
			emit(obsOp())
			for id := 1; id <= np; id++ {
				emit(&Op{Kind: "cli", Cli: &CliOp{Cmd: "info", Arg: fmt.Sprint(id)}})
			}
			emit(&Op{Kind: "cli", Cli: &CliOp{Cmd: pick(r, []string{"header", "list"})}})
			g.cliFocus = ""
			g.count("cli:partition-life-cycle")
		}
		n := 2 + r.Intn(spec.Profile.MaxOps)
		for k := 0; k < n; k++ {
			var hdr0 []byte
			if b, err := os.ReadFile(e.path); err == nil && len(b) >= 128 {
				hdr0 = append([]byte(nil), b[:128]...)
			}
			co := &Op{Kind: "cli", Cli: g.cliNext(inspect(e.f))}
			cobs := emit(co)
			if hdr0 != nil && e.f != nil && (co.Cli.Cmd == "add" || co.Cli.Cmd == "del") && len(cobs) > 0 && strings.HasPrefix(cobs[0], "cli ok") && r.Chance(1, 6) {
				// the command was cut short between its table write and its header write (or another
				// writer does not keep the header's counters): new table, old header — what header,
				// list and info print is still what the file says
				emit(&Op{Kind: "fpatch", Sites: []PatchSite{{Off: 0, B: hdr0}}})
				truncated = true
				g.count("cli:header-left-behind-the-table")
				emit(obsOp())
				emit(&Op{Kind: "cli", Cli: &CliOp{Cmd: "header"}})
				emit(&Op{Kind: "cli", Cli: &CliOp{Cmd: "list"}})
				emit(&Op{Kind: "cli", Cli: &CliOp{Cmd: "info", Arg: "1"}})
				return c, vs, g.stats
			}
			emit(obsOp())
			if e.f != nil && r.Chance(1, 14) {
				// a partial copy of the image: the file ends inside (or at the start of) an object,
				// which the loader accepts; reading that object through the library fails
				var cuts []int64
				var ids []uint32
				flen := int64(len(e.storeBytes()))
				e.f.WithDescriptors(func(d sif.Descriptor) bool {
					if d.Size() > 0 && d.Offset()+d.Size() <= flen {
						cuts = append(cuts, d.Offset(), d.Offset()+d.Size()/2, d.Offset()+d.Size()-1)
						ids = append(ids, d.ID())
					}
					return false
				})
				if len(cuts) > 0 {
					emit(&Op{Kind: "ftrunc", N: pick(r, cuts)})
					g.count("cli:file-cut-short")
					for _, id := range ids {
						emit(&Op{Kind: "cli", Cli: &CliOp{Cmd: "dump", Arg: fmt.Sprint(id)}})
					}
					emit(&Op{Kind: "cli", Cli: &CliOp{Cmd: pick(r, []string{"list", "header", "info"}), Arg: "1"}})
					return c, vs, g.stats // nothing may be added to a damaged image in these histories
				}
			}
		}
		return c, vs, g.stats
	}
	if spec.Backends && shipped == "" && r.Chance(1, 3) {
		// C14: a raw call sequence on the bare backing store (replayed on the other backend later)
		for _, op := range g.stSequence("buf") {
			emit(op)
		}
		g.count("case:raw-store-calls")
		return c, vs, g.stats
	}
	if shipped != "" {
		lo := emit(&Op{Kind: "load", Backend: pick(r, g.p.Backends), Path: shipped})
		g.count("shipped-image")
		if len(lo) == 0 || lo[0] != "res ok" {
			vs = append(vs, &Violation{Prop: "C11", Key: "C11:refused-shipped-image", What: "shipped image " + shipped + " was refused", Op: 0})
			return c, vs, g.stats
		}
	} else if r.Intn(1000) < spec.Profile.Foreign {
		img := g.genForeign()
		if r.Intn(1000) < spec.Profile.BadMagic {
			g.badMagicVersion(img)
		}
		emit(&Op{Kind: "mkimg", Img: img})
		g.noGrow = img.TableBehind
		if img.TableBehind {
			truncated = true // the layout is outside the invariant's hypotheses: behaviour is compared, the invariant is not asserted
		}
		lo := emit(&Op{Kind: "load", Backend: pick(r, g.p.Backends), Foreign: true})
		if img.BadMagicVersion {
			if len(lo) > 0 && lo[0] == "res ok" {
				vs = append(vs, &Violation{Prop: "C11", Key: "C11:accepted-bad-magic-version",
					What: fmt.Sprintf("image with magic %q version %q was loaded instead of refused", img.Magic, img.Version), Op: 1})
			}
			return c, vs, g.stats
		}
		if len(lo) == 0 || lo[0] != "res ok" {
			if img.WellFormed {
				vs = append(vs, &Violation{Prop: "C11", Key: "C11:refused-valid-foreign-image",
					What: "a well-formed image written by the independent encoder was refused", Op: 1})
			}
			return c, vs, g.stats
		}
	} else {
		create := g.createOp()
		obs := emit(create)
		if len(obs) == 0 || obs[0] != "res ok" {
			return c, vs, g.stats
		}
	}
	emit(obsOp())
	n := 1 + r.Intn(spec.Profile.MaxOps)
	for k := 0; k < n && e.f != nil; k++ {
		op := g.nextOp(e.f)
		scriptedFault := false
		if spec.Profile.Faults && spec.Profile.Queries > 0 && e.ctl != nil && !truncated {
			// (query campaigns) an image down to its last one or two objects whose zeroing delete is
			// refused by the store while the zeros are being written, possibly again and again: the
			// queries that follow are still answered from the table, which still holds the object
			if in := inspect(e.f); len(in.ids) >= 1 && len(in.ids) <= 2 && r.Chance(1, 3) {
				op = &Op{Kind: "del", T: g.topt(), Sel: Sel{Kind: "id", N: int64(pick(r, in.ids))}, Zero: true}
				scriptedFault = true
				g.count("op:zeroing-delete-of-one-of-the-last-objects-refused-by-the-store")
			}
		}
		if op.Kind == "ftrunc" {
			truncated = true
		}
		var hdr0 []byte
		if spec.Profile.TornHeader && op.Kind == "add" {
			if b := e.storeBytes(); len(b) >= 128 {
				hdr0 = append([]byte(nil), b[:128]...)
			}
		}
		if spec.Profile.Faults && isMutator(op.Kind) && e.ctl != nil && !truncated && (scriptedFault || r.Chance(1, 4)) {
			// the backing store fails one of this operation's calls (chosen among those a dry run on
			// a copy shows it issues); the history goes on with the same handle
			if evs := e.dryRunCalls(op); len(evs) > 0 {
				var ks []int
				for k, ev := range evs {
					if !(ev.Kind == "write" && len(ev.P) == 0) {
						ks = append(ks, k+1)
					}
				}
				if scriptedFault && len(ks) > 2 {
					ks = ks[:2] // the seek or the write of the zeroing pass
				}
				if len(ks) > 0 {
					op.FaultAt = pick(r, ks)
					op.FaultShort = evs[op.FaultAt-1].Kind == "write" && len(evs[op.FaultAt-1].P) >= 2 && r.Chance(1, 3)
					g.count("op:store-fails-a-" + evs[op.FaultAt-1].Kind + "-call-of-" + op.Kind)
				}
			}
		}
		obs := emit(op)
		if op.Fault != "" {
			faulted = true
		}
		if hdr0 != nil && e.f != nil && len(obs) > 0 && obs[0] == "res ok" && r.Chance(1, 5) {
			// the add was interrupted between its descriptor-table write and its header write, and
			// the image was opened again: new table, old header (stale counters and data size)
			emit(&Op{Kind: "patch", Sites: []PatchSite{{Off: 0, B: hdr0}}})
			truncated = true // the header's accounting no longer matches the table: WF is not expected
			g.count("op:reopened-after-torn-add")
		}
		if e.f == nil {
			break
		}
		emit(obsOp())
		if spec.Profile.Queries > 0 {
			in := inspect(e.f)
			for q := 0; q < spec.Profile.Queries; q++ {
				emit(g.queryOp(in))
			}
		}
	}
	return c, vs, g.stats
}

func protoKey(c *Case) [32]byte {
	// canonical history: protocol lines with clock readings removed
	var sb strings.Builder
	for _, l := range c.Proto {
		for _, f := range strings.Fields(l) {
			if strings.HasPrefix(f, "now=") || strings.HasPrefix(f, "rnd=") {
				continue
			}
			sb.WriteString(f)
			sb.WriteByte(' ')
		}
		sb.WriteByte('\n')
	}
	return sha256.Sum256([]byte(sb.String()))
}

func nontrivial(c *Case) bool {
	mut, obs := false, false
	for i, op := range c.Ops {
		if isMutator(op.Kind) || (op.Kind == "cli" && (op.Cli.Cmd == "add" || op.Cli.Cmd == "del" || op.Cli.Cmd == "setprim")) {
			// succeeded?
			for j, o := range c.OpOf {
				if o == i && (strings.HasPrefix(c.Impl[j], "res ok") || strings.HasPrefix(c.Impl[j], "cli ok")) {
					mut = true
				}
			}
		}
		if op.Kind == "obs" || op.Kind == "q" {
			obs = true
		}
		if op.Kind == "st" && (op.St.Call == "write" || op.St.Call == "trunc") {
			mut, obs = true, true // every raw call line carries the store's state
		}
	}
	return mut && obs
}

func loadKnown() map[string]string {
	m := map[string]string{}
	b, err := os.ReadFile(filepath.Join(verifDir(), "known_findings.json"))
	if err != nil {
		return m
	}
	var kf struct {
		Findings []struct{ Property, Key, What string } `json:"findings"`
	}
	if json.Unmarshal(b, &kf) == nil {
		for _, f := range kf.Findings {
			m[f.Key] = f.What
		}
	}
	return m
}

func verifDir() string { return envOr("VERIF_DIR", "/verif") }

// shippedImages lists the images of earlier releases under $REPO/test/images.
var shippedImages = func() []string {
	m, _ := filepath.Glob(filepath.Join(envOr("REPO", "/repo"), "test", "images", "*.sif"))
	sort.Strings(m)
	return m
}()

// histCampaign runs the campaign for prop.
func histCampaign(prop, tier string, seed uint64, scratch string) *Result {
	spec := propSpecs[prop]
	t0 := time.Now()
	n := spec.Cases[0]
	if tier == "thorough" {
		n = spec.Cases[1]
	}
	if v := os.Getenv("VERIF_CASES"); v != "" {
		fmt.Sscan(v, &n)
	}
	res := &Result{Prop: prop, Tier: tier, Seed: seed, Stats: map[string]int{}}
	known := loadKnown()
	var mu sync.Mutex
	seen := map[[32]byte]bool{}
	workers := envInt("VERIF_WORKERS", 16)
	type second struct {
		c    *Case
		seed uint64
	}
	var firstRuns []second
	corpus := corpusSeeds(prop)
	res.Stats["corpus-cases"] = len(corpus)
	parallel(n+len(corpus), workers, func(i int) {
		cs := seed*1000003 + uint64(i)*7919 + 1
		dir := filepath.Join(scratch, fmt.Sprintf("c%d", i))
		_ = os.MkdirAll(dir, 0o755)
		defer os.RemoveAll(dir)
		shipped := ""
		if spec.Shipped && i < 2*len(shippedImages) {
			shipped = shippedImages[i%len(shippedImages)]
		}
		if i >= n {
			// cases that exposed a seeded change before: run again on every run, whatever the seed
			cs, shipped = corpus[i-n].seed, corpus[i-n].shipped
		}
		c, vs, stats := runHistory(dir, cs, spec, shipped)
		model, err := runDriver(c.Proto)
		mu.Lock()
		defer mu.Unlock()
		res.Cases++
		res.OpsRun += len(c.Ops)
		res.Lines += len(c.Impl)
		for k, v := range stats {
			res.Stats[k] += v
		}
		if nontrivial(c) {
			k := protoKey(c)
			if !seen[k] {
				seen[k] = true
				res.Distinct++
			}
		}
		if len(res.Samples) < 3 && len(c.Ops) > 3 {
			var s []string
			for _, op := range c.Ops {
				if op.Kind != "obs" && len(s) < 8 {
					s = append(s, op.Short())
				}
			}
			res.Samples = append(res.Samples, strings.Join(s, " | "))
		}
		for _, v := range vs {
			f := &Finding{V: *v, Seed: cs, Ops: c.Ops}
			if _, ok := known[v.Key]; ok {
				f.Known = true
			}
			res.Findings = append(res.Findings, f)
		}
		if err != nil {
			if res.DriverErr == "" {
				res.DriverErr = err.Error()
			}
			return
		}
		m, unrel := relevantMismatch(c, model, spec.Kinds)
		res.Unrelated += unrel
		if m != nil {
			if dbg := os.Getenv("FAULT_DEBUG"); dbg != "" {
				if fh, err := os.OpenFile(dbg, os.O_APPEND|os.O_CREATE|os.O_WRONLY, 0o644); err == nil {
					lo := m.Line - 6
					if lo < 0 {
						lo = 0
					}
					fmt.Fprintf(fh, "MISMATCH seed=%d line=%d\n impl : %s\n model: %s\n proto: %v\n", cs, m.Line, m.Impl, m.Model, c.Proto[len(c.Proto)-min(len(c.Proto), 8):])
					fh.Close()
				}
			}
			res.Breaks = append(res.Breaks, &CorrBreak{Seed: cs, M: *m, Ops: c.Ops, Fields: diffFields(m.Impl, m.Model)})
		}
		if spec.TwoRuns || spec.Backends {
			firstRuns = append(firstRuns, second{c, cs})
		}
	})
	// C12: repeat every history after a wall-clock second boundary (and on the other backend):
	// with deterministic/explicit options the bytes must be identical.
	if spec.TwoRuns {
		time.Sleep(1100 * time.Millisecond)
		parallel(len(firstRuns), workers, func(i int) {
			fr := firstRuns[i]
			dir := filepath.Join(scratch, fmt.Sprintf("s%d", i))
			_ = os.MkdirAll(dir, 0o755)
			defer os.RemoveAll(dir)
			if v := secondRunC12(dir, fr.c); v != nil {
				mu.Lock()
				f := &Finding{V: *v, Seed: fr.seed, Ops: fr.c.Ops}
				if _, ok := known[v.Key]; ok {
					f.Known = true
				}
				res.Findings = append(res.Findings, f)
				mu.Unlock()
			}
		})
	}
	if spec.Backends {
		parallel(len(firstRuns), workers, func(i int) {
			fr := firstRuns[i]
			dir := filepath.Join(scratch, fmt.Sprintf("b%d", i))
			_ = os.MkdirAll(dir, 0o755)
			defer os.RemoveAll(dir)
			v, c2 := otherBackendC14(dir, fr.c)
			var brk *CorrBreak
			if c2 != nil {
				// (the model run happens outside the lock: one driver process per worker)
				if model, err := runDriver(c2.Proto); err == nil {
					if m, _ := relevantMismatch(c2, model, spec.Kinds); m != nil {
						brk = &CorrBreak{Seed: fr.seed, M: *m, Ops: c2.Ops, Fields: diffFields(m.Impl, m.Model)}
					}
				}
			}
			mu.Lock()
			defer mu.Unlock()
			if v != nil {
				f := &Finding{V: *v, Seed: fr.seed, Ops: fr.c.Ops}
				if _, ok := known[v.Key]; ok {
					f.Known = true
				}
				res.Findings = append(res.Findings, f)
			}
			if brk != nil {
				res.Breaks = append(res.Breaks, brk)
			}
			if c2 != nil {
				res.Lines += len(c2.Impl)
			}
		})
	}
	if prop == "C01" {
		// two independent images written at the same time (forced interleaving, deterministic)
		for _, v := range twoImagesOracle(scratch, seed, res.Stats) {
			f := &Finding{V: *v, Seed: seed}
			if _, ok := known[v.Key]; ok {
				f.Known = true
			}
			res.Findings = append(res.Findings, f)
		}
	}
	sort.Slice(res.Breaks, func(a, b int) bool { return len(res.Breaks[a].Ops) < len(res.Breaks[b].Ops) })
	sort.Slice(res.Findings, func(a, b int) bool { return len(res.Findings[a].Ops) < len(res.Findings[b].Ops) })
	res.WallS = time.Since(t0).Seconds()
	return res
}

// usesWallClock reports whether an op's outcome may legitimately depend on the wall clock or RNG.
func dependsOnClock(c *Case) []bool {
	ops := c.Ops
	dep := make([]bool, len(ops))
	det := false
	okOp := make([]bool, len(ops))
	for j, l := range c.Impl {
		if strings.HasPrefix(l, "res ok") {
			okOp[c.OpOf[j]] = true
		}
	}
	for i, op := range ops {
		switch op.Kind {
		case "create":
			det = false
			hasID, hasTime := false, false
			for _, c := range op.COpts {
				switch c.Kind {
				case "det":
					hasID, hasTime = true, true
				case "id":
					hasID = !c.Bad
				case "time":
					hasTime = true
				}
			}
			// later options override earlier ones only in the same direction here: the generator
			// never mixes det with id/time
			for _, c := range op.COpts {
				if c.Kind == "det" {
					det = true
				}
			}
			dep[i] = !(hasID && hasTime)
			if dep[i] {
				det = false
			}
		case "add", "del", "setprim", "setmeta", "setoci", "sign":
			t := op.T
			if op.Kind == "sign" {
				t = op.S.T
			}
			if t.Kind == "dflt" && !det {
				dep[i] = true
			}
			if t.Kind == "at" && okOp[i] {
				det = false
			}
			continue
			// an explicit time makes the image non-deterministic only if the call was accepted:
			// a rejected call must leave the image (and its determinism) as it was
			if op.T.Kind == "at" && okOp[i] {
				det = false
			}
		}
	}
	return dep
}

// secondRunC12 replays a history at a later wall-clock time on the other backend and checks that,
// if no step may depend on the clock, the bytes are identical; deterministic images carry the nil
// ID and zero times.
func secondRunC12(dir string, c *Case) *Violation {
	dep := dependsOnClock(c)
	anyDep := false
	for _, d := range dep {
		anyDep = anyDep || d
	}
	ops := make([]*Op, len(c.Ops))
	for i, op := range c.Ops {
		cp := *op
		if cp.Kind == "create" {
			if cp.Backend == "buf" {
				cp.Backend = "file"
			} else {
				cp.Backend = "buf"
			}
		}
		ops[i] = &cp
	}
	var last1, last2 string
	e2 := &Env{dir: dir, faultCtl: anyFault(ops)}
	if holdsMegabyteObject(ops) {
		// the second run also differs in how long short and long reads take while signing
		e2.wrap = func(rw sif.ReadWriter) sif.ReadWriter { return slowSmallReads{rw, &e2.signing} }
	}
	c2 := replayOpsOn(e2, ops, nil)
	for _, l := range c.Impl {
		if strings.HasPrefix(l, "file ") {
			last1 = l
		}
	}
	for _, l := range c2.Impl {
		if strings.HasPrefix(l, "file ") {
			last2 = l
		}
	}
	if !anyDep {
		for i := range c.Impl {
			if i < len(c2.Impl) && c.Impl[i] != c2.Impl[i] {
				key := "C12:not-reproducible"
				if capZero(c.Ops) {
					key = "C12:empty-write-past-end"
				}
				return &Violation{Prop: "C12", Key: key, What: fmt.Sprintf("same history, deterministic/explicit options, second run (other backend, later time) differs at %q vs %q", c.Impl[i], c2.Impl[i]), Op: c.OpOf[i]}
			}
		}
		if last1 != last2 {
			return &Violation{Prop: "C12", Key: "C12:not-reproducible", What: "final bytes differ between two runs: " + last1 + " vs " + last2}
		}
	}
	// zero fields: an image created deterministically and only modified with default or
	// deterministic options has nil ID and zero times everywhere
	allDet := len(c.Ops) > 0
	okOp := make([]bool, len(c.Ops))
	for j, l := range c.Impl {
		if strings.HasPrefix(l, "res ok") {
			okOp[c.OpOf[j]] = true
		}
	}
	for oi, op := range c.Ops {
		if !okOp[oi] && op.Kind != "create" {
			continue // a rejected call must not affect determinism
		}
		switch op.Kind {
		case "create":
			d := false
			for _, o := range op.COpts {
				if o.Kind == "det" {
					d = true
				}
				if o.Kind == "id" || o.Kind == "time" {
					allDet = false
				}
				for _, di := range o.DIs {
					for _, x := range di.Opts {
						if x.Kind == "time" {
							allDet = false
						}
					}
				}
			}
			if !d {
				allDet = false
			}
		case "add":
			for _, x := range op.DI.Opts {
				if x.Kind == "time" {
					allDet = false
				}
			}
			if op.T.Kind == "at" {
				allDet = false
			}
		case "del", "setprim", "setmeta", "setoci":
			if op.T.Kind == "at" {
				allDet = false
			}
		case "sign":
			if op.S.T.Kind == "at" {
				allDet = false
			}
		}
	}
	if allDet {
		for i, l := range c.Impl {
			if strings.HasPrefix(l, "hdr ") || strings.HasPrefix(l, "obj ") {
				for _, f := range strings.Fields(l) {
					if (strings.HasPrefix(f, "ct=") || strings.HasPrefix(f, "mt=")) && f[3:] != "-62135596800" {
						return &Violation{Prop: "C12", Key: "C12:nonzero-time", What: "deterministic history left a non-zero time field: " + l, Op: c.OpOf[i]}
					}
					if strings.HasPrefix(f, "id=") && strings.HasPrefix(l, "hdr ") && f[3:] != strings.Repeat("0", 32) {
						return &Violation{Prop: "C12", Key: "C12:nonnil-id", What: "deterministic history left a non-nil image ID: " + l, Op: c.OpOf[i]}
					}
				}
			}
		}
	}
	return nil
}

// otherBackendC14 replays the history on the file backend and demands identical observations.
func otherBackendC14(dir string, c *Case) (*Violation, *Case) {
	ops := make([]*Op, len(c.Ops))
	for i, op := range c.Ops {
		cp := *op
		if cp.Kind == "create" || cp.Kind == "load" {
			cp.Backend = "file"
		}
		if cp.Kind == "st" && cp.St.Call == "new" {
			st := *cp.St
			st.Be = "file"
			cp.St = &st
		}
		ops[i] = &cp
	}
	c2 := replayOps(dir, ops, nil)
	capZero := capZero(c.Ops)
	n := len(c.Impl)
	if len(c2.Impl) < n {
		n = len(c2.Impl)
	}
	for i := 0; i < n; i++ {
		if c.Impl[i] != c2.Impl[i] {
			key := "C14:backends-differ"
			if capZero {
				key = "C14:empty-write-past-end"
			}
			return &Violation{Prop: "C14", Key: key, What: fmt.Sprintf("sif.Buffer: %q, os.File: %q", c.Impl[i], c2.Impl[i]), Op: c.OpOf[i]}, c2
		}
	}
	return nil, c2
}

// capZero: the history creates an image with descriptor capacity 0 (finding D8's trigger).
func capZero(ops []*Op) bool {
	for _, op := range ops {
		if op.Kind == "create" {
			for _, o := range op.COpts {
				if o.Kind == "cap" && o.I == 0 {
					return true
				}
			}
		}
	}
	return false
}

// corpus of case seeds that exposed a defect or a seeded change in the past (corpus/<prop>.seeds:
// one decimal seed per line, optionally followed by shipped=<path relative to test/images>).
type corpusCase struct {
	seed    uint64
	shipped string
}

func corpusSeeds(prop string) []corpusCase {
	b, err := os.ReadFile(filepath.Join(verifDir(), "corpus", prop+".seeds"))
	if err != nil {
		return nil
	}
	var out []corpusCase
	for _, l := range strings.Split(string(b), "\n") {
		f := strings.Fields(l)
		if len(f) == 0 || strings.HasPrefix(f[0], "#") {
			continue
		}
		var c corpusCase
		if _, err := fmt.Sscan(f[0], &c.seed); err != nil {
			continue
		}
		for _, x := range f[1:] {
			if strings.HasPrefix(x, "shipped=") {
				c.shipped = filepath.Join(repoDir(), "test", "images", x[8:])
			}
		}
		out = append(out, c)
	}
	return out
}

func holdsMegabyteObject(ops []*Op) bool {
	signs, big := false, false
	for _, op := range ops {
		switch op.Kind {
		case "sign":
			signs = true
		case "add":
			big = big || op.DI.Data.Len >= 1<<20
		case "create":
			for _, c := range op.COpts {
				for _, d := range c.DIs {
					big = big || d.Data.Len >= 1<<20
				}
			}
		}
	}
	return signs && big
}
