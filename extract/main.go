// extract: regenerates lean/SifVerif/Generated/Facts.lean from the Go sources of $REPO on every
// run.  Uses go/parser + go/types with the "source" importer (works offline).  The facts are
// compared with the hand-written model by Props/FactsCheck.lean (decide / rfl), so a source edit
// that changes a layout, a constant, an integrity-stream field list, or adds a shared write on a
// read-only path breaks a proof obligation at `lake build`.
package main

import (
	"flag"
	"fmt"
	"go/ast"
	"go/constant"
	"go/importer"
	"go/parser"
	"go/token"
	"go/types"
	"os"
	"path/filepath"
	"sort"
	"strings"
)

type pkgInfo struct {
	path  string
	fset  *token.FileSet
	files []*ast.File
	pkg   *types.Package
	info  *types.Info
}

func load(fset *token.FileSet, imp types.Importer, dir, path string) (*pkgInfo, error) {
	pkgs, err := parser.ParseDir(fset, dir, func(fi os.FileInfo) bool { return !strings.HasSuffix(fi.Name(), "_test.go") }, parser.ParseComments)
	if err != nil {
		return nil, err
	}
	var files []*ast.File
	for _, p := range pkgs {
		if strings.HasSuffix(p.Name, "_test") {
			continue
		}
		var names []string
		for n := range p.Files {
			names = append(names, n)
		}
		sort.Strings(names)
		for _, n := range names {
			files = append(files, p.Files[n])
		}
	}
	info := &types.Info{Types: map[ast.Expr]types.TypeAndValue{}, Defs: map[*ast.Ident]types.Object{}, Uses: map[*ast.Ident]types.Object{}, Selections: map[*ast.SelectorExpr]*types.Selection{}}
	conf := types.Config{Importer: imp, Error: func(error) {}}
	pkg, _ := conf.Check(path, fset, files, info)
	return &pkgInfo{path: path, fset: fset, files: files, pkg: pkg, info: info}, nil
}

func kindOf(t types.Type) (string, int) {
	switch u := t.Underlying().(type) {
	case *types.Basic:
		switch u.Kind() {
		case types.Int32:
			return "i32", 4
		case types.Uint32:
			return "u32", 4
		case types.Int64:
			return "i64", 8
		case types.Bool:
			return "bool", 1
		case types.Uint8:
			return "u8", 1
		}
	case *types.Array:
		if b, ok := u.Elem().Underlying().(*types.Basic); ok && b.Kind() == types.Uint8 {
			return "bytes", int(u.Len())
		}
	}
	return "other", 0
}

func structLayout(p *pkgInfo, name string) []string {
	obj := p.pkg.Scope().Lookup(name)
	if obj == nil {
		return nil
	}
	st, ok := obj.Type().Underlying().(*types.Struct)
	if !ok {
		return nil
	}
	var out []string
	for i := 0; i < st.NumFields(); i++ {
		k, n := kindOf(st.Field(i).Type())
		out = append(out, fmt.Sprintf("(\"%s\", \"%s\", %d)", st.Field(i).Name(), k, n))
	}
	return out
}

func constVal(p *pkgInfo, name string) string {
	obj := p.pkg.Scope().Lookup(name)
	if c, ok := obj.(*types.Const); ok {
		if c.Val().Kind() == constant.Int {
			if v, ok := constant.Int64Val(c.Val()); ok {
				return fmt.Sprint(v)
			}
			if v, ok := constant.Uint64Val(c.Val()); ok {
				return fmt.Sprint(v)
			}
		}
		return c.Val().ExactString()
	}
	return "0"
}

// byteArrayVar evaluates a package-level `[...]byte{…}` composite literal of char/int literals.
func byteArrayVar(p *pkgInfo, name string) []string {
	for _, f := range p.files {
		for _, d := range f.Decls {
			gd, ok := d.(*ast.GenDecl)
			if !ok {
				continue
			}
			for _, s := range gd.Specs {
				vs, ok := s.(*ast.ValueSpec)
				if !ok {
					continue
				}
				for i, n := range vs.Names {
					if n.Name != name || i >= len(vs.Values) {
						continue
					}
					if cl, ok := vs.Values[i].(*ast.CompositeLit); ok {
						var out []string
						for _, e := range cl.Elts {
							if tv, ok := p.info.Types[e]; ok && tv.Value != nil {
								if v, ok := constant.Int64Val(tv.Value); ok {
									out = append(out, fmt.Sprint(v))
								}
							}
						}
						return out
					}
				}
			}
		}
	}
	return nil
}

func findFunc(p *pkgInfo, recv, name string) *ast.FuncDecl {
	for _, f := range p.files {
		for _, d := range f.Decls {
			fd, ok := d.(*ast.FuncDecl)
			if !ok || fd.Name.Name != name {
				continue
			}
			r := ""
			if fd.Recv != nil && len(fd.Recv.List) > 0 {
				t := fd.Recv.List[0].Type
				if s, ok := t.(*ast.StarExpr); ok {
					t = s.X
				}
				if id, ok := t.(*ast.Ident); ok {
					r = id.Name
				}
			}
			if r == recv {
				return fd
			}
		}
	}
	return nil
}

// mapLit renders the first map composite literal of fd as (string, bytes) pairs.
func mapLit(p *pkgInfo, fd *ast.FuncDecl, swap bool) []string {
	var out []string
	if fd == nil {
		return out
	}
	done := false
	ast.Inspect(fd.Body, func(n ast.Node) bool {
		cl, ok := n.(*ast.CompositeLit)
		if !ok || done {
			return !done
		}
		if _, ok := cl.Type.(*ast.MapType); !ok {
			return true
		}
		done = true
		for _, e := range cl.Elts {
			kv, ok := e.(*ast.KeyValueExpr)
			if !ok {
				continue
			}
			k, v := kv.Key, kv.Value
			if swap {
				k, v = v, k
			}
			ks := "?"
			if tv, ok := p.info.Types[k]; ok && tv.Value != nil {
				ks = tv.Value.ExactString()
			}
			vs := "[]"
			if id, ok := v.(*ast.Ident); ok {
				vs = "[" + strings.Join(byteArrayVar(p, id.Name), ", ") + "]"
			}
			out = append(out, "("+ks+", "+vs+")")
		}
		return false
	})
	return out
}

// selectorPath renders x.y.z
func selPath(e ast.Expr) string {
	switch v := e.(type) {
	case *ast.Ident:
		return v.Name
	case *ast.SelectorExpr:
		return selPath(v.X) + "." + v.Sel.Name
	case *ast.SliceExpr:
		return selPath(v.X)
	case *ast.IndexExpr:
		return selPath(v.X) + "[]"
	case *ast.StarExpr:
		return "*" + selPath(v.X)
	case *ast.ParenExpr:
		return selPath(v.X)
	case *ast.UnaryExpr:
		return selPath(v.X)
	}
	return "?"
}

// integrityFields: the ordered field names mentioned in a GetIntegrityReader body.
func integrityFields(fd *ast.FuncDecl, root string) []string {
	var out []string
	if fd == nil {
		return out
	}
	ast.Inspect(fd.Body, func(n ast.Node) bool {
		if se, ok := n.(*ast.SelectorExpr); ok {
			p := selPath(se)
			if strings.HasPrefix(p, root+".") {
				out = append(out, "\""+strings.TrimPrefix(p, root+".")+"\"")
				return false
			}
		}
		return true
	})
	return out
}

// callOrder: source-order sequence of the I/O and flush calls inside a function body.
func callOrder(fd *ast.FuncDecl) []string {
	var out []string
	if fd == nil {
		return out
	}
	interesting := map[string]bool{"Seek": true, "Write": true, "Truncate": true, "Copy": true, "CopyN": true, "zero": true,
		"writeDescriptors": true, "writeHeader": true, "writeDataObject": true, "writeDataObjectAt": true, "resize": true, "populateMinIDs": true}
	ast.Inspect(fd.Body, func(n ast.Node) bool {
		if ce, ok := n.(*ast.CallExpr); ok {
			name := ""
			switch f := ce.Fun.(type) {
			case *ast.SelectorExpr:
				name = f.Sel.Name
			case *ast.Ident:
				name = f.Name
			}
			if interesting[name] {
				out = append(out, "\""+name+"\"")
			}
		}
		return true
	})
	return out
}

// uncheckedErrors: calls in fd whose last result is an error that is neither assigned nor returned.
func uncheckedErrors(p *pkgInfo, fd *ast.FuncDecl) []string {
	var out []string
	if fd == nil {
		return out
	}
	errT := types.Universe.Lookup("error").Type()
	ast.Inspect(fd.Body, func(n ast.Node) bool {
		es, ok := n.(*ast.ExprStmt)
		if !ok {
			return true
		}
		ce, ok := es.X.(*ast.CallExpr)
		if !ok {
			return true
		}
		tv, ok := p.info.Types[ce]
		if !ok {
			return true
		}
		last := tv.Type
		if tup, ok := tv.Type.(*types.Tuple); ok && tup.Len() > 0 {
			last = tup.At(tup.Len() - 1).Type()
		}
		if types.Identical(last, errT) {
			out = append(out, "\""+selPath(ce.Fun)+"\"")
		}
		return true
	})
	// `_ = f()` / `_, _ = f()`
	ast.Inspect(fd.Body, func(n ast.Node) bool {
		as, ok := n.(*ast.AssignStmt)
		if !ok || len(as.Rhs) != 1 {
			return true
		}
		ce, ok := as.Rhs[0].(*ast.CallExpr)
		if !ok {
			return true
		}
		tv, ok := p.info.Types[ce]
		if !ok {
			return true
		}
		var last types.Type = tv.Type
		idx := 0
		if tup, ok := tv.Type.(*types.Tuple); ok && tup.Len() > 0 {
			last = tup.At(tup.Len() - 1).Type()
			idx = tup.Len() - 1
		}
		if types.Identical(last, errT) && idx < len(as.Lhs) {
			if id, ok := as.Lhs[idx].(*ast.Ident); ok && id.Name == "_" {
				out = append(out, "\""+selPath(ce.Fun)+"\"")
			}
		}
		return true
	})
	return out
}

func main() {
	repo := flag.String("repo", "/repo", "repository root")
	outp := flag.String("out", "", "output Lean file")
	flag.Parse()
	fset := token.NewFileSet()
	imp := importer.ForCompiler(fset, "source", nil)
	wd, _ := os.Getwd()
	_ = os.Chdir(*repo) // the source importer resolves module-relative imports from the cwd
	sif, err := load(fset, imp, filepath.Join(*repo, "pkg", "sif"), "github.com/sylabs/sif/v2/pkg/sif")
	if err != nil || sif.pkg == nil {
		fmt.Fprintln(os.Stderr, "cannot load pkg/sif:", err)
		os.Exit(1)
	}
	integ, err := load(fset, imp, filepath.Join(*repo, "pkg", "integrity"), "github.com/sylabs/sif/v2/pkg/integrity")
	if err != nil || integ.pkg == nil {
		fmt.Fprintln(os.Stderr, "cannot load pkg/integrity:", err)
		os.Exit(1)
	}
	cli, err := load(fset, imp, filepath.Join(*repo, "pkg", "siftool"), "github.com/sylabs/sif/v2/pkg/siftool")
	if err != nil || cli.pkg == nil {
		fmt.Fprintln(os.Stderr, "cannot load pkg/siftool:", err)
		os.Exit(1)
	}
	_ = os.Chdir(wd)

	var b strings.Builder
	w := func(f string, a ...any) { fmt.Fprintf(&b, f, a...) }
	w("/- GENERATED by extract/ from %s on every run — do not edit, never committed. -/\nnamespace Sif.Gen\n\n", *repo)
	for _, s := range []string{"header", "rawDescriptor", "partition", "signature", "cryptoMessage", "sbom"} {
		w("def layout_%s : List (String × String × Nat) := [%s]\n", s, strings.Join(structLayout(sif, s), ", "))
	}
	w("\n")
	for _, c := range []string{"hdrLaunchLen", "hdrMagicLen", "hdrVersionLen", "descrGroupMask", "descrEntityLen", "descrNameLen", "descrMaxPrivLen",
		"DataDeffile", "DataEnvVar", "DataLabels", "DataPartition", "DataSignature", "DataGenericJSON", "DataGeneric", "DataCryptoMessage", "DataSBOM", "DataOCIRootIndex", "DataOCIBlob",
		"PartSystem", "PartPrimSys", "PartData", "PartOverlay", "FsSquash", "FsExt3", "FsImmuObj", "FsRaw", "FsEncryptedSquashfs",
		"hashSHA256", "hashSHA384", "hashSHA512", "hashBLAKE2S", "hashBLAKE2B", "DefaultObjectGroup", "CurrentVersion"} {
		w("def c_%s : Int := %s\n", c, constVal(sif, c))
	}
	w("def hdrMagic : List Nat := [%s]\n", strings.Join(byteArrayVar(sif, "hdrMagic"), ", "))
	var archs []string
	for _, a := range []string{"hdrArchUnknown", "hdrArch386", "hdrArchAMD64", "hdrArchARM", "hdrArchARM64", "hdrArchPPC64", "hdrArchPPC64le", "hdrArchMIPS", "hdrArchMIPSle", "hdrArchMIPS64", "hdrArchMIPS64le", "hdrArchS390x", "hdrArchRISCV64"} {
		archs = append(archs, "["+strings.Join(byteArrayVar(sif, a), ", ")+"]")
	}
	w("def archCodes : List (List Nat) := [%s]\n", strings.Join(archs, ", "))
	w("def getSIFArchMap : List (String × List Nat) := [%s]\n", strings.Join(mapLit(sif, findFunc(sif, "", "getSIFArch"), false), ", "))
	w("def goArchMap : List (String × List Nat) := [%s]\n", strings.Join(mapLit(sif, findFunc(sif, "archType", "GoArch"), true), ", "))
	w("def c_metadataMediaType : String := %s\n\n", constVal(integ, "metadataMediaType"))

	w("def hdrIntegrityFields : List String := [%s]\n", strings.Join(integrityFields(findFunc(sif, "header", "GetIntegrityReader"), "h"), ", "))
	w("def descIntegrityFields : List String := [%s]\n\n", strings.Join(integrityFields(findFunc(sif, "Descriptor", "GetIntegrityReader"), "d"), ", "))

	type fn struct{ recv, name string }
	muts := []fn{{"FileImage", "AddObject"}, {"FileImage", "DeleteObjects"}, {"FileImage", "SetPrimPart"}, {"FileImage", "SetMetadata"}, {"FileImage", "SetOCIBlobDigest"},
		{"FileImage", "writeDataObject"}, {"", "writeDataObjectAt"}, {"FileImage", "zero"}, {"FileImage", "resize"}, {"FileImage", "writeDescriptors"}, {"FileImage", "writeHeader"}, {"", "createContainer"}}
	for _, m := range muts {
		fd := findFunc(sif, m.recv, m.name)
		w("def calls_%s : List String := [%s]\n", m.name, strings.Join(callOrder(fd), ", "))
		w("def unchecked_%s : List String := [%s]\n", m.name, strings.Join(uncheckedErrors(sif, fd), ", "))
	}
	w("\n")
	emitEffects(&b, []*pkgInfo{sif, integ})
	w("\n")
	emitCLI(&b, cli, sif)
	w("\nend Sif.Gen\n")
	if *outp == "" {
		fmt.Print(b.String())
		return
	}
	if err := os.WriteFile(*outp, []byte(b.String()), 0o644); err != nil {
		fmt.Fprintln(os.Stderr, err)
		os.Exit(1)
	}
}
