package main

import (
	"fmt"
	"go/ast"
	"go/constant"
	"strings"
)

// switchTable renders `switch x { case K: return V, ... }` of fd as (key, value) pairs; keys and
// values are constants (ints, strings) resolved by the type checker, identifiers otherwise.
func switchTable(p *pkgInfo, fd *ast.FuncDecl) []string {
	var out []string
	if fd == nil {
		return out
	}
	render := func(e ast.Expr) string {
		if tv, ok := p.info.Types[e]; ok && tv.Value != nil {
			if tv.Value.Kind() == constant.String {
				return tv.Value.ExactString()
			}
			return "\"" + tv.Value.ExactString() + "\""
		}
		return "\"" + selPath(e) + "\""
	}
	ast.Inspect(fd.Body, func(n ast.Node) bool {
		cc, ok := n.(*ast.CaseClause)
		if !ok || len(cc.List) == 0 {
			return true
		}
		val := "?"
		for _, st := range cc.Body {
			if rs, ok := st.(*ast.ReturnStmt); ok && len(rs.Results) > 0 {
				val = render(rs.Results[0])
			}
		}
		for _, k := range cc.List {
			out = append(out, fmt.Sprintf("(%s, %s)", render(k), val))
		}
		return true
	})
	return out
}

// callArgs lists, for every call of the function/method named name inside the package, the
// constant arguments (as strings).
func callArgs(p *pkgInfo, name string) []string {
	var out []string
	for _, f := range p.files {
		ast.Inspect(f, func(n ast.Node) bool {
			ce, ok := n.(*ast.CallExpr)
			if !ok {
				return true
			}
			fn := ""
			switch x := ce.Fun.(type) {
			case *ast.SelectorExpr:
				fn = x.Sel.Name
			case *ast.Ident:
				fn = x.Name
			}
			if fn != name {
				return true
			}
			var as []string
			for _, a := range ce.Args {
				if tv, ok := p.info.Types[a]; ok && tv.Value != nil {
					as = append(as, strings.Trim(tv.Value.ExactString(), "\""))
				} else {
					as = append(as, "_")
				}
			}
			out = append(out, "\""+strings.Join(as, ",")+"\"")
			return true
		})
	}
	return out
}

// flagDecls lists the flags declared in addFlags: (name, type constructor, default).
func flagDecls(p *pkgInfo, fd *ast.FuncDecl) []string {
	var out []string
	if fd == nil {
		return out
	}
	ast.Inspect(fd.Body, func(n ast.Node) bool {
		ce, ok := n.(*ast.CallExpr)
		if !ok {
			return true
		}
		se, ok := ce.Fun.(*ast.SelectorExpr)
		if !ok || len(ce.Args) < 2 {
			return true
		}
		nm, def := "?", "?"
		if tv, ok := p.info.Types[ce.Args[0]]; ok && tv.Value != nil {
			nm = strings.Trim(tv.Value.ExactString(), "\"")
		}
		if tv, ok := p.info.Types[ce.Args[1]]; ok && tv.Value != nil {
			def = strings.Trim(tv.Value.ExactString(), "\"")
		}
		out = append(out, fmt.Sprintf("(\"%s\", \"%s\", \"%s\")", nm, se.Sel.Name, def))
		return false
	})
	return out
}

func emitCLI(b *strings.Builder, cli *pkgInfo, sif *pkgInfo) {
	w := func(f string, a ...any) { fmt.Fprintf(b, f, a...) }
	w("def cli_dataType : List (String × String) := [%s]\n", strings.Join(switchTable(cli, findFunc(cli, "", "getDataType")), ", "))
	w("def cli_arch : List (String × String) := [%s]\n", strings.Join(switchTable(cli, findFunc(cli, "", "getArch")), ", "))
	w("def cli_hash : List (String × String) := [%s]\n", strings.Join(switchTable(cli, findFunc(cli, "", "getHashType")), ", "))
	w("def cli_sbom : List (String × String) := [%s]\n", strings.Join(switchTable(cli, findFunc(cli, "", "getSBOMFormat")), ", "))
	w("def cli_changed : List String := [%s]\n", strings.Join(callArgs(cli, "Changed"), ", "))
	w("def cli_parseUint : List String := [%s]\n", strings.Join(callArgs(cli, "ParseUint"), ", "))
	w("def cli_flags : List (String × String × String) := [%s]\n", strings.Join(flagDecls(cli, findFunc(cli, "", "addFlags")), ", "))
	w("def sif_hashType : List (String × String) := [%s]\n", strings.Join(switchTable(sif, findFunc(sif, "", "getHashType")), ", "))
	w("def sif_sifHashType : List (String × String) := [%s]\n", strings.Join(switchTable(sif, findFunc(sif, "", "sifHashType")), ", "))
	for _, c := range []string{"SBOMFormatCycloneDXJSON", "SBOMFormatCycloneDXXML", "SBOMFormatGitHubJSON", "SBOMFormatSPDXJSON", "SBOMFormatSPDXRDF", "SBOMFormatSPDXTagValue", "SBOMFormatSPDXYAML", "SBOMFormatSyftJSON"} {
		w("def c_%s : Int := %s\n", c, constVal(sif, c))
	}
}
