package main

import (
	"fmt"
	"go/ast"
	"go/token"
	"go/types"
	"sort"
	"strings"
)

// Read-only entry points of the library (property C18): every exported function/method of
// pkg/sif and pkg/integrity except the documented mutators.  emitEffects computes the functions
// transitively reachable from them inside the two packages (calls *and* mere references, so
// function values and closures are covered) and lists, for each reachable function, the writes to
// state shared between callers of one handle: stores through *FileImage / *header /
// *rawDescriptor / slices and maps reached from them, stores to package-level variables,
// pointer-receiver method calls on package-level variables, and Write/Seek/Truncate calls on the
// backing store.
var mutators = map[string]bool{
	"FileImage.AddObject": true, "FileImage.DeleteObject": true, "FileImage.DeleteObjects": true, "FileImage.SetPrimPart": true,
	"FileImage.SetMetadata": true, "FileImage.SetOCIBlobDigest": true, "FileImage.UnloadContainer": true,
	"CreateContainer": true, "CreateContainerAtPath": true, "LoadContainer": true, "LoadContainerFromPath": true, "LoadContainerFp": true,
	"Signer.Sign": true, "NewSigner": true, "Buffer.Write": true, "Buffer.Seek": true, "Buffer.Truncate": true, "NewBuffer": true,
	"Buffer.ReadAt": false,
}

type fnode struct {
	p    *pkgInfo
	decl *ast.FuncDecl
	name string
}

func fname(fd *ast.FuncDecl) string {
	if fd.Recv != nil && len(fd.Recv.List) > 0 {
		t := fd.Recv.List[0].Type
		if s, ok := t.(*ast.StarExpr); ok {
			t = s.X
		}
		if id, ok := t.(*ast.Ident); ok {
			return id.Name + "." + fd.Name.Name
		}
	}
	return fd.Name.Name
}

var sharedTypes = map[string]bool{"FileImage": true, "header": true, "rawDescriptor": true}

// rootShared reports whether a store through expression e reaches shared state.
func rootShared(p *pkgInfo, e ast.Expr, viaRef bool) (bool, string) {
	switch v := e.(type) {
	case *ast.ParenExpr:
		return rootShared(p, v.X, viaRef)
	case *ast.StarExpr:
		return rootShared(p, v.X, true)
	case *ast.IndexExpr:
		// element of a slice or map: a store goes to the shared backing array
		if tv, ok := p.info.Types[v.X]; ok {
			switch tv.Type.Underlying().(type) {
			case *types.Slice, *types.Map, *types.Pointer:
				return rootShared(p, v.X, true)
			}
		}
		return rootShared(p, v.X, viaRef)
	case *ast.SelectorExpr:
		if tv, ok := p.info.Types[v.X]; ok {
			if _, isPtr := tv.Type.Underlying().(*types.Pointer); isPtr {
				return rootShared(p, v.X, true)
			}
		}
		if id, ok := v.X.(*ast.Ident); ok {
			if _, isPkg := p.info.Uses[id].(*types.PkgName); isPkg {
				return true, selPath(v)
			}
		}
		return rootShared(p, v.X, viaRef)
	case *ast.Ident:
		obj := p.info.Uses[v]
		if obj == nil {
			obj = p.info.Defs[v]
		}
		vr, ok := obj.(*types.Var)
		if !ok {
			return false, ""
		}
		if vr.Parent() == vr.Pkg().Scope() { // package-level variable
			return true, v.Name
		}
		if !viaRef {
			return false, "" // store into a local value
		}
		t := vr.Type()
		if pt, ok := t.Underlying().(*types.Pointer); ok {
			t = pt.Elem()
		}
		if sl, ok := t.Underlying().(*types.Slice); ok {
			t = sl.Elem()
		}
		if nt, ok := t.(*types.Named); ok && sharedTypes[nt.Obj().Name()] && strings.HasSuffix(nt.Obj().Pkg().Path(), "pkg/sif") {
			return true, v.Name
		}
		return false, ""
	}
	return false, ""
}

func emitEffects(b *strings.Builder, pkgs []*pkgInfo) {
	nodes := map[*types.Func]*fnode{}
	for _, p := range pkgs {
		for _, f := range p.files {
			for _, d := range f.Decls {
				if fd, ok := d.(*ast.FuncDecl); ok && fd.Body != nil {
					if fo, ok := p.info.Defs[fd.Name].(*types.Func); ok {
						nodes[fo] = &fnode{p: p, decl: fd, name: shortPkg(p.path) + "." + fname(fd)}
					}
				}
			}
		}
	}
	var entries []*types.Func
	for fo, n := range nodes {
		if !fo.Exported() {
			continue
		}
		nm := fname(n.decl)
		if mutators[nm] {
			continue
		}
		// methods on unexported receiver types are not API
		if n.decl.Recv != nil {
			r := strings.Split(nm, ".")[0]
			if !token.IsExported(r) {
				continue
			}
		}
		entries = append(entries, fo)
	}
	sort.Slice(entries, func(i, j int) bool { return nodes[entries[i]].name < nodes[entries[j]].name })
	reach := map[*types.Func]bool{}
	var visit func(fo *types.Func)
	visit = func(fo *types.Func) {
		if reach[fo] {
			return
		}
		n := nodes[fo]
		if n == nil {
			return
		}
		reach[fo] = true
		ast.Inspect(n.decl.Body, func(x ast.Node) bool {
			if id, ok := x.(*ast.Ident); ok {
				if callee, ok := n.p.info.Uses[id].(*types.Func); ok {
					visit(callee)
					// a call through an interface may reach every same-named method of the two packages
					if sig, ok := callee.Type().(*types.Signature); ok && sig.Recv() != nil {
						if _, isIface := sig.Recv().Type().Underlying().(*types.Interface); isIface {
							for fo, m := range nodes {
								if m.decl.Recv != nil && m.decl.Name.Name == callee.Name() {
									visit(fo)
								}
							}
						}
					}
				}
			}
			return true
		})
	}
	for _, e := range entries {
		visit(e)
	}
	var names []string
	for _, e := range entries {
		names = append(names, "\""+nodes[e].name+"\"")
	}
	fmt.Fprintf(b, "def readOnlyEntries : List String := [%s]\n", strings.Join(names, ", "))
	var rnames []string
	var writes []string
	var fos []*types.Func
	for fo := range reach {
		fos = append(fos, fo)
	}
	sort.Slice(fos, func(i, j int) bool { return nodes[fos[i]].name < nodes[fos[j]].name })
	for _, fo := range fos {
		n := nodes[fo]
		rnames = append(rnames, "\""+n.name+"\"")
		add := func(what string) { writes = append(writes, fmt.Sprintf("(\"%s\", \"%s\")", n.name, what)) }
		ast.Inspect(n.decl.Body, func(x ast.Node) bool {
			switch s := x.(type) {
			case *ast.AssignStmt:
				if s.Tok == token.DEFINE {
					return true
				}
				for _, l := range s.Lhs {
					if ok, r := rootShared(n.p, l, false); ok {
						add("store " + selPath(l) + " root " + r)
					}
				}
			case *ast.IncDecStmt:
				if ok, r := rootShared(n.p, s.X, false); ok {
					add("store " + selPath(s.X) + " root " + r)
				}
			case *ast.CallExpr:
				// the address of shared state handed to code outside the two packages (e.g.
				// binary.Read(r, order, &f.h)) counts as a store; inside them the callee's own
				// stores through the pointer parameter are found by the store rule.
				inside := false
				switch fun := s.Fun.(type) {
				case *ast.Ident:
					if fo, ok := n.p.info.Uses[fun].(*types.Func); ok && nodes[fo] != nil {
						inside = true
					}
					// a function value: the closures it can hold are the function literals of the two
					// packages (the parameter type *rawDescriptor is unexported), all of which are scanned
					if _, ok := n.p.info.Uses[fun].(*types.Var); ok {
						inside = true
					}
				case *ast.SelectorExpr:
					if fo, ok := n.p.info.Uses[fun.Sel].(*types.Func); ok && nodes[fo] != nil {
						inside = true
					}
				}
				if !inside {
					for _, a := range s.Args {
						if u, ok := a.(*ast.UnaryExpr); ok && u.Op == token.AND {
							if ok, r := rootShared(n.p, u.X, false); ok {
								add("addr " + selPath(u.X) + " root " + r)
							}
						}
					}
				}
				if se, ok := s.Fun.(*ast.SelectorExpr); ok {
					if sel, ok := n.p.info.Selections[se]; ok && sel.Kind() == types.MethodVal {
						// pointer-receiver method on a package-level variable
						if fnObj, ok := sel.Obj().(*types.Func); ok {
							sig := fnObj.Type().(*types.Signature)
							if sig.Recv() != nil {
								if _, isPtr := sig.Recv().Type().(*types.Pointer); isPtr {
									if id, ok := se.X.(*ast.Ident); ok {
										if vr, ok := n.p.info.Uses[id].(*types.Var); ok && vr.Parent() == vr.Pkg().Scope() {
											add("call " + selPath(se))
										}
									}
								}
							}
						}
						switch se.Sel.Name {
						case "Write", "Seek", "Truncate", "WriteAt":
							if strings.HasSuffix(selPath(se.X), ".rw") {
								add("io " + selPath(se))
							}
						}
					}
				}
			}
			return true
		})
	}
	// every use of the backing store on a read-only path that is not a positioned read: the store
	// (a field of interface type io.ReaderAt / sif.ReadWriter reached from a Descriptor or
	// FileImage) may be the receiver of ReadAt, the source of io.NewSectionReader, or be copied
	// into a Descriptor; a type assertion, any other method call, or handing it to anything else
	// can move the shared position or write
	var storeUses, storeOK []string
	for _, fo := range fos {
		n := nodes[fo]
		var stack []ast.Node
		ast.Inspect(n.decl.Body, func(x ast.Node) bool {
			if x == nil {
				stack = stack[:len(stack)-1]
				return true
			}
			stack = append(stack, x)
			se, ok := x.(*ast.SelectorExpr)
			if !ok || !isStoreField(n.p, se) {
				return true
			}
			var parent, grand ast.Node
			if len(stack) >= 2 {
				parent = stack[len(stack)-2]
			}
			if len(stack) >= 3 {
				grand = stack[len(stack)-3]
			}
			okUse := false
			switch pn := parent.(type) {
			case *ast.SelectorExpr: // store.ReadAt(...)
				if pn.X == se && pn.Sel.Name == "ReadAt" {
					if c, ok := grand.(*ast.CallExpr); ok && c.Fun == pn {
						okUse = true
					}
				}
			case *ast.CallExpr: // io.NewSectionReader(store, off, n)
				if f, ok := pn.Fun.(*ast.SelectorExpr); ok && f.Sel.Name == "NewSectionReader" && len(pn.Args) > 0 && pn.Args[0] == se {
					if id, ok := f.X.(*ast.Ident); ok {
						if pk, ok := n.p.info.Uses[id].(*types.PkgName); ok && pk.Imported().Path() == "io" {
							okUse = true
						}
					}
				}
			case *ast.KeyValueExpr: // Descriptor{r: f.rw}
				if pn.Value == se {
					if cl, ok := grand.(*ast.CompositeLit); ok {
						if tv, ok := n.p.info.Types[cl]; ok {
							if nt, ok := tv.Type.(*types.Named); ok && nt.Obj().Name() == "Descriptor" {
								okUse = true
							}
						}
					}
				}
			}
			if okUse {
				storeOK = append(storeOK, fmt.Sprintf("(\"%s\", \"%s\")", n.name, selPath(se)))
			}
			if !okUse {
				storeUses = append(storeUses, fmt.Sprintf("(\"%s\", \"%s in %T\")", n.name, selPath(se), parent))
			}
			return true
		})
	}
	fmt.Fprintf(b, "def storeUses : List (String × String) := [%s]\n", strings.Join(storeUses, ", "))
	fmt.Fprintf(b, "def storePositionedReads : List (String × String) := [%s]\n", strings.Join(storeOK, ", "))
	fmt.Fprintf(b, "def readOnlyReach : List String := [%s]\n", strings.Join(rnames, ", "))
	fmt.Fprintf(b, "def sharedWrites : List (String × String) := [%s]\n", strings.Join(writes, ", "))
}

func shortPkg(p string) string {
	i := strings.LastIndex(p, "/")
	return p[i+1:]
}

// isStoreField: a field selection whose static type is the backing store's interface type
// (io.ReaderAt or the package's ReadWriter) on a value of a pkg/sif struct type.
func isStoreField(p *pkgInfo, se *ast.SelectorExpr) bool {
	sel, ok := p.info.Selections[se]
	if !ok || sel.Kind() != types.FieldVal {
		return false
	}
	t := sel.Type()
	nt, ok := t.(*types.Named)
	if !ok {
		return false
	}
	if _, isIface := nt.Underlying().(*types.Interface); !isIface {
		return false
	}
	name := nt.Obj().Name()
	pkg := ""
	if nt.Obj().Pkg() != nil {
		pkg = nt.Obj().Pkg().Path()
	}
	return (pkg == "io" && name == "ReaderAt") || (strings.HasSuffix(pkg, "pkg/sif") && name == "ReadWriter")
}
