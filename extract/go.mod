module sifextract

go 1.23.0
