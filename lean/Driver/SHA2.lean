/-
  Driver/SHA2.lean — SHA-224/256/384/512/512-224/512-256 for the *executable* path of the model
  only (theorems use an abstract hash).  Cross-checked against Go's crypto packages on every run.
-/
import SifVerif.Model.Bytes
namespace Sif.SHA2

def k256 : Array UInt32 := #[
  0x428a2f98, 0x71374491, 0xb5c0fbcf, 0xe9b5dba5, 0x3956c25b, 0x59f111f1, 0x923f82a4, 0xab1c5ed5,
  0xd807aa98, 0x12835b01, 0x243185be, 0x550c7dc3, 0x72be5d74, 0x80deb1fe, 0x9bdc06a7, 0xc19bf174,
  0xe49b69c1, 0xefbe4786, 0x0fc19dc6, 0x240ca1cc, 0x2de92c6f, 0x4a7484aa, 0x5cb0a9dc, 0x76f988da,
  0x983e5152, 0xa831c66d, 0xb00327c8, 0xbf597fc7, 0xc6e00bf3, 0xd5a79147, 0x06ca6351, 0x14292967,
  0x27b70a85, 0x2e1b2138, 0x4d2c6dfc, 0x53380d13, 0x650a7354, 0x766a0abb, 0x81c2c92e, 0x92722c85,
  0xa2bfe8a1, 0xa81a664b, 0xc24b8b70, 0xc76c51a3, 0xd192e819, 0xd6990624, 0xf40e3585, 0x106aa070,
  0x19a4c116, 0x1e376c08, 0x2748774c, 0x34b0bcb5, 0x391c0cb3, 0x4ed8aa4a, 0x5b9cca4f, 0x682e6ff3,
  0x748f82ee, 0x78a5636f, 0x84c87814, 0x8cc70208, 0x90befffa, 0xa4506ceb, 0xbef9a3f7, 0xc67178f2]

def rotr32 (x : UInt32) (n : UInt32) : UInt32 := (x >>> n) ||| (x <<< (32 - n))

def be32 (b0 b1 b2 b3 : UInt8) : UInt32 :=
  (b0.toUInt32 <<< 24) ||| (b1.toUInt32 <<< 16) ||| (b2.toUInt32 <<< 8) ||| b3.toUInt32

def pad32 (msg : ByteArray) : ByteArray := Id.run do
  let len := msg.size
  let mut m := msg.push 0x80
  while m.size % 64 != 56 do
    m := m.push 0
  let bits : UInt64 := (len * 8).toUInt64
  for i in [0:8] do
    m := m.push ((bits >>> ((7 - i) * 8).toUInt64).toUInt8)
  return m

def compress256 (h : Array UInt32) (m : ByteArray) (base : Nat) : Array UInt32 := Id.run do
  let mut w : Array UInt32 := Array.replicate 64 0
  for i in [0:16] do
    w := w.set! i (be32 (m.get! (base + 4*i)) (m.get! (base + 4*i+1)) (m.get! (base + 4*i+2)) (m.get! (base + 4*i+3)))
  for i in [16:64] do
    let w15 := w[i-15]!
    let w2 := w[i-2]!
    let s0 := rotr32 w15 7 ^^^ rotr32 w15 18 ^^^ (w15 >>> 3)
    let s1 := rotr32 w2 17 ^^^ rotr32 w2 19 ^^^ (w2 >>> 10)
    w := w.set! i (w[i-16]! + s0 + w[i-7]! + s1)
  let mut a := h[0]!
  let mut b := h[1]!
  let mut c := h[2]!
  let mut d := h[3]!
  let mut e := h[4]!
  let mut f := h[5]!
  let mut g := h[6]!
  let mut hh := h[7]!
  for i in [0:64] do
    let s1 := rotr32 e 6 ^^^ rotr32 e 11 ^^^ rotr32 e 25
    let ch := (e &&& f) ^^^ ((~~~ e) &&& g)
    let t1 := hh + s1 + ch + k256[i]! + w[i]!
    let s0 := rotr32 a 2 ^^^ rotr32 a 13 ^^^ rotr32 a 22
    let mj := (a &&& b) ^^^ (a &&& c) ^^^ (b &&& c)
    let t2 := s0 + mj
    hh := g; g := f; f := e; e := d + t1; d := c; c := b; b := a; a := t1 + t2
  return #[h[0]! + a, h[1]! + b, h[2]! + c, h[3]! + d, h[4]! + e, h[5]! + f, h[6]! + g, h[7]! + hh]

def sha256Core (init : Array UInt32) (outWords : Nat) (msg : Bytes) : Bytes := Id.run do
  let m := pad32 (ByteArray.mk msg.toArray)
  let mut h := init
  for blk in [0:m.size / 64] do
    h := compress256 h m (blk * 64)
  let mut out : Array UInt8 := #[]
  for i in [0:outWords] do
    let x := h[i]!
    out := out.push (x >>> 24).toUInt8 |>.push (x >>> 16).toUInt8 |>.push (x >>> 8).toUInt8 |>.push x.toUInt8
  return out.toList

def sha256 : Bytes → Bytes :=
  sha256Core #[0x6a09e667, 0xbb67ae85, 0x3c6ef372, 0xa54ff53a, 0x510e527f, 0x9b05688c, 0x1f83d9ab, 0x5be0cd19] 8

def sha224 : Bytes → Bytes :=
  sha256Core #[0xc1059ed8, 0x367cd507, 0x3070dd17, 0xf70e5939, 0xffc00b31, 0x68581511, 0x64f98fa7, 0xbefa4fa4] 7

def k512 : Array UInt64 := #[
  0x428a2f98d728ae22, 0x7137449123ef65cd, 0xb5c0fbcfec4d3b2f, 0xe9b5dba58189dbbc, 0x3956c25bf348b538,
  0x59f111f1b605d019, 0x923f82a4af194f9b, 0xab1c5ed5da6d8118, 0xd807aa98a3030242, 0x12835b0145706fbe,
  0x243185be4ee4b28c, 0x550c7dc3d5ffb4e2, 0x72be5d74f27b896f, 0x80deb1fe3b1696b1, 0x9bdc06a725c71235,
  0xc19bf174cf692694, 0xe49b69c19ef14ad2, 0xefbe4786384f25e3, 0x0fc19dc68b8cd5b5, 0x240ca1cc77ac9c65,
  0x2de92c6f592b0275, 0x4a7484aa6ea6e483, 0x5cb0a9dcbd41fbd4, 0x76f988da831153b5, 0x983e5152ee66dfab,
  0xa831c66d2db43210, 0xb00327c898fb213f, 0xbf597fc7beef0ee4, 0xc6e00bf33da88fc2, 0xd5a79147930aa725,
  0x06ca6351e003826f, 0x142929670a0e6e70, 0x27b70a8546d22ffc, 0x2e1b21385c26c926, 0x4d2c6dfc5ac42aed,
  0x53380d139d95b3df, 0x650a73548baf63de, 0x766a0abb3c77b2a8, 0x81c2c92e47edaee6, 0x92722c851482353b,
  0xa2bfe8a14cf10364, 0xa81a664bbc423001, 0xc24b8b70d0f89791, 0xc76c51a30654be30, 0xd192e819d6ef5218,
  0xd69906245565a910, 0xf40e35855771202a, 0x106aa07032bbd1b8, 0x19a4c116b8d2d0c8, 0x1e376c085141ab53,
  0x2748774cdf8eeb99, 0x34b0bcb5e19b48a8, 0x391c0cb3c5c95a63, 0x4ed8aa4ae3418acb, 0x5b9cca4f7763e373,
  0x682e6ff3d6b2b8a3, 0x748f82ee5defb2fc, 0x78a5636f43172f60, 0x84c87814a1f0ab72, 0x8cc702081a6439ec,
  0x90befffa23631e28, 0xa4506cebde82bde9, 0xbef9a3f7b2c67915, 0xc67178f2e372532b, 0xca273eceea26619c,
  0xd186b8c721c0c207, 0xeada7dd6cde0eb1e, 0xf57d4f7fee6ed178, 0x06f067aa72176fba, 0x0a637dc5a2c898a6,
  0x113f9804bef90dae, 0x1b710b35131c471b, 0x28db77f523047d84, 0x32caab7b40c72493, 0x3c9ebe0a15c9bebc,
  0x431d67c49c100d4c, 0x4cc5d4becb3e42b6, 0x597f299cfc657e2a, 0x5fcb6fab3ad6faec, 0x6c44198c4a475817]

def rotr64 (x : UInt64) (n : UInt64) : UInt64 := (x >>> n) ||| (x <<< (64 - n))

def pad64 (msg : ByteArray) : ByteArray := Id.run do
  let len := msg.size
  let mut m := msg.push 0x80
  while m.size % 128 != 112 do
    m := m.push 0
  for _ in [0:8] do
    m := m.push 0
  let bits : UInt64 := (len * 8).toUInt64
  for i in [0:8] do
    m := m.push ((bits >>> ((7 - i) * 8).toUInt64).toUInt8)
  return m

def be64 (m : ByteArray) (p : Nat) : UInt64 := Id.run do
  let mut x : UInt64 := 0
  for i in [0:8] do
    x := (x <<< 8) ||| (m.get! (p + i)).toUInt64
  return x

def compress512 (h : Array UInt64) (m : ByteArray) (base : Nat) : Array UInt64 := Id.run do
  let mut w : Array UInt64 := Array.replicate 80 0
  for i in [0:16] do
    w := w.set! i (be64 m (base + 8*i))
  for i in [16:80] do
    let w15 := w[i-15]!
    let w2 := w[i-2]!
    let s0 := rotr64 w15 1 ^^^ rotr64 w15 8 ^^^ (w15 >>> 7)
    let s1 := rotr64 w2 19 ^^^ rotr64 w2 61 ^^^ (w2 >>> 6)
    w := w.set! i (w[i-16]! + s0 + w[i-7]! + s1)
  let mut a := h[0]!
  let mut b := h[1]!
  let mut c := h[2]!
  let mut d := h[3]!
  let mut e := h[4]!
  let mut f := h[5]!
  let mut g := h[6]!
  let mut hh := h[7]!
  for i in [0:80] do
    let s1 := rotr64 e 14 ^^^ rotr64 e 18 ^^^ rotr64 e 41
    let ch := (e &&& f) ^^^ ((~~~ e) &&& g)
    let t1 := hh + s1 + ch + k512[i]! + w[i]!
    let s0 := rotr64 a 28 ^^^ rotr64 a 34 ^^^ rotr64 a 39
    let mj := (a &&& b) ^^^ (a &&& c) ^^^ (b &&& c)
    let t2 := s0 + mj
    hh := g; g := f; f := e; e := d + t1; d := c; c := b; b := a; a := t1 + t2
  return #[h[0]! + a, h[1]! + b, h[2]! + c, h[3]! + d, h[4]! + e, h[5]! + f, h[6]! + g, h[7]! + hh]

def sha512Core (init : Array UInt64) (outBytes : Nat) (msg : Bytes) : Bytes := Id.run do
  let m := pad64 (ByteArray.mk msg.toArray)
  let mut h := init
  for blk in [0:m.size / 128] do
    h := compress512 h m (blk * 128)
  let mut out : Array UInt8 := #[]
  for i in [0:8] do
    let x := h[i]!
    for j in [0:8] do
      out := out.push (x >>> ((7 - j) * 8).toUInt64).toUInt8
  return (out.toList).take outBytes

def sha512 : Bytes → Bytes :=
  sha512Core #[0x6a09e667f3bcc908, 0xbb67ae8584caa73b, 0x3c6ef372fe94f82b, 0xa54ff53a5f1d36f1,
               0x510e527fade682d1, 0x9b05688c2b3e6c1f, 0x1f83d9abfb41bd6b, 0x5be0cd19137e2179] 64
def sha384 : Bytes → Bytes :=
  sha512Core #[0xcbbb9d5dc1059ed8, 0x629a292a367cd507, 0x9159015a3070dd17, 0x152fecd8f70e5939,
               0x67332667ffc00b31, 0x8eb44a8768581511, 0xdb0c2e0d64f98fa7, 0x47b5481dbefa4fa4] 48
def sha512_224 : Bytes → Bytes :=
  sha512Core #[0x8c3d37c819544da2, 0x73e1996689dcd4d6, 0x1dfab7ae32ff9c82, 0x679dd514582f9fcf,
               0x0f6d2b697bd44da8, 0x77e36f7304c48942, 0x3f9d85a86a1d36c8, 0x1112e6ad91d692a1] 28
def sha512_256 : Bytes → Bytes :=
  sha512Core #[0x22312194fc2bf72c, 0x9f555fa3c84c64c2, 0x2393b86b6f53b151, 0x963877195940eabd,
               0x96283ee2a875beb3, 0x9ea1de4c1c1a2c94, 0x2b0199fc2c85b8aa, 0x0eb72ddc81c52ca2] 32

def hexDigit (n : UInt8) : UInt8 := if n < 10 then 48 + n else 87 + n
def hexOf (b : Bytes) : Bytes := b.flatMap (fun (x : UInt8) => [hexDigit (x >>> (4 : UInt8)), hexDigit (x &&& (15 : UInt8))])

/-- SHA-256 as lower-case hex text, the `sha` parameter of the model -/
def sha256Hex (b : Bytes) : Bytes := hexOf (sha256 b)

end Sif.SHA2
