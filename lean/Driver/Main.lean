/-
  Driver/Main.lean — line-protocol driver: reads operations on stdin, runs the model's executable
  definitions, prints canonical observations.  The Go harness runs the real library on the same
  lines and diffs the two output streams.  Core Lean only (links as `sifdriver`).
-/
import SifVerif.Model.Image
import SifVerif.Model.Extra
import SifVerif.Model.Check
import SifVerif.Model.Spec
import SifVerif.Model.Fault
import SifVerif.Model.Integrity
import SifVerif.Model.Siftool
import Driver.SHA2
open Sif

namespace Drv

def hexVal (c : Char) : Option Nat :=
  if '0' ≤ c ∧ c ≤ '9' then some (c.toNat - 48)
  else if 'a' ≤ c ∧ c ≤ 'f' then some (c.toNat - 87)
  else if 'A' ≤ c ∧ c ≤ 'F' then some (c.toNat - 55)
  else none

partial def unhexAux : List Char → Array UInt8 → Option (Array UInt8)
  | [], acc => some acc
  | [_], _ => none
  | a :: b :: rest, acc =>
    match hexVal a, hexVal b with
    | some x, some y => unhexAux rest (acc.push (x * 16 + y).toUInt8)
    | _, _ => none

def unhex (s : String) : Option Bytes :=
  if s == "-" then some [] else (unhexAux s.toList #[]).map (·.toList)

def hexChars : Array Char := "0123456789abcdef".toList.toArray

def hex (b : Bytes) : String :=
  if b.isEmpty then "-" else
  String.ofList (b.foldr (fun x acc => hexChars[x.toNat / 16]! :: hexChars[x.toNat % 16]! :: acc) [])

/-- the shared 64-bit LCG for bulk payloads: byte i = top byte of state i -/
def lcgBytes (len : Nat) (seed : UInt64) : Bytes := Id.run do
  let mut x := seed
  let mut out : Array UInt8 := Array.mkEmpty len
  for _ in [0:len] do
    x := x * 6364136223846793005 + 1442695040888963407
    out := out.push (x >>> 56).toUInt8
  return out.toList

abbrev KV := List (String × String)

def parseKV (toks : List String) : KV :=
  toks.map (fun t => match t.splitOn "=" with
    | [k] => (k, "")
    | k :: rest => (k, "=".intercalate rest)
    | [] => ("", ""))

def KV.get (kv : KV) (k : String) : String := (kv.lookup k).getD ""
def KV.has (kv : KV) (k : String) : Bool := (kv.lookup k).isSome
def KV.int (kv : KV) (k : String) : Int := (kv.get k).toInt?.getD 0
def KV.nat (kv : KV) (k : String) : Nat := (kv.get k).toNat?.getD 0
def KV.bytes (kv : KV) (k : String) : Bytes := (unhex (kv.get k)).getD []

def parseData (s : String) : Bytes :=
  match s.splitOn ":" with
  | ["h", h] => (unhex h).getD []
  | ["g", len, seed] => lcgBytes (len.toNat?.getD 0) (seed.toNat?.getD 0).toUInt64
  | ["z", len, seed, blk, mask] =>
    -- LCG bytes with block i (of `blk` bytes) zeroed when bit i%64 of `mask` is set
    let b := lcgBytes (len.toNat?.getD 0) (seed.toNat?.getD 0).toUInt64
    let k := blk.toNat?.getD 1
    let m := mask.toNat?.getD 0
    (b.zipIdx).map (fun (x, i) => if k > 0 && (m >>> ((i / k) % 64)) % 2 == 1 then 0 else x)
  | _ => []

def parseMD (s : String) : MDIn :=
  match s.splitOn ":" with
  | ["nil"] => .nil
  | ["raw", h] => .raw ((unhex h).getD [])
  | ["part", fs, pt, arch] => .part (fs.toInt?.getD 0) (pt.toInt?.getD 0) ((unhex arch).getD [])
  | ["ociauto"] => .ociAuto
  | ["ocitext", h] => .ociText ((unhex h).getD [])
  | ["fail"] => .fail
  | _ => .nil

def parseSel (s : String) : Option Sel :=
  match s.splitOn ":" with
  | ["dt", v] => some (.dataType (v.toInt?.getD 0))
  | ["id", v] => some (.id (v.toNat?.getD 0))
  | ["nogrp"] => some .noGroup
  | ["grp", v] => some (.groupID (v.toNat?.getD 0))
  | ["lid", v] => some (.linkedID (v.toNat?.getD 0))
  | ["lgid", v] => some (.linkedGroupID (v.toNat?.getD 0))
  | ["pt", v] => some (.partType (v.toInt?.getD 0))
  | ["oci", h] => some (.ociDigest ((unhex h).getD []))
  | ["P", m, e, mt, et, mg] =>
    -- a caller's own selector function, from the harness's finite family: it answers with its own
    -- error on the listed IDs / on one data type, and otherwise accepts the listed IDs, one data
    -- type and one group
    let ids := fun (x : String) => if x == "-" then [] else (x.splitOn "+").filterMap (·.toNat?)
    let mids := ids m
    let eids := ids e
    let mt := mt.toInt?.getD 0
    let et := et.toInt?.getD 0
    let mg := mg.toNat?.getD 0
    some (.pred (fun d =>
      if eids.contains d.id || (et != 0 && d.dtype == et) then .error .caller
      else .ok (mids.contains d.id || (mt != 0 && d.dtype == mt) || (mg != 0 && d.group == mg))))
  | _ => none

def parseSels (s : String) : List Sel :=
  if s == "" || s == "-" then [] else (s.splitOn ",").filterMap parseSel

def parseTOpt (s : String) : TOpt :=
  if s == "dflt" then .dflt else if s == "det" then .det else .at (s.toInt?.getD 0)

def parseDIOpt (kv : KV) : Option DIOpt :=
  if kv.has "nogroup" then some .noGroup
  else if kv.has "group" then some (.groupID (kv.nat "group"))
  else if kv.has "link" then some (.linkedID (kv.nat "link"))
  else if kv.has "linkgroup" then some (.linkedGroupID (kv.nat "linkgroup"))
  else if kv.has "align" then some (.alignment (kv.int "align"))
  else if kv.has "name" then some (.name (kv.bytes "name"))
  else if kv.has "time" then some (.time (kv.int "time"))
  else if kv.has "md" then some (.metadata (parseMD (kv.get "md")))
  else if kv.has "crypto" then
    match (kv.get "crypto").splitOn "," with
    | [a, b] => some (.cryptoMessage (a.toInt?.getD 0) (b.toInt?.getD 0))
    | _ => none
  else if kv.has "part" then
    match (kv.get "part").splitOn "," with
    | [a, b, c] => some (.partition (a.toInt?.getD 0) (b.toInt?.getD 0) c)
    | _ => none
  else if kv.has "sig" then
    match (kv.get "sig").splitOn "," with
    | [a, b] => some (.signature (a.toInt?.getD 0) ((unhex b).getD []))
    | _ => none
  else if kv.has "sbom" then some (.sbom (kv.int "sbom"))
  else none

def errClass : Err → String
  | .noObjects => "noObjects"
  | .objectNotFound => "objectNotFound"
  | .multipleObjectsFound => "multipleObjectsFound"
  | .invalidObjectID => "invalidObjectID"
  | .invalidGroupID => "invalidGroupID"
  | .caller => "caller"
  | _ => "other"

def resStr : Res → String
  | .ok => "ok"
  | .err e => "err:" ++ errClass e

def fnvHex (b : Bytes) : String := toString (fnv64 b).toNat

def hdrLine (pfx : String) (h : Hdr) : String :=
  s!"{pfx}hdr launch={hex (trimNul (pad 32 h.launch))} ver={hex (trimNul (pad 3 h.version))} arch={goArch (pad 3 h.arch)} id={hex (pad 16 h.id)} ct={h.ctime} mt={h.mtime} free={h.dfree} total={h.dtotal} doff={h.doff} dsize={h.dsize} dataoff={h.dataOff} datasize={h.dataSize} hs={fnvHex (hdrStream h)}"

def objLine (pfx : String) (s : Img) (d : RawDesc) : String :=
  let c := objContent s.st d
  let short := c.length < d.size
  s!"{pfx}obj id={d.id} dt={d.dtype} grp={d.group} link={d.linkedID}/{if d.linkIsGroup then "g" else "o"} off={d.off} size={d.size} ct={d.ctime} mt={d.mtime} name={hex (trimNul (pad 128 d.name))} extra={hex (trimNul (pad 384 d.extra))} rel={relID s.minIDs d} is={fnvHex (descStream s.minIDs d)} data={if short then "short" else s!"{c.length}:{fnvHex c}"}"

def viewLines (pfx : String) (s : Img) : List String :=
  hdrLine pfx s.h :: (live s.rds).map (objLine pfx s)

structure DState where
  img : Option Img := none
  facts : List (Nat × SigFacts) := []
  fps : List (Nat × Bytes) := []        -- key index ↦ PGP fingerprint
  store : Option Store := none          -- C14: bare backing store driven by raw calls
  /-- a Verifier kept across operations: its tasks (descriptors as they were when it was made),
      the group-minimum cache of that moment (the descriptors carry their relative IDs), its keys -/
  held : Option (List Task × List (Nat × Nat) × KeyMaterial) := none

def DState.factsOf (st : DState) (blob : Bytes) : SigFacts := (st.facts.lookup (fnv64 blob).toNat).getD {}
def DState.fpOf (st : DState) (k : Nat) : Bytes := (st.fps.lookup k).getD []

def hashOf : HashAlg → Bytes → Bytes
  | .sha224 => SHA2.sha224 | .sha256 => SHA2.sha256 | .sha384 => SHA2.sha384
  | .sha512 => SHA2.sha512 | .sha512_224 => SHA2.sha512_224 | .sha512_256 => SHA2.sha512_256

def natList (s : String) : List Nat :=
  if s == "" || s == "-" then [] else (s.splitOn ",").filterMap (·.toNat?)

def optNatList (s : String) : Option (List Nat) := if s == "none" then none else some (natList s)

def strOpt (s : String) : Option String := if s == "-" then none else some (String.ofList ((unhex s).getD [] |>.map (fun b => Char.ofNat b.toNat)))

def ierrClass : IErr → String
  | .sif e => "sif:" ++ errClass e
  | .signatureNotFound id g => s!"sigNotFound:{id}:{if g then "g" else "o"}"
  | .signatureNotValid id => s!"sigNotValid:{id}"
  | .descriptorIntegrity id => s!"descIntegrity:{id}"
  | .objectIntegrity id => s!"objIntegrity:{id}"
  | .headerIntegrity => "hdrIntegrity"
  | .noKeyMaterial => "noKeyMaterial"
  | _ => "other"

def parseVerifyOpts (kv : KV) : VerifyOpts × KeyMaterial :=
  ({ groups := natList (kv.get "groups"), objects := natList (kv.get "objects"),
     legacy := kv.get "legacy" == "1", legacyAll := kv.get "legacyall" == "1" },
   { vs := optNatList (kv.get "vs"), kr := optNatList (kv.get "kr") })

def sortDedupNat (l : List Nat) : List Nat := l.foldl insertSorted []


def sha := SHA2.sha256Hex
def ph := parseHashV1

/-- read one `di` block (header line already tokenised as `kv`) -/
partial def readDI (inp : IO.FS.Stream) (kv : KV) : IO (Except Err DI) := do
  let n := kv.nat "nopts"
  let mut opts : List DIOpt := []
  for _ in [0:n] do
    let line ← inp.getLine
    let toks := (line.trimAscii.toString.splitOn " ").filter (· != "")
    match parseDIOpt (parseKV (toks.drop 1)) with
    | some o => opts := opts ++ [o]
    | none => IO.eprintln s!"bad di option: {line}"
  let fail : Option Nat := if kv.get "fail" == "-" || kv.get "fail" == "" then none else some (kv.nat "fail")
  return newDescriptorInput (kv.int "dt") opts (parseData (kv.get "data")) fail

partial def readDIBlock (inp : IO.FS.Stream) : IO (Except Err DI) := do
  let line ← inp.getLine
  let toks := (line.trimAscii.toString.splitOn " ").filter (· != "")
  readDI inp (parseKV (toks.drop 1))

def backendOf (s : String) : Backend := if s == "file" then .file else .buf

def stState (s : Store) : String := s!"pos={s.pos} len={s.buf.length} fnv={fnvHex s.buf}"

/-- the canonical `io` lines of a call list (C09: the operation's I/O plan) -/
def ioLines (cs : List IOCall) : List String :=
  cs.filterMap fun
    | .seekStart off => some s!"io seek {off}"
    | .seekEnd => some "io seekend"
    | .write p => if p.isEmpty then none else some s!"io write {p.length} {fnv64 p}"
    | .truncate n => some s!"io trunc {n}"

partial def loop (inp : IO.FS.Stream) (out : IO.FS.Stream) (st : DState) : IO Unit := do
  let line ← inp.getLine
  if line.isEmpty then
    out.flush
    return ()
  let toks := (line.trimAscii.toString.splitOn " ").filter (· != "")
  match toks with
  | [] => loop inp out st
  | cmd :: rest =>
    let kv := parseKV rest
    match cmd with
    | "create" =>
      let nopts := kv.nat "nopts"
      let mut opts : List CreateOpt := []
      let mut bad : Option Err := none
      for _ in [0:nopts] do
        let l ← inp.getLine
        let t := (l.trimAscii.toString.splitOn " ").filter (· != "")
        let k := parseKV (t.drop 1)
        if k.has "launch" then opts := opts ++ [.launchScript (k.bytes "launch")]
        else if k.has "det" then opts := opts ++ [.deterministic]
        else if k.has "id" then
          opts := opts ++ [.withID (if k.get "id" == "bad" then none else unhex (k.get "id"))]
        else if k.has "cap" then opts := opts ++ [.capacity (k.int "cap")]
        else if k.has "time" then opts := opts ++ [.withTime (k.int "time")]
        else if k.has "descs" then
          let m := k.nat "descs"
          let mut dis : List DI := []
          for _ in [0:m] do
            match (← readDIBlock inp) with
            | .ok di => dis := dis ++ [di]
            | .error e => bad := some e
          opts := opts ++ [.descriptors dis]
        else IO.eprintln s!"bad create option: {l}"
      match bad with
      | some e =>
        out.putStrLn s!"res err:{errClass e}"
        loop inp out { st with img := none }
      | none =>
        let (img, r) := createContainer sha ph (backendOf (kv.get "be")) opts (kv.int "now") (kv.bytes "rnd")
        out.putStrLn s!"res {resStr r}"
        loop inp out { st with img := if r == .ok then some img else none }
    | "load" =>
      let bytes ← IO.FS.readBinFile (kv.get "path")
      let store : Store := { be := backendOf (kv.get "be"), buf := bytes.toList, pos := 0 }
      match loadContainer store with
      | .ok img =>
        out.putStrLn "res ok"
        loop inp out { st with img := some img }
      | .error e =>
        out.putStrLn s!"res err:{errClass e}"
        loop inp out { st with img := none }
    | "nop" =>
      out.putStrLn "nop"
      loop inp out st
    | "ftrunc" =>
      -- the file is cut to n bytes behind the library's back; what remains is loaded afresh
      match st.img with
      | none =>
        out.putStrLn "noimg"
        loop inp out st
      | some img =>
        out.putStrLn "ftrunc ok"
        match loadContainer { img.st with buf := img.st.buf.take (kv.nat "n"), pos := 0 } with
        | .ok img' => loop inp out { st with img := some img' }
        | .error _ => loop inp out { st with img := none }
    | "stnew" =>
      let s : Store := { be := backendOf (kv.get "be"), buf := parseData (kv.get "data"), pos := 0 }
      out.putStrLn s!"st new {stState s}"
      loop inp out { st with store := some s }
    | "stseek" | "stseekend" | "stwrite" | "sttrunc" | "stread" =>
      match st.store with
      | none =>
        out.putStrLn "nostore"
        loop inp out st
      | some s =>
        let (s', r) : Store × String :=
          match cmd with
          | "stseek" =>
            match s.seekStart (kv.int "off") with
            | some s' => (s', s!"seek r={s'.pos}/ok")
            | none => (s, "seek r=0/err")
          | "stseekend" => (s.seekEnd, s!"seek r={s.buf.length}/ok")
          | "stwrite" =>
            let p := parseData (kv.get "data")
            (s.write p, s!"write r={p.length}/ok")
          | "sttrunc" =>
            match s.truncate (kv.int "n") with
            | some s' => (s', "trunc r=ok")
            | none => (s, "trunc r=err")
          | _ =>
            let n := kv.nat "n"
            let b := readAt s.buf (kv.nat "off") n
            (s, s!"read r={b.length}:{fnvHex b}/{if b.length < n then "eof" else "ok"}")
        out.putStrLn s!"st {r} {stState s'}"
        loop inp out { st with store := some s' }
    | "patch" =>
      -- raw byte edits of the file followed by a fresh load (tampering)
      let n := kv.nat "nsites"
      let mut sites : List (Nat × Bytes) := []
      for _ in [0:n] do
        let l ← inp.getLine
        let k := parseKV (((l.trimAscii.toString.splitOn " ").filter (· != "")).drop 1)
        sites := sites ++ [(k.nat "off", k.bytes "hex")]
      match st.img with
      | none =>
        out.putStrLn "noimg"
        loop inp out st
      | some img =>
        let mut buf := img.st.buf
        for (off, b) in sites do
          if off + b.length ≤ buf.length then buf := writeAt buf off b
        match loadContainer { img.st with buf := buf, pos := 0 } with
        | .ok img' =>
          out.putStrLn "res ok"
          loop inp out { st with img := some img' }
        | .error e =>
          out.putStrLn s!"res err:{errClass e}"
          loop inp out { st with img := none }
    | "keys" =>
      let n := kv.nat "n"
      let mut fps : List (Nat × Bytes) := []
      for _ in [0:n] do
        let l ← inp.getLine
        let k := parseKV (((l.trimAscii.toString.splitOn " ").filter (· != "")).drop 1)
        fps := fps ++ [(k.nat "idx", k.bytes "fp")]
      out.putStrLn "keys ok"
      loop inp out { st with fps := fps }
    | "facts" =>
      let n := kv.nat "n"
      let mut facts : List (Nat × SigFacts) := []
      for _ in [0:n] do
        let l ← inp.getLine
        let k := parseKV (((l.trimAscii.toString.splitOn " ").filter (· != "")).drop 1)
        let dsse : Option DsseFacts :=
          if k.get "dsse" == "1" then
            some { payloadType := k.bytes "ptype",
                   payload := if k.get "payload" == "none" then none else some (k.bytes "payload"),
                   validKeys := natList (k.get "vkeys") }
          else none
        let cs : Option CsFacts :=
          if k.get "cs" == "1" then
            some { plaintext := k.bytes "plain", signer := (k.get "signer").toNat? }
          else none
        let mut md : Option RawMD := none
        if k.get "md" == "1" then
          let m := k.nat "nobj"
          let mut objs : List RawObjMD := []
          for _ in [0:m] do
            let l2 ← inp.getLine
            let k2 := parseKV (((l2.trimAscii.toString.splitOn " ").filter (· != "")).drop 1)
            objs := objs ++ [{ relID := k2.nat "rel", descDigest := strOpt (k2.get "dd"), objDigest := strOpt (k2.get "od") }]
          md := some { version := k.int "ver", hdrDigest := strOpt (k.get "hd"), objects := objs }
        facts := facts ++ [(k.nat "h", { dsse := dsse, cs := cs, md := md })]
      out.putStrLn "facts ok"
      loop inp out { st with facts := facts }
    | "verify" =>
      match st.img with
      | none => out.putStrLn "noimg"
      | some img =>
        let (vo, km) := parseVerifyOpts kv
        match newVerifier ph img vo with
        | .error e => out.putStrLn s!"v newerr:{ierrClass e}"
        | .ok tasks =>
          match verify hashOf ph st.fpOf st.factsOf img km tasks with
          | .error e => out.putStrLn s!"v err:{ierrClass e}"
          | .ok rs =>
            out.putStrLn s!"v ok n={rs.length}"
            for r in rs do
              let ent := match r.entity with | some k => toString k | none => "-"
              out.putStrLn s!"vr sig={r.sigID} verified={",".intercalate (r.verified.map toString)} keys={",".intercalate ((sortDedupNat r.keys).map toString)} ent={ent}"
      loop inp out st
    | "vhold" =>
      -- NewVerifier now; the Verifier is used by later `vheld` commands, whatever happens to the image meanwhile
      match st.img with
      | none =>
        out.putStrLn "noimg"
        loop inp out st
      | some img =>
        let (vo, km) := parseVerifyOpts kv
        match newVerifier ph img vo with
        | .error e =>
          out.putStrLn s!"vh newerr:{ierrClass e}"
          loop inp out { st with held := none }
        | .ok tasks =>
          out.putStrLn "vh ok"
          loop inp out { st with held := some (tasks, img.minIDs, km) }
    | "vheld" =>
      match st.img, st.held with
      | some img, some (tasks, mins, km) =>
        -- the tasks' descriptors keep the relative IDs they were given; everything else is read from the image as it is now
        let cur : Img := { img with minIDs := mins }
        match kv.get "mode" with
        | "verify" =>
          match verify hashOf ph st.fpOf st.factsOf cur km tasks with
          | .error e => out.putStrLn s!"v err:{ierrClass e}"
          | .ok rs =>
            out.putStrLn s!"v ok n={rs.length}"
            for r in rs do
              let ent := match r.entity with | some k => toString k | none => "-"
              out.putStrLn s!"vr sig={r.sigID} verified={",".intercalate (r.verified.map toString)} keys={",".intercalate ((sortDedupNat r.keys).map toString)} ent={ent}"
        | m =>
          match fingerprints ph st.factsOf cur tasks (m == "any") with
          | .error e => out.putStrLn s!"fp err:{ierrClass e}"
          | .ok fps => out.putStrLn s!"fp ok {",".intercalate (fps.map hex)}"
      | _, _ => out.putStrLn "vh none"
      loop inp out st
    | "poke" =>
      -- bytes written into the backing store behind the handle's back (another writer): Seek + Write on the store, no load
      let n := kv.nat "nsites"
      let mut sites : List (Nat × Bytes) := []
      for _ in [0:n] do
        let l ← inp.getLine
        let k := parseKV (((l.trimAscii.toString.splitOn " ").filter (· != "")).drop 1)
        sites := sites ++ [(k.nat "off", k.bytes "hex")]
      match st.img with
      | none =>
        out.putStrLn "noimg"
        loop inp out st
      | some img =>
        let mut sto := img.st
        for (off, b) in sites do
          if off + b.length ≤ sto.buf.length then
            match sto.calls [.seekStart off, .write b] with
            | some s' => sto := s'
            | none => pure ()
        out.putStrLn "poked"
        loop inp out { st with img := some { img with st := sto } }
    | "signedby" =>
      match st.img with
      | none => out.putStrLn "noimg"
      | some img =>
        let (vo, _) := parseVerifyOpts kv
        match newVerifier ph img vo with
        | .error e => out.putStrLn s!"fp newerr:{ierrClass e}"
        | .ok tasks =>
          match fingerprints ph st.factsOf img tasks (kv.get "any" == "1") with
          | .error e => out.putStrLn s!"fp err:{ierrClass e}"
          | .ok fps => out.putStrLn s!"fp ok {",".intercalate (fps.map hex)}"
      loop inp out st
    | "sign" =>
      -- sign groups=… objsets=1+2;3 ht=<hash type> fp=<hex> t=… now=… nblobs=k, then k `blob h=` lines
      let nb := kv.nat "nblobs"
      let mut blobs : List (Bytes × Int) := []
      for _ in [0:nb] do
        let l ← inp.getLine
        let k := parseKV (((l.trimAscii.toString.splitOn " ").filter (· != "")).drop 1)
        -- each signature object is added with its own clock reading
        blobs := blobs ++ [(k.bytes "h", if k.has "now" then k.int "now" else kv.int "now")]
      match st.img with
      | none =>
        out.putStrLn "noimg"
        loop inp out st
      | some img =>
        let objsets : List (List Nat) :=
          if kv.get "objsets" == "-" || kv.get "objsets" == "" then []
          else ((kv.get "objsets").splitOn ";").map (fun x => (x.splitOn "+").filterMap (·.toNat?))
        match newSigner ph img { groups := natList (kv.get "groups"), objectSets := objsets } with
        | .error e =>
          out.putStrLn s!"sg newerr:{ierrClass e}"
          loop inp out st
        | .ok signers =>
          out.putStrLn "sg ok"
          let mut cur := img
          let mut bl := blobs
          let mut failed := false
          let mut ios : List String := []
          for gs in signers do
            if failed then continue
            match gs.metadata hashOf cur .sha256, bl with
            | .error _, _ =>
              out.putStrLn "sg failed"
              failed := true
            | .ok _, [] =>
              out.putStrLn "sg failed"
              failed := true
            | .ok md, (b, nowB) :: rest =>
              out.putStrLn s!"md g={gs.g} {hex (encMD md)}"
              bl := rest
              match sigDescriptorInput gs (kv.int "ht") (kv.bytes "fp") b with
              | .error _ =>
                out.putStrLn "sg failed"
                failed := true
              | .ok di =>
                let (img', r) := step sha ph cur (.add di (parseTOpt (kv.get "t"))) nowB
                ios := ios ++ ioLines (plan sha ph cur (.add di (parseTOpt (kv.get "t"))) nowB).1
                out.putStrLn s!"res {resStr r}"
                if r == .ok then cur := img' else failed := true
          if kv.get "io" == "1" then
            for l in ios do out.putStrLn l
          loop inp out { st with img := some cur }
    | "cli" =>
      -- one siftool invocation on the current file (see Model/Siftool.lean)
      let optNat (k : String) : Option Nat := if kv.get k == "-" || !kv.has k then none else some (kv.nat k)
      let optInt (k : String) : Option Int := if kv.get k == "-" || !kv.has k then none else some (kv.int k)
      let optBytes (k : String) : Option Bytes :=
        if kv.get k == "-" || !kv.has k then none else some ((unhex ((kv.get k).drop 2).toString).getD [])
      let text (k : String) : Bytes := (unhex (kv.get k)).getD []
      let cmd : Cli.Cmd :=
        match kv.get "cmd" with
        | "new" => .new
        | "add" =>
          .add { datatype := kv.int "datatype", parttype := kv.int "parttype", partfs := kv.int "partfs",
                 partarch := kv.int "partarch", signhash := kv.int "signhash", signentity := text "signentity",
                 sbomformat := text "sbomformat", groupid := kv.nat "groupid", link := optNat "link",
                 alignment := optInt "alignment", filename := optBytes "filename" }
            (if kv.get "data" == "none" then none else some (parseData (kv.get "data")))
        | "del" => .del (text "arg")
        | "setprim" => .setprim (text "arg")
        | "dump" => .dump (text "arg")
        | "info" => .info (text "arg")
        | "header" => .header
        | _ => .list
      let file : Option Store := if kv.get "exists" == "0" then none else st.img.map (·.st)
      -- a flag value pflag itself refuses is not modelled: the command fails before anything runs
      let r : Cli.Outcome := if kv.get "badflag" == "1" then { file := file, ok := false }
        else Cli.run sha ph file cmd (kv.int "now") (kv.bytes "rnd")
      match cmd with
      | .dump _ => out.putStrLn s!"cli {if r.ok then "ok" else "err"} dump={r.out.length}:{fnvHex r.out}"
      | _ => out.putStrLn s!"cli {if r.ok then "ok" else "err"}"
      -- the handle the next observation sees is a fresh load of whatever the command left
      let img' : Option Img :=
        match r.file with
        | none => none
        | some f => match loadContainer f with
          | .ok s => some s
          | .error _ => none
      loop inp out { st with img := img' }
    | "mkimg" =>
      -- the independent encoder: build an image from an explicit description and write it out
      let n := kv.nat "n"
      let mut rds : List RawDesc := []
      let mut datas : List (Int × Bytes) := []
      for _ in [0:n] do
        let l ← inp.getLine
        let t := (l.trimAscii.toString.splitOn " ").filter (· != "")
        let k := parseKV (t.drop 1)
        let d : RawDesc :=
          { dtype := k.int "dt", used := k.get "used" == "1", id := k.nat "id", gid := k.nat "gid",
            link := k.nat "link", off := k.int "off", size := k.int "size", sizePad := k.int "sizepad",
            ctime := k.int "ct", mtime := k.int "mt", uid := k.int "uid", gidOwner := k.int "gidown",
            name := pad 128 (k.bytes "name"), extra := pad 384 (k.bytes "extra") }
        rds := rds ++ [d]
        if k.has "data" then datas := datas ++ [(d.off, parseData (k.get "data"))]
      let h : Hdr :=
        { launch := pad 32 (kv.bytes "launch"), magic := pad 10 (kv.bytes "magic"),
          version := pad 3 (kv.bytes "version"), arch := pad 3 (kv.bytes "arch"), id := pad 16 (kv.bytes "id"),
          ctime := kv.int "ct", mtime := kv.int "mt", dfree := kv.int "dfree", dtotal := kv.int "dtotal",
          doff := kv.int "doff", dsize := kv.int "dsize", dataOff := kv.int "dataoff",
          dataSize := kv.int "datasize" }
      let mut buf : Bytes := writeAt (writeAt [] h.doff.toNat (encTable rds)) 0 (encHdr h)
      for (off, b) in datas do
        buf := writeAt buf off.toNat b
      let flen := kv.nat "flen"
      if flen > buf.length then buf := buf ++ zeros (flen - buf.length)
      IO.FS.writeBinFile (kv.get "path") (ByteArray.mk buf.toArray)
      out.putStrLn "made"
      loop inp out st
    | "obs" =>
      match st.img with
      | none => out.putStrLn "noimg"
      | some img =>
        for l in viewLines "" img do out.putStrLn l
        out.putStrLn s!"file len={img.st.buf.length} fnv={fnvHex img.st.buf}"
        if kv.has "inv" then out.putStrLn (invLine img)
        if kv.has "rl" then
          match loadContainer { img.st with pos := 0 } with
          | .ok img' =>
            out.putStrLn "rl ok"
            for l in viewLines "rl-" img' do out.putStrLn l
          | .error _ => out.putStrLn "rl err"
      loop inp out st
    | "dumpfile" =>
      -- write the model's bytes to a file (foreign images for the library to load)
      match st.img with
      | none => pure ()
      | some img => IO.FS.writeBinFile (kv.get "path") (ByteArray.mk img.st.buf.toArray)
      out.putStrLn "dumped"
      loop inp out st
    | "q" =>
      match st.img with
      | none => out.putStrLn "noimg"
      | some img =>
        let sels := parseSels (kv.get "sels")
        if kv.get "one" == "1" then
          match getDescriptor ph img sels with
          | .ok d => out.putStrLn s!"q ok ids={d.id}"
          | .error e => out.putStrLn s!"q err:{errClass e}"
        else
          match getDescriptors ph img sels with
          | .ok ds => out.putStrLn s!"q ok ids={",".intercalate (ds.map (fun d => toString d.id))}"
          | .error e => out.putStrLn s!"q err:{errClass e}"
      loop inp out st
    | _ =>
      -- mutating operations on the current image
      let now := kv.int "now"
      let topt := parseTOpt (kv.get "t")
      let opE : IO (Except Err (Option Op)) := do
        match cmd with
        | "add" =>
          match (← readDIBlock inp) with
          | .ok di => return .ok (some (.add di topt))
          | .error e => return .error e
        | "del" =>
          match parseSel (kv.get "sel") with
          | some sel => return .ok (some (.del sel (kv.get "zero" == "1") (kv.get "compact" == "1") topt))
          | none => return .ok none
        | "setprim" => return .ok (some (.setPrim (kv.nat "id") topt))
        | "setmeta" => return .ok (some (.setMeta (kv.nat "id") (parseMD (kv.get "md")) topt))
        | "setoci" => return .ok (some (.setOCI (kv.nat "id") (kv.bytes "text") topt))
        | "reload" => return .ok (some .reload)
        | _ => return .ok none
      match (← opE) with
      | .error e =>
        out.putStrLn s!"res err:{errClass e}"
        loop inp out st
      | .ok none =>
        out.putStrLn s!"bad-op {cmd}"
        loop inp out st
      | .ok (some op) =>
        match st.img with
        | none =>
          out.putStrLn "noimg"
          loop inp out st
        | some img =>
          if kv.has "fault" then
            -- the backing store fails call number m of this operation (j bytes of it written): see Model/Fault.lean
            let mj := (kv.get "fault").splitOn ":"
            let m := (mj.getD 0 "0").toNat?.getD 0
            let j := (mj.getD 1 "0").toNat?.getD 0
            match faultStep sha ph img op now m j with
            | some img' =>
              out.putStrLn "res err:other"
              out.putStrLn "spec ok"
              loop inp out { st with img := some img' }
            | none =>
              out.putStrLn s!"fault no-such-call m={m} of {(phaseCalls (phases sha ph img op now)).length}"
              loop inp out st
          else
          let (img', r) := step sha ph img op now
          out.putStrLn s!"res {resStr r}"
          -- C02: the concrete step is the reference model's step on the abstract view (checked
          -- whenever the pre-state meets the refinement theorem's hypotheses)
          if cmd != "reload" then
            if wfOK img && placedOK img && rangesOK img && !refinesStep sha ph img op now then
              out.putStrLn "spec FAIL: abs (step s op) differs from AImg.step (abs s) op"
            else out.putStrLn "spec ok"
          if kv.get "io" == "1" then
            for l in ioLines (plan sha ph img op now).1 do out.putStrLn l
          loop inp out { st with img := some img' }

end Drv

def main : IO Unit := do
  let inp ← IO.getStdin
  let out ← IO.getStdout
  Drv.loop inp out {}
