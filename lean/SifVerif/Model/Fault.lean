/-
  Model/Fault.lean — what a modifying operation leaves behind when the backing store fails one of
  its calls (a Seek, Write or Truncate returns an error, possibly after a short write).

  `Image.lean` gives each operation as one plan: the calls it issues and the handle it ends with.
  The Go code updates the in-memory handle *between* groups of calls (add.go, delete.go, set.go), so
  the handle a failed call leaves behind depends on where the failure falls.  Here the same plans
  are cut into phases — the calls issued while the handle's memory is in one given state — and
  `faultStep` is the handle after the store refused the call at a given position:

    AddObject      data-object calls [memory untouched]  ·  table write [object committed, header
                   time not yet]  ·  header write [all]
    DeleteObjects  for each selected object in table order: its zeroing calls [the objects before
                   it already cleared, free count raised, group-minimum cache and header time not
                   yet]  ·  resize [all]  ·  table write [all]  ·  header write [all]
    SetPrimPart    table write [descriptors changed, header architecture/time not yet]  ·  header [all]
    SetMetadata /
    SetOCIBlobDigest  table write [descriptor changed, header time not yet]  ·  header write [all]

  `Proofs/Fault.lean` proves that the phases of every operation, laid end to end, are exactly the
  calls of its plan, and that the last phase's memory is the plan's final handle.
-/
import SifVerif.Model.Image
namespace Sif

variable (sha : Bytes → Bytes) (ph : Bytes → Option Bytes)

/-- calls issued while the handle's memory is `mem` (the handle a failure among them leaves) -/
structure Phase where
  calls : List IOCall
  mem : Img
  deriving Repr, Inhabited

/-- `writeDescriptors()` with memory `mid`, then `writeHeader()` with memory `full` -/
def flushPhases (mid full : Img) : List Phase :=
  [⟨writeDescriptorsCalls full, mid⟩, ⟨writeHeaderCalls full, full⟩]

def addPhases (s : Img) (di : DI) (topt : TOpt) (now : Int) : List Phase :=
  let t := resolveTime s topt now
  match writeDataObject sha ph s (findFreeSlot s.rds) di t with
  | (calls, s1, .ok) =>
    let s2 := { s1 with h := { s1.h with mtime := t } }
    ⟨calls, s⟩ :: flushPhases s1 s2
  | (calls, _, _) => [⟨calls, s⟩]

/-- the zeroing phases of the delete loop: `m` is the handle's memory so far, `i` the slot index -/
def delZeroPhases (sel : Sel) (zero : Bool) : List RawDesc → Nat → Img → List Phase × Img
  | [], _, m => ([], m)
  | d :: ds, i, m =>
    if d.used && (match sel.eval ph d with | .ok b => b | .error _ => false) then
      let zc := if zero then
                  [IOCall.seekStart d.off] ++
                    (if d.size ≤ 0 then [] else [IOCall.write (zeros d.size.toNat)])
                else []
      let m' : Img :=
        { m with rds := m.rds.set i zeroDesc,
                 h := { m.h with dfree := m.h.dfree + 1,
                                 arch := if d.isPartitionOfType partPrimSys then archUnknown else m.h.arch } }
      let (ps, mf) := delZeroPhases sel zero ds (i + 1) m'
      (⟨zc, m⟩ :: ps, mf)
    else delZeroPhases sel zero ds (i + 1) m

def delPhases (s : Img) (sel : Sel) (zero compact : Bool) (topt : TOpt) (now : Int) : List Phase :=
  match deleteLoop ph sel zero s.rds [] s.h [] false with
  | .error _ => []
  | .ok (calls, h1, rds1, selected) =>
    if !selected then []
    else
      let s' := deleteFinish s h1 rds1 compact (resolveTime s topt now)
      let cc := if compact then resizeCalls (lenAfter s.st calls) (s'.h.dataOff + s'.h.dataSize)
                else []
      (delZeroPhases ph sel zero s.rds 0 s).1 ++ [⟨cc, s'⟩] ++ flushPhases s' s'

def setPrimPhases (s : Img) (id : Nat) (topt : TOpt) (now : Int) : List Phase :=
  let t := resolveTime s topt now
  match getDescriptorIdx ph s.rds [.id id] with
  | .error _ => []
  | .ok i =>
    let descr := s.rds.getD i zeroDesc
    if descr.dtype != dtPartition then []
    else if descr.partType == partPrimSys then []
    else if descr.partType != partSystem then []
    else
      match demotePrimary ph s.rds t with
      | .error _ => []
      | .ok rds1 =>
        let full := setPrimResult s i rds1 t
        flushPhases { full with h := s.h } full

def setExtraPhases (s : Img) (i : Nat) (md : MDIn) (t : Int) : List Phase :=
  match setExtra sha [] md (s.rds.getD i zeroDesc) with
  | .error _ => []
  | .ok d =>
    let s2 : Img := { s with rds := s.rds.set i { d with mtime := t }, h := { s.h with mtime := t } }
    flushPhases { s2 with h := s.h } s2

def phases (s : Img) (op : Op) (now : Int) : List Phase :=
  match op with
  | .add di t => addPhases sha ph s di t now
  | .del sel z c t => delPhases ph s sel z c t now
  | .setPrim id t => setPrimPhases ph s id t now
  | .setMeta id md t =>
    match getDescriptorIdx ph s.rds [.id id] with
    | .error _ => []
    | .ok i => setExtraPhases sha s i md (resolveTime s t now)
  | .setOCI id text t =>
    match getDescriptorIdx ph s.rds [.id id] with
    | .error _ => []
    | .ok i =>
      if !isOCIType (s.rds.getD i zeroDesc).dtype then []
      else setExtraPhases sha s i (.ociText text) (resolveTime s t now)
  | .reload => []

/-- the calls of the phases laid end to end, each with the memory of its phase -/
def phaseCalls (ps : List Phase) : List (IOCall × Img) :=
  ps.flatMap (fun p => p.calls.map (fun c => (c, p.mem)))

/-- the first `j` bytes of a write reach the store before it fails -/
def tornCall (st : Store) (c : IOCall) (j : Nat) : Store :=
  match c with
  | .write b => if j == 0 then st else st.write (b.take j)
  | _ => st

/-- the handle after the store failed call number `m` (0-based) of the operation, `j` bytes of it having been written: the calls before it took effect, the
    memory is that of the failing call's phase.  `none` when the operation has no such call. -/
def faultStep (s : Img) (op : Op) (now : Int) (m j : Nat) : Option Img :=
  let cs := phaseCalls (phases sha ph s op now)
  match cs[m]? with
  | none => none
  | some (c, mem) =>
    let st1 := (s.st.callsPrefix ((cs.take m).map (·.1))).1
    some { mem with st := tornCall st1 c j }

end Sif
