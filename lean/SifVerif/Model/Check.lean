/-
  Model/Check.lean — executable (Bool) versions of the hypotheses of the theorems, evaluated by
  the driver on every state the correspondence campaign reaches, so that the evidence shows the
  hypotheses (`WF`, `Placed`, `Ranges`) are met by the states the real library produces.
-/
import SifVerif.Model.Image
namespace Sif

def inI64 (x : Int) : Bool := -9223372036854775808 ≤ x && x ≤ 9223372036854775807
def inI32 (x : Int) : Bool := -2147483648 ≤ x && x ≤ 2147483647
def inU32 (n : Nat) : Bool := n < 4294967296

def hdrRangesOK (h : Hdr) : Bool :=
  h.launch.length == 32 && h.magic.length == 10 && h.version.length == 3 && h.arch.length == 3 &&
  h.id.length == 16 && inI64 h.ctime && inI64 h.mtime && inI64 h.dfree && inI64 h.dtotal &&
  inI64 h.doff && inI64 h.dsize && inI64 h.dataOff && inI64 h.dataSize

def descRangesOK (d : RawDesc) : Bool :=
  inI32 d.dtype && inU32 d.id && inU32 d.gid && inU32 d.link && inI64 d.off && inI64 d.size &&
  inI64 d.sizePad && inI64 d.ctime && inI64 d.mtime && inI64 d.uid && inI64 d.gidOwner &&
  d.name.length == 128 && d.extra.length == 384

def rangesOK (s : Img) : Bool := hdrRangesOK s.h && s.rds.all descRangesOK

def nodupNat : List Nat → Bool
  | [] => true
  | x :: xs => !xs.contains x && nodupNat xs

def minCohOK (s : Img) : Bool :=
  (live s.rds).all (fun d =>
    minHas s.minIDs d.gid &&
    (live s.rds).all (fun e => e.gid != d.gid || minLookup s.minIDs d.gid ≤ e.id) &&
    (live s.rds).any (fun e => e.gid == d.gid && e.id == minLookup s.minIDs d.gid)) &&
  s.minIDs.all (fun p => (live s.rds).any (fun d => d.gid == p.1))

def wfOK (s : Img) : Bool :=
  s.h.magic == hdrMagic && s.h.version == curVersion && s.h.dtotal == s.rds.length &&
  decide (128 ≤ s.h.doff) && decide (s.h.doff + 585 * s.rds.length ≤ s.h.dataOff) &&
  decide ((585 * s.rds.length : Int) ≤ s.h.dsize) && decide (s.h.doff + s.h.dsize ≤ s.h.dataOff) &&
  decide (128 ≤ s.st.buf.length) && (s.st.buf.take 128 == encHdr s.h) &&
  (s.rds.isEmpty || decide (s.h.doff.toNat + 585 * s.rds.length ≤ s.st.buf.length)) &&
  ((s.st.buf.drop s.h.doff.toNat).take (585 * s.rds.length) == encTable s.rds) &&
  minCohOK s && decide (s.h.dfree + (live s.rds).length = s.h.dtotal) &&
  nodupNat ((live s.rds).map (·.id)) &&
  (live s.rds).all (fun d => decide (0 ≤ d.off) && decide (0 ≤ d.size))

def placedOK (s : Img) : Bool :=
  let ls := live s.rds
  ls.all (fun d => decide (s.h.dataOff ≤ d.off) && decide (d.off + d.size ≤ s.h.dataOff + s.h.dataSize) &&
    (decide (d.size ≤ 0) || decide (d.off + d.size ≤ s.st.buf.length))) &&
  (List.range s.rds.length).all (fun i => (List.range s.rds.length).all (fun j =>
    let di := s.rds.getD i zeroDesc
    let dj := s.rds.getD j zeroDesc
    i == j || !di.used || !dj.used || decide (di.size ≤ 0) || decide (dj.size ≤ 0) ||
      decide (di.off + di.size ≤ dj.off) || decide (dj.off + dj.size ≤ di.off)))

def invLine (s : Img) : String :=
  let bad := (if rangesOK s then [] else ["ranges"]) ++ (if wfOK s then [] else ["wf"]) ++
    (if placedOK s then [] else ["placed"])
  if bad.isEmpty then "inv ok" else "inv FAIL:" ++ ",".intercalate bad

end Sif
