/-
  Model/Extra.lean — models of the small third-party text codecs the sif layer calls.
  `parseHashV1` models go-containerregistry's `v1.Hash.UnmarshalText` followed by `String()`:
  the text must be `sha256:` followed by exactly 64 lower-case hex digits.
-/
import SifVerif.Model.Layout
namespace Sif

def isLowerHex (c : UInt8) : Bool := (48 ≤ c && c ≤ 57) || (97 ≤ c && c ≤ 102)

def sha256Prefix : Bytes := [115, 104, 97, 50, 53, 54, 58]   -- "sha256:"

def parseHashV1 (t : Bytes) : Option Bytes :=
  if t.take 7 == sha256Prefix && (t.drop 7).length == 64 && (t.drop 7).all isLowerHex
  then some t else none

end Sif
