/-
  Model/Bytes.lean — byte strings and the fixed-width little-endian codecs of `encoding/binary`
  as used by sylabs/sif (int32 / uint32 / int64 / bool / [n]byte).  Core Lean only.
-/
namespace Sif

abbrev Bytes := List UInt8

def zeros (n : Nat) : Bytes := List.replicate n 0

/-- `[n]byte` semantics of `copy(dst[:], src)` into a zeroed array: truncate or zero-pad to `n`. -/
def pad (n : Nat) (b : Bytes) : Bytes := b.take n ++ zeros (n - b.length)

/-- `bytes.TrimRight(b, "\x00")`. -/
def trimNul (b : Bytes) : Bytes := (b.reverse.dropWhile (· == 0)).reverse

/-- little-endian encoding of `v mod 256^n` on `n` bytes -/
def leBytes : Nat → Nat → Bytes
  | 0, _ => []
  | n + 1, v => (v % 256).toUInt8 :: leBytes n (v / 256)

/-- little-endian value of a byte string -/
def leVal : Bytes → Nat
  | [] => 0
  | b :: bs => b.toNat + 256 * leVal bs

/-- unsigned fixed-width encoder (uint32: `encU 4`) -/
def encU (w : Nat) (v : Nat) : Bytes := leBytes w v

/-- signed two's-complement encoder (int32: `encS 4`, int64: `encS 8`) -/
def encS (w : Nat) (x : Int) : Bytes := leBytes w (x % (256 ^ w : Nat)).toNat

def decU (b : Bytes) : Nat := leVal b

def decS (w : Nat) (b : Bytes) : Int :=
  let v := leVal b
  if 2 * v < 256 ^ w then (v : Int) else (v : Int) - (256 ^ w : Nat)

/-- `binary.Write` of a Go `bool` -/
def encBool (b : Bool) : Bytes := [if b then 1 else 0]

/-- `binary.Read` of a Go `bool`: any non-zero byte is true -/
def decBool (b : Bytes) : Bool :=
  match b with
  | [] => false
  | x :: _ => x != 0

def slice (b : Bytes) (off len : Nat) : Bytes := (b.drop off).take len

/-! FNV-1a 64 (used only by the driver for canonical output; not by any theorem) -/
def fnvStep (h : UInt64) (b : UInt8) : UInt64 := (h ^^^ b.toUInt64) * 1099511628211
def fnv64 (b : Bytes) : UInt64 := b.foldl fnvStep 14695981039346656037

end Sif
