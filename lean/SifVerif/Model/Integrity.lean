/-
  Model/Integrity.lean — pkg/integrity: metadata, digests, task selection, signing and
  verification, signer listings.  Mirrors digest.go, metadata.go, select.go, sign.go, verify.go,
  dsse.go, clearsign.go.

  Cryptography and the envelope parsers are *parameters*: for every signature object the model is
  given `SigFacts` — what the third-party layers (encoding/json, clearsign.Decode, OpenPGP,
  sigstore DSSE) report about its bytes.  In theorems the facts are universally quantified and
  constrained by explicit hypotheses; in the driver they come from a Go oracle that calls the
  third-party libraries directly (not pkg/integrity).  The hash is the parameter `H`.
  Core Lean only.
-/
import SifVerif.Model.Image
namespace Sif

inductive HashAlg
  | sha224 | sha256 | sha384 | sha512 | sha512_224 | sha512_256
  deriving Repr, DecidableEq, Inhabited

def HashAlg.size : HashAlg → Nat
  | .sha224 => 28 | .sha256 => 32 | .sha384 => 48 | .sha512 => 64 | .sha512_224 => 28
  | .sha512_256 => 32

/-- `supportedDigestAlgorithms` -/
def HashAlg.name : HashAlg → String
  | .sha224 => "sha224" | .sha256 => "sha256" | .sha384 => "sha384" | .sha512 => "sha512"
  | .sha512_224 => "sha512_224" | .sha512_256 => "sha512_256"

def allHashAlgs : List HashAlg := [.sha224, .sha256, .sha384, .sha512, .sha512_224, .sha512_256]

/-- a `digest` value; `alg = none` is Go's zero `crypto.Hash` (a digest field absent from the JSON) -/
structure Digest where
  alg : Option HashAlg
  value : Bytes
  deriving Repr, DecidableEq, Inhabited

/-- `objectMetadata` -/
structure ObjMD where
  relID : Nat
  descDigest : Digest
  objDigest : Digest
  deriving Repr, DecidableEq, Inhabited

/-- `imageMetadata` -/
structure ImageMD where
  version : Int
  hdrDigest : Digest
  objects : List ObjMD
  deriving Repr, DecidableEq, Inhabited

/-- what the DSSE layer reports about a blob that `encoding/json` decodes as an envelope -/
structure DsseFacts where
  payloadType : Bytes
  payload : Option Bytes          -- `DecodedPayload()`
  validKeys : List Nat            -- keys (of the key universe) with a valid signature in the envelope
  deriving Repr, DecidableEq, Inhabited

/-- what `clearsign.Decode` + `openpgp.CheckDetachedSignatureAndHash` report -/
structure CsFacts where
  plaintext : Bytes
  signer : Option Nat             -- the entity whose key made a valid signature (allowed hash)
  deriving Repr, DecidableEq, Inhabited

/-- the payload as `encoding/json` maps it onto `imageMetadata`, digest strings unparsed
    (`none` = the field is absent) -/
structure RawObjMD where
  relID : Nat
  descDigest : Option String
  objDigest : Option String
  deriving Repr, DecidableEq, Inhabited

structure RawMD where
  version : Int
  hdrDigest : Option String
  objects : List RawObjMD
  deriving Repr, DecidableEq, Inhabited

structure SigFacts where
  dsse : Option DsseFacts := none
  cs : Option CsFacts := none
  md : Option RawMD := none       -- typed JSON decode of the (payload | plaintext); none = error
  deriving Repr, DecidableEq, Inhabited

def mediaType : Bytes := "application/vnd.sylabs.sif-metadata+json".toUTF8.toList
/-- "SIFHASH:\n" -/
def legacyPrefix : Bytes := [83, 73, 70, 72, 65, 83, 72, 58, 10]

/-! ## errors of pkg/integrity (classes compared: the exported ones) -/
inductive IErr
  | sif (e : Err)
  | signatureNotFound (id : Nat) (isGroup : Bool)
  | signatureNotValid (id : Nat)
  | descriptorIntegrity (id : Nat)
  | objectIntegrity (id : Nat)
  | headerIntegrity
  | noKeyMaterial                 -- ErrNoKeyMaterial (signing)
  | noKeyMaterialDSSE | noKeyMaterialPGP | formatNotRecognized
  | fingerprintMismatch | nonGroupedObject
  | objectNotSigned (id : Nat) | signedObjectNotFound (id : Nat)
  | groupNotFound | noGroupsFound | minimumIDInvalid | unexpectedGroupID | noObjectsSpecified
  | hashUnsupported | hashUnavailable | digestMalformed | hexDecode | dataRead
  deriving Repr, DecidableEq, Inhabited

/-! ## digest.go -/
section
variable (H : HashAlg → Bytes → Bytes)

def hexDigitVal (c : Char) : Option Nat :=
  if '0' ≤ c ∧ c ≤ '9' then some (c.toNat - 48)
  else if 'a' ≤ c ∧ c ≤ 'f' then some (c.toNat - 87)
  else if 'A' ≤ c ∧ c ≤ 'F' then some (c.toNat - 55)
  else none

/-- `hex.DecodeString` -/
def hexDecode : List Char → Option Bytes
  | [] => some []
  | [_] => none
  | a :: b :: rest =>
    match hexDigitVal a, hexDigitVal b, hexDecode rest with
    | some x, some y, some r => some ((x * 16 + y).toUInt8 :: r)
    | _, _, _ => none

def hexDigitLower (n : UInt8) : Char := Char.ofNat (if n < 10 then 48 + n.toNat else 87 + n.toNat)
def hexEncode (b : Bytes) : String :=
  String.ofList (b.flatMap (fun (x : UInt8) => [hexDigitLower (x / 16), hexDigitLower (x % 16)]))

/-- `digest.UnmarshalJSON` on the decoded JSON string: "alg:hex" -/
def parseDigest (s : String) : Except IErr Digest :=
  match s.splitOn ":" with
  | [name, value] =>
    match hexDecode value.toList with
    | none => .error .digestMalformed
    | some v =>
      match allHashAlgs.find? (fun a => a.name == name) with
      | none => .error .hashUnsupported
      | some a => if v.length != a.size then .error .digestMalformed else .ok { alg := some a, value := v }
  | _ => .error .digestMalformed

def parseDigestOpt : Option String → Except IErr Digest
  | none => .ok { alg := none, value := [] }
  | some s => parseDigest s

/-- `json.Unmarshal(b, &im)` = generic JSON decode (a parameter) followed by digest parsing -/
def parseMD (r : RawMD) : Except IErr ImageMD := do
  let hd ← parseDigestOpt r.hdrDigest
  let objs ← r.objects.mapM (fun o => do
    let dd ← parseDigestOpt o.descDigest
    let od ← parseDigestOpt o.objDigest
    pure ({ relID := o.relID % u32Mod, descDigest := dd, objDigest := od } : ObjMD))
  pure { version := r.version, hdrDigest := hd, objects := objs }

/-- `digest.matches(r)` -/
def Digest.matches (d : Digest) (stream : Bytes) : Except IErr Bool :=
  match d.alg with
  | none => .error .hashUnavailable
  | some a => .ok (d.value == H a stream)

/-- `digest.MarshalJSON` text: "alg:hex" -/
def Digest.text (d : Digest) : String :=
  match d.alg with
  | some a => a.name ++ ":" ++ hexEncode d.value
  | none => ""

/-- `json.Marshal(imageMetadata)` -/
def encMD (m : ImageMD) : Bytes :=
  let obj (o : ObjMD) : String :=
    "{\"relativeId\":" ++ toString o.relID ++ ",\"descriptorDigest\":\"" ++ o.descDigest.text ++
    "\",\"objectDigest\":\"" ++ o.objDigest.text ++ "\"}"
  let objs := if m.objects.isEmpty then "null" else "[" ++ ",".intercalate (m.objects.map obj) ++ "]"
  ("{\"version\":" ++ toString m.version ++ ",\"header\":{\"digest\":\"" ++ m.hdrDigest.text ++
    "\"},\"objects\":" ++ objs ++ "}").toUTF8.toList

/-! ## metadata.go -/

/-- `getImageMetadata(f, minID, ods, h)` -/
def getImageMetadata (s : Img) (minID : Nat) (ods : List RawDesc) (a : HashAlg) :
    Except IErr ImageMD :=
  if ods.any (fun d => d.id < minID) then .error .minimumIDInvalid
  else .ok
    { version := 1,
      hdrDigest := { alg := some a, value := H a (hdrStream s.h) },
      objects := ods.map (fun d =>
        { relID := d.id - minID,
          descDigest := { alg := some a, value := H a (descStream s.minIDs d) },
          objDigest := { alg := some a, value := H a (objContent s.st d) } }) }

/-- absolute ID of a metadata entry: `minID + RelativeID` in uint32 -/
def ObjMD.absID (minID : Nat) (o : ObjMD) : Nat := (minID + o.relID) % u32Mod

/-- `objectIDsMatch` -/
def objectIDsMatch (im : ImageMD) (minID : Nat) (ods : List RawDesc) : Except IErr Unit :=
  let ids := im.objects.map (ObjMD.absID minID)
  match ods.find? (fun d => !ids.contains d.id) with
  | some d => .error (.objectNotSigned d.id)
  | none =>
    match ids.find? (fun i => !(ods.any (fun d => d.id == i))) with
    | some i => .error (.signedObjectNotFound i)
    | none => .ok ()

/-- `objectMetadata.matches` -/
def ObjMD.matchesObj (s : Img) (om : ObjMD) (d : RawDesc) : Except IErr Unit :=
  match om.descDigest.matches H (descStream s.minIDs d) with
  | .error e => .error e
  | .ok false => .error (.descriptorIntegrity d.id)
  | .ok true =>
    match om.objDigest.matches H (objContent s.st d) with
    | .error e => .error e
    | .ok false => .error (.objectIntegrity d.id)
    | .ok true => .ok ()

/-- the loop of `imageMetadata.matches`: verified prefix, or the first error -/
def matchObjects (s : Img) (im : ImageMD) (minID : Nat) : List RawDesc → Except IErr (List RawDesc)
  | [] => .ok []
  | d :: ds =>
    match im.objects.find? (fun o => o.absID minID == d.id) with
    | none => .error (.objectNotSigned d.id)
    | some om =>
      match om.matchesObj H s d with
      | .error e => .error e
      | .ok () =>
        match matchObjects s im minID ds with
        | .error e => .error e
        | .ok r => .ok (d :: r)

/-- `imageMetadata.matches` -/
def imMatches (s : Img) (im : ImageMD) (minID : Nat) (ods : List RawDesc) :
    Except IErr (List RawDesc) :=
  match im.hdrDigest.matches H (hdrStream s.h) with
  | .error e => .error e
  | .ok false => .error .headerIntegrity
  | .ok true => matchObjects H s im minID ods

/-! ## select.go -/
variable (ph : Bytes → Option Bytes)

def liftSif {α} : Except Err α → Except IErr α
  | .ok a => .ok a
  | .error e => .error (.sif e)

/-- `getGroupObjects` -/
def getGroupObjects (s : Img) (g : Nat) : Except IErr (List RawDesc) :=
  match getDescriptors ph s [.groupID g] with
  | .error e => .error (.sif e)
  | .ok [] => .error .groupNotFound
  | .ok ods => .ok ods

/-- `getObjectSignatures` -/
def getObjectSignatures (s : Img) (id : Nat) : Except IErr (List RawDesc) :=
  match getDescriptors ph s [.dataType dtSignature, .linkedID id] with
  | .error e => .error (.sif e)
  | .ok [] => .error (.signatureNotFound id false)
  | .ok sigs => .ok sigs

/-- `isLegacySignature` -/
def isLegacy (f : SigFacts) : Bool :=
  match f.cs with
  | none => false
  | some c => c.plaintext.take legacyPrefix.length == legacyPrefix

/-- can the signature object's data be read in full? (`GetData`) -/
def dataReadable (s : Img) (d : RawDesc) : Bool := (objContent s.st d).length == d.size.toNat && 0 ≤ d.size

/-- `getGroupSignatures`: signature objects linked to the group, of the requested kind.  The
    caller predicate reads the object (`GetData`), so an unreadable candidate is an error. -/
def getGroupSignatures (facts : Bytes → SigFacts) (s : Img) (g : Nat) (legacy : Bool) :
    Except IErr (List RawDesc) :=
  if s.isEmpty then .error (.sif .noObjects)
  else if g == 0 then
    -- WithLinkedGroupID(0) raises its error at the first signature object that reaches it
    if (live s.rds).any (fun d => d.dtype == dtSignature) then .error (.sif .invalidGroupID)
    else .error (.signatureNotFound g true)
  else
    let cands := (live s.rds).filter (fun d => d.dtype == dtSignature && d.linkIsGroup && d.linkedID == g)
    match cands.find? (fun d => !dataReadable s d) with
    | some _ => .error .dataRead
    | none =>
      match cands.filter (fun d => isLegacy (facts (objContent s.st d)) == legacy) with
      | [] => .error (.signatureNotFound g true)
      | sigs => .ok sigs

/-- `getGroupMinObjectID` -/
def getGroupMinObjectID (s : Img) (g : Nat) : Except IErr Nat :=
  let ids := ((live s.rds).filter (fun d => d.group == g)).map (·.id)
  match ids with
  | [] => .error .groupNotFound
  | i :: is => let m := is.foldl min i
               if m == 4294967295 then .error .groupNotFound else .ok m

def insertSorted (l : List Nat) (v : Nat) : List Nat :=
  if l.contains v then l else (l.filter (· < v)) ++ [v] ++ (l.filter (· > v))

/-- `getGroupIDs` -/
def getGroupIDs (s : Img) : Except IErr (List Nat) :=
  match (live s.rds).foldl (fun acc d => if d.group != 0 then insertSorted acc d.group else acc) [] with
  | [] => .error .noGroupsFound
  | gs => .ok gs

/-- `Descriptor.SignatureMetadata` restricted to what verification uses: the hash type must be one
    of the five known, the fingerprint is the first 20 entity bytes (absent when all zero) -/
def sigMetadata (d : RawDesc) : Except IErr (Int × Option Bytes) :=
  if d.dtype != dtSignature then .error (.sif .unexpectedDataType)
  else if 1 ≤ d.sigHashType ∧ d.sigHashType ≤ 5 then .ok (d.sigHashType, d.sigFingerprint)
  else .error .hashUnsupported

/-- bytes-sorted, duplicate-free insertion (`insertSortedFunc(fps, fp, bytes.Compare)`) -/
def bytesLt : Bytes → Bytes → Bool
  | [], [] => false
  | [], _ :: _ => true
  | _ :: _, [] => false
  | a :: as, b :: bs => a < b || (a == b && bytesLt as bs)

def insertSortedBytes (l : List Bytes) (v : Bytes) : List Bytes :=
  if l.contains v then l else (l.filter (fun x => bytesLt x v)) ++ [v] ++ (l.filter (fun x => bytesLt v x))

/-- `getFingerprints`: the sorted, duplicate-free fingerprints recorded on `sigs` -/
def getFingerprintsAcc : List RawDesc → List Bytes → Except IErr (List Bytes)
  | [], acc => .ok acc
  | d :: ds, acc =>
    match sigMetadata d with
    | .error e => .error e
    | .ok (_, none) => getFingerprintsAcc ds acc
    | .ok (_, some fp) => getFingerprintsAcc ds (insertSortedBytes acc fp)

def getFingerprints (sigs : List RawDesc) : Except IErr (List Bytes) := getFingerprintsAcc sigs []

/-! ## verify.go -/

/-- key material supplied by the caller: DSSE verifier keys and keyring entities, as indices into
    the key universe; `fpOf k` is entity `k`'s primary-key fingerprint -/
structure KeyMaterial where
  vs : Option (List Nat) := none
  kr : Option (List Nat) := none
  deriving Repr, DecidableEq, Inhabited

inductive Task
  | group (g : Nat) (ods : List RawDesc) (subsetOK : Bool)
  | legacyGroup (g : Nat) (ods : List RawDesc)
  | legacyObject (od : RawDesc)
  deriving Repr, DecidableEq, Inhabited

structure VerifyOpts where
  groups : List Nat := []
  objects : List Nat := []
  legacy : Bool := false
  legacyAll : Bool := false
  deriving Repr, DecidableEq, Inhabited

/-- one signature's outcome, as delivered to the callback / `VerifyResult` -/
structure SigResult where
  sigID : Nat
  verified : List Nat             -- IDs of the verified objects
  keys : List Nat                 -- accepted DSSE keys
  entity : Option Nat             -- validating PGP entity
  deriving Repr, DecidableEq, Inhabited

/-- the group tasks of `getTasks` / `getLegacyTasks`, in order -/
def groupTasks (s : Img) (legacy : Bool) : List Nat → Except IErr (List Task)
  | [] => .ok []
  | g :: gs =>
    match getGroupObjects ph s g with
    | .error e => .error e
    | .ok ods =>
      match groupTasks s legacy gs with
      | .error e => .error e
      | .ok ts => .ok ((if legacy then Task.legacyGroup g ods else Task.group g ods false) :: ts)

/-- the object tasks: `newGroupVerifier(f, od.GroupID(), od)` (explicit descriptor ⇒ subsetOK, no
    group lookup) or `newLegacyObjectVerifier` -/
def objectTasks (s : Img) (legacy : Bool) : List Nat → Except IErr (List Task)
  | [] => .ok []
  | id :: ids =>
    match getDescriptor ph s [.id id] with
    | .error e => .error (.sif e)
    | .ok od =>
      match objectTasks s legacy ids with
      | .error e => .error e
      | .ok ts => .ok ((if legacy then Task.legacyObject od else Task.group od.group [od] true) :: ts)

/-- `getTasks` / `getLegacyTasks` -/
def getTasks (s : Img) (legacy : Bool) (groups objects : List Nat) : Except IErr (List Task) :=
  match groupTasks ph s legacy groups with
  | .error e => .error e
  | .ok gt =>
    match objectTasks ph s legacy objects with
    | .error e => .error e
    | .ok ot => .ok (gt ++ ot)

/-- the object IDs `NewVerifier` ends up with (`OptVerifyObject`s, plus every grouped
    non-signature object in legacy-all mode), sorted and duplicate-free -/
def verifierObjects (s : Img) (o : VerifyOpts) : List Nat :=
  let objects0 := o.objects.foldl insertSorted []
  if o.legacyAll then
    (live s.rds).foldl (fun acc d =>
      if d.dtype != dtSignature && d.group != 0 then insertSorted acc d.id else acc) objects0
  else objects0

/-- `NewVerifier`: option processing and task construction -/
def newVerifier (s : Img) (o : VerifyOpts) : Except IErr (List Task) :=
  if o.groups.contains 0 then .error (.sif .invalidGroupID)
  else if o.objects.contains 0 then .error (.sif .invalidObjectID)
  else
    let groups := o.groups.foldl insertSorted []
    let objects := verifierObjects s o
    if groups.isEmpty && objects.isEmpty then
      match getGroupIDs s with
      | .error e => .error e
      | .ok gids => getTasks ph s (o.legacy || o.legacyAll) gids objects
    else getTasks ph s (o.legacy || o.legacyAll) groups objects

/-- `t.signatures()` -/
def Task.signatures (facts : Bytes → SigFacts) (s : Img) : Task → Except IErr (List RawDesc)
  | .group g _ _ => getGroupSignatures facts s g false
  | .legacyGroup g _ => getGroupSignatures facts s g true
  | .legacyObject od => getObjectSignatures ph s od.id

/-- the decoder `Verify` picks for a signature object, or the error -/
inductive Decoder | dsse | clearsign
  deriving Repr, DecidableEq

def isDSSE (f : SigFacts) : Bool :=
  match f.dsse with
  | some d => d.payloadType == mediaType
  | none => false

def chooseDecoder (f : SigFacts) (km : KeyMaterial) : Except IErr Decoder :=
  if isDSSE f then (if km.vs.isNone then .error .noKeyMaterialDSSE else .ok .dsse)
  else if f.cs.isSome then (if km.kr.isNone then .error .noKeyMaterialPGP else .ok .clearsign)
  else .error .formatNotRecognized

/-- `de.verifyMessage`: payload bytes + accepted keys / entity, or failure -/
def verifyMessage (f : SigFacts) (km : KeyMaterial) : Decoder → Option (Bytes × List Nat × Option Nat)
  | .dsse =>
    match f.dsse with
    | none => none
    | some d =>
      let acc := (km.vs.getD []).filter (fun k => d.validKeys.contains k)
      if acc.isEmpty then none
      else if d.payloadType != mediaType then none
      else d.payload.map (fun p => (p, acc, none))
  | .clearsign =>
    match f.cs with
    | none => none
    | some c =>
      match c.signer with
      | some k => if (km.kr.getD []).contains k then some (c.plaintext, [], some k) else none
      | none => none

/-- `if e := vr.e; e != nil && !bytes.Equal(e.PrimaryKey.Fingerprint, fp)` -/
def fpMismatch (fpOf : Nat → Bytes) (ent : Option Nat) (fp : Option Bytes) : Bool :=
  match ent with
  | some k => some (fpOf k) != fp
  | none => false

/-- `groupVerifier.verifySignature` -/
def verifyGroupSig (fpOf : Nat → Bytes) (facts : Bytes → SigFacts) (s : Img) (km : KeyMaterial)
    (g : Nat) (ods : List RawDesc) (subsetOK : Bool) (sig : RawDesc) (de : Decoder) :
    Except IErr SigResult :=
  match sigMetadata sig with
  | .error e => .error e
  | .ok (_, fp) =>
    match verifyMessage (facts (objContent s.st sig)) km de with
    | none => .error (.signatureNotValid sig.id)
    | some (_, keys, ent) =>
      match (facts (objContent s.st sig)).md with
      | none => .error (.signatureNotValid sig.id)
      | some raw =>
        match parseMD raw with
        | .error _ => .error (.signatureNotValid sig.id)
        | .ok im =>
          match getGroupMinObjectID s g with
          | .error e => .error e
          | .ok minID =>
            if fpMismatch fpOf ent fp then
              .error .fingerprintMismatch
            else
              match (if subsetOK then .ok () else objectIDsMatch im minID ods) with
              | .error e => .error e
              | .ok () =>
                match imMatches H s im minID ods with
                | .error e => .error e
                | .ok vs => .ok { sigID := sig.id, verified := vs.map (·.id), keys := keys, entity := ent }

/-- hash type of a signature descriptor as a supported digest algorithm (`newDigest(ht, …)`) -/
def legacyAlg (ht : Int) : Option HashAlg :=
  if ht == 1 then some .sha256 else if ht == 2 then some .sha384 else if ht == 3 then some .sha512
  else none

def trimPrefix (p b : Bytes) : Bytes := if b.take p.length == p then b.drop p.length else b
def trimSuffix (p b : Bytes) : Bytes :=
  if p.length ≤ b.length ∧ b.drop (b.length - p.length) == p then b.take (b.length - p.length) else b

/-- `newLegacyDigest` -/
def newLegacyDigest (ht : Int) (plaintext : Bytes) : Except IErr Digest :=
  let b := trimSuffix [10] (trimPrefix legacyPrefix plaintext)
  match hexDecode (b.map (fun c => Char.ofNat c.toNat)) with
  | none => .error .hexDecode
  | some v =>
    match legacyAlg ht with
    | none => .error .hashUnsupported
    | some a => if v.length != a.size then .error .digestMalformed else .ok { alg := some a, value := v }

/-- the two legacy `verifySignature`s: `content` is what the digest must cover -/
def verifyLegacySig (fpOf : Nat → Bytes) (facts : Bytes → SigFacts) (s : Img) (km : KeyMaterial)
    (content : Bytes) (covered : List Nat) (errID : Nat) (sig : RawDesc) (de : Decoder) :
    Except IErr SigResult :=
  match verifyMessage (facts (objContent s.st sig)) km de with
  | none => .error (.signatureNotValid sig.id)
  | some (b, keys, ent) =>
    match sigMetadata sig with
    | .error e => .error e
    | .ok (ht, fp) =>
      if fpMismatch fpOf ent fp then
        .error .fingerprintMismatch
      else
        match newLegacyDigest ht b with
        | .error e => .error e
        | .ok d =>
          match d.matches H content with
          | .error e => .error e
          | .ok false => .error (.objectIntegrity errID)
          | .ok true => .ok { sigID := sig.id, verified := covered, keys := keys, entity := ent }

def Task.verifySig (fpOf : Nat → Bytes) (facts : Bytes → SigFacts) (s : Img) (km : KeyMaterial)
    (sig : RawDesc) (de : Decoder) : Task → Except IErr SigResult
  | .group g ods sub => verifyGroupSig H fpOf facts s km g ods sub sig de
  | .legacyGroup _ ods =>
    verifyLegacySig H fpOf facts s km (ods.flatMap (objContent s.st)) (ods.map (·.id)) 0 sig de
  | .legacyObject od => verifyLegacySig H fpOf facts s km (objContent s.st od) [od.id] od.id sig de

/-- the signatures of one task, in order; stops at the first error -/
def verifySigs (fpOf : Nat → Bytes) (facts : Bytes → SigFacts) (s : Img) (km : KeyMaterial) (t : Task) :
    List RawDesc → Except IErr (List SigResult)
  | [] => .ok []
  | sig :: rest =>
    match chooseDecoder (facts (objContent s.st sig)) km with
    | .error e => .error e
    | .ok de =>
      match t.verifySig H fpOf facts s km sig de with
      | .error e => .error e
      | .ok r =>
        match verifySigs fpOf facts s km t rest with
        | .error e => .error e
        | .ok rs => .ok (r :: rs)

def verifyTasks (fpOf : Nat → Bytes) (facts : Bytes → SigFacts) (s : Img) (km : KeyMaterial) :
    List Task → Except IErr (List SigResult)
  | [] => .ok []
  | t :: ts =>
    match t.signatures ph facts s with
    | .error e => .error e
    | .ok sigs =>
      match verifySigs H fpOf facts s km t sigs with
      | .error e => .error e
      | .ok rs =>
        match verifyTasks fpOf facts s km ts with
        | .error e => .error e
        | .ok rs' => .ok (rs ++ rs')

/-- `Verifier.Verify` (without a callback) -/
def verify (fpOf : Nat → Bytes) (facts : Bytes → SigFacts) (s : Img) (km : KeyMaterial)
    (tasks : List Task) : Except IErr (List SigResult) :=
  match getDescriptors ph s [.noGroup] with
  | .error e => .error (.sif e)
  | .ok ods =>
    if ods.any (fun d => d.dtype != dtSignature) then .error .nonGroupedObject
    else verifyTasks H ph fpOf facts s km tasks

/-- the fingerprints recorded on the signatures attached to one task ("not found" = none) -/
def taskFingerprints (facts : Bytes → SigFacts) (s : Img) (t : Task) : Except IErr (List Bytes) :=
  match t.signatures ph facts s with
  | .error (.signatureNotFound _ _) => getFingerprints []
  | .error e => .error e
  | .ok sigs => getFingerprints sigs

def allTaskFingerprints (facts : Bytes → SigFacts) (s : Img) : List Task → Except IErr (List (List Bytes))
  | [] => .ok []
  | t :: ts =>
    match taskFingerprints ph facts s t with
    | .error e => .error e
    | .ok fps =>
      match allTaskFingerprints facts s ts with
      | .error e => .error e
      | .ok r => .ok (fps :: r)

/-- union (any) or intersection (all) over the tasks, sorted and duplicate-free -/
def combineFingerprints (per : List (List Bytes)) (anyTask : Bool) : List Bytes :=
  let all := per.foldl (fun acc fps => fps.foldl insertSortedBytes acc) []
  if anyTask then all else all.filter (fun fp => per.all (fun fps => fps.contains fp))

/-- `Verifier.fingerprints(anyTask)` -/
def fingerprints (facts : Bytes → SigFacts) (s : Img) (tasks : List Task) (anyTask : Bool) :
    Except IErr (List Bytes) :=
  match allTaskFingerprints ph facts s tasks with
  | .error e => .error e
  | .ok per => .ok (combineFingerprints per anyTask)

/-! ## sign.go -/

/-- `groupSigner`: group, the descriptors to sign (sorted by ID, duplicate-free) -/
structure GroupSigner where
  g : Nat
  ods : List RawDesc
  deriving Repr, DecidableEq, Inhabited

def insertDescSorted (l : List RawDesc) (d : RawDesc) : List RawDesc :=
  if l.any (fun x => x.id == d.id) then l
  else (l.filter (fun x => x.id < d.id)) ++ [d] ++ (l.filter (fun x => x.id > d.id))

/-- `newGroupSigner` (group 0 is refused; no IDs = the whole group) -/
def newGroupSigner (s : Img) (g : Nat) (ids : Option (List Nat)) : Except IErr GroupSigner := do
  if g == 0 then throw (.sif .invalidGroupID)
  let ods ← match ids with
    | some [] => throw .noObjectsSpecified
    | some ids =>
      ids.foldlM (fun acc id => do
        let od ← liftSif (getDescriptor ph s [.id id])
        if od.group != g then throw .unexpectedGroupID
        pure (insertDescSorted acc od)) []
    | none => do
      let ods ← getGroupObjects ph s g
      pure (ods.foldl insertDescSorted [])
  pure { g := g, ods := ods }

/-- `withGroupedObjects`: split object IDs by group, groups ascending, IDs in the order given -/
def groupObjectIDs (s : Img) (ids : List Nat) : Except IErr (List (Nat × List Nat)) := do
  let pairs ← ids.mapM (fun id => do
    let od ← liftSif (getDescriptor ph s [.id id])
    pure (od.group, id))
  let gs := pairs.foldl (fun acc p => insertSorted acc p.1) []
  pure (gs.map (fun g => (g, (pairs.filter (·.1 == g)).map (·.2))))

structure SignOpts where
  groups : List Nat := []
  objectSets : List (List Nat) := []
  deriving Repr, DecidableEq, Inhabited

/-- `NewSigner`: the list of group signers -/
def newSigner (s : Img) (o : SignOpts) : Except IErr (List GroupSigner) := do
  let a ← o.groups.mapM (fun g => newGroupSigner ph s g none)
  let b ← o.objectSets.mapM (fun ids => do
    if ids.isEmpty then throw .noObjectsSpecified
    let gs ← groupObjectIDs ph s ids
    gs.mapM (fun p => newGroupSigner ph s p.1 (some p.2)))
  let signers := a ++ b.flatten
  if signers.isEmpty then do
    let gids ← getGroupIDs s
    gids.mapM (fun g => newGroupSigner ph s g none)
  else pure signers

/-- `groupSigner.sign`: the metadata that is signed, and the descriptor input of the signature
    object once the envelope `blob` (produced by the signing primitive) is known -/
def GroupSigner.metadata (s : Img) (gs : GroupSigner) (a : HashAlg) : Except IErr ImageMD :=
  match getGroupMinObjectID s gs.g with
  | .error e => .error e
  | .ok minID => getImageMetadata H s minID gs.ods a

def sigDescriptorInput (gs : GroupSigner) (hashType : Int) (fp : Bytes) (blob : Bytes) : Except Err DI :=
  newDescriptorInput dtSignature
    [.noGroup, .linkedGroupID gs.g, .signature hashType fp] blob none

end
end Sif
