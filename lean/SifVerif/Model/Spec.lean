/-
  Model/Spec.lean — the abstract reference model of property C02.

  An image is a handful of header attributes and a fixed-length list of *slots*; a slot is empty
  or holds an object: its attributes and its content.  Nothing here mentions files, offsets,
  alignment, padding, the descriptor table's encoding or the minimum-ID cache.  Operations add an
  object into the first usable slot, delete by selector, switch the primary partition, or rewrite
  an object's metadata; a rejected operation returns the image unchanged.

  `abs` maps a handle of the concrete model (Model/Image.lean) to this view.  The refinement
  theorem (Props/C02.lean, `C02_refine`) says every concrete step is the abstract step.
  Core Lean only: the driver evaluates `abs (step s op) == AImg.step (abs s) op` on every
  operation of the correspondence campaign as well.
-/
import SifVerif.Model.Image
namespace Sif

/-- a stored object as its user sees it -/
structure AObj where
  /-- attributes: type, id, group, link, times, name, metadata, size; the placement fields
      (`off`, `sizePad`) are not part of the abstract view and are kept at 0 -/
  d : RawDesc
  content : Bytes
  deriving Repr, DecidableEq, Inhabited

structure AImg where
  launch : Bytes
  arch : Bytes
  id : Bytes
  ctime : Int
  mtime : Int
  slots : List (Option AObj)
  deriving Repr, DecidableEq, Inhabited

/-- forget where an object lies -/

def absSlot (st : Store) (d : RawDesc) : Option AObj :=
  if d.used then some { d := erase d, content := objContent st d } else none

/-- the abstraction function -/
def abs (s : Img) : AImg :=
  { launch := s.h.launch, arch := s.h.arch, id := s.h.id, ctime := s.h.ctime, mtime := s.h.mtime,
    slots := s.rds.map (absSlot s.st) }

namespace AImg

def objs (a : AImg) : List AObj := a.slots.filterMap (fun o => o)

def capacity (a : AImg) : Nat := a.slots.length

def free (a : AImg) : Nat := (a.slots.filter (·.isNone)).length

def idTaken (a : AImg) (n : Nat) : Bool := a.objs.any (·.d.id == n)

/-- the slot an add uses: the first empty one whose number (slot + 1) no live object carries -/
def freeSlot (a : AImg) : Nat :=
  let rec go : List (Option AObj) → Nat → Nat
    | [], i => i
    | o :: os, i => if o.isNone && !a.idTaken (i + 1) then i else go os (i + 1)
  go a.slots 0

def isDeterministic (a : AImg) : Bool := a.id == nilUUID && a.ctime == zeroTime && a.mtime == zeroTime

/-- the time an operation records: explicit, zero when deterministic, else the clock -/
def time (a : AImg) (o : TOpt) (now : Int) : Int :=
  match o with
  | .dflt => if a.isDeterministic then zeroTime else now
  | .det => zeroTime
  | .at t => t

def isPrimary (o : AObj) : Bool := o.d.isPartitionOfType partPrimSys

def hasPrimary (a : AImg) : Bool := a.objs.any isPrimary

end AImg

/-- the error a selector answers with on an object: a zero ID or group is ill-formed whatever the
    object, a caller's own function answers as it likes -/
def Sel.bad : Sel → RawDesc → Option Err
  | .id 0, _ => some .invalidObjectID
  | .linkedID 0, _ => some .invalidObjectID
  | .groupID 0, _ => some .invalidGroupID
  | .linkedGroupID 0, _ => some .invalidGroupID
  | .pred f, d => (match f d with | .error e => some e | .ok _ => none)
  | _, _ => none

/-- the objects a selector denotes (where it does not answer with an error) -/
def Sel.sat (ph : Bytes → Option Bytes) (s : Sel) (d : RawDesc) : Bool :=
  match s with
  | .dataType dt => d.dtype == dt
  | .id i => d.id == i
  | .noGroup => d.group == 0
  | .groupID g => d.group == g
  | .linkedID i => !d.linkIsGroup && d.linkedID == i
  | .linkedGroupID g => d.linkIsGroup && d.linkedID == g
  | .partType pt => d.isPartitionOfType pt
  | .ociDigest t => (match ociText ph d with | some t' => t' == t | none => false)
  | .pred f => (match f d with | .ok b => b | .error _ => false)

namespace AImg

/-- the unique slot whose object satisfies `p` -/
def findOneSlot (p : AObj → Bool) : List (Option AObj) → Nat → Option Nat → Except Err (Option Nat)
  | [], _, acc => .ok acc
  | none :: os, i, acc => findOneSlot p os (i + 1) acc
  | some o :: os, i, acc =>
    if p o then
      match acc with
      | some _ => .error .multipleObjectsFound
      | none => findOneSlot p os (i + 1) (some i)
    else findOneSlot p os (i + 1) acc

/-- slot of the object with ID `id` (`invalid ID` for 0 — unless the image is empty, in which case
    nothing is evaluated —, `not found`, `multiple found`) -/
def slotOfID (a : AImg) (id : Nat) : Except Err Nat :=
  if id == 0 ∧ a.objs ≠ [] then .error .invalidObjectID
  else match findOneSlot (fun o => o.d.id == id) a.slots 0 none with
    | .error e => .error e
    | .ok none => .error .objectNotFound
    | .ok (some i) => .ok i

/-- does this metadata describe a primary system partition? -/
def _root_.Sif.MDIn.wantsPrimary : MDIn → Bool
  | .part _ pt _ => pt == partPrimSys
  | _ => false

/-- the image architecture after adding an object with this metadata -/
def _root_.Sif.MDIn.primaryArch (md : MDIn) (dflt : Bytes) : Bytes :=
  match md with
  | .part _ pt ar => if pt == partPrimSys then ar else dflt
  | _ => dflt

/-- the object an accepted add stores: the recorded attributes, marked in use, sized by its content -/
def _root_.Sif.AObj.fresh (d : RawDesc) (content : Bytes) : AObj :=
  { d := { d with used := true, size := content.length }, content := content }

/-- **add**: the object described by `di` goes into the first usable slot with ID slot+1 -/
def add (sha : Bytes → Bytes) (a : AImg) (di : DI) (topt : TOpt) (now : Int) : AImg × Res :=
  let t := a.time topt now
  let i := a.freeSlot
  if i ≥ a.capacity then (a, .err .insufficientCapacity)
  else if di.md.wantsPrimary && a.hasPrimary then (a, .err .primaryPartition)
  else if di.readerFails then (a, .err .reader)
  else match fillDescriptor sha di di.content t { zeroDesc with id := i + 1 } with
    | .error e => (a, .err e)
    | .ok d =>
      ({ a with slots := a.slots.set i (some (AObj.fresh d di.content)),
                arch := di.md.primaryArch a.arch, mtime := t }, .ok)

/-- **delete**: every object the selector denotes disappears; deleting the primary partition
    resets the architecture.  A selector that answers with an error on any object (the first one in
    table order counts) rejects the whole operation: nothing is deleted. -/
def del (ph : Bytes → Option Bytes) (a : AImg) (sel : Sel) (topt : TOpt) (now : Int) : AImg × Res :=
  match a.objs.findSome? (fun o => sel.bad o.d) with
  | some e => (a, .err e)
  | none =>
    if !a.objs.any (fun o => sel.sat ph o.d) then (a, .err .objectNotFound)
    else
      ({ a with
          slots := a.slots.map (fun s => match s with
            | some o => if sel.sat ph o.d then none else some o
            | none => none),
          arch := if a.objs.any (fun o => sel.sat ph o.d && isPrimary o) then archUnknown else a.arch,
          mtime := a.time topt now }, .ok)

def setPartType (o : AObj) (pt : Int) (t : Int) : AObj :=
  { o with d := { o.d with extra := pad 384 (encPartition o.d.partFS pt o.d.partArch), mtime := t } }

/-- **set primary partition**: the system partition `id` becomes the primary one, the previous
    primary partition (if any) an ordinary system partition; the header takes its architecture -/
def setPrim (a : AImg) (id : Nat) (topt : TOpt) (now : Int) : AImg × Res :=
  let t := a.time topt now
  match a.slotOfID id with
  | .error e => (a, .err e)
  | .ok i =>
    match a.slots.getD i none with
    | none => (a, .err .objectNotFound)
    | some o =>
      if o.d.dtype != dtPartition then (a, .err .notPartition)
      else if o.d.partType == partPrimSys then (a, .ok)
      else if o.d.partType != partSystem then (a, .err .notSystem)
      else match findOneSlot isPrimary a.slots 0 none with
        | .error e => (a, .err e)
        | .ok j =>
          let slots1 := match j with
            | some j => (match a.slots.getD j none with
                | some p => a.slots.set j (some (setPartType p partSystem t))
                | none => a.slots)
            | none => a.slots
          ({ a with slots := slots1.set i (some (setPartType o partPrimSys t)),
                    arch := pad 3 o.d.partArch, mtime := t }, .ok)

/-- rewrite the metadata field of the object in slot `i` -/
def setExtraAt (sha : Bytes → Bytes) (a : AImg) (i : Nat) (md : MDIn) (t : Int) : AImg × Res :=
  match a.slots.getD i none with
  | none => (a, .err .objectNotFound)
  | some o =>
    match setExtra sha [] md o.d with
    | .error e => (a, .err e)
    | .ok d => ({ a with slots := a.slots.set i (some { o with d := { d with mtime := t } }), mtime := t }, .ok)

/-- **set metadata** -/
def setMeta (sha : Bytes → Bytes) (a : AImg) (id : Nat) (md : MDIn) (topt : TOpt) (now : Int) : AImg × Res :=
  match a.slotOfID id with
  | .error e => (a, .err e)
  | .ok i => a.setExtraAt sha i md (a.time topt now)

/-- **set OCI digest** -/
def setOCI (sha : Bytes → Bytes) (a : AImg) (id : Nat) (text : Bytes) (topt : TOpt) (now : Int) : AImg × Res :=
  match a.slotOfID id with
  | .error e => (a, .err e)
  | .ok i =>
    match a.slots.getD i none with
    | none => (a, .err .objectNotFound)
    | some o =>
      if !isOCIType o.d.dtype then (a, .err .unexpectedDataType)
      else a.setExtraAt sha i (.ociText text) (a.time topt now)

/-- one operation of the reference model; reload is invisible -/
def step (sha : Bytes → Bytes) (ph : Bytes → Option Bytes) (a : AImg) (op : Op) (now : Int) : AImg × Res :=
  match op with
  | .add di t => a.add sha di t now
  | .del sel _ _ t => a.del ph sel t now
  | .setPrim id t => a.setPrim id t now
  | .setMeta id md t => a.setMeta sha id md t now
  | .setOCI id text t => a.setOCI sha id text t now
  | .reload => (a, .ok)

/-- a whole history of the reference model -/
def runOps (sha : Bytes → Bytes) (ph : Bytes → Option Bytes) (a : AImg) : List (Op × Int) → AImg
  | [] => a
  | (op, now) :: rest => runOps sha ph (a.step sha ph op now).1 rest

end AImg

/-- results the reference model does not talk about: store failures and the two integer-overflow
    refusals (object number beyond 2^32, aligned offset beyond 2^63) -/
def Res.outsideSpec : Res → Bool
  | .err .io => true
  | .err .objectIDOverflow => true
  | .err .alignmentOverflow => true
  | _ => false

/-- executable refinement check used by the driver -/
def refinesStep (sha : Bytes → Bytes) (ph : Bytes → Option Bytes) (s : Img) (op : Op) (now : Int) : Bool :=
  let c := step sha ph s op now
  let a := (abs s).step sha ph op now
  c.2.outsideSpec || (c.2 == a.2 && abs c.1 == a.1)

end Sif
