/-
  Model/Layout.lean — on-disk records of SIF v1: `header` (128 bytes), `rawDescriptor` (585
  bytes), and the type-specific "extra" records.  Mirrors pkg/sif/sif.go, descriptor.go, arch.go.
-/
import SifVerif.Model.Bytes
namespace Sif

/-! ## constants (compared with the regenerated facts in Props/FactsCheck.lean) -/
def hdrLaunchLen : Nat := 32
def hdrMagicLen : Nat := 10
def hdrVersionLen : Nat := 3
def hdrArchLen : Nat := 3
def hdrIDLen : Nat := 16
def hdrSize : Nat := 128
def descrNameLen : Nat := 128
def descrMaxPrivLen : Nat := 384
def descrEntityLen : Nat := 256
def descSize : Nat := 585
def descrGroupMask : Nat := 0xf0000000
def u32Mod : Nat := 4294967296

/-- "SIF_MAGIC\0" -/
def hdrMagic : Bytes := [83, 73, 70, 95, 77, 65, 71, 73, 67, 0]
/-- "01\0" -/
def curVersion : Bytes := [48, 49, 0]
/-- "00\0" -/
def archUnknown : Bytes := [48, 48, 0]
def nilUUID : Bytes := zeros 16

def dtDeffile : Int := 0x4001
def dtEnvVar : Int := 0x4002
def dtLabels : Int := 0x4003
def dtPartition : Int := 0x4004
def dtSignature : Int := 0x4005
def dtGenericJSON : Int := 0x4006
def dtGeneric : Int := 0x4007
def dtCryptoMessage : Int := 0x4008
def dtSBOM : Int := 0x4009
def dtOCIRootIndex : Int := 0x400A
def dtOCIBlob : Int := 0x400B

def partSystem : Int := 1
def partPrimSys : Int := 2
def partData : Int := 3
def partOverlay : Int := 4

/-- `time.Time{}.Unix()` -/
def zeroTime : Int := -62135596800
def maxI64 : Int := 9223372036854775807
def maxU32 : Int := 4294967295

/-! ## header -/
structure Hdr where
  launch : Bytes
  magic : Bytes
  version : Bytes
  arch : Bytes
  id : Bytes
  ctime : Int
  mtime : Int
  dfree : Int
  dtotal : Int
  doff : Int
  dsize : Int
  dataOff : Int
  dataSize : Int
  deriving Repr, DecidableEq, Inhabited

def encHdr (h : Hdr) : Bytes :=
  pad 32 h.launch ++ pad 10 h.magic ++ pad 3 h.version ++ pad 3 h.arch ++ pad 16 h.id ++
  encS 8 h.ctime ++ encS 8 h.mtime ++ encS 8 h.dfree ++ encS 8 h.dtotal ++
  encS 8 h.doff ++ encS 8 h.dsize ++ encS 8 h.dataOff ++ encS 8 h.dataSize

def decHdr (b : Bytes) : Hdr :=
  { launch := slice b 0 32, magic := slice b 32 10, version := slice b 42 3,
    arch := slice b 45 3, id := slice b 48 16,
    ctime := decS 8 (slice b 64 8), mtime := decS 8 (slice b 72 8),
    dfree := decS 8 (slice b 80 8), dtotal := decS 8 (slice b 88 8),
    doff := decS 8 (slice b 96 8), dsize := decS 8 (slice b 104 8),
    dataOff := decS 8 (slice b 112 8), dataSize := decS 8 (slice b 120 8) }

/-- the integrity-protected header fields, `header.GetIntegrityReader` -/
def hdrStream (h : Hdr) : Bytes :=
  pad 32 h.launch ++ pad 10 h.magic ++ pad 3 h.version ++ pad 16 h.id

/-! ## descriptor -/
structure RawDesc where
  dtype : Int
  used : Bool
  id : Nat
  gid : Nat
  link : Nat
  off : Int
  size : Int
  sizePad : Int
  ctime : Int
  mtime : Int
  uid : Int
  gidOwner : Int
  name : Bytes
  extra : Bytes
  deriving Repr, DecidableEq, Inhabited

/-- `rawDescriptor{}` -/
def zeroDesc : RawDesc :=
  { dtype := 0, used := false, id := 0, gid := 0, link := 0, off := 0, size := 0, sizePad := 0,
    ctime := 0, mtime := 0, uid := 0, gidOwner := 0, name := zeros 128, extra := zeros 384 }

def encDesc (d : RawDesc) : Bytes :=
  encS 4 d.dtype ++ encBool d.used ++ encU 4 d.id ++ encU 4 d.gid ++ encU 4 d.link ++
  encS 8 d.off ++ encS 8 d.size ++ encS 8 d.sizePad ++ encS 8 d.ctime ++ encS 8 d.mtime ++
  encS 8 d.uid ++ encS 8 d.gidOwner ++ pad 128 d.name ++ pad 384 d.extra

def decDesc (b : Bytes) : RawDesc :=
  { dtype := decS 4 (slice b 0 4), used := decBool (slice b 4 1),
    id := decU (slice b 5 4), gid := decU (slice b 9 4), link := decU (slice b 13 4),
    off := decS 8 (slice b 17 8), size := decS 8 (slice b 25 8), sizePad := decS 8 (slice b 33 8),
    ctime := decS 8 (slice b 41 8), mtime := decS 8 (slice b 49 8),
    uid := decS 8 (slice b 57 8), gidOwner := decS 8 (slice b 65 8),
    name := slice b 73 128, extra := slice b 201 384 }

def encTable (rds : List RawDesc) : Bytes := (rds.map encDesc).flatten

/-- decode `n` descriptors from a byte string holding at least `585*n` bytes -/
def decTable : Nat → Bytes → List RawDesc
  | 0, _ => []
  | n + 1, b => decDesc (b.take 585) :: decTable n (b.drop 585)

/-! ## accessors of `Descriptor` -/
-- `raw &^ mask` keeps the low 28 bits: for a uint32 this is `raw mod 2^28`
def low28 (v : Nat) : Nat := v % 268435456
def RawDesc.group (d : RawDesc) : Nat := low28 d.gid
def RawDesc.linkedID (d : RawDesc) : Nat := low28 d.link
def RawDesc.linkIsGroup (d : RawDesc) : Bool := (d.link % u32Mod) / 268435456 == 15

/-! ## extra records -/
def encPartition (fs pt : Int) (arch : Bytes) : Bytes := encS 4 fs ++ encS 4 pt ++ pad 3 arch
def RawDesc.partFS (d : RawDesc) : Int := decS 4 (slice d.extra 0 4)
def RawDesc.partType (d : RawDesc) : Int := decS 4 (slice d.extra 4 4)
def RawDesc.partArch (d : RawDesc) : Bytes := slice d.extra 8 3

/-- `rawDescriptor.isPartitionOfType` -/
def RawDesc.isPartitionOfType (d : RawDesc) (pt : Int) : Bool :=
  d.dtype == dtPartition && d.partType == pt

def encSignature (hashType : Int) (entity : Bytes) : Bytes := encS 4 hashType ++ pad 256 entity
def encCryptoMessage (ft mt : Int) : Bytes := encS 4 ft ++ encS 4 mt
def encSBOM (f : Int) : Bytes := encS 4 f

/-- `Descriptor.SignatureMetadata`'s fingerprint: the first 20 entity bytes, absent when zero -/
def RawDesc.sigHashType (d : RawDesc) : Int := decS 4 (slice d.extra 0 4)
def RawDesc.sigFingerprint (d : RawDesc) : Option Bytes :=
  let fp := slice d.extra 4 20
  if fp == zeros 20 then none else some fp

/-- the text before the first NUL (`bytes.Cut(b, {0})`), as `ociBlob.UnmarshalBinary` does -/
def cutNul (b : Bytes) : Bytes := b.takeWhile (· != 0)

/-- the arch table of arch.go: code (2 ASCII digits + NUL) ↔ Go arch name; index = CLI number -/
def archNames : List String :=
  ["386", "amd64", "arm", "arm64", "ppc64", "ppc64le", "mips", "mipsle", "mips64", "mips64le",
   "s390x", "riscv64"]

def archCode (i : Nat) : Bytes := [(48 + i / 10).toUInt8, (48 + i % 10).toUInt8, 0]

/-- `getSIFArch` -/
def getSIFArch (name : String) : Bytes :=
  match archNames.idxOf? name with
  | some i => archCode (i + 1)
  | none => archUnknown

/-- `archType.GoArch` -/
def goArch (code : Bytes) : String :=
  match (List.range 12).find? (fun i => archCode (i + 1) == code) with
  | some i => archNames.getD i "unknown"
  | none => "unknown"

end Sif
