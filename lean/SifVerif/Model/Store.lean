/-
  Model/Store.lean — the backing store.  `Backend.buf` mirrors pkg/sif/buffer.go
  (`Buffer.{ReadAt,Write,Seek,Truncate}`); `Backend.file` is a model of a POSIX file
  (`pwrite`-style write at the seek position, `ftruncate`), validated against `os.File`
  by the C14 correspondence.  Core Lean only.
-/
import SifVerif.Model.Bytes
namespace Sif

inductive Backend | buf | file
  deriving Repr, DecidableEq, Inhabited

structure Store where
  be : Backend
  buf : Bytes
  pos : Nat
  deriving Repr, DecidableEq, Inhabited

/-- the I/O calls the library issues on its `ReadWriter` -/
inductive IOCall
  | seekStart (off : Int)
  | seekEnd
  | write (p : Bytes)
  | truncate (n : Int)
  deriving Repr, DecidableEq, Inhabited

/-- overwrite/extend `buf` with `p` at `off`, zero-filling a gap -/
def writeAt (buf : Bytes) (off : Nat) (p : Bytes) : Bytes :=
  let b := buf ++ zeros (off - buf.length)
  b.take off ++ p ++ b.drop (off + p.length)

/-- positioned read of up to `n` bytes -/
def readAt (buf : Bytes) (off n : Nat) : Bytes := (buf.drop off).take n

def Store.seekStart (s : Store) (off : Int) : Option Store :=
  if off < 0 then none else some { s with pos := off.toNat }

def Store.seekEnd (s : Store) : Store := { s with pos := s.buf.length }

/-- `Write`: the buffer zero-fills up to the position even for an empty write (finding D8);
    a file is untouched by an empty write. -/
def Store.write (s : Store) (p : Bytes) : Store :=
  match s.be with
  | .buf => { s with buf := writeAt s.buf s.pos p, pos := s.pos + p.length }
  | .file => if p.isEmpty then s else { s with buf := writeAt s.buf s.pos p, pos := s.pos + p.length }

/-- `Truncate`: the buffer refuses to grow; a file grows with zeros. -/
def Store.truncate (s : Store) (n : Int) : Option Store :=
  if n < 0 then none
  else match s.be with
    | .buf => if n.toNat > s.buf.length then none else some { s with buf := s.buf.take n.toNat }
    | .file => some { s with buf := (s.buf ++ zeros (n.toNat - s.buf.length)).take n.toNat }

def Store.call (s : Store) : IOCall → Option Store
  | .seekStart off => s.seekStart off
  | .seekEnd => some s.seekEnd
  | .write p => some (s.write p)
  | .truncate n => s.truncate n

/-- apply calls in order; `none` when a call is refused (never under the library's invariants) -/
def Store.calls (s : Store) : List IOCall → Option Store
  | [] => some s
  | c :: cs => match s.call c with
    | none => none
    | some s' => s'.calls cs

/-- apply calls as far as they go: the store after the longest accepted prefix, and whether all ran -/
def Store.callsPrefix (s : Store) : List IOCall → Store × Bool
  | [] => (s, true)
  | c :: cs => match s.call c with
    | none => (s, false)
    | some s' => s'.callsPrefix cs

end Sif
