/-
  Model/Image.lean — the `FileImage` handle and the library's operations on it.
  Mirrors pkg/sif/{select,create,add,delete,set,load,descriptor_input}.go, function by function.

  Every mutator is modelled as a *plan*: a pure function from the handle state (including the
  store, for the one place the library asks the store for its length) to
    (the I/O calls the library issues, in order) × (the handle state afterwards) × (the result).
  `step` applies the calls to the store.  Core Lean only.
-/
import SifVerif.Model.Layout
import SifVerif.Model.Store
namespace Sif

/-! ## errors (classes compared by the correspondence are the exported ones) -/
inductive Err
  | noObjects | objectNotFound | multipleObjectsFound | invalidObjectID | invalidGroupID
  | caller            -- the error a caller's own selector function answers with
  | insufficientCapacity | primaryPartition | objectIDOverflow | alignmentOverflow
  | nameTooLarge | extraTooLarge | marshal | reader
  | notPartition | notSystem | unexpectedDataType
  | launchScriptLen | badUUID | capacityNotSupported | unknownArch
  | loadHeader | invalidMagic | incompatibleVersion | invalidDescriptorCount | loadDescriptors
  | invalidDescriptor
  | io
  deriving Repr, DecidableEq, Inhabited

deriving instance DecidableEq for Except

inductive Res
  | ok
  | err (e : Err)
  deriving Repr, DecidableEq, Inhabited

/-! ## the handle -/
structure Img where
  h : Hdr
  rds : List RawDesc
  minIDs : List (Nat × Nat)      -- `map[uint32]uint32`: raw group id ↦ minimum object id
  st : Store
  deriving Repr, DecidableEq, Inhabited

/-- Go map lookup: missing key ↦ 0 -/
def minLookup (m : List (Nat × Nat)) (g : Nat) : Nat :=
  match m.find? (·.1 == g) with
  | some p => p.2
  | none => 0

def minHas (m : List (Nat × Nat)) (g : Nat) : Bool := m.any (·.1 == g)

/-- `m[g] = v`: the association list is read front to back, so the newest binding wins -/
def minSet (m : List (Nat × Nat)) (g v : Nat) : List (Nat × Nat) := (g, v) :: m

/-- `if minID, ok := m[g]; !ok || id < minID { m[g] = id }` -/
def minLower (m : List (Nat × Nat)) (g id : Nat) : List (Nat × Nat) :=
  if !minHas m g || id < minLookup m g then minSet m g id else m

/-- `populateMinIDs` -/
def populateMinIDs (rds : List RawDesc) : List (Nat × Nat) :=
  rds.foldl (fun m d => if d.used then minLower m d.gid d.id else m) []

/-- `descriptorFromRaw`: the relative ID is computed in uint32 arithmetic from the cached minimum -/
def relID (minIDs : List (Nat × Nat)) (d : RawDesc) : Nat :=
  (d.id + u32Mod - minLookup minIDs d.gid % u32Mod) % u32Mod

/-- `Descriptor.GetIntegrityReader` -/
def descStream (minIDs : List (Nat × Nat)) (d : RawDesc) : Bytes :=
  encS 4 d.dtype ++ encBool d.used ++ encU 4 (relID minIDs d) ++ encU 4 d.link ++
  encS 8 d.size ++ encS 8 d.ctime ++ encS 8 d.uid ++ encS 8 d.gidOwner ++
  pad 128 d.name ++ pad 384 d.extra

/-- the live (in-use) descriptors in table order -/
def live (rds : List RawDesc) : List RawDesc := rds.filter (·.used)

def Img.isDeterministic (s : Img) : Bool :=
  s.h.id == nilUUID && s.h.ctime == zeroTime && s.h.mtime == zeroTime

/-! ## selectors (select.go) -/
/-- what a descriptor says about its object, apart from where the object lies in the file -/
def erase (d : RawDesc) : RawDesc := { d with off := 0, sizePad := 0 }

inductive Sel
  | dataType (dt : Int)
  | id (id : Nat)
  | noGroup
  | groupID (g : Nat)
  | linkedID (id : Nat)
  | linkedGroupID (g : Nat)
  | partType (pt : Int)
  | ociDigest (text : Bytes)       -- `digest.String()`
  /-- a caller's own `DescriptorSelectorFunc`: any function of the descriptor's attributes, which
      may also answer with an error of its own (modelled: predicates that do not look at the
      object's file offset) -/
  | pred (f : RawDesc → Except Err Bool)
  deriving Inhabited

instance : Repr Sel where
  reprPrec s _ := match s with
    | .dataType dt => "Sel.dataType " ++ repr dt
    | .id i => "Sel.id " ++ repr i
    | .noGroup => "Sel.noGroup"
    | .groupID g => "Sel.groupID " ++ repr g
    | .linkedID i => "Sel.linkedID " ++ repr i
    | .linkedGroupID g => "Sel.linkedGroupID " ++ repr g
    | .partType pt => "Sel.partType " ++ repr pt
    | .ociDigest t => "Sel.ociDigest " ++ repr t
    | .pred _ => "Sel.pred _"

def isOCIType (dt : Int) : Bool := dt == dtOCIRootIndex || dt == dtOCIBlob

/-- `Descriptor.OCIBlobDigest().String()` when it succeeds.  `v1.Hash.UnmarshalText` is a
    parameter of the model (third party): `parseHash text = some canonicalText`. -/
def ociText (parseHash : Bytes → Option Bytes) (d : RawDesc) : Option Bytes :=
  if isOCIType d.dtype then parseHash (cutNul d.extra) else none

/-- one selector on one descriptor: `(matched, error)` -/
def Sel.eval (parseHash : Bytes → Option Bytes) (s : Sel) (d : RawDesc) : Except Err Bool :=
  match s with
  | .dataType dt => .ok (d.dtype == dt)
  | .id i => if i == 0 then .error .invalidObjectID else .ok (d.id == i)
  | .noGroup => .ok (d.group == 0)
  | .groupID g => if g == 0 then .error .invalidGroupID else .ok (d.group == g)
  | .linkedID i => if i == 0 then .error .invalidObjectID
                   else .ok (!d.linkIsGroup && d.linkedID == i)
  | .linkedGroupID g => if g == 0 then .error .invalidGroupID
                        else .ok (d.linkIsGroup && d.linkedID == g)
  | .partType pt => .ok (d.isPartitionOfType pt)
  | .ociDigest t => .ok (match ociText parseHash d with
                         | some t' => t' == t
                         | none => false)
  | .pred f => f (erase d)

/-- `multiSelectorFunc`: left to right, stops at the first `false` or error -/
def multiSel (parseHash : Bytes → Option Bytes) : List Sel → RawDesc → Except Err Bool
  | [], _ => .ok true
  | s :: ss, d => match s.eval parseHash d with
    | .error e => .error e
    | .ok false => .ok false
    | .ok true => multiSel parseHash ss d

/-- `withDescriptors` collecting matches: table order, in-use only, first selector error aborts -/
def selectDescs (parseHash : Bytes → Option Bytes) (sels : List Sel) :
    List RawDesc → Except Err (List RawDesc)
  | [] => .ok []
  | d :: ds =>
    if !d.used then selectDescs parseHash sels ds
    else match multiSel parseHash sels d with
      | .error e => .error e
      | .ok m => match selectDescs parseHash sels ds with
        | .error e => .error e
        | .ok r => .ok (if m then d :: r else r)

/-- `FileImage.isEmpty`: no descriptor of the table is in use (the table is authoritative; the
    header's free count can be stale after an interrupted modification) -/
def Img.isEmpty (s : Img) : Bool := !s.rds.any (·.used)

/-- `GetDescriptors` -/
def getDescriptors (parseHash : Bytes → Option Bytes) (s : Img) (sels : List Sel) :
    Except Err (List RawDesc) :=
  if s.isEmpty then .error .noObjects else selectDescs parseHash sels s.rds

/-- `getDescriptor`: index of the unique in-use match.  The Go loop returns
    `ErrMultipleObjectsFound` as soon as a second match is seen, i.e. before a selector error that
    a later descriptor would raise. -/
def findOne (parseHash : Bytes → Option Bytes) (sels : List Sel) :
    List RawDesc → Nat → Option Nat → Except Err (Option Nat)
  | [], _, acc => .ok acc
  | d :: ds, i, acc =>
    if !d.used then findOne parseHash sels ds (i + 1) acc
    else match multiSel parseHash sels d with
      | .error e => .error e
      | .ok false => findOne parseHash sels ds (i + 1) acc
      | .ok true => match acc with
        | some _ => .error .multipleObjectsFound
        | none => findOne parseHash sels ds (i + 1) (some i)

def getDescriptorIdx (parseHash : Bytes → Option Bytes) (rds : List RawDesc) (sels : List Sel) :
    Except Err Nat :=
  match findOne parseHash sels rds 0 none with
  | .error e => .error e
  | .ok none => .error .objectNotFound
  | .ok (some i) => .ok i

/-- `GetDescriptor` -/
def getDescriptor (parseHash : Bytes → Option Bytes) (s : Img) (sels : List Sel) :
    Except Err RawDesc :=
  if s.isEmpty then .error .noObjects
  else match getDescriptorIdx parseHash s.rds sels with
    | .error e => .error e
    | .ok i => .ok (s.rds.getD i zeroDesc)

/-! ## descriptor input (descriptor_input.go) -/
inductive MDIn
  | nil
  | raw (b : Bytes)                      -- any marshaler yielding `b`
  | part (fs pt : Int) (arch : Bytes)    -- the `partition` value (subject to the primary check)
  | ociAuto                              -- `*ociBlob` accumulating SHA-256 of the copied bytes
  | ociText (t : Bytes)                  -- `*ociBlob` with an explicit digest: `Algorithm:Hex`
  | fail                                 -- marshaler returning an error
  deriving Repr, DecidableEq, Inhabited

structure DI where
  dt : Int
  groupID : Nat := 1
  linkID : Nat := 0
  alignment : Int := 0
  name : Bytes := []
  md : MDIn := .nil
  objTime : Int := zeroTime
  content : Bytes := []
  failAt : Option Nat := none            -- the source reader fails after this many bytes
  deriving Repr, DecidableEq, Inhabited

inductive DIOpt
  | noGroup
  | groupID (g : Nat)
  | linkedID (i : Nat)
  | linkedGroupID (g : Nat)
  | alignment (n : Int)
  | name (s : Bytes)
  | time (t : Int)
  | metadata (md : MDIn)
  | cryptoMessage (ft mt : Int)
  | partition (fs pt : Int) (arch : String)
  | signature (hashType : Int) (fp : Bytes)    -- `sifHashType ht`, fingerprint bytes
  | sbom (f : Int)
  deriving Repr, DecidableEq, Inhabited

def DIOpt.apply (t : Int) (o : DIOpt) (di : DI) : Except Err DI :=
  match o with
  | .noGroup => .ok { di with groupID := 0 }
  | .groupID g => if g == 0 then .error .invalidGroupID else .ok { di with groupID := g }
  | .linkedID i => if i == 0 then .error .invalidObjectID else .ok { di with linkID := i }
  | .linkedGroupID g =>
      if g == 0 then .error .invalidGroupID
      else .ok { di with linkID := (g % u32Mod) % 268435456 + descrGroupMask }
  | .alignment n => .ok { di with alignment := n }
  | .name s => .ok { di with name := s }
  | .time tm => .ok { di with objTime := tm }
  | .metadata md => .ok { di with md := md }
  | .cryptoMessage ft mt =>
      if t != dtCryptoMessage then .error .unexpectedDataType
      else .ok { di with md := .raw (encCryptoMessage ft mt) }
  | .partition fs pt arch =>
      if t != dtPartition then .error .unexpectedDataType
      else
        let a := getSIFArch arch
        if a == archUnknown then .error .unknownArch else .ok { di with md := .part fs pt a }
  | .signature ht fp =>
      if t != dtSignature then .error .unexpectedDataType
      else .ok { di with md := .raw (encSignature ht fp) }
  | .sbom f =>
      if t != dtSBOM then .error .unexpectedDataType
      else .ok { di with md := .raw (encSBOM f) }

/-- `NewDescriptorInput` (content and reader failure are supplied separately) -/
def newDescriptorInput (t : Int) (opts : List DIOpt) (content : Bytes) (failAt : Option Nat) :
    Except Err DI :=
  let base : DI :=
    { dt := t, groupID := 1, alignment := if t == dtPartition then 4096 else 0,
      md := if isOCIType t then .ociAuto else .nil, content := content, failAt := failAt }
  opts.foldlM (fun di o => o.apply t di) base

/-- what the reader delivers before it ends or fails -/
def DI.delivered (di : DI) : Bytes :=
  match di.failAt with
  | none => di.content
  | some n => di.content.take n

def DI.readerFails (di : DI) : Bool := di.failAt.isSome

/-- `md.MarshalBinary()`; `sha` is SHA-256 as lower-case hex text (a parameter of the model) -/
def MDIn.marshal (sha : Bytes → Bytes) (copied : Bytes) : MDIn → Except Err (Option Bytes)
  | .nil => .ok none
  | .raw b => .ok (some b)
  | .part fs pt arch => .ok (some (encPartition fs pt arch))
  | .ociAuto => .ok (some ("sha256:".toUTF8.toList ++ sha copied))
  | .ociText t => .ok (some t)
  | .fail => .error .marshal

/-- `setExtra` -/
def setExtra (sha : Bytes → Bytes) (copied : Bytes) (md : MDIn) (d : RawDesc) :
    Except Err RawDesc :=
  match md.marshal sha copied with
  | .error e => .error e
  | .ok none => .ok d
  | .ok (some b) =>
    if b.length > descrMaxPrivLen then .error .extraTooLarge else .ok { d with extra := pad 384 b }

/-- `fillDescriptor` -/
def fillDescriptor (sha : Bytes → Bytes) (di : DI) (copied : Bytes) (t : Int) (d : RawDesc) :
    Except Err RawDesc :=
  let t' := if di.objTime != zeroTime then di.objTime else t
  let d1 := { d with dtype := di.dt, gid := (di.groupID % u32Mod) ||| descrGroupMask,
                     link := di.linkID, ctime := t', mtime := t', uid := 0, gidOwner := 0 }
  if di.name.length > descrNameLen then .error .nameTooLarge
  else setExtra sha copied di.md { d1 with name := pad 128 di.name }

/-! ## create.go -/

/-- `nextAligned`, with Go's truncated `%` and the overflow guard -/
def nextAligned (offset : Int) (alignment : Int) : Except Err Int :=
  if alignment ≤ 0 || offset.tmod alignment == 0 then .ok offset
  else
    let a := alignment - offset.tmod alignment
    if maxI64 - offset < a then .error .alignmentOverflow else .ok (offset + a)

/-- `calculatedDataSize` -/
def calculatedDataSize (h : Hdr) (rds : List RawDesc) : Int :=
  (live rds).foldl (fun e d => if e < d.off + d.size then d.off + d.size else e) h.dataOff
    - h.dataOff

/-- `writeDataObjectAt`: the calls issued, and the filled descriptor or the rejection -/
def writeDataObjectAt (sha : Bytes → Bytes) (offUnaligned : Int) (di : DI) (t : Int)
    (d : RawDesc) : List IOCall × Except Err RawDesc :=
  match nextAligned offUnaligned di.alignment with
  | .error e => ([], .error e)
  | .ok off =>
    let copied := di.delivered
    let calls := [IOCall.seekStart off] ++ (if copied.isEmpty then [] else [IOCall.write copied])
    if di.readerFails then (calls, .error .reader)
    else match fillDescriptor sha di copied t d with
      | .error e => (calls, .error e)
      | .ok d' =>
        (calls, .ok { d' with used := true, off := off, size := copied.length,
                              sizePad := off - offUnaligned + copied.length })

def idInUse (rds : List RawDesc) (id : Nat) : Bool := rds.any (fun d => d.used && d.id == id)

/-- the primary-partition check of `writeDataObject`: `error` = a primary partition exists already,
    `ok (some arch)` = this object becomes the primary partition, `ok none` = not concerned -/
def primaryCheck (parseHash : Bytes → Option Bytes) (s : Img) (md : MDIn) :
    Except Err (Option Bytes) :=
  match md with
  | .part _ pt arch =>
    if pt == partPrimSys then
      match getDescriptors parseHash s [.partType partPrimSys] with
      | .ok (_ :: _) => .error .primaryPartition
      | _ => .ok (some arch)
    else .ok none
  | _ => .ok none

/-- the handle after `writeDataObject` committed descriptor `d` into slot `i` -/
def commitObject (s : Img) (i : Nat) (d : RawDesc) (arch : Option Bytes) (dataSize : Int) : Img :=
  { s with rds := s.rds.set i d,
           minIDs := minLower s.minIDs d.gid d.id,
           h := { s.h with arch := arch.getD s.h.arch, dfree := s.h.dfree - 1,
                           dataSize := dataSize + d.sizePad } }

/-- `writeDataObject(i, di, t)` on the in-memory part of the handle -/
def writeDataObject (sha : Bytes → Bytes) (parseHash : Bytes → Option Bytes)
    (s : Img) (i : Nat) (di : DI) (t : Int) : List IOCall × Img × Res :=
  if i ≥ s.rds.length then ([], s, .err .insufficientCapacity)
  else if (i : Int) ≥ maxU32 then ([], s, .err .objectIDOverflow)
  else
    match primaryCheck parseHash s di.md with
    | .error e => ([], s, .err e)
    | .ok arch =>
      let dataSize := calculatedDataSize s.h s.rds
      match writeDataObjectAt sha (s.h.dataOff + dataSize) di t { zeroDesc with id := i + 1 } with
      | (calls, .error e) => (calls, s, .err e)
      | (calls, .ok d) => (calls, commitObject s i d arch dataSize, .ok)

def writeDescriptorsCalls (s : Img) : List IOCall :=
  [.seekStart s.h.doff, .write (encTable s.rds)]

def writeHeaderCalls (s : Img) : List IOCall :=
  [.seekStart 0, .write (encHdr s.h)]

/-- the tail of every accepted mutator: `writeDescriptors()` then `writeHeader()`.  (In the Go code
    the header's time/arch fields are assigned between the two calls; the table bytes do not depend
    on the header, so both are taken from the final state.) -/
def flushCalls (s : Img) : List IOCall := writeDescriptorsCalls s ++ writeHeaderCalls s

/-! ### time options -/
inductive TOpt
  | dflt
  | det
  | at (t : Int)
  deriving Repr, DecidableEq, Inhabited

/-- the time an operation uses: default = now unless the image is deterministic -/
def resolveTime (s : Img) (o : TOpt) (now : Int) : Int :=
  match o with
  | .dflt => if s.isDeterministic then zeroTime else now
  | .det => zeroTime
  | .at t => t

/-! ### creation -/
inductive CreateOpt
  | launchScript (s : Bytes)
  | deterministic
  | withID (id : Option Bytes)           -- `none`: the text does not parse as a UUID
  | capacity (n : Int)
  | descriptors (dis : List DI)
  | withTime (t : Int)
  deriving Repr, Inhabited

structure CreateOpts where
  launch : Bytes
  id : Bytes
  doff : Int := 4096
  capacity : Int := 48
  dis : List DI := []
  t : Int
  deriving Repr, Inhabited

def CreateOpt.apply (o : CreateOpt) (co : CreateOpts) : Except Err CreateOpts :=
  match o with
  | .launchScript s => if s.length ≥ hdrLaunchLen then .error .launchScriptLen
                       else .ok { co with launch := pad 32 s }
  | .deterministic => .ok { co with id := nilUUID, t := zeroTime }
  | .withID none => .error .badUUID
  | .withID (some id) => .ok { co with id := id }
  | .capacity n => .ok { co with capacity := n }
  | .descriptors dis => .ok { co with dis := co.dis ++ dis }
  | .withTime t => .ok { co with t := t }

def emptyStore (be : Backend) : Store := { be := be, buf := [], pos := 0 }

/-- the objects of `createContainer`'s loop: `writeDataObject(i, di, co.t)` for i = 0,1,… -/
def createObjects (sha : Bytes → Bytes) (parseHash : Bytes → Option Bytes) :
    List DI → Nat → Int → Img → List IOCall → List IOCall × Img × Res
  | [], _, _, s, acc => (acc, s, .ok)
  | di :: dis, i, t, s, acc =>
    match writeDataObject sha parseHash s i di t with
    | (calls, s', .ok) => createObjects sha parseHash dis (i + 1) t s' (acc ++ calls)
    | (calls, s', r) => (acc ++ calls, s', r)

/-- `createContainer` (the capacity must be non-negative: a negative one panics in `make`) -/
def createContainerPlan (sha : Bytes → Bytes) (parseHash : Bytes → Option Bytes)
    (be : Backend) (co : CreateOpts) : List IOCall × Img × Res :=
  let s0 : Img := { h := default, rds := [], minIDs := [], st := emptyStore be }
  if co.capacity ≥ maxU32 then ([], s0, .err .capacityNotSupported)
  else
    let cap := co.capacity.toNat
    let rdsSize : Int := 585 * cap
    let h : Hdr :=
      { launch := pad 32 co.launch, magic := hdrMagic, version := curVersion, arch := archUnknown,
        id := co.id, ctime := co.t, mtime := co.t, dfree := co.capacity, dtotal := co.capacity,
        doff := co.doff, dsize := rdsSize, dataOff := co.doff + rdsSize, dataSize := 0 }
    let s1 : Img := { h := h, rds := List.replicate cap zeroDesc, minIDs := [], st := emptyStore be }
    match createObjects sha parseHash co.dis 0 co.t s1 [] with
    | (calls, s2, .ok) => (calls ++ writeDescriptorsCalls s2 ++ writeHeaderCalls s2, s2, .ok)
    | (calls, s2, r) => (calls, s2, r)

/-- run a plan against the store: the state after, and an `io` error if the store refuses a call -/
def runPlan (p : List IOCall × Img × Res) (st : Store) : Img × Res :=
  match st.callsPrefix p.1 with
  | (st', true) => ({ p.2.1 with st := st' }, p.2.2)
  | (st', false) => ({ p.2.1 with st := st' }, .err .io)

/-- `CreateContainer(rw, opts...)`; `now` and `rnd` stand for `time.Now()` and `uuid.NewRandom()` -/
def createContainer (sha : Bytes → Bytes) (parseHash : Bytes → Option Bytes)
    (be : Backend) (opts : List CreateOpt) (now : Int) (rnd : Bytes) : Img × Res :=
  let co0 : CreateOpts := { launch := zeros 32, id := rnd, t := now }
  match opts.foldlM (fun co o => o.apply co) co0 with
  | .error e => ({ h := default, rds := [], minIDs := [], st := emptyStore be }, .err e)
  | .ok co => runPlan (createContainerPlan sha parseHash be co) (emptyStore be)

/-! ## add.go -/

/-- the slot `AddObject` picks: first unused descriptor whose derived ID is not in use -/
def findFreeSlot (rds : List RawDesc) : Nat :=
  let rec go : List RawDesc → Nat → Nat
    | [], i => i
    | d :: ds, i => if !d.used && !idInUse rds (i + 1) then i else go ds (i + 1)
  go rds 0

def addObjectPlan (sha : Bytes → Bytes) (parseHash : Bytes → Option Bytes)
    (s : Img) (di : DI) (topt : TOpt) (now : Int) : List IOCall × Img × Res :=
  let t := resolveTime s topt now
  match writeDataObject sha parseHash s (findFreeSlot s.rds) di t with
  | (calls, s1, .ok) =>
    let s2 := { s1 with h := { s1.h with mtime := t } }
    (calls ++ flushCalls s2, s2, .ok)
  | (calls, s1, r) => (calls, s1, r)

/-! ## delete.go -/

/-- the per-descriptor loop of `DeleteObjects`; returns (calls, header, rds, selected) or the
    selector error (raised before the descriptor at hand is touched) -/
def deleteLoop (parseHash : Bytes → Option Bytes) (sel : Sel) (zero : Bool) :
    List RawDesc → List RawDesc → Hdr → List IOCall → Bool →
    Except Err (List IOCall × Hdr × List RawDesc × Bool)
  | [], done, h, calls, selected => .ok (calls, h, done, selected)
  | d :: ds, done, h, calls, selected =>
    if !d.used then deleteLoop parseHash sel zero ds (done ++ [d]) h calls selected
    else match sel.eval parseHash d with
      | .error e => .error e
      | .ok false => deleteLoop parseHash sel zero ds (done ++ [d]) h calls selected
      | .ok true =>
        let zc := if zero then
                    [IOCall.seekStart d.off] ++
                      (if d.size ≤ 0 then [] else [IOCall.write (zeros d.size.toNat)])
                  else []
        let h' := { h with dfree := h.dfree + 1,
                           arch := if d.isPartitionOfType partPrimSys then archUnknown else h.arch }
        deleteLoop parseHash sel zero ds (done ++ [zeroDesc]) h' (calls ++ zc) true

/-- `resize(n)`: ask the store for its length, then truncate or extend with zeros -/
def resizeCalls (stLen : Nat) (n : Int) : List IOCall :=
  [IOCall.seekEnd] ++
    (if n ≤ stLen then [IOCall.truncate n] else [IOCall.write (zeros (n - stLen).toNat)])

/-- the handle after the loop of `DeleteObjects` selected something -/
def deleteFinish (s : Img) (h1 : Hdr) (rds1 : List RawDesc) (compact : Bool) (t : Int) : Img :=
  let h2 := { h1 with mtime := t }
  let h3 := if compact then { h2 with dataSize := calculatedDataSize h2 rds1 } else h2
  { s with h := h3, rds := rds1, minIDs := populateMinIDs rds1 }

/-- the store's length after the zeroing calls (what `Seek(0, io.SeekEnd)` in `resize` returns) -/
def lenAfter (st : Store) (calls : List IOCall) : Nat := (st.callsPrefix calls).1.buf.length

def deleteObjectsPlan (parseHash : Bytes → Option Bytes)
    (s : Img) (sel : Sel) (zero compact : Bool) (topt : TOpt) (now : Int) :
    List IOCall × Img × Res :=
  match deleteLoop parseHash sel zero s.rds [] s.h [] false with
  | .error e => ([], s, .err e)
  | .ok (calls, h1, rds1, selected) =>
    if !selected then (calls, s, .err .objectNotFound)
    else
      let s' := deleteFinish s h1 rds1 compact (resolveTime s topt now)
      let cc := if compact then resizeCalls (lenAfter s.st calls) (s'.h.dataOff + s'.h.dataSize)
                else []
      (calls ++ cc ++ flushCalls s', s', .ok)

/-! ## set.go -/

/-- demote the current primary system partition, if any, to a plain system partition -/
def demotePrimary (parseHash : Bytes → Option Bytes) (rds : List RawDesc) (t : Int) :
    Except Err (List RawDesc) :=
  match getDescriptorIdx parseHash rds [.partType partPrimSys] with
  | .ok j =>
    let d := rds.getD j zeroDesc
    .ok (rds.set j { d with extra := pad 384 (encPartition d.partFS partSystem d.partArch),
                            mtime := t })
  | .error .objectNotFound => .ok rds
  | .error e => .error e

/-- the handle after `SetPrimPart` promoted slot `i` (given the table `rds1` after demotion) -/
def setPrimResult (s : Img) (i : Nat) (rds1 : List RawDesc) (t : Int) : Img :=
  let descr := s.rds.getD i zeroDesc
  let descr1 := rds1.getD i zeroDesc
  { s with rds := rds1.set i
             { descr1 with extra := pad 384 (encPartition descr.partFS partPrimSys descr.partArch),
                           mtime := t },
           h := { s.h with arch := pad 3 descr.partArch, mtime := t } }

def setPrimPartPlan (parseHash : Bytes → Option Bytes)
    (s : Img) (id : Nat) (topt : TOpt) (now : Int) : List IOCall × Img × Res :=
  let t := resolveTime s topt now
  match getDescriptorIdx parseHash s.rds [.id id] with
  | .error e => ([], s, .err e)
  | .ok i =>
    let descr := s.rds.getD i zeroDesc
    if descr.dtype != dtPartition then ([], s, .err .notPartition)
    else if descr.partType == partPrimSys then ([], s, .ok)
    else if descr.partType != partSystem then ([], s, .err .notSystem)
    else
      match demotePrimary parseHash s.rds t with
      | .error e => ([], s, .err e)
      | .ok rds1 => (flushCalls (setPrimResult s i rds1 t), setPrimResult s i rds1 t, .ok)

/-- the common tail of `SetMetadata` / `SetOCIBlobDigest` -/
def setExtraPlan (sha : Bytes → Bytes) (s : Img) (i : Nat) (md : MDIn) (t : Int) :
    List IOCall × Img × Res :=
  match setExtra sha [] md (s.rds.getD i zeroDesc) with
  | .error e => ([], s, .err e)
  | .ok d =>
    let s2 := { s with rds := s.rds.set i { d with mtime := t }, h := { s.h with mtime := t } }
    (flushCalls s2, s2, .ok)

def setMetadataPlan (sha : Bytes → Bytes) (parseHash : Bytes → Option Bytes)
    (s : Img) (id : Nat) (md : MDIn) (topt : TOpt) (now : Int) : List IOCall × Img × Res :=
  match getDescriptorIdx parseHash s.rds [.id id] with
  | .error e => ([], s, .err e)
  | .ok i => setExtraPlan sha s i md (resolveTime s topt now)

def setOCIBlobDigestPlan (sha : Bytes → Bytes) (parseHash : Bytes → Option Bytes)
    (s : Img) (id : Nat) (text : Bytes) (topt : TOpt) (now : Int) : List IOCall × Img × Res :=
  match getDescriptorIdx parseHash s.rds [.id id] with
  | .error e => ([], s, .err e)
  | .ok i =>
    if !isOCIType (s.rds.getD i zeroDesc).dtype then ([], s, .err .unexpectedDataType)
    else setExtraPlan sha s i (.ociText text) (resolveTime s topt now)

/-! ## load.go -/

/-- `io.NewSectionReader(r, off, n)` + `io.ReadFull` of `want` bytes at section position `cur`:
    `none` on a short read or a refused offset. -/
def wrap64 (x : Int) : Int := (x + 9223372036854775808) % 18446744073709551616 - 9223372036854775808

/-- the limit `io.NewSectionReader(r, off, n)` computes, including its overflow rule: when
    `off + n` does not fit (in particular for negative `n`, where `maxint64 - n` wraps) the
    section extends to `1<<63 - 1` -/
def sectionLimit (off n : Int) : Int := if off ≤ wrap64 (maxI64 - n) then off + n else maxI64

def sectionRead (buf : Bytes) (off n : Int) (cur : Nat) (want : Nat) : Option Bytes :=
  if off < 0 then none                      -- ReadAt refuses a negative offset
  else
    let limit := sectionLimit off n
    let start : Int := off + cur
    if start + want > limit then none
    else
      let b := readAt buf start.toNat want
      if b.length < want then none else some b

def readDescriptors (buf : Bytes) (doff dsize : Int) : Nat → Nat → List RawDesc →
    Except Err (List RawDesc)
  | 0, _, acc => .ok acc
  | n + 1, i, acc =>
    match sectionRead buf doff dsize (585 * i) 585 with
    | none => .error .loadDescriptors
    | some b =>
      let rd := decDesc b
      if rd.used && (rd.off < 0 || rd.size < 0) then .error .invalidDescriptor
      else readDescriptors buf doff dsize n (i + 1) (acc ++ [rd])

/-- `loadContainer` -/
def loadContainer (st : Store) : Except Err Img :=
  match sectionRead st.buf 0 128 0 128 with
  | none => .error .loadHeader
  | some hb =>
    let h := decHdr hb
    if h.magic != hdrMagic then .error .invalidMagic
    else if h.version != curVersion then .error .incompatibleVersion
    else if h.dtotal < 0 then .error .invalidDescriptorCount
    else if h.doff < 0 then .error .loadDescriptors   -- a negative table offset is refused (fix D12)
    else match readDescriptors st.buf h.doff h.dsize h.dtotal.toNat 0 [] with
      | .error e => .error e
      | .ok rds => .ok { h := h, rds := rds, minIDs := populateMinIDs rds, st := st }

/-! ## operations as one step function -/
inductive Op
  | add (di : DI) (t : TOpt)
  | del (sel : Sel) (zero compact : Bool) (t : TOpt)
  | setPrim (id : Nat) (t : TOpt)
  | setMeta (id : Nat) (md : MDIn) (t : TOpt)
  | setOCI (id : Nat) (text : Bytes) (t : TOpt)
  | reload
  deriving Repr, Inhabited

def plan (sha : Bytes → Bytes) (parseHash : Bytes → Option Bytes) (s : Img) (op : Op)
    (now : Int) : List IOCall × Img × Res :=
  match op with
  | .add di t => addObjectPlan sha parseHash s di t now
  | .del sel z c t => deleteObjectsPlan parseHash s sel z c t now
  | .setPrim id t => setPrimPartPlan parseHash s id t now
  | .setMeta id md t => setMetadataPlan sha parseHash s id md t now
  | .setOCI id text t => setOCIBlobDigestPlan sha parseHash s id text t now
  | .reload => ([], s, .ok)

def step (sha : Bytes → Bytes) (parseHash : Bytes → Option Bytes) (s : Img) (op : Op)
    (now : Int) : Img × Res :=
  match op with
  | .reload =>
    match loadContainer s.st with
    | .ok s' => (s', .ok)
    | .error e => (s, .err e)
  | _ => runPlan (plan sha parseHash s op now) s.st

/-! ## the public view of a handle -/
structure ObjView where
  raw : RawDesc
  relID : Nat
  content : Bytes
  stream : Bytes
  deriving Repr, DecidableEq

/-- `io.SectionReader` over the object: what `GetReader` yields (stops at the end of the store) -/
def objContent (st : Store) (d : RawDesc) : Bytes :=
  if d.off < 0 || d.size < 0 then [] else readAt st.buf d.off.toNat d.size.toNat

def objView (s : Img) (d : RawDesc) : ObjView :=
  { raw := d, relID := relID s.minIDs d, content := objContent s.st d,
    stream := descStream s.minIDs d }

structure View where
  h : Hdr
  hstream : Bytes
  objs : List ObjView
  deriving Repr, DecidableEq

def view (s : Img) : View :=
  { h := s.h, hstream := hdrStream s.h, objs := (live s.rds).map (objView s) }

end Sif
