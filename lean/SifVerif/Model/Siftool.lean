/-
  Model/Siftool.lean — the siftool front end (pkg/siftool, internal/app/siftool): how command
  lines become library calls.  Everything below the translation is the library model of
  Model/Image.lean; every command loads the file afresh (`withFileImage`) and unloads it.
-/
import SifVerif.Model.Image
namespace Sif.Cli
open Sif

/-- the flags of `siftool add` as pflag leaves them: values (defaults when absent) and, for the
    three flags the code tests with `fs.Changed`, whether they were given at all -/
structure AddFlags where
  datatype : Int := 0
  parttype : Int := 0
  partfs : Int := 0
  partarch : Int := 0
  signhash : Int := 0
  signentity : Bytes := []
  sbomformat : Bytes := []
  groupid : Nat := 0
  link : Option Nat := none
  alignment : Option Int := none
  filename : Option Bytes := none
  deriving Repr, Inhabited

inductive CliErr
  | dataTypeRequired | partitionArgs | fingerprintDecode | hashType | fingerprintLength
  | sbomArgs | sbomFormat | badID | openObject | load (e : Err) | lib (e : Err) | shortObject
  deriving Repr, DecidableEq, Inhabited

/-- `getDataType`: 1..11 ↦ `DataDeffile`..`DataOCIBlob` -/
def cliDataType (n : Int) : Option Int := if 1 ≤ n ∧ n ≤ 11 then some (0x4000 + n) else none

/-- `getArch`: 1..12 ↦ Go architecture names, anything else "unknown" -/
def cliArch (n : Int) : String := if 1 ≤ n ∧ n ≤ 12 then archNames.getD (n.toNat - 1) "unknown" else "unknown"

/-- `getHashType` followed by the library's `sifHashType`: 1..5 ↦ crypto.Hash ↦ 1..5 -/
def cliHash (n : Int) : Option Int := if 1 ≤ n ∧ n ≤ 5 then some n else none

def sbomNames : List (String × Int) :=
  [("cyclonedx-json", 1), ("cyclonedx-xml", 2), ("github", 3), ("github-json", 3), ("spdx-json", 4),
   ("spdx-rdf", 5), ("spdx-tag-value", 6), ("spdx-yaml", 7), ("syft-json", 8)]

/-- `getSBOMFormat` -/
def cliSBOM (t : Bytes) : Option Int :=
  (sbomNames.find? (fun p => p.1.toUTF8.toList == t)).map (·.2)

def hexVal (c : UInt8) : Option Nat :=
  if 48 ≤ c ∧ c ≤ 57 then some (c.toNat - 48)
  else if 97 ≤ c ∧ c ≤ 102 then some (c.toNat - 87)
  else if 65 ≤ c ∧ c ≤ 70 then some (c.toNat - 55)
  else none

/-- `hex.DecodeString` -/
def hexDecode : Bytes → Option Bytes
  | [] => some []
  | [_] => none
  | a :: b :: r =>
    match hexVal a, hexVal b, hexDecode r with
    | some x, some y, some rest => some ((x * 16 + y).toUInt8 :: rest)
    | _, _, _ => none

/-- `getOptions` -/
def cliOptions (dt : Int) (fl : AddFlags) : Except CliErr (List DIOpt) :=
  let o1 : List DIOpt := [if fl.groupid == 0 then .noGroup else .groupID fl.groupid]
  let o2 := match fl.link with | some l => [DIOpt.linkedID l] | none => []
  let o3 := match fl.alignment with | some a => [DIOpt.alignment a] | none => []
  let o4 := match fl.filename with | some n => [DIOpt.name n] | none => []
  let base := o1 ++ o2 ++ o3 ++ o4
  if dt == dtPartition then
    if fl.parttype == 0 || fl.partfs == 0 || fl.partarch == 0 then .error .partitionArgs
    else .ok (base ++ [.partition fl.partfs fl.parttype (cliArch fl.partarch)])
  else if dt == dtSignature then
    match hexDecode fl.signentity with
    | none => .error .fingerprintDecode
    | some b =>
      match cliHash fl.signhash with
      | none => .error .hashType
      | some ht => if b.length != 20 then .error .fingerprintLength else .ok (base ++ [.signature ht b])
  else if dt == dtSBOM then
    if fl.sbomformat.isEmpty then .error .sbomArgs
    else match cliSBOM fl.sbomformat with
      | none => .error .sbomFormat
      | some f => .ok (base ++ [.sbom f])
  else .ok base

/-- `strconv.ParseUint(s, 10, 32)`: a non-empty string of decimal digits whose value fits 32 bits -/
def parseU32 (t : Bytes) : Option Nat :=
  if t.isEmpty then none
  else if t.all (fun c => 48 ≤ c && c ≤ 57) then
    let v := t.foldl (fun a c => a * 10 + (c.toNat - 48)) 0
    if v < 4294967296 then some v else none
  else none

inductive Cmd
  | new
  | add (fl : AddFlags) (content : Option Bytes)   -- `none`: the object file cannot be opened
  | del (arg : Bytes)
  | setprim (arg : Bytes)
  | dump (arg : Bytes)
  | info (arg : Bytes)
  | header
  | list
  deriving Repr, Inhabited

/-- what a command leaves behind: the file (absent when it does not exist), success, and for
    `dump` the bytes written to standard output -/
structure Outcome where
  file : Option Store
  ok : Bool
  out : Bytes := []
  err : Option CliErr := none

/-- the library call a mutating command makes once its arguments are translated -/
def libOp (c : Cmd) : Except CliErr Op :=
  match c with
  | .add fl content =>
    match cliDataType fl.datatype with
    | none => .error .dataTypeRequired
    | some dt =>
      match content with
      | none => .error .openObject
      | some data =>
        match cliOptions dt fl with
        | .error e => .error e
        | .ok opts =>
          match newDescriptorInput dt opts data none with
          | .error e => .error (.lib e)
          | .ok di => .ok (.add di .dflt)
  | .del arg => match parseU32 arg with
    | none => .error .badID
    | some id => .ok (.del (.id id) false false .dflt)
  | .setprim arg => match parseU32 arg with
    | none => .error .badID
    | some id => .ok (.setPrim id .dflt)
  | _ => .error .badID

/-- `withFileImage(path, writable, fn)` around the library call -/
def runMut (sha : Bytes → Bytes) (ph : Bytes → Option Bytes) (file : Option Store) (c : Cmd) (now : Int) :
    Outcome :=
  match c with
  | .add fl _ =>
    -- argument errors other than the data type come after the object file is opened; none touch the image
    match libOpPre fl with
    | some e => { file := file, ok := false, err := some e }
    | none => go
  | _ => go
where
  libOpPre (fl : AddFlags) : Option CliErr :=
    match cliDataType fl.datatype with
    | none => some .dataTypeRequired
    | some _ => none
  go : Outcome :=
    match libOp c with
    | .error (.lib e) =>
      -- NewDescriptorInput fails inside withFileImage: the image was loaded and is unloaded untouched
      match file with
      | none => { file := none, ok := false, err := some (.lib e) }
      | some st => match loadContainer st with
        | .error e' => { file := file, ok := false, err := some (.load e') }
        | .ok _ => { file := file, ok := false, err := some (.lib e) }
    | .error e => { file := file, ok := false, err := some e }
    | .ok op =>
      match file with
      | none => { file := none, ok := false, err := some (.load .loadHeader) }
      | some st =>
        match loadContainer st with
        | .error e => { file := file, ok := false, err := some (.load e) }
        | .ok s =>
          let r := step sha ph s op now
          { file := some r.1.st, ok := r.2 == .ok, err := match r.2 with | .ok => none | .err e => some (.lib e) }

/-- the read-only commands: success, and what `dump` prints -/
def runRead (ph : Bytes → Option Bytes) (file : Option Store) (c : Cmd) : Outcome :=
  match file with
  | none => { file := none, ok := false, err := some (.load .loadHeader) }
  | some st =>
    match loadContainer st with
    | .error e => { file := file, ok := false, err := some (.load e) }
    | .ok s =>
      match c with
      | .header | .list => { file := file, ok := true }
      | .dump arg | .info arg =>
        match parseU32 arg with
        | none => { file := file, ok := false, err := some .badID }
        | some id =>
          match getDescriptor ph s [.id id] with
          | .error e => { file := file, ok := false, err := some (.lib e) }
          | .ok d =>
            match c with
            | .dump _ =>
              -- io.CopyN(out, d.GetReader(), d.Size()): what is there is written, a short object is an error
              let data := objContent st d
              { file := file, ok := data.length == d.size.toNat && 0 ≤ d.size, out := data,
                err := if data.length == d.size.toNat && 0 ≤ d.size then none else some .shortObject }
            | _ => { file := file, ok := true }
      | _ => { file := file, ok := false, err := some .badID }

/-- one siftool invocation -/
def run (sha : Bytes → Bytes) (ph : Bytes → Option Bytes) (file : Option Store) (c : Cmd)
    (now : Int) (rnd : Bytes) : Outcome :=
  match c with
  | .new =>
    let r := createContainer sha ph .file [] now rnd
    { file := some r.1.st, ok := r.2 == .ok }
  | .add .. | .del .. | .setprim .. => runMut sha ph file c now
  | _ => runRead ph file c

end Sif.Cli
