/-
  Proofs/Fault.lean — the phases of Model/Fault.lean are the plan of Model/Image.lean cut in pieces.
-/
import SifVerif.Model.Fault
import SifVerif.Proofs.Plan
import SifVerif.Proofs.Crash
namespace Sif

variable (sha : Bytes → Bytes) (ph : Bytes → Option Bytes)

def Phase.allCalls (ps : List Phase) : List IOCall := ps.flatMap (·.calls)

@[simp] theorem allCalls_nil : Phase.allCalls [] = [] := rfl
@[simp] theorem allCalls_cons (p : Phase) (ps : List Phase) :
    Phase.allCalls (p :: ps) = p.calls ++ Phase.allCalls ps := by simp [Phase.allCalls]
@[simp] theorem allCalls_append (a b : List Phase) :
    Phase.allCalls (a ++ b) = Phase.allCalls a ++ Phase.allCalls b := by simp [Phase.allCalls]

theorem flushPhases_calls (mid full : Img) :
    Phase.allCalls (flushPhases mid full) = flushCalls full := by
  simp [flushPhases, flushCalls]

/-- the zeroing phases issue the zeroing calls of the delete loop, in the same order -/
theorem delZeroPhases_calls (sel : Sel) (zero : Bool) (ds : List RawDesc) (i : Nat) (m : Img)
    (hq : sel.firstErr ph ds = none) :
    Phase.allCalls (delZeroPhases ph sel zero ds i m).1 = (ds.filter (hit ph sel)).flatMap (zeroCalls zero) := by
  induction ds generalizing i m with
  | nil => simp [delZeroPhases]
  | cons d ds ih =>
    have hq0 := Sel.firstErr_none ph sel (d :: ds) hq d (by simp)
    have hq' : sel.firstErr ph ds = none := by
      simp only [Sel.firstErr, List.findSome?_cons] at hq ⊢
      cases hu : d.used with
      | false => simpa [hu] using hq
      | true => simpa [hu, hq0 hu] using hq
    unfold delZeroPhases
    cases hu : d.used with
    | false => simpa [hit, hu] using ih (i + 1) m hq'
    | true =>
      rw [Sel.eval_quiet ph sel d (hq0 hu)]
      cases hh : sel.holds ph d with
      | false => simpa [hit, hu, hh] using ih (i + 1) m hq'
      | true =>
        simp only [Bool.and_self, ↓reduceIte, allCalls_cons, hit, hu, hh, List.filter_cons_of_pos,
          List.flatMap_cons, zeroCalls]
        rw [ih (i + 1) _ hq']

/-- **the phases are the plan**: laid end to end, the phases of an operation issue exactly the
    calls of its plan (whether the plan ends in success or in a refusal) -/
theorem phases_calls (s : Img) (op : Op) (now : Int) :
    Phase.allCalls (phases sha ph s op now) = (plan sha ph s op now).1 := by
  cases op with
  | add di t =>
    simp only [phases, addPhases, plan, addObjectPlan]
    rcases writeDataObject sha ph s (findFreeSlot s.rds) di (resolveTime s t now) with ⟨calls, s1, r⟩
    cases r with
    | ok => simp [flushPhases_calls]
    | err e => simp
  | del sel z c t =>
    simp only [phases, delPhases, plan, deleteObjectsPlan]
    cases hfe : sel.firstErr ph s.rds with
    | some e => simp [deleteLoop_err ph sel e z _ _ _ _ _ hfe]
    | none =>
      rw [deleteLoop_closed ph sel z _ _ _ _ _ hfe]
      simp only [List.nil_append, Bool.false_or]
      cases hany : s.rds.any (hit ph sel) with
      | false =>
        have : s.rds.filter (hit ph sel) = [] := by
          simp only [List.any_eq_false] at hany
          exact List.filter_eq_nil_iff.mpr (fun x hx => by simpa using hany x hx)
        simp [this]
      | true =>
        simp only [Bool.not_true, Bool.false_eq_true, ↓reduceIte, allCalls_append, allCalls_cons,
          allCalls_nil, List.append_nil, flushPhases_calls, delZeroPhases_calls ph sel z s.rds 0 s hfe,
          List.append_assoc]
  | setPrim id t =>
    simp only [phases, setPrimPhases, plan, setPrimPartPlan]
    cases getDescriptorIdx ph s.rds [Sel.id id] with
    | error e => simp
    | ok i =>
      dsimp only
      split
      · simp
      · split
        · simp
        · split
          · simp
          · cases demotePrimary ph s.rds (resolveTime s t now) with
            | error e => simp
            | ok rds1 => simp [flushPhases_calls]
  | setMeta id md t =>
    simp only [phases, plan, setMetadataPlan]
    cases getDescriptorIdx ph s.rds [Sel.id id] with
    | error e => simp
    | ok i =>
      simp only [setExtraPhases, setExtraPlan]
      cases setExtra sha [] md (s.rds.getD i zeroDesc) with
      | error e => simp
      | ok d => simp [flushPhases_calls]
  | setOCI id text t =>
    simp only [phases, plan, setOCIBlobDigestPlan]
    cases getDescriptorIdx ph s.rds [Sel.id id] with
    | error e => simp
    | ok i =>
      dsimp only
      split
      · simp
      · simp only [setExtraPhases, setExtraPlan]
        cases setExtra sha [] (.ociText text) (s.rds.getD i zeroDesc) with
        | error e => simp
        | ok d => simp [flushPhases_calls]
  | reload => simp [phases, plan]

/-- the memory of the last phase of an accepted operation is the handle the plan ends with -/
theorem phases_last_mem (s : Img) (op : Op) (now : Int) (hok : (plan sha ph s op now).2.2 = .ok)
    (p : Phase) (hp : (phases sha ph s op now).getLast? = some p) :
    p.mem = (plan sha ph s op now).2.1 := by
  cases op with
  | add di t =>
    simp only [phases, addPhases, plan, addObjectPlan] at hok hp ⊢
    rcases hw : writeDataObject sha ph s (findFreeSlot s.rds) di (resolveTime s t now) with ⟨calls, s1, r⟩
    rw [hw] at hok hp
    cases r with
    | ok =>
      simp only [flushPhases, List.getLast?_cons_cons, List.getLast?_singleton, Option.some.injEq] at hp
      simp [← hp]
    | err e => simp at hok
  | del sel z c t =>
    simp only [phases, delPhases, plan, deleteObjectsPlan] at hok hp ⊢
    cases hl : deleteLoop ph sel z s.rds [] s.h [] false with
    | error e => rw [hl] at hok; simp at hok
    | ok v =>
      obtain ⟨calls, h1, rds1, selected⟩ := v
      rw [hl] at hok hp
      cases selected with
      | false => simp at hok
      | true =>
        simp only [Bool.not_true, Bool.false_eq_true, ↓reduceIte, flushPhases] at hp ⊢
        rw [List.getLast?_append] at hp
        simp only [List.getLast?_cons_cons, List.getLast?_singleton, Option.some_or, Option.some.injEq] at hp
        simp [← hp]
  | setPrim id t =>
    dsimp only [phases, setPrimPhases] at hp
    dsimp only [plan, setPrimPartPlan] at hok ⊢
    cases h1 : getDescriptorIdx ph s.rds [Sel.id id] with
    | error e => rw [h1] at hp; simp at hp
    | ok i =>
      rw [h1] at hp hok
      dsimp only at hp hok ⊢
      by_cases h2 : ((s.rds.getD i zeroDesc).dtype != dtPartition) = true
      · rw [if_pos h2] at hp; simp at hp
      · rw [if_neg h2] at hp hok ⊢
        by_cases h3 : ((s.rds.getD i zeroDesc).partType == partPrimSys) = true
        · rw [if_pos h3] at hp; simp at hp
        · rw [if_neg h3] at hp hok ⊢
          by_cases h4 : ((s.rds.getD i zeroDesc).partType != partSystem) = true
          · rw [if_pos h4] at hp; simp at hp
          · rw [if_neg h4] at hp hok ⊢
            cases h5 : demotePrimary ph s.rds (resolveTime s t now) with
            | error e => rw [h5] at hp; simp at hp
            | ok rds1 =>
              rw [h5] at hp
              simp only [flushPhases, List.getLast?_cons_cons, List.getLast?_singleton,
                Option.some.injEq] at hp
              rw [← hp]
  | setMeta id md t =>
    dsimp only [phases] at hp
    dsimp only [plan, setMetadataPlan] at hok ⊢
    cases h1 : getDescriptorIdx ph s.rds [Sel.id id] with
    | error e => rw [h1] at hp; simp at hp
    | ok i =>
      rw [h1] at hp hok
      dsimp only at hp hok ⊢
      unfold setExtraPhases at hp
      unfold setExtraPlan at hok ⊢
      cases h2 : setExtra sha [] md (s.rds.getD i zeroDesc) with
      | error e => rw [h2] at hp; simp at hp
      | ok d =>
        rw [h2] at hp
        simp only [flushPhases, List.getLast?_cons_cons, List.getLast?_singleton, Option.some.injEq] at hp
        rw [← hp]
  | setOCI id text t =>
    dsimp only [phases] at hp
    dsimp only [plan, setOCIBlobDigestPlan] at hok ⊢
    cases h1 : getDescriptorIdx ph s.rds [Sel.id id] with
    | error e => rw [h1] at hp; simp at hp
    | ok i =>
      rw [h1] at hp hok
      dsimp only at hp hok ⊢
      by_cases h2 : (!isOCIType (s.rds.getD i zeroDesc).dtype) = true
      · rw [if_pos h2] at hp; simp at hp
      · rw [if_neg h2] at hp hok ⊢
        unfold setExtraPhases at hp
        unfold setExtraPlan at hok ⊢
        cases h3 : setExtra sha [] (.ociText text) (s.rds.getD i zeroDesc) with
        | error e => rw [h3] at hp; simp at hp
        | ok d =>
          rw [h3] at hp
          simp only [flushPhases, List.getLast?_cons_cons, List.getLast?_singleton, Option.some.injEq] at hp
          rw [← hp]
  | reload => simp [phases] at hp

/-- the calls `faultStep` walks are the calls of the plan -/
theorem phaseCalls_fst (ps : List Phase) : (phaseCalls ps).map (·.1) = Phase.allCalls ps := by
  induction ps with
  | nil => rfl
  | cons p ps ih =>
    simp only [phaseCalls, List.flatMap_cons, List.map_append, List.map_map, allCalls_cons] at ih ⊢
    rw [ih]
    congr 1
    simp [Function.comp_def]

/-- whole calls up to a position, then a byte prefix of the call at that position: an interruption -/
theorem crashOf_take_torn (st : Store) (cs : List IOCall) (m j : Nat) (c : IOCall)
    (hc : cs[m]? = some c) (hp : (st.callsPrefix (cs.take m)).2 = true) :
    CrashOf st cs (tornCall (st.callsPrefix (cs.take m)).1 c j) := by
  induction m generalizing st cs with
  | zero =>
    cases cs with
    | nil => simp at hc
    | cons c0 rest =>
      simp only [List.getElem?_cons_zero, Option.some.injEq] at hc
      subst hc
      simp only [List.take_zero, Store.callsPrefix]
      cases c0 with
      | write b =>
        by_cases hj : j = 0
        · simp only [tornCall, hj, beq_self_eq_true, ↓reduceIte]; exact .stop _ _
        · simp only [tornCall, beq_iff_eq, hj, ↓reduceIte]
          exact .torn _ _ b rest j rfl
      | seekStart o => exact .stop _ _
      | seekEnd => exact .stop _ _
      | truncate n => exact .stop _ _
  | succ m ih =>
    cases cs with
    | nil => simp at hc
    | cons c0 rest =>
      simp only [List.getElem?_cons_succ] at hc
      simp only [List.take_succ_cons, Store.callsPrefix] at hp ⊢
      cases h0 : st.call c0 with
      | none => simp [h0] at hp
      | some s1 =>
        simp only [h0] at hp ⊢
        exact .next st s1 _ c0 rest h0 (ih s1 rest hc hp)

/-- **the file a failed call leaves is an interruption of the plan**: whole calls before the
    failing one, and (after a short write) a byte prefix of it -/
theorem faultStep_crashOf (s : Img) (op : Op) (now : Int) (m j : Nat) (s' : Img)
    (h : faultStep sha ph s op now m j = some s')
    (hp : (s.st.callsPrefix ((plan sha ph s op now).1.take m)).2 = true) :
    CrashOf s.st (plan sha ph s op now).1 s'.st := by
  unfold faultStep at h
  dsimp only at h
  cases hc : (phaseCalls (phases sha ph s op now))[m]? with
  | none => rw [hc] at h; simp at h
  | some cm =>
    rw [hc] at h
    obtain ⟨c, mem⟩ := cm
    simp only [Option.some.injEq] at h
    have hcalls : (phaseCalls (phases sha ph s op now)).map (·.1) = (plan sha ph s op now).1 := by
      rw [phaseCalls_fst, phases_calls]
    have hcm : (plan sha ph s op now).1[m]? = some c := by
      rw [← hcalls, List.getElem?_map, hc]; rfl
    have htake : ((phaseCalls (phases sha ph s op now)).take m).map (·.1) = (plan sha ph s op now).1.take m := by
      rw [List.map_take, hcalls]
    rw [← h]
    simp only [htake]
    exact crashOf_take_torn s.st _ m j c hcm hp

/-- the memory a failed call leaves is the memory of one of the operation's phases -/
theorem faultStep_mem (s : Img) (op : Op) (now : Int) (m j : Nat) (s' : Img)
    (h : faultStep sha ph s op now m j = some s') :
    ∃ p ∈ phases sha ph s op now, s'.h = p.mem.h ∧ s'.rds = p.mem.rds ∧ s'.minIDs = p.mem.minIDs := by
  unfold faultStep at h
  dsimp only at h
  cases hc : (phaseCalls (phases sha ph s op now))[m]? with
  | none => rw [hc] at h; simp at h
  | some cm =>
    rw [hc] at h
    obtain ⟨c, mem⟩ := cm
    simp only [Option.some.injEq] at h
    have hm := List.mem_of_getElem? hc
    simp only [phaseCalls, List.mem_flatMap, List.mem_map] at hm
    obtain ⟨p, hp, _, _, hpe⟩ := hm
    refine ⟨p, hp, ?_⟩
    have : mem = p.mem := by cases hpe; rfl
    subst this
    rw [← h]
    exact ⟨rfl, rfl, rfl⟩

end Sif
