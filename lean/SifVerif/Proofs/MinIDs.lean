/-
  Proofs/MinIDs.lean — the cached per-group minimum object ID: `populateMinIDs` in closed form and
  coherence of the cache with the table.
-/
import SifVerif.Model.Image
namespace Sif

/-- raw group `g` has an in-use member in `rds` -/
def Member (rds : List RawDesc) (g : Nat) : Prop := ∃ d ∈ rds, d.used = true ∧ d.gid = g

/-- `v` is the minimum object ID of the in-use members of raw group `g` -/
def IsMinOf (rds : List RawDesc) (g v : Nat) : Prop :=
  (∃ d ∈ rds, d.used = true ∧ d.gid = g ∧ d.id = v) ∧
  ∀ d ∈ rds, d.used = true → d.gid = g → v ≤ d.id

/-- the cache `m` is coherent with the table `rds`: it has a key exactly for the groups with
    in-use members, bound to the minimum member ID -/
def MinCoh (m : List (Nat × Nat)) (rds : List RawDesc) : Prop :=
  ∀ g, (minHas m g = true ↔ Member rds g) ∧ (minHas m g = true → IsMinOf rds g (minLookup m g))

@[simp] theorem minHas_minSet (m : List (Nat × Nat)) (g v g' : Nat) :
    minHas (minSet m g v) g' = (g == g' || minHas m g') := by
  simp [minSet, minHas]

@[simp] theorem minLookup_minSet (m : List (Nat × Nat)) (g v g' : Nat) :
    minLookup (minSet m g v) g' = if g = g' then v else minLookup m g' := by
  simp only [minSet, minLookup, List.find?_cons]
  by_cases h : g = g'
  · subst h; simp
  · have : (g == g') = false := by simpa using h
    simp [this, h]

theorem minHas_minLower (m : List (Nat × Nat)) (g v g' : Nat) :
    minHas (minLower m g v) g' = (g == g' || minHas m g') := by
  unfold minLower
  split
  · simp
  · rename_i h
    simp only [Bool.or_eq_true, Bool.not_eq_eq_eq_not, Bool.not_true, decide_eq_true_eq, not_or,
      Bool.not_eq_false, Nat.not_lt] at h
    by_cases hg : g = g'
    · subst hg; simp [h.1]
    · have : (g == g') = false := by simpa using hg
      simp [this]

theorem minLookup_minLower (m : List (Nat × Nat)) (g v g' : Nat) :
    minLookup (minLower m g v) g' =
      if g = g' then (if minHas m g then min (minLookup m g) v else v) else minLookup m g' := by
  unfold minLower
  split
  · rename_i h
    simp only [Bool.or_eq_true, Bool.not_eq_eq_eq_not, Bool.not_true, decide_eq_true_eq] at h
    simp only [minLookup_minSet]
    by_cases hg : g = g'
    · subst hg
      simp only [↓reduceIte]
      rcases h with h | h
      · simp [h]
      · split
        · omega
        · rfl
    · simp [hg]
  · rename_i h
    simp only [Bool.or_eq_true, Bool.not_eq_eq_eq_not, Bool.not_true, decide_eq_true_eq, not_or,
      Bool.not_eq_false, Nat.not_lt] at h
    by_cases hg : g = g'
    · subst hg; simp only [↓reduceIte, h.1]; omega
    · simp [hg]

theorem MinCoh.nil : MinCoh [] [] := by
  intro g; simp [minHas, Member]

/-- the in-use members did not change -/
theorem MinCoh.congr (m : List (Nat × Nat)) (rds rds' : List RawDesc) (h : MinCoh m rds)
    (hm : ∀ x : RawDesc, x.used = true → (x ∈ rds' ↔ x ∈ rds)) : MinCoh m rds' := by
  intro g
  obtain ⟨h1, h2⟩ := h g
  refine ⟨?_, ?_⟩
  · rw [h1]
    constructor
    · rintro ⟨d, hd, hu, hg⟩; exact ⟨d, (hm d hu).mpr hd, hu, hg⟩
    · rintro ⟨d, hd, hu, hg⟩; exact ⟨d, (hm d hu).mp hd, hu, hg⟩
  · intro hh
    obtain ⟨⟨d, hd, hu, hg, hv⟩, hle⟩ := h2 hh
    exact ⟨⟨d, (hm d hu).mpr hd, hu, hg, hv⟩, fun x hx hxu hxg => hle x ((hm x hxu).mp hx) hxu hxg⟩

/-- one more in-use member `d` joins: `minLower` keeps the cache coherent -/
theorem MinCoh.lower (m : List (Nat × Nat)) (rds rds' : List RawDesc) (d : RawDesc)
    (h : MinCoh m rds) (hu : d.used = true)
    (hm : ∀ x : RawDesc, x.used = true → (x ∈ rds' ↔ x ∈ rds ∨ x = d)) :
    MinCoh (minLower m d.gid d.id) rds' := by
  intro g
  obtain ⟨h1, h2⟩ := h g
  have hd' : d ∈ rds' := (hm d hu).mpr (Or.inr rfl)
  rw [minHas_minLower, minLookup_minLower]
  by_cases hg : d.gid = g
  · subst hg
    simp only [beq_self_eq_true, Bool.true_or, true_iff, ↓reduceIte, forall_const]
    refine ⟨⟨d, hd', hu, rfl⟩, ?_⟩
    by_cases hh : minHas m d.gid = true
    · obtain ⟨⟨x, hx, hxu, hxg, hxv⟩, hle⟩ := h2 hh
      simp only [hh, ↓reduceIte]
      refine ⟨?_, ?_⟩
      · by_cases hc : minLookup m d.gid ≤ d.id
        · exact ⟨x, (hm x hxu).mpr (Or.inl hx), hxu, hxg, by rw [hxv]; omega⟩
        · exact ⟨d, hd', hu, rfl, by omega⟩
      · intro y hy hyu hyg
        rcases (hm y hyu).mp hy with hy | hy
        · have := hle y hy hyu hyg; omega
        · subst hy; omega
    · simp only [hh, Bool.false_eq_true, ↓reduceIte]
      refine ⟨⟨d, hd', hu, rfl, rfl⟩, ?_⟩
      intro y hy hyu hyg
      rcases (hm y hyu).mp hy with hy | hy
      · exact absurd (h1.mpr ⟨y, hy, hyu, hyg⟩) hh
      · subst hy; omega
  · have hb : (d.gid == g) = false := by simpa using hg
    simp only [hb, Bool.false_or, hg, ↓reduceIte]
    refine ⟨?_, ?_⟩
    · rw [h1]
      constructor
      · rintro ⟨x, hx, hxu, hxg⟩; exact ⟨x, (hm x hxu).mpr (Or.inl hx), hxu, hxg⟩
      · rintro ⟨x, hx, hxu, hxg⟩
        rcases (hm x hxu).mp hx with hx | hx
        · exact ⟨x, hx, hxu, hxg⟩
        · subst hx; exact absurd hxg hg
    · intro hh
      obtain ⟨⟨x, hx, hxu, hxg, hxv⟩, hle⟩ := h2 hh
      refine ⟨⟨x, (hm x hxu).mpr (Or.inl hx), hxu, hxg, hxv⟩, ?_⟩
      intro y hy hyu hyg
      rcases (hm y hyu).mp hy with hy | hy
      · exact hle y hy hyu hyg
      · subst hy; exact absurd hyg hg

/-- `populateMinIDs` builds a coherent cache -/
theorem populate_coh_aux (ds pre : List RawDesc) (m : List (Nat × Nat)) (h : MinCoh m pre) :
    MinCoh (ds.foldl (fun m d => if d.used then minLower m d.gid d.id else m) m) (pre ++ ds) := by
  induction ds generalizing pre m with
  | nil => simpa using h
  | cons d ds ih =>
    simp only [List.foldl_cons]
    have e : pre ++ d :: ds = (pre ++ [d]) ++ ds := by simp
    rw [e]
    apply ih
    cases hu : d.used with
    | true =>
      simp only [↓reduceIte]
      exact MinCoh.lower m pre (pre ++ [d]) d h hu (by intro x _; simp)
    | false =>
      simp only [Bool.false_eq_true, ↓reduceIte]
      apply MinCoh.congr m pre (pre ++ [d]) h
      intro x hx
      simp only [List.mem_append, List.mem_singleton]
      constructor
      · rintro (h | h)
        · exact h
        · subst h; simp [hu] at hx
      · exact Or.inl

theorem populate_coh (rds : List RawDesc) : MinCoh (populateMinIDs rds) rds := by
  have := populate_coh_aux rds [] [] MinCoh.nil
  simpa [populateMinIDs] using this

/-- two coherent caches give the same minimum for every group that has a member -/
theorem MinCoh.lookup_eq (m m' : List (Nat × Nat)) (rds : List RawDesc)
    (h : MinCoh m rds) (h' : MinCoh m' rds) (g : Nat) (hg : Member rds g) :
    minLookup m g = minLookup m' g := by
  have hh := (h g).1.mpr hg
  have hh' := (h' g).1.mpr hg
  obtain ⟨⟨x, hx, hxu, hxg, hxv⟩, hle⟩ := (h g).2 hh
  obtain ⟨⟨y, hy, hyu, hyg, hyv⟩, hle'⟩ := (h' g).2 hh'
  have a := hle y hy hyu hyg
  have b := hle' x hx hxu hxg
  omega

/-- hence the same relative IDs and descriptor integrity streams for every in-use descriptor -/
theorem MinCoh.relID_eq (m m' : List (Nat × Nat)) (rds : List RawDesc)
    (h : MinCoh m rds) (h' : MinCoh m' rds) (d : RawDesc) (hd : d ∈ rds) (hu : d.used = true) :
    relID m d = relID m' d ∧ descStream m d = descStream m' d := by
  have := MinCoh.lookup_eq m m' rds h h' d.gid ⟨d, hd, hu, rfl⟩
  simp [relID, descStream, this]

end Sif
