/-
  Proofs/Zero.lean — zeroing delete (C03): once an object's bytes have been overwritten with
  zeros they stay zero through the rest of the operation (further zeroing, resize, flush), as far
  as they are still inside the file.
-/
import SifVerif.Proofs.Crash
namespace Sif

variable (sha : Bytes → Bytes) (ph : Bytes → Option Bytes)

/-- every byte of `[lo, hi)` that exists is zero -/
def ZeroAt (buf : Bytes) (lo hi : Nat) : Prop :=
  ∀ t, lo ≤ t → t < hi → t < buf.length → buf[t]? = some 0

/-- a call that cannot put a non-zero byte into `[lo, hi)`: seeks, truncations (a file grows with
    zeros), writes of zeros, and writes elsewhere -/
def callKeepsZero (lo hi : Nat) (st : Store) : IOCall → Prop
  | .write p => (∀ b ∈ p, b = 0) ∨ st.pos + p.length ≤ lo ∨ hi ≤ st.pos
  | _ => True

def callsKeepZero (lo hi : Nat) (st : Store) : List IOCall → Prop
  | [] => True
  | c :: cs => callKeepsZero lo hi st c ∧ ∀ st', st.call c = some st' → callsKeepZero lo hi st' cs

theorem writeAt_keeps_zero (buf : Bytes) (pos : Nat) (p : Bytes) (lo hi : Nat)
    (hz : ZeroAt buf lo hi) (hp : (∀ b ∈ p, b = 0) ∨ pos + p.length ≤ lo ∨ hi ≤ pos) :
    ZeroAt (writeAt buf pos p) lo hi := by
  intro t h1 h2 _
  rw [writeAt_get]
  by_cases ha : t < pos
  · simp only [ha, ↓reduceIte]
    by_cases hb : t < buf.length
    · simp only [hb, ↓reduceIte]; exact hz t h1 h2 hb
    · simp [hb]
  · simp only [ha, ↓reduceIte]
    by_cases hb : t < pos + p.length
    · simp only [hb, ↓reduceIte]
      rcases hp with hp | hp | hp
      · have hlt : t - pos < p.length := by omega
        rw [List.getElem?_eq_getElem hlt]
        congr 1
        exact hp _ (List.getElem_mem hlt)
      · omega
      · omega
    · simp only [hb, ↓reduceIte]
      by_cases hc : t < buf.length
      · exact hz t h1 h2 hc
      · -- beyond the old end and beyond the written range: not inside the new buffer either
        rename_i hlen
        simp only [writeAt_length] at hlen
        omega

theorem call_keeps_zero (lo hi : Nat) (st st' : Store) (c : IOCall) (hz : ZeroAt st.buf lo hi)
    (hk : callKeepsZero lo hi st c) (hc : st.call c = some st') : ZeroAt st'.buf lo hi := by
  cases c with
  | seekStart off =>
    simp only [Store.call, Store.seekStart] at hc
    split at hc
    · cases hc
    · cases hc; exact hz
  | seekEnd => simp only [Store.call, Store.seekEnd, Option.some.injEq] at hc; subst hc; exact hz
  | write p =>
    simp only [callKeepsZero] at hk
    simp only [Store.call, Store.write, Option.some.injEq] at hc
    cases hbe : st.be with
    | buf => simp only [hbe] at hc; subst hc; exact writeAt_keeps_zero _ _ _ _ _ hz hk
    | file =>
      simp only [hbe] at hc
      split at hc
      · subst hc; exact hz
      · subst hc; exact writeAt_keeps_zero _ _ _ _ _ hz hk
  | truncate n =>
    simp only [Store.call, Store.truncate] at hc
    split at hc
    · cases hc
    · cases hbe : st.be with
      | buf =>
        simp only [hbe] at hc
        split at hc
        · cases hc
        · cases hc
          intro t h1 h2 h3
          simp only [List.length_take] at h3
          rw [List.getElem?_take]
          have : t < n.toNat := by omega
          simp only [this, ↓reduceIte]
          exact hz t h1 h2 (by omega)
      | file =>
        simp only [hbe, Option.some.injEq] at hc
        subst hc
        intro t h1 h2 h3
        simp only [List.length_take, List.length_append, zeros, List.length_replicate] at h3
        rw [List.getElem?_take]
        have : t < n.toNat := by omega
        simp only [this, ↓reduceIte, List.getElem?_append]
        by_cases hb : t < st.buf.length
        · simp only [hb, ↓reduceIte]; exact hz t h1 h2 hb
        · simp only [hb, ↓reduceIte, zeros, List.getElem?_replicate]
          have : t - st.buf.length < n.toNat - st.buf.length := by omega
          simp [this]

theorem calls_keep_zero (lo hi : Nat) (cs : List IOCall) (st st' : Store) (hz : ZeroAt st.buf lo hi)
    (hk : callsKeepZero lo hi st cs) (hc : st.calls cs = some st') : ZeroAt st'.buf lo hi := by
  induction cs generalizing st with
  | nil => simp only [Store.calls, Option.some.injEq] at hc; subst hc; exact hz
  | cons c cs ih =>
    simp only [Store.calls] at hc
    cases h1 : st.call c with
    | none => simp [h1] at hc
    | some s1 =>
      simp only [h1] at hc
      exact ih s1 (call_keeps_zero lo hi st s1 c hz hk.1 h1) (hk.2 s1 h1) hc

theorem callsKeepZero_append (lo hi : Nat) (a b : List IOCall) (st : Store)
    (ha : callsKeepZero lo hi st a) (hb : ∀ st', callsKeepZero lo hi st' b) :
    callsKeepZero lo hi st (a ++ b) := by
  induction a generalizing st with
  | nil => exact hb st
  | cons c cs ih => exact ⟨ha.1, fun st' hc => ih st' (ha.2 st' hc)⟩

/-- safe calls (for a region) keep it zero as well -/
theorem callsKeepZero_of_safe (lo hi : Nat) (cs : List IOCall) (st : Store) (h : callsSafe lo hi st cs) :
    callsKeepZero lo hi st cs := by
  induction cs generalizing st with
  | nil => trivial
  | cons c cs ih =>
    refine ⟨?_, fun st' hc => ih st' (h.2 st' hc)⟩
    cases c with
    | write p => exact Or.inr h.1
    | _ => trivial

theorem zeros_all_zero (n : Nat) : ∀ b ∈ zeros n, b = 0 := by
  intro b hb
  simp only [zeros, List.mem_replicate] at hb
  exact hb.2

/-- the zeroing calls of any objects never un-zero anything -/
theorem zeroCalls_keep (lo hi : Nat) (z : Bool) (hits : List RawDesc) (st : Store) :
    callsKeepZero lo hi st (hits.flatMap (zeroCalls z)) := by
  induction hits generalizing st with
  | nil => trivial
  | cons x xs ih =>
    simp only [List.flatMap_cons]
    apply callsKeepZero_append
    · unfold zeroCalls
      cases z with
      | false => trivial
      | true =>
        simp only [↓reduceIte]
        by_cases hsz : x.size ≤ 0
        · simp only [hsz, ↓reduceIte, List.append_nil]; exact ⟨trivial, fun _ _ => trivial⟩
        · simp only [hsz, ↓reduceIte, List.cons_append, List.nil_append]
          exact ⟨trivial, fun _ _ => ⟨Or.inl (zeros_all_zero _), fun _ _ => trivial⟩⟩
    · intro st'; exact ih st'

theorem resize_keeps (lo hi : Nat) (st : Store) (len : Nat) (n : Int) :
    callsKeepZero lo hi st (resizeCalls len n) := by
  unfold resizeCalls
  refine ⟨trivial, fun s1 _ => ?_⟩
  split
  · exact ⟨trivial, fun _ _ => trivial⟩
  · exact ⟨Or.inl (zeros_all_zero _), fun _ _ => trivial⟩

/-- the zeroing calls of a list of objects containing `x` leave `x`'s bytes zero -/
theorem zeroCalls_zero (hits : List RawDesc) (x : RawDesc) (hx : x ∈ hits) (h0 : 0 ≤ x.off)
    (st st' : Store) (hc : st.calls (hits.flatMap (zeroCalls true)) = some st') :
    ZeroAt st'.buf x.off.toNat (x.off + x.size).toNat := by
  induction hits generalizing st with
  | nil => cases hx
  | cons y ys ih =>
    simp only [List.flatMap_cons] at hc
    rw [calls_append] at hc
    cases h1 : st.calls (zeroCalls true y) with
    | none => simp [h1] at hc
    | some s1 =>
      simp only [h1] at hc
      rcases List.mem_cons.mp hx with rfl | hin
      · -- x's own zeroing, then the others keep it
        have hz1 : ZeroAt s1.buf x.off.toNat (x.off + x.size).toNat := by
          unfold zeroCalls at h1
          simp only [↓reduceIte] at h1
          by_cases hsz : x.size ≤ 0
          · intro t a b _; omega
          · simp only [hsz, ↓reduceIte, List.cons_append, List.nil_append, Store.calls, Store.call,
              Store.seekStart, show ¬ x.off < 0 by omega, Option.some.injEq] at h1
            have hne : (zeros x.size.toNat).isEmpty = false := by
              have : 0 < x.size.toNat := by omega
              cases h : zeros x.size.toNat with
              | nil => simp [zeros] at h; omega
              | cons => rfl
            have hw : ({ st with pos := x.off.toNat } : Store).write (zeros x.size.toNat) =
                { st with buf := writeAt st.buf x.off.toNat (zeros x.size.toNat),
                          pos := x.off.toNat + (zeros x.size.toNat).length } := by
              cases hbe : st.be <;> simp [Store.write, hbe, hne]
            rw [hw] at h1
            subst h1
            intro t a b _
            simp only
            rw [writeAt_get, zeros_length]
            have e1 : ¬ t < x.off.toNat := by omega
            have e2 : t < x.off.toNat + x.size.toNat := by omega
            simp only [e1, e2, ↓reduceIte, zeros, List.getElem?_replicate]
            have : t - x.off.toNat < x.size.toNat := by omega
            simp [this]
        exact calls_keep_zero _ _ _ s1 st' hz1 (zeroCalls_keep _ _ true ys s1) hc
      · exact ih hin s1 hc

end Sif
