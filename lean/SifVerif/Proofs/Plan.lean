/-
  Proofs/Plan.lean — inversion lemmas for the mutators' plans: a call is either rejected, leaving
  the handle as it was, or accepted, in which case the plan ends by rewriting the whole
  descriptor table and the whole header from memory.
-/
import SifVerif.Model.Image
import SifVerif.Model.Extra
import SifVerif.Proofs.Select
namespace Sif

variable (sha : Bytes → Bytes) (ph : Bytes → Option Bytes)

theorem writeDataObject_cases (s : Img) (i : Nat) (di : DI) (t : Int) :
    (∃ calls e, writeDataObject sha ph s i di t = (calls, s, .err e)) ∨
    (∃ calls d arch, i < s.rds.length ∧ primaryCheck ph s di.md = .ok arch ∧
      writeDataObjectAt sha (s.h.dataOff + calculatedDataSize s.h s.rds) di t
        { zeroDesc with id := i + 1 } = (calls, .ok d) ∧
      writeDataObject sha ph s i di t =
        (calls, commitObject s i d arch (calculatedDataSize s.h s.rds), .ok)) := by
  unfold writeDataObject
  by_cases h1 : i ≥ s.rds.length
  · left; exact ⟨[], .insufficientCapacity, by simp [h1]⟩
  · by_cases h2 : (i : Int) ≥ maxU32
    · left; exact ⟨[], .objectIDOverflow, by simp [h1, h2]⟩
    · simp only [h1, h2, ↓reduceIte]
      cases hp : primaryCheck ph s di.md with
      | error e => left; exact ⟨[], e, rfl⟩
      | ok arch =>
        dsimp only
        rcases hw : writeDataObjectAt sha (s.h.dataOff + calculatedDataSize s.h s.rds) di t
          { zeroDesc with id := i + 1 } with ⟨calls, r⟩
        cases r with
        | error e => left; exact ⟨calls, e, rfl⟩
        | ok d => right; exact ⟨calls, d, arch, by omega, rfl, rfl, rfl⟩

/-- `AddObject`: rejected (handle untouched) or accepted -/
theorem addObjectPlan_cases (s : Img) (di : DI) (topt : TOpt) (now : Int) :
    (∃ calls e, addObjectPlan sha ph s di topt now = (calls, s, .err e)) ∨
    (∃ calls d arch, findFreeSlot s.rds < s.rds.length ∧ primaryCheck ph s di.md = .ok arch ∧
      writeDataObjectAt sha (s.h.dataOff + calculatedDataSize s.h s.rds) di (resolveTime s topt now)
        { zeroDesc with id := findFreeSlot s.rds + 1 } = (calls, .ok d) ∧
      let s1 := commitObject s (findFreeSlot s.rds) d arch (calculatedDataSize s.h s.rds)
      let s2 := { s1 with h := { s1.h with mtime := resolveTime s topt now } }
      addObjectPlan sha ph s di topt now = (calls ++ flushCalls s2, s2, .ok)) := by
  unfold addObjectPlan
  rcases writeDataObject_cases sha ph s (findFreeSlot s.rds) di (resolveTime s topt now) with
    ⟨calls, e, h⟩ | ⟨calls, d, arch, hi, hp, hw, h⟩
  · left; exact ⟨calls, e, by simp [h]⟩
  · right; exact ⟨calls, d, arch, hi, hp, hw, by simp [h]⟩

/-! ### the delete loop in closed form -/

/-- descriptor `d` is deleted by selector `sel` -/
def hit (sel : Sel) (d : RawDesc) : Bool := d.used && sel.holds ph d

def zeroCalls (zero : Bool) (d : RawDesc) : List IOCall :=
  if zero then
    [IOCall.seekStart d.off] ++ (if d.size ≤ 0 then [] else [IOCall.write (zeros d.size.toNat)])
  else []

/-- header bookkeeping of deleting the descriptors `ds` (in order) -/
def hdrAfterDelete (h : Hdr) (ds : List RawDesc) : Hdr :=
  ds.foldl (fun h d => { h with dfree := h.dfree + 1,
                                arch := if d.isPartitionOfType partPrimSys then archUnknown else h.arch }) h

theorem deleteLoop_closed (sel : Sel) (zero : Bool)
    (ds done : List RawDesc) (h : Hdr) (calls : List IOCall) (selected : Bool)
    (hs : sel.firstErr ph ds = none) :
    deleteLoop ph sel zero ds done h calls selected =
      .ok (calls ++ (ds.filter (hit ph sel)).flatMap (zeroCalls zero),
           hdrAfterDelete h (ds.filter (hit ph sel)),
           done ++ ds.map (fun d => if hit ph sel d then zeroDesc else d),
           selected || ds.any (hit ph sel)) := by
  induction ds generalizing done h calls selected with
  | nil => simp [deleteLoop, hdrAfterDelete]
  | cons d ds ih =>
    have hq := Sel.firstErr_none ph sel (d :: ds) hs d (by simp)
    have hs' : sel.firstErr ph ds = none := by
      simp only [Sel.firstErr, List.findSome?_cons] at hs ⊢
      cases hu : d.used with
      | false => simpa [hu] using hs
      | true => simpa [hu, hq hu] using hs
    unfold deleteLoop
    cases hu : d.used with
    | false => simp [hit, hu, ih _ _ _ _ hs']
    | true =>
      simp only [Bool.not_true, Bool.false_eq_true, ↓reduceIte, Sel.eval_quiet ph sel d (hq hu)]
      cases hh : sel.holds ph d with
      | false => simp [hit, hu, hh, ih _ _ _ _ hs']
      | true =>
        simp only [ih _ _ _ _ hs', hit, hu, hh, Bool.and_self, List.filter_cons_of_pos, List.flatMap_cons,
          hdrAfterDelete, List.foldl_cons, List.map_cons, ↓reduceIte, List.any_cons, Bool.true_or,
          Bool.or_true, zeroCalls, List.append_assoc, List.singleton_append]

/-- a selector that answers with an error on some in-use descriptor rejects the whole delete:
    the first such error (in table order) is the result, whatever was selected before it -/
theorem deleteLoop_err (sel : Sel) (e : Err) (zero : Bool)
    (ds done : List RawDesc) (h : Hdr) (calls : List IOCall) (selected : Bool)
    (hs : sel.firstErr ph ds = some e) :
    deleteLoop ph sel zero ds done h calls selected = .error e := by
  induction ds generalizing done h calls selected with
  | nil => simp [Sel.firstErr] at hs
  | cons d ds ih =>
    unfold deleteLoop
    simp only [Sel.firstErr, List.findSome?_cons] at hs
    cases hu : d.used with
    | false =>
      simp only [hu, Bool.false_eq_true, ↓reduceIte] at hs
      simpa [hu] using ih _ _ _ _ hs
    | true =>
      simp only [hu, ↓reduceIte] at hs
      cases he : sel.errOn ph d with
      | some e' =>
        rw [he] at hs
        simp only [Option.some.injEq] at hs
        subst hs
        simp [Sel.eval_loud ph sel d e' he]
      | none =>
        rw [he] at hs
        simp only [Bool.not_true, Bool.false_eq_true, ↓reduceIte, Sel.eval_quiet ph sel d he]
        cases hh : sel.holds ph d with
        | false => exact ih _ _ _ _ hs
        | true => exact ih _ _ _ _ hs

@[simp] theorem hdrAfterDelete_doff (h : Hdr) (ds : List RawDesc) :
    (hdrAfterDelete h ds).doff = h.doff ∧ (hdrAfterDelete h ds).dsize = h.dsize ∧
    (hdrAfterDelete h ds).dataOff = h.dataOff ∧ (hdrAfterDelete h ds).dtotal = h.dtotal ∧
    (hdrAfterDelete h ds).dataSize = h.dataSize ∧ (hdrAfterDelete h ds).launch = h.launch ∧
    (hdrAfterDelete h ds).magic = h.magic ∧ (hdrAfterDelete h ds).version = h.version ∧
    (hdrAfterDelete h ds).id = h.id ∧ (hdrAfterDelete h ds).ctime = h.ctime ∧
    (hdrAfterDelete h ds).mtime = h.mtime ∧
    (hdrAfterDelete h ds).dfree = h.dfree + ds.length := by
  induction ds generalizing h with
  | nil => simp [hdrAfterDelete]
  | cons d ds ih =>
    have := ih { h with dfree := h.dfree + 1,
                        arch := if d.isPartitionOfType partPrimSys then archUnknown else h.arch }
    simp only [hdrAfterDelete, List.foldl_cons] at this ⊢
    simp only [this, List.length_cons, true_and]
    omega

theorem writeDescriptorsCalls_congr (a b : Img) (h1 : a.rds = b.rds) (h2 : a.h.doff = b.h.doff) :
    writeDescriptorsCalls a = writeDescriptorsCalls b := by
  simp [writeDescriptorsCalls, h1, h2]

/-- the handle after an accepted `DeleteObjects`, in closed form -/
def deleteResult (s : Img) (sel : Sel) (compact : Bool) (t : Int) : Img :=
  deleteFinish s (hdrAfterDelete s.h (s.rds.filter (hit ph sel)))
    (s.rds.map (fun d => if hit ph sel d then zeroDesc else d)) compact t

/-- the calls of an accepted `DeleteObjects` before the final flush: zero each deleted object (if
    requested), then resize the store to the new end of the data section (if compacting) -/
def deletePre (s : Img) (sel : Sel) (zero compact : Bool) (t : Int) : List IOCall :=
  let zc := (s.rds.filter (hit ph sel)).flatMap (zeroCalls zero)
  let s' := deleteResult ph s sel compact t
  zc ++ (if compact then resizeCalls (lenAfter s.st zc) (s'.h.dataOff + s'.h.dataSize) else [])

theorem deleteObjectsPlan_cases (s : Img) (sel : Sel) (zero compact : Bool) (topt : TOpt)
    (now : Int) :
    (∃ calls e, deleteObjectsPlan ph s sel zero compact topt now = (calls, s, .err e)) ∨
    (sel.firstErr ph s.rds = none ∧ s.rds.any (hit ph sel) = true ∧
      deleteObjectsPlan ph s sel zero compact topt now =
        (deletePre ph s sel zero compact (resolveTime s topt now) ++
           flushCalls (deleteResult ph s sel compact (resolveTime s topt now)),
         deleteResult ph s sel compact (resolveTime s topt now), .ok)) := by
  unfold deleteObjectsPlan
  cases hfe : sel.firstErr ph s.rds with
  | none =>
    rw [deleteLoop_closed ph sel zero _ _ _ _ _ hfe]
    simp only [List.nil_append, Bool.false_or]
    cases hany : s.rds.any (hit ph sel) with
    | false => left; exact ⟨_, .objectNotFound, rfl⟩
    | true => right; exact ⟨trivial, rfl, rfl⟩
  | some e =>
    rw [deleteLoop_err ph sel e zero _ _ _ _ _ hfe]
    left; exact ⟨[], e, rfl⟩

/-- every accepted operation's plan is `pre ++ flushCalls s'` for its final state `s'`; a rejected
    operation returns the handle unchanged -/
theorem plan_shape (s : Img) (op : Op) (now : Int) :
    ((plan sha ph s op now).2.2 ≠ .ok → (plan sha ph s op now).2.1 = s) ∧
    ((plan sha ph s op now).2.2 = .ok →
      (plan sha ph s op now).1 = [] ∧ (plan sha ph s op now).2.1 = s ∨
      ∃ pre, (plan sha ph s op now).1 = pre ++ flushCalls (plan sha ph s op now).2.1 ∧
        (plan sha ph s op now).2.1.h.doff = s.h.doff ∧
        (plan sha ph s op now).2.1.rds.length = s.rds.length) := by
  cases op with
  | add di t =>
    simp only [plan]
    rcases addObjectPlan_cases sha ph s di t now with ⟨calls, e, h⟩ | ⟨calls, d, arch, hi, _, _, h⟩
    · simp [h]
    · simp only at h
      rw [h]
      refine ⟨by simp, fun _ => Or.inr ⟨calls, ?_, ?_, ?_⟩⟩
      · simp
      · simp [commitObject]
      · simp [commitObject]
  | del sel z c t =>
    simp only [plan]
    rcases deleteObjectsPlan_cases ph s sel z c t now with ⟨calls, e, h⟩ | ⟨_, _, h⟩
    · simp [h]
    · rw [h]
      refine ⟨by simp, fun _ => Or.inr ⟨_, rfl, ?_, ?_⟩⟩
      · cases c <;> simp [deleteResult, deleteFinish]
      · simp [deleteResult, deleteFinish]
  | setPrim id t =>
    simp only [plan, setPrimPartPlan]
    cases h1 : getDescriptorIdx ph s.rds [Sel.id id] with
    | error e => simp
    | ok i =>
      dsimp only
      split
      · simp
      · split
        · simp
        · split
          · simp
          · cases h5 : demotePrimary ph s.rds (resolveTime s t now) with
            | error e => simp
            | ok rds1 =>
              refine ⟨by simp, fun _ => Or.inr ⟨[], by simp, by simp [setPrimResult], ?_⟩⟩
              simp only [setPrimResult, List.length_set]
              unfold demotePrimary at h5
              split at h5
              · cases h5; simp
              · cases h5; rfl
              · cases h5
  | setMeta id md t =>
    simp only [plan, setMetadataPlan, setExtraPlan]
    cases h1 : getDescriptorIdx ph s.rds [Sel.id id] with
    | error e => simp
    | ok i =>
      dsimp only
      cases h2 : setExtra sha [] md (s.rds.getD i zeroDesc) with
      | error e => simp
      | ok d =>
        refine ⟨by simp, fun _ => Or.inr ⟨[], by simp, rfl, by simp⟩⟩
  | setOCI id text t =>
    simp only [plan, setOCIBlobDigestPlan, setExtraPlan]
    cases h1 : getDescriptorIdx ph s.rds [Sel.id id] with
    | error e => simp
    | ok i =>
      dsimp only
      split
      · simp
      · cases h2 : setExtra sha [] (.ociText text) (s.rds.getD i zeroDesc) with
        | error e => simp
        | ok d =>
          refine ⟨by simp, fun _ => Or.inr ⟨[], by simp, rfl, by simp⟩⟩
  | reload => simp [plan]

end Sif
