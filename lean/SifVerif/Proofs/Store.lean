/-
  Proofs/Store.lean — the store: pointwise characterisations and the Buffer/file bisimulation.
-/
import SifVerif.Model.Store
import SifVerif.Proofs.Bytes
namespace Sif

@[simp] theorem writeAt_length (buf : Bytes) (off : Nat) (p : Bytes) :
    (writeAt buf off p).length = max buf.length (off + p.length) := by
  simp [writeAt]; omega

/-- pointwise characterisation of a positioned write (the one frame lemma everything uses) -/
theorem writeAt_get (buf : Bytes) (off : Nat) (p : Bytes) (i : Nat) :
    (writeAt buf off p)[i]? =
      if i < off then (if i < buf.length then buf[i]? else some 0)
      else if i < off + p.length then p[i - off]?
      else buf[i]? := by
  unfold writeAt
  simp only [List.getElem?_append, List.getElem?_take, List.getElem?_drop, List.length_take,
    List.length_append, zeros, List.length_replicate, List.getElem?_replicate]
  grind

/-- bytes outside the written range and inside the old buffer are untouched -/
theorem writeAt_frame (buf : Bytes) (off : Nat) (p : Bytes) (i : Nat)
    (h : i < off ∨ off + p.length ≤ i) (hi : i < buf.length) :
    (writeAt buf off p)[i]? = buf[i]? := by
  rw [writeAt_get]
  rcases h with h | h
  · simp [h, hi]
  · have : ¬ i < off := by omega
    have : ¬ i < off + p.length := by omega
    simp [*]

/-- a slice disjoint from the written range is untouched -/
theorem slice_writeAt_frame (buf : Bytes) (off : Nat) (p : Bytes) (a l : Nat)
    (h : a + l ≤ off ∨ off + p.length ≤ a) (hl : a + l ≤ buf.length) :
    slice (writeAt buf off p) a l = slice buf a l := by
  apply List.ext_getElem?
  intro i
  simp only [slice, List.getElem?_take, List.getElem?_drop]
  by_cases hi : i < l
  · simp only [hi, ↓reduceIte]
    exact writeAt_frame buf off p (a + i) (by omega) (by omega)
  · simp [hi]

/-- reading back what was written -/
theorem slice_writeAt_same (buf : Bytes) (off : Nat) (p : Bytes) :
    slice (writeAt buf off p) off p.length = p := by
  apply List.ext_getElem?
  intro i
  simp only [slice, List.getElem?_take, List.getElem?_drop, writeAt_get]
  by_cases hi : i < p.length
  · have : ¬ off + i < off := by omega
    have : off + i < off + p.length := by omega
    have e : off + i - off = i := by omega
    simp [*]
  · simp [hi, List.getElem?_eq_none (Nat.le_of_not_lt hi)]

/-! ## Buffer vs file -/

/-- same contents and position, whatever the backend -/
def Store.sim (a b : Store) : Prop := a.buf = b.buf ∧ a.pos = b.pos

/-- the call shapes the library issues: absolute seeks ≥ 0, non-empty writes, truncation to at
    most the current length (growth by truncate is outside the buffer's contract) -/
def callOK (s : Store) : IOCall → Prop
  | .seekStart off => 0 ≤ off
  | .seekEnd => True
  | .write p => p ≠ []
  | .truncate n => 0 ≤ n ∧ n.toNat ≤ s.buf.length

theorem call_bisim (a b : Store) (h : a.sim b) (c : IOCall) (ok : callOK a c) :
    ∃ a' b', a.call c = some a' ∧ b.call c = some b' ∧ a'.sim b' := by
  obtain ⟨hb, hp⟩ := h
  cases c with
  | seekStart off =>
    simp only [callOK] at ok
    simp [Store.call, Store.seekStart, show ¬ off < 0 by omega, Store.sim, hb]
  | seekEnd => simp [Store.call, Store.seekEnd, Store.sim, hb]
  | write p =>
    simp only [callOK] at ok
    have hne : p.isEmpty = false := by cases p <;> simp_all
    cases ha : a.be <;> cases hbb : b.be <;>
      simp [Store.call, Store.write, ha, hbb, hne, Store.sim, hb, hp]
  | truncate n =>
    obtain ⟨h0, h1⟩ := ok
    have hz : n.toNat - b.buf.length = 0 := by rw [← hb]; omega
    cases ha : a.be <;> cases hbb : b.be <;>
      simp [Store.call, Store.truncate, ha, hbb, show ¬ n < 0 by omega, Store.sim, hb, hp,
        show ¬ n.toNat > b.buf.length by (rw [← hb]; omega), hz, zeros]

/-- call sequences of the library's shapes: defined along the execution -/
def callsOK (s : Store) : List IOCall → Prop
  | [] => True
  | c :: cs => callOK s c ∧ ∀ s', s.call c = some s' → callsOK s' cs

theorem calls_bisim (cs : List IOCall) (a b : Store) (h : a.sim b) (ok : callsOK a cs) :
    ∃ a' b', a.calls cs = some a' ∧ b.calls cs = some b' ∧ a'.sim b' := by
  induction cs generalizing a b with
  | nil => exact ⟨a, b, rfl, rfl, h⟩
  | cons c cs ih =>
    obtain ⟨okc, okrest⟩ := ok
    obtain ⟨a1, b1, ha, hb, hs⟩ := call_bisim a b h c okc
    obtain ⟨a2, b2, ha2, hb2, hs2⟩ := ih a1 b1 hs (okrest a1 ha)
    exact ⟨a2, b2, by simp [Store.calls, ha, ha2], by simp [Store.calls, hb, hb2], hs2⟩

/-- positioned reads agree on equal contents (`ReadAt` does not depend on the backend) -/
theorem readAt_sim (a b : Store) (h : a.sim b) (off n : Nat) :
    readAt a.buf off n = readAt b.buf off n := by rw [h.1]

end Sif
