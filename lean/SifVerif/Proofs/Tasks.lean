/-
  Proofs/Tasks.lean — task construction, group enumeration and the ID-set comparison.
-/
import SifVerif.Proofs.Integrity
import SifVerif.Proofs.Select
namespace Sif

variable (H : HashAlg → Bytes → Bytes) (ph : Bytes → Option Bytes)

theorem mem_insertSorted (l : List Nat) (v x : Nat) : x ∈ insertSorted l v ↔ x = v ∨ x ∈ l := by
  unfold insertSorted
  split
  · rename_i h
    simp only [List.contains_iff_mem] at h
    constructor
    · intro hx; exact Or.inr hx
    · rintro (rfl | hx)
      · exact h
      · exact hx
  · simp only [List.mem_append, List.mem_filter, List.mem_singleton, decide_eq_true_eq]
    constructor
    · rintro ((⟨h, _⟩ | h) | ⟨h, _⟩)
      · exact Or.inr h
      · exact Or.inl h
      · exact Or.inr h
    · rintro (rfl | h)
      · exact Or.inl (Or.inr rfl)
      · rcases Nat.lt_trichotomy x v with hlt | heq | hgt
        · exact Or.inl (Or.inl ⟨h, hlt⟩)
        · exact Or.inl (Or.inr heq)
        · exact Or.inr ⟨h, hgt⟩

/-- `getGroupIDs` lists exactly the non-zero groups that have a live member -/
theorem getGroupIDs_mem (s : Img) (gids : List Nat) (h : getGroupIDs s = .ok gids) (g : Nat) :
    g ∈ gids ↔ g ≠ 0 ∧ ∃ d ∈ live s.rds, d.group = g := by
  have key : ∀ (ds : List RawDesc) (acc : List Nat),
      g ∈ ds.foldl (fun acc d => if d.group != 0 then insertSorted acc d.group else acc) acc ↔
        g ∈ acc ∨ (g ≠ 0 ∧ ∃ d ∈ ds, d.group = g) := by
    intro ds
    induction ds with
    | nil => intro acc; simp
    | cons d ds ih =>
      intro acc
      simp only [List.foldl_cons, List.mem_cons, exists_eq_or_imp]
      rw [ih]
      by_cases hd : d.group != 0
      · simp only [hd, ↓reduceIte, mem_insertSorted]
        have hd' : d.group ≠ 0 := by simpa using hd
        constructor
        · rintro ((rfl | h) | h)
          · exact Or.inr ⟨hd', Or.inl rfl⟩
          · exact Or.inl h
          · exact Or.inr ⟨h.1, Or.inr h.2⟩
        · rintro (h | ⟨h0, h | h⟩)
          · exact Or.inl (Or.inr h)
          · exact Or.inl (Or.inl h.symm)
          · exact Or.inr ⟨h0, h⟩
      · simp only [hd, Bool.false_eq_true, ↓reduceIte]
        have hd' : d.group = 0 := by simpa using hd
        constructor
        · rintro (h | h)
          · exact Or.inl h
          · exact Or.inr ⟨h.1, Or.inr h.2⟩
        · rintro (h | ⟨h0, h | h⟩)
          · exact Or.inl h
          · rw [← h] at h0; exact absurd hd' h0
          · exact Or.inr ⟨h0, h⟩
  unfold getGroupIDs at h
  cases hf : (live s.rds).foldl (fun acc d => if d.group != 0 then insertSorted acc d.group else acc) [] with
  | nil => rw [hf] at h; cases h
  | cons x xs =>
    rw [hf] at h
    simp only [Except.ok.injEq] at h
    rw [← h, ← hf, key]
    simp

/-- `getGroupObjects` = the live members of the group, in table order, non-empty -/
theorem getGroupObjects_ok (s : Img) (g : Nat) (ods : List RawDesc)
    (h : getGroupObjects ph s g = .ok ods) :
    g ≠ 0 ∧ ods ≠ [] ∧ ods = (live s.rds).filter (fun d => d.group == g) := by
  unfold getGroupObjects at h
  cases hg : getDescriptors ph s [.groupID g] with
  | error e => simp [hg] at h
  | ok r =>
    simp only [hg] at h
    cases r with
    | nil => simp at h
    | cons x xs =>
      simp only [Except.ok.injEq] at h
      subst h
      unfold getDescriptors at hg
      split at hg
      · cases hg
      · by_cases h0 : g = 0
        · subst h0
          -- WithGroupID(0) raises an error as soon as a descriptor is evaluated
          exfalso
          have : ∀ rds : List RawDesc, ∀ r, selectDescs ph [.groupID 0] rds = .ok r → r = [] := by
            intro rds
            induction rds with
            | nil => intro r hr; simp [selectDescs] at hr; exact hr
            | cons d ds ih =>
              intro r hr
              unfold selectDescs at hr
              split at hr
              · exact ih r hr
              · simp [multiSel, Sel.eval] at hr
          have := this s.rds _ hg
          cases this
        · refine ⟨h0, by simp, ?_⟩
          have hsel : ∀ d ∈ s.rds, d.used = true →
              multiSel ph [.groupID g] d = .ok (d.group == g) := by
            intro d _ _
            simp [multiSel, Sel.eval, h0]
            cases d.group == g <;> rfl
          rw [selectDescs_pure ph [.groupID g] s.rds _ hsel] at hg
          exact (Except.ok.inj hg).symm

theorem groupTasks_ok (s : Img) (legacy : Bool) (gs : List Nat) (ts : List Task)
    (h : groupTasks ph s legacy gs = .ok ts) :
    ∀ g ∈ gs, ∃ ods, getGroupObjects ph s g = .ok ods ∧
      (if legacy then Task.legacyGroup g ods else Task.group g ods false) ∈ ts := by
  induction gs generalizing ts with
  | nil => intro g hg; cases hg
  | cons x xs ih =>
    unfold groupTasks at h
    cases h1 : getGroupObjects ph s x with
    | error e => simp [h1] at h
    | ok ods =>
      simp only [h1] at h
      cases h2 : groupTasks ph s legacy xs with
      | error e => simp [h2] at h
      | ok ts' =>
        simp only [h2, Except.ok.injEq] at h
        subst h
        intro g hg
        rcases List.mem_cons.mp hg with hg | hg
        · subst hg; exact ⟨ods, h1, by simp⟩
        · obtain ⟨o, a, b⟩ := ih ts' h2 g hg
          exact ⟨o, a, by simp [b]⟩

/-- `objectIDsMatch`: the member IDs and the signed absolute IDs are the same set -/
theorem objectIDsMatch_ok (im : ImageMD) (minID : Nat) (ods : List RawDesc)
    (h : objectIDsMatch im minID ods = .ok ()) :
    (∀ d ∈ ods, d.id ∈ im.objects.map (ObjMD.absID minID)) ∧
    (∀ i ∈ im.objects.map (ObjMD.absID minID), ∃ d ∈ ods, d.id = i) := by
  unfold objectIDsMatch at h
  dsimp only at h
  cases h1 : ods.find? (fun d => !(im.objects.map (ObjMD.absID minID)).contains d.id) with
  | some d => rw [h1] at h; cases h
  | none =>
    rw [h1] at h
    cases h2 : (im.objects.map (ObjMD.absID minID)).find? (fun i => !(ods.any (fun d => d.id == i))) with
    | some i => rw [h2] at h; cases h
    | none =>
      constructor
      · intro d hd
        have := List.find?_eq_none.mp h1 d hd
        simpa using this
      · intro i hi
        have := List.find?_eq_none.mp h2 i hi
        simp only [Bool.not_eq_eq_eq_not, Bool.not_true, Bool.not_eq_false, List.any_eq_true,
          beq_iff_eq] at this
        exact this

end Sif
