/-
  Proofs/Bytes.lean — lemmas about the little-endian codecs and fixed-width fields.
-/
import SifVerif.Model.Bytes
namespace Sif

@[simp] theorem zeros_length (n : Nat) : (zeros n).length = n := by simp [zeros]

@[simp] theorem pad_length (n : Nat) (b : Bytes) : (pad n b).length = n := by
  simp [pad]; omega

theorem pad_of_length (n : Nat) (b : Bytes) (h : b.length = n) : pad n b = b := by
  subst h; simp [pad, zeros]

@[simp] theorem pad_pad (n : Nat) (b : Bytes) : pad n (pad n b) = pad n b :=
  pad_of_length n _ (pad_length n b)

@[simp] theorem leBytes_length (n v : Nat) : (leBytes n v).length = n := by
  induction n generalizing v with
  | zero => simp [leBytes]
  | succ n ih => simp [leBytes, ih]

theorem leVal_lt (b : Bytes) : leVal b < 256 ^ b.length := by
  induction b with
  | nil => simp [leVal]
  | cons x xs ih =>
    simp only [leVal, List.length_cons, Nat.pow_succ]
    have : x.toNat < 256 := x.toNat_lt
    omega

theorem leVal_leBytes (n v : Nat) : leVal (leBytes n v) = v % 256 ^ n := by
  induction n generalizing v with
  | zero => simp [leBytes, leVal, Nat.mod_one]
  | succ n ih =>
    simp only [leBytes, leVal, ih]
    have h1 : (v % 256).toUInt8.toNat = v % 256 := by
      simp [Nat.toUInt8, UInt8.toNat_ofNat']
    rw [h1, Nat.pow_succ, Nat.mul_comm (256 ^ n) 256, Nat.mod_mul]

theorem leBytes_leVal (b : Bytes) : leBytes b.length (leVal b) = b := by
  induction b with
  | nil => simp [leBytes]
  | cons x xs ih =>
    simp only [List.length_cons, leBytes, leVal]
    have hx : x.toNat < 256 := x.toNat_lt
    have h1 : (x.toNat + 256 * leVal xs) % 256 = x.toNat := by omega
    have h2 : (x.toNat + 256 * leVal xs) / 256 = leVal xs := by omega
    rw [h1, h2, ih]
    simp [Nat.toUInt8]

theorem leBytes_leVal' (n : Nat) (b : Bytes) (h : b.length = n) : leBytes n (leVal b) = b := by
  subst h; exact leBytes_leVal b

@[simp] theorem encU_length (w v : Nat) : (encU w v).length = w := by simp [encU]
@[simp] theorem encS_length (w : Nat) (x : Int) : (encS w x).length = w := by simp [encS]
@[simp] theorem encBool_length (b : Bool) : (encBool b).length = 1 := by simp [encBool]

theorem decU_encU (w v : Nat) (h : v < 256 ^ w) : decU (encU w v) = v := by
  simp [decU, encU, leVal_leBytes, Nat.mod_eq_of_lt h]

theorem encU_decU (w : Nat) (b : Bytes) (h : b.length = w) : encU w (decU b) = b := by
  simp [encU, decU, leBytes_leVal' w b h]

/-- signed round trip on the representable range -/
theorem decS_encS (w : Nat) (x : Int)
    (hlo : -((256 ^ w : Nat) : Int) ≤ 2 * x) (hhi : 2 * x < ((256 ^ w : Nat) : Int)) :
    decS w (encS w x) = x := by
  have hpos : (0 : Int) < ((256 ^ w : Nat) : Int) := by
    have : 0 < 256 ^ w := Nat.pow_pos (by decide)
    omega
  simp only [decS, encS, leVal_leBytes]
  have hm : 0 ≤ x % ((256 ^ w : Nat) : Int) := Int.emod_nonneg _ (by omega)
  have hlt : x % ((256 ^ w : Nat) : Int) < ((256 ^ w : Nat) : Int) := Int.emod_lt_of_pos _ hpos
  have hn : ((x % ((256 ^ w : Nat) : Int)).toNat : Int) = x % ((256 ^ w : Nat) : Int) :=
    Int.toNat_of_nonneg hm
  have hnlt : (x % ((256 ^ w : Nat) : Int)).toNat < 256 ^ w := by omega
  rw [Nat.mod_eq_of_lt hnlt]
  by_cases hx : 0 ≤ x
  · have : x % ((256 ^ w : Nat) : Int) = x := Int.emod_eq_of_lt hx (by omega)
    rw [this] at hn ⊢
    have h2 : 2 * x.toNat < 256 ^ w := by omega
    simp [h2, Int.toNat_of_nonneg hx]
  · have hx' : x < 0 := by omega
    have : x % ((256 ^ w : Nat) : Int) = x + ((256 ^ w : Nat) : Int) := by
      have h1 : (x + ((256 ^ w : Nat) : Int)) % ((256 ^ w : Nat) : Int) = x + ((256 ^ w : Nat) : Int) :=
        Int.emod_eq_of_lt (by omega) (by omega)
      rw [← h1, Int.add_emod_right]
    rw [this] at hn ⊢
    have h2 : ¬ 2 * (x + ((256 ^ w : Nat) : Int)).toNat < 256 ^ w := by omega
    simp only [h2, ↓reduceIte]
    omega

theorem encS_decS (w : Nat) (b : Bytes) (h : b.length = w) : encS w (decS w b) = b := by
  have hlt : leVal b < 256 ^ w := by have := leVal_lt b; rwa [h] at this
  have hpos : (0 : Int) < ((256 ^ w : Nat) : Int) := by
    have : 0 < 256 ^ w := Nat.pow_pos (by decide)
    omega
  simp only [encS, decS]
  split
  · have : ((leVal b : Int) % ((256 ^ w : Nat) : Int)) = (leVal b : Int) :=
      Int.emod_eq_of_lt (by omega) (by omega)
    rw [this]; simp [leBytes_leVal' w b h]
  · have : (((leVal b : Int) - ((256 ^ w : Nat) : Int)) % ((256 ^ w : Nat) : Int)) = (leVal b : Int) := by
      rw [Int.sub_emod_right]; exact Int.emod_eq_of_lt (by omega) (by omega)
    rw [this]; simp [leBytes_leVal' w b h]

theorem decBool_encBool (b : Bool) : decBool (encBool b) = b := by
  cases b <;> simp [decBool, encBool]

/-! slices of concatenations with known lengths -/
theorem slice_append_left (a b : Bytes) (n : Nat) (h : a.length = n) :
    slice (a ++ b) 0 n = a := by
  subst h; simp [slice]

theorem slice_append_right (a b : Bytes) (off len : Nat) (h : a.length ≤ off) :
    slice (a ++ b) off len = slice b (off - a.length) len := by
  simp [slice, List.drop_append, List.drop_eq_nil_of_le h]

theorem slice_exact (a : Bytes) (n : Nat) (h : a.length = n) : slice a 0 n = a := by
  subst h; simp [slice]

end Sif
