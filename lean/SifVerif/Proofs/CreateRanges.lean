/-
  Proofs/CreateRanges.lean — a created image satisfies `Ranges` and `EndsOK`, from hypotheses on the
  creation options only: every number the options bring in is representable in its Go type and the
  objects, with their alignment padding, fit below int64.  Together with `Ranges_history` this
  removes the range assumption from every history that starts at `CreateContainer`.
-/
import SifVerif.Proofs.RangesStep
namespace Sif

variable (sha : Bytes → Bytes) (ph : Bytes → Option Bytes)

/-- the Go-typed fields of a descriptor input are representable -/
def DI.InRange (di : DI) : Prop :=
  I32 di.dt ∧ U32 di.linkID ∧ I64 di.objTime ∧ (∀ fs pt a, di.md = .part fs pt a → a.length = 3)

/-- room the objects may take: content plus at most one alignment step of padding each -/
def budget : List DI → Int
  | [] => 0
  | di :: dis => (di.content.length : Int) + (if 0 < di.alignment then di.alignment else 0) + budget dis

theorem budget_nonneg (dis : List DI) : 0 ≤ budget dis := by
  induction dis with
  | nil => simp [budget]
  | cons di dis ih => unfold budget; split <;> omega

theorem foldl_max_le (ds : List RawDesc) (e0 B : Int) (h0 : e0 ≤ B)
    (h : ∀ d ∈ ds, d.off + d.size ≤ B) :
    ds.foldl (fun e d => if e < d.off + d.size then d.off + d.size else e) e0 ≤ B := by
  induction ds generalizing e0 with
  | nil => simpa
  | cons d ds ih =>
    simp only [List.foldl_cons]
    apply ih
    · split
      · exact h d (by simp)
      · exact h0
    · intro x hx; exact h x (by simp [hx])

/-- the end of the data after committing an object placed at or after the old end -/
theorem calc_commit_le (s : Img) (i : Nat) (d : RawDesc) (arch : Option Bytes) (ds : Int)
    (hend : s.h.dataOff + calculatedDataSize s.h s.rds ≤ d.off + d.size) :
    (commitObject s i d arch ds).h.dataOff +
      calculatedDataSize (commitObject s i d arch ds).h (commitObject s i d arch ds).rds ≤ d.off + d.size := by
  have hnn := calculatedDataSize_nonneg s.h s.rds
  unfold calculatedDataSize commitObject
  simp only
  have : (live (s.rds.set i d)).foldl (fun e x => if e < x.off + x.size then x.off + x.size else e) s.h.dataOff
      ≤ d.off + d.size := by
    apply foldl_max_le
    · omega
    · intro x hx
      have hx' : x ∈ s.rds.set i d ∧ x.used = true := by simpa [live] using hx
      rcases List.mem_or_eq_of_mem_set hx'.1 with h1 | h1
      · have := calculatedDataSize_ge s.h s.rds x h1 hx'.2
        omega
      · rw [h1]; omega
  omega

/-- one `writeDataObject` of the creation loop keeps every number representable -/
theorem wdo_ranges (s : Img) (R : Ranges s) (E : EndsOK s) (hdo : 0 ≤ s.h.dataOff)
    (i : Nat) (hfree : s.h.dfree = (s.rds.length : Int) - i) (di : DI) (t : Int) (ht : I64 t)
    (hdi : di.InRange) (rest : Int) (hrest : 0 ≤ rest)
    (hb : s.h.dataOff + calculatedDataSize s.h s.rds + ((di.content.length : Int) +
      (if 0 < di.alignment then di.alignment else 0)) + rest ≤ maxI64) :
    let r := writeDataObject sha ph s i di t
    Ranges r.2.1 ∧ EndsOK r.2.1 ∧ 0 ≤ r.2.1.h.dataOff ∧
      (r.2.2 = .ok → r.2.1.h.dfree = (r.2.1.rds.length : Int) - (i + 1 : Nat) ∧
        r.2.1.h.dataOff + calculatedDataSize r.2.1.h r.2.1.rds + rest ≤ maxI64) := by
  intro r
  obtain ⟨hdt, hlink, hot, harch⟩ := hdi
  have hi32 : r.2.2 = .ok → (i : Int) < maxU32 := by
    intro hok
    simp only [r] at hok
    unfold writeDataObject at hok
    by_cases h1 : i ≥ s.rds.length
    · simp [h1] at hok
    · by_cases h2 : (i : Int) ≥ maxU32
      · simp [h1, h2] at hok
      · omega
  rcases writeDataObject_cases sha ph s i di t with ⟨calls, e, h⟩ | ⟨calls, d, arch, hi, hp, hw, h⟩
  · simp only [r, h]
    exact ⟨R, E, hdo, fun hh => by cases hh⟩
  · have hi32' := hi32 (by simp only [r, h])
    simp only [r, h]
    obtain ⟨off, hn, _, _, hu, hid, hoff, hsz, hpad, hgid, hdtype, hlnk, hname, _, hct, hmt, huid, hgo, hex⟩ :=
      writeDataObjectAt_ok sha _ di _ _ d calls hw
    have hcalc := calculatedDataSize_nonneg s.h s.rds
    have hge := nextAligned_ge _ _ _ hn
    -- the aligned offset is less than one alignment step beyond the unaligned one
    have hlt : off ≤ s.h.dataOff + calculatedDataSize s.h s.rds + (if 0 < di.alignment then di.alignment else 0) := by
      have hsp := nextAligned_spec (s.h.dataOff + calculatedDataSize s.h s.rds) di.alignment (by omega)
        (by split at hb <;> omega)
      by_cases ha : 0 < di.alignment
      · simp only [ha, ↓reduceIte]
        have := (hsp.2 ha).1 off hn
        omega
      · simp only [ha, ↓reduceIte]
        have := hsp.1 (by omega)
        rw [this] at hn
        cases hn; omega
    have hle : off + (di.content.length : Int) ≤ maxI64 := by split at hb <;> split at hlt <;> omega
    have hdv : d.Valid := by
      refine ⟨by rw [hdtype]; exact hdt, ?_, by rw [hgid]; exact or_mask_U32 _, by rw [hlnk]; exact hlink,
        ?_, ?_, ?_, ?_, ?_, by rw [huid]; unfold I64; omega, by rw [hgo]; unfold I64; omega,
        by rw [hname]; simp, ?_⟩
      · rw [hid]; unfold U32 maxU32 at *; simp only at hi32' ⊢; omega
      · rw [hoff]; unfold I64 maxI64 at *; omega
      · rw [hsz]; unfold I64 maxI64 at *; omega
      · rw [hpad]; unfold I64 maxI64 at *; omega
      · rw [hct]; split <;> assumption
      · rw [hmt, hct]; split <;> assumption
      · cases hm : di.md.marshal sha di.content with
        | error e => rw [hm] at hex; exact hex.elim
        | ok ob =>
          rw [hm] at hex
          cases ob with
          | none => simp only at hex; rw [hex]; simp [zeroDesc]
          | some b => simp only at hex; rw [hex.1]; simp
    have harch3 : (arch.getD s.h.arch).length = 3 := by
      cases arch with
      | none => exact R.hv.arch
      | some a =>
        obtain ⟨fs, pt, hmd⟩ := primaryCheck_some ph s di.md a hp
        exact harch fs pt a hmd
    have hdfree := R.hv.dfree
    refine ⟨⟨?_, ?_⟩, ?_, ?_, ?_⟩
    · unfold commitObject
      exact ⟨R.hv.launch, R.hv.magic, R.hv.version, harch3, R.hv.id, R.hv.ctime, R.hv.mtime,
        by simp only; unfold I64 maxI64 at *; omega, R.hv.dtotal, R.hv.doff, R.hv.dsize, R.hv.dataOff,
        by simp only; rw [hpad]; unfold I64 maxI64 at *; omega⟩
    · unfold commitObject
      exact valid_set _ _ _ R.dv hdv
    · unfold EndsOK commitObject
      intro x hx hux
      rcases List.mem_or_eq_of_mem_set hx with h1 | h1
      · exact E x h1 hux
      · rw [h1, hoff, hsz]; exact hle
    · simpa [commitObject] using hdo
    · intro _
      refine ⟨?_, ?_⟩
      · simp only [commitObject, List.length_set]
        rw [hfree]; push_cast; omega
      · have := calc_commit_le s i d arch (calculatedDataSize s.h s.rds) (by rw [hoff, hsz]; omega)
        rw [hoff, hsz] at this
        split at hb <;> split at hlt <;> omega

/-- … hence the whole creation loop does -/
theorem createObjects_ranges (dis : List DI) (k : Nat) (t : Int) (s : Img) (acc : List IOCall)
    (R : Ranges s) (E : EndsOK s) (hdo : 0 ≤ s.h.dataOff)
    (hfree : s.h.dfree = (s.rds.length : Int) - k) (ht : I64 t) (hdi : ∀ di ∈ dis, di.InRange)
    (hb : s.h.dataOff + calculatedDataSize s.h s.rds + budget dis ≤ maxI64) :
    Ranges (createObjects sha ph dis k t s acc).2.1 ∧ EndsOK (createObjects sha ph dis k t s acc).2.1 := by
  induction dis generalizing k s acc with
  | nil => exact ⟨R, E⟩
  | cons di dis ih =>
    have hw := wdo_ranges sha ph s R E hdo k hfree di t ht (hdi di (by simp)) (budget dis)
      (budget_nonneg dis) (by unfold budget at hb; omega)
    simp only at hw
    unfold createObjects
    rcases hr : writeDataObject sha ph s k di t with ⟨calls, s', r⟩
    rw [hr] at hw
    obtain ⟨R', E', hdo', hok⟩ := hw
    cases r with
    | err e => exact ⟨R', E'⟩
    | ok =>
      simp only at hok ⊢
      obtain ⟨hf', hb'⟩ := hok trivial
      exact ih (k + 1) s' (acc ++ calls) R' E' hdo' hf' (fun x hx => hdi x (by simp [hx])) hb'

/-- what `CreateContainer`'s options bring in from outside is representable, and the objects fit:
    the creation time, the table offset and capacity, a 16-byte ID, each object's typed fields, and
    table + objects + alignment padding below int64 -/
def CreateOpts.InRange (co : CreateOpts) : Prop :=
  I64 co.t ∧ 0 ≤ co.doff ∧ 0 ≤ co.capacity ∧ co.id.length = 16 ∧ (∀ di ∈ co.dis, di.InRange) ∧
  co.doff + 585 * co.capacity + budget co.dis ≤ maxI64

/-- **a created image — accepted or rejected at any object — satisfies `Ranges` and `EndsOK`** -/
theorem createContainerPlan_ranges (be : Backend) (co : CreateOpts) (hin : co.InRange)
    (hcap : co.capacity < maxU32) :
    Ranges (createContainerPlan sha ph be co).2.1 ∧ EndsOK (createContainerPlan sha ph be co).2.1 := by
  obtain ⟨ht, hdoff, hc0, hid, hdis, hb⟩ := hin
  have hbn := budget_nonneg co.dis
  unfold createContainerPlan
  simp only [show ¬ co.capacity ≥ maxU32 by omega, ↓reduceIte]
  have hcapN : ((co.capacity.toNat : Nat) : Int) = co.capacity := Int.toNat_of_nonneg hc0
  let s1 : Img :=
    { h := { launch := pad 32 co.launch, magic := hdrMagic, version := curVersion, arch := archUnknown,
             id := co.id, ctime := co.t, mtime := co.t, dfree := co.capacity, dtotal := co.capacity,
             doff := co.doff, dsize := 585 * co.capacity.toNat,
             dataOff := co.doff + 585 * co.capacity.toNat, dataSize := 0 },
      rds := List.replicate co.capacity.toNat zeroDesc, minIDs := [], st := emptyStore be }
  have hlive : live s1.rds = [] := by
    simp [s1, live, zeroDesc]
  have hcalc0 : calculatedDataSize s1.h s1.rds = 0 := by
    unfold calculatedDataSize; rw [hlive]; simp
  have R1 : Ranges s1 := by
    refine ⟨⟨by simp [s1], by simp [s1, hdrMagic], by simp [s1, curVersion], by simp [s1, archUnknown], hid, ht, ht,
      ?_, ?_, ?_, ?_, ?_, ?_⟩, ?_⟩
    · simp only [s1]; unfold I64 maxI64 maxU32 at *; omega
    · simp only [s1]; unfold I64 maxI64 maxU32 at *; omega
    · simp only [s1]; unfold I64 maxI64 at *; omega
    · simp only [s1]; unfold I64 maxI64 maxU32 at *; omega
    · simp only [s1]; unfold I64 maxI64 at *; omega
    · simp only [s1]; unfold I64; omega
    · intro d hd
      simp only [s1, List.mem_replicate] at hd
      rw [hd.2]; exact zeroDesc_valid
  have E1 : EndsOK s1 := by
    intro d hd hu
    simp only [s1, List.mem_replicate] at hd
    rw [hd.2] at hu; simp [zeroDesc] at hu
  have key := createObjects_ranges sha ph co.dis 0 co.t s1 [] R1 E1 (by simp only [s1]; omega)
    (by simp [s1, hcapN]) ht hdis (by rw [hcalc0]; simp only [s1]; omega)
  rcases hco : createObjects sha ph co.dis 0 co.t s1 [] with ⟨calls, s2, r⟩
  rw [hco] at key
  cases r <;> exact key

end Sif
