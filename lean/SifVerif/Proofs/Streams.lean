/-
  Proofs/Streams.lean — the two integrity streams are injective encodings of exactly the
  protected fields.
-/
import SifVerif.Proofs.Layout
import SifVerif.Model.Image
namespace Sif

theorem encS8_inj (x y : Int) (hx : I64 x) (hy : I64 y) (h : encS 8 x = encS 8 y) : x = y := by
  have := congrArg (decS 8) h
  rwa [decS8_encS8 x hx, decS8_encS8 y hy] at this

theorem encS4_inj (x y : Int) (hx : I32 x) (hy : I32 y) (h : encS 4 x = encS 4 y) : x = y := by
  have := congrArg (decS 4) h
  rwa [decS4_encS4 x hx, decS4_encS4 y hy] at this

theorem encU4_inj (x y : Nat) (hx : U32 x) (hy : U32 y) (h : encU 4 x = encU 4 y) : x = y := by
  have := congrArg decU h
  rwa [decU4_encU4 x hx, decU4_encU4 y hy] at this

theorem encBool_inj (a b : Bool) (h : encBool a = encBool b) : a = b := by
  cases a <;> cases b <;> simp_all [encBool]

/-- the header stream determines launch script, magic, version and ID -/
theorem hdrStream_inj (a b : Hdr) (va : a.Valid) (vb : b.Valid) (h : hdrStream a = hdrStream b) :
    a.launch = b.launch ∧ a.magic = b.magic ∧ a.version = b.version ∧ a.id = b.id := by
  unfold hdrStream at h
  rw [pad_of_length _ _ va.launch, pad_of_length _ _ va.magic, pad_of_length _ _ va.version,
    pad_of_length _ _ va.id, pad_of_length _ _ vb.launch, pad_of_length _ _ vb.magic,
    pad_of_length _ _ vb.version, pad_of_length _ _ vb.id] at h
  simp only [List.append_assoc] at h
  obtain ⟨h1, h⟩ := List.append_inj h (by rw [va.launch, vb.launch])
  obtain ⟨h2, h⟩ := List.append_inj h (by rw [va.magic, vb.magic])
  obtain ⟨h3, h4⟩ := List.append_inj h (by rw [va.version, vb.version])
  exact ⟨h1, h2, h3, h4⟩

/-- the descriptor stream determines type, used flag, relative ID, link, size, creation time,
    uid, gid, name and extra — every protected field, and nothing else -/
theorem descStream_inj (ma mb : List (Nat × Nat)) (a b : RawDesc) (va : a.Valid) (vb : b.Valid)
    (h : descStream ma a = descStream mb b) :
    a.dtype = b.dtype ∧ a.used = b.used ∧ relID ma a = relID mb b ∧ a.link = b.link ∧
    a.size = b.size ∧ a.ctime = b.ctime ∧ a.uid = b.uid ∧ a.gidOwner = b.gidOwner ∧
    a.name = b.name ∧ a.extra = b.extra := by
  unfold descStream at h
  rw [pad_of_length _ _ va.name, pad_of_length _ _ va.extra, pad_of_length _ _ vb.name,
    pad_of_length _ _ vb.extra] at h
  simp only [List.append_assoc] at h
  obtain ⟨h1, h⟩ := List.append_inj h (by simp)
  obtain ⟨h2, h⟩ := List.append_inj h (by simp)
  obtain ⟨h3, h⟩ := List.append_inj h (by simp)
  obtain ⟨h4, h⟩ := List.append_inj h (by simp)
  obtain ⟨h5, h⟩ := List.append_inj h (by simp)
  obtain ⟨h6, h⟩ := List.append_inj h (by simp)
  obtain ⟨h7, h⟩ := List.append_inj h (by simp)
  obtain ⟨h8, h⟩ := List.append_inj h (by simp)
  obtain ⟨h9, h10⟩ := List.append_inj h (by rw [va.name, vb.name])
  have hrel : ∀ (m : List (Nat × Nat)) (d : RawDesc), U32 (relID m d) := by
    intro m d; unfold U32 relID u32Mod; omega
  exact ⟨encS4_inj _ _ va.dtype vb.dtype h1, encBool_inj _ _ h2,
    encU4_inj _ _ (hrel ma a) (hrel mb b) h3, encU4_inj _ _ va.link vb.link h4,
    encS8_inj _ _ va.size vb.size h5, encS8_inj _ _ va.ctime vb.ctime h6,
    encS8_inj _ _ va.uid vb.uid h7, encS8_inj _ _ va.gidOwner vb.gidOwner h8, h9, h10⟩

end Sif
