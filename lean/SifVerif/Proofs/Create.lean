/-
  Proofs/Create.lean — `nextAligned`, `calculatedDataSize`, `writeDataObjectAt` (create.go).
-/
import SifVerif.Proofs.Table
namespace Sif

variable (sha : Bytes → Bytes) (ph : Bytes → Option Bytes)

/-- total specification of `nextAligned` on all of int64 ≥ 0 -/
theorem nextAligned_spec (off a : Int) (h0 : 0 ≤ off) (hmax : off ≤ maxI64) :
    (a ≤ 0 → nextAligned off a = .ok off) ∧
    (0 < a →
      (∀ r, nextAligned off a = .ok r →
          off ≤ r ∧ r - off < a ∧ a ∣ r ∧ r ≤ maxI64 ∧ ∀ r', off ≤ r' → a ∣ r' → r ≤ r') ∧
      (nextAligned off a = .error .alignmentOverflow ↔ ∀ r', off ≤ r' → a ∣ r' → maxI64 < r')  ∧
      (∀ e, nextAligned off a = .error e → e = .alignmentOverflow)) := by
  constructor
  · intro ha; simp [nextAligned, ha]
  · intro ha
    have hte : off.tmod a = off % a := by
      rw [Int.tmod_eq_emod]; simp [h0]
    have hm0 : 0 ≤ off % a := Int.emod_nonneg _ (by omega)
    have hml : off % a < a := Int.emod_lt_of_pos _ ha
    have hdiv : off = a * (off / a) + off % a := (Int.mul_ediv_add_emod off a).symm
    unfold nextAligned
    simp only [show ¬ a ≤ 0 by omega, decide_false, Bool.false_or, hte, beq_iff_eq]
    by_cases hz : off % a = 0
    · simp only [hz, ↓reduceIte]
      have hd : a ∣ off := Int.dvd_of_emod_eq_zero hz
      refine ⟨?_, ?_, by simp⟩
      · intro r hr; cases hr
        exact ⟨by omega, by omega, hd, hmax, fun r' h1 _ => h1⟩
      · constructor
        · intro h; cases h
        · intro h; have := h off (by omega) hd; omega
    · simp only [hz, ↓reduceIte]
      -- the candidate: the next multiple of a
      have hcand : a ∣ off + (a - off % a) := by
        refine ⟨off / a + 1, ?_⟩
        rw [Int.mul_add]; omega
      have hleast : ∀ r', off ≤ r' → a ∣ r' → off + (a - off % a) ≤ r' := by
        intro r' h1 ⟨k, hk⟩
        subst hk
        -- a*k ≥ off = a*(off/a) + off%a with 0 < off%a  ⇒ k ≥ off/a + 1
        have : off / a < k := by
          by_cases hc : off / a < k
          · exact hc
          · exfalso
            have hk' : k ≤ off / a := by omega
            have : a * k ≤ a * (off / a) := Int.mul_le_mul_of_nonneg_left hk' (by omega)
            omega
        have : a * (off / a + 1) ≤ a * k := Int.mul_le_mul_of_nonneg_left (by omega) (by omega)
        rw [Int.mul_add] at this; omega
      by_cases hov : maxI64 - off < a - off % a
      · simp only [hov, ↓reduceIte]
        refine ⟨?_, ?_, ?_⟩
        · intro r hr; cases hr
        · constructor
          · intro _ r' h1 h2; have := hleast r' h1 h2; omega
          · intro _; trivial
        · intro e he; cases he; rfl
      · simp only [hov, ↓reduceIte]
        refine ⟨?_, ?_, by intro e he; cases he⟩
        · intro r hr; cases hr
          exact ⟨by omega, by omega, hcand, by omega, hleast⟩
        · constructor
          · intro h; cases h
          · intro h; have := h _ (by omega) hcand; omega

theorem nextAligned_ge (off a r : Int) (h : nextAligned off a = .ok r) : off ≤ r := by
  unfold nextAligned at h
  split at h
  · cases h; omega
  · dsimp only at h
    split at h
    · cases h
    · cases h
      rename_i h1 _
      simp only [Bool.or_eq_true, decide_eq_true_eq, beq_iff_eq, not_or] at h1
      have := Int.tmod_lt_of_pos off (show 0 < a by omega)
      omega

theorem foldl_max_ge (ds : List RawDesc) (e0 : Int) :
    e0 ≤ ds.foldl (fun e d => if e < d.off + d.size then d.off + d.size else e) e0 ∧
    ∀ d ∈ ds, d.off + d.size ≤ ds.foldl (fun e d => if e < d.off + d.size then d.off + d.size else e) e0 := by
  induction ds generalizing e0 with
  | nil => simp
  | cons d ds ih =>
    simp only [List.foldl_cons, List.mem_cons, forall_eq_or_imp]
    by_cases hc : e0 < d.off + d.size
    · simp only [hc, ↓reduceIte]
      obtain ⟨h1, h2⟩ := ih (d.off + d.size)
      exact ⟨by omega, h1, h2⟩
    · simp only [hc, ↓reduceIte]
      obtain ⟨h1, h2⟩ := ih e0
      exact ⟨h1, by omega, h2⟩

theorem calculatedDataSize_nonneg (h : Hdr) (rds : List RawDesc) : 0 ≤ calculatedDataSize h rds := by
  have := (foldl_max_ge (live rds) h.dataOff).1
  unfold calculatedDataSize; omega

theorem calculatedDataSize_ge (h : Hdr) (rds : List RawDesc) (d : RawDesc) (hd : d ∈ rds)
    (hu : d.used = true) : d.off + d.size ≤ h.dataOff + calculatedDataSize h rds := by
  have := (foldl_max_ge (live rds) h.dataOff).2 d (by simp [live, hd, hu])
  unfold calculatedDataSize; omega

/-- the end of the data section is attained: it is the data offset or some live object's end -/
theorem foldl_max_attained (ds : List RawDesc) (e0 : Int) :
    ds.foldl (fun e d => if e < d.off + d.size then d.off + d.size else e) e0 = e0 ∨
    ∃ d ∈ ds, ds.foldl (fun e d => if e < d.off + d.size then d.off + d.size else e) e0 = d.off + d.size := by
  induction ds generalizing e0 with
  | nil => simp
  | cons d ds ih =>
    simp only [List.foldl_cons, List.mem_cons, exists_eq_or_imp]
    by_cases hc : e0 < d.off + d.size
    · simp only [hc, ↓reduceIte]
      rcases ih (d.off + d.size) with h | ⟨x, hx, h⟩
      · right; left; exact h
      · right; right; exact ⟨x, hx, h⟩
    · simp only [hc, ↓reduceIte]
      rcases ih e0 with h | ⟨x, hx, h⟩
      · left; exact h
      · right; right; exact ⟨x, hx, h⟩

/-- inversion of `writeDataObjectAt` -/
theorem writeDataObjectAt_ok (offU : Int) (di : DI) (t : Int) (d0 d : RawDesc)
    (calls : List IOCall) (h : writeDataObjectAt sha offU di t d0 = (calls, .ok d)) :
    ∃ off, nextAligned offU di.alignment = .ok off ∧ di.failAt = none ∧
      calls = [IOCall.seekStart off] ++ (if di.content.isEmpty then [] else [IOCall.write di.content]) ∧
      d.used = true ∧ d.id = d0.id ∧ d.off = off ∧ d.size = di.content.length ∧
      d.sizePad = off - offU + di.content.length ∧
      d.gid = (di.groupID % u32Mod ||| descrGroupMask) ∧ d.dtype = di.dt ∧ d.link = di.linkID ∧
      d.name = pad 128 di.name ∧ di.name.length ≤ 128 ∧
      d.ctime = (if di.objTime != zeroTime then di.objTime else t) ∧ d.mtime = d.ctime ∧
      d.uid = 0 ∧ d.gidOwner = 0 ∧
      (match di.md.marshal sha di.content with
       | .ok (some b) => d.extra = pad 384 b ∧ b.length ≤ 384
       | .ok none => d.extra = d0.extra
       | .error _ => False) := by
  unfold writeDataObjectAt at h
  cases hn : nextAligned offU di.alignment with
  | error e => simp [hn] at h
  | ok off =>
    simp only [hn] at h
    cases hf : di.failAt with
    | some n => simp [DI.readerFails, hf] at h
    | none =>
      simp only [DI.readerFails, hf, Option.isSome_none, Bool.false_eq_true, ↓reduceIte,
        DI.delivered] at h
      unfold fillDescriptor at h
      by_cases hnl : di.name.length > descrNameLen
      · simp [hnl] at h
      · simp only [hnl, ↓reduceIte] at h
        unfold setExtra at h
        cases hm : di.md.marshal sha di.content with
        | error e => simp [hm] at h
        | ok ob =>
          cases ob with
          | none =>
            simp only [hm, Prod.mk.injEq, Except.ok.injEq] at h
            obtain ⟨hc, hd⟩ := h
            subst hd
            refine ⟨off, rfl, rfl, hc.symm, ?_⟩
            simp [descrNameLen] at hnl
            simp [hnl]
          | some b =>
            simp only [hm] at h
            by_cases hbl : b.length > descrMaxPrivLen
            · simp [hbl] at h
            · simp only [hbl, ↓reduceIte, Prod.mk.injEq, Except.ok.injEq] at h
              obtain ⟨hc, hd⟩ := h
              subst hd
              refine ⟨off, rfl, rfl, hc.symm, ?_⟩
              simp [descrNameLen, descrMaxPrivLen] at hnl hbl
              simp [hnl, hbl]

/-- a rejected `writeDataObjectAt` issued at most a seek and a data write at/after `offU` -/
theorem writeDataObjectAt_err (offU : Int) (di : DI) (t : Int) (d0 : RawDesc) (e : Err)
    (calls : List IOCall) (h : writeDataObjectAt sha offU di t d0 = (calls, .error e)) :
    calls = [] ∨ ∃ off p, offU ≤ off ∧
      calls = [IOCall.seekStart off] ++ (if p.isEmpty then [] else [IOCall.write p]) := by
  unfold writeDataObjectAt at h
  cases hn : nextAligned offU di.alignment with
  | error e => simp [hn] at h; exact Or.inl h.1
  | ok off =>
    simp only [hn] at h
    have hge := nextAligned_ge offU di.alignment off hn
    right
    refine ⟨off, di.delivered, hge, ?_⟩
    split at h
    · simp only [Prod.mk.injEq] at h; exact h.1.symm
    · split at h <;> simp only [Prod.mk.injEq] at h
      · exact h.1.symm
      · exact absurd h.2 (by simp)

end Sif
