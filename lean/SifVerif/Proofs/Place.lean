/-
  Proofs/Place.lean — placement of data objects and the bystander frame property:
  the calls of every operation are safe for the region of every surviving object.
-/
import SifVerif.Proofs.Frame
import SifVerif.Proofs.Step
namespace Sif

variable (sha : Bytes → Bytes) (ph : Bytes → Option Bytes)

/-- placement invariant (C03) -/
structure Placed (s : Img) : Prop where
  inData : ∀ d ∈ s.rds, d.used = true →
    s.h.dataOff ≤ d.off ∧ d.off + d.size ≤ s.h.dataOff + s.h.dataSize
  disj : ∀ (i j : Nat) (di dj : RawDesc), s.rds[i]? = some di → s.rds[j]? = some dj → i ≠ j →
    di.used = true → dj.used = true → 0 < di.size → 0 < dj.size →
    di.off + di.size ≤ dj.off ∨ dj.off + dj.size ≤ di.off
  inFile : ∀ d ∈ s.rds, d.used = true → 0 < d.size → d.off + d.size ≤ s.st.buf.length

/-- the byte region of a descriptor -/
def regLo (d : RawDesc) : Nat := d.off.toNat
def regHi (d : RawDesc) : Nat := (d.off + d.size).toNat

/-- zeroing the hit objects is safe for a region disjoint from each of them -/
theorem zeroCalls_safe (lo hi : Nat) (hlh : lo ≤ hi) (zero : Bool) (hits : List RawDesc) (st : Store)
    (hin : hi ≤ st.buf.length)
    (hd : ∀ x ∈ hits, 0 < x.size → 0 ≤ x.off ∧ ((x.off + x.size).toNat ≤ lo ∨ hi ≤ x.off.toNat)) :
    callsSafe lo hi st (hits.flatMap (zeroCalls zero)) := by
  induction hits generalizing st with
  | nil => trivial
  | cons x xs ih =>
    simp only [List.flatMap_cons]
    apply callsSafe_append lo hi hlh _ _ st hin
    · unfold zeroCalls
      cases zero with
      | false => trivial
      | true =>
        simp only [↓reduceIte]
        by_cases hsz : x.size ≤ 0
        · simp only [hsz, ↓reduceIte, List.append_nil]
          exact safe_seek lo hi st x.off [] (fun _ => trivial)
        · simp only [hsz, ↓reduceIte, List.cons_append, List.nil_append]
          obtain ⟨h0, hdis⟩ := hd x (by simp) (by omega)
          apply safe_seek_write
          · simp only [zeros_length]
            rcases hdis with h | h
            · left; omega
            · right; exact h
          · intro _; trivial
    · intro st' hin'
      exact ih st' hin' (fun y hy => hd y (by simp [hy]))

/-- `resize(n)` is safe for a region that ends at or before `n` -/
theorem resize_safe (lo hi : Nat) (st : Store) (len : Nat) (n : Int) (hin : hi ≤ st.buf.length)
    (hn : (hi : Int) ≤ n) : callsSafe lo hi st (resizeCalls len n) := by
  unfold resizeCalls
  refine ⟨trivial, fun s1 h1 => ?_⟩
  simp only [Store.call, Store.seekEnd, Option.some.injEq] at h1
  subst h1
  split
  · exact ⟨hn, fun _ _ => trivial⟩
  · refine ⟨?_, fun _ _ => trivial⟩
    simp only [callSafe]; right; exact hin

/-- object `d` is not deleted by the operation -/
def survives (op : Op) (d : RawDesc) : Prop :=
  match op with
  | .del sel _ _ _ => hit ph sel d = false
  | _ => True

theorem mem_of_getElem? {α} (l : List α) (i : Nat) (x : α) (h : l[i]? = some x) : x ∈ l :=
  List.mem_of_getElem? h

/-- **every operation's calls are safe for the region of every surviving object** -/
theorem plan_safe (s : Img) (W : WF s) (P : Placed s) (op : Op) (now : Int) (i : Nat)
    (d : RawDesc) (hd : s.rds[i]? = some d) (hu : d.used = true) (hsz : 0 < d.size)
    (hsv : (plan sha ph s op now).2.2 = .ok → survives ph op d) :
    callsSafe (regLo d) (regHi d) s.st (plan sha ph s op now).1 := by
  have hmem : d ∈ s.rds := List.mem_of_getElem? hd
  obtain ⟨hdlo, hdhi⟩ := P.inData d hmem hu
  have hinF := P.inFile d hmem hu hsz
  have h128 := W.doff
  have htab := W.tabEnd
  have hlh : regLo d ≤ regHi d := by unfold regLo regHi; omega
  have hin : regHi d ≤ s.st.buf.length := by unfold regHi; omega
  have hend := calculatedDataSize_ge s.h s.rds d hmem hu
  have hflush : ∀ (s' : Img) (st : Store), s'.h.doff = s.h.doff → s'.rds.length = s.rds.length →
      callsSafe (regLo d) (regHi d) st (flushCalls s') := by
    intro s' st e1 e2
    apply flush_safe
    · rw [e1]; exact h128
    · rw [e1, e2]; unfold regLo; omega
  cases op with
  | add di t =>
    simp only [plan]
    rcases addObjectPlan_cases sha ph s di t now with ⟨calls, e, h⟩ | ⟨calls, dn, arch, hi, hp, hw, h⟩
    · have hrej : (plan sha ph s (.add di t) now).2.2 ≠ .ok := by simp [plan, h]
      rcases plan_rejected_calls sha ph s (.add di t) now hrej with hc | ⟨off, p, hge, hc⟩
      · simp only [plan] at hc; rw [hc]; trivial
      · simp only [plan] at hc; rw [hc]
        by_cases hp : p.isEmpty
        · simp only [hp, ↓reduceIte, List.append_nil]; exact safe_seek _ _ _ _ _ (fun _ => trivial)
        · simp only [hp, Bool.false_eq_true, ↓reduceIte, List.cons_append, List.nil_append]
          apply safe_seek_write
          · right; unfold regHi; omega
          · intro _; trivial
    · simp only at h
      rw [h]
      obtain ⟨off, hn, _, hcalls, _⟩ := writeDataObjectAt_ok sha _ di _ _ dn calls hw
      have hge := nextAligned_ge _ _ _ hn
      rw [hcalls]
      by_cases hp : di.content.isEmpty
      · simp only [hp, ↓reduceIte, List.append_nil, List.cons_append, List.nil_append]
        exact safe_seek _ _ _ _ _ (fun st' => hflush _ st' (by simp [commitObject]) (by simp [commitObject]))
      · simp only [hp, Bool.false_eq_true, ↓reduceIte, List.cons_append, List.nil_append]
        apply safe_seek_write
        · right; unfold regHi; omega
        · intro st'; exact hflush _ st' (by simp [commitObject]) (by simp [commitObject])
  | del sel z c t =>
    simp only [plan] at hsv ⊢
    simp only [survives] at hsv
    rcases deleteObjectsPlan_cases ph s sel z c t now with ⟨calls, e, h⟩ | ⟨hs, hany, h⟩
    · have hrej : (plan sha ph s (.del sel z c t) now).2.2 ≠ .ok := by simp [plan, h]
      rcases plan_rejected_calls sha ph s (.del sel z c t) now hrej with hc | ⟨off, p, hge, hc⟩
      · simp only [plan] at hc; rw [hc]; trivial
      · simp only [plan] at hc; rw [hc]
        by_cases hp : p.isEmpty
        · simp only [hp, ↓reduceIte, List.append_nil]; exact safe_seek _ _ _ _ _ (fun _ => trivial)
        · simp only [hp, Bool.false_eq_true, ↓reduceIte, List.cons_append, List.nil_append]
          apply safe_seek_write
          · right; unfold regHi; omega
          · intro _; trivial
    · rw [h] at hsv ⊢
      have hsv := hsv rfl
      -- d is still in the table after the delete
      have hd1 : d ∈ (deleteResult ph s sel c (resolveTime s t now)).rds := by
        simp only [deleteResult, deleteFinish]
        exact List.mem_map.mpr ⟨d, hmem, by simp [hsv]⟩
      have hdoff : (deleteResult ph s sel c (resolveTime s t now)).h.doff = s.h.doff := by
        have := hdrAfterDelete_doff s.h (s.rds.filter (hit ph sel))
        cases c <;> simp [deleteResult, deleteFinish, this]
      have hdataOff : (deleteResult ph s sel c (resolveTime s t now)).h.dataOff = s.h.dataOff := by
        have := hdrAfterDelete_doff s.h (s.rds.filter (hit ph sel))
        cases c <;> simp [deleteResult, deleteFinish, this]
      have hlen : (deleteResult ph s sel c (resolveTime s t now)).rds.length = s.rds.length := by
        simp [deleteResult, deleteFinish]
      unfold deletePre
      simp only [List.append_assoc]
      apply callsSafe_append _ _ hlh _ _ s.st hin
      · apply zeroCalls_safe _ _ hlh z _ s.st hin
        intro x hx hxs
        simp only [List.mem_filter] at hx
        obtain ⟨hxm, hxh⟩ := hx
        have hxu : x.used = true := by simp only [hit, Bool.and_eq_true] at hxh; exact hxh.1
        obtain ⟨j, hj, hjx⟩ := List.getElem_of_mem hxm
        have hjx' : s.rds[j]? = some x := by rw [List.getElem?_eq_getElem hj, hjx]
        have hij : i ≠ j := by
          intro e; subst e
          rw [hd] at hjx'; cases hjx'
          rw [hsv] at hxh; cases hxh
        obtain ⟨hxlo, _⟩ := P.inData x hxm hxu
        refine ⟨by omega, ?_⟩
        rcases P.disj i j d x hd hjx' hij hu hxu hsz hxs with hdis | hdis
        · right; unfold regHi; omega
        · left; unfold regLo; omega
      · intro st' hin'
        apply callsSafe_append _ _ hlh _ _ st' hin'
        · cases c with
          | false => trivial
          | true =>
            simp only [↓reduceIte]
            apply resize_safe _ _ _ _ _ hin'
            rw [hdataOff]
            have hd1u : d ∈ s.rds.map (fun d => if hit ph sel d then zeroDesc else d) :=
              List.mem_map.mpr ⟨d, hmem, by simp [hsv]⟩
            have hge := calculatedDataSize_ge
              ({ hdrAfterDelete s.h (s.rds.filter (hit ph sel)) with mtime := resolveTime s t now })
              (s.rds.map (fun d => if hit ph sel d then zeroDesc else d)) d hd1u hu
            have e3 : ({ hdrAfterDelete s.h (s.rds.filter (hit ph sel)) with
                mtime := resolveTime s t now } : Hdr).dataOff = s.h.dataOff :=
              (hdrAfterDelete_doff s.h (s.rds.filter (hit ph sel))).2.2.1
            rw [e3] at hge
            have hds : (deleteResult ph s sel true (resolveTime s t now)).h.dataSize =
                calculatedDataSize
                  ({ hdrAfterDelete s.h (s.rds.filter (hit ph sel)) with mtime := resolveTime s t now })
                  (s.rds.map (fun d => if hit ph sel d then zeroDesc else d)) := by
              simp [deleteResult, deleteFinish]
            rw [hds]
            unfold regHi; omega
        · intro st'' _
          exact hflush _ st'' hdoff hlen
  | setPrim id t =>
    simp only [plan]
    rcases setPrimPartPlan_cases ph s id t now with ⟨r, h⟩ | ⟨k, rds1, hdm, h⟩
    · rw [h]; trivial
    · rw [h]
      refine hflush (setPrimResult s k rds1 (resolveTime s t now)) s.st rfl ?_
      simp only [setPrimResult, List.length_set]
      have := congrArg List.length (demotePrimary_keys ph s.rds rds1 _ hdm)
      simpa using this
  | setMeta id md t =>
    simp only [plan, setMetadataPlan]
    cases h1 : getDescriptorIdx ph s.rds [Sel.id id] with
    | error e => trivial
    | ok k =>
      simp only
      rcases setExtraPlan_cases sha s k md (resolveTime s t now) with ⟨e, h⟩ | ⟨d', _, h⟩
      · rw [h]; trivial
      · simp only at h; rw [h]; exact hflush _ s.st rfl (by simp)
  | setOCI id text t =>
    simp only [plan, setOCIBlobDigestPlan]
    cases h1 : getDescriptorIdx ph s.rds [Sel.id id] with
    | error e => trivial
    | ok k =>
      simp only
      split
      · trivial
      · rcases setExtraPlan_cases sha s k (.ociText text) (resolveTime s t now) with ⟨e, h⟩ | ⟨d', _, h⟩
        · rw [h]; trivial
        · simp only at h; rw [h]; exact hflush _ s.st rfl (by simp)
  | reload => trivial

theorem objContent_eq_slice (st : Store) (d : RawDesc) (h0 : 0 ≤ d.off) (hs : 0 ≤ d.size) :
    objContent st d = slice st.buf (regLo d) (regHi d - regLo d) := by
  have : regHi d - regLo d = d.size.toNat := by unfold regHi regLo; omega
  rw [this]
  simp only [objContent, show ¬ d.off < 0 by omega, show ¬ d.size < 0 by omega, decide_false,
    Bool.or_self, Bool.false_eq_true, ↓reduceIte, readAt, slice, regLo]

/-- the store after a non-I/O-failing step, and the fact that all of the plan's calls ran -/
theorem step_store (s : Img) (op : Op) (now : Int) (hne : op ≠ .reload)
    (hio : (step sha ph s op now).2 ≠ .err .io) :
    ∃ st', s.st.calls (plan sha ph s op now).1 = some st' ∧
      (step sha ph s op now).1 = { (plan sha ph s op now).2.1 with st := st' } ∧
      (step sha ph s op now).2 = (plan sha ph s op now).2.2 := by
  have hstep : step sha ph s op now = runPlan (plan sha ph s op now) s.st := by
    cases op <;> first | rfl | exact absurd rfl hne
  rw [hstep] at hio ⊢
  unfold runPlan at hio ⊢
  rcases hcp : s.st.callsPrefix (plan sha ph s op now).1 with ⟨st', b⟩
  rw [hcp] at hio
  cases b with
  | false => simp at hio
  | true =>
    have := calls_of_callsPrefix s.st (plan sha ph s op now).1 (by rw [hcp])
    rw [hcp] at this
    exact ⟨st', this, rfl, rfl⟩

/-- **C03 frame**: the content of every surviving object is untouched by any operation -/
theorem step_frame (s : Img) (W : WF s) (P : Placed s) (R : Ranges s) (op : Op) (now : Int)
    (i : Nat) (d : RawDesc) (hd : s.rds[i]? = some d) (hu : d.used = true)
    (hsv : (plan sha ph s op now).2.2 = .ok → survives ph op d)
    (hio : (step sha ph s op now).2 ≠ .err .io) :
    objContent (step sha ph s op now).1.st d = objContent s.st d ∧
    (0 < d.size → d.off + d.size ≤ (step sha ph s op now).1.st.buf.length) := by
  have hmem : d ∈ s.rds := List.mem_of_getElem? hd
  obtain ⟨h0, hs0⟩ := W.lo d hmem hu
  by_cases hrl : op = .reload
  · subst hrl
    simp only [step, WF.load s W R]
    exact ⟨trivial, fun hsz => P.inFile d hmem hu hsz⟩
  · obtain ⟨st', hcalls, hst, _⟩ := step_store sha ph s op now hrl hio
    rw [hst]
    by_cases hsz : 0 < d.size
    · have hsafe := plan_safe sha ph s W P op now i d hd hu hsz hsv
      have hinF := P.inFile d hmem hu hsz
      have hlh : regLo d ≤ regHi d := by unfold regLo regHi; omega
      obtain ⟨f1, f2⟩ := calls_frame (regLo d) (regHi d) hlh _ s.st _ (by unfold regHi; omega) hsafe hcalls
      refine ⟨?_, fun _ => by unfold regHi at f1; simp only; omega⟩
      simp only
      rw [objContent_eq_slice _ d h0 hs0, objContent_eq_slice _ d h0 hs0, f2]
    · have : d.size = 0 := by omega
      refine ⟨?_, fun h => absurd h hsz⟩
      simp [objContent, this, readAt]

end Sif
