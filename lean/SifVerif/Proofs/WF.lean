/-
  Proofs/WF.lean — the well-formedness invariant of a handle and its preservation by every
  operation (accepted or rejected).
-/
import SifVerif.Proofs.Create
import SifVerif.Proofs.Sync
namespace Sif

variable (sha : Bytes → Bytes) (ph : Bytes → Option Bytes)

/-- int64/uint32 representability and fixed array lengths of everything in the handle (the
    hypothesis under which no Go arithmetic wraps; it is decidable and is evaluated by the driver
    on every state the correspondence campaign reaches) -/
structure Ranges (s : Img) : Prop where
  hv : s.h.Valid
  dv : ∀ d ∈ s.rds, d.Valid

/-- the invariant -/
structure WF (s : Img) : Prop where
  magic : s.h.magic = hdrMagic
  version : s.h.version = curVersion
  total : s.h.dtotal = s.rds.length
  doff : 128 ≤ s.h.doff
  tabEnd : s.h.doff + 585 * s.rds.length ≤ s.h.dataOff
  dsize : (585 * s.rds.length : Int) ≤ s.h.dsize
  tabRegion : s.h.doff + s.h.dsize ≤ s.h.dataOff
  sync : Synced s
  coh : MinCoh s.minIDs s.rds
  acct : s.h.dfree + (live s.rds).length = s.h.dtotal
  uniq : ((live s.rds).map (·.id)).Nodup
  lo : ∀ d ∈ s.rds, d.used = true → 0 ≤ d.off ∧ 0 ≤ d.size

theorem WF.all_loadable (s : Img) (W : WF s) : ∀ d ∈ s.rds, loadable d = true := by
  intro d hd
  unfold loadable
  cases hu : d.used with
  | false => rfl
  | true =>
    obtain ⟨h1, h2⟩ := W.lo d hd hu
    have a : decide (d.off < 0) = false := by simp; omega
    have b : decide (d.size < 0) = false := by simp; omega
    simp [a, b]

/-- a fresh load of the current bytes gives the same header and table, cache recomputed -/
theorem WF.load (s : Img) (W : WF s) (R : Ranges s) :
    loadContainer s.st =
      .ok { h := s.h, rds := s.rds, minIDs := populateMinIDs s.rds, st := s.st } :=
  Synced.load s W.sync R.hv W.magic W.version W.total (by have := W.doff; omega) W.dsize R.dv
    (WF.all_loadable s W) (by
      have h1 := W.tabRegion
      have h2 := R.hv.dataOff
      unfold I64 at h2; unfold maxI64; omega)

/-! ### rejected plans: where their calls land -/
theorem plan_rejected_calls (s : Img) (op : Op) (now : Int)
    (h : (plan sha ph s op now).2.2 ≠ .ok) :
    (plan sha ph s op now).1 = [] ∨ ∃ off p, s.h.dataOff + calculatedDataSize s.h s.rds ≤ off ∧
      (plan sha ph s op now).1 = [IOCall.seekStart off] ++ (if p.isEmpty then [] else [IOCall.write p]) := by
  cases op with
  | add di t =>
    simp only [plan, addObjectPlan] at *
    unfold writeDataObject at *
    by_cases h1 : findFreeSlot s.rds ≥ s.rds.length
    · simp [h1]
    · by_cases h2 : (findFreeSlot s.rds : Int) ≥ maxU32
      · simp [h1, h2]
      · simp only [h1, h2, ↓reduceIte] at h ⊢
        cases hp : primaryCheck ph s di.md with
        | error e => simp
        | ok arch =>
          simp only [hp] at h ⊢
          rcases hw : writeDataObjectAt sha (s.h.dataOff + calculatedDataSize s.h s.rds) di
            (resolveTime s t now) { zeroDesc with id := findFreeSlot s.rds + 1 } with ⟨calls, r⟩
          cases r with
          | ok d => simp [hw] at h
          | error e =>
            simp only []
            rcases writeDataObjectAt_err sha _ di _ _ e calls hw with hc | ⟨off, p, hge, hc⟩
            · left; exact hc
            · right
              exact ⟨off, p, hge, hc⟩
  | del sel z c t =>
    simp only [plan] at *
    rcases deleteObjectsPlan_cases ph s sel z c t now with ⟨calls, e, hh⟩ | ⟨_, _, hh⟩
    · -- rejected: the loop issued no call
      left
      unfold deleteObjectsPlan at *
      cases hfe : sel.firstErr ph s.rds with
      | none =>
        rw [deleteLoop_closed ph sel z _ _ _ _ _ hfe] at h ⊢
        simp only [List.nil_append, Bool.false_or] at h ⊢
        cases hany : s.rds.any (hit ph sel) with
        | true => simp [hany] at h
        | false =>
          have : s.rds.filter (hit ph sel) = [] := by
            simp only [List.any_eq_false] at hany
            exact List.filter_eq_nil_iff.mpr (fun x hx => by simpa using hany x hx)
          simp [this]
      | some e' =>
        rw [deleteLoop_err ph sel e' z _ _ _ _ _ hfe]
    · rw [hh] at h; simp at h
  | setPrim id t =>
    left
    simp only [plan, setPrimPartPlan] at *
    cases h1 : getDescriptorIdx ph s.rds [Sel.id id] with
    | error e => simp
    | ok i =>
      simp only [h1] at h ⊢
      split
      · rfl
      · split
        · rfl
        · split
          · rfl
          · cases h5 : demotePrimary ph s.rds (resolveTime s t now) with
            | error e => rfl
            | ok rds1 => simp_all
  | setMeta id md t =>
    left
    simp only [plan, setMetadataPlan, setExtraPlan] at *
    cases h1 : getDescriptorIdx ph s.rds [Sel.id id] with
    | error e => simp
    | ok i =>
      simp only [h1] at h ⊢
      cases h2 : setExtra sha [] md (s.rds.getD i zeroDesc) with
      | error e => rfl
      | ok d => simp_all
  | setOCI id text t =>
    left
    simp only [plan, setOCIBlobDigestPlan, setExtraPlan] at *
    cases h1 : getDescriptorIdx ph s.rds [Sel.id id] with
    | error e => simp
    | ok i =>
      simp only [h1] at h ⊢
      split
      · rfl
      · cases h2 : setExtra sha [] (.ociText text) (s.rds.getD i zeroDesc) with
        | error e => rfl
        | ok d => simp_all
  | reload => simp [plan] at h

end Sif
