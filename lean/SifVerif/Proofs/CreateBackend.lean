/-
  Proofs/CreateBackend.lean — `CreateContainer` on a `sif.Buffer` and on a file: same result, same
  handle, byte-identical contents, for every list of initial objects, whenever the descriptor
  capacity is positive (capacity 0 is finding D8).  This is the start of the lock-step induction
  of C14 (`step_lockstep`, `C14_history`) for images the library itself creates.
-/
import SifVerif.Proofs.Backend
namespace Sif

variable (sha : Bytes → Bytes) (ph : Bytes → Option Bytes)

/-- call lists whose shapes are fine on any store (absolute seeks ≥ 0 and non-empty writes only) -/
def ShapeOK (cs : List IOCall) : Prop := ∀ st, callsOK st cs

theorem ShapeOK.nil : ShapeOK [] := fun _ => trivial

theorem ShapeOK.append {a b : List IOCall} (ha : ShapeOK a) (hb : ShapeOK b) : ShapeOK (a ++ b) :=
  fun st => callsOK_append a b st (ha st) (fun st' _ => hb st')

theorem writeDataObjectAt_shape (offU : Int) (di : DI) (t : Int) (d : RawDesc) (h0 : 0 ≤ offU) :
    ShapeOK (writeDataObjectAt sha offU di t d).1 := by
  unfold writeDataObjectAt
  cases hn : nextAligned offU di.alignment with
  | error e => exact ShapeOK.nil
  | ok off =>
    have hge := nextAligned_ge _ _ _ hn
    have hcalls : ShapeOK ([IOCall.seekStart off] ++
        (if di.delivered.isEmpty then [] else [IOCall.write di.delivered])) := by
      intro st
      by_cases he : di.delivered.isEmpty = true
      · simp only [he, ↓reduceIte, List.append_nil]
        exact ok_seek st off [] (by omega) (fun _ => trivial)
      · simp only [he, Bool.false_eq_true, ↓reduceIte, List.cons_append, List.nil_append]
        exact ok_seek_write st off _ [] (by omega)
          (by intro hnil; rw [hnil] at he; simp at he) (fun _ => trivial)
    simp only
    split
    · exact hcalls
    · split <;> exact hcalls

theorem writeDataObject_shape (s : Img) (i : Nat) (di : DI) (t : Int) (h0 : 0 ≤ s.h.dataOff) :
    ShapeOK (writeDataObject sha ph s i di t).1 := by
  unfold writeDataObject
  split
  · exact ShapeOK.nil
  · split
    · exact ShapeOK.nil
    · cases primaryCheck ph s di.md with
      | error e => exact ShapeOK.nil
      | ok arch =>
        simp only
        have hc := calculatedDataSize_nonneg s.h s.rds
        have := writeDataObjectAt_shape sha (s.h.dataOff + calculatedDataSize s.h s.rds) di t
          { zeroDesc with id := i + 1 } (by omega)
        rcases hw : writeDataObjectAt sha (s.h.dataOff + calculatedDataSize s.h s.rds) di t
          { zeroDesc with id := i + 1 } with ⟨c, r⟩
        rw [hw] at this
        cases r <;> exact this

/-- `writeDataObject` keeps the table where it is and as long as it is -/
theorem writeDataObject_keeps (s : Img) (i : Nat) (di : DI) (t : Int) :
    (writeDataObject sha ph s i di t).2.1.h.doff = s.h.doff ∧
    (writeDataObject sha ph s i di t).2.1.h.dataOff = s.h.dataOff ∧
    (writeDataObject sha ph s i di t).2.1.rds.length = s.rds.length := by
  rcases writeDataObject_cases sha ph s i di t with ⟨c, e, h⟩ | ⟨c, d, arch, _, _, _, h⟩
  · rw [h]; exact ⟨rfl, rfl, rfl⟩
  · rw [h]; simp [commitObject]

theorem createObjects_keeps (dis : List DI) (k : Nat) (t : Int) (s : Img) :
    (createObjects sha ph dis k t s []).2.1.h.doff = s.h.doff ∧
    (createObjects sha ph dis k t s []).2.1.rds.length = s.rds.length := by
  induction dis generalizing k s with
  | nil => exact ⟨rfl, rfl⟩
  | cons di dis ih =>
    obtain ⟨k1, _, k3⟩ := writeDataObject_keeps sha ph s k di t
    unfold createObjects
    rcases hw : writeDataObject sha ph s k di t with ⟨c, s', r⟩
    rw [hw] at k1 k3
    simp only at k1 k3
    cases r with
    | err e => exact ⟨k1, k3⟩
    | ok =>
      simp only
      rw [createObjects_acc sha ph dis (k + 1) t s' ([] ++ c)]
      obtain ⟨i2, i3⟩ := ih (k + 1) s'
      exact ⟨by rw [i2, k1], by rw [i3, k3]⟩

theorem createObjects_shape (dis : List DI) (k : Nat) (t : Int) (s : Img) (h0 : 0 ≤ s.h.dataOff) :
    ShapeOK (createObjects sha ph dis k t s []).1 ∧
    (createObjects sha ph dis k t s []).2.1.h.doff = s.h.doff ∧
    (createObjects sha ph dis k t s []).2.1.rds.length = s.rds.length := by
  induction dis generalizing k s with
  | nil => exact ⟨ShapeOK.nil, rfl, rfl⟩
  | cons di dis ih =>
    have hs := writeDataObject_shape sha ph s k di t h0
    obtain ⟨k1, k2, k3⟩ := writeDataObject_keeps sha ph s k di t
    unfold createObjects
    rcases hw : writeDataObject sha ph s k di t with ⟨c, s', r⟩
    rw [hw] at hs k1 k2 k3
    simp only at hs k1 k2 k3
    cases r with
    | err e => exact ⟨by simpa using hs, k1, k3⟩
    | ok =>
      simp only
      rw [createObjects_acc sha ph dis (k + 1) t s' ([] ++ c)]
      obtain ⟨i1, i2, i3⟩ := ih (k + 1) s' (by rw [k2]; exact h0)
      refine ⟨?_, by rw [i2, k1], by rw [i3, k3]⟩
      simpa using ShapeOK.append hs i1

/-- the plan of `createContainer` does not depend on the backend, except for the store it starts on -/
theorem createContainerPlan_be (be : Backend) (co : CreateOpts) :
    (createContainerPlan sha ph be co).1 = (createContainerPlan sha ph .buf co).1 ∧
    (createContainerPlan sha ph be co).2.2 = (createContainerPlan sha ph .buf co).2.2 ∧
    (createContainerPlan sha ph be co).2.1.h = (createContainerPlan sha ph .buf co).2.1.h ∧
    (createContainerPlan sha ph be co).2.1.rds = (createContainerPlan sha ph .buf co).2.1.rds ∧
    (createContainerPlan sha ph be co).2.1.minIDs = (createContainerPlan sha ph .buf co).2.1.minIDs := by
  unfold createContainerPlan
  by_cases hc : co.capacity ≥ maxU32
  · simp [hc]
  · simp only [hc, ↓reduceIte]
    have key := createObjects_st sha ph co.dis 0 co.t
      { h := { launch := pad 32 co.launch, magic := hdrMagic, version := curVersion, arch := archUnknown,
               id := co.id, ctime := co.t, mtime := co.t, dfree := co.capacity, dtotal := co.capacity,
               doff := co.doff, dsize := 585 * co.capacity.toNat,
               dataOff := co.doff + 585 * co.capacity.toNat, dataSize := 0 },
        rds := List.replicate co.capacity.toNat zeroDesc, minIDs := [], st := emptyStore .buf }
      (emptyStore be)
    simp only at key
    rw [key]
    rcases createObjects sha ph co.dis 0 co.t _ [] with ⟨c, s2, r⟩
    cases r <;> simp [writeDescriptorsCalls, writeHeaderCalls]

/-- every call `createContainer` issues has a shape on which both backends agree, capacity > 0 -/
theorem createContainerPlan_shape (be : Backend) (co : CreateOpts) (hcap : 0 < co.capacity)
    (hdoff : 0 ≤ co.doff) : ShapeOK (createContainerPlan sha ph be co).1 := by
  unfold createContainerPlan
  by_cases hc : co.capacity ≥ maxU32
  · simp only [hc, ↓reduceIte]; exact ShapeOK.nil
  · simp only [hc, ↓reduceIte]
    obtain ⟨h1, h2, h3⟩ := createObjects_shape sha ph co.dis 0 co.t
      { h := { launch := pad 32 co.launch, magic := hdrMagic, version := curVersion, arch := archUnknown,
               id := co.id, ctime := co.t, mtime := co.t, dfree := co.capacity, dtotal := co.capacity,
               doff := co.doff, dsize := 585 * co.capacity.toNat,
               dataOff := co.doff + 585 * co.capacity.toNat, dataSize := 0 },
        rds := List.replicate co.capacity.toNat zeroDesc, minIDs := [], st := emptyStore be }
      (by simp only; omega)
    rcases hco : createObjects sha ph co.dis 0 co.t _ [] with ⟨c, s2, r⟩
    rw [hco] at h1 h2 h3
    simp only at h1 h2 h3
    cases r with
    | err e => exact h1
    | ok =>
      simp only
      have hne : s2.rds ≠ [] := by
        intro he
        rw [he] at h3
        simp at h3
        omega
      have hf : ShapeOK (flushCalls s2) := fun st => flush_ok s2 st (by rw [h2]; exact hdoff) hne
      have := ShapeOK.append h1 hf
      simpa [flushCalls, List.append_assoc] using this

/-- the table of a created image has as many slots as the capacity asked for -/
theorem createContainerPlan_len (be : Backend) (co : CreateOpts) (hc : co.capacity < maxU32) :
    (createContainerPlan sha ph be co).2.1.rds.length = co.capacity.toNat := by
  unfold createContainerPlan
  simp only [show ¬ co.capacity ≥ maxU32 by omega, ↓reduceIte]
  obtain ⟨_, h3⟩ := createObjects_keeps sha ph co.dis 0 co.t
    { h := { launch := pad 32 co.launch, magic := hdrMagic, version := curVersion, arch := archUnknown,
             id := co.id, ctime := co.t, mtime := co.t, dfree := co.capacity, dtotal := co.capacity,
             doff := co.doff, dsize := 585 * co.capacity.toNat,
             dataOff := co.doff + 585 * co.capacity.toNat, dataSize := 0 },
      rds := List.replicate co.capacity.toNat zeroDesc, minIDs := [], st := emptyStore be }
  rcases hco : createObjects sha ph co.dis 0 co.t _ [] with ⟨c, s2, r⟩
  rw [hco] at h3
  simp only at h3
  cases r <;> simpa using h3

/-- **`CreateContainer` answers the same and leaves byte-identical contents on both backends** -/
theorem createContainer_lockstep (co : CreateOpts) (hcap : 0 < co.capacity) (hdoff : 0 ≤ co.doff) :
    (runPlan (createContainerPlan sha ph .buf co) (emptyStore .buf)).2 =
      (runPlan (createContainerPlan sha ph .file co) (emptyStore .file)).2 ∧
    ImgSim (runPlan (createContainerPlan sha ph .buf co) (emptyStore .buf)).1
      (runPlan (createContainerPlan sha ph .file co) (emptyStore .file)).1 := by
  obtain ⟨e1, e2, e3, e4, e5⟩ := createContainerPlan_be sha ph .file co
  have hs := createContainerPlan_shape sha ph .buf co hcap hdoff
  have hsim : (emptyStore .buf).sim (emptyStore .file) := ⟨rfl, rfl⟩
  obtain ⟨b1, b2, b3⟩ := callsPrefix_bisim _ (emptyStore .buf) (emptyStore .file) hsim (hs _)
  unfold runPlan
  rw [e1]
  rcases ha : (emptyStore .buf).callsPrefix (createContainerPlan sha ph .buf co).1 with ⟨sa, oka⟩
  rcases hb : (emptyStore .file).callsPrefix (createContainerPlan sha ph .buf co).1 with ⟨sb, okb⟩
  rw [ha] at b1 b2
  rw [hb] at b1 b3
  simp only at b1 b2 b3
  subst b2 b3
  simp only
  exact ⟨e2.symm, ⟨e3.symm, e4.symm, e5.symm, b1⟩⟩

end Sif
