/-
  Proofs/Frame.lean — calls that are "safe" for a byte region leave it untouched; safety is
  closed under prefixes and under tearing a write, which is what C03 (bystanders) and C09
  (crash images) need.
-/
import SifVerif.Proofs.Sync
namespace Sif

/-- call `c`, issued on store `st`, does not touch the region `[lo, hi)` -/
def callSafe (lo hi : Nat) (st : Store) : IOCall → Prop
  | .write p => st.pos + p.length ≤ lo ∨ hi ≤ st.pos
  | .truncate n => (hi : Int) ≤ n
  | _ => True

def callsSafe (lo hi : Nat) (st : Store) : List IOCall → Prop
  | [] => True
  | c :: cs => callSafe lo hi st c ∧ ∀ st', st.call c = some st' → callsSafe lo hi st' cs

theorem slice_take_frame (buf : Bytes) (n lo len : Nat) (h : lo + len ≤ n) :
    slice (buf.take n) lo len = slice buf lo len := by
  simp only [slice, List.drop_take, List.take_take]
  congr 1; omega

theorem slice_append_frame (buf ext : Bytes) (lo len : Nat) (h : lo + len ≤ buf.length) :
    slice (buf ++ ext) lo len = slice buf lo len := by
  simp only [slice]
  rw [List.drop_append_of_le_length (by omega), List.take_append_of_le_length (by simp; omega)]

/-- one safe call preserves the region and keeps it inside the store -/
theorem call_frame (lo hi : Nat) (hlh : lo ≤ hi) (st st' : Store) (c : IOCall)
    (hin : hi ≤ st.buf.length) (hs : callSafe lo hi st c) (hc : st.call c = some st') :
    hi ≤ st'.buf.length ∧ slice st'.buf lo (hi - lo) = slice st.buf lo (hi - lo) := by
  cases c with
  | seekStart off =>
    simp only [Store.call, Store.seekStart] at hc
    split at hc
    · cases hc
    · cases hc; exact ⟨hin, rfl⟩
  | seekEnd => simp only [Store.call, Store.seekEnd, Option.some.injEq] at hc; subst hc; exact ⟨hin, rfl⟩
  | write p =>
    simp only [callSafe] at hs
    have key : hi ≤ (writeAt st.buf st.pos p).length ∧
        slice (writeAt st.buf st.pos p) lo (hi - lo) = slice st.buf lo (hi - lo) := by
      refine ⟨by simp; omega, ?_⟩
      exact slice_writeAt_frame st.buf st.pos p lo (hi - lo) (by omega) (by omega)
    simp only [Store.call, Store.write, Option.some.injEq] at hc
    cases hbe : st.be with
    | buf => simp only [hbe] at hc; subst hc; exact key
    | file =>
      simp only [hbe] at hc
      split at hc
      · subst hc; exact ⟨hin, rfl⟩
      · subst hc; exact key
  | truncate n =>
    simp only [callSafe] at hs
    simp only [Store.call, Store.truncate] at hc
    split at hc
    · cases hc
    · have hn : hi ≤ n.toNat := by omega
      cases hbe : st.be with
      | buf =>
        simp only [hbe] at hc
        split at hc
        · cases hc
        · cases hc
          refine ⟨by simp; omega, ?_⟩
          exact slice_take_frame st.buf n.toNat lo (hi - lo) (by omega)
      | file =>
        simp only [hbe, Option.some.injEq] at hc
        subst hc
        refine ⟨by simp; omega, ?_⟩
        rw [slice_take_frame _ n.toNat lo (hi - lo) (by omega)]
        exact slice_append_frame _ _ _ _ (by omega)

/-- a safe call sequence preserves the region -/
theorem calls_frame (lo hi : Nat) (hlh : lo ≤ hi) (cs : List IOCall) (st st' : Store)
    (hin : hi ≤ st.buf.length) (hs : callsSafe lo hi st cs) (hc : st.calls cs = some st') :
    hi ≤ st'.buf.length ∧ slice st'.buf lo (hi - lo) = slice st.buf lo (hi - lo) := by
  induction cs generalizing st with
  | nil => simp only [Store.calls, Option.some.injEq] at hc; subst hc; exact ⟨hin, rfl⟩
  | cons c cs ih =>
    simp only [Store.calls] at hc
    cases h1 : st.call c with
    | none => simp [h1] at hc
    | some s1 =>
      simp only [h1] at hc
      obtain ⟨a1, a2⟩ := call_frame lo hi hlh st s1 c hin hs.1 h1
      obtain ⟨b1, b2⟩ := ih s1 a1 (hs.2 s1 h1) hc
      exact ⟨b1, by rw [b2, a2]⟩

/-- safety is closed under prefixes (crash between calls) -/
theorem callsSafe_prefix (lo hi : Nat) (a b : List IOCall) (st : Store)
    (h : callsSafe lo hi st (a ++ b)) : callsSafe lo hi st a := by
  induction a generalizing st with
  | nil => trivial
  | cons c cs ih => exact ⟨h.1, fun st' hc => ih st' (h.2 st' hc)⟩

/-- … and under tearing a write (a byte prefix of the data reaches the store) -/
theorem callSafe_torn (lo hi : Nat) (st : Store) (p : Bytes) (j : Nat)
    (h : callSafe lo hi st (.write p)) : callSafe lo hi st (.write (p.take j)) := by
  simp only [callSafe, List.length_take] at *
  omega

theorem callsSafe_append (lo hi : Nat) (hlh : lo ≤ hi) (a b : List IOCall) (st : Store)
    (hin : hi ≤ st.buf.length) (ha : callsSafe lo hi st a)
    (hb : ∀ st', hi ≤ st'.buf.length → callsSafe lo hi st' b) : callsSafe lo hi st (a ++ b) := by
  induction a generalizing st with
  | nil => exact hb st hin
  | cons c cs ih =>
    refine ⟨ha.1, fun st' hc => ?_⟩
    exact ih st' (call_frame lo hi hlh st st' c hin ha.1 hc).1 (ha.2 st' hc)

/-! ### the call patterns of the library -/

/-- `Seek(off); Write(p)` away from the region -/
theorem safe_seek_write (lo hi : Nat) (st : Store) (off : Int) (p : Bytes) (rest : List IOCall)
    (hd : off.toNat + p.length ≤ lo ∨ hi ≤ off.toNat)
    (hrest : ∀ st', callsSafe lo hi st' rest) :
    callsSafe lo hi st (.seekStart off :: .write p :: rest) := by
  refine ⟨trivial, fun s1 h1 => ⟨?_, fun s2 _ => hrest s2⟩⟩
  simp only [Store.call, Store.seekStart] at h1
  split at h1
  · cases h1
  · cases h1; exact hd

theorem safe_seek (lo hi : Nat) (st : Store) (off : Int) (rest : List IOCall)
    (hrest : ∀ st', callsSafe lo hi st' rest) : callsSafe lo hi st (.seekStart off :: rest) :=
  ⟨trivial, fun s1 _ => hrest s1⟩

/-- `writeDescriptors(); writeHeader()` never touch a region at or beyond the data offset -/
theorem flush_safe (lo hi : Nat) (s' : Img) (st : Store) (h0 : 128 ≤ s'.h.doff)
    (hlo : s'.h.doff + 585 * s'.rds.length ≤ lo) : callsSafe lo hi st (flushCalls s') := by
  simp only [flushCalls, writeDescriptorsCalls, writeHeaderCalls, List.cons_append, List.nil_append]
  apply safe_seek_write
  · left; simp; omega
  · intro st'
    apply safe_seek_write
    · left; simp; omega
    · intro _; trivial

end Sif
