/-
  Proofs/Layout.lean — the header and descriptor codecs: sizes, field offsets, round trips.
-/
import SifVerif.Model.Layout
import SifVerif.Proofs.Bytes
namespace Sif

/-! range predicates: the values Go's fixed-width types can hold -/
def I64 (x : Int) : Prop := -9223372036854775808 ≤ x ∧ x ≤ 9223372036854775807
def I32 (x : Int) : Prop := -2147483648 ≤ x ∧ x ≤ 2147483647
def U32 (n : Nat) : Prop := n < 4294967296

instance (x : Int) : Decidable (I64 x) := by unfold I64; infer_instance
instance (x : Int) : Decidable (I32 x) := by unfold I32; infer_instance
instance (n : Nat) : Decidable (U32 n) := by unfold U32; infer_instance

theorem decS8_encS8 (x : Int) (h : I64 x) : decS 8 (encS 8 x) = x := by
  unfold I64 at h
  have e : (256 ^ 8 : Nat) = 18446744073709551616 := by decide
  exact decS_encS 8 x (by rw [e]; omega) (by rw [e]; omega)

theorem decS4_encS4 (x : Int) (h : I32 x) : decS 4 (encS 4 x) = x := by
  unfold I32 at h
  have e : (256 ^ 4 : Nat) = 4294967296 := by decide
  exact decS_encS 4 x (by rw [e]; omega) (by rw [e]; omega)

theorem decU4_encU4 (n : Nat) (h : U32 n) : decU (encU 4 n) = n := by
  unfold U32 at h
  have e : (256 ^ 4 : Nat) = 4294967296 := by decide
  exact decU_encU 4 n (by rw [e]; omega)

/-- well-formed (Go-representable) header: array fields of their fixed lengths, int64 in range -/
structure Hdr.Valid (h : Hdr) : Prop where
  launch : h.launch.length = 32
  magic : h.magic.length = 10
  version : h.version.length = 3
  arch : h.arch.length = 3
  id : h.id.length = 16
  ctime : I64 h.ctime
  mtime : I64 h.mtime
  dfree : I64 h.dfree
  dtotal : I64 h.dtotal
  doff : I64 h.doff
  dsize : I64 h.dsize
  dataOff : I64 h.dataOff
  dataSize : I64 h.dataSize

structure RawDesc.Valid (d : RawDesc) : Prop where
  dtype : I32 d.dtype
  id : U32 d.id
  gid : U32 d.gid
  link : U32 d.link
  off : I64 d.off
  size : I64 d.size
  sizePad : I64 d.sizePad
  ctime : I64 d.ctime
  mtime : I64 d.mtime
  uid : I64 d.uid
  gidOwner : I64 d.gidOwner
  name : d.name.length = 128
  extra : d.extra.length = 384

@[simp] theorem encHdr_length (h : Hdr) : (encHdr h).length = 128 := by
  simp [encHdr]

@[simp] theorem encDesc_length (d : RawDesc) : (encDesc d).length = 585 := by
  simp [encDesc]

theorem slice_skip (a b : Bytes) (off len : Nat) (h : a.length ≤ off) :
    slice (a ++ b) off len = slice b (off - a.length) len :=
  slice_append_right a b off len h

theorem slice_take (a b : Bytes) (len : Nat) (h : a.length = len) :
    slice (a ++ b) 0 len = a := slice_append_left a b len h

theorem decHdr_encHdr (h : Hdr) (v : h.Valid) : decHdr (encHdr h) = h := by
  obtain ⟨h1, h2, h3, h4, h5, c1, c2, c3, c4, c5, c6, c7, c8⟩ := v
  cases h
  simp only at *
  simp only [encHdr, decHdr, List.append_assoc, pad_of_length _ _ h1, pad_of_length _ _ h2,
    pad_of_length _ _ h3, pad_of_length _ _ h4, pad_of_length _ _ h5]
  simp [slice_skip, slice_take, slice_exact, h1, h2, h3, h4, h5, decS8_encS8, c1, c2, c3, c4, c5,
    c6, c7, c8]

theorem decDesc_encDesc (d : RawDesc) (v : d.Valid) : decDesc (encDesc d) = d := by
  obtain ⟨c1, c2, c3, c4, c5, c6, c7, c8, c9, c10, c11, h1, h2⟩ := v
  cases d
  simp only at *
  simp only [encDesc, decDesc, List.append_assoc, pad_of_length _ _ h1, pad_of_length _ _ h2]
  simp [slice_skip, slice_take, slice_exact, h1, h2, decS8_encS8, decS4_encS4, decU4_encU4,
    decBool_encBool, c1, c2, c3, c4, c5, c6, c7, c8, c9, c10, c11]

end Sif
