/-
  Proofs/Primary.lean — the primary-partition clause of C02 on the abstract reference model:
  at most one primary system partition exists and the image architecture is that partition's
  (unknown if there is none), along every history whose operations do not write partition
  metadata as raw bytes (the complement is finding D7).
-/
import SifVerif.Model.Spec
import SifVerif.Proofs.Layout
import SifVerif.Proofs.Refine
namespace Sif

open AImg

/-! ### the partition record inside the metadata field -/
theorem encPartition_length (fs pt : Int) (ar : Bytes) : (encPartition fs pt ar).length = 11 := by
  simp [encPartition, encS]

theorem pad_of_le (n : Nat) (b : Bytes) (h : b.length ≤ n) : pad n b = b ++ zeros (n - b.length) := by
  simp [pad, List.take_of_length_le h]

theorem slice_mid (a b c : Bytes) (n m : Nat) (hn : a.length = n) (hm : b.length = m) :
    slice (a ++ (b ++ c)) n m = b := by
  subst hn hm
  simp [slice]

theorem partType_of_extra (d : RawDesc) (fs pt : Int) (ar : Bytes) (h : I32 pt)
    (he : d.extra = pad 384 (encPartition fs pt ar)) : d.partType = pt := by
  unfold RawDesc.partType
  rw [he, pad_of_le 384 _ (by rw [encPartition_length]; omega)]
  have : slice (encPartition fs pt ar ++ zeros (384 - (encPartition fs pt ar).length)) 4 4 = encS 4 pt := by
    unfold encPartition
    rw [List.append_assoc, List.append_assoc]
    exact slice_mid _ _ _ 4 4 (encS_length 4 fs) (encS_length 4 pt)
  rw [this, decS4_encS4 pt h]

theorem partArch_of_extra (d : RawDesc) (fs pt : Int) (ar : Bytes)
    (he : d.extra = pad 384 (encPartition fs pt ar)) : d.partArch = pad 3 ar := by
  unfold RawDesc.partArch
  rw [he, pad_of_le 384 _ (by rw [encPartition_length]; omega)]
  unfold encPartition
  have h8 : (encS 4 fs ++ encS 4 pt).length = 8 := by simp [encS_length]
  rw [List.append_assoc (encS 4 fs ++ encS 4 pt)]
  exact slice_mid _ _ _ 8 3 h8 (pad_length 3 ar)

/-! ### the invariant -/

/-- at most one primary system partition; the image architecture is that partition's, `unknown`
    when there is none -/
def AImg.PrimInv (a : AImg) : Prop :=
  (∀ (i j : Nat) oi oj, a.slots[i]? = some (some oi) → a.slots[j]? = some (some oj) →
      isPrimary oi = true → isPrimary oj = true → i = j) ∧
  (∀ (i : Nat) o, a.slots[i]? = some (some o) → isPrimary o = true → a.arch = pad 3 o.d.partArch) ∧
  ((∀ (i : Nat) o, a.slots[i]? = some (some o) → isPrimary o = false) → a.arch = archUnknown)

/-- operations that do not write partition metadata as raw bytes: an added partition describes
    itself through the partition option (3-byte architecture code, 32-bit partition type), and
    set-metadata is not aimed at a partition.  (What happens otherwise is finding D7.) -/
def Op.partClean (a : AImg) : Op → Prop
  | .add di _ =>
    (match di.md with
     | .part _ pt ar => di.dt = dtPartition ∧ ar.length = 3 ∧ I32 pt
     | .nil => True
     | .fail => True
     | _ => di.dt ≠ dtPartition)
  | .setMeta oid _ _ => ∀ (i : Nat) o, a.slots[i]? = some (some o) → o.d.id = oid → o.d.dtype ≠ dtPartition
  | _ => True

theorem mem_objs (a : AImg) (o : AObj) : o ∈ a.objs ↔ ∃ i : Nat, a.slots[i]? = some (some o) := by
  simp only [AImg.objs, List.mem_filterMap]
  constructor
  · rintro ⟨x, hx, rfl⟩
    obtain ⟨i, hi, h⟩ := List.getElem_of_mem hx
    exact ⟨i, by rw [List.getElem?_eq_getElem hi, h]⟩
  · rintro ⟨i, hi⟩
    exact ⟨some o, List.mem_of_getElem? hi, rfl⟩

theorem hasPrimary_iff (a : AImg) :
    a.hasPrimary = true ↔ ∃ (i : Nat) (o : AObj), a.slots[i]? = some (some o) ∧ isPrimary o = true := by
  simp only [AImg.hasPrimary, List.any_eq_true]
  constructor
  · rintro ⟨o, ho, hp⟩
    obtain ⟨i, hi⟩ := (mem_objs a o).1 ho
    exact ⟨i, o, hi, hp⟩
  · rintro ⟨i, o, hi, hp⟩
    exact ⟨o, (mem_objs a o).2 ⟨i, hi⟩, hp⟩

theorem freeSlot_go_ge (a : AImg) (os : List (Option AObj)) (i : Nat) : i ≤ AImg.freeSlot.go a os i := by
  induction os generalizing i with
  | nil => simp [AImg.freeSlot.go]
  | cons x xs ih =>
    simp only [AImg.freeSlot.go]
    split
    · omega
    · have := ih (i + 1); omega

theorem freeSlot_go_none (a : AImg) (os : List (Option AObj)) (i : Nat)
    (h : AImg.freeSlot.go a os i < i + os.length) :
    os[AImg.freeSlot.go a os i - i]? = some none := by
  induction os generalizing i with
  | nil => simp [AImg.freeSlot.go] at h
  | cons o os ih =>
    simp only [AImg.freeSlot.go] at h ⊢
    by_cases hc : (o.isNone && !a.idTaken (i + 1)) = true
    · simp only [hc, ↓reduceIte, Nat.sub_self, List.getElem?_cons_zero]
      simp only [Bool.and_eq_true, Option.isNone_iff_eq_none] at hc
      rw [hc.1]
    · simp only [hc, Bool.false_eq_true, ↓reduceIte] at h ⊢
      have hge : i + 1 ≤ AImg.freeSlot.go a os (i + 1) := freeSlot_go_ge a os (i + 1)
      have := ih (i + 1) (by simp only [List.length_cons] at h; omega)
      have e : AImg.freeSlot.go a os (i + 1) - i = (AImg.freeSlot.go a os (i + 1) - (i + 1)) + 1 := by omega
      rw [e]; simpa using this

theorem freeSlot_none (a : AImg) (h : a.freeSlot < a.slots.length) : a.slots[a.freeSlot]? = some none := by
  have := freeSlot_go_none a a.slots 0 (by simpa [AImg.freeSlot] using h)
  simpa [AImg.freeSlot] using this

theorem findOneSlot_none (p : AObj → Bool) (os : List (Option AObj)) (i : Nat)
    (h : AImg.findOneSlot p os i none = .ok none) : ∀ (k : Nat) o, os[k]? = some (some o) → p o = false := by
  induction os generalizing i with
  | nil => intro k o hk; simp at hk
  | cons x xs ih =>
    intro k o hk
    cases x with
    | none =>
      simp only [AImg.findOneSlot] at h
      cases k with
      | zero => simp at hk
      | succ k => exact ih (i + 1) h k o (by simpa using hk)
    | some y =>
      simp only [AImg.findOneSlot] at h
      by_cases hp : p y = true
      · simp only [hp, ↓reduceIte] at h
        -- the accumulator stays `some`
        exfalso
        have : ∀ (zs : List (Option AObj)) (j a : Nat), AImg.findOneSlot p zs j (some a) ≠ .ok none := by
          intro zs
          induction zs with
          | nil => intro j a; simp [AImg.findOneSlot]
          | cons z zs ihz =>
            intro j a
            cases z with
            | none => simpa [AImg.findOneSlot] using ihz (j + 1) a
            | some w =>
              simp only [AImg.findOneSlot]
              by_cases hw : p w = true
              · simp [hw]
              · simp only [hw, Bool.false_eq_true, ↓reduceIte]; exact ihz (j + 1) a
        exact this xs (i + 1) i h
      · simp only [hp, Bool.false_eq_true, ↓reduceIte] at h
        cases k with
        | zero =>
          simp only [List.getElem?_cons_zero, Option.some.injEq] at hk
          subst hk
          simpa using hp
        | succ k => exact ih (i + 1) h k o (by simpa using hk)

/-! ### two ways a slot can change -/

/-- a slot that held no primary partition receives an object that is not one either -/
theorem PrimInv_set_nonprimary (a a' : AImg) (H : a.PrimInv) (i : Nat) (o' : AObj)
    (hold : ∀ o, a.slots[i]? = some (some o) → isPrimary o = false) (hnew : isPrimary o' = false)
    (hs : a'.slots = a.slots.set i (some o')) (ha : a'.arch = a.arch) : a'.PrimInv := by
  obtain ⟨h1, h2, h3⟩ := H
  have F : ∀ (j : Nat) o2, a'.slots[j]? = some (some o2) → isPrimary o2 = true →
      a.slots[j]? = some (some o2) := by
    intro j o2 hj hp
    rw [hs] at hj
    by_cases hij : i = j
    · subst hij
      rw [List.getElem?_set_self'] at hj
      cases hx : a.slots[i]? with
      | none => rw [hx] at hj; cases hj
      | some x =>
        rw [hx] at hj
        simp only [Option.map_eq_map, Option.map_some, Function.const_apply, Option.some.injEq] at hj
        subst hj; rw [hnew] at hp; cases hp
    · rwa [List.getElem?_set_ne hij] at hj
  have G : ∀ (j : Nat) o2, a.slots[j]? = some (some o2) → isPrimary o2 = true →
      a'.slots[j]? = some (some o2) := by
    intro j o2 hj hp
    rw [hs]
    by_cases hij : i = j
    · subst hij; rw [hold o2 hj] at hp; cases hp
    · rwa [List.getElem?_set_ne hij]
  refine ⟨?_, ?_, ?_⟩
  · intro i1 j1 oi oj hi hj pi pj
    exact h1 i1 j1 oi oj (F _ _ hi pi) (F _ _ hj pj) pi pj
  · intro j o2 hj hp
    rw [ha]; exact h2 j o2 (F _ _ hj hp) hp
  · intro hnone
    rw [ha]
    apply h3
    intro j o2 hj
    cases hp : isPrimary o2 with
    | false => rfl
    | true => have := hnone j o2 (G j o2 hj hp); rw [this] at hp; cases hp

/-- an image without a primary partition receives one -/
theorem PrimInv_set_primary (a a' : AImg) (hno : a.hasPrimary = false) (i : Nat) (hi : i < a.slots.length)
    (o' : AObj) (hp' : isPrimary o' = true) (hs : a'.slots = a.slots.set i (some o'))
    (ha : a'.arch = pad 3 o'.d.partArch) : a'.PrimInv := by
  have hnone : ∀ (j : Nat) o2, a.slots[j]? = some (some o2) → isPrimary o2 = false := by
    intro j o2 hj
    cases hp : isPrimary o2 with
    | false => rfl
    | true =>
      have := (hasPrimary_iff a).2 ⟨j, o2, hj, hp⟩
      rw [hno] at this; cases this
  have F : ∀ (j : Nat) o2, a'.slots[j]? = some (some o2) → isPrimary o2 = true → j = i ∧ o2 = o' := by
    intro j o2 hj hp
    rw [hs] at hj
    by_cases hij : i = j
    · subst hij
      rw [List.getElem?_set_self hi] at hj
      simp only [Option.some.injEq] at hj
      exact ⟨rfl, hj.symm⟩
    · rw [List.getElem?_set_ne hij] at hj
      rw [hnone j o2 hj] at hp; cases hp
  refine ⟨?_, ?_, ?_⟩
  · intro i1 j1 oi oj h1 h2 p1 p2
    rw [(F _ _ h1 p1).1, (F _ _ h2 p2).1]
  · intro j o2 hj hp
    rw [(F _ _ hj hp).2]; exact ha
  · intro hall
    exfalso
    have hgi : a'.slots[i]? = some (some o') := by rw [hs, List.getElem?_set_self hi]
    have hnp := hall i o' hgi
    rw [hp'] at hnp; cases hnp

/-! ### add -/
theorem fillDescriptor_fields (sha : Bytes → Bytes) (di : DI) (copied : Bytes) (t : Int) (d0 d : RawDesc)
    (h : fillDescriptor sha di copied t d0 = .ok d) :
    d.dtype = di.dt ∧
    (match di.md.marshal sha copied with
     | .ok (some b) => d.extra = pad 384 b
     | .ok none => d.extra = d0.extra
     | .error _ => False) := by
  unfold fillDescriptor at h
  dsimp only at h
  split at h
  · cases h
  · unfold setExtra at h
    cases hm : di.md.marshal sha copied with
    | error e => simp [hm] at h
    | ok ob =>
      cases ob with
      | none => simp only [hm] at h; cases h; exact ⟨rfl, rfl⟩
      | some b =>
        simp only [hm] at h
        split at h
        · cases h
        · cases h; exact ⟨rfl, rfl⟩

theorem zero_extra_partType : decS 4 (slice (zeros 384) 4 4) = 0 := by decide

theorem add_prim (sha : Bytes → Bytes) (a : AImg) (H : a.PrimInv) (di : DI) (topt : TOpt) (now : Int)
    (hc : Op.partClean a (.add di topt)) : (a.add sha di topt now).1.PrimInv := by
  unfold AImg.add
  dsimp only
  split
  · exact H
  · rename_i hcap
    split
    · exact H
    · rename_i hwp
      split
      · exact H
      · cases hfd : fillDescriptor sha di di.content (a.time topt now) { zeroDesc with id := a.freeSlot + 1 } with
        | error e => exact H
        | ok d =>
          dsimp only
          obtain ⟨hdt, hex⟩ := fillDescriptor_fields sha di di.content _ _ d hfd
          have hi : a.freeSlot < a.slots.length := by
            unfold AImg.capacity at hcap; omega
          have hfree := freeSlot_none a hi
          have hold : ∀ o, a.slots[a.freeSlot]? = some (some o) → isPrimary o = false := by
            intro o ho; rw [hfree] at ho; cases ho
          have hprim : isPrimary (AObj.fresh d di.content) = d.isPartitionOfType partPrimSys := rfl
          simp only [Op.partClean] at hc
          cases hmd : di.md with
          | part fs pt ar =>
            rw [hmd] at hc hex hwp
            obtain ⟨c1, c2, c3⟩ := hc
            simp only [MDIn.marshal] at hex
            have hpt := partType_of_extra d fs pt ar c3 hex
            have har := partArch_of_extra d fs pt ar hex
            by_cases hpp : pt == partPrimSys
            · -- a primary partition arrives: there was none
              have hno : a.hasPrimary = false := by
                cases hh : a.hasPrimary with
                | false => rfl
                | true => simp [MDIn.wantsPrimary, hpp, hh] at hwp
              apply PrimInv_set_primary a _ hno a.freeSlot hi (AObj.fresh d di.content)
              · rw [hprim]
                simp only [RawDesc.isPartitionOfType, hdt, c1, hpt, beq_self_eq_true, Bool.true_and]
                exact hpp
              · rfl
              · show MDIn.primaryArch (.part fs pt ar) a.arch = pad 3 (AObj.fresh d di.content).d.partArch
                have : (AObj.fresh d di.content).d.partArch = d.partArch := rfl
                rw [this, har]
                simp [MDIn.primaryArch, hpp, pad_of_length 3 ar c2]
            · apply PrimInv_set_nonprimary a _ H a.freeSlot (AObj.fresh d di.content) hold
              · rw [hprim]
                simp only [RawDesc.isPartitionOfType, hpt]
                simp [hpp]
              · rfl
              · show MDIn.primaryArch (.part fs pt ar) a.arch = a.arch
                simp [MDIn.primaryArch, hpp]
          | nil =>
            rw [hmd] at hex
            simp only [MDIn.marshal] at hex
            apply PrimInv_set_nonprimary a _ H a.freeSlot (AObj.fresh d di.content) hold
            · rw [hprim]
              simp only [RawDesc.isPartitionOfType, RawDesc.partType, hex, zeroDesc, zero_extra_partType]
              simp [partPrimSys]
            · rfl
            · rfl
          | fail =>
            rw [hmd] at hex
            simp only [MDIn.marshal] at hex
          | raw b =>
            rw [hmd] at hc
            apply PrimInv_set_nonprimary a _ H a.freeSlot (AObj.fresh d di.content) hold
            · rw [hprim]
              simp only [RawDesc.isPartitionOfType, hdt]
              simp [hc]
            · rfl
            · rfl
          | ociAuto =>
            rw [hmd] at hc
            apply PrimInv_set_nonprimary a _ H a.freeSlot (AObj.fresh d di.content) hold
            · rw [hprim]
              simp only [RawDesc.isPartitionOfType, hdt]
              simp [hc]
            · rfl
            · rfl
          | ociText tx =>
            rw [hmd] at hc
            apply PrimInv_set_nonprimary a _ H a.freeSlot (AObj.fresh d di.content) hold
            · rw [hprim]
              simp only [RawDesc.isPartitionOfType, hdt]
              simp [hc]
            · rfl
            · rfl

/-! ### delete -/
theorem del_prim (ph : Bytes → Option Bytes) (a : AImg) (H : a.PrimInv) (sel : Sel) (topt : TOpt) (now : Int) :
    (a.del ph sel topt now).1.PrimInv := by
  unfold AImg.del
  split
  · exact H
  · split
    · exact H
    · obtain ⟨h1, h2, h3⟩ := H
      -- what survives was there before and is not denoted by the selector
      have F : ∀ (j : Nat) o, (a.slots.map (fun s => match s with
            | some o => if sel.sat ph o.d then none else some o
            | none => none))[j]? = some (some o) →
          a.slots[j]? = some (some o) ∧ sel.sat ph o.d = false := by
        intro j o hj
        rw [List.getElem?_map] at hj
        cases hx : a.slots[j]? with
        | none => rw [hx] at hj; cases hj
        | some x =>
          rw [hx] at hj
          cases x with
          | none => simp at hj
          | some y =>
            simp only [Option.map_some, Option.some.injEq] at hj
            by_cases hs : sel.sat ph y.d = true
            · simp [hs] at hj
            · simp only [hs, Bool.false_eq_true, ↓reduceIte, Option.some.injEq] at hj
              subst hj
              exact ⟨rfl, by simpa using hs⟩
      have G : ∀ (j : Nat) o, a.slots[j]? = some (some o) → sel.sat ph o.d = false →
          (a.slots.map (fun s => match s with
            | some o => if sel.sat ph o.d then none else some o
            | none => none))[j]? = some (some o) := by
        intro j o hj hs
        rw [List.getElem?_map, hj]
        simp [hs]
      dsimp only
      refine ⟨?_, ?_, ?_⟩
      · intro i j oi oj hi hj pi pj
        exact h1 i j oi oj (F _ _ hi).1 (F _ _ hj).1 pi pj
      · intro j o hj hp
        obtain ⟨hj0, hs⟩ := F j o hj
        have hnot : a.objs.any (fun o => sel.sat ph o.d && isPrimary o) = false := by
          rw [List.any_eq_false]
          intro x hx
          obtain ⟨k, hk⟩ := (mem_objs a x).1 hx
          intro hc
          simp only [Bool.and_eq_true] at hc
          have := h1 k j x o hk hj0 hc.2 hp
          subst this
          rw [hj0] at hk
          simp only [Option.some.injEq] at hk
          subst hk
          rw [hs] at hc; exact absurd hc.1 (by simp)
        simp only [hnot, Bool.false_eq_true, ↓reduceIte]
        exact h2 j o hj0 hp
      · intro hall
        cases hany : a.objs.any (fun o => sel.sat ph o.d && isPrimary o) with
        | true => simp
        | false =>
          simp only [Bool.false_eq_true, ↓reduceIte]
          apply h3
          intro j o hj
          cases hp : isPrimary o with
          | false => rfl
          | true =>
            cases hs : sel.sat ph o.d with
            | false => have := hall j o (G j o hj hs); rw [this] at hp; cases hp
            | true =>
              rw [List.any_eq_false] at hany
              have := hany o ((mem_objs a o).2 ⟨j, hj⟩)
              simp [hs, hp] at this

/-! ### set metadata / set OCI digest -/
theorem setExtra_dtype (sha : Bytes → Bytes) (copied : Bytes) (md : MDIn) (d d' : RawDesc)
    (h : setExtra sha copied md d = .ok d') : d'.dtype = d.dtype := by
  unfold setExtra at h
  cases hm : md.marshal sha copied with
  | error e => simp [hm] at h
  | ok ob =>
    cases ob with
    | none => simp only [hm] at h; cases h; rfl
    | some b =>
      simp only [hm] at h
      split at h
      · cases h
      · cases h; rfl

theorem getD_some (l : List (Option AObj)) (i : Nat) (o : AObj) (h : l.getD i none = some o) :
    l[i]? = some (some o) := by
  rw [List.getD_eq_getElem?_getD] at h
  cases hx : l[i]? with
  | none => rw [hx] at h; cases h
  | some x => rw [hx] at h; simp only [Option.getD_some] at h; rw [h]

theorem setExtraAt_prim (sha : Bytes → Bytes) (a : AImg) (H : a.PrimInv) (i : Nat) (md : MDIn) (t : Int)
    (hnp : ∀ o, a.slots[i]? = some (some o) → o.d.dtype ≠ dtPartition) :
    (a.setExtraAt sha i md t).1.PrimInv := by
  unfold AImg.setExtraAt
  cases hg : a.slots.getD i none with
  | none => exact H
  | some o =>
    dsimp only
    have hgi := getD_some a.slots i o hg
    have hdt := hnp o hgi
    cases hse : setExtra sha [] md o.d with
    | error e => exact H
    | ok d =>
      dsimp only
      have hd := setExtra_dtype sha [] md o.d d hse
      apply PrimInv_set_nonprimary a _ H i { o with d := { d with mtime := t } }
      · intro o2 ho2
        rw [hgi] at ho2
        simp only [Option.some.injEq] at ho2
        subst ho2
        simp [AImg.isPrimary, RawDesc.isPartitionOfType, hdt]
      · simp only [AImg.isPrimary, RawDesc.isPartitionOfType]
        have : ({ d with mtime := t } : RawDesc).dtype = d.dtype := rfl
        rw [this, hd]
        simp [hdt]
      · rfl
      · rfl

theorem slotOfID_spec (a : AImg) (oid i : Nat) (h : a.slotOfID oid = .ok i) :
    ∃ o, a.slots[i]? = some (some o) ∧ o.d.id = oid := by
  unfold AImg.slotOfID at h
  split at h
  · cases h
  · split at h
    · cases h
    · cases h
    · rename_i k hk
      cases h
      obtain ⟨_, o, ho, hp⟩ := findOneSlot_some _ _ 0 i hk
      exact ⟨o, by simpa using ho, by simpa using hp⟩

theorem isOCIType_ne_partition (dt : Int) (h : isOCIType dt = true) : dt ≠ dtPartition := by
  intro he
  subst he
  simp [isOCIType, dtPartition, dtOCIRootIndex, dtOCIBlob] at h

theorem setMeta_prim (sha : Bytes → Bytes) (a : AImg) (H : a.PrimInv) (oid : Nat) (md : MDIn) (topt : TOpt)
    (now : Int) (hc : Op.partClean a (.setMeta oid md topt)) : (a.setMeta sha oid md topt now).1.PrimInv := by
  unfold AImg.setMeta
  cases hs : a.slotOfID oid with
  | error e => exact H
  | ok i =>
    dsimp only
    obtain ⟨o, ho, hid⟩ := slotOfID_spec a oid i hs
    apply setExtraAt_prim sha a H i md _
    intro o2 ho2
    rw [ho] at ho2
    simp only [Option.some.injEq] at ho2
    subst ho2
    exact hc i o ho hid

theorem setOCI_prim (sha : Bytes → Bytes) (a : AImg) (H : a.PrimInv) (oid : Nat) (text : Bytes) (topt : TOpt)
    (now : Int) : (a.setOCI sha oid text topt now).1.PrimInv := by
  unfold AImg.setOCI
  cases hs : a.slotOfID oid with
  | error e => exact H
  | ok i =>
    dsimp only
    cases hg : a.slots.getD i none with
    | none => exact H
    | some o =>
      dsimp only
      have hgi := getD_some a.slots i o hg
      by_cases hoci : isOCIType o.d.dtype = true
      · simp only [hoci, Bool.not_true, Bool.false_eq_true, ↓reduceIte]
        apply setExtraAt_prim sha a H i _ _
        intro o2 ho2
        rw [hgi] at ho2
        simp only [Option.some.injEq] at ho2
        subst ho2
        exact isOCIType_ne_partition _ hoci
      · simp only [hoci, Bool.not_false, ↓reduceIte]
        exact H

/-! ### set primary partition -/
theorem setPartType_facts (x : AObj) (pt : Int) (t : Int) (hpt : I32 pt) :
    (AImg.setPartType x pt t).d.dtype = x.d.dtype ∧ (AImg.setPartType x pt t).d.partType = pt ∧
    (AImg.setPartType x pt t).d.partArch = pad 3 x.d.partArch :=
  ⟨rfl, partType_of_extra _ x.d.partFS pt x.d.partArch hpt rfl, partArch_of_extra _ x.d.partFS pt x.d.partArch rfl⟩

theorem setPrim_prim (a : AImg) (H : a.PrimInv) (oid : Nat) (topt : TOpt) (now : Int) :
    (a.setPrim oid topt now).1.PrimInv := by
  unfold AImg.setPrim
  dsimp only
  cases hs : a.slotOfID oid with
  | error e => exact H
  | ok i =>
    dsimp only
    cases hg : a.slots.getD i none with
    | none => exact H
    | some o =>
      dsimp only
      have hgi := getD_some a.slots i o hg
      have hil : i < a.slots.length := by
        rcases Nat.lt_or_ge i a.slots.length with h | h
        · exact h
        · rw [List.getElem?_eq_none h] at hgi; cases hgi
      split
      · exact H
      · rename_i hdt
        split
        · exact H
        · rename_i hpp
          split
          · exact H
          · have hdt' : o.d.dtype = dtPartition := by simpa using hdt
            have honp : isPrimary o = false := by
              simp only [AImg.isPrimary, RawDesc.isPartitionOfType]
              simp [hpp]
            obtain ⟨n1, n2, n3⟩ := setPartType_facts o partPrimSys (a.time topt now) (by decide)
            have hnewp : isPrimary (AImg.setPartType o partPrimSys (a.time topt now)) = true := by
              simp only [AImg.isPrimary, RawDesc.isPartitionOfType, n1, n2, hdt']
              simp
            have harch : pad 3 o.d.partArch =
                pad 3 (AImg.setPartType o partPrimSys (a.time topt now)).d.partArch := by
              rw [n3, pad_pad]
            cases hf : AImg.findOneSlot isPrimary a.slots 0 none with
            | error e => exact H
            | ok oj =>
              dsimp only
              cases oj with
              | none =>
                dsimp only
                have hnone := findOneSlot_none _ _ 0 hf
                have hno : a.hasPrimary = false := by
                  cases hh : a.hasPrimary with
                  | false => rfl
                  | true =>
                    obtain ⟨k, x, hk, hp⟩ := (hasPrimary_iff a).1 hh
                    rw [hnone k x hk] at hp; cases hp
                exact PrimInv_set_primary a _ hno i hil _ hnewp rfl harch
              | some j =>
                dsimp only
                obtain ⟨_, p, hpj, hpp'⟩ := findOneSlot_some _ _ 0 j hf
                rw [Nat.sub_zero] at hpj
                have hgj : a.slots.getD j none = some p := by
                  rw [List.getD_eq_getElem?_getD, hpj]; rfl
                rw [hgj]
                dsimp only
                obtain ⟨h1, h2, h3⟩ := H
                have hji : j ≠ i := by
                  intro he; subst he
                  rw [hgi] at hpj
                  simp only [Option.some.injEq] at hpj
                  subst hpj
                  rw [honp] at hpp'; cases hpp'
                obtain ⟨m1, m2, m3⟩ := setPartType_facts p partSystem (a.time topt now) (by decide)
                have hdem : isPrimary (AImg.setPartType p partSystem (a.time topt now)) = false := by
                  simp only [AImg.isPrimary, RawDesc.isPartitionOfType, m2]
                  simp [partSystem, partPrimSys]
                -- after the demotion no primary partition is left
                let a1 : AImg := { a with slots := a.slots.set j (some (AImg.setPartType p partSystem (a.time topt now))) }
                have hno : a1.hasPrimary = false := by
                  cases hh : a1.hasPrimary with
                  | false => rfl
                  | true =>
                    obtain ⟨k, x, hk, hp⟩ := (hasPrimary_iff a1).1 hh
                    have hk' : (a.slots.set j (some (AImg.setPartType p partSystem (a.time topt now))))[k]? = some (some x) := hk
                    by_cases hjk : j = k
                    · subst hjk
                      have hjl : j < a.slots.length := by
                        rcases Nat.lt_or_ge j a.slots.length with h | h
                        · exact h
                        · rw [List.getElem?_eq_none h] at hpj; cases hpj
                      rw [List.getElem?_set_self hjl] at hk'
                      simp only [Option.some.injEq] at hk'
                      subst hk'
                      rw [hdem] at hp; cases hp
                    · rw [List.getElem?_set_ne hjk] at hk'
                      exact absurd (h1 k j x p hk' hpj hp hpp') (fun h => hjk h.symm)
                have hl1 : i < a1.slots.length := by
                  show i < (a.slots.set j _).length
                  rw [List.length_set]; exact hil
                exact PrimInv_set_primary a1 _ hno i hl1 _ hnewp rfl harch

/-! ### every operation of the reference model -/
theorem spec_step_prim (sha : Bytes → Bytes) (ph : Bytes → Option Bytes) (a : AImg) (H : a.PrimInv)
    (op : Op) (now : Int) (hc : Op.partClean a op) : (a.step sha ph op now).1.PrimInv := by
  cases op with
  | add di t => exact add_prim sha a H di t now hc
  | del sel z c t => exact del_prim ph a H sel t now
  | setPrim oid t => exact setPrim_prim a H oid t now
  | setMeta oid md t => exact setMeta_prim sha a H oid md t now hc
  | setOCI oid text t => exact setOCI_prim sha a H oid text t now
  | reload => exact H

theorem PrimInv_of_no_objects (a : AImg) (h : ∀ (i : Nat) (o : AObj), a.slots[i]? ≠ some (some o))
    (harch : a.arch = archUnknown) : a.PrimInv :=
  ⟨fun i _ oi _ hi _ _ _ => absurd hi (h i oi), fun i o hi _ => absurd hi (h i o), fun _ => harch⟩

end Sif
