/-
  Proofs/Backend.lean — the calls the library issues have the shapes on which sif.Buffer and a
  file agree, so whole histories run in lock-step on both backends.
-/
import SifVerif.Proofs.CreateWF
namespace Sif

variable (sha : Bytes → Bytes) (ph : Bytes → Option Bytes)

theorem callsOK_append (a b : List IOCall) (st : Store) (ha : callsOK st a)
    (hb : ∀ st', st.calls a = some st' → callsOK st' b) : callsOK st (a ++ b) := by
  induction a generalizing st with
  | nil => exact hb st rfl
  | cons c cs ih =>
    refine ⟨ha.1, fun s1 h1 => ih s1 (ha.2 s1 h1) (fun st' h2 => hb st' ?_)⟩
    simp [Store.calls, h1, h2]

theorem ok_seek_write (st : Store) (off : Int) (p : Bytes) (rest : List IOCall) (h0 : 0 ≤ off)
    (hp : p ≠ []) (hrest : ∀ st', callsOK st' rest) :
    callsOK st (.seekStart off :: .write p :: rest) :=
  ⟨h0, fun _ _ => ⟨hp, fun s2 _ => hrest s2⟩⟩

theorem ok_seek (st : Store) (off : Int) (rest : List IOCall) (h0 : 0 ≤ off)
    (hrest : ∀ st', callsOK st' rest) : callsOK st (.seekStart off :: rest) :=
  ⟨h0, fun s1 _ => hrest s1⟩

theorem encTable_ne_nil (rds : List RawDesc) (h : rds ≠ []) : encTable rds ≠ [] := by
  intro he
  have := encTable_length rds
  rw [he] at this
  cases rds with
  | nil => exact h rfl
  | cons => simp at this

theorem encHdr_ne_nil (h : Hdr) : encHdr h ≠ [] := by
  intro he; have := encHdr_length h; rw [he] at this; simp at this

theorem flush_ok (s' : Img) (st : Store) (h0 : 0 ≤ s'.h.doff) (hne : s'.rds ≠ []) :
    callsOK st (flushCalls s') := by
  simp only [flushCalls, writeDescriptorsCalls, writeHeaderCalls, List.cons_append, List.nil_append]
  exact ok_seek_write st _ _ _ h0 (encTable_ne_nil _ hne)
    (fun st' => ok_seek_write st' 0 _ [] (by omega) (encHdr_ne_nil _) (fun _ => trivial))

theorem zeros_ne_nil (n : Nat) (h : 0 < n) : zeros n ≠ [] := by
  intro he; have := zeros_length n; rw [he] at this; simp at this; omega

theorem zeroCalls_ok (zero : Bool) (hits : List RawDesc) (st : Store)
    (h0 : ∀ x ∈ hits, 0 ≤ x.off) : callsOK st (hits.flatMap (zeroCalls zero)) := by
  induction hits generalizing st with
  | nil => trivial
  | cons x xs ih =>
    simp only [List.flatMap_cons]
    apply callsOK_append
    · unfold zeroCalls
      cases zero with
      | false => trivial
      | true =>
        simp only [↓reduceIte]
        by_cases hsz : x.size ≤ 0
        · simp only [hsz, ↓reduceIte, List.append_nil]
          exact ok_seek st _ [] (h0 x (by simp)) (fun _ => trivial)
        · simp only [hsz, ↓reduceIte, List.cons_append, List.nil_append]
          exact ok_seek_write st _ _ [] (h0 x (by simp)) (zeros_ne_nil _ (by omega)) (fun _ => trivial)
    · intro st' _
      exact ih st' (fun y hy => h0 y (by simp [hy]))

/-- `resize(n)` with the length the store really has -/
theorem resize_ok (st : Store) (n : Int) (h0 : 0 ≤ n) : callsOK st (resizeCalls st.buf.length n) := by
  unfold resizeCalls
  refine ⟨trivial, fun s1 h1 => ?_⟩
  simp only [Store.call, Store.seekEnd, Option.some.injEq] at h1
  subst h1
  split
  · rename_i h
    exact ⟨⟨h0, by simp only; omega⟩, fun _ _ => trivial⟩
  · rename_i h
    exact ⟨zeros_ne_nil _ (by omega), fun _ _ => trivial⟩

/-- **every call the library issues on a well-formed image of capacity > 0 has a shape on which the
    buffer and a file agree**: absolute seeks ≥ 0, non-empty writes, truncation within the length -/
theorem plan_callsOK (s : Img) (W : WF s) (hne : s.rds ≠ []) (op : Op) (now : Int) :
    callsOK s.st (plan sha ph s op now).1 := by
  have h128 := W.doff
  have htab := W.tabEnd
  have hcalc := calculatedDataSize_nonneg s.h s.rds
  have hflush : ∀ (s' : Img) (st : Store), s'.h.doff = s.h.doff → s'.rds.length = s.rds.length →
      callsOK st (flushCalls s') := by
    intro s' st e1 e2
    apply flush_ok
    · rw [e1]; omega
    · intro he
      have : s.rds.length = 0 := by rw [← e2, he]; rfl
      exact hne (List.length_eq_zero_iff.mp this)
  cases op with
  | add di t =>
    simp only [plan]
    rcases addObjectPlan_cases sha ph s di t now with ⟨calls, e, h⟩ | ⟨calls, dn, arch, hi, hp, hw, h⟩
    · have hrej : (plan sha ph s (.add di t) now).2.2 ≠ .ok := by simp [plan, h]
      rcases plan_rejected_calls sha ph s (.add di t) now hrej with hc | ⟨off, p, hge, hc⟩
      · simp only [plan] at hc; rw [hc]; trivial
      · simp only [plan] at hc; rw [hc]
        by_cases hp : p.isEmpty
        · simp only [hp, ↓reduceIte, List.append_nil]; exact ok_seek _ _ _ (by omega) (fun _ => trivial)
        · simp only [hp, Bool.false_eq_true, ↓reduceIte, List.cons_append, List.nil_append]
          exact ok_seek_write _ _ _ _ (by omega) (by intro he; simp [he] at hp) (fun _ => trivial)
    · simp only at h
      rw [h]
      obtain ⟨off, hn, _, hcalls, _⟩ := writeDataObjectAt_ok sha _ di _ _ dn calls hw
      have hge := nextAligned_ge _ _ _ hn
      rw [hcalls]
      by_cases hp : di.content.isEmpty
      · simp only [hp, ↓reduceIte, List.append_nil, List.cons_append, List.nil_append]
        exact ok_seek _ _ _ (by omega) (fun st' => hflush _ st' (by simp [commitObject]) (by simp [commitObject]))
      · simp only [hp, Bool.false_eq_true, ↓reduceIte, List.cons_append, List.nil_append]
        exact ok_seek_write _ _ _ _ (by omega) (by intro he; simp [he] at hp)
          (fun st' => hflush _ st' (by simp [commitObject]) (by simp [commitObject]))
  | del sel z c t =>
    simp only [plan]
    rcases deleteObjectsPlan_cases ph s sel z c t now with ⟨calls, e, h⟩ | ⟨hs, hany, h⟩
    · have hrej : (plan sha ph s (.del sel z c t) now).2.2 ≠ .ok := by simp [plan, h]
      rcases plan_rejected_calls sha ph s (.del sel z c t) now hrej with hc | ⟨off, p, hge, hc⟩
      · simp only [plan] at hc; rw [hc]; trivial
      · simp only [plan] at hc; rw [hc]
        by_cases hp : p.isEmpty
        · simp only [hp, ↓reduceIte, List.append_nil]; exact ok_seek _ _ _ (by omega) (fun _ => trivial)
        · simp only [hp, Bool.false_eq_true, ↓reduceIte, List.cons_append, List.nil_append]
          exact ok_seek_write _ _ _ _ (by omega) (by intro he; simp [he] at hp) (fun _ => trivial)
    · rw [h]
      have hh := hdrAfterDelete_doff s.h (s.rds.filter (hit ph sel))
      have hdoff : (deleteResult ph s sel c (resolveTime s t now)).h.doff = s.h.doff := by
        cases c <;> simp [deleteResult, deleteFinish, hh]
      have hdataOff : (deleteResult ph s sel c (resolveTime s t now)).h.dataOff = s.h.dataOff := by
        cases c <;> simp [deleteResult, deleteFinish, hh]
      have hlen : (deleteResult ph s sel c (resolveTime s t now)).rds.length = s.rds.length := by
        simp [deleteResult, deleteFinish]
      unfold deletePre
      simp only [List.append_assoc]
      have hz : callsOK s.st ((s.rds.filter (hit ph sel)).flatMap (zeroCalls z)) := by
        apply zeroCalls_ok
        intro x hx
        simp only [List.mem_filter, hit, Bool.and_eq_true] at hx
        exact (W.lo x hx.1 hx.2.1).1
      apply callsOK_append _ _ _ hz
      intro st1 hst1
      apply callsOK_append
      · cases c with
        | false => trivial
        | true =>
          simp only [↓reduceIte]
          have hl : lenAfter s.st ((s.rds.filter (hit ph sel)).flatMap (zeroCalls z)) = st1.buf.length := by
            simp [lenAfter, callsPrefix_of_calls _ _ _ hst1]
          rw [hl]
          apply resize_ok
          rw [hdataOff]
          have : 0 ≤ (deleteResult ph s sel true (resolveTime s t now)).h.dataSize := by
            simp only [deleteResult, deleteFinish, ↓reduceIte]
            exact calculatedDataSize_nonneg _ _
          omega
      · intro st2 _
        exact hflush _ st2 hdoff hlen
  | setPrim id t =>
    simp only [plan]
    rcases setPrimPartPlan_cases ph s id t now with ⟨r, h⟩ | ⟨k, rds1, hdm, h⟩
    · rw [h]; trivial
    · rw [h]
      refine hflush (setPrimResult s k rds1 (resolveTime s t now)) s.st rfl ?_
      simp only [setPrimResult, List.length_set]
      have := congrArg List.length (demotePrimary_keys ph s.rds rds1 _ hdm)
      simpa using this
  | setMeta id md t =>
    simp only [plan, setMetadataPlan]
    cases h1 : getDescriptorIdx ph s.rds [Sel.id id] with
    | error e => trivial
    | ok k =>
      simp only
      rcases setExtraPlan_cases sha s k md (resolveTime s t now) with ⟨e, h⟩ | ⟨d', _, h⟩
      · rw [h]; trivial
      · simp only at h; rw [h]; exact hflush _ s.st rfl (by simp)
  | setOCI id text t =>
    simp only [plan, setOCIBlobDigestPlan]
    cases h1 : getDescriptorIdx ph s.rds [Sel.id id] with
    | error e => trivial
    | ok k =>
      simp only
      split
      · trivial
      · rcases setExtraPlan_cases sha s k (.ociText text) (resolveTime s t now) with ⟨e, h⟩ | ⟨d', _, h⟩
        · rw [h]; trivial
        · simp only at h; rw [h]; exact hflush _ s.st rfl (by simp)
  | reload => trivial

end Sif

namespace Sif

variable (sha : Bytes → Bytes) (ph : Bytes → Option Bytes)

theorem getDescriptors_st (s : Img) (st : Store) (sels : List Sel) :
    getDescriptors ph { s with st := st } sels = getDescriptors ph s sels := rfl

theorem primaryCheck_st (s : Img) (st : Store) (md : MDIn) :
    primaryCheck ph { s with st := st } md = primaryCheck ph s md := by
  unfold primaryCheck getDescriptors; rfl

/-- the plan reads the store only for its length after the zeroing calls (`resize`) -/
theorem plan_st (s : Img) (st2 : Store) (op : Op) (now : Int)
    (hlen : ∀ sel z, lenAfter st2 ((s.rds.filter (hit ph sel)).flatMap (zeroCalls z))
      = lenAfter s.st ((s.rds.filter (hit ph sel)).flatMap (zeroCalls z))) :
    plan sha ph { s with st := st2 } op now =
      ((plan sha ph s op now).1, { (plan sha ph s op now).2.1 with st := st2 },
       (plan sha ph s op now).2.2) := by
  cases op with
  | add di t =>
    simp only [plan, addObjectPlan]
    have hw := writeDataObject_st sha ph s st2 (findFreeSlot s.rds) di
      (resolveTime s t now)
    have hr : resolveTime { s with st := st2 } t now = resolveTime s t now := rfl
    rw [hr, hw]
    rcases writeDataObject sha ph s (findFreeSlot s.rds) di (resolveTime s t now) with ⟨c, s', r⟩
    cases r <;> rfl
  | del sel z c t =>
    simp only [plan, deleteObjectsPlan]
    have hr : resolveTime { s with st := st2 } t now = resolveTime s t now := rfl
    cases hfe : sel.firstErr ph s.rds with
    | none =>
      simp only [deleteLoop_closed ph sel z _ _ _ _ _ hfe, List.nil_append, Bool.false_or, hr]
      cases hany : s.rds.any (hit ph sel) with
      | false => rfl
      | true =>
        simp only [Bool.not_true, Bool.false_eq_true, ↓reduceIte, hlen sel z]
        rfl
    | some e =>
      simp only [deleteLoop_err ph sel e z _ _ _ _ _ hfe]
  | setPrim id t =>
    simp only [plan, setPrimPartPlan]
    have hr : resolveTime { s with st := st2 } t now = resolveTime s t now := rfl
    rw [hr]
    cases getDescriptorIdx ph s.rds [Sel.id id] with
    | error e => rfl
    | ok i =>
      dsimp only
      split
      · rfl
      · split
        · rfl
        · split
          · rfl
          · cases demotePrimary ph s.rds (resolveTime s t now) <;> rfl
  | setMeta id md t =>
    simp only [plan, setMetadataPlan, setExtraPlan]
    have hr : resolveTime { s with st := st2 } t now = resolveTime s t now := rfl
    rw [hr]
    cases getDescriptorIdx ph s.rds [Sel.id id] with
    | error e => rfl
    | ok i =>
      dsimp only
      cases setExtra sha [] md (s.rds.getD i zeroDesc) <;> rfl
  | setOCI id text t =>
    simp only [plan, setOCIBlobDigestPlan, setExtraPlan]
    have hr : resolveTime { s with st := st2 } t now = resolveTime s t now := rfl
    rw [hr]
    cases getDescriptorIdx ph s.rds [Sel.id id] with
    | error e => rfl
    | ok i =>
      dsimp only
      split
      · rfl
      · cases setExtra sha [] (.ociText text) (s.rds.getD i zeroDesc) <;> rfl
  | reload => rfl

/-- the same handle on the two backends -/
structure ImgSim (a b : Img) : Prop where
  h : a.h = b.h
  rds : a.rds = b.rds
  minIDs : a.minIDs = b.minIDs
  st : a.st.sim b.st

theorem callsPrefix_bisim (cs : List IOCall) (a b : Store) (h : a.sim b) (ok : callsOK a cs) :
    (a.callsPrefix cs).1.sim (b.callsPrefix cs).1 ∧ (a.callsPrefix cs).2 = true ∧
    (b.callsPrefix cs).2 = true := by
  obtain ⟨a', b', ha, hb, hs⟩ := calls_bisim cs a b h ok
  rw [callsPrefix_of_calls a a' cs ha, callsPrefix_of_calls b b' cs hb]
  exact ⟨hs, rfl, rfl⟩

theorem loadContainer_sim (a b : Store) (h : a.sim b) :
    loadContainer a = match loadContainer b with
      | .ok y => .ok { y with st := a }
      | .error e => .error e := by
  unfold loadContainer
  rw [h.1]
  cases sectionRead b.buf 0 128 0 128 with
  | none => rfl
  | some hb =>
    dsimp only
    by_cases h1 : ((decHdr hb).magic != hdrMagic) = true
    · simp [h1]
    · by_cases h2 : ((decHdr hb).version != curVersion) = true
      · simp [h1, h2]
      · by_cases h3 : (decHdr hb).dtotal < 0
        · simp [h1, h2, h3]
        · by_cases h4 : (decHdr hb).doff < 0
          · simp [h1, h2, h3, h4]
          · simp only [h1, h2, h3, h4, Bool.false_eq_true, ↓reduceIte]
            cases readDescriptors b.buf (decHdr hb).doff (decHdr hb).dsize (decHdr hb).dtotal.toNat 0 [] <;> rfl

theorem loadContainer_st (st : Store) (y : Img) (h : loadContainer st = .ok y) : y.st = st := by
  unfold loadContainer at h
  cases hs : sectionRead st.buf 0 128 0 128 with
  | none => simp [hs] at h
  | some hb =>
    simp only [hs] at h
    by_cases h1 : ((decHdr hb).magic != hdrMagic) = true
    · simp [h1] at h
    · by_cases h2 : ((decHdr hb).version != curVersion) = true
      · simp [h1, h2] at h
      · by_cases h3 : (decHdr hb).dtotal < 0
        · simp [h1, h2, h3] at h
        · by_cases h4 : (decHdr hb).doff < 0
          · simp [h1, h2, h3, h4] at h
          · simp only [h1, h2, h3, h4, Bool.false_eq_true, ↓reduceIte] at h
            cases hr : readDescriptors st.buf (decHdr hb).doff (decHdr hb).dsize (decHdr hb).dtotal.toNat 0 [] with
            | error e => simp [hr] at h
            | ok rds => simp only [hr, Except.ok.injEq] at h; rw [← h]

/-- **lock-step**: one operation on the same handle state held in a `sif.Buffer` and in a file
    returns the same result and leaves the same handle state and the same bytes -/
theorem step_lockstep (a b : Img) (S : ImgSim a b) (W : WF a) (hne : a.rds ≠ []) (op : Op)
    (now : Int) :
    (step sha ph a op now).2 = (step sha ph b op now).2 ∧
    ImgSim (step sha ph a op now).1 (step sha ph b op now).1 := by
  have hb : b = { a with st := b.st } := by
    cases a; cases b; simp only [Img.mk.injEq, and_true]
    exact ⟨S.h.symm, S.rds.symm, S.minIDs.symm⟩
  by_cases hrl : op = .reload
  · subst hrl
    simp only [step]
    rw [loadContainer_sim a.st b.st S.st]
    cases hb' : loadContainer b.st with
    | error e' => exact ⟨rfl, S⟩
    | ok y =>
      have := loadContainer_st b.st y hb'
      exact ⟨rfl, ⟨rfl, rfl, rfl, by simp only [this]; exact S.st⟩⟩
  · have hsa : step sha ph a op now = runPlan (plan sha ph a op now) a.st := by
      cases op <;> first | rfl | exact absurd rfl hrl
    have hsb : step sha ph b op now = runPlan (plan sha ph b op now) b.st := by
      cases op <;> first | rfl | exact absurd rfl hrl
    -- the plans coincide
    have hlen : ∀ sel z, lenAfter b.st ((a.rds.filter (hit ph sel)).flatMap (zeroCalls z))
        = lenAfter a.st ((a.rds.filter (hit ph sel)).flatMap (zeroCalls z)) := by
      intro sel z
      have hz : callsOK a.st ((a.rds.filter (hit ph sel)).flatMap (zeroCalls z)) := by
        apply zeroCalls_ok
        intro x hx
        simp only [List.mem_filter, hit, Bool.and_eq_true] at hx
        exact (W.lo x hx.1 hx.2.1).1
      obtain ⟨h1, _, _⟩ := callsPrefix_bisim _ a.st b.st S.st hz
      simp only [lenAfter]; rw [h1.1]
    have hp := plan_st sha ph a b.st op now hlen
    rw [← hb] at hp
    have hok := plan_callsOK sha ph a W hne op now
    obtain ⟨c1, c2, c3⟩ := callsPrefix_bisim _ a.st b.st S.st hok
    rw [hsa, hsb]
    unfold runPlan
    rw [hp]
    rcases hca : a.st.callsPrefix (plan sha ph a op now).1 with ⟨sa, ba⟩
    rcases hcb : b.st.callsPrefix (plan sha ph a op now).1 with ⟨sb, bb⟩
    rw [hca] at c1 c2; rw [hcb] at c1 c3
    simp only at c1 c2 c3
    subst c2 c3
    exact ⟨rfl, ⟨rfl, rfl, rfl, c1⟩⟩

end Sif
