/-
  Proofs/CleanHistory.lean — the hypotheses of the C09 theorems as one invariant of histories that
  start at `CreateContainer`: well-formedness, placement, representability, "no object ends beyond
  int64", clean slots (every slot, in use or not, holds a non-negative offset and size) and a
  non-empty table.  Created images have it (capacity > 0), every operation with representable inputs
  and without a store failure keeps it.
-/
import SifVerif.Proofs.Torn
import SifVerif.Proofs.CreateRanges
import SifVerif.Proofs.CreateBackend
namespace Sif

variable (sha : Bytes → Bytes) (ph : Bytes → Option Bytes)

/-- everything the C09 theorems ask of the state an operation starts from -/
structure C09Inv (s : Img) : Prop where
  wf : WF s
  placed : Placed s
  ranges : Ranges s
  ends : EndsOK s
  clean : CleanSlots s.rds
  nonempty : s.rds ≠ []

theorem zeroDesc_clean : 0 ≤ zeroDesc.off ∧ 0 ≤ zeroDesc.size := by simp [zeroDesc]

theorem writeDataObject_clean (s : Img) (i : Nat) (di : DI) (t : Int) (h0 : 0 ≤ s.h.dataOff)
    (C : CleanSlots s.rds) : CleanSlots (writeDataObject sha ph s i di t).2.1.rds := by
  rcases writeDataObject_cases sha ph s i di t with ⟨c, e, h⟩ | ⟨c, d, arch, _, _, hw, h⟩
  · rw [h]; exact C
  · rw [h]
    obtain ⟨off, hn, _, _, _, _, hoff, hsz, _⟩ := writeDataObjectAt_ok sha _ di _ _ d c hw
    have hge := nextAligned_ge _ _ _ hn
    have hc := calculatedDataSize_nonneg s.h s.rds
    intro x hx
    simp only [commitObject] at hx
    rcases List.mem_or_eq_of_mem_set hx with h1 | h1
    · exact C x h1
    · rw [h1, hoff, hsz]; constructor <;> omega

theorem createObjects_clean (dis : List DI) (k : Nat) (t : Int) (s : Img) (h0 : 0 ≤ s.h.dataOff)
    (C : CleanSlots s.rds) : CleanSlots (createObjects sha ph dis k t s []).2.1.rds := by
  induction dis generalizing k s with
  | nil => exact C
  | cons di dis ih =>
    have hc := writeDataObject_clean sha ph s k di t h0 C
    obtain ⟨_, k2, _⟩ := writeDataObject_keeps sha ph s k di t
    unfold createObjects
    rcases hw : writeDataObject sha ph s k di t with ⟨c, s', r⟩
    rw [hw] at hc k2
    simp only at hc k2
    cases r with
    | err e => exact hc
    | ok =>
      simp only
      rw [createObjects_acc sha ph dis (k + 1) t s' ([] ++ c)]
      exact ih (k + 1) s' (by rw [k2]; exact h0) hc

theorem createContainerPlan_clean (be : Backend) (co : CreateOpts) (hdoff : 0 ≤ co.doff) :
    CleanSlots (createContainerPlan sha ph be co).2.1.rds := by
  unfold createContainerPlan
  by_cases hc : co.capacity ≥ maxU32
  · simp only [hc, ↓reduceIte]
    intro d hd; cases hd
  · simp only [hc, ↓reduceIte]
    have key := createObjects_clean sha ph co.dis 0 co.t
      { h := { launch := pad 32 co.launch, magic := hdrMagic, version := curVersion, arch := archUnknown,
               id := co.id, ctime := co.t, mtime := co.t, dfree := co.capacity, dtotal := co.capacity,
               doff := co.doff, dsize := 585 * co.capacity.toNat,
               dataOff := co.doff + 585 * co.capacity.toNat, dataSize := 0 },
        rds := List.replicate co.capacity.toNat zeroDesc, minIDs := [], st := emptyStore be }
      (by simp only; omega)
      (by
        intro d hd
        simp only [List.mem_replicate] at hd
        rw [hd.2]; exact zeroDesc_clean)
    rcases hco : createObjects sha ph co.dis 0 co.t _ [] with ⟨c, s2, r⟩
    rw [hco] at key
    cases r <;> exact key

/-- **an accepted `CreateContainer` with capacity > 0 and representable options establishes the invariant** -/
theorem created_C09Inv (be : Backend) (co : CreateOpts) (hin : co.InRange) (hcap : 0 < co.capacity)
    (hdoff : 128 ≤ co.doff) (h : (createContainerPlan sha ph be co).2.2 = .ok) :
    ∃ st', (emptyStore be).calls (createContainerPlan sha ph be co).1 = some st' ∧
      C09Inv { (createContainerPlan sha ph be co).2.1 with st := st' } := by
  have hcapU : co.capacity < maxU32 := by
    by_cases hc : co.capacity ≥ maxU32
    · unfold createContainerPlan at h; simp [hc] at h
    · omega
  obtain ⟨st', h1, W, P, _⟩ := createContainerPlan_ok sha ph be co (by omega) hdoff trivial h
  obtain ⟨R, E⟩ := createContainerPlan_ranges sha ph be co hin hcapU
  refine ⟨st', h1, W, P, ⟨R.hv, R.dv⟩, E, createContainerPlan_clean sha ph be co (by omega), ?_⟩
  intro he
  have hl := createContainerPlan_len sha ph be co hcapU
  simp only at he
  rw [he] at hl
  simp at hl
  omega

/-- **every operation with representable inputs and no store failure keeps it** -/
theorem C09Inv_step (s : Img) (I : C09Inv s) (op : Op) (now : Int) (hin : Op.InRange s op now)
    (hio : (step sha ph s op now).2 ≠ .err .io) : C09Inv (step sha ph s op now).1 := by
  obtain ⟨R', E'⟩ := Ranges_step sha ph s I.wf I.ranges I.ends op now hin hio
  have W' := WF_step sha ph s I.wf I.ranges op now hio
  refine ⟨W', Placed_step sha ph s I.wf I.placed I.ranges op now hio, R', E', ?_, ?_⟩
  · by_cases hrl : op = .reload
    · subst hrl
      simp only [step, WF.load s I.wf I.ranges]
      exact I.clean
    · obtain ⟨st', _, hs', _⟩ := step_store sha ph s op now hrl hio
      rw [hs']
      exact clean_plan sha ph s I.wf I.clean op now
  · intro he
    have hlen : (step sha ph s op now).1.rds.length = s.rds.length := by
      by_cases hrl : op = .reload
      · subst hrl; simp only [step, WF.load s I.wf I.ranges]
      · obtain ⟨st', _, hs', _⟩ := step_store sha ph s op now hrl hio
        rw [hs']
        obtain ⟨hrej, hacc⟩ := plan_shape sha ph s op now
        by_cases hok : (plan sha ph s op now).2.2 = .ok
        · rcases hacc hok with ⟨_, hs⟩ | ⟨_, _, _, hl⟩
          · simp [hs]
          · simpa using hl
        · simp [hrej hok]
    rw [he] at hlen
    exact I.nonempty (List.length_eq_zero_iff.mp hlen.symm)

/-- … hence every state of every such history has it -/
theorem C09Inv_history (s : Img) (ops : List (Op × Int)) (I : C09Inv s)
    (hin : ∀ k op now, ops[k]? = some (op, now) → Op.InRange (runOps sha ph s (ops.take k)) op now)
    (hio : ∀ k op now, ops[k]? = some (op, now) →
      (step sha ph (runOps sha ph s (ops.take k)) op now).2 ≠ .err .io) :
    ∀ k, C09Inv (runOps sha ph s (ops.take k)) := by
  induction ops generalizing s with
  | nil => intro k; simpa [runOps] using I
  | cons x rest ih =>
    obtain ⟨op, now⟩ := x
    intro k
    cases k with
    | zero => simpa [runOps] using I
    | succ k =>
      simp only [List.take_succ_cons, runOps]
      have hin0 : Op.InRange s op now := by simpa [runOps] using hin 0 op now (by simp)
      have hio0 : (step sha ph s op now).2 ≠ .err .io := by simpa [runOps] using hio 0 op now (by simp)
      exact ih (step sha ph s op now).1 (C09Inv_step sha ph s I op now hin0 hio0)
        (fun j op' now' hj => by simpa [runOps] using hin (j + 1) op' now' (by simpa using hj))
        (fun j op' now' hj => by simpa [runOps] using hio (j + 1) op' now' (by simpa using hj)) k

end Sif
