/-
  Proofs/CreateWF.lean — an image created by `CreateContainer` (with any options and any list of
  initial objects) is well-formed and correctly placed.
-/
import SifVerif.Proofs.Placed
namespace Sif

variable (sha : Bytes → Bytes) (ph : Bytes → Option Bytes)

/-- one `writeDataObject` of the creation loop: in-memory invariant, placement with respect to the
    store after the object's calls, and the loop's slot/ID bookkeeping -/
theorem wdo_step (s : Img) (M : WFmem s) (P : Placed s) (i : Nat) (di : DI) (t : Int)
    (hfree : ∀ j, i ≤ j → ∀ x, s.rds[j]? = some x → x.used = false)
    (hids : ∀ x ∈ s.rds, x.used = true → x.id ≤ i)
    (calls : List IOCall) (s' : Img) (h : writeDataObject sha ph s i di t = (calls, s', .ok)) :
    ∃ st', s.st.calls calls = some st' ∧ WFmem s' ∧ Placed { s' with st := st' } ∧
      s'.h.doff = s.h.doff ∧ s'.rds.length = s.rds.length ∧
      (∀ j, i + 1 ≤ j → ∀ x, s'.rds[j]? = some x → x.used = false) ∧
      (∀ x ∈ s'.rds, x.used = true → x.id ≤ i + 1) ∧
      (∀ x ∈ s.rds, x.used = true → x ∈ s'.rds ∧ objContent st' x = objContent s.st x) ∧
      (∃ d, s'.rds[i]? = some d ∧ d.used = true ∧ d.id = i + 1 ∧ objContent st' d = di.content ∧
        writeDataObjectAt sha (s.h.dataOff + calculatedDataSize s.h s.rds) di t
          { zeroDesc with id := i + 1 } = (calls, .ok d)) := by
  rcases writeDataObject_cases sha ph s i di t with ⟨c, e, h'⟩ | ⟨c, d, arch, hi, hp, hw, h'⟩
  · rw [h'] at h; cases h
  rw [h'] at h
  simp only [Prod.mk.injEq, and_true] at h
  obtain ⟨hc, hs⟩ := h
  subst hc hs
  obtain ⟨off, hn, _, hcs, hud, hidd, hoffd, hszd, hpad, _⟩ := writeDataObjectAt_ok sha _ di _ _ d c hw
  have hge := nextAligned_ge _ _ _ hn
  have hcalc := calculatedDataSize_nonneg s.h s.rds
  have h128 := M.doff
  have htab := M.tabEnd
  have hri : s.rds[i]? = some (s.rds[i]'hi) := List.getElem?_eq_getElem hi
  have hfree_i : (s.rds.getD i zeroDesc).used = false := by
    have := hfree i (Nat.le_refl _) _ hri
    simpa [List.getD, hi] using this
  have hinuse : idInUse s.rds (i + 1) = false := by
    simp only [idInUse, List.any_eq_false, Bool.and_eq_true, beq_iff_eq, not_and]
    intro x hx hxu hxi
    have := hids x hx hxu; omega
  have hoff0 : ¬ off < 0 := by omega
  obtain ⟨_, M'⟩ := add_preserves_mem s M i d arch (calculatedDataSize s.h s.rds) 0 hi hfree_i hinuse
    hud hidd (by rw [hoffd]; omega) (by rw [hszd]; omega)
  -- the store after the object's calls
  let st1 : Store := if di.content.isEmpty then { s.st with pos := off.toNat }
    else { s.st with buf := writeAt s.st.buf off.toNat di.content, pos := off.toNat + di.content.length }
  have hst1 : s.st.calls c = some st1 := by
    rw [hcs]
    by_cases he : di.content.isEmpty
    · simp [he, Store.calls, Store.call, Store.seekStart, hoff0, st1]
    · have hne : di.content.isEmpty = false := by simpa using he
      simp only [hne, Bool.false_eq_true, ↓reduceIte, List.cons_append, List.nil_append, Store.calls,
        Store.call, Store.seekStart, hoff0, st1]
      cases hbe : s.st.be <;> simp [Store.write, hbe, hne]
  have hlen1 : s.st.buf.length ≤ st1.buf.length ∧
      (0 < di.content.length → off.toNat + di.content.length ≤ st1.buf.length) := by
    by_cases he : di.content.isEmpty
    · simp only [st1, he, ↓reduceIte]
      refine ⟨Nat.le_refl _, fun h => ?_⟩
      simp only [List.isEmpty_iff] at he; simp [he] at h
    · have hne : di.content.isEmpty = false := by simpa using he
      simp only [st1, hne, Bool.false_eq_true, ↓reduceIte, writeAt_length]
      exact ⟨by omega, fun _ => by omega⟩
  have hst1buf : st1.buf = if di.content.isEmpty then s.st.buf
      else writeAt s.st.buf off.toNat di.content := by
    simp only [st1]; split <;> rfl
  refine ⟨st1, hst1, M', ?_, by simp [commitObject], by simp [commitObject], ?_, ?_, ?_, ?_⟩
  · refine ⟨?_, ?_, ?_⟩
    · intro x hx hxu
      simp only [commitObject] at hx ⊢
      rcases List.mem_or_eq_of_mem_set hx with hx | hx
      · have e1 := calculatedDataSize_ge s.h s.rds x hx hxu
        have e2 := (P.inData x hx hxu).1
        rw [hpad]; omega
      · subst hx; rw [hpad, hoffd, hszd]; omega
    · intro a b xa xb ha hb hab hua hub hsa hsb
      simp only [commitObject] at ha hb
      rcases getElem?_set_cases _ _ _ _ _ ha with ⟨ea, eax⟩ | ⟨nea, ha'⟩ <;>
      rcases getElem?_set_cases _ _ _ _ _ hb with ⟨eb, ebx⟩ | ⟨neb, hb'⟩
      · omega
      · subst eax
        have e1 := calculatedDataSize_ge s.h s.rds xb (List.mem_of_getElem? hb') hub
        right; rw [hoffd]; omega
      · subst ebx
        have e1 := calculatedDataSize_ge s.h s.rds xa (List.mem_of_getElem? ha') hua
        left; rw [hoffd]; omega
      · exact P.disj a b xa xb ha' hb' hab hua hub hsa hsb
    · intro x hx hxu hxs
      simp only [commitObject] at hx
      obtain ⟨a, ha, hax⟩ := List.getElem_of_mem hx
      have hxa : (s.rds.set i d)[a]? = some x := by rw [List.getElem?_eq_getElem ha, hax]
      rcases getElem?_set_cases _ _ _ _ _ hxa with ⟨ea, eax⟩ | ⟨nea, ha'⟩
      · subst eax
        have := hlen1.2 (by rw [hszd] at hxs; omega)
        simp only
        rw [hoffd, hszd]; omega
      · have := P.inFile x (List.mem_of_getElem? ha') hxu hxs
        simp only; omega
  · intro j hj x hx
    simp only [commitObject] at hx
    rcases getElem?_set_cases _ _ _ _ _ hx with ⟨ea, _⟩ | ⟨_, hx'⟩
    · omega
    · exact hfree j (by omega) x hx'
  · intro x hx hxu
    simp only [commitObject] at hx
    rcases List.mem_or_eq_of_mem_set hx with hx | hx
    · have := hids x hx hxu; omega
    · subst hx; simp only at hidd; omega
  · -- older objects: still in the table, content untouched (the write lies beyond their ends)
    intro x hx hxu
    obtain ⟨a, ha, hax⟩ := List.getElem_of_mem hx
    have hai : a ≠ i := by
      intro e; subst e
      have := hfree a (Nat.le_refl _) x (by rw [List.getElem?_eq_getElem ha, hax])
      rw [this] at hxu; cases hxu
    refine ⟨?_, ?_⟩
    · simp only [commitObject]
      have : (s.rds.set i d)[a]'(by simpa using ha) = x := by
        rw [List.getElem_set_ne (Ne.symm hai)]; exact hax
      exact this ▸ List.getElem_mem _
    · obtain ⟨hx0, hxs0⟩ := M.lo x hx hxu
      by_cases hxs : 0 < x.size
      · have hend := calculatedDataSize_ge s.h s.rds x hx hxu
        have hinF := P.inFile x hx hxu hxs
        rw [objContent_eq_slice _ x hx0 hxs0, objContent_eq_slice _ x hx0 hxs0, hst1buf]
        split
        · rfl
        · exact slice_writeAt_frame _ _ _ _ _ (Or.inl (by unfold regLo regHi; omega))
            (by unfold regLo regHi; omega)
      · have : x.size = 0 := by omega
        simp [objContent, this, readAt]
  · -- the new object reads back as the bytes given
    refine ⟨d, by simp only [commitObject]; exact List.getElem?_set_self hi, hud, by simpa using hidd, ?_, hw⟩
    rw [objContent_eq_slice _ d (by rw [hoffd]; omega) (by rw [hszd]; omega)]
    have hlo : regLo d = off.toNat := by unfold regLo; rw [hoffd]
    have hlen : regHi d - regLo d = di.content.length := by unfold regHi regLo; rw [hoffd, hszd]; omega
    rw [hlen, hlo, hst1buf]
    split
    · rename_i he
      simp only [List.isEmpty_iff] at he
      simp [he, slice]
    · exact slice_writeAt_same _ _ _

/-- `writeDataObject` does not read the store -/
theorem writeDataObject_st (s : Img) (st : Store) (i : Nat) (di : DI) (t : Int) :
    writeDataObject sha ph { s with st := st } i di t =
      ((writeDataObject sha ph s i di t).1,
       { (writeDataObject sha ph s i di t).2.1 with st := st },
       (writeDataObject sha ph s i di t).2.2) := by
  have hp : primaryCheck ph { s with st := st } di.md = primaryCheck ph s di.md := by
    unfold primaryCheck getDescriptors; rfl
  unfold writeDataObject
  simp only [hp]
  split
  · rfl
  · split
    · rfl
    · cases primaryCheck ph s di.md with
      | error e => rfl
      | ok arch =>
        simp only
        rcases writeDataObjectAt sha (s.h.dataOff + calculatedDataSize s.h s.rds) di t
          { zeroDesc with id := i + 1 } with ⟨c, r⟩
        cases r <;> rfl

/-- the creation loop -/
theorem createObjects_acc (dis : List DI) (k : Nat) (t : Int) (s : Img) (acc : List IOCall) :
    createObjects sha ph dis k t s acc =
      (acc ++ (createObjects sha ph dis k t s []).1, (createObjects sha ph dis k t s []).2) := by
  induction dis generalizing k s acc with
  | nil => simp [createObjects]
  | cons di dis ih =>
    unfold createObjects
    rcases hw : writeDataObject sha ph s k di t with ⟨c, s', r⟩
    cases r with
    | ok =>
      simp only
      rw [ih (k + 1) s' (acc ++ c), ih (k + 1) s' ([] ++ c)]
      simp
    | err e => simp

theorem createObjects_st (dis : List DI) (k : Nat) (t : Int) (s : Img) (st : Store) :
    createObjects sha ph dis k t { s with st := st } [] =
      ((createObjects sha ph dis k t s []).1,
       { (createObjects sha ph dis k t s []).2.1 with st := st },
       (createObjects sha ph dis k t s []).2.2) := by
  induction dis generalizing k s with
  | nil => simp [createObjects]
  | cons di dis ih =>
    unfold createObjects
    rw [writeDataObject_st]
    rcases hw : writeDataObject sha ph s k di t with ⟨c, s', r⟩
    cases r with
    | err e => simp
    | ok =>
      simp only
      rw [createObjects_acc sha ph dis (k + 1) t { s' with st := st },
        createObjects_acc sha ph dis (k + 1) t s', ih (k + 1) s']

theorem createObjects_ok (dis : List DI) (k : Nat) (t : Int) (s : Img) (M : WFmem s) (P : Placed s)
    (hfree : ∀ j, k ≤ j → ∀ x, s.rds[j]? = some x → x.used = false)
    (hids : ∀ x ∈ s.rds, x.used = true → x.id ≤ k)
    (h : (createObjects sha ph dis k t s []).2.2 = .ok) :
    ∃ st', s.st.calls (createObjects sha ph dis k t s []).1 = some st' ∧
      WFmem (createObjects sha ph dis k t s []).2.1 ∧
      Placed { (createObjects sha ph dis k t s []).2.1 with st := st' } ∧
      (createObjects sha ph dis k t s []).2.1.h.doff = s.h.doff ∧
      (createObjects sha ph dis k t s []).2.1.rds.length = s.rds.length ∧
      (∀ x ∈ s.rds, x.used = true →
        x ∈ (createObjects sha ph dis k t s []).2.1.rds ∧ objContent st' x = objContent s.st x) ∧
      (∀ j (hj : j < dis.length), ∃ d ∈ (createObjects sha ph dis k t s []).2.1.rds,
        d.used = true ∧ d.id = k + j + 1 ∧ objContent st' d = dis[j].content ∧
        ∃ offU calls, writeDataObjectAt sha offU dis[j] t { zeroDesc with id := k + j + 1 }
          = (calls, .ok d)) := by
  induction dis generalizing k s with
  | nil =>
    exact ⟨s.st, rfl, M, ⟨P.inData, P.disj, P.inFile⟩, rfl, rfl, fun x hx _ => ⟨hx, rfl⟩,
      fun j hj => absurd hj (by simp)⟩
  | cons di dis ih =>
    unfold createObjects at h ⊢
    rcases hw : writeDataObject sha ph s k di t with ⟨c, s', r⟩
    cases r with
    | err e => simp [hw] at h
    | ok =>
      simp only [hw] at h ⊢
      rw [createObjects_acc] at h ⊢
      simp only [List.nil_append] at h ⊢
      obtain ⟨st1, hc1, M1, P1, hd1, hl1, hf1, hi1, hold1, d0, hd0, hu0, hid0, hc0, hw0⟩ :=
        wdo_step sha ph s M P k di t hfree hids c s' hw
      have hst := createObjects_st sha ph dis (k + 1) t s' st1
      have M1' : WFmem { s' with st := st1 } :=
        ⟨M1.magic, M1.version, M1.total, M1.doff, M1.tabEnd, M1.dsize, M1.tabRegion, M1.coh, M1.acct, M1.uniq, M1.lo⟩
      obtain ⟨st2, hc2, M2, P2, hd2, hl2, hold2, hnew2⟩ := ih (k + 1) { s' with st := st1 } M1' P1 hf1 hi1
        (by rw [hst]; exact h)
      rw [hst] at hc2 M2 P2 hd2 hl2 hold2 hnew2
      simp only at hc2 M2 P2 hd2 hl2 hold2 hnew2
      refine ⟨st2, ?_, ?_, P2, by rw [hd2, hd1], by rw [hl2, hl1], ?_, ?_⟩
      · rw [calls_append, hc1]; exact hc2
      · exact ⟨M2.magic, M2.version, M2.total, M2.doff, M2.tabEnd, M2.dsize, M2.tabRegion, M2.coh, M2.acct, M2.uniq, M2.lo⟩
      · intro x hx hxu
        obtain ⟨a1, a2⟩ := hold1 x hx hxu
        obtain ⟨b1, b2⟩ := hold2 x a1 hxu
        exact ⟨b1, by rw [b2, a2]⟩
      · intro j hj
        cases j with
        | zero =>
          obtain ⟨b1, b2⟩ := hold2 d0 (List.mem_of_getElem? hd0) hu0
          exact ⟨d0, b1, hu0, by simpa using hid0, by rw [b2]; exact hc0, _, _, hw0⟩
        | succ j =>
          obtain ⟨d, hd, hu, hid, hc, hw'⟩ := hnew2 j (by simpa using hj)
          refine ⟨d, hd, hu, by rw [hid]; omega, by simpa using hc, ?_⟩
          have e : k + (j + 1) + 1 = k + 1 + j + 1 := by omega
          simp only [List.getElem_cons_succ]
          rw [e]; exact hw'

/-- the state and store right after `createContainer` accepted -/
theorem createContainerPlan_ok (be : Backend) (co : CreateOpts) (hcap : 0 ≤ co.capacity)
    (hdoff : 128 ≤ co.doff) (hmagic : True)
    (h : (createContainerPlan sha ph be co).2.2 = .ok) :
    ∃ st', (emptyStore be).calls (createContainerPlan sha ph be co).1 = some st' ∧
      WF { (createContainerPlan sha ph be co).2.1 with st := st' } ∧
      Placed { (createContainerPlan sha ph be co).2.1 with st := st' } ∧
      (∀ j (hj : j < co.dis.length), ∃ d ∈ (createContainerPlan sha ph be co).2.1.rds,
        d.used = true ∧ d.id = j + 1 ∧ objContent st' d = co.dis[j].content ∧
        ∃ offU calls, writeDataObjectAt sha offU co.dis[j] co.t { zeroDesc with id := j + 1 }
          = (calls, .ok d)) := by
  unfold createContainerPlan at h ⊢
  by_cases hc : co.capacity ≥ maxU32
  · simp [hc] at h
  simp only [hc, ↓reduceIte] at h ⊢
  -- the empty image
  let s1 : Img :=
    { h := { launch := pad 32 co.launch, magic := hdrMagic, version := curVersion, arch := archUnknown,
             id := co.id, ctime := co.t, mtime := co.t, dfree := co.capacity, dtotal := co.capacity,
             doff := co.doff, dsize := 585 * co.capacity.toNat,
             dataOff := co.doff + 585 * co.capacity.toNat, dataSize := 0 },
      rds := List.replicate co.capacity.toNat zeroDesc, minIDs := [], st := emptyStore be }
  have hlive : live s1.rds = [] := by
    simp [s1, live, zeroDesc, List.filter_eq_nil_iff]
  have M1 : WFmem s1 := by
    refine ⟨rfl, rfl, ?_, hdoff, ?_, ?_, ?_, ?_, ?_, ?_, ?_⟩
    · simp [s1]; omega
    · simp [s1]
    · simp [s1]
    · simp [s1]
    · intro g
      simp only [s1, minHas, List.any_nil, Bool.false_eq_true, false_iff, Member, List.mem_replicate,
        not_exists, not_and]
      exact ⟨fun x hx hu => by rw [hx.2] at hu; simp [zeroDesc] at hu, fun h => absurd h (by simp)⟩
    · rw [hlive]; simp [s1]
    · rw [hlive]; simp
    · intro d hd hu
      simp only [s1, List.mem_replicate] at hd
      rw [hd.2] at hu; simp [zeroDesc] at hu
  have hunused : ∀ x ∈ s1.rds, x.used = false := by
    intro x hx
    simp only [s1, List.mem_replicate] at hx
    rw [hx.2]; rfl
  have P1 : Placed s1 := by
    refine ⟨?_, ?_, ?_⟩
    · intro d hd hu; rw [hunused d hd] at hu; cases hu
    · intro a b xa xb ha _ _ hua; rw [hunused xa (List.mem_of_getElem? ha)] at hua; cases hua
    · intro d hd hu; rw [hunused d hd] at hu; cases hu
  rcases hco : createObjects sha ph co.dis 0 co.t s1 [] with ⟨calls, s2, r⟩
  have hco' : createObjects sha ph co.dis 0 co.t s1 [] = (calls, s2, r) := hco
  simp only [s1] at hco'
  rw [hco'] at h
  cases r with
  | err e => simp at h
  | ok =>
    simp only at h ⊢
    obtain ⟨st2, hc2, M2, P2, hd2, hl2, _, hnew⟩ := createObjects_ok sha ph co.dis 0 co.t s1 M1 P1
      (fun j _ x hx => hunused x (List.mem_of_getElem? hx))
      (fun x hx hu => by rw [hunused x hx] at hu; cases hu) (by rw [hco])
    rw [hco] at hc2 M2 P2 hd2 hl2 hnew
    simp only at hc2 M2 P2 hd2 hl2 hnew
    obtain ⟨st3, hf3, S3⟩ := flush_synced s2 st2 (by rw [hd2]; exact hdoff)
    -- the final flush is safe for every object's region
    have hflushframe : ∀ d ∈ s2.rds, d.used = true →
        objContent st3 d = objContent st2 d ∧ (0 < d.size → d.off + d.size ≤ st3.buf.length) := by
      intro d hmem hu
      obtain ⟨h0, hs0⟩ := M2.lo d hmem hu
      by_cases hsz : 0 < d.size
      · have hin := P2.inFile d hmem hu hsz
        obtain ⟨hlo, _⟩ := P2.inData d hmem hu
        have hlh : regLo d ≤ regHi d := by unfold regLo regHi; omega
        have hsafe : callsSafe (regLo d) (regHi d) st2 (flushCalls s2) := by
          apply flush_safe
          · exact M2.doff
          · have := M2.tabEnd; unfold regLo; simp only at hlo; omega
        obtain ⟨f1, f2⟩ := calls_frame (regLo d) (regHi d) hlh _ st2 st3
          (by unfold regHi; simp only at hin; omega) hsafe hf3
        refine ⟨?_, fun _ => by unfold regHi at f1; omega⟩
        rw [objContent_eq_slice _ d h0 hs0, objContent_eq_slice _ d h0 hs0, f2]
      · have : d.size = 0 := by omega
        exact ⟨by simp [objContent, this, readAt], fun h => absurd h hsz⟩
    refine ⟨st3, ?_, ?_, ?_, ?_⟩
    · rw [List.append_assoc, calls_append, hc2]; exact hf3
    · exact WF.of_mem _ ⟨M2.magic, M2.version, M2.total, M2.doff, M2.tabEnd, M2.dsize, M2.tabRegion, M2.coh,
        M2.acct, M2.uniq, M2.lo⟩ S3
    · refine Placed.of_keys { s2 with st := st2 } _ P2 rfl rfl rfl ?_
      intro i d hd hu hsz
      exact (hflushframe d (List.mem_of_getElem? hd) hu).2 hsz
    · intro j hj
      obtain ⟨d, hd, hu, hid, hc, hw⟩ := hnew j hj
      refine ⟨d, hd, hu, by simpa using hid, ?_, by simpa using hw⟩
      rw [(hflushframe d hd hu).1]; exact hc

end Sif
