/-
  Proofs/Fingerprints.lean — `bytes.Compare` order and sorted duplicate-free insertion.
-/
import SifVerif.Model.Integrity
namespace Sif

theorem bytesLt_irrefl (a : Bytes) : bytesLt a a = false := by
  induction a with
  | nil => rfl
  | cons x xs ih => simp [bytesLt, ih]

theorem bytesLt_trans (a b c : Bytes) (h1 : bytesLt a b = true) (h2 : bytesLt b c = true) :
    bytesLt a c = true := by
  induction a generalizing b c with
  | nil =>
    cases c with
    | nil => cases b <;> simp [bytesLt] at h1 h2
    | cons z zs => rfl
  | cons x xs ih =>
    cases b with
    | nil => simp [bytesLt] at h1
    | cons y ys =>
      cases c with
      | nil => simp [bytesLt] at h2
      | cons z zs =>
        simp only [bytesLt, Bool.or_eq_true, decide_eq_true_eq, Bool.and_eq_true, beq_iff_eq] at *
        rcases h1 with h1 | ⟨e1, h1⟩ <;> rcases h2 with h2 | ⟨e2, h2⟩
        · left; exact UInt8.lt_trans h1 h2
        · left; rw [← e2]; exact h1
        · left; rw [e1]; exact h2
        · right; exact ⟨e1.trans e2, ih ys zs h1 h2⟩

theorem bytesLt_total (a b : Bytes) (h1 : bytesLt a b = false) (h2 : bytesLt b a = false) : a = b := by
  induction a generalizing b with
  | nil => cases b with
    | nil => rfl
    | cons y ys => simp [bytesLt] at h1
  | cons x xs ih =>
    cases b with
    | nil => simp [bytesLt] at h2
    | cons y ys =>
      simp only [bytesLt, Bool.or_eq_false_iff, decide_eq_false_iff_not, Bool.and_eq_false_iff,
        beq_eq_false_iff_ne] at h1 h2
      obtain ⟨a1, a2⟩ := h1
      obtain ⟨b1, b2⟩ := h2
      have hxy : x = y := by
        apply UInt8.le_antisymm
        · exact UInt8.not_lt.mp b1
        · exact UInt8.not_lt.mp a1
      subst hxy
      rcases a2 with a2 | a2
      · exact absurd rfl a2
      · rcases b2 with b2 | b2
        · exact absurd rfl b2
        · rw [ih ys a2 b2]

theorem mem_insertSortedBytes (l : List Bytes) (v x : Bytes) :
    x ∈ insertSortedBytes l v ↔ x = v ∨ x ∈ l := by
  unfold insertSortedBytes
  split
  · rename_i h
    simp only [List.contains_iff_mem] at h
    constructor
    · exact Or.inr
    · rintro (rfl | hx)
      · exact h
      · exact hx
  · simp only [List.mem_append, List.mem_filter, List.mem_singleton]
    constructor
    · rintro ((⟨h, _⟩ | h) | ⟨h, _⟩)
      · exact Or.inr h
      · exact Or.inl h
      · exact Or.inr h
    · rintro (rfl | h)
      · exact Or.inl (Or.inr rfl)
      · by_cases h1 : bytesLt x v = true
        · exact Or.inl (Or.inl ⟨h, h1⟩)
        · by_cases h2 : bytesLt v x = true
          · exact Or.inr ⟨h, h2⟩
          · exact Or.inl (Or.inr (bytesLt_total x v (by simpa using h1) (by simpa using h2)))

/-- strictly sorted in `bytes.Compare` order (hence duplicate-free) -/
def SortedBytes (l : List Bytes) : Prop := l.Pairwise (fun a b => bytesLt a b = true)

theorem SortedBytes.insert (l : List Bytes) (v : Bytes) (h : SortedBytes l) :
    SortedBytes (insertSortedBytes l v) := by
  unfold insertSortedBytes
  split
  · exact h
  · unfold SortedBytes at *
    rw [List.pairwise_append, List.pairwise_append]
    refine ⟨⟨h.sublist List.filter_sublist, by simp, ?_⟩, h.sublist List.filter_sublist, ?_⟩
    · intro a ha b hb
      simp only [List.mem_filter] at ha
      simp only [List.mem_singleton] at hb
      subst hb; exact ha.2
    · intro a ha b hb
      simp only [List.mem_filter] at hb
      rcases List.mem_append.mp ha with ha | ha
      · simp only [List.mem_filter] at ha
        exact bytesLt_trans a v b ha.2 hb.2
      · simp only [List.mem_singleton] at ha
        subst ha; exact hb.2

theorem SortedBytes.nodup (l : List Bytes) (h : SortedBytes l) : l.Nodup := by
  unfold SortedBytes at h
  refine h.imp ?_
  intro a b hab heq
  subst heq
  rw [bytesLt_irrefl] at hab; cases hab

theorem foldl_insert_sorted (fps acc : List Bytes) (h : SortedBytes acc) :
    SortedBytes (fps.foldl insertSortedBytes acc) ∧
    ∀ x, x ∈ fps.foldl insertSortedBytes acc ↔ x ∈ acc ∨ x ∈ fps := by
  induction fps generalizing acc with
  | nil => exact ⟨h, by simp⟩
  | cons f fs ih =>
    obtain ⟨i1, i2⟩ := ih (insertSortedBytes acc f) (SortedBytes.insert acc f h)
    refine ⟨i1, fun x => ?_⟩
    simp only [List.foldl_cons, i2, mem_insertSortedBytes, List.mem_cons]
    constructor
    · rintro ((h | h) | h)
      · exact Or.inr (Or.inl h)
      · exact Or.inl h
      · exact Or.inr (Or.inr h)
    · rintro (h | h | h)
      · exact Or.inl (Or.inr h)
      · exact Or.inl (Or.inl h)
      · exact Or.inr h

/-- the union/intersection is sorted, duplicate-free, and has exactly the right members -/
theorem combineFingerprints_spec (per : List (List Bytes)) (anyTask : Bool) :
    SortedBytes (combineFingerprints per anyTask) ∧
    ∀ x, x ∈ combineFingerprints per anyTask ↔
      (∃ fps ∈ per, x ∈ fps) ∧ (anyTask = true ∨ ∀ fps ∈ per, x ∈ fps) := by
  have key : ∀ (per : List (List Bytes)) (acc : List Bytes), SortedBytes acc →
      SortedBytes (per.foldl (fun acc fps => fps.foldl insertSortedBytes acc) acc) ∧
      ∀ x, x ∈ per.foldl (fun acc fps => fps.foldl insertSortedBytes acc) acc ↔
        x ∈ acc ∨ ∃ fps ∈ per, x ∈ fps := by
    intro per
    induction per with
    | nil => intro acc h; exact ⟨h, by simp⟩
    | cons p ps ih =>
      intro acc h
      obtain ⟨a1, a2⟩ := foldl_insert_sorted p acc h
      obtain ⟨b1, b2⟩ := ih _ a1
      refine ⟨b1, fun x => ?_⟩
      simp only [List.foldl_cons, b2, a2, List.mem_cons, exists_eq_or_imp]
      constructor
      · rintro ((h | h) | h)
        · exact Or.inl h
        · exact Or.inr (Or.inl h)
        · exact Or.inr (Or.inr h)
      · rintro (h | h | h)
        · exact Or.inl (Or.inl h)
        · exact Or.inl (Or.inr h)
        · exact Or.inr h
  obtain ⟨k1, k2⟩ := key per [] (by simp [SortedBytes])
  unfold combineFingerprints
  cases anyTask with
  | true =>
    simp only [↓reduceIte]
    exact ⟨k1, fun x => by simp [k2]⟩
  | false =>
    simp only [Bool.false_eq_true, ↓reduceIte, false_or]
    refine ⟨k1.sublist List.filter_sublist, fun x => ?_⟩
    simp only [List.mem_filter, k2, List.not_mem_nil, false_or, List.all_eq_true,
      List.contains_iff_mem]

end Sif
