/-
  Proofs/Select.lean — helper lemmas about the selector model (select.go).
-/
import SifVerif.Model.Image
import SifVerif.Model.Extra
namespace Sif

/-- a built-in selector that cannot raise an error: not a zero ID / zero group selector (a
    caller's own function is not known to be quiet: see `Sel.errOn`) -/
def Sel.noErr : Sel → Bool
  | .id i => i != 0
  | .groupID g => g != 0
  | .linkedID i => i != 0
  | .linkedGroupID g => g != 0
  | .pred _ => false
  | _ => true

/-- the error a selector raises whenever it is evaluated -/
def Sel.errOf : Sel → Option Err
  | .id 0 => some .invalidObjectID
  | .linkedID 0 => some .invalidObjectID
  | .groupID 0 => some .invalidGroupID
  | .linkedGroupID 0 => some .invalidGroupID
  | _ => none

/-- the pure predicate a non-erring selector denotes -/
def Sel.holds (ph : Bytes → Option Bytes) (s : Sel) (d : RawDesc) : Bool :=
  match s with
  | .dataType dt => d.dtype == dt
  | .id i => d.id == i
  | .noGroup => d.group == 0
  | .groupID g => d.group == g
  | .linkedID i => !d.linkIsGroup && d.linkedID == i
  | .linkedGroupID g => d.linkIsGroup && d.linkedID == g
  | .partType pt => d.isPartitionOfType pt
  | .ociDigest t => (match ociText ph d with | some t' => t' == t | none => false)
  | .pred f => (match f (erase d) with | .ok b => b | .error _ => false)

/-- the error (if any) the selector answers with on descriptor `d` -/
def Sel.errOn (ph : Bytes → Option Bytes) (s : Sel) (d : RawDesc) : Option Err :=
  match s.eval ph d with
  | .error e => some e
  | .ok _ => none

/-- the first error the selector answers with on the in-use descriptors, in table order -/
def Sel.firstErr (ph : Bytes → Option Bytes) (s : Sel) (ds : List RawDesc) : Option Err :=
  ds.findSome? (fun d => if d.used then s.errOn ph d else none)

theorem Sel.eval_quiet (ph : Bytes → Option Bytes) (s : Sel) (d : RawDesc)
    (h : s.errOn ph d = none) : s.eval ph d = .ok (s.holds ph d) := by
  unfold Sel.errOn at h
  cases s with
  | pred f =>
    simp only [Sel.eval, Sel.holds] at h ⊢
    cases hf : f (erase d) <;> simp_all
  | id i => by_cases hi : i = 0 <;> simp_all [Sel.eval, Sel.holds]
  | linkedID i => by_cases hi : i = 0 <;> simp_all [Sel.eval, Sel.holds]
  | groupID i => by_cases hi : i = 0 <;> simp_all [Sel.eval, Sel.holds]
  | linkedGroupID i => by_cases hi : i = 0 <;> simp_all [Sel.eval, Sel.holds]
  | _ => simp [Sel.eval, Sel.holds] <;> rfl

theorem Sel.eval_loud (ph : Bytes → Option Bytes) (s : Sel) (d : RawDesc) (e : Err)
    (h : s.errOn ph d = some e) : s.eval ph d = .error e := by
  unfold Sel.errOn at h
  cases hv : s.eval ph d <;> simp_all

theorem Sel.eval_noErr (ph : Bytes → Option Bytes) (s : Sel) (d : RawDesc) (h : s.noErr = true) :
    s.eval ph d = .ok (s.holds ph d) := by
  cases s <;> simp_all [Sel.eval, Sel.holds, Sel.noErr] <;> rfl

theorem Sel.errOn_noErr (ph : Bytes → Option Bytes) (s : Sel) (d : RawDesc) (h : s.noErr = true) :
    s.errOn ph d = none := by
  simp [Sel.errOn, Sel.eval_noErr ph s d h]

theorem Sel.eval_err (ph : Bytes → Option Bytes) (s : Sel) (d : RawDesc) (e : Err)
    (h : s.errOf = some e) : s.eval ph d = .error e := by
  cases s with
  | id i => cases i <;> simp_all [Sel.eval, Sel.errOf]
  | linkedID i => cases i <;> simp_all [Sel.eval, Sel.errOf]
  | groupID i => cases i <;> simp_all [Sel.eval, Sel.errOf]
  | linkedGroupID i => cases i <;> simp_all [Sel.eval, Sel.errOf]
  | _ => simp_all [Sel.errOf]

theorem Sel.errOn_errOf (ph : Bytes → Option Bytes) (s : Sel) (d : RawDesc) (e : Err)
    (h : s.errOf = some e) : s.errOn ph d = some e := by
  simp [Sel.errOn, Sel.eval_err ph s d e h]

theorem Sel.firstErr_noErr (ph : Bytes → Option Bytes) (s : Sel) (ds : List RawDesc)
    (h : s.noErr = true) : s.firstErr ph ds = none := by
  induction ds with
  | nil => rfl
  | cons d ds ih =>
    simp only [Sel.firstErr, List.findSome?_cons] at ih ⊢
    cases hu : d.used <;> simp [Sel.errOn_noErr ph s d h, ih]

theorem Sel.firstErr_errOf (ph : Bytes → Option Bytes) (s : Sel) (ds : List RawDesc) (e : Err)
    (h : s.errOf = some e) : s.firstErr ph ds = if ds.any (·.used) then some e else none := by
  induction ds with
  | nil => rfl
  | cons d ds ih =>
    simp only [Sel.firstErr, List.findSome?_cons] at ih ⊢
    cases hu : d.used <;> simp [Sel.errOn_errOf ph s d e h, ih, hu]

/-- the part of the table before the first error is quiet -/
theorem Sel.firstErr_none (ph : Bytes → Option Bytes) (s : Sel) (ds : List RawDesc)
    (h : s.firstErr ph ds = none) : ∀ d ∈ ds, d.used = true → s.errOn ph d = none := by
  intro d hd hu
  simp only [Sel.firstErr, List.findSome?_eq_none_iff] at h
  simpa [hu] using h d hd

theorem multiSel_noErr (ph : Bytes → Option Bytes) (sels : List Sel) (d : RawDesc)
    (h : ∀ s ∈ sels, s.noErr = true) :
    multiSel ph sels d = .ok (sels.all (fun s => s.holds ph d)) := by
  induction sels with
  | nil => simp [multiSel]
  | cons s ss ih =>
    have hs : s.noErr = true := h s (by simp)
    have hss : ∀ s ∈ ss, s.noErr = true := fun x hx => h x (by simp [hx])
    simp only [multiSel, Sel.eval_noErr ph s d hs, List.all_cons]
    cases hv : s.holds ph d <;> simp [ih hss]

/-- the general form: the conjunction of an arbitrary list of pure caller predicates -/
theorem selectDescs_pure (ph : Bytes → Option Bytes) (sels : List Sel) (rds : List RawDesc)
    (p : RawDesc → Bool) (h : ∀ d ∈ rds, d.used = true → multiSel ph sels d = .ok (p d)) :
    selectDescs ph sels rds = .ok ((live rds).filter p) := by
  induction rds with
  | nil => simp [selectDescs, live]
  | cons d ds ih =>
    have ihd := ih (fun x hx hu => h x (by simp [hx]) hu)
    unfold selectDescs
    cases hu : d.used with
    | false => simpa [live, hu] using ihd
    | true =>
      have hm := h d (by simp) hu
      simp only [Bool.not_true, Bool.false_eq_true, ↓reduceIte, hm, ihd]
      cases hp : p d <;> simp [live, hu, hp]

/-- once one match is held, any further match is `ErrMultipleObjectsFound` -/
theorem findOne_some (ph : Bytes → Option Bytes) (sels : List Sel) (p : RawDesc → Bool)
    (rds : List RawDesc) (i a : Nat)
    (h : ∀ d ∈ rds, d.used = true → multiSel ph sels d = .ok (p d)) :
    findOne ph sels rds i (some a) =
      if ((live rds).filter p).isEmpty then .ok (some a) else .error .multipleObjectsFound := by
  induction rds generalizing i with
  | nil => simp [findOne, live]
  | cons d ds ih =>
    have hds : ∀ x ∈ ds, x.used = true → multiSel ph sels x = .ok (p x) :=
      fun x hx hu => h x (by simp [hx]) hu
    unfold findOne
    cases hu : d.used with
    | false => simpa [live, hu] using ih (i + 1) hds
    | true =>
      have hm := h d (by simp) hu
      simp only [Bool.not_true, Bool.false_eq_true, ↓reduceIte, hm]
      cases hp : p d with
      | false => simpa [live, hu, hp] using ih (i + 1) hds
      | true => simp [live, hu, hp]

/-- with nothing held yet: not found / the unique match's index / multiple found -/
theorem findOne_none (ph : Bytes → Option Bytes) (sels : List Sel) (p : RawDesc → Bool)
    (rds : List RawDesc) (i : Nat)
    (h : ∀ d ∈ rds, d.used = true → multiSel ph sels d = .ok (p d)) :
    (((live rds).filter p).length = 0 → findOne ph sels rds i none = .ok none) ∧
    (((live rds).filter p).length = 1 →
        ∃ k, findOne ph sels rds i none = .ok (some (i + k)) ∧
             ∃ d, rds[k]? = some d ∧ d.used = true ∧ p d = true ∧ (live rds).filter p = [d]) ∧
    (((live rds).filter p).length ≥ 2 → findOne ph sels rds i none = .error .multipleObjectsFound) := by
  induction rds generalizing i with
  | nil => simp [findOne, live]
  | cons d ds ih =>
    have hds : ∀ x ∈ ds, x.used = true → multiSel ph sels x = .ok (p x) :=
      fun x hx hu => h x (by simp [hx]) hu
    obtain ⟨ih0, ih1, ih2⟩ := ih (i + 1) hds
    cases hu : d.used with
    | false =>
      have hl : live (d :: ds) = live ds := by simp [live, hu]
      have hf : findOne ph sels (d :: ds) i none = findOne ph sels ds (i + 1) none := by
        rw [findOne]; simp [hu]
      rw [hl, hf]
      refine ⟨ih0, ?_, ih2⟩
      intro h1
      obtain ⟨k, hk, d', hd', hrest⟩ := ih1 h1
      exact ⟨k + 1, by rw [hk]; congr 2; omega, d', by simpa using hd', hrest⟩
    | true =>
      have hm := h d (by simp) hu
      cases hp : p d with
      | false =>
        have hl : (live (d :: ds)).filter p = (live ds).filter p := by simp [live, hu, hp]
        have hf : findOne ph sels (d :: ds) i none = findOne ph sels ds (i + 1) none := by
          rw [findOne]; simp [hu, hm, hp]
        rw [hl, hf]
        refine ⟨ih0, ?_, ih2⟩
        intro h1
        obtain ⟨k, hk, d', hd', hrest⟩ := ih1 h1
        exact ⟨k + 1, by rw [hk]; congr 2; omega, d', by simpa using hd', hrest⟩
      | true =>
        have hl : (live (d :: ds)).filter p = d :: (live ds).filter p := by simp [live, hu, hp]
        have hf : findOne ph sels (d :: ds) i none = findOne ph sels ds (i + 1) (some i) := by
          rw [findOne]; simp [hu, hm, hp]
        rw [hl, hf, findOne_some ph sels p ds (i + 1) i hds]
        refine ⟨by simp, ?_, ?_⟩
        · intro h1
          have : (live ds).filter p = [] := by
            simpa using h1
          exact ⟨0, by simp [this], d, by simp, hu, hp, by simp [this]⟩
        · intro h2
          have : ((live ds).filter p) ≠ [] := by
            intro hc; simp [hc] at h2
          simp [this]

end Sif
