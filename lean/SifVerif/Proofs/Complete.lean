/-
  Proofs/Complete.lean — completeness of verification (C06): metadata computed from the image
  being verified matches that image.
-/
import SifVerif.Proofs.Tasks
namespace Sif

variable (H : HashAlg → Bytes → Bytes) (ph : Bytes → Option Bytes) (fpOf : Nat → Bytes)
  (facts : Bytes → SigFacts)

/-- the metadata entry computed for object `d` -/
def entryOf (s : Img) (minID : Nat) (a : HashAlg) (d : RawDesc) : ObjMD :=
  { relID := d.id - minID,
    descDigest := { alg := some a, value := H a (descStream s.minIDs d) },
    objDigest := { alg := some a, value := H a (objContent s.st d) } }

theorem getImageMetadata_eq (s : Img) (minID : Nat) (cov : List RawDesc) (a : HashAlg)
    (hge : ∀ d ∈ cov, minID ≤ d.id) :
    getImageMetadata H s minID cov a = .ok
      { version := 1, hdrDigest := { alg := some a, value := H a (hdrStream s.h) },
        objects := cov.map (entryOf H s minID a) } := by
  unfold getImageMetadata
  have : cov.any (fun d => d.id < minID) = false := by
    rw [List.any_eq_false]
    intro d hd
    have := hge d hd
    simp; omega
  simp [this, entryOf]

theorem absID_entryOf (s : Img) (minID : Nat) (a : HashAlg) (d : RawDesc) (hge : minID ≤ d.id)
    (hlt : d.id < u32Mod) : (entryOf H s minID a d).absID minID = d.id := by
  simp only [ObjMD.absID, entryOf]
  rw [show minID + (d.id - minID) = d.id by omega]
  exact Nat.mod_eq_of_lt hlt

/-- looking an ID up in the computed entries finds that object's own entry, when IDs are distinct -/
theorem find_entry (s : Img) (minID : Nat) (a : HashAlg) (cov : List RawDesc)
    (hge : ∀ d ∈ cov, minID ≤ d.id) (hlt : ∀ d ∈ cov, d.id < u32Mod)
    (hnd : (cov.map (·.id)).Nodup) (d : RawDesc) (hd : d ∈ cov) :
    (cov.map (entryOf H s minID a)).find? (fun o => o.absID minID == d.id) = some (entryOf H s minID a d) := by
  induction cov with
  | nil => cases hd
  | cons c cs ih =>
    simp only [List.map_cons, List.find?_cons]
    have hc := absID_entryOf H s minID a c (hge c (by simp)) (hlt c (by simp))
    simp only [List.map_cons, List.nodup_cons] at hnd
    by_cases hcd : c.id = d.id
    · -- distinct IDs: the first hit is `d` itself
      have : c = d := by
        rcases List.mem_cons.mp hd with rfl | hin
        · rfl
        · exact absurd (List.mem_map.mpr ⟨d, hin, hcd.symm⟩) hnd.1
      subst this
      simp [hc]
    · have hne : ((entryOf H s minID a c).absID minID == d.id) = false := by
        rw [hc]; simpa using hcd
      rw [hne]
      rcases List.mem_cons.mp hd with rfl | hin
      · exact absurd rfl hcd
      · exact ih (fun x hx => hge x (by simp [hx])) (fun x hx => hlt x (by simp [hx])) hnd.2 hin

theorem matchesObj_entryOf (s : Img) (minID : Nat) (a : HashAlg) (d : RawDesc) :
    (entryOf H s minID a d).matchesObj H s d = .ok () := by
  simp [ObjMD.matchesObj, entryOf, Digest.matches]

/-- **completeness of the object loop**: metadata computed from the covered objects of this image
    matches every one of them -/
theorem matchObjects_complete (s : Img) (minID : Nat) (a : HashAlg) (cov ods : List RawDesc)
    (hge : ∀ d ∈ cov, minID ≤ d.id) (hlt : ∀ d ∈ cov, d.id < u32Mod)
    (hnd : (cov.map (·.id)).Nodup) (hsub : ∀ d ∈ ods, d ∈ cov) (hd : Digest) :
    matchObjects H s { version := 1, hdrDigest := hd, objects := cov.map (entryOf H s minID a) } minID ods =
      .ok ods := by
  induction ods with
  | nil => rfl
  | cons d ds ih =>
    simp only [matchObjects]
    rw [find_entry H s minID a cov hge hlt hnd d (hsub d (by simp))]
    simp only [matchesObj_entryOf]
    rw [ih (fun x hx => hsub x (by simp [hx]))]

theorem imMatches_complete (s : Img) (minID : Nat) (a : HashAlg) (cov ods : List RawDesc)
    (hge : ∀ d ∈ cov, minID ≤ d.id) (hlt : ∀ d ∈ cov, d.id < u32Mod)
    (hnd : (cov.map (·.id)).Nodup) (hsub : ∀ d ∈ ods, d ∈ cov) :
    imMatches H s { version := 1, hdrDigest := { alg := some a, value := H a (hdrStream s.h) },
                    objects := cov.map (entryOf H s minID a) } minID ods = .ok ods := by
  simp only [imMatches, Digest.matches, BEq.rfl]
  exact matchObjects_complete H s minID a cov ods hge hlt hnd hsub _

/-- the signed IDs are exactly the IDs of the objects being verified, when those are the covered
    objects in any order -/
theorem objectIDsMatch_complete (s : Img) (minID : Nat) (a : HashAlg) (cov ods : List RawDesc)
    (hge : ∀ d ∈ cov, minID ≤ d.id) (hlt : ∀ d ∈ cov, d.id < u32Mod)
    (h1 : ∀ d ∈ ods, d ∈ cov) (h2 : ∀ d ∈ cov, d ∈ ods) (hd : Digest) :
    objectIDsMatch { version := 1, hdrDigest := hd, objects := cov.map (entryOf H s minID a) } minID ods =
      .ok () := by
  have hids : (cov.map (entryOf H s minID a)).map (ObjMD.absID minID) = cov.map (·.id) := by
    rw [List.map_map]
    apply List.map_congr_left
    intro d hdm
    exact absID_entryOf H s minID a d (hge d hdm) (hlt d hdm)
  unfold objectIDsMatch
  simp only [hids]
  have e1 : ods.find? (fun d => !(cov.map (·.id)).contains d.id) = none := by
    rw [List.find?_eq_none]
    intro d hdm
    simp only [Bool.not_eq_true, Bool.not_eq_false', List.contains_iff_mem, List.mem_map]
    simpa using ⟨d, h1 d hdm, rfl⟩
  rw [e1]
  have e2 : (cov.map (·.id)).find? (fun i => !(ods.any (fun d => d.id == i))) = none := by
    rw [List.find?_eq_none]
    intro i hi
    obtain ⟨d, hdm, rfl⟩ := List.mem_map.mp hi
    simp only [Bool.not_eq_true, Bool.not_eq_false', List.any_eq_true]
    exact ⟨d, h2 d hdm, by simp⟩
  rw [e2]

/-- a signature object that a supplied key validates, whose recorded fingerprint is the validating
    entity's, and whose signed message decodes to the metadata of the covered objects `cov` of
    *this* image (what `Sign` computed, for any image presenting the same protected view) -/
structure GoodSig (s : Img) (km : KeyMaterial) (minID : Nat) (cov : List RawDesc) (sig : RawDesc) : Prop where
  sigMeta : ∃ ht fp, sigMetadata sig = .ok (ht, fp) ∧
    ∃ de p keys ent, chooseDecoder (facts (objContent s.st sig)) km = .ok de ∧
      verifyMessage (facts (objContent s.st sig)) km de = some (p, keys, ent) ∧
      fpMismatch fpOf ent fp = false
  md : ∃ raw a, (facts (objContent s.st sig)).md = some raw ∧
    parseMD raw = .ok { version := 1, hdrDigest := { alg := some a, value := H a (hdrStream s.h) },
                        objects := cov.map (entryOf H s minID a) }

/-- **completeness for one signature**: a good signature verifies, and reports exactly the
    objects being verified -/
theorem verifyGroupSig_complete (s : Img) (km : KeyMaterial) (g minID : Nat) (cov ods : List RawDesc)
    (sub : Bool) (sig : RawDesc) (hmin : getGroupMinObjectID s g = .ok minID)
    (hge : ∀ d ∈ cov, minID ≤ d.id) (hlt : ∀ d ∈ cov, d.id < u32Mod) (hnd : (cov.map (·.id)).Nodup)
    (h1 : ∀ d ∈ ods, d ∈ cov) (h2 : sub = false → ∀ d ∈ cov, d ∈ ods)
    (G : GoodSig H fpOf facts s km minID cov sig) :
    ∃ de r, chooseDecoder (facts (objContent s.st sig)) km = .ok de ∧
      verifyGroupSig H fpOf facts s km g ods sub sig de = .ok r ∧ r.verified = ods.map (·.id) := by
  obtain ⟨ht, fp, hsm, de, p, keys, ent, hde, hvm, hfp⟩ := G.sigMeta
  obtain ⟨raw, a, hraw, hparse⟩ := G.md
  refine ⟨de, { sigID := sig.id, verified := ods.map (·.id), keys := keys, entity := ent }, hde, ?_, rfl⟩
  unfold verifyGroupSig
  simp only [hsm, hvm, hraw, hparse, hmin, hfp, Bool.false_eq_true, ↓reduceIte]
  have hoid : (if sub = true then Except.ok () else
      objectIDsMatch { version := 1, hdrDigest := { alg := some a, value := H a (hdrStream s.h) },
                       objects := cov.map (entryOf H s minID a) } minID ods) = .ok () := by
    cases sub with
    | true => rfl
    | false =>
      simp only [Bool.false_eq_true, ↓reduceIte]
      exact objectIDsMatch_complete H s minID a cov ods hge hlt h1 (h2 rfl) _
  rw [hoid]
  simp only [imMatches_complete H s minID a cov ods hge hlt hnd h1]

/-- every signature of a group task is good ⇒ the task's signatures all verify -/
theorem verifySigs_complete (s : Img) (km : KeyMaterial) (g minID : Nat) (cov ods : List RawDesc)
    (sub : Bool) (hmin : getGroupMinObjectID s g = .ok minID)
    (hge : ∀ d ∈ cov, minID ≤ d.id) (hlt : ∀ d ∈ cov, d.id < u32Mod) (hnd : (cov.map (·.id)).Nodup)
    (h1 : ∀ d ∈ ods, d ∈ cov) (h2 : sub = false → ∀ d ∈ cov, d ∈ ods)
    (sigs : List RawDesc) (G : ∀ sig ∈ sigs, GoodSig H fpOf facts s km minID cov sig) :
    ∃ rs, verifySigs H fpOf facts s km (.group g ods sub) sigs = .ok rs ∧
      rs.length = sigs.length ∧ ∀ r ∈ rs, r.verified = ods.map (·.id) := by
  induction sigs with
  | nil => exact ⟨[], rfl, rfl, by simp⟩
  | cons sig rest ih =>
    obtain ⟨de, r, hde, hv, hr⟩ := verifyGroupSig_complete H fpOf facts s km g minID cov ods sub sig hmin
      hge hlt hnd h1 h2 (G sig (by simp))
    obtain ⟨rs, hrs, hl, hall⟩ := ih (fun x hx => G x (by simp [hx]))
    refine ⟨r :: rs, ?_, by simp [hl], ?_⟩
    · simp only [verifySigs, hde, Task.verifySig, hv, hrs]
    · intro x hx
      rcases List.mem_cons.mp hx with rfl | hx
      · exact hr
      · exact hall x hx

/-- a group task all of whose (non-legacy) signatures are good: they exist, and each decodes to the
    metadata of a duplicate-free list `cov` of objects of this image that contains the task's
    objects (and only those, unless the task is an explicit-object task) -/
def TaskGood (s : Img) (km : KeyMaterial) : Task → Prop
  | .group g ods sub =>
    ∃ minID cov sigs, getGroupMinObjectID s g = .ok minID ∧
      (∀ d ∈ cov, minID ≤ d.id) ∧ (∀ d ∈ cov, d.id < u32Mod) ∧ (cov.map (·.id)).Nodup ∧
      (∀ d ∈ ods, d ∈ cov) ∧ (sub = false → ∀ d ∈ cov, d ∈ ods) ∧
      getGroupSignatures facts s g false = .ok sigs ∧
      ∀ sig ∈ sigs, GoodSig H fpOf facts s km minID cov sig
  | _ => False

theorem verifyTasks_complete (s : Img) (km : KeyMaterial) (tasks : List Task)
    (hg : ∀ t ∈ tasks, TaskGood H fpOf facts s km t) :
    ∃ rs, verifyTasks H ph fpOf facts s km tasks = .ok rs := by
  induction tasks with
  | nil => exact ⟨[], rfl⟩
  | cons t ts ih =>
    obtain ⟨rs', hrs'⟩ := ih (fun x hx => hg x (by simp [hx]))
    have ht := hg t (by simp)
    cases t with
    | group g ods sub =>
      obtain ⟨minID, cov, sigs, hmin, hge, hlt, hnd, h1, h2, hsigs, G⟩ := ht
      obtain ⟨rs, hrs, _, _⟩ := verifySigs_complete H fpOf facts s km g minID cov ods sub hmin hge hlt hnd h1 h2 sigs G
      exact ⟨rs ++ rs', by simp only [verifyTasks, Task.signatures, hsigs, hrs, hrs']⟩
    | legacyGroup g ods => exact absurd ht (by simp [TaskGood])
    | legacyObject od => exact absurd ht (by simp [TaskGood])

/-- **completeness of `Verify`**: no ungrouped non-signature object, and every task's signatures
    good ⇒ verification succeeds -/
theorem verify_complete (s : Img) (km : KeyMaterial) (tasks : List Task)
    (ods : List RawDesc) (hung : getDescriptors ph s [.noGroup] = .ok ods)
    (hsig : ∀ d ∈ ods, d.dtype = dtSignature)
    (hg : ∀ t ∈ tasks, TaskGood H fpOf facts s km t) :
    ∃ rs, verify H ph fpOf facts s km tasks = .ok rs := by
  obtain ⟨rs, hrs⟩ := verifyTasks_complete H ph fpOf facts s km tasks hg
  refine ⟨rs, ?_⟩
  unfold verify
  simp only [hung]
  have : ods.any (fun d => d.dtype != dtSignature) = false := by
    rw [List.any_eq_false]
    intro d hd
    simp [hsig d hd]
  simp [this, hrs]

/-- the metadata depends on the image only through its protected view: equal header streams and,
    position by position, equal relative IDs, descriptor streams and contents give equal entries -/
theorem entries_same_view (s0 s : Img) (m0 m : Nat) (a : HashAlg) (cov0 cov : List RawDesc)
    (hlen : cov0.length = cov.length)
    (hpt : ∀ i (h0 : i < cov0.length) (h : i < cov.length),
      cov0[i].id - m0 = cov[i].id - m ∧ descStream s0.minIDs cov0[i] = descStream s.minIDs cov[i] ∧
      objContent s0.st cov0[i] = objContent s.st cov[i]) :
    cov0.map (entryOf H s0 m0 a) = cov.map (entryOf H s m a) := by
  apply List.ext_getElem
  · simp [hlen]
  · intro i h1 h2
    simp only [List.length_map] at h1 h2
    obtain ⟨e1, e2, e3⟩ := hpt i h1 h2
    simp [entryOf, e1, e2, e3]

end Sif
