/-
  Proofs/Integrity.lean — inversion lemmas for the verification model: what a successful
  `verify` establishes, signature by signature.
-/
import SifVerif.Model.Integrity
namespace Sif

variable (H : HashAlg → Bytes → Bytes) (ph : Bytes → Option Bytes) (fpOf : Nat → Bytes)
  (facts : Bytes → SigFacts)

/-- a digest matches a stream -/
theorem Digest.matches_true (d : Digest) (stream : Bytes) (h : d.matches H stream = .ok true) :
    ∃ a, d.alg = some a ∧ d.value = H a stream := by
  unfold Digest.matches at h
  cases ha : d.alg with
  | none => simp [ha] at h
  | some a =>
    simp only [ha, Except.ok.injEq, beq_iff_eq] at h
    exact ⟨a, rfl, h⟩

/-- `imageMetadata.matches` succeeded: header digest and, for every requested descriptor, a
    metadata entry with that absolute ID whose descriptor and object digests match -/
theorem matchObjects_ok (s : Img) (im : ImageMD) (minID : Nat) (ods vs : List RawDesc)
    (h : matchObjects H s im minID ods = .ok vs) :
    vs = ods ∧ ∀ d ∈ ods, ∃ om ∈ im.objects, om.absID minID = d.id ∧
      im.objects.find? (fun o => o.absID minID == d.id) = some om ∧
      (∃ a, om.descDigest.alg = some a ∧ om.descDigest.value = H a (descStream s.minIDs d)) ∧
      (∃ a, om.objDigest.alg = some a ∧ om.objDigest.value = H a (objContent s.st d)) := by
  induction ods generalizing vs with
  | nil => simp [matchObjects] at h; simp [h]
  | cons d ds ih =>
    unfold matchObjects at h
    cases hf : im.objects.find? (fun o => o.absID minID == d.id) with
    | none => simp [hf] at h
    | some om =>
      simp only [hf] at h
      cases hm : om.matchesObj H s d with
      | error e => simp [hm] at h
      | ok u =>
        simp only [hm] at h
        cases hr : matchObjects H s im minID ds with
        | error e => simp [hr] at h
        | ok r =>
          simp only [hr, Except.ok.injEq] at h
          obtain ⟨e1, e2⟩ := ih r hr
          subst h
          refine ⟨by rw [e1], ?_⟩
          intro x hx
          rcases List.mem_cons.mp hx with hx | hx
          · subst hx
            have hmem := List.mem_of_find?_eq_some hf
            have hid : om.absID minID = x.id := by
              have := List.find?_some hf; simpa using this
            refine ⟨om, hmem, hid, hf, ?_⟩
            unfold ObjMD.matchesObj at hm
            cases h1 : om.descDigest.matches H (descStream s.minIDs x) with
            | error e => simp [h1] at hm
            | ok b1 =>
              cases b1 with
              | false => simp [h1] at hm
              | true =>
                simp only [h1] at hm
                cases h2 : om.objDigest.matches H (objContent s.st x) with
                | error e => simp [h2] at hm
                | ok b2 =>
                  cases b2 with
                  | false => simp [h2] at hm
                  | true => exact ⟨Digest.matches_true H _ _ h1, Digest.matches_true H _ _ h2⟩
          · exact e2 x hx

theorem imMatches_ok (s : Img) (im : ImageMD) (minID : Nat) (ods vs : List RawDesc)
    (h : imMatches H s im minID ods = .ok vs) :
    (∃ a, im.hdrDigest.alg = some a ∧ im.hdrDigest.value = H a (hdrStream s.h)) ∧ vs = ods ∧
    ∀ d ∈ ods, ∃ om ∈ im.objects, om.absID minID = d.id ∧
      im.objects.find? (fun o => o.absID minID == d.id) = some om ∧
      (∃ a, om.descDigest.alg = some a ∧ om.descDigest.value = H a (descStream s.minIDs d)) ∧
      (∃ a, om.objDigest.alg = some a ∧ om.objDigest.value = H a (objContent s.st d)) := by
  unfold imMatches at h
  cases h1 : im.hdrDigest.matches H (hdrStream s.h) with
  | error e => simp [h1] at h
  | ok b =>
    cases b with
    | false => simp [h1] at h
    | true =>
      simp only [h1] at h
      obtain ⟨e1, e2⟩ := matchObjects_ok H s im minID ods vs h
      exact ⟨Digest.matches_true H _ _ h1, e1, e2⟩

/-- what `verifyMessage` accepting means, per scheme -/
theorem verifyMessage_some (f : SigFacts) (km : KeyMaterial) (de : Decoder) (p : Bytes)
    (keys : List Nat) (ent : Option Nat) (h : verifyMessage f km de = some (p, keys, ent)) :
    (de = .dsse ∧ ent = none ∧ keys ≠ [] ∧ ∃ d vs, f.dsse = some d ∧ km.vs = some vs ∧
        d.payloadType = mediaType ∧ d.payload = some p ∧
        keys = vs.filter (fun k => d.validKeys.contains k)) ∨
    (de = .clearsign ∧ keys = [] ∧ ∃ c k kr, f.cs = some c ∧ km.kr = some kr ∧ c.signer = some k ∧
        k ∈ kr ∧ ent = some k ∧ p = c.plaintext) := by
  cases de with
  | dsse =>
    left
    simp only [verifyMessage] at h
    cases hd : f.dsse with
    | none => simp [hd] at h
    | some d =>
      simp only [hd] at h
      split at h
      · cases h
      · split at h
        · cases h
        · rename_i hne hpt
          cases hp : d.payload with
          | none => simp [hp] at h
          | some pl =>
            simp only [hp, Option.map_some, Option.some.injEq, Prod.mk.injEq] at h
            obtain ⟨e1, e2, e3⟩ := h
            cases hvs : km.vs with
            | none => simp [hvs] at hne
            | some vs =>
              refine ⟨rfl, e3.symm, ?_, d, vs, rfl, rfl, by simpa using hpt, by rw [← e1]; exact hp, ?_⟩
              · rw [← e2]; simpa [hvs] using hne
              · rw [← e2]; simp [hvs]
  | clearsign =>
    right
    simp only [verifyMessage] at h
    cases hc : f.cs with
    | none => simp [hc] at h
    | some c =>
      simp only [hc] at h
      cases hs : c.signer with
      | none => simp [hs] at h
      | some k =>
        simp only [hs] at h
        split at h
        · rename_i hk
          simp only [Option.some.injEq, Prod.mk.injEq] at h
          obtain ⟨e1, e2, e3⟩ := h
          cases hkr : km.kr with
          | none => simp [hkr] at hk
          | some kr =>
            exact ⟨rfl, e2.symm, c, k, kr, rfl, rfl, hs, by simpa [hkr] using hk, e3.symm, e1.symm⟩
        · cases h

/-- everything a successful `groupVerifier.verifySignature` establishes -/
structure GroupSigOK (s : Img) (km : KeyMaterial) (g : Nat) (ods : List RawDesc) (subsetOK : Bool)
    (sig : RawDesc) (de : Decoder) (r : SigResult) where
  im : ImageMD
  raw : RawMD
  minID : Nat
  payload : Bytes
  hmd : (facts (objContent s.st sig)).md = some raw
  hparse : parseMD raw = .ok im
  hmsg : verifyMessage (facts (objContent s.st sig)) km de = some (payload, r.keys, r.entity)
  hmin : getGroupMinObjectID s g = .ok minID
  hfp : ∀ k, r.entity = some k → sig.sigFingerprint = some (fpOf k)
  hids : subsetOK = false → objectIDsMatch im minID ods = .ok ()
  hmatch : imMatches H s im minID ods = .ok ods
  hver : r.verified = ods.map (·.id)
  hsig : r.sigID = sig.id

theorem verifyGroupSig_ok (s : Img) (km : KeyMaterial) (g : Nat) (ods : List RawDesc) (sub : Bool)
    (sig : RawDesc) (de : Decoder) (r : SigResult)
    (h : verifyGroupSig H fpOf facts s km g ods sub sig de = .ok r) :
    Nonempty (GroupSigOK H fpOf facts s km g ods sub sig de r) := by
  unfold verifyGroupSig at h
  cases h0 : sigMetadata sig with
  | error e => simp [h0] at h
  | ok hf =>
    obtain ⟨ht, fp⟩ := hf
    simp only [h0] at h
    cases h1 : verifyMessage (facts (objContent s.st sig)) km de with
    | none => simp [h1] at h
    | some res =>
      obtain ⟨p, keys, ent⟩ := res
      simp only [h1] at h
      cases h2 : (facts (objContent s.st sig)).md with
      | none => simp [h2] at h
      | some raw =>
        simp only [h2] at h
        cases h3 : parseMD raw with
        | error e => simp [h3] at h
        | ok im =>
          simp only [h3] at h
          cases h4 : getGroupMinObjectID s g with
          | error e => simp [h4] at h
          | ok minID =>
            simp only [h4] at h
            cases hmm : fpMismatch fpOf ent fp with
            | true => simp [hmm] at h
            | false =>
              simp only [hmm, Bool.false_eq_true, ↓reduceIte] at h
              have hfpne : ∀ k, ent = some k → some (fpOf k) = fp := by
                intro k hk
                subst hk
                simpa [fpMismatch] using hmm
              cases h5 : (if sub = true then (Except.ok () : Except IErr Unit) else objectIDsMatch im minID ods) with
              | error e => simp [h5] at h
              | ok u =>
                simp only [h5] at h
                cases h6 : imMatches H s im minID ods with
                | error e => simp [h6] at h
                | ok vs =>
                  simp only [h6, Except.ok.injEq] at h
                  obtain ⟨_, hvs, _⟩ := imMatches_ok H s im minID ods vs h6
                  subst h
                  have hfp' : fp = sig.sigFingerprint := by
                    unfold sigMetadata at h0
                    split at h0
                    · cases h0
                    · split at h0
                      · simp only [Except.ok.injEq, Prod.mk.injEq] at h0; exact h0.2.symm
                      · cases h0
                  refine ⟨⟨im, raw, minID, p, h2, h3, h1, h4, ?_, ?_, by rw [hvs] at h6; exact h6, by simp [hvs], rfl⟩⟩
                  · intro k hk
                    simp only at hk
                    rw [← hfp', hfpne k hk]
                  · intro hs
                    simp only [hs, Bool.false_eq_true, ↓reduceIte] at h5
                    rw [h5]

/-- every signature of a task was checked by a decoder chosen from supplied key material, and
    verified -/
theorem verifySigs_ok (s : Img) (km : KeyMaterial) (t : Task) (sigs : List RawDesc)
    (rs : List SigResult) (h : verifySigs H fpOf facts s km t sigs = .ok rs) :
    rs.length = sigs.length ∧
    ∀ sig ∈ sigs, ∃ de r, chooseDecoder (facts (objContent s.st sig)) km = .ok de ∧
      t.verifySig H fpOf facts s km sig de = .ok r ∧ r ∈ rs := by
  induction sigs generalizing rs with
  | nil => simp [verifySigs] at h; simp [h]
  | cons sig rest ih =>
    unfold verifySigs at h
    cases h1 : chooseDecoder (facts (objContent s.st sig)) km with
    | error e => simp [h1] at h
    | ok de =>
      simp only [h1] at h
      cases h2 : t.verifySig H fpOf facts s km sig de with
      | error e => simp [h2] at h
      | ok r =>
        simp only [h2] at h
        cases h3 : verifySigs H fpOf facts s km t rest with
        | error e => simp [h3] at h
        | ok rs' =>
          simp only [h3, Except.ok.injEq] at h
          subst h
          obtain ⟨l1, l2⟩ := ih rs' h3
          refine ⟨by simp [l1], ?_⟩
          intro x hx
          rcases List.mem_cons.mp hx with hx | hx
          · subst hx; exact ⟨de, r, h1, h2, by simp⟩
          · obtain ⟨de', r', a, b, c⟩ := l2 x hx
            exact ⟨de', r', a, b, by simp [c]⟩

theorem verifyTasks_ok (s : Img) (km : KeyMaterial) (tasks : List Task) (rs : List SigResult)
    (h : verifyTasks H ph fpOf facts s km tasks = .ok rs) :
    ∀ t ∈ tasks, ∃ sigs, t.signatures ph facts s = .ok sigs ∧
      ∀ sig ∈ sigs, ∃ de r, chooseDecoder (facts (objContent s.st sig)) km = .ok de ∧
        t.verifySig H fpOf facts s km sig de = .ok r ∧ r ∈ rs := by
  induction tasks generalizing rs with
  | nil => intro t ht; cases ht
  | cons t ts ih =>
    unfold verifyTasks at h
    cases h1 : t.signatures ph facts s with
    | error e => simp [h1] at h
    | ok sigs =>
      simp only [h1] at h
      cases h2 : verifySigs H fpOf facts s km t sigs with
      | error e => simp [h2] at h
      | ok r1 =>
        simp only [h2] at h
        cases h3 : verifyTasks H ph fpOf facts s km ts with
        | error e => simp [h3] at h
        | ok r2 =>
          simp only [h3, Except.ok.injEq] at h
          subst h
          intro x hx
          rcases List.mem_cons.mp hx with hx | hx
          · subst hx
            obtain ⟨_, l2⟩ := verifySigs_ok H fpOf facts s km x sigs r1 h2
            refine ⟨sigs, h1, fun sig hs => ?_⟩
            obtain ⟨de, r, a, b, c⟩ := l2 sig hs
            exact ⟨de, r, a, b, by simp [c]⟩
          · obtain ⟨sg, a, b⟩ := ih r2 h3 x hx
            refine ⟨sg, a, fun sig hs => ?_⟩
            obtain ⟨de, r, c, d, e⟩ := b sig hs
            exact ⟨de, r, c, d, by simp [e]⟩

theorem verify_ok (s : Img) (km : KeyMaterial) (tasks : List Task) (rs : List SigResult)
    (h : verify H ph fpOf facts s km tasks = .ok rs) :
    (∃ ods, getDescriptors ph s [.noGroup] = .ok ods ∧ ∀ d ∈ ods, d.dtype = dtSignature) ∧
    verifyTasks H ph fpOf facts s km tasks = .ok rs := by
  unfold verify at h
  cases h1 : getDescriptors ph s [.noGroup] with
  | error e => simp [h1] at h
  | ok ods =>
    simp only [h1] at h
    split at h
    · cases h
    · rename_i hany
      refine ⟨⟨ods, rfl, ?_⟩, h⟩
      intro d hd
      simp only [List.any_eq_true, bne_iff_ne, ne_eq, not_exists, not_and, Decidable.not_not] at hany
      exact hany d hd

/-- group signatures come back non-empty, of the requested kind, linked to the group -/
theorem getGroupSignatures_ok (s : Img) (g : Nat) (legacy : Bool) (sigs : List RawDesc)
    (h : getGroupSignatures facts s g legacy = .ok sigs) :
    sigs ≠ [] ∧ ∀ d ∈ sigs, d ∈ s.rds ∧ d.used = true ∧ d.dtype = dtSignature ∧
      d.linkIsGroup = true ∧ d.linkedID = g ∧ isLegacy (facts (objContent s.st d)) = legacy := by
  unfold getGroupSignatures at h
  by_cases h0 : s.isEmpty = true
  · simp [h0] at h
  · simp only [h0, Bool.false_eq_true, ↓reduceIte] at h
    by_cases hg : (g == 0) = true
    · simp only [hg, ↓reduceIte] at h
      split at h <;> cases h
    · simp only [hg, Bool.false_eq_true, ↓reduceIte] at h
      cases hf : ((live s.rds).filter (fun d => d.dtype == dtSignature && d.linkIsGroup && d.linkedID == g)).find?
          (fun d => !dataReadable s d) with
      | some x => simp [hf] at h
      | none =>
        simp only [hf] at h
        cases hsel : (((live s.rds).filter (fun d => d.dtype == dtSignature && d.linkIsGroup && d.linkedID == g)).filter
            (fun d => isLegacy (facts (objContent s.st d)) == legacy)) with
        | nil => simp [hsel] at h
        | cons x xs =>
          simp only [hsel, Except.ok.injEq] at h
          subst h
          refine ⟨by simp, ?_⟩
          intro d hd
          rw [← hsel] at hd
          simp only [List.mem_filter, live, Bool.and_eq_true, beq_iff_eq] at hd
          obtain ⟨⟨⟨h1, h2⟩, ⟨h3, h4⟩, h5⟩, h6⟩ := hd
          exact ⟨h1, h2, h3, h4, h5, h6⟩

end Sif
