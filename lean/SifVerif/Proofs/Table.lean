/-
  Proofs/Table.lean — list-level lemmas about the descriptor table: live descriptors under
  slot updates, the slot `AddObject` picks, keys (used, group, id).
-/
import SifVerif.Proofs.MinIDs
import SifVerif.Proofs.Plan
namespace Sif

/-- what the cache, uniqueness, accounting and placement depend on -/
def key (d : RawDesc) : Bool × Nat × Nat × Int × Int := (d.used, d.gid, d.id, d.off, d.size)

theorem Member_iff_keys (rds : List RawDesc) (g : Nat) :
    Member rds g ↔ ∃ i o z, (true, g, i, o, z) ∈ rds.map key := by
  constructor
  · rintro ⟨d, hd, hu, hg⟩
    exact ⟨d.id, d.off, d.size, List.mem_map.mpr ⟨d, hd, by simp [key, hu, hg]⟩⟩
  · rintro ⟨i, o, z, hi⟩
    obtain ⟨d, hd, hk⟩ := List.mem_map.mp hi
    simp only [key, Prod.mk.injEq] at hk
    exact ⟨d, hd, hk.1, hk.2.1⟩

theorem IsMinOf_iff_keys (rds : List RawDesc) (g v : Nat) :
    IsMinOf rds g v ↔ (∃ o z, (true, g, v, o, z) ∈ rds.map key) ∧
      ∀ i o z, (true, g, i, o, z) ∈ rds.map key → v ≤ i := by
  constructor
  · rintro ⟨⟨d, hd, hu, hg, hv⟩, hle⟩
    refine ⟨⟨d.off, d.size, List.mem_map.mpr ⟨d, hd, by simp [key, hu, hg, hv]⟩⟩, ?_⟩
    intro i o z hi
    obtain ⟨x, hx, hk⟩ := List.mem_map.mp hi
    simp only [key, Prod.mk.injEq] at hk
    have := hle x hx hk.1 hk.2.1
    omega
  · rintro ⟨⟨o, z, hm⟩, hle⟩
    obtain ⟨d, hd, hk⟩ := List.mem_map.mp hm
    simp only [key, Prod.mk.injEq] at hk
    refine ⟨⟨d, hd, hk.1, hk.2.1, hk.2.2.1⟩, ?_⟩
    intro x hx hxu hxg
    exact hle x.id x.off x.size (List.mem_map.mpr ⟨x, hx, by simp [key, hxu, hxg]⟩)

/-- coherence depends on the table only through its keys -/
theorem MinCoh.of_keys (m : List (Nat × Nat)) (rds rds' : List RawDesc)
    (hk : rds'.map key = rds.map key) (h : MinCoh m rds) : MinCoh m rds' := by
  intro g
  obtain ⟨h1, h2⟩ := h g
  simp only [Member_iff_keys, IsMinOf_iff_keys, hk] at *
  exact ⟨h1, h2⟩

theorem live_map_key (rds rds' : List RawDesc) (hk : rds'.map key = rds.map key) :
    (live rds').map (·.id) = (live rds).map (·.id) ∧ (live rds').length = (live rds).length := by
  induction rds generalizing rds' with
  | nil => cases rds' <;> simp_all [live]
  | cons d ds ih =>
    cases rds' with
    | nil => simp at hk
    | cons d' ds' =>
      simp only [List.map_cons, List.cons.injEq, key, Prod.mk.injEq] at hk
      obtain ⟨⟨hu, _, hi, _, _⟩, hrest⟩ := hk
      obtain ⟨i1, i2⟩ := ih ds' hrest
      simp only [live] at *
      cases hdu : d.used <;> simp_all

/-- replacing a slot by a descriptor with the same key leaves the keys alone -/
theorem map_key_set (rds : List RawDesc) (j : Nat) (x : RawDesc)
    (hk : key x = key (rds.getD j zeroDesc)) : (rds.set j x).map key = rds.map key := by
  induction rds generalizing j with
  | nil => simp
  | cons a as ih =>
    cases j with
    | zero => simpa [List.getD] using hk
    | succ j => simp only [List.set_cons_succ, List.map_cons, List.cons.injEq, true_and]
                exact ih j (by simpa [List.getD] using hk)

/-- facts that depend on the table only through its keys -/
theorem lo_of_keys (rds rds' : List RawDesc) (hk : rds'.map key = rds.map key)
    (h : ∀ d ∈ rds, d.used = true → 0 ≤ d.off ∧ 0 ≤ d.size) :
    ∀ d ∈ rds', d.used = true → 0 ≤ d.off ∧ 0 ≤ d.size := by
  intro d hd hu
  have : key d ∈ rds.map key := hk ▸ List.mem_map.mpr ⟨d, hd, rfl⟩
  obtain ⟨x, hx, hkx⟩ := List.mem_map.mp this
  simp only [key, Prod.mk.injEq] at hkx
  obtain ⟨h1, h2⟩ := h x hx (by rw [hkx.1]; exact hu)
  rw [← hkx.2.2.2.1, ← hkx.2.2.2.2]; exact ⟨h1, h2⟩

/-- `set` at a slot keeps the length; membership of in-use elements when the slot was unused -/
theorem mem_set_of_unused (rds : List RawDesc) (i : Nat) (d x : RawDesc) (hi : i < rds.length)
    (hfree : (rds.getD i zeroDesc).used = false) (hx : x.used = true) :
    x ∈ rds.set i d ↔ x ∈ rds ∨ x = d := by
  constructor
  · intro h
    rcases List.mem_or_eq_of_mem_set h with h | h
    · exact Or.inl h
    · exact Or.inr h
  · rintro (h | h)
    · obtain ⟨j, hj, hjx⟩ := List.getElem_of_mem h
      by_cases hji : j = i
      · subst hji
        simp [List.getD, hj, hjx, hx] at hfree
      · have : (rds.set i d)[j]'(by simpa using hj) = x := by
          rw [List.getElem_set_ne (by omega)]; exact hjx
        exact this ▸ List.getElem_mem _
    · subst h
      exact List.mem_iff_getElem.mpr ⟨i, by simpa using hi, by simp⟩

theorem live_set_unused (rds : List RawDesc) (i : Nat) (d : RawDesc) (hi : i < rds.length)
    (hfree : (rds.getD i zeroDesc).used = false) (hu : d.used = true) :
    (live (rds.set i d)).length = (live rds).length + 1 ∧
    ∀ x, x ∈ live (rds.set i d) ↔ x ∈ live rds ∨ x = d := by
  induction rds generalizing i with
  | nil => simp at hi
  | cons a as ih =>
    cases i with
    | zero =>
      simp only [List.getD, List.getElem?_cons_zero, Option.getD_some] at hfree
      simp only [List.set_cons_zero, live, List.filter_cons, hu, ↓reduceIte, hfree,
        Bool.false_eq_true, List.length_cons, true_and, List.mem_cons]
      intro x; exact Or.comm
    | succ i =>
      simp only [List.length_cons, Nat.add_lt_add_iff_right] at hi
      have hf' : (as.getD i zeroDesc).used = false := by simpa [List.getD] using hfree
      obtain ⟨l1, l2⟩ := ih i hi hf'
      simp only [List.set_cons_succ, live, List.filter_cons] at *
      cases a.used
      · simp only [Bool.false_eq_true, ↓reduceIte]; exact ⟨l1, l2⟩
      · simp only [↓reduceIte, List.length_cons, l1, List.mem_cons, l2, true_and]
        intro x
        constructor
        · rintro (h | h | h)
          · exact Or.inl (Or.inl h)
          · exact Or.inl (Or.inr h)
          · exact Or.inr h
        · rintro ((h | h) | h)
          · exact Or.inl h
          · exact Or.inr (Or.inl h)
          · exact Or.inr (Or.inr h)

/-! ### the slot `AddObject` picks -/
theorem findFreeSlot_go_spec (rds ds : List RawDesc) (i : Nat) :
    (findFreeSlot.go rds ds i < i + ds.length →
       (ds.getD (findFreeSlot.go rds ds i - i) zeroDesc).used = false ∧
       idInUse rds (findFreeSlot.go rds ds i + 1) = false) ∧
    i ≤ findFreeSlot.go rds ds i := by
  induction ds generalizing i with
  | nil => simp [findFreeSlot.go]
  | cons d ds ih =>
    unfold findFreeSlot.go
    split
    · rename_i h
      simp only [Bool.and_eq_true, Bool.not_eq_eq_eq_not, Bool.not_true] at h
      simp [List.getD, h.1, h.2]
    · obtain ⟨h1, h2⟩ := ih (i + 1)
      refine ⟨?_, by omega⟩
      intro hlt
      have := h1 (by simp at hlt ⊢; omega)
      have e : findFreeSlot.go rds ds (i + 1) - i = (findFreeSlot.go rds ds (i + 1) - (i + 1)) + 1 := by
        omega
      rw [e]
      simpa [List.getD] using this

theorem findFreeSlot_spec (rds : List RawDesc) (h : findFreeSlot rds < rds.length) :
    (rds.getD (findFreeSlot rds) zeroDesc).used = false ∧
    idInUse rds (findFreeSlot rds + 1) = false := by
  have := (findFreeSlot_go_spec rds rds 0).1 (by simpa [findFreeSlot] using h)
  simpa [findFreeSlot] using this

end Sif
