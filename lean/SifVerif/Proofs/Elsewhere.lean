/-
  Proofs/Elsewhere.lean — deleting objects outside a group leaves the group's minimum object ID,
  hence every member's relative ID and descriptor stream, unchanged.
-/
import SifVerif.Proofs.MinIDs
import SifVerif.Proofs.Plan
namespace Sif

theorem IsMinOf.unique (rds : List RawDesc) (g v v' : Nat) (h : IsMinOf rds g v) (h' : IsMinOf rds g v') :
    v = v' := by
  obtain ⟨⟨x, hx, hxu, hxg, hxv⟩, hle⟩ := h
  obtain ⟨⟨y, hy, hyu, hyg, hyv⟩, hle'⟩ := h'
  have a := hle y hy hyu hyg
  have b := hle' x hx hxu hxg
  omega

/-- members of group `g` are untouched when only descriptors of other groups are cleared -/
theorem IsMinOf.kill (rds : List RawDesc) (p : RawDesc → Bool) (g v : Nat)
    (hp : ∀ d ∈ rds, p d = true → d.gid ≠ g) (h : IsMinOf rds g v) :
    IsMinOf (rds.map (fun d => if p d then zeroDesc else d)) g v := by
  obtain ⟨⟨x, hx, hxu, hxg, hxv⟩, hle⟩ := h
  refine ⟨⟨x, ?_, hxu, hxg, hxv⟩, ?_⟩
  · rw [List.mem_map]
    refine ⟨x, hx, ?_⟩
    cases hpx : p x with
    | false => simp
    | true => exact absurd hxg (hp x hx hpx)
  · intro d hd hdu hdg
    rw [List.mem_map] at hd
    obtain ⟨y, hy, rfl⟩ := hd
    cases hpy : p y with
    | true => simp [hpy, zeroDesc] at hdu
    | false =>
      simp only [hpy, Bool.false_eq_true, ↓reduceIte] at hdu hdg ⊢
      exact hle y hy hdu hdg

theorem minLookup_after_kill (m : List (Nat × Nat)) (rds : List RawDesc) (p : RawDesc → Bool) (g : Nat)
    (hc : MinCoh m rds) (hmem : Member rds g) (hp : ∀ d ∈ rds, p d = true → d.gid ≠ g) :
    minLookup (populateMinIDs (rds.map (fun d => if p d then zeroDesc else d))) g = minLookup m g := by
  have h1 := (hc g).2 ((hc g).1.mpr hmem)
  have h1' := IsMinOf.kill rds p g _ hp h1
  have hc' := populate_coh (rds.map (fun d => if p d then zeroDesc else d))
  have hmem' : Member (rds.map (fun d => if p d then zeroDesc else d)) g := by
    obtain ⟨⟨x, hx, hxu, hxg, _⟩, _⟩ := h1'
    exact ⟨x, hx, hxu, hxg⟩
  have h2 := (hc' g).2 ((hc' g).1.mpr hmem')
  exact IsMinOf.unique _ g _ _ h2 h1'

end Sif
