/-
  Proofs/Load.lean — loading what was encoded: table slices, `readDescriptors`, `loadContainer`.
-/
import SifVerif.Model.Image
import SifVerif.Proofs.Layout
namespace Sif

@[simp] theorem encTable_nil : encTable [] = [] := by simp [encTable]
@[simp] theorem encTable_cons (d : RawDesc) (ds : List RawDesc) :
    encTable (d :: ds) = encDesc d ++ encTable ds := by simp [encTable]

@[simp] theorem encTable_length (rds : List RawDesc) : (encTable rds).length = 585 * rds.length := by
  induction rds with
  | nil => simp
  | cons d ds ih => simp [ih]; omega

theorem encTable_append (a b : List RawDesc) : encTable (a ++ b) = encTable a ++ encTable b := by
  simp [encTable]

/-- slot `i` of the encoded table is the encoding of descriptor `i` -/
theorem encTable_slot (rds : List RawDesc) (i : Nat) (d : RawDesc) (h : rds[i]? = some d) :
    slice (encTable rds) (585 * i) 585 = encDesc d := by
  induction rds generalizing i with
  | nil => simp at h
  | cons x xs ih =>
    cases i with
    | zero =>
      simp at h; subst h
      simpa using slice_take (encDesc x) (encTable xs) 585 (by simp)
    | succ i =>
      simp at h
      rw [encTable_cons, slice_skip _ _ _ _ (by simp; omega)]
      have : 585 * (i + 1) - (encDesc x).length = 585 * i := by simp; omega
      rw [this]; exact ih i h

theorem slice_slice (b : Bytes) (a L o l : Nat) (h : o + l ≤ L) :
    slice (slice b a L) o l = slice b (a + o) l := by
  simp only [slice, List.drop_take, List.take_take, List.drop_drop]
  congr 1
  omega

theorem slice_length_le (b : Bytes) (off len : Nat) : (slice b off len).length ≤ len := by
  simp [slice]; omega

theorem slice_length_of_le (b : Bytes) (off len : Nat) (h : off + len ≤ b.length) :
    (slice b off len).length = len := by
  simp [slice]; omega

theorem sectionLimit_eq (off n : Int) (h0 : 0 ≤ off) (hn : 0 ≤ n) (h : off + n ≤ maxI64) :
    sectionLimit off n = off + n := by
  unfold sectionLimit wrap64 maxI64 at *
  have : (9223372036854775807 - n + 9223372036854775808) % 18446744073709551616
      = 9223372036854775807 - n + 9223372036854775808 := Int.emod_eq_of_lt (by omega) (by omega)
  rw [this]
  split
  · rfl
  · omega

theorem sectionRead_ok (buf : Bytes) (off n : Int) (cur want : Nat)
    (h0 : 0 ≤ off) (h1 : (cur : Int) + want ≤ n) (h2 : off.toNat + cur + want ≤ buf.length)
    (hov : off + n ≤ maxI64) :
    sectionRead buf off n cur want = some (slice buf (off.toNat + cur) want) := by
  unfold sectionRead
  have hs : (off + (cur : Int)).toNat = off.toNat + cur := by omega
  rw [sectionLimit_eq off n h0 (by omega) hov]
  simp only [show ¬ off < 0 by omega, ↓reduceIte, show ¬ (off + ↑cur + ↑want > off + n) by omega,
    readAt, hs]
  have := slice_length_of_le buf (off.toNat + cur) want h2
  simp only [slice] at this
  simp [this, slice]

/-- the descriptors that `loadContainer` accepts: a used descriptor has non-negative offset and
    size (the check added by the D4 repair) -/
def loadable (d : RawDesc) : Bool := !(d.used && (d.off < 0 || d.size < 0))

theorem readDescriptors_ok (buf : Bytes) (doff dsize : Int) (rds : List RawDesc)
    (h0 : 0 ≤ doff) (hsz : (585 * rds.length : Int) ≤ dsize)
    (hlen : rds ≠ [] → doff.toNat + 585 * rds.length ≤ buf.length)
    (htab : slice buf doff.toNat (585 * rds.length) = encTable rds)
    (hv : ∀ d ∈ rds, d.Valid) (hl : ∀ d ∈ rds, loadable d = true) (hov : doff + dsize ≤ maxI64)
    (n i : Nat) (acc : List RawDesc) (hni : i + n = rds.length) :
    readDescriptors buf doff dsize n i acc = .ok (acc ++ rds.drop i) := by
  induction n generalizing i acc with
  | zero =>
    have : rds.drop i = [] := by simp; omega
    simp [readDescriptors, this]
  | succ n ih =>
    have hi : i < rds.length := by omega
    have hlen := hlen (by intro h; simp [h] at hi)
    obtain ⟨d, hd⟩ : ∃ d, rds[i]? = some d := ⟨rds[i], by simp [hi]⟩
    have hmem : d ∈ rds := List.mem_of_getElem? hd
    unfold readDescriptors
    rw [sectionRead_ok buf doff dsize (585 * i) 585 h0 (by omega) (by omega) hov]
    have hsl : slice buf (doff.toNat + 585 * i) 585 = encDesc d := by
      rw [← slice_slice buf doff.toNat (585 * rds.length) (585 * i) 585 (by omega), htab]
      exact encTable_slot rds i d hd
    simp only [hsl, decDesc_encDesc d (hv d hmem)]
    have hld := hl d hmem
    simp only [loadable, Bool.not_eq_true'] at hld
    simp only [hld, Bool.false_eq_true, ↓reduceIte]
    rw [ih (i + 1) (acc ++ [d]) (by omega)]
    have : rds.drop i = d :: rds.drop (i + 1) := by
      rw [List.drop_eq_getElem_cons hi]
      have : rds[i] = d := by
        rw [List.getElem?_eq_getElem hi] at hd
        exact Option.some.inj hd
      rw [this]
    simp [this]

/-- what `loadContainer` needs of a store: header and table where the header says, valid fields -/
structure Loadable (h : Hdr) (rds : List RawDesc) (buf : Bytes) : Prop where
  hv : h.Valid
  magic : h.magic = hdrMagic
  version : h.version = curVersion
  total : h.dtotal = rds.length
  doff : 0 ≤ h.doff
  dsize : (585 * rds.length : Int) ≤ h.dsize
  hlen : 128 ≤ buf.length
  hhdr : slice buf 0 128 = encHdr h
  tlen : rds ≠ [] → h.doff.toNat + 585 * rds.length ≤ buf.length
  htab : slice buf h.doff.toNat (585 * rds.length) = encTable rds
  dv : ∀ d ∈ rds, d.Valid
  dl : ∀ d ∈ rds, loadable d = true
  nov : h.doff + h.dsize ≤ maxI64

theorem loadContainer_ok (st : Store) (h : Hdr) (rds : List RawDesc) (L : Loadable h rds st.buf) :
    loadContainer st = .ok { h := h, rds := rds, minIDs := populateMinIDs rds, st := st } := by
  unfold loadContainer
  rw [sectionRead_ok st.buf 0 128 0 128 (by omega) (by omega) (by have := L.hlen; simpa using this)
    (by unfold maxI64; omega)]
  simp only [Int.toNat_zero, Nat.zero_add, L.hhdr, decHdr_encHdr h L.hv]
  simp only [L.magic, L.version, bne_self_eq_false, Bool.false_eq_true, ↓reduceIte]
  have ht : ¬ h.dtotal < 0 := by rw [L.total]; omega
  have hd0 : ¬ h.doff < 0 := by have := L.doff; omega
  simp only [ht, hd0, ↓reduceIte]
  have hn : h.dtotal.toNat = rds.length := by rw [L.total]; simp
  rw [hn, readDescriptors_ok st.buf h.doff h.dsize rds L.doff L.dsize L.tlen L.htab L.dv L.dl L.nov
    rds.length 0 [] (by omega)]
  simp

end Sif
