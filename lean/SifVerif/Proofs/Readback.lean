/-
  Proofs/Readback.lean — what was put in is what comes out: content and attributes of a newly
  added object, NUL-padded names.
-/
import SifVerif.Proofs.CreateWF
namespace Sif

variable (sha : Bytes → Bytes) (ph : Bytes → Option Bytes)

theorem dropWhile_zero_append_zeros (l : Bytes) (n : Nat) :
    ((l ++ zeros n).reverse.dropWhile (· == 0)) = l.reverse.dropWhile (· == 0) := by
  induction n with
  | zero => simp [zeros]
  | succ n ih =>
    have : l ++ zeros (n + 1) = (l ++ zeros n) ++ [0] := by
      simp [zeros, List.replicate_succ', List.append_assoc]
    rw [this, List.reverse_append]
    simp only [List.reverse_cons, List.reverse_nil, List.nil_append, List.singleton_append,
      List.dropWhile_cons, beq_self_eq_true, ↓reduceIte]
    exact ih

/-- a name of at most `n` bytes that does not end in NUL survives NUL-padding and trimming -/
theorem trimNul_pad (n : Nat) (b : Bytes) (hl : b.length ≤ n) (hlast : b.getLast? ≠ some 0) :
    trimNul (pad n b) = b := by
  unfold trimNul pad
  rw [List.take_of_length_le hl, dropWhile_zero_append_zeros]
  cases hb : b.reverse with
  | nil => simp at hb; simp [hb]
  | cons x xs =>
    have hx : b.getLast? = some x := by
      rw [List.getLast?_eq_head?_reverse, hb]; rfl
    have : (x == 0) = false := by
      rw [hx] at hlast
      simp only [ne_eq, Option.some.injEq] at hlast
      simpa using hlast
    simp only [List.dropWhile_cons, this, Bool.false_eq_true, ↓reduceIte]
    rw [← hb]; simp

/-- the object `AddObject` just accepted reads back exactly as given -/
theorem add_readback (s : Img) (W : WF s) (P : Placed s) (di : DI) (t : TOpt) (now : Int)
    (hok : (step sha ph s (.add di t) now).2 = .ok) :
    ∃ d calls, (step sha ph s (.add di t) now).1.rds[findFreeSlot s.rds]? = some d ∧
      d.used = true ∧ d.id = findFreeSlot s.rds + 1 ∧
      objContent (step sha ph s (.add di t) now).1.st d = di.content ∧
      writeDataObjectAt sha (s.h.dataOff + calculatedDataSize s.h s.rds) di (resolveTime s t now)
        { zeroDesc with id := findFreeSlot s.rds + 1 } = (calls, .ok d) ∧
      (step sha ph s (.add di t) now).1.h.mtime = resolveTime s t now := by
  have hio : (step sha ph s (.add di t) now).2 ≠ .err .io := by rw [hok]; simp
  obtain ⟨st', hcalls, hs', hres⟩ := step_store sha ph s (.add di t) now (by simp) hio
  rw [hs']
  simp only [plan] at hcalls hres ⊢
  rcases addObjectPlan_cases sha ph s di t now with ⟨calls, e, h⟩ | ⟨calls, d, arch, hi, hp, hw, h⟩
  · rw [h] at hres; rw [hok] at hres; cases hres
  · simp only at h
    rw [h] at hcalls ⊢
    simp only at hcalls ⊢
    obtain ⟨off, hn, _, hcs, hud, hidd, hoffd, hszd, _⟩ := writeDataObjectAt_ok sha _ di _ _ d calls hw
    have hge := nextAligned_ge _ _ _ hn
    have hcalc := calculatedDataSize_nonneg s.h s.rds
    have h128 := W.doff
    have htab := W.tabEnd
    have hoff0 : ¬ off < 0 := by omega
    refine ⟨d, calls, by simp only [commitObject]; exact List.getElem?_set_self hi, hud,
      by simpa using hidd, ?_, hw, trivial⟩
    rw [objContent_eq_slice _ d (by rw [hoffd]; omega) (by rw [hszd]; omega)]
    have hlo : regLo d = off.toNat := by unfold regLo; rw [hoffd]
    have hlen : regHi d - regLo d = di.content.length := by unfold regHi regLo; rw [hoffd, hszd]; omega
    by_cases he : di.content.isEmpty
    · simp only [List.isEmpty_iff] at he
      rw [hlen, he]; simp [slice]
    · have hne : di.content.isEmpty = false := by simpa using he
      rw [hcs] at hcalls
      simp only [hne, Bool.false_eq_true, ↓reduceIte, List.cons_append, List.nil_append] at hcalls
      simp only [Store.calls, Store.call, Store.seekStart, hoff0, ↓reduceIte] at hcalls
      have hw2 : ({ s.st with pos := off.toNat } : Store).write di.content =
          { s.st with buf := writeAt s.st.buf off.toNat di.content,
                      pos := off.toNat + di.content.length } := by
        cases hbe : s.st.be <;> simp [Store.write, hbe, hne]
      rw [hw2] at hcalls
      have hlh : regLo d ≤ regHi d := by unfold regLo regHi; omega
      have hsafe : callsSafe (regLo d) (regHi d)
          { s.st with buf := writeAt s.st.buf off.toNat di.content,
                      pos := off.toNat + di.content.length }
          (flushCalls { commitObject s (findFreeSlot s.rds) d arch (calculatedDataSize s.h s.rds) with
            h := { (commitObject s (findFreeSlot s.rds) d arch (calculatedDataSize s.h s.rds)).h with
              mtime := resolveTime s t now } }) := by
        apply flush_safe
        · simpa [commitObject] using h128
        · simp only [commitObject, List.length_set]; unfold regLo; omega
      obtain ⟨_, f2⟩ := calls_frame (regLo d) (regHi d) hlh _ _ _
        (by simp only [writeAt_length]; unfold regHi; omega) hsafe hcalls
      rw [f2, hlen, hlo]
      exact slice_writeAt_same _ _ _

/-- the creation loop leaves launch script, ID and creation time alone -/
theorem createObjects_hdr (dis : List DI) (k : Nat) (t : Int) (s : Img) :
    (createObjects sha ph dis k t s []).2.1.h.launch = s.h.launch ∧
    (createObjects sha ph dis k t s []).2.1.h.id = s.h.id ∧
    (createObjects sha ph dis k t s []).2.1.h.ctime = s.h.ctime ∧
    (createObjects sha ph dis k t s []).2.1.h.mtime = s.h.mtime ∧
    (createObjects sha ph dis k t s []).2.1.h.magic = s.h.magic ∧
    (createObjects sha ph dis k t s []).2.1.h.version = s.h.version := by
  induction dis generalizing k s with
  | nil => simp [createObjects]
  | cons di dis ih =>
    unfold createObjects
    rcases writeDataObject_cases sha ph s k di t with ⟨c, e, h⟩ | ⟨c, d, arch, _, _, _, h⟩
    · rw [h]; simp
    · rw [h]
      simp only
      rw [createObjects_acc]
      simp only
      have := ih (k + 1) (commitObject s k d arch (calculatedDataSize s.h s.rds))
      simpa [commitObject] using this

end Sif
