/-
  Proofs/Step.lean — `WF` is preserved by every step of every history.
-/
import SifVerif.Proofs.Preserve
namespace Sif

variable (sha : Bytes → Bytes) (ph : Bytes → Option Bytes)

theorem setPrimPartPlan_cases (s : Img) (id : Nat) (topt : TOpt) (now : Int) :
    (∃ r, setPrimPartPlan ph s id topt now = ([], s, r)) ∨
    (∃ i rds1, demotePrimary ph s.rds (resolveTime s topt now) = .ok rds1 ∧
      setPrimPartPlan ph s id topt now =
        (flushCalls (setPrimResult s i rds1 (resolveTime s topt now)),
         setPrimResult s i rds1 (resolveTime s topt now), .ok)) := by
  unfold setPrimPartPlan
  cases h1 : getDescriptorIdx ph s.rds [Sel.id id] with
  | error e => left; exact ⟨_, rfl⟩
  | ok i =>
    dsimp only
    split
    · left; exact ⟨_, rfl⟩
    · split
      · left; exact ⟨_, rfl⟩
      · split
        · left; exact ⟨_, rfl⟩
        · cases h5 : demotePrimary ph s.rds (resolveTime s topt now) with
          | error e => left; exact ⟨_, rfl⟩
          | ok rds1 => right; exact ⟨i, rds1, rfl, rfl⟩

theorem setExtraPlan_cases (s : Img) (i : Nat) (md : MDIn) (t : Int) :
    (∃ e, setExtraPlan sha s i md t = ([], s, .err e)) ∨
    (∃ d, setExtra sha [] md (s.rds.getD i zeroDesc) = .ok d ∧
      let s2 : Img := { s with rds := s.rds.set i { d with mtime := t }, h := { s.h with mtime := t } }
      setExtraPlan sha s i md t = (flushCalls s2, s2, .ok)) := by
  unfold setExtraPlan
  cases h : setExtra sha [] md (s.rds.getD i zeroDesc) with
  | error e => left; exact ⟨e, rfl⟩
  | ok d => right; exact ⟨d, rfl, rfl⟩

theorem setExtraPlan_mem (s : Img) (M : WFmem s) (i : Nat) (md : MDIn) (t : Int)
    (hok : (setExtraPlan sha s i md t).2.2 = .ok) : WFmem (setExtraPlan sha s i md t).2.1 := by
  rcases setExtraPlan_cases sha s i md t with ⟨e, h⟩ | ⟨d, hd, h⟩
  · rw [h] at hok; cases hok
  · simp only at h
    rw [h]
    refine keys_preserve_mem s _ M ?_ rfl rfl rfl rfl rfl rfl rfl rfl
    exact map_key_set s.rds i _ (by
      have := setExtra_key sha [] md _ d hd
      simpa [key] using this)

/-- the in-memory invariant is preserved by every accepted plan -/
theorem plan_mem (s : Img) (M : WFmem s) (op : Op) (now : Int)
    (hok : (plan sha ph s op now).2.2 = .ok) : WFmem (plan sha ph s op now).2.1 := by
  cases op with
  | add di t =>
    simp only [plan] at *
    rcases addObjectPlan_cases sha ph s di t now with ⟨calls, e, h⟩ | ⟨calls, d, arch, hi, hp, hw, h⟩
    · rw [h] at hok; cases hok
    · simp only at h
      rw [h]
      obtain ⟨off, hn, _, _, hu, hid, hoff, hsz, _⟩ := writeDataObjectAt_ok sha _ di _ _ d calls hw
      obtain ⟨hfree, hinuse⟩ := findFreeSlot_spec s.rds hi
      have h1 := nextAligned_ge _ _ _ hn
      have h2 := calculatedDataSize_nonneg s.h s.rds
      have h3 := M.doff
      have h4 := M.tabEnd
      exact (add_preserves_mem s M (findFreeSlot s.rds) d arch _ _ hi hfree hinuse hu hid
        (by rw [hoff]; omega) (by rw [hsz]; omega)).1
  | del sel z c t =>
    simp only [plan] at *
    rcases deleteObjectsPlan_cases ph s sel z c t now with ⟨calls, e, h⟩ | ⟨_, _, h⟩
    · rw [h] at hok; cases hok
    · rw [h]; exact delete_preserves_mem ph s M sel c _
  | setPrim id t =>
    simp only [plan] at *
    rcases setPrimPartPlan_cases ph s id t now with ⟨r, h⟩ | ⟨i, rds1, hd, h⟩
    · rw [h]; exact M
    · rw [h]
      have hk1 := demotePrimary_keys ph s.rds rds1 _ hd
      refine keys_preserve_mem s _ M ?_ rfl rfl rfl rfl rfl rfl rfl rfl
      simp only [setPrimResult]
      rw [map_key_set rds1 i _ (by simp [key]), hk1]
  | setMeta id md t =>
    simp only [plan, setMetadataPlan] at *
    cases h1 : getDescriptorIdx ph s.rds [Sel.id id] with
    | error e => simp [h1] at hok
    | ok i => simp only [h1] at hok ⊢; exact setExtraPlan_mem sha s M i md _ hok
  | setOCI id text t =>
    simp only [plan, setOCIBlobDigestPlan] at *
    cases h1 : getDescriptorIdx ph s.rds [Sel.id id] with
    | error e => simp [h1] at hok
    | ok i =>
      simp only [h1] at hok ⊢
      split at hok
      · cases hok
      · rename_i h2; simp only [h2, ↓reduceIte]
        exact setExtraPlan_mem sha s M i _ _ hok
  | reload => exact M

theorem step_eq_runPlan (s : Img) (op : Op) (now : Int) (h : ∀ x, op ≠ x → True)
    (hne : match op with | .reload => False | _ => True) :
    step sha ph s op now = runPlan (plan sha ph s op now) s.st := by
  cases op <;> first | rfl | exact absurd hne (by simp)

/-- **WF is an invariant**: every operation, accepted or rejected, preserves it (I/O failures of
    the store are the subject of C09 and excluded here). -/
theorem WF_step (s : Img) (W : WF s) (R : Ranges s) (op : Op) (now : Int)
    (hio : (step sha ph s op now).2 ≠ .err .io) : WF (step sha ph s op now).1 := by
  by_cases hrl : op = .reload
  · subst hrl
    simp only [step, WF.load s W R]
    exact WF.of_mem _ ⟨W.magic, W.version, W.total, W.doff, W.tabEnd, W.dsize, W.tabRegion, populate_coh _,
      W.acct, W.uniq, W.lo⟩ W.sync
  · have hstep : step sha ph s op now = runPlan (plan sha ph s op now) s.st := by
      cases op <;> first | rfl | exact absurd rfl hrl
    rw [hstep] at hio ⊢
    unfold runPlan at hio ⊢
    rcases hcp : s.st.callsPrefix (plan sha ph s op now).1 with ⟨st', b⟩
    rw [hcp] at hio
    cases b with
    | false => simp at hio
    | true =>
      simp only
      have hcalls : s.st.calls (plan sha ph s op now).1 = some st' := by
        have := calls_of_callsPrefix s.st (plan sha ph s op now).1 (by rw [hcp])
        rw [hcp] at this; exact this
      obtain ⟨hrej, hacc⟩ := plan_shape sha ph s op now
      by_cases hok : (plan sha ph s op now).2.2 = .ok
      · -- accepted
        have M' := plan_mem sha ph s (WF.mem s W) op now hok
        refine WF.of_mem _ ⟨M'.magic, M'.version, M'.total, M'.doff, M'.tabEnd, M'.dsize, M'.tabRegion, M'.coh,
          M'.acct, M'.uniq, M'.lo⟩ ?_
        rcases hacc hok with ⟨hc, hs⟩ | ⟨pre, hc, hdoff, _⟩
        · rw [hc] at hcalls
          simp only [Store.calls, Option.some.injEq] at hcalls
          subst hcalls
          simp only [Synced, hs]; exact W.sync
        · rw [hc, calls_append] at hcalls
          cases hpre : s.st.calls pre with
          | none => simp [hpre] at hcalls
          | some stp =>
            simp only [hpre, Option.bind_some] at hcalls
            obtain ⟨st'', h1, h2⟩ := flush_synced (plan sha ph s op now).2.1 stp
              (by rw [hdoff]; exact W.doff)
            rw [h1] at hcalls
            cases hcalls
            exact h2
      · -- rejected: handle unchanged; calls, if any, lie beyond the data offset
        have hs := hrej hok
        rw [hs]
        refine WF.of_mem _ ⟨W.magic, W.version, W.total, W.doff, W.tabEnd, W.dsize, W.tabRegion, W.coh, W.acct,
          W.uniq, W.lo⟩ ?_
        rcases plan_rejected_calls sha ph s op now hok with hc | ⟨off, p, hge, hc⟩
        · rw [hc] at hcalls
          simp only [Store.calls, Option.some.injEq] at hcalls
          subst hcalls; exact W.sync
        · rw [hc] at hcalls
          have h128 := W.doff
          have htab := W.tabEnd
          have hcalc := calculatedDataSize_nonneg s.h s.rds
          have hoff0 : ¬ off < 0 := by omega
          by_cases hp : p.isEmpty
          · simp only [hp, ↓reduceIte, List.append_nil, Store.calls, Store.call, Store.seekStart,
              hoff0, Option.some.injEq] at hcalls
            subst hcalls; exact W.sync
          · simp only [hp, Bool.false_eq_true, ↓reduceIte, List.cons_append, List.nil_append,
              Store.calls, Store.call, Store.seekStart, hoff0, Option.some.injEq] at hcalls
            subst hcalls
            have hpe : p.isEmpty = false := by simpa using hp
            have : SyncedAt s.h s.rds (writeAt s.st.buf off.toNat p) :=
              SyncedAt.write_beyond s.h s.rds s.st.buf W.sync off.toNat p (by omega) (by omega)
            cases hbe : s.st.be <;> simpa [Synced, Store.write, hbe, hpe] using this

/-- a whole history -/
def runOps (s : Img) : List (Op × Int) → Img
  | [] => s
  | (op, now) :: rest => runOps (step sha ph s op now).1 rest

theorem WF_history (s : Img) (ops : List (Op × Int)) (W : WF s)
    (hR : ∀ k, Ranges (runOps sha ph s (ops.take k)))
    (hio : ∀ k op now, ops[k]? = some (op, now) →
      (step sha ph (runOps sha ph s (ops.take k)) op now).2 ≠ .err .io) :
    WF (runOps sha ph s ops) := by
  induction ops generalizing s with
  | nil => exact W
  | cons x rest ih =>
    obtain ⟨op, now⟩ := x
    simp only [runOps]
    apply ih
    · exact WF_step sha ph s W (by simpa [runOps] using hR 0) op now
        (by simpa [runOps] using hio 0 op now (by simp))
    · intro k; simpa [runOps] using hR (k + 1)
    · intro k op' now' hk
      simpa [runOps] using hio (k + 1) op' now' (by simpa using hk)

end Sif
