/-
  Proofs/LoadRanges.lean — whatever `LoadContainer` accepts satisfies `Ranges`: every number of the
  header and of every descriptor was decoded from a fixed-width field, so it is representable in
  that field's Go type, and every byte-array field has its fixed length.  This is the start of the
  induction for histories on someone else's file (the created case is `Proofs/CreateRanges.lean`).
-/
import SifVerif.Proofs.WF
import SifVerif.Proofs.Load
namespace Sif

theorem leVal_lt_of_le (b : Bytes) (w : Nat) (h : b.length ≤ w) : leVal b < 256 ^ w :=
  Nat.lt_of_lt_of_le (leVal_lt b) (Nat.pow_le_pow_right (by omega) h)

theorem decS8_I64 (b : Bytes) (h : b.length ≤ 8) : I64 (decS 8 b) := by
  have := leVal_lt_of_le b 8 h
  unfold decS I64
  simp only
  split <;> omega

theorem decS4_I32 (b : Bytes) (h : b.length ≤ 4) : I32 (decS 4 b) := by
  have := leVal_lt_of_le b 4 h
  unfold decS I32
  simp only
  split <;> omega

theorem decU_U32 (b : Bytes) (h : b.length ≤ 4) : U32 (decU b) := by
  have := leVal_lt_of_le b 4 h
  unfold decU U32
  omega

/-- a section read that succeeds returns exactly the bytes asked for -/
theorem sectionRead_length (buf : Bytes) (off n : Int) (cur want : Nat) (b : Bytes)
    (h : sectionRead buf off n cur want = some b) : b.length = want := by
  unfold sectionRead at h
  split at h
  · cases h
  · simp only at h
    split at h
    · cases h
    · split at h
      · cases h
      · cases h
        have : (readAt buf (off + ↑cur).toNat want).length ≤ want := by simp [readAt]; omega
        omega

theorem decHdr_valid (b : Bytes) (h : b.length = 128) : (decHdr b).Valid := by
  unfold decHdr
  exact ⟨slice_length_of_le b 0 32 (by omega), slice_length_of_le b 32 10 (by omega),
    slice_length_of_le b 42 3 (by omega), slice_length_of_le b 45 3 (by omega),
    slice_length_of_le b 48 16 (by omega),
    decS8_I64 _ (slice_length_le _ _ _), decS8_I64 _ (slice_length_le _ _ _),
    decS8_I64 _ (slice_length_le _ _ _), decS8_I64 _ (slice_length_le _ _ _),
    decS8_I64 _ (slice_length_le _ _ _), decS8_I64 _ (slice_length_le _ _ _),
    decS8_I64 _ (slice_length_le _ _ _), decS8_I64 _ (slice_length_le _ _ _)⟩

theorem decDesc_valid (b : Bytes) (h : b.length = 585) : (decDesc b).Valid := by
  unfold decDesc
  exact ⟨decS4_I32 _ (slice_length_le _ _ _), decU_U32 _ (slice_length_le _ _ _),
    decU_U32 _ (slice_length_le _ _ _), decU_U32 _ (slice_length_le _ _ _),
    decS8_I64 _ (slice_length_le _ _ _), decS8_I64 _ (slice_length_le _ _ _),
    decS8_I64 _ (slice_length_le _ _ _), decS8_I64 _ (slice_length_le _ _ _),
    decS8_I64 _ (slice_length_le _ _ _), decS8_I64 _ (slice_length_le _ _ _),
    decS8_I64 _ (slice_length_le _ _ _),
    slice_length_of_le b 73 128 (by omega), slice_length_of_le b 201 384 (by omega)⟩

theorem readDescriptors_valid (buf : Bytes) (doff dsize : Int) (n i : Nat) (acc rds : List RawDesc)
    (hacc : ∀ d ∈ acc, d.Valid) (h : readDescriptors buf doff dsize n i acc = .ok rds) :
    ∀ d ∈ rds, d.Valid := by
  induction n generalizing i acc with
  | zero =>
    unfold readDescriptors at h
    cases h; exact hacc
  | succ n ih =>
    unfold readDescriptors at h
    cases hs : sectionRead buf doff dsize (585 * i) 585 with
    | none => rw [hs] at h; cases h
    | some b =>
      rw [hs] at h
      simp only at h
      split at h
      · cases h
      · apply ih (i + 1) (acc ++ [decDesc b]) _ h
        intro d hd
        rcases List.mem_append.mp hd with h1 | h1
        · exact hacc d h1
        · simp only [List.mem_singleton] at h1
          rw [h1]; exact decDesc_valid b (sectionRead_length _ _ _ _ _ _ hs)

/-- **every image the loader accepts satisfies `Ranges`** -/
theorem loadContainer_ranges (st : Store) (s : Img) (h : loadContainer st = .ok s) : Ranges s := by
  unfold loadContainer at h
  cases hs : sectionRead st.buf 0 128 0 128 with
  | none => rw [hs] at h; cases h
  | some hb =>
    rw [hs] at h
    simp only at h
    split at h
    · cases h
    · split at h
      · cases h
      · split at h
        · cases h
        · split at h
          · cases h
          · cases hr : readDescriptors st.buf (decHdr hb).doff (decHdr hb).dsize (decHdr hb).dtotal.toNat 0 [] with
            | error e => rw [hr] at h; cases h
            | ok rds =>
              rw [hr] at h
              cases h
              exact ⟨decHdr_valid hb (sectionRead_length _ _ _ _ _ _ hs),
                readDescriptors_valid _ _ _ _ _ [] rds (by simp) hr⟩

end Sif
