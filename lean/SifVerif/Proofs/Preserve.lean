/-
  Proofs/Preserve.lean — every operation preserves the invariant `WF`.
-/
import SifVerif.Proofs.WF
namespace Sif

variable (sha : Bytes → Bytes) (ph : Bytes → Option Bytes)

/-- the in-memory clauses of `WF` (everything except `sync`) -/
structure WFmem (s : Img) : Prop where
  magic : s.h.magic = hdrMagic
  version : s.h.version = curVersion
  total : s.h.dtotal = s.rds.length
  doff : 128 ≤ s.h.doff
  tabEnd : s.h.doff + 585 * s.rds.length ≤ s.h.dataOff
  dsize : (585 * s.rds.length : Int) ≤ s.h.dsize
  tabRegion : s.h.doff + s.h.dsize ≤ s.h.dataOff
  coh : MinCoh s.minIDs s.rds
  acct : s.h.dfree + (live s.rds).length = s.h.dtotal
  uniq : ((live s.rds).map (·.id)).Nodup
  lo : ∀ d ∈ s.rds, d.used = true → 0 ≤ d.off ∧ 0 ≤ d.size

theorem WF.mem (s : Img) (W : WF s) : WFmem s :=
  ⟨W.magic, W.version, W.total, W.doff, W.tabEnd, W.dsize, W.tabRegion, W.coh, W.acct, W.uniq, W.lo⟩

theorem WF.of_mem (s : Img) (M : WFmem s) (S : Synced s) : WF s :=
  ⟨M.magic, M.version, M.total, M.doff, M.tabEnd, M.dsize, M.tabRegion, S, M.coh, M.acct, M.uniq, M.lo⟩

/-! ### live descriptors under the two table updates -/

theorem live_append (a b : List RawDesc) : live (a ++ b) = live a ++ live b := by
  simp [live]

theorem live_split (rds : List RawDesc) (i : Nat) (hi : i < rds.length) :
    live rds = live (rds.take i) ++ live [rds[i]] ++ live (rds.drop (i + 1)) := by
  have : rds = rds.take i ++ [rds[i]] ++ rds.drop (i + 1) := by
    rw [List.append_assoc, List.singleton_append, ← List.drop_eq_getElem_cons hi,
      List.take_append_drop]
  have h : live (rds.take i ++ [rds[i]] ++ rds.drop (i + 1))
      = live (rds.take i) ++ live [rds[i]] ++ live (rds.drop (i + 1)) := by
    rw [live_append, live_append]
  rw [← this] at h
  exact h

theorem live_set_split (rds : List RawDesc) (i : Nat) (d : RawDesc) (hi : i < rds.length) :
    live (rds.set i d) = live (rds.take i) ++ live [d] ++ live (rds.drop (i + 1)) := by
  have h1 : (rds.set i d).take i = rds.take i := by simp [List.take_set_of_le]
  have h2 : (rds.set i d).drop (i + 1) = rds.drop (i + 1) := by simp [List.drop_set_of_lt]
  have := live_split (rds.set i d) i (by simpa using hi)
  rw [this, h1, h2]; simp

theorem idInUse_false (rds : List RawDesc) (n : Nat) (h : idInUse rds n = false) :
    n ∉ (live rds).map (·.id) := by
  intro hm
  obtain ⟨d, hd, hid⟩ := List.mem_map.mp hm
  simp only [live, List.mem_filter] at hd
  simp only [idInUse, List.any_eq_false, Bool.and_eq_true, beq_iff_eq, not_and] at h
  exact h d hd.1 hd.2 hid

/-! ### AddObject -/
theorem add_preserves_mem (s : Img) (M : WFmem s) (i : Nat) (d : RawDesc) (arch : Option Bytes)
    (ds t : Int) (hi : i < s.rds.length) (hfree : (s.rds.getD i zeroDesc).used = false)
    (hid : idInUse s.rds (i + 1) = false) (hu : d.used = true) (hdid : d.id = i + 1)
    (hoff : 0 ≤ d.off) (hsz : 0 ≤ d.size) :
    let s1 := commitObject s i d arch ds
    WFmem { s1 with h := { s1.h with mtime := t } } ∧ WFmem s1 := by
  intro s1
  suffices h : WFmem { s1 with h := { s1.h with mtime := t } } from
    ⟨h, ⟨h.magic, h.version, h.total, h.doff, h.tabEnd, h.dsize, h.tabRegion, h.coh, h.acct, h.uniq, h.lo⟩⟩
  have hri : s.rds[i].used = false := by simpa [List.getD, hi] using hfree
  have hl0 : live [s.rds[i]] = [] := by simp [live, hri]
  have hl1 : live [d] = [d] := by simp [live, hu]
  have hsplit := live_split s.rds i hi
  have hsplit' := live_set_split s.rds i d hi
  rw [hl0] at hsplit; rw [hl1] at hsplit'
  refine ⟨M.magic, M.version, ?_, M.doff, ?_, ?_, M.tabRegion, ?_, ?_, ?_, ?_⟩
  · simpa [s1, commitObject] using M.total
  · simpa [s1, commitObject] using M.tabEnd
  · simpa [s1, commitObject] using M.dsize
  · exact MinCoh.lower s.minIDs s.rds (s.rds.set i d) d M.coh hu
      (fun x hx => mem_set_of_unused s.rds i d x hi hfree hx)
  · have := M.acct
    simp only [s1, commitObject, hsplit'] at *
    rw [hsplit] at this
    simp only [List.append_nil, List.length_append, List.length_cons, List.length_nil] at *
    omega
  · have hn := M.uniq
    have hnot := idInUse_false s.rds (i + 1) hid
    simp only [s1, commitObject, hsplit']
    rw [hsplit] at hn hnot
    simp only [List.append_nil, List.map_append, List.map_cons, List.map_nil, List.append_assoc,
      List.singleton_append] at *
    rw [List.nodup_append] at hn ⊢
    obtain ⟨n1, n2, n3⟩ := hn
    simp only [List.mem_append, not_or] at hnot
    refine ⟨n1, ?_, ?_⟩
    · rw [List.nodup_cons]; exact ⟨by rw [hdid]; exact hnot.2, n2⟩
    · intro a ha b hb
      rcases List.mem_cons.mp hb with hb | hb
      · subst hb; rw [hdid]; intro e; subst e; exact hnot.1 ha
      · exact n3 a ha b hb
  · intro x hx hxu
    rcases List.mem_or_eq_of_mem_set hx with h | h
    · exact M.lo x h hxu
    · subst h; exact ⟨hoff, hsz⟩

/-! ### DeleteObjects -/
theorem live_map_kill (rds : List RawDesc) (p : RawDesc → Bool) (hp : ∀ d, p d = true → d.used = true) :
    live (rds.map (fun d => if p d then zeroDesc else d)) = (live rds).filter (fun d => !p d) ∧
    (live rds).length = (rds.filter p).length + ((live rds).filter (fun d => !p d)).length := by
  induction rds with
  | nil => simp [live]
  | cons d ds ih =>
    obtain ⟨i1, i2⟩ := ih
    cases hpd : p d with
    | true =>
      have hu := hp d hpd
      have a1 : live (List.map (fun d => if p d = true then zeroDesc else d) (d :: ds))
          = live (List.map (fun d => if p d = true then zeroDesc else d) ds) := by
        simp [live, hpd, zeroDesc]
      have a2 : (live (d :: ds)).filter (fun d => !p d) = (live ds).filter (fun d => !p d) := by
        simp [live, hu, hpd]
      have a3 : (live (d :: ds)).length = (live ds).length + 1 := by simp [live, hu]
      have a4 : ((d :: ds).filter p).length = (ds.filter p).length + 1 := by simp [hpd]
      rw [a1, a2, a3, a4]
      exact ⟨i1, by omega⟩
    | false =>
      cases hu : d.used with
      | false =>
        have a1 : live (List.map (fun d => if p d = true then zeroDesc else d) (d :: ds))
            = live (List.map (fun d => if p d = true then zeroDesc else d) ds) := by
          simp [live, hpd, hu]
        have a2 : live (d :: ds) = live ds := by simp [live, hu]
        have a4 : ((d :: ds).filter p) = (ds.filter p) := by simp [hpd]
        rw [a1, a2, a4]
        exact ⟨i1, i2⟩
      | true =>
        have a1 : live (List.map (fun d => if p d = true then zeroDesc else d) (d :: ds))
            = d :: live (List.map (fun d => if p d = true then zeroDesc else d) ds) := by
          simp [live, hpd, hu]
        have a2 : (live (d :: ds)).filter (fun d => !p d) = d :: (live ds).filter (fun d => !p d) := by
          simp [live, hu, hpd]
        have a3 : (live (d :: ds)).length = (live ds).length + 1 := by simp [live, hu]
        have a4 : ((d :: ds).filter p) = (ds.filter p) := by simp [hpd]
        rw [a1, a2, a3, a4, i1]
        exact ⟨rfl, by simp only [List.length_cons]; omega⟩

theorem delete_preserves_mem (s : Img) (M : WFmem s) (sel : Sel) (compact : Bool) (t : Int) :
    WFmem (deleteResult ph s sel compact t) := by
  have hp : ∀ d, hit ph sel d = true → d.used = true := by
    intro d h; simp only [hit, Bool.and_eq_true] at h; exact h.1
  obtain ⟨l1, l2⟩ := live_map_kill s.rds (hit ph sel) hp
  have hh := hdrAfterDelete_doff s.h (s.rds.filter (hit ph sel))
  obtain ⟨e1, e2, e3, e4, e5, e6, e7, e8, e9, e10, e11, e12⟩ := hh
  have hdr : ∀ (c : Bool), (deleteResult ph s sel c t).h.magic = s.h.magic ∧
      (deleteResult ph s sel c t).h.version = s.h.version ∧
      (deleteResult ph s sel c t).h.dtotal = s.h.dtotal ∧
      (deleteResult ph s sel c t).h.doff = s.h.doff ∧
      (deleteResult ph s sel c t).h.dataOff = s.h.dataOff ∧
      (deleteResult ph s sel c t).h.dsize = s.h.dsize ∧
      (deleteResult ph s sel c t).h.dfree = s.h.dfree + (s.rds.filter (hit ph sel)).length := by
    intro c; cases c <;> simp [deleteResult, deleteFinish, *]
  obtain ⟨g1, g2, g3, g4, g5, g6, g7⟩ := hdr compact
  have hrds : (deleteResult ph s sel compact t).rds
      = s.rds.map (fun d => if hit ph sel d then zeroDesc else d) := by
    simp [deleteResult, deleteFinish]
  have hmin : (deleteResult ph s sel compact t).minIDs
      = populateMinIDs (s.rds.map (fun d => if hit ph sel d then zeroDesc else d)) := by
    simp [deleteResult, deleteFinish]
  refine ⟨by rw [g1]; exact M.magic, by rw [g2]; exact M.version, ?_, by rw [g4]; exact M.doff, ?_, ?_,
    by rw [g4, g6, g5]; exact M.tabRegion, ?_, ?_, ?_, ?_⟩
  · rw [g3, hrds]; simpa using M.total
  · rw [g4, g5, hrds]; simpa using M.tabEnd
  · rw [g6, hrds]; simpa using M.dsize
  · rw [hmin, hrds]; exact populate_coh _
  · rw [g7, g3, hrds, l1]; have := M.acct; omega
  · rw [hrds, l1]
    exact List.Nodup.sublist (List.Sublist.map _ List.filter_sublist) M.uniq
  · rw [hrds]
    intro x hx hxu
    obtain ⟨d, hd, hdx⟩ := List.mem_map.mp hx
    by_cases hh : hit ph sel d = true
    · simp only [hh, ↓reduceIte] at hdx; subst hdx; simp [zeroDesc] at hxu
    · simp only [hh, Bool.false_eq_true, ↓reduceIte] at hdx; subst hdx; exact M.lo d hd hxu

/-! ### operations that rewrite only `extra` / `mtime` of some descriptors -/
theorem keys_preserve_mem (s s' : Img) (M : WFmem s) (hk : s'.rds.map key = s.rds.map key)
    (hm : s'.minIDs = s.minIDs) (h1 : s'.h.magic = s.h.magic) (h2 : s'.h.version = s.h.version)
    (h3 : s'.h.dtotal = s.h.dtotal) (h4 : s'.h.doff = s.h.doff) (h5 : s'.h.dataOff = s.h.dataOff)
    (h6 : s'.h.dsize = s.h.dsize) (h7 : s'.h.dfree = s.h.dfree) : WFmem s' := by
  have hlen : s'.rds.length = s.rds.length := by
    have := congrArg List.length hk; simpa using this
  obtain ⟨k1, k2⟩ := live_map_key s.rds s'.rds hk
  refine ⟨by rw [h1]; exact M.magic, by rw [h2]; exact M.version, by rw [h3, hlen]; exact M.total,
    by rw [h4]; exact M.doff, by rw [h4, h5, hlen]; exact M.tabEnd, by rw [h6, hlen]; exact M.dsize,
    by rw [h4, h6, h5]; exact M.tabRegion, ?_, by rw [h7, h3, k2]; exact M.acct, by rw [k1]; exact M.uniq, lo_of_keys s.rds s'.rds hk M.lo⟩
  rw [hm]; exact MinCoh.of_keys s.minIDs s.rds s'.rds hk M.coh

theorem setExtra_key (copied : Bytes) (md : MDIn) (d d' : RawDesc)
    (h : setExtra sha copied md d = .ok d') : key d' = key d := by
  unfold setExtra at h
  split at h
  · cases h
  · cases h; rfl
  · split at h
    · cases h
    · cases h; rfl

theorem demotePrimary_keys (rds rds1 : List RawDesc) (t : Int)
    (h : demotePrimary ph rds t = .ok rds1) : rds1.map key = rds.map key := by
  unfold demotePrimary at h
  split at h
  · cases h; exact map_key_set _ _ _ rfl
  · cases h; rfl
  · cases h

end Sif
