/-
  Proofs/Refine.lean — the concrete model (Model/Image.lean) refines the abstract reference model
  (Model/Spec.lean): helper lemmas.  The property theorem is `C02_refine` in Props/C02.lean.
-/
import SifVerif.Model.Spec
import SifVerif.Proofs.Place
import SifVerif.Proofs.Step
import SifVerif.Proofs.Readback
namespace Sif

variable (sha : Bytes → Bytes) (ph : Bytes → Option Bytes)

/-! ### `erase` touches only the placement fields -/
@[simp] theorem erase_used (d : RawDesc) : (erase d).used = d.used := rfl
@[simp] theorem erase_id (d : RawDesc) : (erase d).id = d.id := rfl
@[simp] theorem erase_dtype (d : RawDesc) : (erase d).dtype = d.dtype := rfl
@[simp] theorem erase_extra (d : RawDesc) : (erase d).extra = d.extra := rfl
@[simp] theorem erase_partType (d : RawDesc) : (erase d).partType = d.partType := rfl
@[simp] theorem erase_partFS (d : RawDesc) : (erase d).partFS = d.partFS := rfl
@[simp] theorem erase_partArch (d : RawDesc) : (erase d).partArch = d.partArch := rfl
@[simp] theorem erase_isPart (d : RawDesc) (pt : Int) :
    (erase d).isPartitionOfType pt = d.isPartitionOfType pt := rfl

theorem Sel.bad_erase (s : Sel) (d : RawDesc) : s.bad (erase d) = s.errOn ph d := by
  cases s with
  | id i => cases i <;> rfl
  | linkedID i => cases i <;> rfl
  | groupID i => cases i <;> rfl
  | linkedGroupID i => cases i <;> rfl
  | pred f => simp only [Sel.bad, Sel.errOn, Sel.eval]; cases f (erase d) <;> rfl
  | _ => rfl

theorem Sel.sat_erase (s : Sel) (d : RawDesc) : s.sat ph (erase d) = s.holds ph d := by
  cases s <;> rfl

/-! ### the abstract view of the table -/
theorem abs_slots_length (s : Img) : (abs s).slots.length = s.rds.length := by simp [abs]

theorem objs_map (st : Store) (rds : List RawDesc) :
    (rds.map (absSlot st)).filterMap (fun o => o) =
      (live rds).map (fun d => { d := erase d, content := objContent st d }) := by
  induction rds with
  | nil => simp [live]
  | cons d ds ih =>
    cases hu : d.used <;> simp [absSlot, hu, live, ih] <;> simpa [live] using ih

theorem abs_objs (s : Img) :
    (abs s).objs = (live s.rds).map (fun d => { d := erase d, content := objContent s.st d }) := by
  simp only [AImg.objs, abs]
  exact objs_map _ _

theorem abs_idTaken (s : Img) (n : Nat) : (abs s).idTaken n = idInUse s.rds n := by
  simp only [AImg.idTaken, abs_objs, idInUse, List.any_map]
  induction s.rds with
  | nil => simp [live]
  | cons d ds ih =>
    cases hu : d.used <;> simp [live, hu] <;> simpa [live] using ih

theorem freeSlot_go (a : AImg) (st : Store) (all rds : List RawDesc) (i : Nat)
    (h : ∀ n, a.idTaken n = idInUse all n) :
    AImg.freeSlot.go a (rds.map (absSlot st)) i = findFreeSlot.go all rds i := by
  induction rds generalizing i with
  | nil => simp [AImg.freeSlot.go, findFreeSlot.go]
  | cons d ds ih =>
    simp only [List.map_cons, AImg.freeSlot.go, findFreeSlot.go, h, ih]
    cases hu : d.used <;> simp [absSlot, hu]

theorem abs_freeSlot (s : Img) : (abs s).freeSlot = findFreeSlot s.rds := by
  unfold AImg.freeSlot findFreeSlot
  exact freeSlot_go (abs s) s.st s.rds s.rds 0 (abs_idTaken s)

theorem abs_time (s : Img) (o : TOpt) (now : Int) : (abs s).time o now = resolveTime s o now := by
  cases o <;> simp [AImg.time, resolveTime, AImg.isDeterministic, Img.isDeterministic, abs]

theorem abs_hasPrimary (s : Img) :
    (abs s).hasPrimary = (live s.rds).any (fun d => d.isPartitionOfType partPrimSys) := by
  simp [AImg.hasPrimary, abs_objs, List.any_map, AImg.isPrimary, Function.comp_def]

/-! ### unique-object lookup -/
theorem findOneSlot_acc (p : AObj → Bool) (os : List (Option AObj)) (i a k : Nat)
    (h : AImg.findOneSlot p os i (some a) = .ok (some k)) : k = a := by
  induction os generalizing i with
  | nil => simpa [AImg.findOneSlot] using h.symm
  | cons o os ih =>
    cases o with
    | none => exact ih (i + 1) (by simpa [AImg.findOneSlot] using h)
    | some x =>
      simp only [AImg.findOneSlot] at h
      by_cases hp : p x
      · simp [hp] at h
      · simp only [hp, Bool.false_eq_true, ↓reduceIte] at h
        exact ih (i + 1) h

theorem findOneSlot_some (p : AObj → Bool) (os : List (Option AObj)) (i k : Nat)
    (h : AImg.findOneSlot p os i none = .ok (some k)) :
    i ≤ k ∧ ∃ o, os[k - i]? = some (some o) ∧ p o = true := by
  induction os generalizing i with
  | nil => simp [AImg.findOneSlot] at h
  | cons o os ih =>
    cases o with
    | none =>
      obtain ⟨h1, x, h2, h3⟩ := ih (i + 1) (by simpa [AImg.findOneSlot] using h)
      refine ⟨by omega, x, ?_, h3⟩
      have : k - i = (k - (i + 1)) + 1 := by omega
      rw [this]; simpa using h2
    | some x =>
      simp only [AImg.findOneSlot] at h
      by_cases hp : p x
      · simp only [hp, ↓reduceIte] at h
        have := findOneSlot_acc p os (i + 1) i k h
        subst this
        exact ⟨Nat.le_refl _, x, by simp, hp⟩
      · simp only [hp, Bool.false_eq_true, ↓reduceIte] at h
        obtain ⟨h1, y, h2, h3⟩ := ih (i + 1) h
        refine ⟨by omega, y, ?_, h3⟩
        have : k - i = (k - (i + 1)) + 1 := by omega
        rw [this]; simpa using h2

/-- the concrete unique-match scan over the table is the abstract one over the slots -/
theorem findOne_abs (st : Store) (sels : List Sel) (p : AObj → Bool) (rds : List RawDesc) (i : Nat)
    (acc : Option Nat)
    (h : ∀ d ∈ rds, d.used = true →
      multiSel ph sels d = .ok (p { d := erase d, content := objContent st d })) :
    findOne ph sels rds i acc = AImg.findOneSlot p (rds.map (absSlot st)) i acc := by
  induction rds generalizing i acc with
  | nil => simp [findOne, AImg.findOneSlot]
  | cons d ds ih =>
    have hds : ∀ x ∈ ds, x.used = true →
        multiSel ph sels x = .ok (p { d := erase x, content := objContent st x }) :=
      fun x hx hu => h x (by simp [hx]) hu
    unfold findOne
    cases hu : d.used with
    | false => simp [absSlot, hu, AImg.findOneSlot, ih _ _ hds]
    | true =>
      have hm := h d (by simp) hu
      simp only [Bool.not_true, Bool.false_eq_true, ↓reduceIte, hm, List.map_cons, absSlot, hu,
        AImg.findOneSlot]
      cases hp : p { d := erase d, content := objContent st d } with
      | false => simp [ih _ _ hds]
      | true => cases acc <;> simp [ih _ _ hds]

/-- with an ID of zero the scan fails on the first live object, if there is one -/
theorem findOne_id_zero (rds : List RawDesc) (i : Nat) (acc : Option Nat) :
    findOne ph [.id 0] rds i acc =
      if (live rds) = [] then .ok acc else .error .invalidObjectID := by
  induction rds generalizing i with
  | nil => simp [findOne, live]
  | cons d ds ih =>
    unfold findOne
    cases hu : d.used with
    | false => simp [hu, ih, live]
    | true => simp [hu, multiSel, Sel.eval, live]

theorem abs_slotOfID (s : Img) (id : Nat) :
    (abs s).slotOfID id = getDescriptorIdx ph s.rds [.id id] := by
  unfold AImg.slotOfID getDescriptorIdx
  by_cases h0 : id = 0
  · subst h0
    rw [findOne_id_zero]
    by_cases hl : live s.rds = []
    · have ho : (abs s).objs = [] := by rw [abs_objs, hl]; rfl
      simp only [beq_self_eq_true, ho, ne_eq, not_true_eq_false, and_false, ↓reduceIte, hl]
      have : findOne ph [.id 0] s.rds 0 none = .ok none := by rw [findOne_id_zero]; simp [hl]
      have hs : (abs s).slots = s.rds.map (absSlot s.st) := rfl
      rw [hs, ← findOne_abs ph s.st [.id 0] (fun o => o.d.id == 0) s.rds 0 none]
      · rw [this]
      · intro d hd hu
        have : d ∈ live s.rds := by simp [live, hd, hu]
        rw [hl] at this; cases this
    · have ho : (abs s).objs ≠ [] := by
        rw [abs_objs]; simpa using hl
      simp [ho, hl]
  · have hne : (id == 0) = false := by simpa using h0
    simp only [hne, Bool.false_eq_true, false_and, ↓reduceIte]
    have hs : (abs s).slots = s.rds.map (absSlot s.st) := rfl
    rw [hs, findOne_abs ph s.st [.id id] (fun o => o.d.id == id) s.rds 0 none]
    · rfl
    · intro d _ _
      have : (Sel.id id).noErr = true := by simpa [Sel.noErr] using h0
      rw [multiSel_noErr ph [.id id] d (by simpa using this)]
      simp [Sel.holds]

theorem slotOfID_ok (s : Img) (id i : Nat) (h : getDescriptorIdx ph s.rds [.id id] = .ok i) :
    ∃ d0, s.rds[i]? = some d0 ∧ d0.used = true ∧ d0.id = id := by
  rw [← abs_slotOfID] at h
  unfold AImg.slotOfID at h
  split at h
  · cases h
  · split at h
    · cases h
    · cases h
    · rename_i k hk
      cases h
      obtain ⟨_, o, ho, hp⟩ := findOneSlot_some _ _ 0 i hk
      have hs : (abs s).slots = s.rds.map (absSlot s.st) := rfl
      rw [hs, Nat.sub_zero, List.getElem?_map] at ho
      cases hd : s.rds[i]? with
      | none => simp [hd] at ho
      | some d0 =>
        simp only [hd, Option.map_some, Option.some.injEq] at ho
        unfold absSlot at ho
        cases hu : d0.used with
        | false => simp [hu] at ho
        | true =>
          simp only [hu, ↓reduceIte, Option.some.injEq] at ho
          subst ho
          exact ⟨d0, rfl, hu, by simpa using hp⟩

/-! ### content and frames -/
theorem objContent_congr (st : Store) (d d' : RawDesc) (h1 : d.off = d'.off) (h2 : d.size = d'.size) :
    objContent st d = objContent st d' := by simp [objContent, h1, h2]

/-- a surviving live object keeps its content through any step that does not fail in the store -/
theorem content_kept (s : Img) (W : WF s) (P : Placed s) (R : Ranges s) (op : Op) (now : Int)
    (hio : (step sha ph s op now).2 ≠ .err .io) (d : RawDesc) (hd : d ∈ s.rds) (hu : d.used = true)
    (hsv : (plan sha ph s op now).2.2 = .ok → survives ph op d) :
    objContent (step sha ph s op now).1.st d = objContent s.st d := by
  obtain ⟨i, hi, hid⟩ := List.getElem_of_mem hd
  have hdi : s.rds[i]? = some d := by rw [List.getElem?_eq_getElem hi, hid]
  exact (step_frame sha ph s W P R op now i d hdi hu hsv hio).1

theorem absSlot_congr (st st' : Store) (rds : List RawDesc)
    (h : ∀ d ∈ rds, d.used = true → objContent st' d = objContent st d) :
    rds.map (absSlot st') = rds.map (absSlot st) := by
  apply List.map_congr_left
  intro d hd
  unfold absSlot
  cases hu : d.used with
  | false => rfl
  | true => simp [h d hd hu]

/-- **a rejected operation leaves the abstract image as it was** -/
theorem refine_rejected (s : Img) (W : WF s) (P : Placed s) (R : Ranges s) (op : Op) (now : Int)
    (hrej : (step sha ph s op now).2 ≠ .ok) (hio : (step sha ph s op now).2 ≠ .err .io) :
    abs (step sha ph s op now).1 = abs s := by
  by_cases hrl : op = .reload
  · subst hrl
    simp only [step, WF.load s W R] at hrej
    exact absurd rfl hrej
  obtain ⟨st', _, hs', hres⟩ := step_store sha ph s op now hrl hio
  have hplanrej : (plan sha ph s op now).2.2 ≠ .ok := by rw [← hres]; exact hrej
  have hmem := (plan_shape sha ph s op now).1 hplanrej
  have hst : (step sha ph s op now).1.st = st' := by rw [hs']
  have hh : (step sha ph s op now).1.h = s.h := by rw [hs', hmem]
  have hr : (step sha ph s op now).1.rds = s.rds := by rw [hs', hmem]
  unfold abs
  rw [hh, hr]
  congr 1
  apply absSlot_congr
  intro d hd hu
  exact content_kept sha ph s W P R op now hio d hd hu (fun h => absurd h hplanrej)

theorem setExtra_erase (copied : Bytes) (md : MDIn) (d : RawDesc) :
    setExtra sha copied md (erase d) = (setExtra sha copied md d).map erase := by
  unfold setExtra
  cases md.marshal sha copied with
  | error e => rfl
  | ok ob =>
    cases ob with
    | none => rfl
    | some b =>
      dsimp only
      split <;> rfl

theorem setExtra_place (copied : Bytes) (md : MDIn) (d d' : RawDesc)
    (h : setExtra sha copied md d = .ok d') : d'.off = d.off ∧ d'.size = d.size ∧ d'.used = d.used := by
  unfold setExtra at h
  cases hm : md.marshal sha copied with
  | error e => simp [hm] at h
  | ok ob =>
    cases ob with
    | none => simp [hm] at h; subst h; exact ⟨rfl, rfl, rfl⟩
    | some b =>
      simp only [hm] at h
      split at h
      · cases h
      · cases h; exact ⟨rfl, rfl, rfl⟩

theorem abs_slot_get (s : Img) (i : Nat) (d0 : RawDesc) (hd0 : s.rds[i]? = some d0) (hu : d0.used = true) :
    (abs s).slots.getD i none = some { d := erase d0, content := objContent s.st d0 } := by
  have hs : (abs s).slots = s.rds.map (absSlot s.st) := rfl
  rw [hs, List.getD_eq_getElem?_getD, List.getElem?_map, hd0]
  simp [absSlot, hu]

/-- the common tail of set-metadata / set-OCI-digest refines `setExtraAt` -/
theorem refine_setExtraAt (s : Img) (W : WF s) (P : Placed s) (R : Ranges s) (op : Op) (now : Int)
    (hio : (step sha ph s op now).2 ≠ .err .io) (hne : op ≠ .reload) (hsv : ∀ d, survives ph op d)
    (i : Nat) (d0 : RawDesc) (hd0 : s.rds[i]? = some d0) (hu : d0.used = true) (md : MDIn) (t : Int)
    (hplan : plan sha ph s op now = setExtraPlan sha s i md t) :
    (step sha ph s op now).2 = ((abs s).setExtraAt sha i md t).2 ∧
    abs (step sha ph s op now).1 = ((abs s).setExtraAt sha i md t).1 := by
  obtain ⟨st', _, hs', hres⟩ := step_store sha ph s op now hne hio
  have hget : s.rds.getD i zeroDesc = d0 := by
    rw [List.getD_eq_getElem?_getD, hd0]; rfl
  have hi : i < s.rds.length := by
    rcases Nat.lt_or_ge i s.rds.length with h | h
    · exact h
    · rw [List.getElem?_eq_none h] at hd0; cases hd0
  unfold AImg.setExtraAt
  rw [abs_slot_get s i d0 hd0 hu]
  dsimp only
  rw [setExtra_erase]
  unfold setExtraPlan at hplan
  rw [hget] at hplan
  cases h2 : setExtra sha [] md d0 with
  | error e =>
    rw [h2] at hplan
    simp only [Except.map]
    have hr : (step sha ph s op now).2 = .err e := by rw [hres, hplan]
    exact ⟨hr, refine_rejected sha ph s W P R op now (by rw [hr]; simp) hio⟩
  | ok d =>
    rw [h2] at hplan
    simp only [Except.map]
    have hr : (step sha ph s op now).2 = .ok := by rw [hres, hplan]
    refine ⟨hr, ?_⟩
    obtain ⟨hoff, hsz, hud⟩ := setExtra_place sha [] md d0 d h2
    have hkeep : ∀ x ∈ s.rds, x.used = true →
        objContent (step sha ph s op now).1.st x = objContent s.st x :=
      fun x hx hxu => content_kept sha ph s W P R op now hio x hx hxu (fun _ => hsv x)
    have hst : (step sha ph s op now).1.st = st' := by rw [hs']
    rw [hs', hplan]
    unfold abs
    simp only [List.map_set]
    have hmap : s.rds.map (absSlot st') = s.rds.map (absSlot s.st) := by
      apply absSlot_congr
      intro x hx hxu
      rw [← hst]; exact hkeep x hx hxu
    rw [hmap]
    have hslot : absSlot st' { d with mtime := t } =
        some { d := { erase d with mtime := t }, content := objContent s.st d0 } := by
      have hmem : d0 ∈ s.rds := List.mem_of_getElem? hd0
      have hc : objContent st' { d with mtime := t } = objContent s.st d0 := by
        rw [objContent_congr st' { d with mtime := t } d0 hoff hsz, ← hst]
        exact hkeep d0 hmem hu
      unfold absSlot
      have hused : ({ d with mtime := t } : RawDesc).used = true := by
        show d.used = true
        rw [hud, hu]
      rw [if_pos hused, hc]
      rfl
    rw [hslot]

theorem refine_setMeta (s : Img) (W : WF s) (P : Placed s) (R : Ranges s) (id : Nat) (md : MDIn)
    (topt : TOpt) (now : Int) (hio : (step sha ph s (.setMeta id md topt) now).2 ≠ .err .io) :
    (step sha ph s (.setMeta id md topt) now).2 = ((abs s).setMeta sha id md topt now).2 ∧
    abs (step sha ph s (.setMeta id md topt) now).1 = ((abs s).setMeta sha id md topt now).1 := by
  unfold AImg.setMeta
  rw [abs_slotOfID ph, abs_time]
  cases h1 : getDescriptorIdx ph s.rds [.id id] with
  | error e =>
    obtain ⟨st', _, _, hres⟩ := step_store sha ph s (.setMeta id md topt) now (by simp) hio
    have hr : (step sha ph s (.setMeta id md topt) now).2 = .err e := by
      rw [hres]; simp [plan, setMetadataPlan, h1]
    exact ⟨hr, refine_rejected sha ph s W P R _ now (by rw [hr]; simp) hio⟩
  | ok i =>
    obtain ⟨d0, hd0, hu, _⟩ := slotOfID_ok ph s id i h1
    exact refine_setExtraAt sha ph s W P R _ now hio (by simp) (fun _ => trivial) i d0 hd0 hu md _
      (by simp [plan, setMetadataPlan, h1])

theorem refine_setOCI (s : Img) (W : WF s) (P : Placed s) (R : Ranges s) (id : Nat) (text : Bytes)
    (topt : TOpt) (now : Int) (hio : (step sha ph s (.setOCI id text topt) now).2 ≠ .err .io) :
    (step sha ph s (.setOCI id text topt) now).2 = ((abs s).setOCI sha id text topt now).2 ∧
    abs (step sha ph s (.setOCI id text topt) now).1 = ((abs s).setOCI sha id text topt now).1 := by
  unfold AImg.setOCI
  rw [abs_slotOfID ph, abs_time]
  obtain ⟨st', _, _, hres⟩ := step_store sha ph s (.setOCI id text topt) now (by simp) hio
  cases h1 : getDescriptorIdx ph s.rds [.id id] with
  | error e =>
    have hr : (step sha ph s (.setOCI id text topt) now).2 = .err e := by
      rw [hres]; simp [plan, setOCIBlobDigestPlan, h1]
    exact ⟨hr, refine_rejected sha ph s W P R _ now (by rw [hr]; simp) hio⟩
  | ok i =>
    obtain ⟨d0, hd0, hu, _⟩ := slotOfID_ok ph s id i h1
    have hget : s.rds.getD i zeroDesc = d0 := by
      rw [List.getD_eq_getElem?_getD, hd0]; rfl
    dsimp only
    rw [abs_slot_get s i d0 hd0 hu]
    dsimp only
    rw [erase_dtype]
    by_cases hoci : isOCIType d0.dtype
    · simp only [hoci, Bool.not_true, Bool.false_eq_true, ↓reduceIte]
      exact refine_setExtraAt sha ph s W P R _ now hio (by simp) (fun _ => trivial) i d0 hd0 hu _ _
        (by simp only [plan, setOCIBlobDigestPlan, h1, hget, hoci]; simp)
    · simp only [hoci, Bool.not_false, ↓reduceIte]
      have hr : (step sha ph s (.setOCI id text topt) now).2 = .err .unexpectedDataType := by
        rw [hres]; simp only [plan, setOCIBlobDigestPlan, h1, hget, hoci]; simp
      exact ⟨hr, refine_rejected sha ph s W P R _ now (by rw [hr]; simp) hio⟩

theorem findOneSlot_err (p : AObj → Bool) (os : List (Option AObj)) (i : Nat) (acc : Option Nat) (e : Err)
    (h : AImg.findOneSlot p os i acc = .error e) : e = .multipleObjectsFound := by
  induction os generalizing i acc with
  | nil => simp [AImg.findOneSlot] at h
  | cons o os ih =>
    cases o with
    | none => exact ih (i + 1) acc (by simpa [AImg.findOneSlot] using h)
    | some x =>
      simp only [AImg.findOneSlot] at h
      by_cases hp : p x
      · simp only [hp, ↓reduceIte] at h
        cases acc with
        | none => exact ih (i + 1) (some i) h
        | some a => simp at h; exact h.symm
      · simp only [hp, Bool.false_eq_true, ↓reduceIte] at h
        exact ih (i + 1) acc h

/-- an edited descriptor (same place, still in use) of a live object shows the old content -/
theorem absSlot_edit (s : Img) (st' : Store) (d0 d' : RawDesc) (hu : d'.used = true)
    (hoff : d'.off = d0.off) (hsz : d'.size = d0.size)
    (hc : objContent st' d0 = objContent s.st d0) :
    absSlot st' d' = some { d := erase d', content := objContent s.st d0 } := by
  unfold absSlot
  rw [if_pos hu, objContent_congr st' d' d0 hoff hsz, hc]

theorem primary_scan (s : Img) :
    findOne ph [.partType partPrimSys] s.rds 0 none =
      AImg.findOneSlot AImg.isPrimary (abs s).slots 0 none := by
  have hs : (abs s).slots = s.rds.map (absSlot s.st) := rfl
  rw [hs]
  apply findOne_abs
  intro d _ _
  rw [multiSel_noErr ph [.partType partPrimSys] d (by simp [Sel.noErr])]
  simp [Sel.holds, AImg.isPrimary]

/-- `d` re-typed as partition type `pt` at time `t` -/
def retyped (d : RawDesc) (pt : Int) (t : Int) : RawDesc :=
  { d with extra := pad 384 (encPartition d.partFS pt d.partArch), mtime := t }

theorem demotePrimary_eq (rds : List RawDesc) (t : Int) :
    demotePrimary ph rds t =
      match getDescriptorIdx ph rds [.partType partPrimSys] with
      | .ok j => .ok (rds.set j (retyped (rds.getD j zeroDesc) partSystem t))
      | .error .objectNotFound => .ok rds
      | .error e => .error e := rfl

theorem setPrimResult_eq (s : Img) (i : Nat) (rds1 : List RawDesc) (t : Int) :
    setPrimResult s i rds1 t =
      { s with rds := rds1.set i { rds1.getD i zeroDesc with
                 extra := pad 384 (encPartition (s.rds.getD i zeroDesc).partFS partPrimSys (s.rds.getD i zeroDesc).partArch),
                 mtime := t },
               h := { s.h with arch := pad 3 (s.rds.getD i zeroDesc).partArch, mtime := t } } := rfl

/-- `setPrimPartPlan` once the target is known to be an ordinary system partition -/
theorem setPrimPartPlan_system (s : Img) (id : Nat) (topt : TOpt) (now : Int) (i : Nat) (d0 : RawDesc)
    (h1 : getDescriptorIdx ph s.rds [.id id] = .ok i) (hget : s.rds.getD i zeroDesc = d0)
    (hdt : ¬ (d0.dtype != dtPartition) = true) (hpp : ¬ (d0.partType == partPrimSys) = true)
    (hps : ¬ (d0.partType != partSystem) = true) :
    setPrimPartPlan ph s id topt now =
      match demotePrimary ph s.rds (resolveTime s topt now) with
      | .error e => ([], s, .err e)
      | .ok rds1 => (flushCalls (setPrimResult s i rds1 (resolveTime s topt now)),
                     setPrimResult s i rds1 (resolveTime s topt now), .ok) := by
  unfold setPrimPartPlan
  rw [h1]
  dsimp only
  rw [hget, if_neg hdt, if_neg hpp, if_neg hps]
  cases demotePrimary ph s.rds (resolveTime s topt now) <;> rfl

theorem setPrimPartPlan_early (s : Img) (id : Nat) (topt : TOpt) (now : Int) (i : Nat) (d0 : RawDesc)
    (h1 : getDescriptorIdx ph s.rds [.id id] = .ok i) (hget : s.rds.getD i zeroDesc = d0) :
    ((d0.dtype != dtPartition) = true → setPrimPartPlan ph s id topt now = ([], s, .err .notPartition)) ∧
    (¬ (d0.dtype != dtPartition) = true → (d0.partType == partPrimSys) = true →
      setPrimPartPlan ph s id topt now = ([], s, .ok)) ∧
    (¬ (d0.dtype != dtPartition) = true → ¬ (d0.partType == partPrimSys) = true →
      (d0.partType != partSystem) = true → setPrimPartPlan ph s id topt now = ([], s, .err .notSystem)) := by
  refine ⟨fun a => ?_, fun a b => ?_, fun a b c => ?_⟩ <;>
    (unfold setPrimPartPlan; rw [h1]; dsimp only; rw [hget])
  · rw [if_pos a]
  · rw [if_neg a, if_pos b]
  · rw [if_neg a, if_neg b, if_pos c]

theorem refine_setPrim (s : Img) (W : WF s) (P : Placed s) (R : Ranges s) (id : Nat)
    (topt : TOpt) (now : Int) (hio : (step sha ph s (.setPrim id topt) now).2 ≠ .err .io) :
    (step sha ph s (.setPrim id topt) now).2 = ((abs s).setPrim id topt now).2 ∧
    abs (step sha ph s (.setPrim id topt) now).1 = ((abs s).setPrim id topt now).1 := by
  obtain ⟨st', hcalls, hs', hres⟩ := step_store sha ph s (.setPrim id topt) now (by simp) hio
  have rej : ∀ e, (plan sha ph s (.setPrim id topt) now).2.2 = .err e →
      (step sha ph s (.setPrim id topt) now).2 = .err e ∧
      abs (step sha ph s (.setPrim id topt) now).1 = abs s := by
    intro e he
    have hr : (step sha ph s (.setPrim id topt) now).2 = .err e := by rw [hres, he]
    exact ⟨hr, refine_rejected sha ph s W P R _ now (by rw [hr]; simp) hio⟩
  have hplan0 : plan sha ph s (.setPrim id topt) now = setPrimPartPlan ph s id topt now := rfl
  unfold AImg.setPrim
  rw [abs_slotOfID ph, abs_time]
  cases h1 : getDescriptorIdx ph s.rds [.id id] with
  | error e => exact rej e (by rw [hplan0]; simp [setPrimPartPlan, h1])
  | ok i =>
    obtain ⟨d0, hd0, hu, _⟩ := slotOfID_ok ph s id i h1
    have hget : s.rds.getD i zeroDesc = d0 := by
      rw [List.getD_eq_getElem?_getD, hd0]; rfl
    have hmem0 : d0 ∈ s.rds := List.mem_of_getElem? hd0
    obtain ⟨e1, e2, e3⟩ := setPrimPartPlan_early ph s id topt now i d0 h1 hget
    dsimp only
    rw [abs_slot_get s i d0 hd0 hu]
    dsimp only
    rw [erase_dtype, erase_partType]
    by_cases hdt : (d0.dtype != dtPartition) = true
    · rw [if_pos hdt]
      exact rej _ (by rw [hplan0, e1 hdt])
    · rw [if_neg hdt]
      by_cases hpp : (d0.partType == partPrimSys) = true
      · rw [if_pos hpp]
        have hp : plan sha ph s (.setPrim id topt) now = ([], s, .ok) := by rw [hplan0, e2 hdt hpp]
        rw [hp] at hcalls hs' hres
        simp only [Store.calls, Option.some.injEq] at hcalls
        subst hcalls
        exact ⟨hres, by rw [hs']⟩
      · rw [if_neg hpp]
        by_cases hps : (d0.partType != partSystem) = true
        · rw [if_pos hps]
          exact rej _ (by rw [hplan0, e3 hdt hpp hps])
        · rw [if_neg hps]
          have hpl := setPrimPartPlan_system ph s id topt now i d0 h1 hget hdt hpp hps
          have hscan := primary_scan ph s
          have hkeep : ∀ x ∈ s.rds, x.used = true →
              objContent st' x = objContent s.st x := by
            intro x hx hxu
            have := content_kept sha ph s W P R (.setPrim id topt) now hio x hx hxu (fun _ => trivial)
            rwa [hs'] at this
          have hmap : s.rds.map (absSlot st') = s.rds.map (absSlot s.st) :=
            absSlot_congr _ _ _ hkeep
          have hsl : (abs s).slots = s.rds.map (absSlot s.st) := rfl
          have e0 : absSlot st' (retyped d0 partPrimSys (resolveTime s topt now)) =
              some { d := erase (retyped d0 partPrimSys (resolveTime s topt now)),
                     content := objContent s.st d0 } :=
            absSlot_edit s st' d0 _ hu rfl rfl (hkeep d0 hmem0 hu)
          cases hf : AImg.findOneSlot AImg.isPrimary (abs s).slots 0 none with
          | error e =>
            have he := findOneSlot_err _ _ _ _ _ hf
            subst he
            dsimp only
            refine rej _ ?_
            rw [hplan0, hpl, demotePrimary_eq, getDescriptorIdx, hscan, hf]
          | ok oj =>
            cases oj with
            | none =>
              dsimp only
              have hp : plan sha ph s (.setPrim id topt) now =
                  (flushCalls (setPrimResult s i s.rds (resolveTime s topt now)),
                   setPrimResult s i s.rds (resolveTime s topt now), .ok) := by
                rw [hplan0, hpl, demotePrimary_eq, getDescriptorIdx, hscan, hf]
              rw [hp] at hres hs'
              refine ⟨hres, ?_⟩
              rw [hs', setPrimResult_eq, hget]
              show abs { h := _, rds := s.rds.set i (retyped d0 partPrimSys (resolveTime s topt now)),
                         minIDs := _, st := st' } = _
              unfold abs
              simp only [List.map_set, hmap, e0]
              rfl
            | some j =>
              dsimp only
              obtain ⟨_, oj, hoj, hpj⟩ := findOneSlot_some _ _ 0 j hf
              rw [hsl, Nat.sub_zero, List.getElem?_map] at hoj
              cases hdj : s.rds[j]? with
              | none => simp [hdj] at hoj
              | some dj =>
                simp only [hdj, Option.map_some, Option.some.injEq] at hoj
                have huj : dj.used = true := by
                  unfold absSlot at hoj
                  cases h : dj.used with
                  | false => simp [h] at hoj
                  | true => rfl
                have hoj' : oj = { d := erase dj, content := objContent s.st dj } := by
                  unfold absSlot at hoj
                  simp only [huj, ↓reduceIte, Option.some.injEq] at hoj
                  exact hoj.symm
                subst hoj'
                have hgetj : s.rds.getD j zeroDesc = dj := by
                  rw [List.getD_eq_getElem?_getD, hdj]; rfl
                have hmemj : dj ∈ s.rds := List.mem_of_getElem? hdj
                have hji : j ≠ i := by
                  intro hEq
                  subst hEq
                  rw [hd0] at hdj
                  cases hdj
                  simp only [AImg.isPrimary, RawDesc.isPartitionOfType, Bool.and_eq_true] at hpj
                  exact hpp hpj.2
                have ej : absSlot st' (retyped dj partSystem (resolveTime s topt now)) =
                    some { d := erase (retyped dj partSystem (resolveTime s topt now)),
                           content := objContent s.st dj } :=
                  absSlot_edit s st' dj _ huj rfl rfl (hkeep dj hmemj huj)
                have hp : plan sha ph s (.setPrim id topt) now =
                    (flushCalls (setPrimResult s i (s.rds.set j (retyped dj partSystem (resolveTime s topt now))) (resolveTime s topt now)),
                     setPrimResult s i (s.rds.set j (retyped dj partSystem (resolveTime s topt now))) (resolveTime s topt now), .ok) := by
                  rw [hplan0, hpl, demotePrimary_eq, getDescriptorIdx, hscan, hf]
                  dsimp only
                  rw [hgetj]
                rw [hp] at hres hs'
                refine ⟨hres, ?_⟩
                have hget1 : (s.rds.set j (retyped dj partSystem (resolveTime s topt now))).getD i zeroDesc = d0 := by
                  rw [List.getD_eq_getElem?_getD, List.getElem?_set_ne hji, hd0]; rfl
                rw [hs', setPrimResult_eq, hget, hget1]
                show abs { h := _, rds := (s.rds.set j (retyped dj partSystem (resolveTime s topt now))).set i
                             (retyped d0 partPrimSys (resolveTime s topt now)),
                           minIDs := _, st := st' } = _
                unfold abs
                have hgj : (List.map (absSlot s.st) s.rds).getD j none =
                    some { d := erase dj, content := objContent s.st dj } := by
                  have := abs_slot_get s j dj hdj huj
                  rwa [hsl] at this
                simp only [List.map_set, hmap, e0, ej, hgj]
                rfl

/-! ### delete -/
theorem Sel.errOf_none_of_noErr (sel : Sel) (h : sel.noErr = true) : sel.errOf = none := by
  cases sel with
  | id i => cases i <;> simp_all [Sel.noErr, Sel.errOf]
  | linkedID i => cases i <;> simp_all [Sel.noErr, Sel.errOf]
  | groupID i => cases i <;> simp_all [Sel.noErr, Sel.errOf]
  | linkedGroupID i => cases i <;> simp_all [Sel.noErr, Sel.errOf]
  | _ => rfl

theorem hdrAfterDelete_arch (h : Hdr) (ds : List RawDesc) :
    (hdrAfterDelete h ds).arch =
      if ds.any (fun d => d.isPartitionOfType partPrimSys) then archUnknown else h.arch := by
  induction ds generalizing h with
  | nil => simp [hdrAfterDelete]
  | cons d ds ih =>
    have := ih { h with dfree := h.dfree + 1,
                        arch := if d.isPartitionOfType partPrimSys then archUnknown else h.arch }
    simp only [hdrAfterDelete, List.foldl_cons] at this ⊢
    rw [this]
    cases hp : d.isPartitionOfType partPrimSys <;> cases ha : ds.any (fun d => d.isPartitionOfType partPrimSys) <;>
      simp [hp, ha]

theorem deleteFinish_hdr (s : Img) (h1 : Hdr) (rds1 : List RawDesc) (compact : Bool) (t : Int) :
    (deleteFinish s h1 rds1 compact t).h.launch = h1.launch ∧
    (deleteFinish s h1 rds1 compact t).h.arch = h1.arch ∧
    (deleteFinish s h1 rds1 compact t).h.id = h1.id ∧
    (deleteFinish s h1 rds1 compact t).h.ctime = h1.ctime ∧
    (deleteFinish s h1 rds1 compact t).h.mtime = t ∧
    (deleteFinish s h1 rds1 compact t).rds = rds1 := by
  cases compact <;> simp [deleteFinish]

/-- what `DeleteObjects` answers -/
theorem deleteObjectsPlan_res (s : Img) (sel : Sel) (zero compact : Bool) (topt : TOpt) (now : Int) :
    (deleteObjectsPlan ph s sel zero compact topt now).2.2 =
      match sel.firstErr ph s.rds with
      | some e => .err e
      | none => if s.rds.any (hit ph sel) then .ok else .err .objectNotFound := by
  unfold deleteObjectsPlan
  cases hfe : sel.firstErr ph s.rds with
  | none =>
    rw [deleteLoop_closed ph sel zero _ _ _ _ _ hfe]
    simp only [List.nil_append, Bool.false_or]
    cases hany : s.rds.any (hit ph sel) <;> simp
  | some e =>
    rw [deleteLoop_err ph sel e zero _ _ _ _ _ hfe]

/-- the selector's first error on the objects of the abstract image is its first error on the
    in-use descriptors -/
theorem firstErr_objs (s : Img) (sel : Sel) :
    (abs s).objs.findSome? (fun o => sel.bad o.d) = sel.firstErr ph s.rds := by
  rw [abs_objs]
  unfold Sel.firstErr
  induction s.rds with
  | nil => simp [live]
  | cons d ds ih =>
    cases hu : d.used with
    | false => simpa [live, hu] using ih
    | true =>
      simp only [live, List.filter_cons, hu, ↓reduceIte, List.map_cons, List.findSome?_cons,
        Sel.bad_erase ph]
      cases sel.errOn ph d with
      | some e => rfl
      | none => simpa [live] using ih

theorem any_used_objs (s : Img) : s.rds.any (·.used) = !(abs s).objs.isEmpty := by
  rw [abs_objs]
  induction s.rds with
  | nil => simp [live]
  | cons d ds ih => cases hu : d.used <;> simp [live, hu] <;> simpa [live] using ih

theorem any_hit_objs (s : Img) (sel : Sel) :
    s.rds.any (hit ph sel) = (abs s).objs.any (fun o => sel.sat ph o.d) := by
  rw [abs_objs]
  induction s.rds with
  | nil => simp [live]
  | cons d ds ih =>
    have ih' : ds.any (hit ph sel) =
        (List.map (fun d => ({ d := erase d, content := objContent s.st d } : AObj)) (live ds)).any
          (fun o => sel.sat ph o.d) := ih
    cases hu : d.used with
    | false => simpa [live, hu, hit] using ih'
    | true =>
      simp only [List.any_cons, hit, hu, Bool.true_and, live, List.filter_cons, ↓reduceIte,
        List.map_cons, Sel.sat_erase]
      congr 1

theorem any_hit_primary (s : Img) (sel : Sel) :
    (s.rds.filter (hit ph sel)).any (fun d => d.isPartitionOfType partPrimSys) =
      (abs s).objs.any (fun o => sel.sat ph o.d && AImg.isPrimary o) := by
  rw [abs_objs]
  induction s.rds with
  | nil => simp [live]
  | cons d ds ih =>
    cases hu : d.used with
    | false => simpa [live, hu, hit] using ih
    | true =>
      cases hh : sel.holds ph d with
      | false => simpa [live, hu, hit, hh, Sel.sat_erase] using ih
      | true =>
        simp only [List.filter_cons, hit, hu, hh, Bool.and_self, ↓reduceIte, List.any_cons, live,
          List.map_cons, Sel.sat_erase, AImg.isPrimary, erase_isPart, Bool.true_and]
        congr 1

theorem refine_del (s : Img) (W : WF s) (P : Placed s) (R : Ranges s) (sel : Sel) (zero compact : Bool)
    (topt : TOpt) (now : Int) (hio : (step sha ph s (.del sel zero compact topt) now).2 ≠ .err .io) :
    (step sha ph s (.del sel zero compact topt) now).2 = ((abs s).del ph sel topt now).2 ∧
    abs (step sha ph s (.del sel zero compact topt) now).1 = ((abs s).del ph sel topt now).1 := by
  obtain ⟨st', _, hs', hres⟩ := step_store sha ph s (.del sel zero compact topt) now (by simp) hio
  have hplan0 : plan sha ph s (.del sel zero compact topt) now =
      deleteObjectsPlan ph s sel zero compact topt now := rfl
  have hr := deleteObjectsPlan_res ph s sel zero compact topt now
  rw [← hplan0, ← hres] at hr
  have rej : ∀ e, (step sha ph s (.del sel zero compact topt) now).2 = .err e →
      abs (step sha ph s (.del sel zero compact topt) now).1 = abs s :=
    fun e he => refine_rejected sha ph s W P R _ now (by rw [he]; simp) hio
  unfold AImg.del
  rw [firstErr_objs ph, abs_time]
  cases he : sel.firstErr ph s.rds with
  | some e =>
    rw [he] at hr
    dsimp only at hr ⊢
    exact ⟨hr, rej _ hr⟩
  | none =>
    rw [he] at hr
    dsimp only at hr ⊢
    rw [← any_hit_objs ph]
    cases hany : s.rds.any (hit ph sel) with
    | false =>
      rw [hany] at hr
      simp only [Bool.false_eq_true, ↓reduceIte] at hr
      simp only [Bool.not_false, ↓reduceIte]
      exact ⟨hr, rej _ hr⟩
    | true =>
      rw [hany] at hr
      simp only [↓reduceIte] at hr
      simp only [Bool.not_true, Bool.false_eq_true, ↓reduceIte]
      refine ⟨hr, ?_⟩
      have hok : (plan sha ph s (.del sel zero compact topt) now).2.2 = .ok := by rw [← hres]; exact hr
      rcases deleteObjectsPlan_cases ph s sel zero compact topt now with ⟨calls, e, h⟩ | ⟨hs, _, h⟩
      · rw [hplan0, h] at hok; cases hok
      · rw [hplan0, h] at hs'
        rw [hs']
        obtain ⟨f1, f2, f3, f4, f5, f6⟩ := deleteFinish_hdr s
          (hdrAfterDelete s.h (s.rds.filter (hit ph sel)))
          (s.rds.map (fun d => if hit ph sel d then zeroDesc else d)) compact (resolveTime s topt now)
        have hd := hdrAfterDelete_doff s.h (s.rds.filter (hit ph sel))
        unfold abs
        simp only [deleteResult, f1, f2, f3, f4, f5, f6, hd.2.2.2.2.2.1, hd.2.2.2.2.2.2.2.2.1,
          hd.2.2.2.2.2.2.2.2.2.1, hdrAfterDelete_arch, any_hit_primary ph]
        congr 1
        simp only [List.map_map]
        apply List.map_congr_left
        intro d hd'
        simp only [Function.comp]
        cases hu : d.used with
        | false => simp [absSlot, hit, hu]
        | true =>
          cases hh : sel.holds ph d with
          | true => simp [absSlot, hit, hu, hh, zeroDesc, Sel.sat_erase]
          | false =>
            have hk := content_kept sha ph s W P R (.del sel zero compact topt) now hio d hd' hu
              (fun _ => by simp [survives, hit, hu, hh])
            rw [hs'] at hk
            simp only [hit, hu, hh, Bool.and_false, Bool.false_eq_true, ↓reduceIte, absSlot,
              Sel.sat_erase]
            exact congrArg _ (by rw [hk])

/-! ### add -/
/-- what `AddObject` answers, as a chain of checks -/
def addVerdict (s : Img) (di : DI) (topt : TOpt) (now : Int) : Res :=
  let i := findFreeSlot s.rds
  if i ≥ s.rds.length then .err .insufficientCapacity
  else if (i : Int) ≥ maxU32 then .err .objectIDOverflow
  else match primaryCheck ph s di.md with
    | .error e => .err e
    | .ok _ =>
      match nextAligned (s.h.dataOff + calculatedDataSize s.h s.rds) di.alignment with
      | .error e => .err e
      | .ok _ =>
        if di.readerFails then .err .reader
        else match fillDescriptor sha di di.delivered (resolveTime s topt now) { zeroDesc with id := i + 1 } with
          | .error e => .err e
          | .ok _ => .ok

theorem addObjectPlan_res (s : Img) (di : DI) (topt : TOpt) (now : Int) :
    (addObjectPlan sha ph s di topt now).2.2 = addVerdict sha ph s di topt now := by
  unfold addObjectPlan addVerdict writeDataObject
  dsimp only
  by_cases h1 : findFreeSlot s.rds ≥ s.rds.length
  · simp only [h1, ↓reduceIte]
  · simp only [h1, ↓reduceIte]
    by_cases h2 : (findFreeSlot s.rds : Int) ≥ maxU32
    · simp only [h2, ↓reduceIte]
    · simp only [h2, ↓reduceIte]
      cases hp : primaryCheck ph s di.md with
      | error e => rfl
      | ok arch =>
        dsimp only
        unfold writeDataObjectAt
        cases hn : nextAligned (s.h.dataOff + calculatedDataSize s.h s.rds) di.alignment with
        | error e => rfl
        | ok off =>
          dsimp only
          by_cases hf : di.readerFails
          · simp only [hf, ↓reduceIte]
          · simp only [hf, Bool.false_eq_true, ↓reduceIte]
            cases hfd : fillDescriptor sha di di.delivered (resolveTime s topt now)
                { zeroDesc with id := findFreeSlot s.rds + 1 } with
            | error e => rfl
            | ok d' => rfl

theorem live_nil_of_empty (s : Img) (h : s.isEmpty = true) : live s.rds = [] := by
  unfold Img.isEmpty at h
  simp only [Bool.not_eq_eq_eq_not, Bool.not_true, List.any_eq_false] at h
  unfold live
  rw [List.filter_eq_nil_iff]
  intro d hd
  simpa using h d hd

theorem primaryCheck_abs (s : Img) (W : WF s) (md : MDIn) :
    primaryCheck ph s md =
      if md.wantsPrimary then
        (if (abs s).hasPrimary then .error .primaryPartition else .ok (some (md.primaryArch s.h.arch)))
      else .ok none := by
  cases md with
  | part fs pt ar =>
    simp only [primaryCheck, MDIn.wantsPrimary, MDIn.primaryArch]
    by_cases hpt : pt == partPrimSys
    · simp only [hpt, ↓reduceIte]
      rw [abs_hasPrimary]
      unfold getDescriptors
      by_cases hfull : s.isEmpty = true
      · have hl := live_nil_of_empty s hfull
        simp [hfull, hl]
      · simp only [hfull, Bool.false_eq_true, ↓reduceIte]
        rw [selectDescs_pure ph [.partType partPrimSys] s.rds (fun d => d.isPartitionOfType partPrimSys)
          (fun d _ _ => by
            rw [multiSel_noErr ph [.partType partPrimSys] d (by simp [Sel.noErr])]
            simp [Sel.holds])]
        cases hfl : (live s.rds).filter (fun d => d.isPartitionOfType partPrimSys) with
        | nil =>
          have : (live s.rds).any (fun d => d.isPartitionOfType partPrimSys) = false := by
            rw [List.any_eq_false]
            intro x hx hp
            have : x ∈ (live s.rds).filter (fun d => d.isPartitionOfType partPrimSys) := by
              simp [hx, hp]
            rw [hfl] at this; cases this
          simp [this]
        | cons x xs =>
          have : (live s.rds).any (fun d => d.isPartitionOfType partPrimSys) = true := by
            rw [List.any_eq_true]
            have hx : x ∈ (live s.rds).filter (fun d => d.isPartitionOfType partPrimSys) := by
              rw [hfl]; simp
            simp only [List.mem_filter] at hx
            exact ⟨x, hx.1, hx.2⟩
          simp [this]
    · simp only [hpt, Bool.false_eq_true, ↓reduceIte]
  | _ => rfl

theorem primaryArch_getD (md : MDIn) (dflt : Bytes) :
    (if md.wantsPrimary then some (md.primaryArch dflt) else none).getD dflt = md.primaryArch dflt := by
  cases md with
  | part fs pt ar => by_cases h : pt == partPrimSys <;> simp [MDIn.wantsPrimary, MDIn.primaryArch, h]
  | _ => rfl

theorem fillDescriptor_place (di : DI) (copied : Bytes) (t : Int) (d0 d' : RawDesc)
    (h : fillDescriptor sha di copied t d0 = .ok d') :
    d'.off = d0.off ∧ d'.sizePad = d0.sizePad ∧ d'.id = d0.id := by
  unfold fillDescriptor at h
  dsimp only at h
  split at h
  · cases h
  · obtain ⟨a, b, c⟩ := setExtra_place sha copied di.md _ d' h
    unfold setExtra at h
    cases hm : di.md.marshal sha copied with
    | error e => simp [hm] at h
    | ok ob =>
      cases ob with
      | none => simp [hm] at h; subst h; exact ⟨rfl, rfl, rfl⟩
      | some b =>
        simp only [hm] at h
        split at h
        · cases h
        · cases h; exact ⟨rfl, rfl, rfl⟩

theorem refine_add (s : Img) (W : WF s) (P : Placed s) (R : Ranges s) (di : DI)
    (topt : TOpt) (now : Int) (hout : (step sha ph s (.add di topt) now).2.outsideSpec = false) :
    (step sha ph s (.add di topt) now).2 = ((abs s).add sha di topt now).2 ∧
    abs (step sha ph s (.add di topt) now).1 = ((abs s).add sha di topt now).1 := by
  have hio : (step sha ph s (.add di topt) now).2 ≠ .err .io := by
    intro h; rw [h] at hout; simp [Res.outsideSpec] at hout
  obtain ⟨st', _, hs', hres⟩ := step_store sha ph s (.add di topt) now (by simp) hio
  have hplan0 : plan sha ph s (.add di topt) now = addObjectPlan sha ph s di topt now := rfl
  have hv := addObjectPlan_res sha ph s di topt now
  rw [← hplan0, ← hres] at hv
  have rej : ∀ e, (step sha ph s (.add di topt) now).2 = .err e →
      abs (step sha ph s (.add di topt) now).1 = abs s :=
    fun e he => refine_rejected sha ph s W P R _ now (by rw [he]; simp) hio
  unfold AImg.add
  rw [abs_freeSlot, abs_time]
  have hcap : (abs s).capacity = s.rds.length := abs_slots_length s
  unfold addVerdict at hv
  dsimp only at hv ⊢
  rw [hcap]
  by_cases h1 : findFreeSlot s.rds ≥ s.rds.length
  · rw [if_pos h1] at hv ⊢
    exact ⟨hv, rej _ hv⟩
  · rw [if_neg h1] at hv ⊢
    by_cases h2 : (findFreeSlot s.rds : Int) ≥ maxU32
    · rw [if_pos h2] at hv
      rw [hv] at hout; simp [Res.outsideSpec] at hout
    · rw [if_neg h2, primaryCheck_abs ph s W] at hv
      by_cases hp : (di.md.wantsPrimary && (abs s).hasPrimary) = true
      · rw [if_pos hp]
        simp only [Bool.and_eq_true] at hp
        rw [if_pos hp.1, if_pos hp.2] at hv
        exact ⟨hv, rej _ hv⟩
      · rw [if_neg hp]
        have hpc : (if di.md.wantsPrimary = true then
              (if (abs s).hasPrimary = true then Except.error Err.primaryPartition
               else Except.ok (some (di.md.primaryArch s.h.arch)))
            else Except.ok none) =
            Except.ok (if di.md.wantsPrimary then some (di.md.primaryArch s.h.arch) else none) := by
          cases hw : di.md.wantsPrimary with
          | false => simp
          | true =>
            cases hh : (abs s).hasPrimary with
            | false => simp
            | true => simp [hw, hh] at hp
        rw [hpc] at hv
        dsimp only at hv
        cases hn : nextAligned (s.h.dataOff + calculatedDataSize s.h s.rds) di.alignment with
        | error e =>
          rw [hn] at hv
          dsimp only at hv
          have he : e = .alignmentOverflow := by
            unfold nextAligned at hn
            split at hn
            · cases hn
            · dsimp only at hn
              split at hn
              · cases hn; rfl
              · cases hn
          subst he
          rw [hv] at hout; simp [Res.outsideSpec] at hout
        | ok off =>
          rw [hn] at hv
          dsimp only at hv
          by_cases hf : di.readerFails = true
          · rw [if_pos hf] at hv ⊢
            exact ⟨hv, rej _ hv⟩
          · rw [if_neg hf] at hv ⊢
            have hf' : di.readerFails = false := by simpa using hf
            have hdel : di.delivered = di.content := by
              unfold DI.readerFails at hf'
              unfold DI.delivered
              cases hfa : di.failAt with
              | none => rfl
              | some n => rw [hfa] at hf'; simp at hf'
            rw [hdel] at hv
            cases hfd : fillDescriptor sha di di.content (resolveTime s topt now)
                { zeroDesc with id := findFreeSlot s.rds + 1 } with
            | error e =>
              rw [hfd] at hv
              dsimp only at hv ⊢
              exact ⟨hv, rej _ hv⟩
            | ok d' =>
              rw [hfd] at hv
              dsimp only at hv ⊢
              refine ⟨hv, ?_⟩
              -- the accepted add
              obtain ⟨d, calls, hslot, hud, hid, hcont, hw, _⟩ := add_readback sha ph s W P di topt now hv
              rcases addObjectPlan_cases sha ph s di topt now with ⟨c0, e, h⟩ | ⟨c1, dd, arch1, _, hp1, hw1, h⟩
              · have : (plan sha ph s (.add di topt) now).2.2 = .err e := by rw [hplan0, h]
                rw [← hres, hv] at this; cases this
              · rw [hw] at hw1
                cases hw1
                dsimp only at h
                rw [primaryCheck_abs ph s W, hpc] at hp1
                cases hp1
                -- shape of the new descriptor
                have hdshape : erase d = (AObj.fresh d' di.content).d := by
                  unfold writeDataObjectAt at hw
                  rw [hn] at hw
                  dsimp only at hw
                  rw [hf', hdel, hfd] at hw
                  simp only [Bool.false_eq_true, ↓reduceIte, Prod.mk.injEq, Except.ok.injEq] at hw
                  obtain ⟨o1, o2, _⟩ := fillDescriptor_place sha di di.content _ _ d' hfd
                  rw [← hw.2]
                  unfold erase AObj.fresh
                  cases d'
                  simp only [zeroDesc] at o1 o2
                  simp_all
                have hkeep : ∀ x ∈ s.rds, x.used = true →
                    objContent st' x = objContent s.st x := by
                  intro x hx hxu
                  have := content_kept sha ph s W P R (.add di topt) now hio x hx hxu (fun _ => trivial)
                  rwa [hs'] at this
                have hmap : s.rds.map (absSlot st') = s.rds.map (absSlot s.st) :=
                  absSlot_congr _ _ _ hkeep
                have hcont' : objContent st' d = di.content := by
                  rw [hs'] at hcont; exact hcont
                have hsd : absSlot st' d = some (AObj.fresh d' di.content) := by
                  unfold absSlot
                  rw [if_pos hud, hcont', hdshape]
                  rfl
                rw [hs', hplan0, h]
                unfold abs
                simp only [commitObject, List.map_set, hmap, hsd, primaryArch_getD]

end Sif
