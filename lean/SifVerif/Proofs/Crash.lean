/-
  Proofs/Crash.lean — interrupted operations (C09).

  `CrashOf st cs st'`: `st'` is a store an interruption of the call list `cs`, started on `st`,
  can leave behind: any prefix of whole calls, optionally followed by a byte prefix of the next
  write (a torn write).  `CrashBetween` is the sub-relation without torn writes.
  Every operation's plan splits into a data phase whose calls never touch the header or the
  descriptor table, and the final `writeDescriptors(); writeHeader()`.
-/
import SifVerif.Proofs.Readback
namespace Sif

variable (sha : Bytes → Bytes) (ph : Bytes → Option Bytes)

inductive CrashOf : Store → List IOCall → Store → Prop
  | stop (st : Store) (cs : List IOCall) : CrashOf st cs st
  | torn (st st' : Store) (p : Bytes) (rest : List IOCall) (j : Nat) :
      st.call (.write (p.take j)) = some st' → CrashOf st (.write p :: rest) st'
  | next (st s1 st' : Store) (c : IOCall) (cs : List IOCall) :
      st.call c = some s1 → CrashOf s1 cs st' → CrashOf st (c :: cs) st'

inductive CrashBetween : Store → List IOCall → Store → Prop
  | stop (st : Store) (cs : List IOCall) : CrashBetween st cs st
  | next (st s1 st' : Store) (c : IOCall) (cs : List IOCall) :
      st.call c = some s1 → CrashBetween s1 cs st' → CrashBetween st (c :: cs) st'

theorem CrashBetween.toCrashOf {st cs st'} (h : CrashBetween st cs st') : CrashOf st cs st' := by
  induction h with
  | stop st cs => exact .stop st cs
  | next st s1 st' c cs hc _ ih => exact .next st s1 st' c cs hc ih

/-- running all calls is one of the crash points -/
theorem CrashBetween.of_calls (st st' : Store) (cs : List IOCall) (h : st.calls cs = some st') :
    CrashBetween st cs st' := by
  induction cs generalizing st with
  | nil => simp only [Store.calls, Option.some.injEq] at h; subst h; exact .stop _ _
  | cons c cs ih =>
    simp only [Store.calls] at h
    cases h1 : st.call c with
    | none => simp [h1] at h
    | some s1 => simp only [h1] at h; exact .next st s1 st' c cs h1 (ih s1 h)

/-- a region every call is safe for survives every interruption -/
theorem crash_frame (lo hi : Nat) (hlh : lo ≤ hi) (cs : List IOCall) (st st' : Store)
    (hin : hi ≤ st.buf.length) (hs : callsSafe lo hi st cs) (hc : CrashOf st cs st') :
    hi ≤ st'.buf.length ∧ slice st'.buf lo (hi - lo) = slice st.buf lo (hi - lo) := by
  induction hc with
  | stop st cs => exact ⟨hin, rfl⟩
  | torn st st' p rest j hcall =>
    exact call_frame lo hi hlh st st' _ hin (callSafe_torn lo hi st p j hs.1) hcall
  | next st s1 st' c cs hcall _ ih =>
    obtain ⟨a1, a2⟩ := call_frame lo hi hlh st s1 c hin hs.1 hcall
    obtain ⟨b1, b2⟩ := ih a1 (hs.2 s1 hcall)
    exact ⟨b1, by rw [b2, a2]⟩

/-- an interruption of `a ++ b` falls inside `a`, or after all of `a` inside `b` -/
theorem crash_append (a b : List IOCall) (st st' : Store) (h : CrashOf st (a ++ b) st') :
    CrashOf st a st' ∨ ∃ s1, st.calls a = some s1 ∧ CrashOf s1 b st' := by
  induction a generalizing st with
  | nil => exact Or.inr ⟨st, rfl, h⟩
  | cons c a ih =>
    rw [List.cons_append] at h
    cases h with
    | stop => exact Or.inl (.stop _ _)
    | torn _ _ p _ j hcall => exact Or.inl (.torn _ _ p _ j hcall)
    | next _ s1 _ _ _ hcall hrest =>
      rcases ih s1 hrest with h1 | ⟨s2, h2, h3⟩
      · exact Or.inl (.next _ s1 _ _ _ hcall h1)
      · exact Or.inr ⟨s2, by simp [Store.calls, hcall, h2], h3⟩

theorem crashBetween_append (a b : List IOCall) (st st' : Store) (h : CrashBetween st (a ++ b) st') :
    CrashBetween st a st' ∨ ∃ s1, st.calls a = some s1 ∧ CrashBetween s1 b st' := by
  induction a generalizing st with
  | nil => exact Or.inr ⟨st, rfl, h⟩
  | cons c a ih =>
    rw [List.cons_append] at h
    cases h with
    | stop => exact Or.inl (.stop _ _)
    | next _ s1 _ _ _ hcall hrest =>
      rcases ih s1 hrest with h1 | ⟨s2, h2, h3⟩
      · exact Or.inl (.next _ s1 _ _ _ hcall h1)
      · exact Or.inr ⟨s2, by simp [Store.calls, hcall, h2], h3⟩

/-! ### every plan = data phase ++ flush, and the data phase stays off the metadata -/

/-- the calls of every plan split into a prefix that is safe for any region lying below the data
    offset (header, descriptor table) and, for an accepted mutation, the final flush -/
theorem plan_pre_safe (s : Img) (W : WF s) (P : Placed s) (op : Op) (now : Int) :
    ∃ pre post, (plan sha ph s op now).1 = pre ++ post ∧
      (∀ lo hi : Nat, lo ≤ hi → hi ≤ s.st.buf.length → (hi : Int) ≤ s.h.dataOff →
        callsSafe lo hi s.st pre) ∧
      (post = [] ∧ ((plan sha ph s op now).2.2 ≠ .ok ∨ (plan sha ph s op now).2.1 = s) ∨
       (plan sha ph s op now).2.2 = .ok ∧ post = flushCalls (plan sha ph s op now).2.1 ∧
         (plan sha ph s op now).2.1.h.doff = s.h.doff ∧
         (plan sha ph s op now).2.1.rds.length = s.rds.length) := by
  have hcalc := calculatedDataSize_nonneg s.h s.rds
  by_cases hok : (plan sha ph s op now).2.2 = .ok
  case neg =>
    refine ⟨(plan sha ph s op now).1, [], by simp, ?_, Or.inl ⟨rfl, Or.inl hok⟩⟩
    intro lo hi hlh hin hdo
    rcases plan_rejected_calls sha ph s op now hok with hc | ⟨off, p, hge, hc⟩
    · rw [hc]; trivial
    · rw [hc]
      by_cases hp : p.isEmpty
      · simp only [hp, ↓reduceIte, List.append_nil]; exact safe_seek _ _ _ _ _ (fun _ => trivial)
      · simp only [hp, Bool.false_eq_true, ↓reduceIte, List.cons_append, List.nil_append]
        apply safe_seek_write
        · right; omega
        · intro _; trivial
  case pos =>
    cases op with
    | add di t =>
      simp only [plan] at hok ⊢
      rcases addObjectPlan_cases sha ph s di t now with ⟨calls, e, h⟩ | ⟨calls, dn, arch, hi', hp, hw, h⟩
      · rw [h] at hok; cases hok
      · simp only at h
        rw [h]
        obtain ⟨off, hn, _, hcalls, _⟩ := writeDataObjectAt_ok sha _ di _ _ dn calls hw
        have hge := nextAligned_ge _ _ _ hn
        refine ⟨calls, _, rfl, ?_, Or.inr ⟨rfl, rfl, by simp [commitObject], by simp [commitObject]⟩⟩
        intro lo hi hlh hin hdo
        rw [hcalls]
        by_cases hp : di.content.isEmpty
        · simp only [hp, ↓reduceIte, List.append_nil]; exact safe_seek _ _ _ _ _ (fun _ => trivial)
        · simp only [hp, Bool.false_eq_true, ↓reduceIte, List.cons_append, List.nil_append]
          apply safe_seek_write
          · right; omega
          · intro _; trivial
    | del sel z c t =>
      simp only [plan] at hok ⊢
      rcases deleteObjectsPlan_cases ph s sel z c t now with ⟨calls, e, h⟩ | ⟨hs, hany, h⟩
      · rw [h] at hok; cases hok
      · rw [h]
        have hdoff : (deleteResult ph s sel c (resolveTime s t now)).h.doff = s.h.doff := by
          have := hdrAfterDelete_doff s.h (s.rds.filter (hit ph sel))
          cases c <;> simp [deleteResult, deleteFinish, this]
        have hdataOff : (deleteResult ph s sel c (resolveTime s t now)).h.dataOff = s.h.dataOff := by
          have := hdrAfterDelete_doff s.h (s.rds.filter (hit ph sel))
          cases c <;> simp [deleteResult, deleteFinish, this]
        have hlen : (deleteResult ph s sel c (resolveTime s t now)).rds.length = s.rds.length := by
          simp [deleteResult, deleteFinish]
        refine ⟨_, _, rfl, ?_, Or.inr ⟨rfl, rfl, hdoff, hlen⟩⟩
        intro lo hi hlh hin hdo
        unfold deletePre
        apply callsSafe_append _ _ hlh _ _ s.st hin
        · apply zeroCalls_safe _ _ hlh z _ s.st hin
          intro x hx _
          simp only [List.mem_filter] at hx
          obtain ⟨hxm, hxh⟩ := hx
          have hxu : x.used = true := by simp only [hit, Bool.and_eq_true] at hxh; exact hxh.1
          obtain ⟨hxlo, _⟩ := P.inData x hxm hxu
          exact ⟨by have := W.doff; have := W.tabEnd; omega, Or.inr (by omega)⟩
        · intro st' hin'
          cases c with
          | false => trivial
          | true =>
            simp only [↓reduceIte]
            apply resize_safe _ _ _ _ _ hin'
            rw [hdataOff]
            have hds : (deleteResult ph s sel true (resolveTime s t now)).h.dataSize =
                calculatedDataSize
                  ({ hdrAfterDelete s.h (s.rds.filter (hit ph sel)) with mtime := resolveTime s t now })
                  (s.rds.map (fun d => if hit ph sel d then zeroDesc else d)) := by
              simp [deleteResult, deleteFinish]
            rw [hds]
            have := calculatedDataSize_nonneg
              ({ hdrAfterDelete s.h (s.rds.filter (hit ph sel)) with mtime := resolveTime s t now })
              (s.rds.map (fun d => if hit ph sel d then zeroDesc else d))
            omega
    | setPrim id t =>
      simp only [plan] at hok ⊢
      rcases setPrimPartPlan_cases ph s id t now with ⟨r, h⟩ | ⟨k, rds1, hdm, h⟩
      · rw [h] at hok ⊢
        exact ⟨[], [], rfl, fun _ _ _ _ _ => trivial, Or.inl ⟨rfl, Or.inr rfl⟩⟩
      · rw [h]
        refine ⟨[], _, rfl, fun _ _ _ _ _ => trivial, Or.inr ⟨rfl, rfl, rfl, ?_⟩⟩
        simp only [setPrimResult, List.length_set]
        have := congrArg List.length (demotePrimary_keys ph s.rds rds1 _ hdm)
        simpa using this
    | setMeta id md t =>
      simp only [plan, setMetadataPlan] at hok ⊢
      cases h1 : getDescriptorIdx ph s.rds [Sel.id id] with
      | error e => simp [h1] at hok
      | ok k =>
        simp only [h1] at hok ⊢
        rcases setExtraPlan_cases sha s k md (resolveTime s t now) with ⟨e, h⟩ | ⟨d', _, h⟩
        · rw [h] at hok; cases hok
        · simp only at h; rw [h]
          exact ⟨[], _, rfl, fun _ _ _ _ _ => trivial, Or.inr ⟨rfl, rfl, rfl, by simp⟩⟩
    | setOCI id text t =>
      simp only [plan, setOCIBlobDigestPlan] at hok ⊢
      cases h1 : getDescriptorIdx ph s.rds [Sel.id id] with
      | error e => simp [h1] at hok
      | ok k =>
        simp only [h1] at hok ⊢
        split at hok
        · cases hok
        · rename_i hdt
          simp only [hdt, ↓reduceIte]
          rcases setExtraPlan_cases sha s k (.ociText text) (resolveTime s t now) with ⟨e, h⟩ | ⟨d', _, h⟩
          · rw [h] at hok; cases hok
          · simp only at h; rw [h]
            exact ⟨[], _, rfl, fun _ _ _ _ _ => trivial, Or.inr ⟨rfl, rfl, rfl, by simp⟩⟩
    | reload =>
      exact ⟨[], [], rfl, fun _ _ _ _ _ => trivial, Or.inl ⟨rfl, Or.inr rfl⟩⟩

/-! ### the flush phase, call by call -/

theorem SyncedAt.table_written (h : Hdr) (rds rds' : List RawDesc) (st : Store)
    (S : SyncedAt h rds st.buf) (hd : 128 ≤ h.doff) (hl : rds'.length = rds.length) :
    SyncedAt h rds' (({ st with pos := h.doff.toNat } : Store).write (encTable rds')).buf := by
  have hdn : 128 ≤ h.doff.toNat := by omega
  have hlen := S.hlen
  by_cases hT : rds' = []
  · have hT0 : rds = [] := by
      cases rds with
      | nil => rfl
      | cons => simp [hT] at hl
    subst hT hT0
    cases hbe : st.be <;> simp only [Store.write, hbe, encTable_nil, List.isEmpty_nil, ↓reduceIte]
    · refine ⟨by simp; omega, ?_, by simp, by simp [slice]⟩
      rw [slice_writeAt_frame _ _ _ _ _ (Or.inl (by omega)) (by omega)]; exact S.hhdr
    · exact S
  · have hne : rds ≠ [] := by
      intro e; subst e
      cases rds' with
      | nil => exact hT rfl
      | cons => simp at hl
    have hTne : (encTable rds').isEmpty = false := by
      cases h : encTable rds' with
      | nil =>
        have := encTable_length rds'
        rw [h] at this
        cases hr : rds' with
        | nil => exact absurd hr hT
        | cons => simp [hr] at this
      | cons => rfl
    have key : SyncedAt h rds' (writeAt st.buf h.doff.toNat (encTable rds')) := by
      refine ⟨by simp; omega, ?_, fun _ => by simp [encTable_length]; omega, ?_⟩
      · rw [slice_writeAt_frame _ _ _ _ _ (Or.inl (by omega)) (by omega)]; exact S.hhdr
      · have := slice_writeAt_same st.buf h.doff.toNat (encTable rds')
        rwa [encTable_length] at this
    cases hbe : st.be <;> simp only [Store.write, hbe, hTne, Bool.false_eq_true, ↓reduceIte] <;> exact key

theorem SyncedAt.header_written (h h' : Hdr) (rds : List RawDesc) (st : Store)
    (S : SyncedAt h rds st.buf) (hd : 128 ≤ h.doff) (hdd : h'.doff = h.doff) :
    SyncedAt h' rds (({ st with pos := 0 } : Store).write (encHdr h')).buf := by
  have hdn : 128 ≤ h.doff.toNat := by omega
  have hlen := S.hlen
  have hH : (encHdr h').isEmpty = false := by
    cases e : encHdr h' with
    | nil => have := encHdr_length h'; simp [e] at this
    | cons => rfl
  have key : SyncedAt h' rds (writeAt st.buf 0 (encHdr h')) := by
    refine ⟨by simp; omega, ?_, fun hne => by have := S.tlen hne; simp; omega, ?_⟩
    · have := slice_writeAt_same st.buf 0 (encHdr h')
      rwa [encHdr_length] at this
    · rw [hdd]
      by_cases hne : rds = []
      · simp [hne, slice]
      · rw [slice_writeAt_frame _ _ _ _ _ (Or.inr (by simp [encHdr_length]; omega)) (S.tlen hne)]
        exact S.htab
  cases hbe : st.be <;> simp only [Store.write, hbe, hH, Bool.false_eq_true, ↓reduceIte] <;> exact key

/-- interrupting `writeDescriptors(); writeHeader()` between calls leaves the old header and table,
    the old header with the new table, or the new header and table -/
theorem flush_crash (h : Hdr) (rds : List RawDesc) (s' : Img) (s1 st' : Store)
    (S : SyncedAt h rds s1.buf) (hd : 128 ≤ h.doff) (hdd : s'.h.doff = h.doff)
    (hl : s'.rds.length = rds.length) (hc : CrashBetween s1 (flushCalls s') st') :
    SyncedAt h rds st'.buf ∨ SyncedAt h s'.rds st'.buf ∨ SyncedAt s'.h s'.rds st'.buf := by
  have h0 : ¬ s'.h.doff < 0 := by omega
  simp only [flushCalls, writeDescriptorsCalls, writeHeaderCalls, List.cons_append, List.nil_append] at hc
  cases hc with
  | stop => exact Or.inl S
  | next _ a1 _ _ _ c1 r1 =>
    simp only [Store.call, Store.seekStart, h0, ↓reduceIte, Option.some.injEq] at c1
    subst c1
    cases r1 with
    | stop => exact Or.inl S
    | next _ a2 _ _ _ c2 r2 =>
      simp only [Store.call, Option.some.injEq] at c2
      subst c2
      have S2 := SyncedAt.table_written h rds s'.rds s1 S hd hl
      rw [← hdd] at S2
      cases r2 with
      | stop => exact Or.inr (Or.inl S2)
      | next _ a3 _ _ _ c3 r3 =>
        simp only [Store.call, Store.seekStart, show ¬ (0 : Int) < 0 by omega, ↓reduceIte,
          Option.some.injEq] at c3
        subst c3
        cases r3 with
        | stop => exact Or.inr (Or.inl S2)
        | next _ a4 _ _ _ c4 r4 =>
          simp only [Store.call, Option.some.injEq] at c4
          subst c4
          cases r4 with
          | stop =>
            right; right
            have := SyncedAt.header_written h s'.h s'.rds _ S2 hd hdd
            simpa using this

end Sif
